#!/usr/bin/env python3
"""Rewrites the tables of DESIGN.md section 6.1 / 6.2 from known_findings.jsonl (the single source)."""
import json, re
rows_fixed, rows_known = [], []
for line in open('/verif/known_findings.jsonl'):
    line = line.strip()
    if not line:
        continue
    e = json.loads(line)
    what = e['what'].replace('|', '\\|')
    if e.get('fixed'):
        what = re.sub(r'^fixed: property=\S+ \S+ ', '', what)
        rows_fixed.append('| %s | `%s` | %s |' % (e['property'], e['commit'], what))
    else:
        rows_known.append('| %s | `%s` | %s |' % (e['property'], e['key'], what))
md = open('/verif/DESIGN.md').read()
def repl(md, header, table_head, rows, stop):
    i = md.index(header)
    j = md.index(stop, i)
    return md[:i] + header + '\n\n' + table_head + '\n' + '\n'.join(rows) + '\n\n' + md[j:]
md = repl(md, '### 6.1 Repaired (`fix:` commits in /repo)', '| property | commit | what failed |\n|---|---|---|', rows_fixed, '### 6.2 Known findings')
md = repl(md, '### 6.2 Known findings (recorded, not repaired)', '| property | key | what fails and why it is not repaired here |\n|---|---|---|', rows_known, 'Pre-existing upstream test failures')
ncommits = len({r.split('`')[1] for r in rows_fixed})
md = re.sub(r'in `/repo` \(\d+ commits( for \d+ recorded failures)?;', 'in `/repo` (%d commits for %d recorded failures;' % (ncommits, len(rows_fixed)), md)
open('/verif/DESIGN.md', 'w').write(md)
print(len(rows_fixed), 'fixed,', len(rows_known), 'known')
