#!/bin/bash
# Runs every registered quick (or thorough) command sequentially; prints a one-line summary per check.
# usage: run_all.sh [quick|thorough] [seed]
tier=${1:-quick}; seed=${2:-1}
cd /verif
for id in $(jq -r '.checks[].property_id' MANIFEST.json); do
  cmd=$(jq -r --arg id "$id" --arg t "${tier}_cmd" '.checks[]|select(.property_id==$id)|.[$t]' MANIFEST.json)
  start=$(date +%s)
  out=$(VERIF_SEED=$seed $cmd 2>/dev/null); rc=$?
  end=$(date +%s)
  nv=$(echo "$out" | grep -c '^VIOLATION')
  nk=$(echo "$out" | grep -c '^KNOWN-FINDING')
  echo "$id rc=$rc viol=$nv known=$nk $((end-start))s :: $(echo "$out" | tail -1 | cut -c1-120)"
done
