#!/usr/bin/env python3
"""Rewrites DESIGN.md section 8.2 (which checks catch which seeded changes) from seeded/*/meta.json and seeded/RESULTS.txt."""
import json, os, re, glob
res = {}
hdr = ''
for line in open('/verif/seeded/RESULTS.txt'):
    if line.startswith('#'):
        hdr += line[1:].strip() + '; '
        continue
    m = re.match(r'(\S+) vs (\S+): rc=(\d+) violations=(\d+) wall=(\d+)s keys=\[(.*)\]', line.strip())
    if m:
        res.setdefault(m.group(1), []).append(m.groups()[1:])
rows = []
ncaught = 0
for d in sorted(glob.glob('/verif/seeded/C*-m*')):
    name = os.path.basename(d)
    meta = json.load(open(os.path.join(d, 'meta.json')))
    rs = res.get(name, [])
    if not rs:
        rows.append('| %s | %s | %s | not run | |' % (name, meta['summary'].replace('|', '\\|'), meta['needs_to_manifest'].replace('|', '\\|')))
        continue
    parts, allkeys, caught = [], [], False
    for (chk, rc, nv, wall, keys) in rs:
        if rc == '1' and nv != '0':
            parts.append('caught by %s, %s s' % (chk, wall))
            allkeys += keys.split()
            caught = True
        elif rc == '0':
            parts.append('not seen by %s' % chk)
        else:
            parts.append('%s broken (rc=%s)' % (chk, rc))
    if caught:
        ncaught += 1
    verdict = '; '.join(parts) if caught else 'MISSED: ' + '; '.join(parts)
    if meta.get('note'):
        verdict += ' (' + meta['note'] + ')'
    ks = ', '.join('`%s`' % k for k in allkeys[:3]) + (' …' if len(allkeys) > 3 else '')
    rows.append('| %s | %s | %s | %s | %s |' % (name, meta['summary'].replace('|', '\\|'), meta['needs_to_manifest'].replace('|', '\\|'), verdict, ks))
hdr += '%d of %d seeded changes caught; ' % (ncaught, len(rows))
table = '| change | what it does | what it needs to show | quick check (seed 1) | violation keys (first 3) |\n|---|---|---|---|---|\n' + '\n'.join(rows)
md = open('/verif/DESIGN.md').read()
a = md.index('<!-- SEEDED-TABLE-BEGIN -->')
b = md.index('<!-- SEEDED-TABLE-END -->')
md = md[:a] + '<!-- SEEDED-TABLE-BEGIN -->\nRun: ' + hdr + '\n\n' + table + '\n' + md[b:]
open('/verif/DESIGN.md', 'w').write(md)
print(len(rows), 'rows')
