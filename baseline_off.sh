#!/bin/bash
# Runs the repository's pinned test suite with the verif guard OFF (no build tags) and checks
# that every test named stable_pass in /root/.vp/BASELINE.json passes.
export GOFLAGS=-mod=mod GOPROXY=off GOSUMDB=off GOTOOLCHAIN=local
cd /repo || exit 2
out=$(mktemp)
go test -json -vet=off -count=1 -timeout 25m ./... > "$out" 2>/dev/null
python3 - "$out" <<'PY'
import json,sys
passed=set(); failed=set()
for line in open(sys.argv[1]):
    try: e=json.loads(line)
    except Exception: continue
    if e.get("Test") and e.get("Action") in ("pass","fail"):
        (passed if e["Action"]=="pass" else failed).add(e["Package"]+"::"+e["Test"])
base=json.load(open("/root/.vp/BASELINE.json"))["stable_pass"]
missing=[t for t in base if t not in passed]
print("baseline tests: %d, passed now: %d, missing/failing: %d" % (len(base), len(base)-len(missing), len(missing)))
for t in missing: print("  NOT PASSING:", t)
sys.exit(1 if missing else 0)
PY
rc=$?
rm -f "$out"
exit $rc
