#!/usr/bin/env python3
"""Copies the ADDENDA texts of gen_manifest.py into the per-property sections of DESIGN.md (one paragraph per property,
replacing the paragraph of the previous round)."""
import re
src = open('/verif/gen_manifest.py').read()
a = src.index('ADDENDA = {')
b = src.index('}\nNOT_BUILT')
ns = {}
exec(src[a:b + 1], ns)
ADD = ns['ADDENDA']
d = open('/verif/DESIGN.md').read()
tail = " (Why: section 8.1, tables of missed changes; section 0.2b.)"
for pid, text in sorted(ADD.items()):
    m = re.search(r'^### %s .*$' % pid, d, re.M)
    assert m, pid
    nxt = re.search(r'^(### |## |---------)', d[m.end():], re.M)
    end = m.end() + nxt.start()
    sec = d[m.end():end]
    para = "**Added in the second and third round.** " + text + tail + "\n"
    old = re.search(r'^\*\*Added in the second( and third)? round\.\*\*.*\n', sec, re.M)
    if old:
        sec = sec[:old.start()] + para + sec[old.end():]
    else:
        sec = sec.rstrip('\n') + "\n\n" + para + "\n"
    d = d[:m.end()] + sec + d[end:]
open('/verif/DESIGN.md', 'w').write(d)
print("synced", len(ADD), "paragraphs")
