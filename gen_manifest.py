#!/usr/bin/env python3
"""Regenerates /verif/MANIFEST.json from the table below (single source of truth)."""
import json, os
GOENV = "GOFLAGS=-mod=mod GOPROXY=off GOSUMDB=off GOTOOLCHAIN=local"
# id -> (level, technique, level text, level note, design_ref)
CHECKS = {
 "C01": ("exploration", "reference-model monitor (maximal-live-candidate versioned map) over resolver calls on enumerated DAG shapes x placements and over recorded HTTP histories",
         "Every DAG shape with <=5 nodes (all ordered merge-parent lists) x every value/tombstone/nothing placement x every queried node is executed against the real resolver (exhaustive slice), larger DAGs and real put/delete/commit/branch/merge HTTP histories are sampled; the oracle is order-free so entry order and parent order are covered by shuffling/permutation.",
         "Trusts the 40-line reference model in harness/internal/dvc/dag.go; DAGs >10 nodes and >4 merge parents are not explored; Badger itself is trusted.", "3/C01"),
 "C07": ("exploration", "invariant monitor on /api/repos/info after every request + model agreement (accepted) + frame condition on graph, branch-head and per-uuid resolution (rejected)",
         "Random hostile request sequences over the whole repo-level vocabulary (incl. RPC-mirrored delete/rename) with duplicate / malformed / foreign arguments; after every request the server's own JSON is checked for single root, acyclicity, mirrored links, unique UUIDs and version ids, committed parents, linear named branches, and rejected requests are checked to leave graph, heads and uuid resolution untouched.",
         "Branch-head and uuid resolution are observed through a 'whoami' key of a keyvalue instance; only newly introduced conditions are attributed to a request; repeated merge parents (a mirrored multi-edge) are counted as observation, not violation.", "3/C07"),
}
NOT_BUILT = "check not built yet in this round (machinery in progress); see DESIGN.md section 3"
ALL = ["C%02d" % i for i in range(1, 21)]
NA = {}
m = {
 "version": 1,
 "setup_cmd": "cd /verif/harness && %s go build -o /verif/bin/ ./cmd/..." % GOENV,
 "hooks": {
  "guard": "verif",
  "enable": "go build -tags \"badger verif\" (the harness module /verif/harness replaces github.com/janelia-flyem/dvid => /repo)",
  "baseline_off_cmd": "cd /repo && %s go test -vet=off -count=1 -timeout 25m ./..." % GOENV,
  "source_commits": [],
  "add_only": True,
 },
 "engines": [],
 "checks": [],
 "not_applicable": [],
 "notes": "All checks are runtime monitors over executions of the real code (see DESIGN.md).",
}
for pid in ALL:
    if pid in CHECKS:
        level, tech, text, note, ref = CHECKS[pid]
        m["checks"].append({
            "property_id": pid,
            "quick_cmd": "/verif/bin/%s --tier quick" % pid.lower(),
            "thorough_cmd": "/verif/bin/%s --tier thorough" % pid.lower(),
            "evidence_file": "/verif/evidence/%s.json" % pid,
            "replay_cmd_template": "/verif/bin/%s --replay {path}" % pid.lower(),
            "engine": "dvidw",
            "level_claimed": {"category": level, "text": text, "design_ref": ref},
            "level_note": note,
            "technique": tech,
        })
    else:
        m["not_applicable"].append({"property_id": pid, "reason": NA.get(pid, NOT_BUILT)})
if os.path.exists("/verif/hooks_commits.txt"):
    m["hooks"]["source_commits"] = [l.split()[0] for l in open("/verif/hooks_commits.txt") if l.strip()]
json.dump(m, open("/verif/MANIFEST.json", "w"), indent=1)
print("wrote MANIFEST.json:", len(m["checks"]), "checks,", len(m["not_applicable"]), "not applicable")
