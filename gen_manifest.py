#!/usr/bin/env python3
"""Regenerates /verif/MANIFEST.json from the table below (single source of truth)."""
import json, os
GOENV = "GOFLAGS=-mod=mod GOPROXY=off GOSUMDB=off GOTOOLCHAIN=local"
# id -> (level, technique, level text, level note, design_ref)
CHECKS = {
 "C01": ("exploration", "reference-model monitor (maximal-live-candidate versioned map) over resolver calls on enumerated DAG shapes x placements and over recorded HTTP histories",
         "Every DAG shape with <=5 nodes (all ordered merge-parent lists) x every value/tombstone/nothing placement x every queried node is executed against the real resolver (exhaustive slice), larger DAGs and real put/delete/commit/branch/merge HTTP histories are sampled; the oracle is order-free so entry order and parent order are covered by shuffling/permutation.",
         "Trusts the 40-line reference model in harness/internal/dvc/dag.go; DAGs >10 nodes and >4 merge parents are not explored; Badger itself is trusted.", "3/C01"),
 "C18": ("exploration", "explicit voxel-set and tuple-order oracles inside a probe process (plain + race) and an ROI reference model over HTTP histories",
         "All 262,144 ordered pairs of 512 boundary coordinates + random pairs for key order and round trips; packed block index over its documented range; 6,000 non-overlapping run sets per flavour through Normalize, Partition, Split, FitToBounds, Add and binary (de)serialisation against explicit voxel sets; ROI POST/GET/DELETE, ptquery and mask against span sets incl. negative coordinates.",
         "Set preservation asserted for non-overlapping runs only, as the statement says.", "3/C18"),
 "C19": ("exploration", "differential monitor: every read endpoint of the copy vs the source at every version (+ versioned-map model for flattened copies)",
         "Histories on keyvalue, unversioned keyvalue, uint8blk, annotation and roi instances over branched DAGs; full copies, flattened copies at every version, copies onto a second Badger store; the source snapshot is re-checked after all copies.",
         "datastore.CopyInstance is called synchronously in-process (what the RPC 'repo <uuid> copy' runs); info endpoints are not compared.", "3/C19"),
 "C20": ("exploration", "liveness / recovered-panic / snapshot monitors over structure-aware hostile requests in child processes, plus a fixed list of absurd-size requests",
         "Valid payloads of every ingestion and mutation endpoint are mutated (truncation, bit flips, 32/64-bit length inflation, zeroing, over-long, JSON damage, random bytes) and URLs made hostile; after every request a liveness probe, after every batch of 20 settle + full snapshot of the target version (rejected requests must change nothing, accepted ones only their sync group); recovered panics on any request, process death and unresponsiveness are violations; thorough adds race (checkptr) and asan builds.",
         "A mutated payload answered 2xx is not judged malformed; requests outliving the watchdog are inconclusive; instance-wide counters are excluded from the untouched-data comparison.", "3/C20"),
 "C02": ("exploration", "self-calibrating gate differential (open vs committed version, same request) + store write auditor + read-stability snapshots",
         "Every catalogued well-formed mutation and every endpoint keyword found in the data type packages is sent with POST/PUT/DELETE to a fresh open version and to a committed version holding identical data, in default, admin-token, full-write, read-only and after-read-only-toggle modes; the committed version must read back unchanged, no store write or log append may carry its version id, real mutations must be refused, child creation must stay allowed; mixed histories re-read every committed version against its commit-time snapshot after later operations and a restart.",
         "Instance-wide settings (info, extents, sync, tags, next-label counter) are excluded as unversioned; endpoints needing external services are not driven; payloads for scanned keywords without a catalogue entry are generic.", "3/C02"),
 "C03": ("exploration", "differential monitor: full observable snapshot of one OS process vs a fresh process on the same stores",
         "Mixed histories over all modelled data types are stopped while idle (clean shutdown, abrupt exit, SIGKILL; 1-4 restarts each; label-cache / mutation-cache configuration matrix) and every repo/node/instance JSON, branch resolution and every data read endpoint at every version is compared before/after; the history then continues on the restarted server.",
         "JSON compared as multisets, errors by status; Updated stamps and the mutation-id counters (>=) excluded as the statement allows; RLE span order canonicalised because it varies between two calls of one process.", "3/C03"),
 "C04": ("fault_enumeration", "crash injection at every store write / log append through wrapping engines + reference-snapshot comparison after restart; byte-level tearing of append-only logs against a reference framing parser",
         "A deterministic mixed workload is censused (every write numbered, reference snapshot after every operation); the server is then killed before write N for every N (sampled stride in quick, all in thorough, plus 'after' at operation boundaries and a second crash at every write of the recovery start-up for a sample); after restart the repo metadata must satisfy the C07 invariants, everything the interrupted operation cannot touch must equal the acknowledged prefix, atomic repo-level/single-key operations must be all-or-nothing, and the server must be usable. Log files are truncated at every byte offset of their tail records and read through the real filelog store.",
         "Process death (SIGKILL), not power loss; crash granularity is the store-call boundary (Badger's own commit is trusted); 'cannot touch' = other instances/sync groups and other versions than the open leaf the request addressed.", "3/C04"),
 "C05": ("exploration", "internal-consistency monitor (range / listing results vs the implementation's own point reads) + versioned-map reference model over recorded histories",
         "Put/delete histories over branched DAGs (incl. merges and a directed conflict scenario) with a prefix-related key universe; every interval class through GetRange, KeysInRange, SendKeysInRange, ProcessRange, DeleteRange and the HTTP keys/keyrange/keyrangevalues/keyvalues endpoints in JSON, tar and protobuf is compared key by key with GET key at every version; DeleteRange is followed by a full key x version matrix check.",
         "For an interval containing a key in unresolved merge conflict a request error or a malformed stream is accepted (as documented); driver-side tar/protobuf decoders are hand written.", "3/C05"),
 "C06": ("exploration", "round-trip / injectivity / order oracles over storage key functions (probe, plain + checkptr) and before/after snapshots + store-dump + write-log audit of untouched instances in live create/write/delete/re-create histories",
         "Key tuples over boundary ids and every data type's tkey constructors are checked for round trip, injectivity, byte order == (instance, tkey, version) order, contiguity and foreign keys in ranges; live histories delete and re-create instances (incl. ids near 2^32) and compare every other instance's reads and raw stored entries after every operation.",
         "Instance deletion is reached through the RPC-equivalent datastore call (no HTTP route exists); sorting with bytes.Compare stands for Badger's order.", "3/C06"),
 "C08": ("exploration", "reference-model monitor (brute-force voxel/mapping model, independent wire decoders) over recorded proofreading histories; conservation checked separately",
         "Sequences of ingest (raw, blocks, offline indices+mappings), mutate, merge, cleave, split-supervoxel (8 shapes), renumber, split and illegal requests interleaved with commit/newversion/branch; after every settled mutation and at every version at the end ~48 endpoint views are recomputed by scanning the model's voxels; voxel conservation and body/supervoxel partition are computed from server responses only.",
         "Volumes of 2-3 blocks per axis of 32^3 incl. negative origins; skipped formats are listed in the evidence; settle additionally waits until no goroutine is inside labelmap/downres code.", "3/C08"),
 "C09": ("exploration", "naive []uint64 reference oracles inside a probe process; plain, race (checkptr) and asan builds",
         "Blocks of all sizes (8i,8j,8k), i,j,k in {2,3,4,8}, with per-sub-block label counts hitting every index bit width incl. 512 labels; MakeBlock/MakeLabelVolume and Marshal/Unmarshal round trips and every direct view (Value at every voxel, GetPointLabels, CalcNumLabels, WriteRLEs, WriteBinaryBlocks, SubvolumeToBlock at every block offset) compared with the same view on the array.",
         "Only legal inputs (hostile encodings belong to C20); sanitizer reports are process-fatal and turned into violations with the in-flight case.", "3/C09"),
 "C10": ("exploration", "naive voxel-wise reference operations + path-vs-path differential inside a probe process; plain, race and asan builds",
         "Merge, replace (chains, swaps, label 0), split by RLE (all run-set kinds x split variants incl. the unexported fast path via linkname), down-sampling over all 2^8 octant patterns x {solid, mixed}; results decoded voxel for voxel, reported counts compared with true counts, source block unchanged, alternative paths compared with each other.",
         "splitFast is reached through go:linkname (no repo change).", "3/C10"),
 "C11": ("exploration", "linearizability checking (porcupine, per-key register model) of recorded concurrent histories + conservation oracles for commuting operations after settle + race detector as evidence",
         "2-8 requests released by one barrier under four delay-injection profiles at store-call boundaries: keyvalue POST/DELETE/GET (porcupine), annotation element edits in one block/tag, labelmap merges into one target, neuronjson posts on one/several ids, newversion/branch on one parent; every acknowledged element/supervoxel/field must be present exactly once and at most one child per branch.",
         "Only interleavings produced by barrier + delays + 16 cores are observed; race reports are listed, verdicts come from the history oracles.", "3/C11"),
 "C12": ("fault_enumeration", "offline checker over the recorded id event log (uniqueness, real-time-order monotonicity by interval sweep, freshness) + crash injection before every write of an allocation script",
         "Ids are taken from acknowledged responses (MutationID, CleavedLabel, Split/RemainSupervoxel, nextlabel ranges), VersionIDs from repo JSON, repo/instance ids from the store write log; histories mix allocations with ingests of arbitrary large labels, 3-8-way concurrent allocation phases, restarts and a crash before every store write of an allocation script that crosses the mutation-id persistence stride.",
         "Concurrent stamps come from the worker's monotonic clock around ServeSingleHTTP; an allocation racing an unsettled ingest is counted, not judged.", "3/C12"),
 "C13": ("exploration", "reference-model monitor (element set + independent label volume) over recorded annotation / label-operation histories, every view after every settled operation",
         "POST elements (new, overwrite, tag swaps, kind changes, mutual and one-sided relationships), delete, move across block/body classes, POST blocks + reload, and merge/cleave/split/mutate on the synced labelmap; block, tag, label, ROI views and labelsz count/counts/top/threshold are compared with the model after each settle and on committed ancestors.",
         "Relationship rules asserted for mutual references only (as the statement says); reload completion is read from the server log line; volume sometimes placed at negative origin.", "3/C13"),
 "C14": ("exploration", "level-to-level recomputation monitor of the documented 2x2x2 vote from the server's own level-n data and from the model",
         "MaxDownresLevel 1-3, ingests, mutating writes, single-octant rewrites in child versions, all-zero blocks, negative block coordinates, splits; after settle every voxel of level n+1 (raw and blocks reads) must equal the vote over level n; an in-process watcher samples whether the instance reports idle while a level is stale.",
         "Vote rule as documented in the code (most frequent non-zero, ties to the smaller label, all zero -> zero).", "3/C14"),
 "C15": ("exploration", "round-trip / corruption / hostile-input oracles inside a probe process with independent decoders; plain, race and asan builds",
         "About 160 payloads x {none, snappy, lz4, gzip levels} x {no checksum, CRC32} x uncompress on/off; every single-bit flip, byte substitution and truncation of small values (sampled for large) must give an error or the identical bytes when CRC32 covers the damage; 37k arbitrary byte strings (all format bytes, size prefixes, JPEG values) must not crash (input on disk before each call, memory guarded).",
         "The format byte is outside the CRC by design (counted, not judged); inputs declaring >64 MiB are skipped except a dedicated class.", "3/C15"),
 "C16": ("exploration", "differential monitor (in-memory head vs store-backed committed parent vs restarted process) + metamorphic update rules",
         "Scripted minimal scenarios and random POST/DELETE/schema sequences; after every step a commit+newversion pair holding identical data is read through 32 endpoint forms on both paths and across clean/abrupt/SIGKILL restarts; the three update rules of the statement are checked on every update.",
         "Endpoints that promise no order are compared as multisets; fieldtimes only across restarts (the store path does not serve it); deliberately no re-implementation of updateJSON.", "3/C16"),
 "C17": ("exploration", "reference-model monitor (sparse per-version block model) over recorded write/read histories on every imageblk voxel type",
         "Unique voxel contents per (write, block, voxel) are written (ingest, mutate, ROI-restricted, POST blocks) at block coordinates in [-3,3]^3 over several versions and read back through 3-D boxes of every alignment class, 2-D PNG slices in three planes, blocks/subvolblocks/specificblocks streams and advertised extents.",
         "Lossy or compressed stream formats (jpeg, lz4) are not decoded; ROI always has the instance's block size.", "3/C17"),
 "C07": ("exploration", "invariant monitor on /api/repos/info after every request + model agreement (accepted) + frame condition on graph, branch-head and per-uuid resolution (rejected)",
         "Random hostile request sequences over the whole repo-level vocabulary (incl. RPC-mirrored delete/rename) with duplicate / malformed / foreign arguments; after every request the server's own JSON is checked for single root, acyclicity, mirrored links, unique UUIDs and version ids, committed parents, linear named branches, and rejected requests are checked to leave graph, heads and uuid resolution untouched.",
         "Branch-head and uuid resolution are observed through a 'whoami' key of a keyvalue instance; only newly introduced conditions are attributed to a request; repeated merge parents (a mirrored multi-edge) are counted as observation, not violation.", "3/C07"),
}
# sentences appended to the level text: layers added in the second and third round (see DESIGN.md sections 0.2b and 8)
ADDENDA = {
 "C02": "Stability histories include neuronjson schema documents and, every second history, a workload restricted to two or three data types; the gate differential also sends every catalogued mutation with a lower-case (thorough: title-case) HTTP method; a directed history runs POST resolve over several data instances and conflict patterns and audits that no write lands in a committed parent.",
 "C03": "Every second history is a short-burst, few-type history with two to four restarts; two directed histories move the master head off its line of versions (newversion on a merge node; merge with the head line as first or as second parent); neuronjson body ids have 1-5 digits, key lists are compared in served order and range reads are part of the snapshot; admin steps create and delete side repos. One labelmap step in three of the workload is followed by a GET history of a body (the request that reads a version's mutation log while it is open for appending).",
 "C04": "One workload consists of admin steps (instance create / rename / delete, side-repo create / delete). Query lists of the snapshots are frozen by a first census pass; a sample of crash points is followed by a second crash at every write of the recovery start-up, each started from a copy of the crashed directory; the two zero-length-memtable states Badger's own file handling can leave are planted and must be recovered from. A labelmap-only workload with history reads is crashed at every write; after every recovery the server does new acknowledged work (repo, instance, write, commit, new version), is restarted once more, and everything readable after the recovery is read again.",
 "C05": "A bulk phase deletes ranges of exactly M of N keys for (N, M) around multiples of the store's 1000-key delete batch. The key universe includes names beyond the Basic Multilingual Plane (sorting after U+FFFF).",
 "C06": "Two scenarios hand a name over (re-creation, rename of another instance) while the old instance's asynchronous wipe is held open by the wrapping engine. Labelmap instances (same body ids in every instance) take part in the histories, one worker configuration enables the label index cache and restarts once; six scripted shapes create versions on both sides of a restart and read every (instance, key, version) triple back.",
 "C07": "Caller-assigned uuids include over-long hexadecimal strings and an existing uuid extended by hex digits (prefix ambiguity). Every second sequence restarts the server between requests; branch names include names that differ from master or an existing branch only by surrounding white space.",
 "C08": "Every second sequence restarts the server before the final sweep and sweeps leaves first; some intermediate versions are committed without ever being read or written; every fourth sequence is a scripted remap chain (the same supervoxels re-mapped in three successive versions) ending in a restart. The scripted chain continues with namesake steps (a body loses the supervoxel it is named after, then is renumbered).",
 "C10": "World-split cases cut one sparse volume over several blocks at negative block coordinates with dvid.RLEs.Partition and compare the per-block splits with the voxel-wise split of the world.",
 "C11": "Version races run on master parents, on committed named-branch parents (newversion vs branch <own name>) and with one new branch name on different parents; every second register history runs at a child version whose parent holds the keys; concurrent re-posts of one annotation element with different tag sets must leave every tag view agreeing with the stored tags. One round issues POST blocks together with element edits of the same block. Another issues split-supervoxel, cleave and merge of disjoint bodies at once on four fresh versions in a row (first appends to each mutation log), reads the mutation history, and re-reads every mapping after a restart at the end of the batch.",
 "C15": "A sequence phase serialises values of nearly equal sizes back to back (state carried between calls). A stored layer inspects what keyvalue instances of every Compression x Checksum setting physically store per write route (envelope checksum kind, round trip, altered stored bytes read back over HTTP). The probe keeps earlier deserialisation results and re-compares them after every later call.",
 "C19": "Full copies are also requested at versions that deleted keys written again later; every fourth history copies without repeating the source's settings; every second history restarts the server after the copies and compares every copy again. Every second history gives the image source a non-default background and creates two keyvalue sources back to back.",
 "C01": "Every modelled key is also read through the range path (keyrange over [key,key] and [0,key]) and compared with the model.",
 "C09": "Blocks with one axis at the largest legal extent (1024 voxels) and just below it go through the same round trips.",
 "C12": "A continuous-pressure phase (one reserving client against four POST maxlabel clients looping without barriers, in-process) checks that reserved label ranges never overlap or go backwards. Three scenarios (clean / abrupt / SIGKILL restarts) issue more than one reservation stride of mutation ids in two repositories whose repo ids differ from their root version ids.",
 "C17": "One write in five carries all-background blocks over existing data.",
 "C20": "The model-based mixed workload (well-formed by construction) runs under the same panic / liveness monitors; scenario probes replay well-formed request sequences that once hung or panicked; hostile generation includes systematic variants (each of the first eight 32-bit header fields at 2^32-1, JSON numbers swapped / shifted, containers emptied, values retyped, block keys changed, documented neuronjson metadata fields with wrong types, paths cut after each segment), every valid control twice, and the maintenance requests (reload) after the batches; a request that outlives the watchdog is a violation only when the goroutine dump shows it parked for minutes with no goroutine left that could wake it (quiescence oracle), otherwise inconclusive. Throttled requests (throttle=true), among them refused ones with right-length bodies, are followed by a throttled read that must not be answered 503 while nothing else is in flight. The catalogue also holds the documented endpoints that the endpoint-reach report (DESIGN.md appendix C) showed no workload had ever requested: instance tags, settings and metadata, rendered views (isotropic, pseudocolor, arb), bulk and log readers (indices-compressed, sparsevols-coarse, mutations, mutations-range, map-stats), extents and resolution posts.",
 "C13": "Every second history reads elements before POST sync; a bulk scenario stores 1200 tagged elements with POST blocks and compares every tag view after the low-memory and the in-memory reload.",
 "C14": "Two more operations: the unwritten octants of lower-resolution blocks arriving as simultaneous one-block POST blocks?downres=true requests, and a supervoxel written over two neighbouring blocks that is split inside the first.",
 "C18": "Streams of 4095 to 100003 runs (thorough: up to 2^20+1) go through the streamed and the whole-buffer readers.",
}
NOT_BUILT = "check not built yet in this round (machinery in progress); see DESIGN.md section 3"
ALL = ["C%02d" % i for i in range(1, 21)]
NA = {}
m = {
 "version": 1,
 "setup_cmd": "cd /verif/harness && %s go build -o /verif/bin/ ./cmd/..." % GOENV,
 "hooks": {
  "guard": "verif",
  "enable": "go build -tags \"badger verif\" (the harness module /verif/harness replaces github.com/janelia-flyem/dvid => /repo)",
  "baseline_off_cmd": "cd /repo && %s go test -json -vet=off -count=1 -timeout 25m ./...  # no hooks exist, so the guard is always off; /verif/baseline_off.sh runs the same suite and compares it with BASELINE.json" % GOENV,
  "source_commits": [],
  "add_only": True,
 },
 "engines": [
  {"name": "dvidw", "path": "/verif/harness/wcmd/dvidw", "serves_properties": ["C01","C02","C03","C04","C05","C06","C07","C08","C11","C12","C13","C14","C16","C17","C18","C19","C20"], "kind_free_text": "the real DVID server in-process behind wrapping storage engines (write log, crash and delay injection), driven over JSON lines; rebuilt from /repo by every check run"},
  {"name": "probes", "path": "/verif/harness/wcmd", "serves_properties": ["C06","C09","C10","C15","C18"], "kind_free_text": "package-level probe programs linking /repo packages with naive reference implementations; run in plain, race (checkptr) and asan builds"}
 ],
 "checks": [],
 "not_applicable": [],
 "notes": "All checks are runtime monitors over executions of the real code (see DESIGN.md section 0 for what was built). /repo carries no instrumentation hooks; it carries one minimal 'fix:' commit per repaired genuine defect (DESIGN.md section 6.1); unrepaired genuine defects are in known_findings.jsonl.",
}
for pid in ALL:
    if pid in CHECKS:
        level, tech, text, note, ref = CHECKS[pid]
        if pid in ADDENDA:
            text = text.rstrip() + " " + ADDENDA[pid]
        m["checks"].append({
            "property_id": pid,
            "quick_cmd": "/verif/bin/%s --tier quick" % pid.lower(),
            "thorough_cmd": "/verif/bin/%s --tier thorough" % pid.lower(),
            "evidence_file": "/verif/evidence/%s.json" % pid,
            "replay_cmd_template": "/verif/bin/%s --replay {path}" % pid.lower(),
            "engine": {"C09": "probes", "C10": "probes", "C15": "probes", "C06": "dvidw+probes", "C18": "dvidw+probes"}.get(pid, "dvidw"),
            "level_claimed": {"category": level, "text": text, "design_ref": ref},
            "level_note": note,
            "technique": tech,
        })
    else:
        m["not_applicable"].append({"property_id": pid, "reason": NA.get(pid, NOT_BUILT)})
if os.path.exists("/verif/hooks_commits.txt"):
    m["hooks"]["source_commits"] = [l.split()[0] for l in open("/verif/hooks_commits.txt") if l.strip()]
json.dump(m, open("/verif/MANIFEST.json", "w"), indent=1)
print("wrote MANIFEST.json:", len(m["checks"]), "checks,", len(m["not_applicable"]), "not applicable")
