package drv

import (
	"bufio"
	"crypto/sha1"
	"encoding/hex"
	"encoding/json"
	"flag"
	"fmt"
	"math/rand"
	"os"
	"os/exec"
	"path/filepath"
	"sort"
	"strconv"
	"strings"
	"sync"
	"time"
)

const (
	VerifDir   = "/verif"
	HarnessDir = "/verif/harness"
	RepoDir    = "/repo"
)

// GoEnv is the environment every go invocation needs in this sealed sandbox.
func GoEnv() []string {
	env := os.Environ()
	env = append(env, "GOFLAGS=-mod=mod", "GOPROXY=off", "GOSUMDB=off", "GOTOOLCHAIN=local")
	return env
}

// Ctx is the per-run context of one property check.
type Ctx struct {
	ID      string
	Tier    string // quick | thorough
	Seed    int64
	Rand    *rand.Rand
	Scratch string
	Replay  string
	Level   string // exploration | fault_enumeration | other

	mu          sync.Mutex
	start       time.Time
	evals       int
	distinct    map[string]struct{}
	samples     []interface{}
	maxSamples  int
	counters    map[string]int
	sets        map[string]map[string]struct{}
	rule        string
	assumptions []string
	extra       map[string]interface{}
	violations  []violation
	known       []knownFinding
	knownHit    map[string]string
	inconcl     int
	exhaustive  bool
	nrep        int
}

type violation struct {
	Key    string
	What   string
	Replay string
}

type knownFinding struct {
	Fixed    bool   `json:"fixed,omitempty"`
	Property string `json:"property"`
	Key      string `json:"key,omitempty"`
	What     string `json:"what"`
	Commit   string `json:"commit,omitempty"`
}

// Main is the entry point of every check binary.
//
//	<bin> [--tier quick|thorough] [--seed N] [--replay file]
//
// Exit codes: 0 held (or only known findings), 1 violation, 2 broken/inconclusive run.
func Main(id, level string, run func(c *Ctx) error) {
	tier := flag.String("tier", "", "quick|thorough")
	seed := flag.Int64("seed", -1, "PRNG seed (default VERIF_SEED or 1)")
	replay := flag.String("replay", "", "replay file")
	flag.Parse()
	c := &Ctx{ID: id, Level: level, Tier: *tier, Replay: *replay, start: time.Now(),
		distinct: map[string]struct{}{}, counters: map[string]int{}, sets: map[string]map[string]struct{}{},
		extra: map[string]interface{}{}, knownHit: map[string]string{}, maxSamples: 6}
	if c.Tier == "" {
		c.Tier = os.Getenv("VERIF_TIER")
	}
	if c.Tier != "thorough" {
		c.Tier = "quick"
	}
	c.Seed = *seed
	if c.Seed < 0 {
		c.Seed = 1
		if s := os.Getenv("VERIF_SEED"); s != "" {
			if v, err := strconv.ParseInt(s, 10, 64); err == nil {
				c.Seed = v
			}
		}
	}
	if c.Replay != "" {
		// a replay re-runs the check at the seed and tier that produced the witness (drivers with a finer-grained replay,
		// e.g. C04's single crash point, read c.Replay themselves); evidence is not rewritten by a replay
		if b, rerr := os.ReadFile(c.Replay); rerr == nil {
			var doc struct {
				Seed int64  `json:"seed"`
				Tier string `json:"tier"`
				Key  string `json:"key"`
			}
			if json.Unmarshal(b, &doc) == nil {
				if *seed < 0 && doc.Seed != 0 {
					c.Seed = doc.Seed
				}
				if *tier == "" && (doc.Tier == "quick" || doc.Tier == "thorough") {
					c.Tier = doc.Tier
				}
				fmt.Fprintf(os.Stderr, "replaying %s: seed=%d tier=%s, looking for violation key %q\n", c.Replay, c.Seed, c.Tier, doc.Key)
			}
		} else {
			fmt.Fprintf(os.Stderr, "BROKEN: cannot read replay file: %v\n", rerr)
			os.Exit(2)
		}
	}
	c.Rand = rand.New(rand.NewSource(c.Seed*1000003 + int64(len(id))*7919 + int64(id[len(id)-1])))
	var err error
	c.Scratch, err = os.MkdirTemp("", "vcheck-"+id+"-")
	if err != nil {
		fmt.Fprintln(os.Stderr, "scratch:", err)
		os.Exit(2)
	}
	c.loadKnown()
	code := 2
	func() {
		defer func() {
			if e := recover(); e != nil {
				fmt.Fprintf(os.Stderr, "BROKEN: check %s panicked: %v\n", id, e)
				panic(e)
			}
		}()
		err = run(c)
	}()
	code = c.finish(err)
	if os.Getenv("VERIF_KEEP_SCRATCH") == "" {
		os.RemoveAll(c.Scratch)
	}
	os.Exit(code)
}

func (c *Ctx) Quick() bool { return c.Tier == "quick" }

// N picks a count by tier.
func (c *Ctx) N(quick, thorough int) int {
	if c.Tier == "thorough" {
		return thorough
	}
	return quick
}

func (c *Ctx) loadKnown() {
	f, err := os.Open(filepath.Join(VerifDir, "known_findings.jsonl"))
	if err != nil {
		return
	}
	defer f.Close()
	sc := bufio.NewScanner(f)
	sc.Buffer(make([]byte, 1<<20), 1<<20)
	for sc.Scan() {
		line := strings.TrimSpace(sc.Text())
		if line == "" || strings.HasPrefix(line, "#") {
			continue
		}
		var k knownFinding
		if json.Unmarshal([]byte(line), &k) == nil && k.Property == c.ID && !k.Fixed && k.Key != "" {
			c.known = append(c.known, k)
		}
	}
}

// Rule documents how cases are generated and what makes one distinct / non-trivial.
func (c *Ctx) Rule(s string)   { c.rule = s }
func (c *Ctx) Assume(s string) { c.assumptions = append(c.assumptions, s) }
func (c *Ctx) Exhaustive()     { c.exhaustive = true }

// Case records one evaluated case.  key identifies the case canonically; nontrivial per the check's rule.
func (c *Ctx) Case(key string, nontrivial bool) {
	c.mu.Lock()
	c.evals++
	if nontrivial {
		h := sha1.Sum([]byte(key))
		c.distinct[string(h[:8])] = struct{}{}
	}
	c.mu.Unlock()
}

// Cases adds n evaluations that are not individually tracked for distinctness.
func (c *Ctx) Cases(n int) {
	c.mu.Lock()
	c.evals += n
	c.mu.Unlock()
}

func (c *Ctx) Sample(v interface{}) {
	c.mu.Lock()
	if len(c.samples) < c.maxSamples {
		c.samples = append(c.samples, v)
	}
	c.mu.Unlock()
}

func (c *Ctx) Count(name string, n int) {
	c.mu.Lock()
	c.counters[name] += n
	c.mu.Unlock()
}

// Seen adds member to a named set whose size is reported (e.g. distinct DAG shapes, interleavings).
func (c *Ctx) Seen(set, member string) {
	c.mu.Lock()
	m := c.sets[set]
	if m == nil {
		m = map[string]struct{}{}
		c.sets[set] = m
	}
	m[member] = struct{}{}
	c.mu.Unlock()
}

func (c *Ctx) SeenCount(set string) int {
	c.mu.Lock()
	defer c.mu.Unlock()
	return len(c.sets[set])
}

func (c *Ctx) Extra(k string, v interface{}) {
	c.mu.Lock()
	c.extra[k] = v
	c.mu.Unlock()
}

func (c *Ctx) Inconclusive(what string) {
	c.mu.Lock()
	c.inconcl++
	c.mu.Unlock()
	fmt.Fprintf(os.Stderr, "INCONCLUSIVE %s: %s\n", c.ID, what)
}

// Violation records a violation.  key is the canonical identifier of the failing input /
// call site / history class, matched against known_findings.jsonl.  replay is written to a file.
func (c *Ctx) Violation(key, what string, replay interface{}) {
	c.mu.Lock()
	defer c.mu.Unlock()
	for _, k := range c.known {
		if k.Key == key {
			if _, dup := c.knownHit[key]; !dup {
				c.knownHit[key] = k.What
			}
			c.counters["known_finding_hits"]++
			if os.Getenv("VERIF_SHOW_KNOWN") != "" {
				fmt.Fprintf(os.Stderr, "known-finding hit %s [%s]: %s\n", c.ID, key, Trunc(what, 600))
			}
			return
		}
	}
	maxV := 20
	if s := os.Getenv("VERIF_MAXVIOL"); s != "" {
		if n, err := strconv.Atoi(s); err == nil {
			maxV = n
		}
	}
	if len(c.violations) >= maxV {
		c.counters["violations_not_recorded"]++
		return
	}
	c.nrep++
	dir := filepath.Join(outDir(), "replays", c.ID)
	os.MkdirAll(dir, 0755)
	p := filepath.Join(dir, fmt.Sprintf("%d-%d.json", c.Seed, c.nrep))
	doc := map[string]interface{}{"property": c.ID, "key": key, "what": what, "seed": c.Seed, "tier": c.Tier, "case": replay}
	b, _ := json.MarshalIndent(doc, "", " ")
	os.WriteFile(p, b, 0644)
	c.violations = append(c.violations, violation{key, what, p})
	fmt.Fprintf(os.Stderr, "violation %s [%s]: %s\n", c.ID, key, Trunc(what, 600))
}

func (c *Ctx) NumViolations() int {
	c.mu.Lock()
	defer c.mu.Unlock()
	return len(c.violations)
}

func (c *Ctx) finish(runErr error) int {
	wall := time.Since(c.start).Seconds()
	cov := map[string]interface{}{
		"evaluations":         c.evals,
		"distinct_nontrivial": len(c.distinct),
		"rule":                c.rule,
		"samples":             c.samples,
		"inconclusive":        c.inconcl,
	}
	if c.exhaustive {
		cov["exhaustive"] = true
	}
	keys := make([]string, 0, len(c.counters))
	for k := range c.counters {
		keys = append(keys, k)
	}
	sort.Strings(keys)
	obs := map[string]int{}
	for _, k := range keys {
		obs[k] = c.counters[k]
	}
	for k, m := range c.sets {
		obs["distinct_"+k] = len(m)
	}
	cov["observed"] = obs
	if rf := RequestFamilies(); len(rf) > 0 {
		cov["request_families"] = rf
	}
	for k, v := range c.extra {
		cov[k] = v
	}
	if len(c.samples) == 0 {
		cov["samples"] = []interface{}{}
	}
	var kf []string
	for k, w := range c.knownHit {
		kf = append(kf, k+": "+w)
	}
	sort.Strings(kf)
	if len(kf) > 0 {
		cov["known_findings_reproduced"] = kf
	}
	ev := map[string]interface{}{
		"property_id": c.ID,
		"tier":        c.Tier,
		"seed":        c.Seed,
		"level":       c.Level,
		"coverage":    cov,
		"assumptions": append([]string{}, c.assumptions...),
		"wall_s":      wall,
		"violations":  len(c.violations),
	}
	if runErr != nil {
		cov["run_error"] = runErr.Error()
	}
	b, _ := json.MarshalIndent(ev, "", " ")
	os.MkdirAll(filepath.Join(outDir(), "evidence"), 0755)
	if c.Replay == "" {
		os.WriteFile(filepath.Join(outDir(), "evidence", c.ID+".json"), b, 0644)
	}

	for _, k := range kf {
		fmt.Printf("KNOWN-FINDING: property=%s %s\n", c.ID, k)
	}
	if len(c.violations) > 0 {
		for _, v := range c.violations {
			fmt.Printf("VIOLATION property=%s replay=%s\n", c.ID, v.Replay)
		}
		fmt.Printf("%s: %d violation(s); first: %s\n", c.ID, len(c.violations), Trunc(c.violations[0].What, 400))
		return 1
	}
	if runErr != nil {
		fmt.Printf("BROKEN %s: run error: %v\n", c.ID, runErr)
		return 2
	}
	if c.evals == 0 || (len(c.distinct) < 2 && c.Replay == "") { // a replay may legitimately consist of one case
		fmt.Printf("BROKEN %s: monitors observed too little (evaluations=%d distinct_nontrivial=%d)\n", c.ID, c.evals, len(c.distinct))
		return 2
	}
	if c.inconcl*10 > c.evals {
		fmt.Printf("BROKEN %s: %d of %d cases inconclusive\n", c.ID, c.inconcl, c.evals)
		return 2
	}
	fmt.Printf("%s held on %d evaluations (%d distinct non-trivial, %d inconclusive) tier=%s seed=%d wall=%.1fs\n", c.ID, c.evals, len(c.distinct), c.inconcl, c.Tier, c.Seed, wall)
	return 0
}

// Build compiles ./wcmd/<target> of the harness module against /repo's current working tree.
// flavour: "" | "race" | "asan" | "checkptr".  The binary is placed in the run's scratch dir.
func (c *Ctx) Build(target, flavour string) (string, error) {
	out := filepath.Join(c.Scratch, target+"-"+flavour)
	args := []string{"build", "-tags", "badger verif"}
	switch flavour {
	case "race":
		args = append(args, "-race")
	case "asan":
		args = append(args, "-asan")
	case "checkptr":
		args = append(args, "-gcflags=all=-d=checkptr")
	}
	// VERIF_REPO=<dir> builds against a scratch copy of the repository instead of /repo
	// (used only for sensitivity experiments; registered commands never set it).
	if alt := os.Getenv("VERIF_REPO"); alt != "" {
		mf := filepath.Join(c.Scratch, "alt.mod")
		gm, err := os.ReadFile(filepath.Join(HarnessDir, "go.mod"))
		if err != nil {
			return "", err
		}
		os.WriteFile(mf, []byte(strings.Replace(string(gm), "=> /repo", "=> "+alt, 1)), 0644)
		gs, _ := os.ReadFile(filepath.Join(HarnessDir, "go.sum"))
		os.WriteFile(filepath.Join(c.Scratch, "alt.sum"), gs, 0644)
		args = append(args, "-modfile="+mf)
	}
	args = append(args, "-o", out, "./wcmd/"+target)
	cmd := exec.Command("go", args...)
	cmd.Dir = HarnessDir
	cmd.Env = GoEnv()
	b, err := cmd.CombinedOutput()
	if err != nil {
		return "", fmt.Errorf("go %s: %v\n%s", strings.Join(args, " "), err, Trunc(string(b), 4000))
	}
	return out, nil
}

// NewDataDir makes a fresh data directory inside scratch and writes its config.
func (c *Ctx) NewDataDir(name string, o ConfOpts) (string, error) {
	dir := filepath.Join(c.Scratch, name)
	os.RemoveAll(dir)
	if _, err := WriteConfig(dir, o); err != nil {
		return "", err
	}
	return dir, nil
}

// Hash returns a short stable hash of arbitrary strings (for case keys).
func Hash(parts ...string) string {
	h := sha1.New()
	for _, p := range parts {
		h.Write([]byte(p))
		h.Write([]byte{0})
	}
	return hex.EncodeToString(h.Sum(nil)[:8])
}

// outDir is where evidence and replay files go: /verif, or $VERIF_OUT for side runs (debugging, soak loops)
// that must not overwrite the evidence of the registered commands.
func outDir() string {
	if d := os.Getenv("VERIF_OUT"); d != "" {
		return d
	}
	return VerifDir
}

// SaveText keeps a diagnostic text (a goroutine dump, a worker's stderr) next to the replay files.
func (c *Ctx) SaveText(name, text string) string {
	dir := filepath.Join(outDir(), "replays", c.ID)
	os.MkdirAll(dir, 0755)
	p := filepath.Join(dir, name)
	if len(text) > 4<<20 {
		text = text[len(text)-(4<<20):]
	}
	if err := os.WriteFile(p, []byte(text), 0644); err != nil {
		return ""
	}
	return p
}

// WaitStoreIdle waits until Badger's flusher has finished with the memtables it replayed at start-up: Badger
// keeps one NNNNN.mem (the active memtable) per store directory once it is idle.  Harness-side kills that are
// not a quantified crash point call this first, so that where they land does not depend on the scheduler.
func WaitStoreIdle(dir string, max time.Duration) bool {
	deadline := time.Now().Add(max)
	for {
		ok := true
		for _, sub := range []string{"db", "db2"} {
			ms, _ := filepath.Glob(filepath.Join(dir, sub, "*.mem"))
			if len(ms) > 1 {
				ok = false
			}
		}
		if ok {
			return true
		}
		if time.Now().After(deadline) {
			return false
		}
		time.Sleep(5 * time.Millisecond)
	}
}

// CopyDir copies a directory tree (used to clone a pre-workload data dir for crash sweeps).
func CopyDir(src, dst string) error {
	cmd := exec.Command("cp", "-a", "--sparse=always", src, dst)
	b, err := cmd.CombinedOutput()
	if err != nil {
		return fmt.Errorf("cp -a: %v %s", err, b)
	}
	return nil
}

// ---------------------------------------------------------------------------------------
// Package-level probes (programs under wcmd/ that link /repo packages and run generators and
// naive oracles in-process; see internal/probe).

type probeLine struct {
	T      string              `json:"t"`
	Key    string              `json:"key"`
	What   string              `json:"what"`
	Case   interface{}         `json:"case"`
	V      interface{}         `json:"v"`
	Evals  int                 `json:"evals"`
	Hashes string              `json:"hashes"`
	Counts map[string]int      `json:"counts"`
	Sets   map[string][]string `json:"sets"`
}

// RunProbe builds wcmd/<target> in the given flavour from /repo's current tree, runs it with
// --tier/--seed/--flavour plus extra args under a wall-clock watchdog, and folds its report into the
// evidence.  If the process dies without a summary (sanitizer report, fatal error), crashKey != ""
// turns that into a violation whose witness is the case on disk; otherwise it is a run error.
func (c *Ctx) RunProbe(target, flavour string, extra []string, watchdog time.Duration, crashKey string) error {
	bin, err := c.Build(target, flavour)
	if err != nil {
		return err
	}
	cur := filepath.Join(c.Scratch, fmt.Sprintf("cur-%s-%s.txt", target, flavour))
	args := append([]string{"--tier", c.Tier, "--seed", fmt.Sprint(c.Seed), "--flavour", flavour}, extra...)
	cmd := exec.Command(bin, args...)
	cmd.Env = append(os.Environ(), "PROBE_CURFILE="+cur, "GORACE=halt_on_error=1", "ASAN_OPTIONS=detect_leaks=0:abort_on_error=0")
	cmd.Dir = c.Scratch
	errFile := filepath.Join(c.Scratch, fmt.Sprintf("stderr-%s-%s.txt", target, flavour))
	ef, _ := os.Create(errFile)
	cmd.Stderr = ef
	op, _ := cmd.StdoutPipe()
	if err := cmd.Start(); err != nil {
		return err
	}
	done := make(chan struct{})
	timedOut := false
	go func() {
		select {
		case <-done:
		case <-time.After(watchdog):
			timedOut = true
			cmd.Process.Kill()
		}
	}()
	gotSum := false
	sc := bufio.NewScanner(op)
	sc.Buffer(make([]byte, 1<<20), 1<<28)
	for sc.Scan() {
		var l probeLine
		if json.Unmarshal(sc.Bytes(), &l) != nil {
			continue
		}
		switch l.T {
		case "viol":
			c.Violation(l.Key, "["+flavourName(flavour)+"] "+l.What, l.Case)
		case "sample":
			c.Sample(l.V)
		case "sum":
			gotSum = true
			c.mu.Lock()
			c.evals += l.Evals
			for i := 0; i+16 <= len(l.Hashes); i += 16 {
				c.distinct[l.Hashes[i:i+16]] = struct{}{}
			}
			for k, v := range l.Counts {
				c.counters[k+"@"+flavourName(flavour)] += v
			}
			for k, ms := range l.Sets {
				m := c.sets[k]
				if m == nil {
					m = map[string]struct{}{}
					c.sets[k] = m
				}
				for _, s := range ms {
					m[s] = struct{}{}
				}
			}
			c.mu.Unlock()
		}
	}
	werr := cmd.Wait()
	close(done)
	ef.Close()
	if timedOut {
		c.Inconclusive(fmt.Sprintf("probe %s (%s) exceeded its %v watchdog", target, flavourName(flavour), watchdog))
		return nil
	}
	if !gotSum || werr != nil {
		stderr, _ := os.ReadFile(errFile)
		curCase, _ := os.ReadFile(cur)
		fatal := FatalInStderr(string(stderr))
		if fatal == "" {
			fatal = Trunc(string(stderr), 1500)
		}
		if crashKey != "" {
			c.Violation(crashKey, fmt.Sprintf("[%s] probe process died (%v) while executing case %s: %s", flavourName(flavour), werr, Trunc(string(curCase), 300), Trunc(fatal, 800)),
				map[string]interface{}{"case": string(curCase), "stderr": Trunc(fatal, 3000), "flavour": flavour})
			return nil
		}
		return fmt.Errorf("probe %s (%s) died: %v; case on disk: %s; stderr: %s", target, flavourName(flavour), werr, Trunc(string(curCase), 300), Trunc(fatal, 1500))
	}
	c.Count("probe_runs_"+flavourName(flavour), 1)
	return nil
}

func flavourName(f string) string {
	if f == "" {
		return "plain"
	}
	return f
}
