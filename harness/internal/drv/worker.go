package drv

import (
	"bufio"
	"encoding/json"
	"errors"
	"fmt"
	"io"
	"os"
	"os/exec"
	"path/filepath"
	"strings"
	"sync"
	"syscall"
	"time"
)

// Resp mirrors wk.Resp (the driver does not import anything that links /repo).
type Resp struct {
	Status int    `json:"status"`
	Body   []byte `json:"body,omitempty"`
	CT     string `json:"ct,omitempty"`
	T0     int64  `json:"t0,omitempty"`
	T1     int64  `json:"t1,omitempty"`
}

func (r Resp) OK() bool       { return r.Status >= 200 && r.Status < 300 }
func (r Resp) String() string { return fmt.Sprintf("%d %s", r.Status, Trunc(string(r.Body), 200)) }
func (r Resp) Panicked() bool { return strings.Contains(string(r.Body), "Panic detected") }

func Trunc(s string, n int) string {
	if len(s) > n {
		return s[:n] + "…"
	}
	return s
}

type Req struct {
	Method string            `json:"method"`
	URL    string            `json:"url"`
	Body   []byte            `json:"body,omitempty"`
	Hdr    map[string]string `json:"hdr,omitempty"`
}

// WriteEvent mirrors wk.WriteEvent.
type WriteEvent struct {
	W     int64  `json:"w"`
	Op    string `json:"op"`
	Space string `json:"space"`
	Inst  uint32 `json:"inst,omitempty"`
	Ver   uint32 `json:"ver,omitempty"`
	Class int    `json:"class"`
	TKey  string `json:"tkey,omitempty"`
	N     int    `json:"n,omitempty"`
	VLen  int    `json:"vlen,omitempty"`
	Tomb  bool   `json:"tomb,omitempty"`
	Log   string `json:"log,omitempty"`
	EType uint16 `json:"etype,omitempty"`
	Req   string `json:"req,omitempty"`
}

type wcmd struct {
	ID  int64  `json:"id"`
	Cmd string `json:"cmd"`
	Req
	Reqs      []Req       `json:"reqs,omitempty"`
	Fn        string      `json:"fn,omitempty"`
	Args      interface{} `json:"args,omitempty"`
	Mode      string      `json:"mode,omitempty"`
	ReadUS    int64       `json:"read_us,omitempty"`
	WipeUS    int64       `json:"wipe_us,omitempty"`
	WriteUS   int64       `json:"write_us,omitempty"`
	Jitter    bool        `json:"jitter,omitempty"`
	MaxWaitMS int64       `json:"max_wait_ms,omitempty"`
	Label     string      `json:"label,omitempty"`
}

type wreply struct {
	ID int64 `json:"id"`
	Resp
	Resps  []Resp          `json:"resps,omitempty"`
	Events []WriteEvent    `json:"events,omitempty"`
	Result json.RawMessage `json:"result,omitempty"`
	Err    string          `json:"err,omitempty"`
	Writes int64           `json:"writes,omitempty"`
	Busy   int             `json:"busy,omitempty"`
	OK     bool            `json:"ok"`
	Last   string          `json:"last,omitempty"`
}

var (
	ErrDied     = errors.New("worker process died")
	ErrWatchdog = errors.New("watchdog fired (inconclusive)")
)

// ConfOpts selects the server configuration a worker is started with.
type ConfOpts struct {
	RWMode        string // "", "readonly", "fullwrite"
	IIDGen        string // "", "sequential", "random"
	IIDStart      uint32
	MutIDStart    uint64
	LabelCacheMB  int      // [cache.labelmap] size (MB); 0 = off
	MutcacheNames []string // instance names that get a [mutcache.<name>] path
	SecondStore   bool     // adds [store.second]
	PlainEngines  bool     // use badger/filelog directly instead of the wrappers
	Extra         string   // appended verbatim
}

// WriteConfig writes <dir>/config.toml (stores under <dir>/db, <dir>/log …) and returns its path.
func WriteConfig(dir string, o ConfOpts) (string, error) {
	kv, lg := "crashkv", "crashlog"
	if o.PlainEngines {
		kv, lg = "badger", "filelog"
	}
	var b strings.Builder
	fmt.Fprintf(&b, "[server]\nhost = \"localhost\"\nhttpAddress = \"localhost:18000\"\nrpcAddress = \"localhost:18001\"\nnote = \"verif worker\"\nAllowLabelmapSplit = true\n")
	if o.RWMode != "" {
		fmt.Fprintf(&b, "rwmode = %q\n", o.RWMode)
	}
	if o.IIDGen != "" {
		fmt.Fprintf(&b, "instance_id_gen = %q\n", o.IIDGen)
	}
	if o.IIDStart != 0 {
		fmt.Fprintf(&b, "instance_id_start = %d\n", o.IIDStart)
	}
	if o.MutIDStart != 0 {
		fmt.Fprintf(&b, "min_mutation_id_start = %d\n", o.MutIDStart)
	}
	fmt.Fprintf(&b, "\n[logging]\nlogfile = %q\nmax_log_size = 500\nmax_log_age = 30\n", filepath.Join(dir, "dvid.log"))
	fmt.Fprintf(&b, "\n[store]\n  [store.main]\n  engine = %q\n  path = %q\n", kv, filepath.Join(dir, "db"))
	fmt.Fprintf(&b, "  [store.mutlog]\n  engine = %q\n  path = %q\n", lg, filepath.Join(dir, "log"))
	if o.SecondStore {
		fmt.Fprintf(&b, "  [store.second]\n  engine = %q\n  path = %q\n", kv, filepath.Join(dir, "db2"))
	}
	fmt.Fprintf(&b, "\n[backend]\n  [backend.default]\n  store = \"main\"\n  log = \"mutlog\"\n")
	if o.LabelCacheMB > 0 {
		fmt.Fprintf(&b, "\n[cache]\n  [cache.labelmap]\n  size = %d\n", o.LabelCacheMB)
	}
	if len(o.MutcacheNames) > 0 {
		fmt.Fprintf(&b, "\n[mutcache]\n")
		for _, n := range o.MutcacheNames {
			fmt.Fprintf(&b, "  [mutcache.%s]\n  path = %q\n", n, filepath.Join(dir, "mutcache-"+n))
		}
	}
	if o.Extra != "" {
		b.WriteString("\n" + o.Extra + "\n")
	}
	p := filepath.Join(dir, "config.toml")
	if err := os.MkdirAll(dir, 0755); err != nil {
		return "", err
	}
	return p, os.WriteFile(p, []byte(b.String()), 0644)
}

// Worker is one live dvidw child process.
type Worker struct {
	Dir      string // data directory (survives restarts)
	Bin      string
	cmd      *exec.Cmd
	in       io.WriteCloser
	out      *bufio.Reader
	errPath  string
	cmdLog   *os.File
	nextID   int64
	dead     bool
	exited   chan struct{}
	waitErr  error
	Watchdog time.Duration
	mu       sync.Mutex
	Writes   int64 // store writes issued by this process so far (from last reply)
	Epoch    int
}

type StartOpts struct {
	Env        []string // extra env (VERIF_CRASH=…, DVID_ADMIN_TOKEN=…, GORACE=…)
	AdminToken string
	Crash      string // before:N / after:N
	MemLimitKB int64  // ulimit -v; 0 = none
}

var epochCounter int
var epochMu sync.Mutex

// StartWorker launches bin on dir (config must already have been written with WriteConfig).
// It returns ErrDied if the process dies during start-up (used by crash checks).
func StartWorker(bin, dir string, o StartOpts) (*Worker, error) {
	for try := 0; ; try++ {
		w, err := startWorkerOnce(bin, dir, o)
		// A race-detector build can be stopped during start-up by DVID's own logger set-up: a message queued by
		// LoadConfig is written by the logging goroutine (dvid/log.go init) while server.Initialize swaps the logger
		// (LogConfig.SetLogger).  That happens before any store is opened and before any request exists; it is outside
		// every property checked here, so such a start is simply repeated.
		if err == ErrDied && o.Crash == "" && try < 5 && w != nil {
			if se := w.Stderr(); strings.Contains(se, "WARNING: DATA RACE") && strings.Contains(se, "dvid.(*LogConfig).SetLogger") && !strings.Contains(se, "storage.Initialize") {
				continue
			}
		}
		return w, err
	}
}

func startWorkerOnce(bin, dir string, o StartOpts) (*Worker, error) {
	epochMu.Lock()
	epochCounter++
	ep := epochCounter
	epochMu.Unlock()
	w := &Worker{Dir: dir, Bin: bin, Watchdog: 180 * time.Second, exited: make(chan struct{}), Epoch: ep}
	w.errPath = filepath.Join(dir, fmt.Sprintf("stderr-%d.txt", ep))
	ef, err := os.Create(w.errPath)
	if err != nil {
		return nil, err
	}
	w.cmdLog, _ = os.OpenFile(filepath.Join(dir, "commands.jsonl"), os.O_CREATE|os.O_APPEND|os.O_WRONLY, 0644)
	cmd := exec.Command(bin, "-config", filepath.Join(dir, "config.toml"))
	cmd.Env = append(os.Environ(), o.Env...)
	if o.AdminToken != "" {
		cmd.Env = append(cmd.Env, "DVID_ADMIN_TOKEN="+o.AdminToken)
	}
	if o.Crash != "" {
		cmd.Env = append(cmd.Env, "VERIF_CRASH="+o.Crash)
	}
	cmd.Stderr = ef
	cmd.Dir = dir
	w.in, _ = cmd.StdinPipe()
	op, _ := cmd.StdoutPipe()
	w.out = bufio.NewReaderSize(op, 1<<20)
	if err := cmd.Start(); err != nil {
		ef.Close()
		return nil, err
	}
	w.cmd = cmd
	go func() {
		w.waitErr = cmd.Wait()
		ef.Close()
		close(w.exited)
	}()
	// boot reply
	rep, err := w.readReply(300 * time.Second)
	if err != nil {
		return w, err
	}
	if rep.Err != "" {
		w.Kill()
		return w, fmt.Errorf("worker boot failed: %s", rep.Err)
	}
	w.Writes = rep.Writes
	return w, nil
}

func (w *Worker) readReply(timeout time.Duration) (*wreply, error) {
	type res struct {
		line []byte
		err  error
	}
	ch := make(chan res, 1)
	go func() {
		line, err := w.out.ReadBytes('\n')
		ch <- res{line, err}
	}()
	select {
	case r := <-ch:
		if r.err != nil && len(r.line) == 0 {
			w.dead = true
			select {
			case <-w.exited:
			case <-time.After(5 * time.Second):
			}
			return nil, ErrDied
		}
		var rep wreply
		if err := json.Unmarshal(r.line, &rep); err != nil {
			return nil, fmt.Errorf("bad reply line %q: %v", Trunc(string(r.line), 200), err)
		}
		return &rep, nil
	case <-time.After(timeout):
		// inconclusive: dump goroutines, kill
		if w.cmd != nil && w.cmd.Process != nil {
			w.cmd.Process.Signal(syscall.SIGQUIT)
			select {
			case <-w.exited:
			case <-time.After(10 * time.Second):
				w.cmd.Process.Kill()
			}
		}
		w.dead = true
		return nil, ErrWatchdog
	}
}

func (w *Worker) call(c *wcmd) (*wreply, error) {
	w.mu.Lock()
	defer w.mu.Unlock()
	if w.dead {
		return nil, ErrDied
	}
	w.nextID++
	c.ID = w.nextID
	b, err := json.Marshal(c)
	if err != nil {
		return nil, err
	}
	b = append(b, '\n')
	if w.cmdLog != nil {
		w.cmdLog.Write(b) // logged before it is sent
	}
	if _, err := w.in.Write(b); err != nil {
		w.dead = true
		select {
		case <-w.exited:
		case <-time.After(5 * time.Second):
		}
		return nil, ErrDied
	}
	rep, err := w.readReply(w.Watchdog)
	if err != nil {
		return nil, err
	}
	if rep.Writes > 0 {
		w.Writes = rep.Writes
	}
	return rep, nil
}

// HTTP sends one request through the server's full mux.
// request families: which endpoints this run actually drove (method, level, instance name, endpoint keyword); written
// into the evidence as coverage.request_families
var (
	famMu sync.Mutex
	fams  = map[string]int{}
)

func noteRequest(method, url string) {
	if i := strings.IndexByte(url, '?'); i >= 0 {
		url = url[:i]
	}
	parts := strings.Split(strings.Trim(url, "/"), "/")
	fam := ""
	switch {
	case len(parts) >= 4 && parts[0] == "api" && parts[1] == "node":
		kw := ""
		if len(parts) >= 5 {
			kw = parts[4]
		}
		switch parts[3] {
		case "commit", "newversion", "branch", "tag", "note", "log", "status", "lock":
			fam = "node/" + parts[3]
		default:
			fam = "node/<" + parts[3] + ">/" + kw
		}
	case len(parts) >= 4 && parts[0] == "api" && parts[1] == "repo":
		fam = "repo/" + parts[3]
	case len(parts) >= 2 && parts[0] == "api":
		fam = strings.Join(parts[1:min(len(parts), 3)], "/")
	default:
		fam = "other"
	}
	if len(fam) > 60 {
		fam = fam[:60]
	}
	famMu.Lock()
	if len(fams) < 600 || fams[strings.ToUpper(method)+" "+fam] > 0 {
		fams[strings.ToUpper(method)+" "+fam]++
	}
	famMu.Unlock()
}

// RequestFamilies returns a copy of the per-family request counts of this process.
func RequestFamilies() map[string]int {
	famMu.Lock()
	defer famMu.Unlock()
	out := make(map[string]int, len(fams))
	for k, v := range fams {
		out[k] = v
	}
	return out
}

func (w *Worker) HTTP(method, url string, body []byte) (Resp, error) {
	noteRequest(method, url)
	rep, err := w.call(&wcmd{Cmd: "http", Req: Req{Method: method, URL: url, Body: body}, Label: method + " " + url})
	if err != nil {
		return Resp{}, err
	}
	if rep.Err != "" {
		return Resp{}, errors.New(rep.Err)
	}
	return rep.Resp, nil
}

func (w *Worker) Get(url string) (Resp, error)               { return w.HTTP("GET", url, nil) }
func (w *Worker) Post(url string, body []byte) (Resp, error) { return w.HTTP("POST", url, body) }
func (w *Worker) PostS(url, body string) (Resp, error)       { return w.HTTP("POST", url, []byte(body)) }
func (w *Worker) Delete(url string) (Resp, error)            { return w.HTTP("DELETE", url, nil) }

// Par runs the requests concurrently (one goroutine each, released by one barrier).
func (w *Worker) Par(reqs []Req) ([]Resp, error) {
	for _, q := range reqs {
		noteRequest(q.Method, q.URL)
	}
	rep, err := w.call(&wcmd{Cmd: "par", Reqs: reqs, Label: "par"})
	if err != nil {
		return nil, err
	}
	if rep.Err != "" {
		return nil, errors.New(rep.Err)
	}
	return rep.Resps, nil
}

// Settle blocks until every instance is idle by the code's own flags.
func (w *Worker) Settle() error {
	rep, err := w.call(&wcmd{Cmd: "settle", MaxWaitMS: 120000})
	if err != nil {
		return err
	}
	if os.Getenv("VERIF_SETTLE_DEBUG") != "" && rep.Busy > 20 {
		fmt.Fprintf(os.Stderr, "settle: %d busy polls, last busy: %s\n", rep.Busy, rep.Last)
	}
	if !rep.OK {
		return fmt.Errorf("settle did not reach idle within 120 s (last busy: %s): %w", rep.Last, ErrWatchdog)
	}
	return nil
}

func (w *Worker) Audit() ([]WriteEvent, error) {
	rep, err := w.call(&wcmd{Cmd: "audit"})
	if err != nil {
		return nil, err
	}
	return rep.Events, nil
}

func (w *Worker) SetDelay(readUS, writeUS int64, jitter bool) error {
	_, err := w.call(&wcmd{Cmd: "delay", ReadUS: readUS, WriteUS: writeUS, Jitter: jitter})
	return err
}

// SetWipeDelay holds the asynchronous wipe of deleted instances (DeleteAll) for the given time; every other store call
// runs at full speed (SetDelay with any arguments resets it to 0).
func (w *Worker) SetWipeDelay(us int64) error {
	_, err := w.call(&wcmd{Cmd: "delay", WipeUS: us})
	return err
}

func (w *Worker) SetMode(mode string) error {
	_, err := w.call(&wcmd{Cmd: "mode", Mode: mode})
	return err
}

// API calls a registered in-process API function; result is decoded into out (if non-nil).
// A non-nil *APIError means the function itself returned an error (worker alive).
type APIError struct{ Msg string }

func (e *APIError) Error() string { return e.Msg }

func (w *Worker) API(fn string, args interface{}, out interface{}) error {
	rep, err := w.call(&wcmd{Cmd: "api", Fn: fn, Args: args, Label: "api " + fn})
	if err != nil {
		return err
	}
	if rep.Err != "" {
		return &APIError{rep.Err}
	}
	if out != nil && len(rep.Result) > 0 {
		return json.Unmarshal(rep.Result, out)
	}
	return nil
}

// Exit ends the worker: "clean" runs the shutdown code, "abrupt" is os.Exit with no shutdown.
func (w *Worker) Exit(mode string) error {
	if w.dead {
		return nil
	}
	_, err := w.call(&wcmd{Cmd: "exit", Mode: mode})
	select {
	case <-w.exited:
	case <-time.After(60 * time.Second):
		w.cmd.Process.Kill()
		<-w.exited
	}
	w.dead = true
	w.closeFiles()
	if err == ErrDied {
		return nil
	}
	return err
}

// Kill sends SIGKILL from outside.
func (w *Worker) Kill() {
	if w.cmd != nil && w.cmd.Process != nil {
		w.cmd.Process.Kill()
		<-w.exited
	}
	w.dead = true
	w.closeFiles()
}

func (w *Worker) closeFiles() {
	if w.in != nil {
		w.in.Close()
	}
	if w.cmdLog != nil {
		w.cmdLog.Close()
		w.cmdLog = nil
	}
}

func (w *Worker) Dead() bool { return w.dead }

// WaitExit waits for the process to end (after a crash injection) up to d.
func (w *Worker) WaitExit(d time.Duration) bool {
	select {
	case <-w.exited:
		w.dead = true
		w.closeFiles()
		return true
	case <-time.After(d):
		return false
	}
}

// Stderr returns what the worker wrote to stderr (panic reports, fatal errors, race reports).
func (w *Worker) Stderr() string {
	if w == nil {
		return ""
	}
	b, _ := os.ReadFile(w.errPath)
	return string(b)
}

// KilledBySignal reports whether the process ended by the given signal.
func (w *Worker) KilledBySignal(sig syscall.Signal) bool {
	if ee, ok := w.waitErr.(*exec.ExitError); ok {
		if ws, ok := ee.Sys().(syscall.WaitStatus); ok {
			return ws.Signaled() && ws.Signal() == sig
		}
	}
	return false
}

// FatalInStderr extracts an unrecovered panic / fatal error / sanitizer report from stderr, if any.
func FatalInStderr(s string) string {
	for _, marker := range []string{"fatal error:", "panic:", "ERROR: AddressSanitizer", "checkptr:", "WARNING: DATA RACE", "unexpected signal", "SIGSEGV"} {
		if i := strings.Index(s, marker); i >= 0 {
			end := i + 1500
			if end > len(s) {
				end = len(s)
			}
			return s[i:end]
		}
	}
	return ""
}

// Wedged decides, from the goroutine dump a watchdog's SIGQUIT produced, whether the request that outlived the
// watchdog can never be answered: the goroutine serving it is parked on a channel / semaphore / mutex and has been
// for minutes, and so is every other goroutine that has server code on its stack (the process is quiescent: nobody
// is left who could wake the request up).  A request that is merely slow on a loaded machine has a goroutine that is
// running, runnable, in a system call or recently parked, and is reported as not wedged (inconclusive).
// Returns the server function the request is parked in.
func Wedged(stderr string) (bool, string) {
	i := strings.Index(stderr, "SIGQUIT: quit")
	if i < 0 {
		return false, ""
	}
	dump := stderr[i:]
	reqFrame := ""
	for _, g := range strings.Split(dump, "\n\n") {
		lines := strings.Split(g, "\n")
		if len(lines) < 2 || !strings.HasPrefix(lines[0], "goroutine ") || strings.HasPrefix(lines[0], "goroutine 0 ") {
			continue
		}
		hdr := lines[0]
		state := hdr
		if a := strings.Index(hdr, "["); a >= 0 {
			state = strings.TrimSuffix(strings.TrimSpace(hdr[a+1:]), "]:")
		}
		first, serving, daemon := "", false, false
		for _, l := range lines[1:] {
			if strings.HasPrefix(l, "\t") {
				continue
			}
			if strings.Contains(l, "janelia-flyem/dvid/") {
				if first == "" && !strings.HasPrefix(l, "created by ") {
					first = l
					if k := strings.LastIndex(first, "("); k > 0 {
						first = first[:k]
					}
				}
				for _, d := range []string{"storage.loadMonitor", "server.init.", "badger.syncPeriodically", "dvid.init", "storage.init", "datastore.init", "filelog.", "dvid.(*", "server.serveLoop"} {
					if strings.Contains(l, d) && !strings.HasPrefix(l, "created by ") {
						daemon = true
					}
				}
			}
			if strings.Contains(l, "server.ServeSingleHTTP") {
				serving = true
			}
			if strings.HasPrefix(l, "created by ") && strings.Contains(l, ".init") {
				daemon = true // started by a package initialiser: a process-lifetime service loop
			}
		}
		if first == "" {
			continue // no server code on this stack
		}
		// (a goroutine that has sat in a select for minutes - an event loop nobody feeds - is as inert as one on a channel)
		parked := strings.HasPrefix(state, "chan ") || strings.HasPrefix(state, "semacquire") || strings.HasPrefix(state, "sync.") || strings.HasPrefix(state, "select")
		long := strings.Contains(state, "minutes")
		if serving {
			if !(parked && long) {
				return false, ""
			}
			reqFrame = first
			continue
		}
		if daemon && !serving {
			continue
		}
		if !(parked && long) {
			return false, "" // somebody with server code on its stack may still make progress
		}
	}
	return reqFrame != "", strings.TrimSpace(reqFrame)
}
