package dvc

import (
	"fmt"
	"math/rand"
)

// Hist drives a random legal sequence of DAG operations (commit / newversion / branch / merge)
// through the REST API and mirrors each acknowledged one in the DAG model.
type Hist struct {
	C       *Client
	Root    string
	D       *DAG
	R       *rand.Rand
	nbranch int
	Tag     string // makes branch names unique across histories in one server
	MaxPar  int    // max merge parents (default 4)
	Ops     []string
}

func NewHist(c *Client, r *rand.Rand, tag string) (*Hist, error) {
	root, err := c.NewRepo("hist-" + tag)
	if err != nil {
		return nil, err
	}
	return &Hist{C: c, Root: root, D: NewDAG(root), R: r, Tag: tag, MaxPar: 4}, nil
}

func (h *Hist) log(f string, a ...interface{}) { h.Ops = append(h.Ops, fmt.Sprintf(f, a...)) }

// Short returns a stable short name (creation index) for a uuid.
func (h *Hist) Short(u string) string {
	for i, x := range h.D.Order {
		if x == u {
			return fmt.Sprintf("n%d", i)
		}
	}
	return u
}

func (h *Hist) canNewVersion(u string) bool {
	n := h.D.Nodes[u]
	if !n.Locked {
		return false
	}
	for _, c := range n.Children {
		if h.D.Nodes[c].Branch == n.Branch {
			return false
		}
	}
	return true
}

// CommitNode commits an open node.
func (h *Hist) CommitNode(u string) error {
	if err := h.C.Commit(u); err != nil {
		return err
	}
	h.D.Nodes[u].Locked = true
	h.log("commit %s", h.Short(u))
	return nil
}

func (h *Hist) NewVersionOf(u string) (string, error) {
	child, err := h.C.NewVersion(u)
	if err != nil {
		return "", err
	}
	h.D.AddChild(child, []string{u}, h.D.Nodes[u].Branch)
	h.log("newversion %s -> %s", h.Short(u), h.Short(child))
	return child, nil
}

func (h *Hist) BranchOf(u string) (string, error) {
	h.nbranch++
	name := fmt.Sprintf("br-%s-%d", h.Tag, h.nbranch)
	child, err := h.C.Branch(u, name)
	if err != nil {
		return "", err
	}
	h.D.AddChild(child, []string{u}, name)
	h.log("branch %s -> %s (%s)", h.Short(u), h.Short(child), name)
	return child, nil
}

func (h *Hist) MergeOf(parents []string) (string, error) {
	child, err := h.C.Merge(h.Root, parents)
	if err != nil {
		return "", err
	}
	h.D.AddChild(child, parents, "")
	s := ""
	for _, p := range parents {
		s += h.Short(p) + " "
	}
	h.log("merge [%s] -> %s", s, h.Short(child))
	return child, nil
}

// StepDAG performs one random legal DAG operation; returns a description ("" if none was possible).
func (h *Hist) StepDAG() (string, error) {
	open := h.D.Open()
	comm := h.D.Committed()
	type choice struct {
		w  int
		fn func() (string, error)
	}
	var cs []choice
	if len(open) > 0 {
		cs = append(cs, choice{4, func() (string, error) {
			u := open[h.R.Intn(len(open))]
			return "commit", h.CommitNode(u)
		}})
	}
	var nv []string
	for _, u := range comm {
		if h.canNewVersion(u) {
			nv = append(nv, u)
		}
	}
	if len(nv) > 0 {
		cs = append(cs, choice{3, func() (string, error) {
			_, err := h.NewVersionOf(nv[h.R.Intn(len(nv))])
			return "newversion", err
		}})
	}
	if len(comm) > 0 {
		cs = append(cs, choice{3, func() (string, error) {
			_, err := h.BranchOf(comm[h.R.Intn(len(comm))])
			return "branch", err
		}})
	}
	if len(comm) >= 2 {
		cs = append(cs, choice{2, func() (string, error) {
			k := 2
			maxp := h.MaxPar
			if maxp > len(comm) {
				maxp = len(comm)
			}
			if maxp > 2 {
				k = 2 + h.R.Intn(maxp-1)
			}
			perm := h.R.Perm(len(comm))[:k]
			var ps []string
			for _, i := range perm {
				ps = append(ps, comm[i])
			}
			_, err := h.MergeOf(ps)
			return "merge", err
		}})
	}
	if len(cs) == 0 {
		return "", nil
	}
	tot := 0
	for _, c := range cs {
		tot += c.w
	}
	x := h.R.Intn(tot)
	for _, c := range cs {
		if x < c.w {
			return c.fn()
		}
		x -= c.w
	}
	return "", nil
}
