package dvc

import "fmt"

// CheckDAGInvariants checks the structural claims of property C07 on the server's own repo JSON:
// single root, acyclic, reachable, mirrored links, unique UUIDs / version ids, committed parents, linear named branches.
func CheckDAGInvariants(repos map[string]*RepoInfo) []string {
	var bad []string
	seenUUID := map[string]string{}
	seenVer := map[uint32]string{}
	for root, ri := range repos {
		if ri == nil {
			continue
		}
		byVer := map[uint32]*Node{}
		nroots := 0
		for key, n := range ri.DAG.Nodes {
			if key != n.UUID {
				bad = append(bad, fmt.Sprintf("uuid-key-mismatch: repo %s node keyed %q has UUID %q", root, key, n.UUID))
			}
			if prev, dup := seenUUID[n.UUID]; dup {
				bad = append(bad, fmt.Sprintf("duplicate-uuid: %s in repos %s and %s", n.UUID, prev, root))
			}
			seenUUID[n.UUID] = root
			if prev, dup := seenVer[n.VersionID]; dup {
				bad = append(bad, fmt.Sprintf("duplicate-version-id: %d (%s and %s)", n.VersionID, prev, n.UUID))
			}
			seenVer[n.VersionID] = n.UUID
			byVer[n.VersionID] = n
			if len(n.Parents) == 0 {
				nroots++
				if n.UUID != ri.Root || n.UUID != ri.DAG.Root {
					bad = append(bad, fmt.Sprintf("extra-root: node %s has no parents but repo root is %s", n.UUID, ri.Root))
				}
			}
		}
		if nroots != 1 {
			bad = append(bad, fmt.Sprintf("root-count: repo %s has %d parentless nodes", root, nroots))
		}
		count := func(xs []uint32, v uint32) int {
			k := 0
			for _, x := range xs {
				if x == v {
					k++
				}
			}
			return k
		}
		for _, n := range ri.DAG.Nodes {
			for _, p := range n.Parents {
				pn := byVer[p]
				if pn == nil {
					bad = append(bad, fmt.Sprintf("dangling-parent: node %s (v%d) names parent v%d which is not in the repo", n.UUID, n.VersionID, p))
					continue
				}
				if k, k2 := count(pn.Children, n.VersionID), count(n.Parents, p); k != k2 {
					bad = append(bad, fmt.Sprintf("mirror: node %s lists parent %s %d times, which lists it %d times as child", n.UUID, pn.UUID, k2, k))
				}
				if !pn.Locked {
					bad = append(bad, fmt.Sprintf("uncommitted-parent: node %s hangs off uncommitted %s", n.UUID, pn.UUID))
				}
			}
			for _, ch := range n.Children {
				cn := byVer[ch]
				if cn == nil {
					bad = append(bad, fmt.Sprintf("dangling-child: node %s (v%d) names child v%d which is not in the repo", n.UUID, n.VersionID, ch))
					continue
				}
				if k, k2 := count(cn.Parents, n.VersionID), count(n.Children, ch); k != k2 {
					bad = append(bad, fmt.Sprintf("mirror: node %s lists child %s %d times, which lists it %d times as parent", n.UUID, cn.UUID, k2, k))
				}
			}
		}
		// reachability + acyclicity (Kahn over parent links)
		if rn := ri.DAG.Nodes[ri.Root]; rn != nil {
			reach := map[uint32]bool{}
			var walk func(v uint32, depth int)
			walk = func(v uint32, depth int) {
				if reach[v] || depth > 10000 {
					return
				}
				reach[v] = true
				if n := byVer[v]; n != nil {
					for _, ch := range n.Children {
						walk(ch, depth+1)
					}
				}
			}
			walk(rn.VersionID, 0)
			for v, n := range byVer {
				if !reach[v] {
					bad = append(bad, fmt.Sprintf("unreachable: node %s (v%d) not reachable from root", n.UUID, v))
				}
			}
			indeg := map[uint32]int{}
			for v, n := range byVer {
				indeg[v] += 0
				for range n.Parents {
					indeg[v]++
				}
			}
			var q []uint32
			for v, d := range indeg {
				if d == 0 {
					q = append(q, v)
				}
			}
			done := 0
			for len(q) > 0 {
				v := q[0]
				q = q[1:]
				done++
				if n := byVer[v]; n != nil {
					for _, ch := range n.Children {
						if _, ok := indeg[ch]; ok {
							indeg[ch]--
							if indeg[ch] == 0 {
								q = append(q, ch)
							}
						}
					}
				}
			}
			if done != len(byVer) {
				bad = append(bad, fmt.Sprintf("cycle: only %d of %d nodes in topological order", done, len(byVer)))
			}
		}
		// branches: named branches are one chain with one head; no branch forks through single-parent children
		byBranch := map[string][]*Node{}
		for _, n := range ri.DAG.Nodes {
			byBranch[n.Branch] = append(byBranch[n.Branch], n)
		}
		for b, ns := range byBranch {
			heads, starts := 0, 0
			for _, n := range ns {
				same := 0
				for _, ch := range n.Children {
					if cn := byVer[ch]; cn != nil && cn.Branch == b && len(cn.Parents) == 1 {
						same++
					}
				}
				if same > 1 {
					bad = append(bad, fmt.Sprintf("branch-fork: node %s has %d single-parent children on branch %q", n.UUID, same, b))
				}
				if b != "" {
					if same == 0 {
						heads++
					}
					inb := false
					for _, p := range n.Parents {
						if pn := byVer[p]; pn != nil && pn.Branch == b {
							inb = true
						}
					}
					if !inb {
						starts++
					}
				}
			}
			if b != "" && (heads != 1 || starts != 1) {
				bad = append(bad, fmt.Sprintf("branch-chain: branch %q has %d heads and %d starting nodes", b, heads, starts))
			}
		}
	}
	return bad
}
