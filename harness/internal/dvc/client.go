package dvc

import (
	"encoding/json"
	"fmt"

	"verif/harness/internal/drv"
)

// Client wraps a worker with the repo-level REST calls every workload needs.
type Client struct {
	W *drv.Worker
}

type HTTPError struct {
	Status int
	Body   string
	What   string
}

func (e *HTTPError) Error() string {
	return fmt.Sprintf("%s: HTTP %d %s", e.What, e.Status, drv.Trunc(e.Body, 300))
}

func (c *Client) postJSON(url string, body interface{}, out interface{}) error {
	var b []byte
	if body != nil {
		b, _ = json.Marshal(body)
	}
	r, err := c.W.Post(url, b)
	if err != nil {
		return err
	}
	if !r.OK() {
		return &HTTPError{r.Status, string(r.Body), "POST " + url}
	}
	if out != nil {
		if err := json.Unmarshal(r.Body, out); err != nil {
			return fmt.Errorf("POST %s: bad JSON %q: %v", url, drv.Trunc(string(r.Body), 200), err)
		}
	}
	return nil
}

func (c *Client) NewRepo(alias string) (string, error) {
	var out struct{ Root string }
	err := c.postJSON("/api/repos", map[string]string{"alias": alias, "description": "verif " + alias}, &out)
	return out.Root, err
}

func (c *Client) Commit(uuid string) error {
	return c.postJSON("/api/node/"+uuid+"/commit", map[string]interface{}{"note": "c"}, nil)
}

func (c *Client) NewVersion(uuid string) (string, error) {
	var out struct{ Child string }
	err := c.postJSON("/api/node/"+uuid+"/newversion", map[string]string{"note": "nv"}, &out)
	return out.Child, err
}

func (c *Client) Branch(uuid, name string) (string, error) {
	var out struct{ Child string }
	err := c.postJSON("/api/node/"+uuid+"/branch", map[string]string{"branch": name, "note": "br"}, &out)
	return out.Child, err
}

func (c *Client) Merge(root string, parents []string) (string, error) {
	var out struct{ Child string }
	err := c.postJSON("/api/repo/"+root+"/merge", map[string]interface{}{"mergeType": "conflict-free", "parents": parents, "note": "m"}, &out)
	return out.Child, err
}

// NewInstance creates a data instance; cfg values are strings as the API expects.
func (c *Client) NewInstance(root, typename, name string, cfg map[string]string) error {
	m := map[string]string{"typename": typename, "dataname": name}
	for k, v := range cfg {
		m[k] = v
	}
	return c.postJSON("/api/repo/"+root+"/instance", m, nil)
}

func (c *Client) Repos() (map[string]*RepoInfo, []byte, error) {
	r, err := c.W.Get("/api/repos/info")
	if err != nil {
		return nil, nil, err
	}
	if !r.OK() {
		return nil, r.Body, &HTTPError{r.Status, string(r.Body), "GET /api/repos/info"}
	}
	m, err := ParseRepos(r.Body)
	return m, r.Body, err
}

func (c *Client) Repo(root string) (*RepoInfo, error) {
	r, err := c.W.Get("/api/repo/" + root + "/info")
	if err != nil {
		return nil, err
	}
	if !r.OK() {
		return nil, &HTTPError{r.Status, string(r.Body), "GET repo info"}
	}
	return ParseRepo(r.Body)
}

// IsWorkerErr reports whether err means the worker itself failed (died / watchdog) rather than an HTTP-level error.
func IsWorkerErr(err error) bool {
	if err == nil {
		return false
	}
	if _, ok := err.(*HTTPError); ok {
		return false
	}
	return true
}
