// Package dvc holds driver-side helpers that are independent of /repo: a DVID REST client
// over a drv.Worker, parsers for repo JSON, and the reference models (version DAG,
// versioned map with the "maximal live candidate" read rule of property C01).
package dvc

import (
	"encoding/json"
	"fmt"
	"sort"
	"strings"
)

// ---- parsed server JSON ----

type Node struct {
	Branch    string
	Note      string
	Log       []string
	UUID      string
	VersionID uint32
	Locked    bool
	Parents   []uint32
	Children  []uint32
}

type RepoInfo struct {
	Root          string
	Alias         string
	Description   string
	Log           []string
	Properties    map[string]interface{}
	DataInstances map[string]json.RawMessage
	DAG           struct {
		Root  string
		Nodes map[string]*Node
	}
	MutationID      uint64
	SavedMutationID uint64
}

func ParseRepos(b []byte) (map[string]*RepoInfo, error) {
	var m map[string]*RepoInfo
	if err := json.Unmarshal(b, &m); err != nil {
		return nil, err
	}
	return m, nil
}

func ParseRepo(b []byte) (*RepoInfo, error) {
	var r RepoInfo
	if err := json.Unmarshal(b, &r); err != nil {
		return nil, err
	}
	return &r, nil
}

// ---- reference DAG model ----

type MNode struct {
	UUID     string
	Parents  []string
	Children []string
	Branch   string
	Locked   bool
	Note     string
}

type DAG struct {
	Root  string
	Nodes map[string]*MNode
	Order []string // creation order
}

func NewDAG(root string) *DAG {
	d := &DAG{Root: root, Nodes: map[string]*MNode{}}
	d.Nodes[root] = &MNode{UUID: root}
	d.Order = []string{root}
	return d
}

func (d *DAG) AddChild(uuid string, parents []string, branch string) *MNode {
	n := &MNode{UUID: uuid, Parents: append([]string{}, parents...), Branch: branch}
	d.Nodes[uuid] = n
	d.Order = append(d.Order, uuid)
	for _, p := range parents {
		if pn := d.Nodes[p]; pn != nil {
			pn.Children = append(pn.Children, uuid)
		}
	}
	return n
}

// Anc returns the reflexive-transitive ancestor set of v over all parents.
func (d *DAG) Anc(v string) map[string]bool {
	out := map[string]bool{}
	var walk func(string)
	walk = func(u string) {
		if out[u] {
			return
		}
		out[u] = true
		if n := d.Nodes[u]; n != nil {
			for _, p := range n.Parents {
				walk(p)
			}
		}
	}
	walk(v)
	return out
}

// StrictAnc reports whether a is a strict ancestor of v.
func (d *DAG) StrictAnc(a, v string) bool {
	return a != v && d.Anc(v)[a]
}

func (d *DAG) Leaves() []string {
	var out []string
	for _, u := range d.Order {
		if len(d.Nodes[u].Children) == 0 {
			out = append(out, u)
		}
	}
	return out
}

func (d *DAG) Open() []string {
	var out []string
	for _, u := range d.Order {
		if !d.Nodes[u].Locked {
			out = append(out, u)
		}
	}
	return out
}

func (d *DAG) Committed() []string {
	var out []string
	for _, u := range d.Order {
		if d.Nodes[u].Locked {
			out = append(out, u)
		}
	}
	return out
}

// Shape is a canonical, uuid-free description of the DAG (for distinct-shape counting).
func (d *DAG) Shape() string {
	idx := map[string]int{}
	for i, u := range d.Order {
		idx[u] = i
	}
	var parts []string
	for _, u := range d.Order {
		n := d.Nodes[u]
		var ps []string
		for _, p := range n.Parents {
			ps = append(ps, fmt.Sprint(idx[p]))
		}
		parts = append(parts, strings.Join(ps, "+"))
	}
	return strings.Join(parts, ",")
}

// ---- versioned map model (C01) ----

type entry struct {
	val  string
	tomb bool
}

// VMap is, per datum, a map version -> value | TOMBSTONE.
type VMap struct {
	D   *DAG
	Ent map[string]map[string]entry
}

func NewVMap(d *DAG) *VMap { return &VMap{D: d, Ent: map[string]map[string]entry{}} }

func (m *VMap) Put(datum, version, val string) {
	if m.Ent[datum] == nil {
		m.Ent[datum] = map[string]entry{}
	}
	m.Ent[datum][version] = entry{val: val}
}

func (m *VMap) Del(datum, version string) {
	if m.Ent[datum] == nil {
		m.Ent[datum] = map[string]entry{}
	}
	m.Ent[datum][version] = entry{tomb: true}
}

// Clear removes any entry for datum at exactly version (a real delete, not a tombstone).
func (m *VMap) Clear(datum, version string) {
	if m.Ent[datum] != nil {
		delete(m.Ent[datum], version)
	}
}

type ReadKind int

const (
	Absent ReadKind = iota
	Value
	Conflict // >= 2 unsuperseded live values: the read must not succeed with either
)

type ReadResult struct {
	Kind    ReadKind
	Val     string
	From    string   // version holding the value
	NCand   int      // candidate entries in Anc(V)
	Maximal []string // versions of maximal candidates
	Vals    []string // live values among maximal candidates (for Conflict)
}

// Read applies C01's rule: candidates are entries at versions in Anc(V); a candidate is superseded
// if another candidate sits at a strict descendant; among the maximal ones the live values decide.
func (m *VMap) Read(datum, v string) ReadResult {
	anc := m.D.Anc(v)
	var cands []string
	for ver := range m.Ent[datum] {
		if anc[ver] {
			cands = append(cands, ver)
		}
	}
	sort.Strings(cands)
	res := ReadResult{NCand: len(cands)}
	for _, a := range cands {
		superseded := false
		for _, b := range cands {
			if a != b && m.D.StrictAnc(a, b) {
				superseded = true
				break
			}
		}
		if !superseded {
			res.Maximal = append(res.Maximal, a)
		}
	}
	for _, a := range res.Maximal {
		e := m.Ent[datum][a]
		if !e.tomb {
			res.Vals = append(res.Vals, e.val)
			res.From = a
		}
	}
	switch len(res.Vals) {
	case 0:
		res.Kind = Absent
	case 1:
		res.Kind = Value
		res.Val = res.Vals[0]
	default:
		res.Kind = Conflict
	}
	return res
}

// Data returns sorted datum names.
func (m *VMap) Data() []string {
	var out []string
	for k := range m.Ent {
		out = append(out, k)
	}
	sort.Strings(out)
	return out
}
