// Package annmodel is the driver-side reference model for property C13: a set of point-annotation
// elements keyed by position plus a minimal label volume (supervoxels + supervoxel->body map), and
// the views the annotation / labelsz REST APIs are specified to return.  It imports nothing from /repo.
package annmodel

import "fmt"

// Point is a voxel (or block) coordinate (x, y, z).
type Point [3]int32

// URL renders the point as DVID expects it in URLs: "x_y_z".
func (p Point) URL() string { return fmt.Sprintf("%d_%d_%d", p[0], p[1], p[2]) }

func (p Point) String() string { return fmt.Sprintf("(%d,%d,%d)", p[0], p[1], p[2]) }

// BlockKey renders a block coordinate as the JSON key of the /blocks endpoints: "x,y,z".
func (p Point) BlockKey() string { return fmt.Sprintf("%d,%d,%d", p[0], p[1], p[2]) }

// Less orders by z, then y, then x.
func (p Point) Less(q Point) bool {
	for d := 2; d >= 0; d-- {
		if p[d] != q[d] {
			return p[d] < q[d]
		}
	}
	return false
}

// HasNeg reports whether any coordinate is negative.
func (p Point) HasNeg() bool { return p[0] < 0 || p[1] < 0 || p[2] < 0 }

// FloorDiv is integer division rounding towards minus infinity.
func FloorDiv(a, b int32) int32 {
	q := a / b
	if (a%b != 0) && ((a < 0) != (b < 0)) {
		q--
	}
	return q
}

// Block returns the coordinate of the block (cube of edge bs) that contains voxel p.
func (p Point) Block(bs int32) Point {
	return Point{FloorDiv(p[0], bs), FloorDiv(p[1], bs), FloorDiv(p[2], bs)}
}

// InBox reports whether p lies in the box with the given offset and size (voxels).
func (p Point) InBox(off Point, size [3]int32) bool {
	for d := 0; d < 3; d++ {
		if p[d] < off[d] || p[d] >= off[d]+size[d] {
			return false
		}
	}
	return true
}
