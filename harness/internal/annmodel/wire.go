package annmodel

import (
	"encoding/json"
	"fmt"
	"sort"
	"strings"
)

type wireRel struct {
	Rel string
	To  [3]int32
}

type wireElem struct {
	Pos  [3]int32
	Kind string
	Tags []string          `json:",omitempty"`
	Prop map[string]string `json:",omitempty"`
	Rels []wireRel         `json:",omitempty"`
}

func toWire(e *Element) wireElem {
	w := wireElem{Pos: e.Pos, Kind: e.Kind, Tags: e.Tags, Prop: e.Prop}
	for _, r := range e.Rels {
		if !r.Loose() {
			w.Rels = append(w.Rels, wireRel{r.Rel, r.To})
		}
	}
	return w
}

func fromWire(w wireElem) *Element {
	e := &Element{Pos: w.Pos, Kind: w.Kind, Tags: w.Tags, Prop: w.Prop}
	for _, r := range w.Rels {
		e.Rels = append(e.Rels, Rel{Rel: r.Rel, To: r.To})
	}
	return e
}

// MarshalElements renders the body of POST elements (strict relationships only).
func MarshalElements(es []*Element) []byte {
	ws := make([]wireElem, 0, len(es))
	for _, e := range es {
		ws = append(ws, toWire(e))
	}
	b, _ := json.Marshal(ws)
	return b
}

// MarshalBlocks renders the body of POST blocks.
func MarshalBlocks(blocks map[Point][]*Element) []byte {
	m := map[string][]wireElem{}
	for b, es := range blocks {
		ws := make([]wireElem, 0, len(es))
		for _, e := range es {
			ws = append(ws, toWire(e))
		}
		m[b.BlockKey()] = ws
	}
	out, _ := json.Marshal(m)
	return out
}

// ParseElements parses a JSON array of elements ("null" = empty).
func ParseElements(b []byte) ([]*Element, error) {
	var ws []wireElem
	if err := json.Unmarshal(b, &ws); err != nil {
		return nil, fmt.Errorf("not a JSON element array: %v", err)
	}
	out := make([]*Element, 0, len(ws))
	for _, w := range ws {
		out = append(out, fromWire(w))
	}
	return out, nil
}

// ParseBlocks parses the object returned by GET blocks / all-elements.
func ParseBlocks(b []byte) (map[Point][]*Element, error) {
	var m map[string][]wireElem
	if err := json.Unmarshal(b, &m); err != nil {
		return nil, fmt.Errorf("not a JSON block object: %v", err)
	}
	out := map[Point][]*Element{}
	for k, ws := range m {
		var p Point
		if _, err := fmt.Sscanf(k, "%d,%d,%d", &p[0], &p[1], &p[2]); err != nil {
			return nil, fmt.Errorf("bad block key %q", k)
		}
		es := make([]*Element, 0, len(ws))
		for _, w := range ws {
			es = append(es, fromWire(w))
		}
		out[p] = es
	}
	return out, nil
}

// Mismatch is one difference between an expected and an actual view.
type Mismatch struct {
	Pos  Point
	What string
}

func (m Mismatch) String() string { return m.Pos.String() + ": " + m.What }

func sortedCopy(s []string) []string {
	c := append([]string(nil), s...)
	sort.Strings(c)
	return c
}

func relString(rel string, to Point) string { return rel + "->" + to.String() }

// Diff compares a view returned by the server with the model's view.  Order is irrelevant; an
// element appearing twice is a mismatch.  With withRels=false relationships are not compared
// (tag/<t> and label/<l> return elements without relationships by default).
func Diff(expected, actual []*Element, withRels bool) []Mismatch {
	var out []Mismatch
	exp := map[Point]*Element{}
	for _, e := range expected {
		exp[e.Pos] = e
	}
	seen := map[Point]bool{}
	for _, a := range actual {
		if seen[a.Pos] {
			out = append(out, Mismatch{a.Pos, "returned more than once"})
			continue
		}
		seen[a.Pos] = true
		e := exp[a.Pos]
		if e == nil {
			out = append(out, Mismatch{a.Pos, fmt.Sprintf("unexpected element (kind %s tags %v)", a.Kind, a.Tags)})
			continue
		}
		if a.Kind != e.Kind {
			out = append(out, Mismatch{a.Pos, fmt.Sprintf("kind %s, expected %s", a.Kind, e.Kind)})
		}
		if strings.Join(sortedCopy(a.Tags), ",") != strings.Join(sortedCopy(e.Tags), ",") {
			out = append(out, Mismatch{a.Pos, fmt.Sprintf("tags %v, expected %v", sortedCopy(a.Tags), sortedCopy(e.Tags))})
		}
		if len(a.Prop) != len(e.Prop) {
			out = append(out, Mismatch{a.Pos, fmt.Sprintf("props %v, expected %v", a.Prop, e.Prop)})
		} else {
			for k, v := range e.Prop {
				if av, ok := a.Prop[k]; !ok || av != v {
					out = append(out, Mismatch{a.Pos, fmt.Sprintf("props %v, expected %v", a.Prop, e.Prop)})
					break
				}
			}
		}
		if withRels {
			// strict relationships must all be present (multiset); what remains must be explained by loose ones
			rest := map[string]int{}
			for _, r := range a.Rels {
				rest[relString(r.Rel, r.To)]++
			}
			for _, r := range e.Rels {
				if r.Loose() {
					continue
				}
				k := relString(r.Rel, r.To)
				if rest[k] == 0 {
					out = append(out, Mismatch{a.Pos, fmt.Sprintf("relationship %s missing (has %s)", k, relsString(a.Rels))})
				} else {
					rest[k]--
				}
			}
			for k, n := range rest {
				if n <= 0 {
					continue
				}
				ok := false
				for _, r := range e.Rels {
					if !r.Loose() {
						continue
					}
					for _, alt := range r.Alts {
						if relString(r.Rel, alt) == k {
							ok = true
						}
					}
				}
				if !ok {
					out = append(out, Mismatch{a.Pos, fmt.Sprintf("unexpected relationship %s (expected %s)", k, relsString(e.Rels))})
				}
			}
		}
	}
	for _, e := range expected {
		if !seen[e.Pos] {
			out = append(out, Mismatch{e.Pos, fmt.Sprintf("missing element (kind %s tags %v)", e.Kind, e.Tags)})
		}
	}
	sort.Slice(out, func(i, j int) bool {
		if out[i].Pos != out[j].Pos {
			return out[i].Pos.Less(out[j].Pos)
		}
		return out[i].What < out[j].What
	})
	return out
}

func relsString(rs []Rel) string {
	var parts []string
	for _, r := range rs {
		s := relString(r.Rel, r.To)
		if r.Loose() {
			s = "~" + r.Rel + "->" + fmt.Sprint(r.Alts)
		}
		parts = append(parts, s)
	}
	sort.Strings(parts)
	return "[" + strings.Join(parts, " ") + "]"
}

// DiffBlocks compares block-keyed views (GET blocks, all-elements): same non-empty blocks, each
// element listed under the block that contains it, and the same elements (with relationships).
func DiffBlocks(bs int32, expected, actual map[Point][]*Element) []Mismatch {
	var out []Mismatch
	var ea, aa []*Element
	for _, es := range expected {
		ea = append(ea, es...)
	}
	for b, es := range actual {
		for _, e := range es {
			if e.Pos.Block(bs) != b {
				out = append(out, Mismatch{e.Pos, fmt.Sprintf("listed under block %s but lies in block %s", b, e.Pos.Block(bs))})
			}
		}
		aa = append(aa, es...)
	}
	return append(out, Diff(ea, aa, true)...)
}

// Canon renders a view canonically (used for case keys and witnesses).
func Canon(es []*Element, withRels bool) string {
	var parts []string
	for _, e := range sortElems(append([]*Element(nil), es...)) {
		s := fmt.Sprintf("%s %s %v", e.Pos, e.Kind, sortedCopy(e.Tags))
		if len(e.Prop) > 0 {
			var ks []string
			for k, v := range e.Prop {
				ks = append(ks, k+"="+v)
			}
			sort.Strings(ks)
			s += " {" + strings.Join(ks, ",") + "}"
		}
		if withRels {
			s += " " + relsString(e.Rels)
		}
		parts = append(parts, s)
	}
	return strings.Join(parts, "; ")
}
