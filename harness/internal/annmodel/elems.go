package annmodel

import (
	"sort"
)

// Kinds and relationship names as documented in the annotation help text.
var (
	Kinds    = []string{"PostSyn", "PreSyn", "Gap", "Note", "Unknown"}
	RelNames = []string{"PostSynTo", "PreSynTo", "ConvergentTo", "GroupedWith", "UnknownRelationship"}
	// IndexTypes of labelsz that count annotation elements.
	IndexTypes = []string{"PostSyn", "PreSyn", "Gap", "Note", "AllSyn"}
)

// IsSynaptic: PostSyn, PreSyn and Gap make up the labelsz "AllSyn" index.
func IsSynaptic(kind string) bool { return kind == "PostSyn" || kind == "PreSyn" || kind == "Gap" }

// Rel is a relationship of an element to the element at position To.
// A strict relationship (Alts == nil) must be present exactly like that.  A loose relationship
// (Alts != nil) is the residue of a ONE-SIDED reference whose target was deleted or moved: the
// property only speaks about mutual references, so the real element may have dropped it or may
// carry it with To equal to any member of Alts.
type Rel struct {
	Rel  string
	To   Point
	Alts []Point
}

func (r Rel) Loose() bool { return r.Alts != nil }

func (r Rel) mayTarget(p Point) bool {
	if !r.Loose() {
		return r.To == p
	}
	for _, a := range r.Alts {
		if a == p {
			return true
		}
	}
	return false
}

// Element is one point annotation.
type Element struct {
	Pos  Point
	Kind string
	Tags []string
	Prop map[string]string
	Rels []Rel
}

func (e *Element) Clone() *Element {
	c := &Element{Pos: e.Pos, Kind: e.Kind}
	c.Tags = append([]string(nil), e.Tags...)
	if e.Prop != nil {
		c.Prop = make(map[string]string, len(e.Prop))
		for k, v := range e.Prop {
			c.Prop[k] = v
		}
	}
	for _, r := range e.Rels {
		nr := Rel{Rel: r.Rel, To: r.To}
		if r.Alts != nil {
			nr.Alts = append([]Point{}, r.Alts...)
		}
		c.Rels = append(c.Rels, nr)
	}
	return c
}

func (e *Element) HasTag(t string) bool {
	for _, x := range e.Tags {
		if x == t {
			return true
		}
	}
	return false
}

// RefsStrict reports whether e has a strict relationship to p.
func (e *Element) RefsStrict(p Point) bool {
	for _, r := range e.Rels {
		if !r.Loose() && r.To == p {
			return true
		}
	}
	return false
}

// Set is the element set of one annotation instance at one version.
type Set struct {
	BS int32
	E  map[Point]*Element
}

func NewSet(bs int32) *Set { return &Set{BS: bs, E: map[Point]*Element{}} }

func (s *Set) Clone() *Set {
	c := NewSet(s.BS)
	for p, e := range s.E {
		c.E[p] = e.Clone()
	}
	return c
}

// Post = upsert by position; an existing element is replaced as a whole (kind, tags, props, relationships).
func (s *Set) Post(elems []*Element) {
	for _, e := range elems {
		s.E[e.Pos] = e.Clone()
	}
}

// Mutual reports whether the elements at a and b both exist and strictly reference each other.
func (s *Set) Mutual(a, b Point) bool {
	ea, eb := s.E[a], s.E[b]
	return ea != nil && eb != nil && ea.RefsStrict(b) && eb.RefsStrict(a)
}

// Delete removes the element at p.  References to p held by MUTUAL partners are dropped; one-sided
// references to p become loose (may be dropped or kept).
func (s *Set) Delete(p Point) bool {
	del := s.E[p]
	if del == nil {
		return false
	}
	for q, e := range s.E {
		if q == p {
			continue
		}
		mutual := del.RefsStrict(q) && e.RefsStrict(p)
		var out []Rel
		for _, r := range e.Rels {
			switch {
			case !r.Loose() && r.To == p && mutual:
				// dropped
			case !r.Loose() && r.To == p:
				out = append(out, Rel{r.Rel, r.To, []Point{p}})
			default:
				out = append(out, r)
			}
		}
		e.Rels = out
	}
	delete(s.E, p)
	return true
}

// Move re-keys the element at from to position to.  References held by MUTUAL partners are
// retargeted; one-sided references become loose with alternatives {from, to}.
func (s *Set) Move(from, to Point) bool {
	mv := s.E[from]
	if mv == nil || from == to {
		return false
	}
	for q, e := range s.E {
		if q == from {
			continue
		}
		mutual := mv.RefsStrict(q) && e.RefsStrict(from)
		for i, r := range e.Rels {
			switch {
			case !r.Loose() && r.To == from && mutual:
				e.Rels[i].To = to
			case !r.Loose() && r.To == from:
				e.Rels[i].Alts = []Point{from, to}
			case r.Loose() && r.mayTarget(from):
				e.Rels[i].Alts = append(e.Rels[i].Alts, to)
			}
		}
	}
	delete(s.E, from)
	mv.Pos = to
	s.E[to] = mv
	return true
}

// PutBlocks models POST blocks: the element list of every named block is replaced as a whole;
// nothing else (no partner references) is touched.
func (s *Set) PutBlocks(blocks map[Point][]*Element) {
	for p := range s.E {
		if _, hit := blocks[p.Block(s.BS)]; hit {
			delete(s.E, p)
		}
	}
	for _, es := range blocks {
		for _, e := range es {
			s.E[e.Pos] = e.Clone()
		}
	}
}

func sortElems(es []*Element) []*Element {
	sort.Slice(es, func(i, j int) bool { return es[i].Pos.Less(es[j].Pos) })
	return es
}

// All returns every element sorted by position.
func (s *Set) All() []*Element {
	var out []*Element
	for _, e := range s.E {
		out = append(out, e)
	}
	return sortElems(out)
}

// Positions lists all element positions sorted.
func (s *Set) Positions() []Point {
	var out []Point
	for p := range s.E {
		out = append(out, p)
	}
	sort.Slice(out, func(i, j int) bool { return out[i].Less(out[j]) })
	return out
}

// InBox = GET elements/<size>/<offset>.
func (s *Set) InBox(off Point, size [3]int32) []*Element {
	var out []*Element
	for p, e := range s.E {
		if p.InBox(off, size) {
			out = append(out, e)
		}
	}
	return sortElems(out)
}

// ByBlock = GET all-elements: block coordinate -> elements (only non-empty blocks).
func (s *Set) ByBlock() map[Point][]*Element {
	out := map[Point][]*Element{}
	for p, e := range s.E {
		b := p.Block(s.BS)
		out[b] = append(out[b], e)
	}
	for b := range out {
		sortElems(out[b])
	}
	return out
}

// InBlocksOfBox = GET blocks/<size>/<offset>: all elements of every block intersecting the box.
func (s *Set) InBlocksOfBox(off Point, size [3]int32) map[Point][]*Element {
	lo := off.Block(s.BS)
	hi := Point{off[0] + size[0] - 1, off[1] + size[1] - 1, off[2] + size[2] - 1}.Block(s.BS)
	out := map[Point][]*Element{}
	for b, es := range s.ByBlock() {
		if b[0] >= lo[0] && b[0] <= hi[0] && b[1] >= lo[1] && b[1] <= hi[1] && b[2] >= lo[2] && b[2] <= hi[2] {
			out[b] = es
		}
	}
	return out
}

// Span is one ROI span [z, y, x0, x1] in block coordinates.
type Span [4]int32

// InROI = GET roi/<spec>: all elements of the blocks covered by the spans.
func (s *Set) InROI(spans []Span) []*Element {
	var out []*Element
	for p, e := range s.E {
		b := p.Block(s.BS)
		for _, sp := range spans {
			if b[2] == sp[0] && b[1] == sp[1] && b[0] >= sp[2] && b[0] <= sp[3] {
				out = append(out, e)
				break
			}
		}
	}
	return sortElems(out)
}

// WithTag = GET tag/<t>.
func (s *Set) WithTag(t string) []*Element {
	var out []*Element
	for _, e := range s.E {
		if e.HasTag(t) {
			out = append(out, e)
		}
	}
	return sortElems(out)
}

// OnBody = GET label/<l>: the elements sitting on a voxel of body l (never for l == 0).
func (s *Set) OnBody(v *LabelVol, body uint64) []*Element { return s.OnBodyFn(v.BodyAt, body) }

// OnBodyFn is OnBody with an arbitrary "body at voxel" function.
func (s *Set) OnBodyFn(bodyAt func(Point) uint64, body uint64) []*Element {
	var out []*Element
	if body == 0 {
		return out
	}
	for p, e := range s.E {
		if bodyAt(p) == body {
			out = append(out, e)
		}
	}
	return sortElems(out)
}

// Counts = labelsz: body -> index type -> number of elements on that body ("AllSyn" = PostSyn+PreSyn+Gap).
// Only non-zero counts are present.
func (s *Set) Counts(v *LabelVol) map[uint64]map[string]int { return s.CountsFn(v.BodyAt) }

// CountsFn is Counts with an arbitrary "body at voxel" function.
func (s *Set) CountsFn(bodyAt func(Point) uint64) map[uint64]map[string]int {
	out := map[uint64]map[string]int{}
	for p, e := range s.E {
		b := bodyAt(p)
		if b == 0 {
			continue
		}
		m := out[b]
		if m == nil {
			m = map[string]int{}
			out[b] = m
		}
		m[e.Kind]++
		if IsSynaptic(e.Kind) {
			m["AllSyn"]++
		}
	}
	return out
}

// LabelSize is one entry of labelsz top / threshold.
type LabelSize struct {
	Label uint64
	Size  uint32
}

// Ranked returns the labels with count >= min for the index type, by count descending (ties by label ascending).
func Ranked(counts map[uint64]map[string]int, indexType string, min int) []LabelSize {
	var out []LabelSize
	for l, m := range counts {
		if n := m[indexType]; n > 0 && n >= min {
			out = append(out, LabelSize{l, uint32(n)})
		}
	}
	sort.Slice(out, func(i, j int) bool {
		if out[i].Size != out[j].Size {
			return out[i].Size > out[j].Size
		}
		return out[i].Label < out[j].Label
	})
	return out
}
