package annmodel

import (
	"bytes"
	"encoding/binary"
	"fmt"
	"sort"
)

// LabelVol is the minimal model of the synced labelmap at one version: a dense supervoxel volume
// over a fixed box (everything outside is background 0) and the supervoxel -> body mapping
// (absent = identity).  All operations are defined voxel-wise.
type LabelVol struct {
	BS  int32    // block edge
	Org Point    // first voxel of the box (multiple of BS)
	Dim [3]int32 // box size in voxels (multiples of BS)
	SV  []uint64
	Map map[uint64]uint64
}

func NewLabelVol(bs int32, org Point, dim [3]int32) *LabelVol {
	return &LabelVol{BS: bs, Org: org, Dim: dim, SV: make([]uint64, int(dim[0])*int(dim[1])*int(dim[2])), Map: map[uint64]uint64{}}
}

func (v *LabelVol) Clone() *LabelVol {
	c := &LabelVol{BS: v.BS, Org: v.Org, Dim: v.Dim, SV: append([]uint64(nil), v.SV...), Map: make(map[uint64]uint64, len(v.Map))}
	for k, b := range v.Map {
		c.Map[k] = b
	}
	return c
}

func (v *LabelVol) idx(p Point) (int, bool) {
	x, y, z := p[0]-v.Org[0], p[1]-v.Org[1], p[2]-v.Org[2]
	if x < 0 || y < 0 || z < 0 || x >= v.Dim[0] || y >= v.Dim[1] || z >= v.Dim[2] {
		return 0, false
	}
	return (int(z)*int(v.Dim[1])+int(y))*int(v.Dim[0]) + int(x), true
}

// SVAt is the supervoxel at voxel p (0 outside the box).
func (v *LabelVol) SVAt(p Point) uint64 {
	if i, ok := v.idx(p); ok {
		return v.SV[i]
	}
	return 0
}

// BodyOf maps a supervoxel to its body.
func (v *LabelVol) BodyOf(sv uint64) uint64 {
	if sv == 0 {
		return 0
	}
	if b, ok := v.Map[sv]; ok {
		return b
	}
	return sv
}

// BodyAt is the body label at voxel p (0 = background).
func (v *LabelVol) BodyAt(p Point) uint64 { return v.BodyOf(v.SVAt(p)) }

// Covers reports whether p lies inside the modelled box.
func (v *LabelVol) Covers(p Point) bool { _, ok := v.idx(p); return ok }

// FillBox sets supervoxel sv on the half-open box [lo, hi) clipped to the volume.
func (v *LabelVol) FillBox(lo, hi Point, sv uint64) {
	for z := lo[2]; z < hi[2]; z++ {
		for y := lo[1]; y < hi[1]; y++ {
			for x := lo[0]; x < hi[0]; x++ {
				if i, ok := v.idx(Point{x, y, z}); ok {
					v.SV[i] = sv
				}
			}
		}
	}
}

// Raw returns the packed little-endian uint64 supervoxel array of the sub-box (X fastest).
func (v *LabelVol) Raw(off Point, size [3]int32) []byte {
	out := make([]byte, int(size[0])*int(size[1])*int(size[2])*8)
	n := 0
	for z := off[2]; z < off[2]+size[2]; z++ {
		for y := off[1]; y < off[1]+size[1]; y++ {
			for x := off[0]; x < off[0]+size[0]; x++ {
				binary.LittleEndian.PutUint64(out[n:], v.SVAt(Point{x, y, z}))
				n += 8
			}
		}
	}
	return out
}

// LiveSVs returns voxel counts per non-zero supervoxel present in the volume.
func (v *LabelVol) LiveSVs() map[uint64]int {
	m := map[uint64]int{}
	for _, s := range v.SV {
		if s != 0 {
			m[s]++
		}
	}
	return m
}

// Bodies returns body -> sorted list of its live supervoxels.
func (v *LabelVol) Bodies() map[uint64][]uint64 {
	out := map[uint64][]uint64{}
	for s := range v.LiveSVs() {
		b := v.BodyOf(s)
		out[b] = append(out[b], s)
	}
	for b := range out {
		sv := out[b]
		sort.Slice(sv, func(i, j int) bool { return sv[i] < sv[j] })
	}
	return out
}

// SortedBodies lists the live bodies in increasing order.
func (v *LabelVol) SortedBodies() []uint64 {
	var out []uint64
	for b := range v.Bodies() {
		out = append(out, b)
	}
	sort.Slice(out, func(i, j int) bool { return out[i] < out[j] })
	return out
}

// MaxID is the largest identifier in use (supervoxel or body).
func (v *LabelVol) MaxID() uint64 {
	var m uint64
	for _, s := range v.SV {
		if s > m {
			m = s
		}
	}
	for k, b := range v.Map {
		if k > m {
			m = k
		}
		if b > m {
			m = b
		}
	}
	return m
}

// Merge maps every supervoxel of the merged bodies to target.
func (v *LabelVol) Merge(target uint64, merged []uint64) {
	ms := map[uint64]bool{}
	for _, m := range merged {
		ms[m] = true
	}
	seen := map[uint64]bool{}
	for s := range v.LiveSVs() {
		seen[s] = true
	}
	for s := range v.Map {
		seen[s] = true
	}
	for s := range seen {
		if ms[v.BodyOf(s)] {
			v.Map[s] = target
		}
	}
}

// Cleave maps the given supervoxels (of one body) to the new body label.
func (v *LabelVol) Cleave(svs []uint64, newLabel uint64) {
	for _, s := range svs {
		v.Map[s] = newLabel
	}
}

// SplitSV renames supervoxel sv: voxels inside [lo,hi) become splitID, the others remainID; both
// keep the body of sv.  Returns the voxel counts of both parts.
func (v *LabelVol) SplitSV(sv uint64, lo, hi Point, splitID, remainID uint64) (nsplit, nremain int) {
	body := v.BodyOf(sv)
	size := [3]int32{hi[0] - lo[0], hi[1] - lo[1], hi[2] - lo[2]}
	dx, dy := int(v.Dim[0]), int(v.Dim[1])
	for i, s := range v.SV {
		if s != sv {
			continue
		}
		p := Point{v.Org[0] + int32(i%dx), v.Org[1] + int32((i/dx)%dy), v.Org[2] + int32(i/(dx*dy))}
		if p.InBox(lo, size) {
			v.SV[i] = splitID
			nsplit++
		} else {
			v.SV[i] = remainID
			nremain++
		}
	}
	delete(v.Map, sv)
	v.Map[splitID] = body
	v.Map[remainID] = body
	return
}

// Run is one X run of a sparse volume.
type Run struct {
	Start Point
	Len   int32
}

// RunsOfSV lists the X runs of supervoxel sv inside [lo,hi).
func (v *LabelVol) RunsOfSV(sv uint64, lo, hi Point) (runs []Run, voxels int) {
	for z := lo[2]; z < hi[2]; z++ {
		for y := lo[1]; y < hi[1]; y++ {
			var cur *Run
			for x := lo[0]; x < hi[0]; x++ {
				if v.SVAt(Point{x, y, z}) == sv {
					voxels++
					if cur == nil {
						runs = append(runs, Run{Point{x, y, z}, 0})
						cur = &runs[len(runs)-1]
					}
					cur.Len++
				} else {
					cur = nil
				}
			}
		}
	}
	return
}

// RunsWhere lists the X runs of the voxels inside [lo,hi) that satisfy pred.
func (v *LabelVol) RunsWhere(lo, hi Point, pred func(p Point) bool) (runs []Run, voxels int) {
	for z := lo[2]; z < hi[2]; z++ {
		for y := lo[1]; y < hi[1]; y++ {
			var cur *Run
			for x := lo[0]; x < hi[0]; x++ {
				p := Point{x, y, z}
				if v.Covers(p) && pred(p) {
					voxels++
					if cur == nil {
						runs = append(runs, Run{p, 0})
						cur = &runs[len(runs)-1]
					}
					cur.Len++
				} else {
					cur = nil
				}
			}
		}
	}
	return
}

// BodyVoxels counts the voxels of a body.
func (v *LabelVol) BodyVoxels(body uint64) int {
	n := 0
	for _, s := range v.SV {
		if s != 0 && v.BodyOf(s) == body {
			n++
		}
	}
	return n
}

// ApplySplit models POST split/<label>: the voxels of the runs become the new body.  The server renames the
// affected supervoxels with ids of its own choice, so the new supervoxel volume is taken from readback (the
// labelmap's GET raw?supervoxels=true over exactly this box); every supervoxel must end up in exactly one body.
func (v *LabelVol) ApplySplit(runs []Run, newLabel uint64, readback []byte) error {
	if len(readback) != len(v.SV)*8 {
		return fmt.Errorf("readback has %d bytes, want %d", len(readback), len(v.SV)*8)
	}
	in := map[int]bool{}
	for _, r := range runs {
		for k := int32(0); k < r.Len; k++ {
			if i, ok := v.idx(Point{r.Start[0] + k, r.Start[1], r.Start[2]}); ok {
				in[i] = true
			}
		}
	}
	want := map[uint64]uint64{}
	for i, old := range v.SV {
		nsv := binary.LittleEndian.Uint64(readback[i*8:])
		body := v.BodyOf(old)
		if in[i] {
			body = newLabel
		}
		if (nsv == 0) != (body == 0) {
			return fmt.Errorf("voxel %d: supervoxel %d but body %d", i, nsv, body)
		}
		if b, ok := want[nsv]; ok && b != body {
			return fmt.Errorf("supervoxel %d would belong to bodies %d and %d", nsv, b, body)
		}
		want[nsv] = body
	}
	for i := range v.SV {
		v.SV[i] = binary.LittleEndian.Uint64(readback[i*8:])
	}
	for s, b := range want {
		if s != 0 {
			v.Map[s] = b
		}
	}
	return nil
}

// SVBounds returns the bounding box [lo,hi) of supervoxel sv (ok=false if absent).
func (v *LabelVol) SVBounds(sv uint64) (lo, hi Point, ok bool) {
	dx, dy := int(v.Dim[0]), int(v.Dim[1])
	for i, s := range v.SV {
		if s != sv {
			continue
		}
		p := Point{v.Org[0] + int32(i%dx), v.Org[1] + int32((i/dx)%dy), v.Org[2] + int32(i/(dx*dy))}
		if !ok {
			lo, hi, ok = p, Point{p[0] + 1, p[1] + 1, p[2] + 1}, true
			continue
		}
		for d := 0; d < 3; d++ {
			if p[d] < lo[d] {
				lo[d] = p[d]
			}
			if p[d]+1 > hi[d] {
				hi[d] = p[d] + 1
			}
		}
	}
	return
}

// EncodeRLE serialises runs in DVID's binary sparse-volume format (little endian):
// byte 0, uint8 ndims=3, uint8 run dimension=0, byte reserved, uint32 #voxels (0), uint32 #spans, then x,y,z,len int32 each.
func EncodeRLE(runs []Run) []byte {
	var b bytes.Buffer
	b.Write([]byte{0, 3, 0, 0})
	binary.Write(&b, binary.LittleEndian, uint32(0))
	binary.Write(&b, binary.LittleEndian, uint32(len(runs)))
	for _, r := range runs {
		binary.Write(&b, binary.LittleEndian, r.Start[0])
		binary.Write(&b, binary.LittleEndian, r.Start[1])
		binary.Write(&b, binary.LittleEndian, r.Start[2])
		binary.Write(&b, binary.LittleEndian, r.Len)
	}
	return b.Bytes()
}
