// Package labelgen generates label arrays for the compressed label block probes (C09, C10) and holds the
// naive view oracles shared by both.  Only probes (wcmd/probe-c09, wcmd/probe-c10) may import it: views.go
// links /repo packages.
//
// Arrays are plain []uint64 in ZYX order (x fastest): A[z*ny*nx + y*nx + x].
package labelgen

import (
	"fmt"
	"hash/fnv"
	"math/rand"
)

// Dims are the legal block edge lengths explored (multiples of 8, at least 16).
var Dims = []int{16, 24, 32, 64}

// AllSizes lists every (nx,ny,nz) with each edge in Dims, cubic and non-cubic (64 sizes).
func AllSizes() [][3]int {
	var out [][3]int
	for _, z := range Dims {
		for _, y := range Dims {
			for _, x := range Dims {
				out = append(out, [3]int{x, y, z})
			}
		}
	}
	return out
}

// SBCounts are the numbers of distinct labels per 8x8x8 sub-block that hit every index bit width
// (0 bits for 1 label up to 9 bits for 512) on both sides of each power of two.
var SBCounts = []int{1, 2, 3, 4, 5, 8, 9, 16, 17, 32, 33, 64, 65, 128, 129, 255, 256, 257, 511, 512}

// Special labels at the edges of the 64-bit range.
var Special = []uint64{0, 1, 1<<32 - 1, 1 << 32, 1 << 63, ^uint64(0)}

// Block is one generated label array with its provenance.
type Block struct {
	Size    [3]int
	A       []uint64
	Kind    string
	MaxSB   int // max number of distinct labels in any sub-block
	NLabels int // number of distinct labels in the block
}

func (b *Block) NVox() int { return b.Size[0] * b.Size[1] * b.Size[2] }

// Hash is a content hash (size + labels) used for canonical case keys.
func (b *Block) Hash() string { return HashArr(b.Size, b.A) }

func HashArr(size [3]int, a []uint64) string {
	h := fnv.New64a()
	var buf [8]byte
	for _, s := range size {
		buf[0], buf[1] = byte(s), byte(s>>8)
		h.Write(buf[:2])
	}
	for _, v := range a {
		for i := 0; i < 8; i++ {
			buf[i] = byte(v >> (8 * uint(i)))
		}
		h.Write(buf[:])
	}
	return fmt.Sprintf("%016x", h.Sum64())
}

func SizeStr(s [3]int) string { return fmt.Sprintf("%dx%dx%d", s[0], s[1], s[2]) }

// PickLabel draws one label: special values, small values and full-range random values.
func PickLabel(r *rand.Rand) uint64 {
	switch x := r.Intn(100); {
	case x < 30:
		return Special[r.Intn(len(Special))]
	case x < 60:
		return uint64(1 + r.Intn(20))
	case x < 70:
		// neighbours of the special values
		return Special[r.Intn(len(Special))] + uint64(r.Intn(3)) - 1
	default:
		return r.Uint64()
	}
}

// PickNonZero draws a label different from 0.
func PickNonZero(r *rand.Rand) uint64 {
	for {
		if l := PickLabel(r); l != 0 {
			return l
		}
	}
}

// distinct returns k distinct labels; labels from pool are preferred with probability share.
func distinct(r *rand.Rand, k int, pool []uint64, share int) []uint64 {
	seen := make(map[uint64]struct{}, k)
	out := make([]uint64, 0, k)
	tries := 0
	for len(out) < k {
		var l uint64
		if len(pool) > 0 && r.Intn(100) < share && tries < 4*k {
			l = pool[r.Intn(len(pool))]
		} else {
			l = PickLabel(r)
		}
		tries++
		if _, dup := seen[l]; dup {
			continue
		}
		seen[l] = struct{}{}
		out = append(out, l)
	}
	return out
}

// fillSB writes an 8x8x8 sub-block at sub-block coordinate (sx,sy,sz) using exactly the given labels
// (each appears at least once).
func fillSB(r *rand.Rand, a []uint64, size [3]int, sx, sy, sz int, lbls []uint64) {
	k := len(lbls)
	var vals [512]uint64
	mode := r.Intn(4)
	perm := r.Perm(512)
	for i := 0; i < 512; i++ {
		switch {
		case i < k:
			vals[perm[i]] = lbls[i]
		case mode == 0: // uniform
			vals[perm[i]] = lbls[r.Intn(k)]
		case mode == 1: // dominated by the first label
			if r.Intn(8) == 0 {
				vals[perm[i]] = lbls[r.Intn(k)]
			} else {
				vals[perm[i]] = lbls[0]
			}
		case mode == 2: // dominated by the last label (highest sub-block index)
			if r.Intn(4) == 0 {
				vals[perm[i]] = lbls[r.Intn(k)]
			} else {
				vals[perm[i]] = lbls[k-1]
			}
		default: // stripes by position
			vals[perm[i]] = lbls[perm[i]*k/512]
		}
	}
	nx, ny := size[0], size[1]
	i := 0
	for z := 0; z < 8; z++ {
		for y := 0; y < 8; y++ {
			base := (sz*8+z)*ny*nx + (sy*8+y)*nx + sx*8
			for x := 0; x < 8; x++ {
				a[base+x] = vals[i]
				i++
			}
		}
	}
}

// Kinds lists the generator kinds; "k=N" kinds give every sub-block exactly N distinct labels.
func Kinds() []string {
	ks := []string{"zero", "solid", "twosplit", "one512", "shared", "runs", "ladder", "mix", "mixzero", "halves"}
	for _, n := range SBCounts[1:] {
		ks = append(ks, fmt.Sprintf("k=%d", n))
	}
	return ks
}

// Gen builds a block of the given size and kind.
func Gen(r *rand.Rand, size [3]int, kind string) *Block {
	nx, ny, nz := size[0], size[1], size[2]
	a := make([]uint64, nx*ny*nz)
	gx, gy, gz := nx/8, ny/8, nz/8
	nsb := gx * gy * gz
	sbAt := func(i int) (int, int, int) { return i % gx, (i / gx) % gy, i / (gx * gy) }
	pool := distinct(r, 6+r.Intn(20), nil, 0)
	share := []int{0, 30, 70, 100}[r.Intn(4)]

	var uniformK int
	fmt.Sscanf(kind, "k=%d", &uniformK)
	switch {
	case kind == "zero":
	case kind == "solid":
		l := PickNonZero(r)
		for i := range a {
			a[i] = l
		}
	case kind == "twosplit":
		two := distinct(r, 2, nil, 0)
		for i := range a {
			a[i] = two[0]
		}
		// second label inside one sub-block: one voxel, a row, or half of the sub-block
		sb := []int{0, nsb - 1, r.Intn(nsb)}[r.Intn(3)]
		sx, sy, sz := sbAt(sb)
		n := []int{1, 8, 256, 511}[r.Intn(4)]
		for _, p := range r.Perm(512)[:n] {
			x, y, z := p%8, (p/8)%8, p/64
			a[(sz*8+z)*ny*nx+(sy*8+y)*nx+sx*8+x] = two[1]
		}
	case kind == "one512":
		l := PickLabel(r)
		for i := range a {
			a[i] = l
		}
		sb := []int{0, nsb - 1, r.Intn(nsb)}[r.Intn(3)]
		sx, sy, sz := sbAt(sb)
		fillSB(r, a, size, sx, sy, sz, distinct(r, 512, nil, 0))
	case kind == "shared":
		lbls := distinct(r, 2+r.Intn(3), nil, 0)
		for i := 0; i < nsb; i++ {
			sx, sy, sz := sbAt(i)
			k := 1 + r.Intn(len(lbls))
			p := r.Perm(len(lbls))
			sub := make([]uint64, k)
			for j := range sub {
				sub[j] = lbls[p[j]]
			}
			fillSB(r, a, size, sx, sy, sz, sub)
		}
	case kind == "runs":
		lbls := distinct(r, 2+r.Intn(6), []uint64{0}, 30)
		cur, left := lbls[0], 0
		for i := range a {
			if left == 0 {
				cur = lbls[r.Intn(len(lbls))]
				left = 1 + r.Intn(40)
			}
			a[i] = cur
			left--
		}
	case kind == "halves":
		// two or three labels separated by planes that do not coincide with sub-block borders
		lbls := distinct(r, 3, nil, 0)
		cx, cy := 1+r.Intn(nx-1), 1+r.Intn(ny-1)
		for z := 0; z < nz; z++ {
			for y := 0; y < ny; y++ {
				for x := 0; x < nx; x++ {
					l := lbls[0]
					if x >= cx {
						l = lbls[1]
					}
					if y >= cy && (x+z)%5 != 0 {
						l = lbls[2]
					}
					a[z*ny*nx+y*nx+x] = l
				}
			}
		}
	case kind == "ladder":
		off := r.Intn(len(SBCounts))
		for i := 0; i < nsb; i++ {
			sx, sy, sz := sbAt(i)
			fillSB(r, a, size, sx, sy, sz, distinct(r, SBCounts[(i+off)%len(SBCounts)], pool, share))
		}
	case kind == "mix" || kind == "mixzero":
		for i := 0; i < nsb; i++ {
			sx, sy, sz := sbAt(i)
			if kind == "mixzero" && r.Intn(3) == 0 {
				continue // all-zero sub-block
			}
			k := SBCounts[r.Intn(len(SBCounts))]
			if r.Intn(3) > 0 {
				k = SBCounts[r.Intn(9)] // favour the small widths
			}
			fillSB(r, a, size, sx, sy, sz, distinct(r, k, pool, share))
		}
	case uniformK > 0:
		for i := 0; i < nsb; i++ {
			sx, sy, sz := sbAt(i)
			fillSB(r, a, size, sx, sy, sz, distinct(r, uniformK, pool, share))
		}
	default:
		panic("labelgen: unknown kind " + kind)
	}
	b := &Block{Size: size, A: a, Kind: kind}
	b.MaxSB, b.NLabels = Stats(size, a)
	return b
}

// Stats returns the max number of distinct labels in a sub-block and the number of distinct labels overall.
func Stats(size [3]int, a []uint64) (maxSB, nLabels int) {
	nx, ny, nz := size[0], size[1], size[2]
	all := map[uint64]struct{}{}
	for sz := 0; sz < nz/8; sz++ {
		for sy := 0; sy < ny/8; sy++ {
			for sx := 0; sx < nx/8; sx++ {
				m := map[uint64]struct{}{}
				for z := 0; z < 8; z++ {
					for y := 0; y < 8; y++ {
						base := (sz*8+z)*ny*nx + (sy*8+y)*nx + sx*8
						for x := 0; x < 8; x++ {
							m[a[base+x]] = struct{}{}
						}
					}
				}
				if len(m) > maxSB {
					maxSB = len(m)
				}
				for l := range m {
					all[l] = struct{}{}
				}
			}
		}
	}
	return maxSB, len(all)
}

// LabelsOf returns the distinct labels of a in first-appearance order (deterministic).
func LabelsOf(a []uint64) []uint64 {
	seen := map[uint64]struct{}{}
	var out []uint64
	for _, v := range a {
		if _, ok := seen[v]; !ok {
			seen[v] = struct{}{}
			out = append(out, v)
		}
	}
	return out
}

// FreshLabel returns a label that does not occur in any of the given arrays/lists.
func FreshLabel(r *rand.Rand, used map[uint64]struct{}) uint64 {
	for {
		l := PickNonZero(r)
		if _, ok := used[l]; !ok {
			used[l] = struct{}{}
			return l
		}
	}
}

func SetOf(a []uint64) map[uint64]struct{} {
	m := map[uint64]struct{}{}
	for _, v := range a {
		m[v] = struct{}{}
	}
	return m
}
