package labelgen

import (
	"fmt"
	"math/rand"
	"os"
	"sort"
	"strings"
	"sync"
	"time"

	"verif/harness/internal/probe"
)

// Runner executes independent cases on a small worker pool.  Every case draws its randomness from its own
// generator seeded by (seed, case index), so the set of cases and their verdicts do not depend on scheduling.
// Violations are collected and emitted in case order, one witness per key.
type Runner struct {
	P       *probe.P
	Workers int
	Only    int // >= 0: run only this case index (replay)

	mu       sync.Mutex
	inflight []string
	viols    []viol
}

type viol struct {
	ci, seq   int
	key, what string
	wit       map[string]interface{}
}

// Case is the per-case context handed to a case function.
type Case struct {
	CI     int
	R      *rand.Rand
	worker int
	run    *Runner
}

// Begin records the case about to be executed (all in-flight cases are kept on disk for crash attribution).
func (c *Case) Begin(desc string) {
	r := c.run
	r.mu.Lock()
	r.inflight[c.worker] = desc
	var live []string
	for _, s := range r.inflight {
		if s != "" {
			live = append(live, s)
		}
	}
	r.P.Begin(strings.Join(live, "\n"))
	r.mu.Unlock()
}

func (c *Case) Violation(key, what string, wit map[string]interface{}) {
	r := c.run
	if wit == nil {
		wit = map[string]interface{}{}
	}
	wit["case"] = c.CI
	wit["seed"] = r.P.Seed
	wit["flavour"] = r.P.Flavour
	wit["tier"] = r.P.Tier
	r.mu.Lock()
	r.viols = append(r.viols, viol{c.CI, len(r.viols), key, what, wit})
	r.mu.Unlock()
	r.P.Count("violations_seen", 1)
	r.P.Count("violations_seen["+key+"]", 1)
}

func SubRand(seed int64, idx int) *rand.Rand {
	return rand.New(rand.NewSource(seed*1000003 + int64(idx)*7919 + 17))
}

var timing = os.Getenv("LABELGEN_TIMING") != ""

// Run executes the cases and then emits the collected violations.
func (r *Runner) Run(cases []func(c *Case)) {
	if r.Workers < 1 {
		r.Workers = 1
	}
	r.inflight = make([]string, r.Workers)
	jobs := make(chan int)
	var wg sync.WaitGroup
	for w := 0; w < r.Workers; w++ {
		wg.Add(1)
		go func(w int) {
			defer wg.Done()
			for i := range jobs {
				t0 := time.Now()
				cases[i](&Case{CI: i, R: SubRand(r.P.Seed, i), worker: w, run: r})
				if d := time.Since(t0); timing && d > 2*time.Second { // diagnostics only, never part of a verdict
					fmt.Fprintf(os.Stderr, "slow case %d: %v: %s\n", i, d, r.inflight[w])
				}
				r.mu.Lock()
				r.inflight[w] = ""
				r.mu.Unlock()
			}
		}(w)
	}
	for i := range cases {
		if r.Only < 0 || r.Only == i {
			jobs <- i
		}
	}
	close(jobs)
	wg.Wait()
	sort.Slice(r.viols, func(i, j int) bool {
		if r.viols[i].ci != r.viols[j].ci {
			return r.viols[i].ci < r.viols[j].ci
		}
		return r.viols[i].seq < r.viols[j].seq
	})
	seen := map[string]bool{}
	for _, v := range r.viols {
		if seen[v.key] {
			r.P.Count("violations_suppressed_same_key", 1)
			continue
		}
		seen[v.key] = true
		r.P.Violation(v.key, v.what, v.wit)
	}
}
