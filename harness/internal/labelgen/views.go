package labelgen

// Naive view oracles over []uint64 arrays and the glue that runs the real views of
// github.com/janelia-flyem/dvid/datatype/common/labels on a compressed block.  Nothing here re-uses
// the code under test to compute an expectation: every expectation is a loop over the plain array.

import (
	"bytes"
	"compress/gzip"
	"encoding/binary"
	"fmt"
	"io"
	"math/rand"
	"sort"
	"unsafe"

	"github.com/janelia-flyem/dvid/datatype/common/labels"
	"github.com/janelia-flyem/dvid/dvid"
)

// Finding is one disagreement between a real view and the naive expectation.
type Finding struct {
	View string // decode, writelabelvolume, marshal, value, pointlabels, calcnumlabels, rle, binaryblocks, ...
	What string
	Tag  string // optional sub-class of the disagreement (e.g. "maxx-overshoot", "panic")
}

// Try runs f and converts a panic into text.
func Try(f func()) (panicked string) {
	defer func() {
		if e := recover(); e != nil {
			panicked = fmt.Sprint(e)
		}
	}()
	f()
	return ""
}

// ToBytes returns an 8-byte aligned little-endian byte image of a (a fresh copy).
func ToBytes(a []uint64) []byte {
	if len(a) == 0 {
		return nil
	}
	buf := make([]uint64, len(a))
	out := unsafe.Slice((*byte)(unsafe.Pointer(&buf[0])), len(a)*8)
	for i, v := range a {
		binary.LittleEndian.PutUint64(out[i*8:], v)
	}
	return out
}

// FromBytes decodes packed little-endian uint64 (copying).
func FromBytes(b []byte) []uint64 {
	out := make([]uint64, len(b)/8)
	for i := range out {
		out[i] = binary.LittleEndian.Uint64(b[i*8:])
	}
	return out
}

func P3(s [3]int) dvid.Point3d { return dvid.Point3d{int32(s[0]), int32(s[1]), int32(s[2])} }

// MakeBlock compresses a with the code under test.
func MakeBlock(a []uint64, size [3]int) (*labels.Block, error) {
	return labels.MakeBlock(ToBytes(a), P3(size))
}

// Decode decompresses with the code under test.
func Decode(b *labels.Block) ([]uint64, [3]int) {
	raw, sz := b.MakeLabelVolume()
	return FromBytes(raw), [3]int{int(sz[0]), int(sz[1]), int(sz[2])}
}

// Diff describes the first difference of two arrays of the given size ("" if equal).
func Diff(got, want []uint64, size [3]int) string {
	if len(got) != len(want) {
		return fmt.Sprintf("array length %d, expected %d", len(got), len(want))
	}
	n := 0
	first := -1
	for i := range want {
		if got[i] != want[i] {
			if first < 0 {
				first = i
			}
			n++
		}
	}
	if n == 0 {
		return ""
	}
	x, y, z := first%size[0], (first/size[0])%size[1], first/(size[0]*size[1])
	return fmt.Sprintf("%d of %d voxels differ; first at (%d,%d,%d) [sub-block (%d,%d,%d)]: got %d, expected %d", n, len(want), x, y, z, x/8, y/8, z/8, got[first], want[first])
}

// Counts returns voxel counts per non-zero label.
func Counts(a []uint64) map[uint64]int64 {
	m := map[uint64]int64{}
	for _, v := range a {
		if v != 0 {
			m[v]++
		}
	}
	return m
}

// ViewOpts selects how much of each view is compared.
type ViewOpts struct {
	R       *rand.Rand
	AllVox  bool     // compare Value/GetPointLabels at every voxel, else a sample
	Light   bool     // skip the slowest views
	Coord   [3]int32 // block coordinate used for positioned views
	NoViews bool     // only decode + marshal
	Focus   []uint64 // labels that must be part of the sparse-volume label sets (e.g. the labels an operation touched)
}

// CheckCodec compares decode and (un)marshal of block b with the array a.
func CheckCodec(b *labels.Block, a []uint64, size [3]int) (out []Finding) {
	add := func(view, format string, args ...interface{}) {
		out = append(out, Finding{View: view, What: fmt.Sprintf(format, args...)})
	}
	if p := Try(func() {
		got, gsz := Decode(b)
		if gsz != size {
			add("decode", "MakeLabelVolume size %v, expected %v", gsz, size)
		} else if d := Diff(got, a, size); d != "" {
			add("decode", "MakeLabelVolume: %s", d)
		}
	}); p != "" {
		add("decode", "MakeLabelVolume panicked: %s", p)
	}
	if p := Try(func() {
		ser, err := b.MarshalBinary()
		if err != nil {
			add("marshal", "MarshalBinary error: %v", err)
			return
		}
		// re-parse from an odd offset of a larger buffer: UnmarshalBinary promises not to depend on the source slice
		src := make([]byte, len(ser)+3)
		copy(src[3:], ser)
		var b2 labels.Block
		if err := b2.UnmarshalBinary(src[3:]); err != nil {
			add("marshal", "UnmarshalBinary(MarshalBinary(b)) error: %v", err)
			return
		}
		for i := range src {
			src[i] = 0xA5 // the parsed block must not alias the source
		}
		if b2.Size != b.Size {
			add("marshal", "re-parsed Size %v, expected %v", b2.Size, b.Size)
			return
		}
		if !eq64(b2.Labels, b.Labels) || !eq16(b2.NumSBLabels, b.NumSBLabels) || !eq32(b2.SBIndices, b.SBIndices) || !bytes.Equal(b2.SBValues, b.SBValues) {
			add("marshal", "re-parsed block differs in its tables: labels %d/%d numSB %d/%d indices %d/%d values %d/%d (got/expected lengths)",
				len(b2.Labels), len(b.Labels), len(b2.NumSBLabels), len(b.NumSBLabels), len(b2.SBIndices), len(b.SBIndices), len(b2.SBValues), len(b.SBValues))
		}
		ser2, _ := b2.MarshalBinary()
		if !bytes.Equal(ser2, ser) {
			add("marshal", "Marshal(Unmarshal(Marshal(b))) differs from Marshal(b): %d vs %d bytes", len(ser2), len(ser))
		}
		got, gsz := Decode(&b2)
		if gsz != size {
			add("marshal", "re-parsed block decodes to size %v, expected %v", gsz, size)
		} else if d := Diff(got, a, size); d != "" {
			add("marshal", "re-parsed block decodes differently: %s", d)
		}
	}); p != "" {
		add("marshal", "marshal round trip panicked: %s", p)
	}
	return
}

func eq64(a, b []uint64) bool {
	if len(a) != len(b) {
		return false
	}
	for i := range a {
		if a[i] != b[i] {
			return false
		}
	}
	return true
}
func eq32(a, b []uint32) bool {
	if len(a) != len(b) {
		return false
	}
	for i := range a {
		if a[i] != b[i] {
			return false
		}
	}
	return true
}
func eq16(a, b []uint16) bool {
	if len(a) != len(b) {
		return false
	}
	for i := range a {
		if a[i] != b[i] {
			return false
		}
	}
	return true
}

// CheckViews compares every direct view of the compressed block b with the naive view of a.
func CheckViews(b *labels.Block, a []uint64, size [3]int, o ViewOpts) (out []Finding) {
	add := func(view, format string, args ...interface{}) {
		out = append(out, Finding{View: view, What: fmt.Sprintf(format, args...)})
	}
	out = append(out, CheckCodec(b, a, size)...)
	if o.NoViews {
		return
	}
	nx, ny, nz := size[0], size[1], size[2]
	nvox := nx * ny * nz
	r := o.R

	// WriteLabelVolume (streaming decode)
	if !o.Light || nvox <= 32*32*32 {
		if p := Try(func() {
			var buf bytes.Buffer
			if err := b.WriteLabelVolume(&buf); err != nil {
				add("writelabelvolume", "WriteLabelVolume error: %v", err)
				return
			}
			if d := Diff(FromBytes(buf.Bytes()), a, size); d != "" || buf.Len() != nvox*8 {
				add("writelabelvolume", "WriteLabelVolume (%d bytes): %s", buf.Len(), d)
			}
		}); p != "" {
			add("writelabelvolume", "WriteLabelVolume panicked: %s", p)
		}
	}

	// voxel positions to look at
	var idxs []int
	if o.AllVox {
		idxs = make([]int, nvox)
		for i := range idxs {
			idxs[i] = i
		}
	} else {
		n := 3000
		if o.Light {
			n = 600
		}
		idxs = append(idxs, 0, nvox-1, nx-1, nx*ny-1, nx*ny*(nz-1))
		for i := 0; i < n; i++ {
			idxs = append(idxs, r.Intn(nvox))
		}
	}
	pt := func(i int) dvid.Point3d {
		return dvid.Point3d{int32(i % nx), int32((i / nx) % ny), int32(i / (nx * ny))}
	}

	// Value
	if p := Try(func() {
		bad := 0
		for _, i := range idxs {
			if got := b.Value(pt(i)); got != a[i] {
				if bad == 0 {
					add("value", "Value(%v) = %d, expected %d", pt(i), got, a[i])
				}
				bad++
			}
		}
		// documented: positions outside the block give 0
		for _, q := range []dvid.Point3d{{-1, 0, 0}, {int32(nx), 0, 0}, {0, int32(ny), 0}, {0, 0, int32(nz)}, {0, -1, 0}, {0, 0, -8}} {
			if got := b.Value(q); got != 0 {
				add("value", "Value(%v) outside the block = %d, expected 0", q, got)
			}
		}
	}); p != "" {
		add("value", "Value panicked: %s", p)
	}

	// GetPointLabels: unsorted, with duplicates
	if p := Try(func() {
		pis := append([]int{}, idxs...)
		r.Shuffle(len(pis), func(i, j int) { pis[i], pis[j] = pis[j], pis[i] })
		if len(pis) > 8 {
			pis = append(pis, pis[0], pis[3], pis[3])
		}
		pts := make([]dvid.Point3d, len(pis))
		for i, vi := range pis {
			pts[i] = pt(vi)
		}
		got := b.GetPointLabels(pts)
		if len(got) != len(pts) {
			add("pointlabels", "GetPointLabels returned %d labels for %d points", len(got), len(pts))
			return
		}
		for i, vi := range pis {
			if got[i] != a[vi] {
				add("pointlabels", "GetPointLabels[%d] for point %v = %d, expected %d (%d points asked)", i, pts[i], got[i], a[vi], len(pts))
				break
			}
		}
		if e := b.GetPointLabels(nil); len(e) != 0 {
			add("pointlabels", "GetPointLabels(nil) returned %d labels", len(e))
		}
	}); p != "" {
		add("pointlabels", "GetPointLabels panicked: %s", p)
	}

	// CalcNumLabels
	want := Counts(a)
	if p := Try(func() {
		if d := cmpCounts(b.CalcNumLabels(nil), want); d != "" {
			add("calcnumlabels", "CalcNumLabels(nil): %s", d)
		}
	}); p != "" {
		add("calcnumlabels", "CalcNumLabels panicked: %s", p)
	}

	// sparse outputs for a few label sets
	present := make([]uint64, 0, len(want))
	for l := range want {
		present = append(present, l)
	}
	sort.Slice(present, func(i, j int) bool { return present[i] < present[j] })
	absent := PickNonZero(r)
	for want[absent] != 0 {
		absent = PickNonZero(r)
	}
	var sets [][]uint64
	for i, l := range o.Focus {
		if l != 0 && i < 2 {
			sets = append(sets, []uint64{l})
		}
	}
	if len(o.Focus) > 1 {
		var fs []uint64
		for _, l := range o.Focus {
			if l != 0 && len(fs) < 6 {
				fs = append(fs, l)
			}
		}
		if len(fs) > 1 {
			sets = append(sets, fs)
		}
	}
	if len(present) > 0 {
		sets = append(sets, []uint64{present[r.Intn(len(present))]})
		if !o.Light {
			multi := []uint64{absent}
			for _, pi := range r.Perm(len(present)) {
				if len(multi) >= 1+2+r.Intn(3) {
					break
				}
				multi = append(multi, present[pi])
			}
			sets = append(sets, multi)
			if r.Intn(4) == 0 {
				sets = append(sets, present) // every non-zero label: foreground only unless 0 is present
			}
		}
	}
	if r.Intn(3) == 0 || len(present) == 0 {
		sets = append(sets, []uint64{absent})
	}
	pbs := []PB{{Coord: o.Coord, A: a, B: b}}
	for _, set := range sets {
		out = append(out, CheckRLEs(size, pbs, set, nil)...)
		out = append(out, CheckBinaryBlocks(size, pbs, set)...)
	}
	return
}

func cmpCounts(got map[uint64]int32, want map[uint64]int64) string {
	for l, n := range want {
		if int64(got[l]) != n {
			return fmt.Sprintf("label %d: %d voxels reported, %d true", l, got[l], n)
		}
	}
	for l, n := range got {
		if int64(n) != want[l] {
			return fmt.Sprintf("label %d: %d voxels reported, %d true", l, n, want[l])
		}
	}
	return ""
}

// CmpCountDelta compares a CalcNumLabels(prev) result with the naive difference of counts.
func CmpCountDelta(got map[uint64]int32, cur, prev []uint64) string {
	want := Counts(cur)
	for l, n := range Counts(prev) {
		want[l] -= n
	}
	return cmpCounts(got, want)
}

// PB is a positioned block: the real compressed block, its array and its block coordinate.
type PB struct {
	Coord [3]int32
	A     []uint64
	B     *labels.Block
}

func positioned(pbs []PB) []*labels.PositionedBlock {
	out := make([]*labels.PositionedBlock, len(pbs))
	for i, p := range pbs {
		out[i] = &labels.PositionedBlock{Block: *p.B, BCoord: dvid.ChunkPoint3d{p.Coord[0], p.Coord[1], p.Coord[2]}.ToIZYXString()}
	}
	return out
}

// runOutput drives a labels.OutputOp consumer (WriteRLEs / WriteBinaryBlocks run in their own goroutine in
// the server as well) and survives a panic inside it.
func runOutput(pbs []*labels.PositionedBlock, consume func(op *labels.OutputOp)) (out []byte, err error, panicked string) {
	var buf bytes.Buffer
	op := labels.NewOutputOp(&buf)
	pc := make(chan string, 1)
	go func() {
		defer func() {
			if e := recover(); e != nil {
				pc <- fmt.Sprint(e)
			}
		}()
		consume(op)
	}()
	for _, pb := range pbs {
		op.Process(pb)
	}
	fc := make(chan error, 1)
	go func() { fc <- op.Finish() }()
	select {
	case err = <-fc:
	case panicked = <-pc:
	}
	return buf.Bytes(), err, panicked
}

func toSet(lbls []uint64) labels.Set {
	s := labels.Set{}
	for _, l := range lbls {
		s[l] = struct{}{}
	}
	return s
}

func floorDiv(a, b int32) int32 {
	q := a / b
	if a%b != 0 && (a < 0) != (b < 0) {
		q--
	}
	return q
}

// Clip is an inclusive voxel box (exact bounds of a sparse volume request).
type Clip struct{ Min, Max [3]int32 }

func (c *Clip) bounds() dvid.Bounds {
	if c == nil {
		return dvid.Bounds{}
	}
	ob := new(dvid.OptionalBounds)
	ob.SetMinX(c.Min[0])
	ob.SetMaxX(c.Max[0])
	ob.SetMinY(c.Min[1])
	ob.SetMaxY(c.Max[1])
	ob.SetMinZ(c.Min[2])
	ob.SetMaxZ(c.Max[2])
	return dvid.Bounds{Voxel: ob, Exact: true}
}

// CheckRLEs streams the blocks (in the given order) through labels.WriteRLEs for the label set, parses the
// 16-byte run records itself and compares the covered voxel set with the naive one.
func CheckRLEs(size [3]int, pbs []PB, lbls []uint64, clip *Clip) (out []Finding) {
	tag := ""
	add := func(format string, args ...interface{}) {
		if len(out) < 3 {
			out = append(out, Finding{"rle", fmt.Sprintf("WriteRLEs labels=%v blocks=%s clip=%v: ", lbls, coords(pbs), clip) + fmt.Sprintf(format, args...), tag})
		}
	}
	set := toSet(lbls)
	raw, err, p := runOutput(positioned(pbs), func(op *labels.OutputOp) { labels.WriteRLEs(set, op, clip.bounds()) })
	if p != "" {
		tag = "panic"
		add("panicked: %s", p)
		return
	}
	if err != nil {
		add("error: %v", err)
		return
	}
	if len(raw)%16 != 0 {
		add("stream of %d bytes is not a whole number of 16-byte runs", len(raw))
		return
	}
	nx, ny, nz := int32(size[0]), int32(size[1]), int32(size[2])
	byCoord := map[[3]int32]int{}
	cover := make([][]uint8, len(pbs))
	for i, pb := range pbs {
		byCoord[pb.Coord] = i
		cover[i] = make([]uint8, len(pb.A))
	}
	for i := 0; i+16 <= len(raw); i += 16 {
		x := int32(binary.LittleEndian.Uint32(raw[i:]))
		y := int32(binary.LittleEndian.Uint32(raw[i+4:]))
		z := int32(binary.LittleEndian.Uint32(raw[i+8:]))
		n := int32(binary.LittleEndian.Uint32(raw[i+12:]))
		if n <= 0 {
			add("run %d at (%d,%d,%d) has length %d", i/16, x, y, z, n)
			return
		}
		for k := int32(0); k < n; k++ {
			c := [3]int32{floorDiv(x+k, nx), floorDiv(y, ny), floorDiv(z, nz)}
			bi, ok := byCoord[c]
			if !ok {
				add("run %d (%d,%d,%d)+%d covers voxel x=%d in block %v which was not streamed", i/16, x, y, z, n, x+k, c)
				return
			}
			li := (z-c[2]*nz)*ny*nx + (y-c[1]*ny)*nx + (x + k - c[0]*nx)
			if cover[bi][li] < 255 {
				cover[bi][li]++
			}
		}
	}
	missing, extra, dup, beyondMaxX := 0, 0, 0, 0
	first := ""
	for bi, pb := range pbs {
		for li, v := range pb.A {
			gx := pb.Coord[0]*nx + int32(li)%nx
			gy := pb.Coord[1]*ny + (int32(li)/nx)%ny
			gz := pb.Coord[2]*nz + int32(li)/(nx*ny)
			_, want := set[v]
			if want && clip != nil && (gx < clip.Min[0] || gx > clip.Max[0] || gy < clip.Min[1] || gy > clip.Max[1] || gz < clip.Min[2] || gz > clip.Max[2]) {
				want = false
			}
			c := cover[bi][li]
			bad := ""
			switch {
			case want && c == 0:
				missing++
				bad = "is in the label set but in no run"
			case !want && c > 0:
				extra++
				bad = "is covered by a run but not in the (clipped) label set"
				if _, in := set[v]; in && clip != nil && gx > clip.Max[0] && gx <= clip.Max[0]|7 && gy >= clip.Min[1] && gy <= clip.Max[1] && gz >= clip.Min[2] && gz <= clip.Max[2] {
					beyondMaxX++
				}
			case c > 1:
				dup++
				bad = fmt.Sprintf("is covered by %d runs", c)
			}
			if bad != "" && first == "" {
				first = fmt.Sprintf("voxel (%d,%d,%d) label %d %s", gx, gy, gz, v, bad)
			}
		}
	}
	if first != "" {
		if missing == 0 && dup == 0 && extra > 0 && extra == beyondMaxX {
			tag = "maxx-overshoot" // only voxels of the label set between maxx and the end of maxx's 8-voxel sub-block
		}
		add("%d runs; %d voxels missing, %d extra, %d covered more than once; first: %s", len(raw)/16, missing, extra, dup, first)
	}
	return
}

func coords(pbs []PB) string {
	s := ""
	for i, p := range pbs {
		if i > 0 {
			s += " "
		}
		s += fmt.Sprintf("(%d,%d,%d)", p.Coord[0], p.Coord[1], p.Coord[2])
	}
	return s
}

// CheckBinaryBlocks streams the blocks through labels.WriteBinaryBlocks, reads the result back with
// labels.ReceiveBinaryBlocks (BinaryBlock.Read) and compares the masks with the naive membership mask.
func CheckBinaryBlocks(size [3]int, pbs []PB, lbls []uint64) (out []Finding) {
	set := toSet(lbls)
	// sub-class: a requested label sits in more than one slot of a block's label table (possible after
	// ReplaceLabel(s) onto a label that is already in the block)
	tag := ""
	for _, pb := range pbs {
		n := map[uint64]int{}
		for _, l := range pb.B.Labels {
			if _, ok := set[l]; ok {
				if n[l]++; n[l] > 1 {
					tag = "duplicate-label-slots"
				}
			}
		}
	}
	add := func(format string, args ...interface{}) {
		if len(out) < 3 {
			out = append(out, Finding{View: "binaryblocks", What: fmt.Sprintf("WriteBinaryBlocks labels=%v blocks=%s: ", lbls, coords(pbs)) + fmt.Sprintf(format, args...), Tag: tag})
		}
	}
	main := lbls[0]
	raw, err, p := runOutput(positioned(pbs), func(op *labels.OutputOp) { labels.WriteBinaryBlocks(main, set, op, dvid.Bounds{}) })
	if p != "" {
		add("panicked: %s", p)
		return
	}
	if err != nil {
		add("error: %v", err)
		return
	}
	var got []labels.BinaryBlock
	if len(raw) > 0 {
		if p := Try(func() { got, err = labels.ReceiveBinaryBlocks(bytes.NewReader(raw)) }); p != "" {
			add("ReceiveBinaryBlocks panicked on the %d bytes written: %s", len(raw), p)
			return
		}
		if err != nil && err != io.EOF {
			add("ReceiveBinaryBlocks error on the %d bytes written: %v", len(raw), err)
			return
		}
	}
	nx, ny, nz := int32(size[0]), int32(size[1]), int32(size[2])
	byOff := map[dvid.Point3d]*labels.BinaryBlock{}
	for i := range got {
		g := &got[i]
		if g.Size != P3(size) || g.Label != main {
			add("binary block %d has size %v label %d, expected size %v label %d", i, g.Size, g.Label, P3(size), main)
			return
		}
		if _, dup := byOff[g.Offset]; dup {
			add("two binary blocks with offset %v", g.Offset)
			return
		}
		byOff[g.Offset] = g
	}
	used := 0
	for _, pb := range pbs {
		off := dvid.Point3d{pb.Coord[0] * nx, pb.Coord[1] * ny, pb.Coord[2] * nz}
		nfg := 0
		for _, v := range pb.A {
			if _, ok := set[v]; ok {
				nfg++
			}
		}
		g := byOff[off]
		if g == nil {
			if nfg > 0 {
				add("block at offset %v has %d voxels of the label set but no binary block was written", off, nfg)
			}
			continue
		}
		used++
		if len(g.Voxels) != len(pb.A) {
			add("binary block at %v has %d voxels, expected %d", off, len(g.Voxels), len(pb.A))
			continue
		}
		bad, first := 0, -1
		for li, v := range pb.A {
			_, want := set[v]
			if g.Voxels[li] != want {
				if first < 0 {
					first = li
				}
				bad++
			}
		}
		if bad > 0 {
			li := int32(first)
			add("binary block at %v: %d voxels differ; first local (%d,%d,%d) label %d mask=%v", off, bad, li%nx, (li/nx)%ny, li/(nx*ny), pb.A[first], g.Voxels[first])
		}
	}
	if used != len(got) {
		add("%d binary blocks written at offsets that were not streamed", len(got)-used)
	}
	return
}

// Gunzip is used for the CompressGZIP view.
func Gunzip(b []byte) ([]byte, error) {
	zr, err := gzip.NewReader(bytes.NewReader(b))
	if err != nil {
		return nil, err
	}
	return io.ReadAll(zr)
}

// NaiveDownres is the documented 2x down-sampling vote: among the 8 children count the non-zero labels, the
// label with most votes wins, ties go to the smaller label, no non-zero child gives 0.
// hi has size hs (even), the result has size hs/2.
func NaiveDownres(hi []uint64, hs [3]int) []uint64 {
	lx, ly, lz := hs[0]/2, hs[1]/2, hs[2]/2
	lo := make([]uint64, lx*ly*lz)
	for z := 0; z < lz; z++ {
		for y := 0; y < ly; y++ {
			for x := 0; x < lx; x++ {
				var ls [8]uint64
				n := 0
				for d := 0; d < 8; d++ {
					v := hi[(2*z+d>>2)*hs[1]*hs[0]+(2*y+(d>>1)&1)*hs[0]+2*x+d&1]
					if v != 0 {
						ls[n] = v
						n++
					}
				}
				var win uint64
				best := 0
				for i := 0; i < n; i++ {
					c := 0
					for j := 0; j < n; j++ {
						if ls[j] == ls[i] {
							c++
						}
					}
					if c > best || (c == best && ls[i] < win) {
						best, win = c, ls[i]
					}
				}
				lo[z*ly*lx+y*lx+x] = win
			}
		}
	}
	return lo
}
