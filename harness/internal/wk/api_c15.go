package wk

// In-process observation points for property C15 at the level where the envelope is used: what a keyvalue instance
// physically stores under a key.
//
// c15.rawget {uuid, name, key}       -> {"found": bool, "hex": "<the stored (serialised) value>"}
// c15.rawput {uuid, name, key, hex}  -> stores the given bytes verbatim under the key (db.Put, no serialisation):
//     how a stored value with altered payload bytes is produced.

import (
	"encoding/hex"
	"encoding/json"

	"github.com/janelia-flyem/dvid/datatype/keyvalue"
)

func init() {
	type args struct {
		c05Target
		Key string `json:"key"`
		Hex string `json:"hex"`
	}
	APIs["c15.rawget"] = func(raw json.RawMessage) (interface{}, error) {
		var a args
		if err := json.Unmarshal(raw, &a); err != nil {
			return nil, err
		}
		db, ctx, _, err := a.open()
		if err != nil {
			return nil, err
		}
		tk, err := keyvalue.NewTKey(a.Key)
		if err != nil {
			return nil, err
		}
		v, err := db.Get(ctx, tk)
		if err != nil {
			return nil, err
		}
		return map[string]interface{}{"found": v != nil, "hex": hex.EncodeToString(v)}, nil
	}
	APIs["c15.rawput"] = func(raw json.RawMessage) (interface{}, error) {
		var a args
		if err := json.Unmarshal(raw, &a); err != nil {
			return nil, err
		}
		db, ctx, _, err := a.open()
		if err != nil {
			return nil, err
		}
		tk, err := keyvalue.NewTKey(a.Key)
		if err != nil {
			return nil, err
		}
		b, err := hex.DecodeString(a.Hex)
		if err != nil {
			return nil, err
		}
		return map[string]bool{"ok": true}, db.Put(ctx, tk, b)
	}
}
