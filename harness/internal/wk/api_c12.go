package wk

// c12.hammer: label reservations under continuous pressure from requests that raise the repo-wide maximum label by
// another route.  One client reserves labels sequentially (POST nextlabel/<k>); `pushers` clients loop
// POST maxlabel/<end of the last reservation + 1> without any barrier between requests, so that at every moment some of
// them sit between deciding and applying.  All requests go through the full HTTP mux (wk.Do).
//
//	args:   {"uuid","name","reservations":N,"k":3,"pushers":4}
//	result: {"ranges":[{"start","end","t0","t1","status"}], "pushes": total maxlabel requests, "push_errors": n}
import (
	"encoding/json"
	"fmt"
	"sync"
	"sync/atomic"
)

func init() {
	APIs["c12.hammer"] = func(args json.RawMessage) (interface{}, error) {
		var a struct {
			UUID         string `json:"uuid"`
			Name         string `json:"name"`
			Reservations int    `json:"reservations"`
			K            int    `json:"k"`
			Pushers      int    `json:"pushers"`
		}
		if err := json.Unmarshal(args, &a); err != nil {
			return nil, err
		}
		if a.K <= 0 {
			a.K = 3
		}
		if a.Pushers <= 0 {
			a.Pushers = 4
		}
		base := "/api/node/" + a.UUID + "/" + a.Name + "/"
		type rng struct {
			Start  uint64 `json:"start"`
			End    uint64 `json:"end"`
			T0     int64  `json:"t0"`
			T1     int64  `json:"t1"`
			Status int    `json:"status"`
		}
		var last atomic.Uint64
		var stop atomic.Bool
		var pushes, pushErrs atomic.Int64
		var wg sync.WaitGroup
		for p := 0; p < a.Pushers; p++ {
			wg.Add(1)
			go func() {
				defer wg.Done()
				for !stop.Load() {
					l := last.Load()
					if l == 0 {
						continue
					}
					r := Do("POST", fmt.Sprintf("%smaxlabel/%d", base, l+1), nil, nil)
					pushes.Add(1)
					if r.Status != 200 {
						pushErrs.Add(1)
					}
				}
			}()
		}
		var out []rng
		for i := 0; i < a.Reservations; i++ {
			r := Do("POST", fmt.Sprintf("%snextlabel/%d", base, a.K), nil, nil)
			var o struct{ Start, End uint64 }
			json.Unmarshal(r.Body, &o)
			out = append(out, rng{o.Start, o.End, r.T0, r.T1, r.Status})
			if r.Status == 200 && o.End > 0 {
				last.Store(o.End)
			}
		}
		stop.Store(true)
		wg.Wait()
		return map[string]interface{}{"ranges": out, "pushes": pushes.Load(), "push_errors": pushErrs.Load()}, nil
	}
}
