package wk

import "encoding/json"

// APIFunc is a direct call of exported package APIs on the live datastore (non-HTTP observation points).
type APIFunc func(args json.RawMessage) (interface{}, error)

// APIs is the registry used by dvidw's "api" command.  Files api_*.go add entries in init().
var APIs = map[string]APIFunc{}
