package wk

import (
	"encoding/json"
	"fmt"
	"math/rand"

	"github.com/janelia-flyem/dvid/datastore"
	"github.com/janelia-flyem/dvid/dvid"
	"github.com/janelia-flyem/dvid/storage"
)

// resolver.build: builds a DAG in a fresh repo through the exported datastore API.
//   args: {parents: [[],[0],[0],[1,2],...]}  (node i's parents are indices < i; node 0 is the root)
//   result: {uuids: [...], versions: [...], root: uuid, data: "kv"}
// resolver.query: for a list of placements (one char per node: 'v' value, 't' tombstone, '-' nothing)
//   calls VersionedCtx.GetBestKeyVersion and VersionedKeyValue at every node with the synthetic
//   entries shuffled by `shuffle`.  Per placement and node the result is the index of the node whose
//   entry was returned, -1 for "nothing", -2 for an error.

type resolverDAG struct {
	uuids    []dvid.UUID
	versions []dvid.VersionID
	data     datastore.DataService
}

var resolverDAGs = map[string]*resolverDAG{}
var resolverCounter int

func init() {
	APIs["resolver.build"] = func(args json.RawMessage) (interface{}, error) {
		var a struct {
			Parents [][]int `json:"parents"`
		}
		if err := json.Unmarshal(args, &a); err != nil {
			return nil, err
		}
		resolverCounter++
		alias := fmt.Sprintf("resolver-%d", resolverCounter)
		root, err := datastore.NewRepo(alias, "resolver dag", nil, "")
		if err != nil {
			return nil, err
		}
		t, err := datastore.TypeServiceByName("keyvalue")
		if err != nil {
			return nil, err
		}
		data, err := datastore.NewData(root, t, "kv", dvid.NewConfig())
		if err != nil {
			return nil, err
		}
		rd := &resolverDAG{data: data}
		add := func(u dvid.UUID) error {
			v, err := datastore.VersionFromUUID(u)
			if err != nil {
				return err
			}
			rd.uuids = append(rd.uuids, u)
			rd.versions = append(rd.versions, v)
			return datastore.Commit(u, "c", nil)
		}
		if err := add(root); err != nil {
			return nil, err
		}
		for i := 1; i < len(a.Parents); i++ {
			ps := a.Parents[i]
			var child dvid.UUID
			switch len(ps) {
			case 0:
				return nil, fmt.Errorf("node %d has no parents", i)
			case 1:
				child, err = datastore.NewVersion(rd.uuids[ps[0]], "n", fmt.Sprintf("b%d", i), nil)
			default:
				var pu []dvid.UUID
				for _, p := range ps {
					pu = append(pu, rd.uuids[p])
				}
				child, err = datastore.Merge(pu, "m", datastore.MergeConflictFree)
			}
			if err != nil {
				return nil, fmt.Errorf("node %d (parents %v): %v", i, ps, err)
			}
			if err := add(child); err != nil {
				return nil, err
			}
		}
		resolverDAGs[alias] = rd
		us := make([]string, len(rd.uuids))
		vs := make([]uint32, len(rd.uuids))
		for i := range rd.uuids {
			us[i] = string(rd.uuids[i])
			vs[i] = uint32(rd.versions[i])
		}
		return map[string]interface{}{"id": alias, "uuids": us, "versions": vs}, nil
	}

	APIs["resolver.query"] = func(args json.RawMessage) (interface{}, error) {
		var a struct {
			ID         string   `json:"id"`
			Placements []string `json:"placements"`
			Shuffle    int64    `json:"shuffle"`
		}
		if err := json.Unmarshal(args, &a); err != nil {
			return nil, err
		}
		rd := resolverDAGs[a.ID]
		if rd == nil {
			return nil, fmt.Errorf("unknown dag %q", a.ID)
		}
		rng := rand.New(rand.NewSource(a.Shuffle))
		n := len(rd.uuids)
		tk := storage.NewTKey(77, []byte("datum"))
		vidx := map[dvid.VersionID]int{}
		for i, v := range rd.versions {
			vidx[v] = i
		}
		type out struct {
			Best []int `json:"best"` // per node, via GetBestKeyVersion
			KV   []int `json:"kv"`   // per node, via VersionedKeyValue
		}
		res := make([]out, 0, len(a.Placements))
		for _, pl := range a.Placements {
			if len(pl) != n {
				return nil, fmt.Errorf("placement %q length != %d nodes", pl, n)
			}
			var keys []storage.Key
			var kvs []*storage.KeyValue
			base := NewCtx(rd.data, rd.versions[0])
			for i := 0; i < n; i++ {
				var k storage.Key
				switch pl[i] {
				case 'v':
					k = base.ConstructKeyVersion(tk, rd.versions[i])
				case 't':
					k = base.TombstoneKeyVersion(tk, rd.versions[i])
				default:
					continue
				}
				keys = append(keys, k)
				kvs = append(kvs, &storage.KeyValue{K: k, V: []byte(fmt.Sprintf("val@%d", i))})
			}
			rng.Shuffle(len(keys), func(i, j int) { keys[i], keys[j] = keys[j], keys[i] })
			rng.Shuffle(len(kvs), func(i, j int) { kvs[i], kvs[j] = kvs[j], kvs[i] })
			o := out{Best: make([]int, n), KV: make([]int, n)}
			for q := 0; q < n; q++ {
				ctx := NewCtx(rd.data, rd.versions[q])
				// fresh copies: the resolver must not depend on caller-owned slices being reusable
				kc := append([]storage.Key{}, keys...)
				bk, err := ctx.GetBestKeyVersion(kc)
				switch {
				case err != nil:
					o.Best[q] = -2
				case bk == nil:
					o.Best[q] = -1
				default:
					if bk.IsTombstone() {
						o.Best[q] = -3 // a tombstone returned as data
					} else if v, e := ctx.VersionFromKey(bk); e == nil {
						o.Best[q] = vidx[v]
					} else {
						o.Best[q] = -2
					}
				}
				vc := append([]*storage.KeyValue{}, kvs...)
				kv, err := ctx.VersionedKeyValue(vc)
				switch {
				case err != nil:
					o.KV[q] = -2
				case kv == nil:
					o.KV[q] = -1
				default:
					if kv.K.IsTombstone() {
						o.KV[q] = -3
					} else if v, e := ctx.VersionFromKey(kv.K); e == nil {
						o.KV[q] = vidx[v]
						if string(kv.V) != fmt.Sprintf("val@%d", vidx[v]) {
							o.KV[q] = -4 // value does not belong to the key
						}
					} else {
						o.KV[q] = -2
					}
				}
			}
			res = append(res, o)
		}
		return res, nil
	}
}

// NewCtx is datastore.NewVersionedCtx.
func NewCtx(d dvid.Data, v dvid.VersionID) *datastore.VersionedCtx {
	return datastore.NewVersionedCtx(d, v)
}
