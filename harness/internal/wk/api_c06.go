package wk

// In-process API for property C06 (storage keys isolate data instances, data and versions).
//
//   c06.instances {root}                 -> [{name,id,datauuid,type,syncs:[instance ids]}] of every live instance of the repo
//   c06.delete    {root,name}            -> starts the deletion of a data instance through datastore.DeleteDataByName, the
//                                           function behind the RPC command "repo <uuid> delete <name>" (this tree has no HTTP
//                                           route for it).  Asynchronous, exactly like the RPC: it returns once deletion started.
//   c06.dump      {}                     -> every entry of the data key space of the default store in RawRangeQuery order:
//                                           ["<hex key>:<hex of first 8 bytes of sha1(value)>", ...]
//   c06.rawround  {tuples,del,delmode}   -> builds the storage keys of the tuples with the real storage.DataContext functions,
//                                           RawPuts them into the default store, scans, optionally DeleteAll(ctx of instance del),
//                                           scans again, removes everything it wrote (see rawRound).

import (
	"bytes"
	"crypto/sha1"
	"encoding/binary"
	"encoding/hex"
	"encoding/json"
	"fmt"
	"runtime"
	"strings"

	"github.com/janelia-flyem/dvid/datastore"
	"github.com/janelia-flyem/dvid/dvid"
	"github.com/janelia-flyem/dvid/storage"
)

// c06Fake is the smallest dvid.Data a storage.DataContext needs for key construction.
type c06Fake struct {
	dvid.Data
	id dvid.InstanceID
}

func (f *c06Fake) InstanceID() dvid.InstanceID { return f.id }
func (f *c06Fake) DataName() dvid.InstanceName {
	return dvid.InstanceName(fmt.Sprintf("fake-%d", f.id))
}
func (f *c06Fake) DataUUID() dvid.UUID             { return dvid.UUID(fmt.Sprintf("fake%028x", uint32(f.id))) }
func (f *c06Fake) RootUUID() dvid.UUID             { return "" }
func (f *c06Fake) Versioned() bool                 { return true }
func (f *c06Fake) IsDeleted() bool                 { return false }
func (f *c06Fake) TypeName() dvid.TypeString       { return "fake" }
func (f *c06Fake) DAGRootUUID() (dvid.UUID, error) { return "", nil }

type c06Raw interface {
	RawRangeQuery(kStart, kEnd storage.Key, keysOnly bool, out chan *storage.KeyValue, cancel <-chan struct{}) error
	RawPut(storage.Key, []byte) error
	RawDelete(storage.Key) error
	DeleteAll(ctx storage.Context) error
}

func c06Store() (c06Raw, error) {
	st, err := storage.DefaultKVStore()
	if err != nil {
		return nil, err
	}
	r, ok := st.(c06Raw)
	if !ok {
		return nil, fmt.Errorf("default store %T lacks the raw key interface", st)
	}
	return r, nil
}

// c06Scan returns every entry whose key starts with the data key prefix byte, in store order.
func c06Scan(st c06Raw) ([]*storage.KeyValue, error) {
	ch := make(chan *storage.KeyValue, 1024)
	cancel := make(chan struct{})
	errc := make(chan error, 1)
	// [0x01] .. [0x02]: RawRangeQuery is inclusive at the end, so an entry with key exactly {2} would be included;
	// it is filtered below (no such key is ever written).
	go func() { errc <- st.RawRangeQuery(storage.Key{1}, storage.Key{2}, false, ch, cancel) }()
	var out []*storage.KeyValue
	for {
		select {
		case kv := <-ch:
			if kv == nil {
				return out, <-errc
			}
			if len(kv.K) > 0 && kv.K[0] == 1 {
				out = append(out, kv)
			}
		case err := <-errc:
			// the query function returned without sending the terminating nil (error path)
			for {
				select {
				case kv := <-ch:
					if kv != nil && len(kv.K) > 0 && kv.K[0] == 1 {
						out = append(out, kv)
					}
					continue
				default:
				}
				break
			}
			return out, err
		}
	}
}

type c06Tuple struct {
	I uint32 `json:"i"` // instance id
	T string `json:"t"` // hex tkey
	V uint32 `json:"v"` // version id
	C uint32 `json:"c"` // client id
	X bool   `json:"x"` // tombstone marker
}

var c06Magic = []byte("c06raw:")

func init() {
	APIs["c06.instances"] = func(args json.RawMessage) (interface{}, error) {
		var a struct {
			Root string `json:"root"`
		}
		if err := json.Unmarshal(args, &a); err != nil {
			return nil, err
		}
		jb, err := datastore.MarshalJSON()
		if err != nil {
			return nil, err
		}
		var repos map[string]*struct {
			Root          string
			DataInstances map[string]json.RawMessage
		}
		if err := json.Unmarshal(jb, &repos); err != nil {
			return nil, err
		}
		type inst struct {
			Name     string   `json:"name"`
			ID       uint32   `json:"id"`
			DataUUID string   `json:"datauuid"`
			Type     string   `json:"type"`
			Syncs    []uint32 `json:"syncs"`
		}
		out := []inst{}
		for _, r := range repos {
			if r == nil || r.Root != a.Root {
				continue
			}
			for name := range r.DataInstances {
				d, err := datastore.GetDataByUUIDName(dvid.UUID(r.Root), dvid.InstanceName(name))
				if err != nil {
					continue // being deleted
				}
				in := inst{Name: name, ID: uint32(d.InstanceID()), DataUUID: string(d.DataUUID()), Type: string(d.TypeName()), Syncs: []uint32{}}
				if s, ok := d.(interface{ SyncedData() dvid.UUIDSet }); ok {
					for u := range s.SyncedData() {
						if sd, err := datastore.GetDataByDataUUID(u); err == nil {
							in.Syncs = append(in.Syncs, uint32(sd.InstanceID()))
						}
					}
				}
				out = append(out, in)
			}
		}
		return out, nil
	}

	APIs["c06.delete"] = func(args json.RawMessage) (interface{}, error) {
		var a struct {
			Root string `json:"root"`
			Name string `json:"name"`
		}
		if err := json.Unmarshal(args, &a); err != nil {
			return nil, err
		}
		SetCurrentRequest("api c06.delete " + a.Name)
		if err := datastore.DeleteDataByName(dvid.UUID(a.Root), dvid.InstanceName(a.Name), ""); err != nil {
			return nil, err
		}
		return map[string]bool{"started": true}, nil
	}

	// c06.deleting: is a background instance / repo deletion still running?  (a goroutine of the process is inside
	// datastore.(*repoT).deleteData or storage.DeleteDataInstance: the code's own completion point)
	APIs["c06.deleting"] = func(args json.RawMessage) (interface{}, error) {
		buf := make([]byte, 1<<20)
		n := runtime.Stack(buf, true)
		for n == len(buf) {
			buf = make([]byte, 2*len(buf))
			n = runtime.Stack(buf, true)
		}
		dump := string(buf[:n])
		running := strings.Contains(dump, "datastore.(*repoT).deleteData") || strings.Contains(dump, "storage.DeleteDataInstance")
		return map[string]bool{"running": running}, nil
	}

	APIs["c06.dump"] = func(args json.RawMessage) (interface{}, error) {
		st, err := c06Store()
		if err != nil {
			return nil, err
		}
		kvs, err := c06Scan(st)
		if err != nil {
			return nil, err
		}
		out := make([]string, len(kvs))
		for i, kv := range kvs {
			h := sha1.Sum(kv.V)
			out[i] = hex.EncodeToString(kv.K) + ":" + hex.EncodeToString(h[:8])
		}
		return out, nil
	}

	APIs["c06.rawround"] = rawRound
}

// rawRound: args {tuples:[{i,t,v,c,x}], del:<instance id>, delmode:""|"unversioned"|"versioned"}
//
//	result {
//	  before: [tuple index per scanned entry, in store order]   (entries written by this round, recognised by their value)
//	  after:  same after DeleteAll (equals before when delmode=="")
//	  other_before, other_after: entries in the data key space not written by this round (hex keys, at most 20 listed)
//	  left: number of this round's entries still present after clean-up (must be 0)
//	  overwritten: tuple indices whose RawPut hit a key that an earlier tuple of this round had already written
//	  delerr: error text of DeleteAll, if any
//	}
func rawRound(args json.RawMessage) (interface{}, error) {
	var a struct {
		Tuples  []c06Tuple `json:"tuples"`
		Del     uint32     `json:"del"`
		DelMode string     `json:"delmode"`
	}
	if err := json.Unmarshal(args, &a); err != nil {
		return nil, err
	}
	st, err := c06Store()
	if err != nil {
		return nil, err
	}
	SetCurrentRequest("api c06.rawround")
	keys := make([]storage.Key, len(a.Tuples))
	seen := map[string]int{}
	overwritten := []int{}
	for i, t := range a.Tuples {
		tk, err := hex.DecodeString(t.T)
		if err != nil {
			return nil, err
		}
		ctx := storage.NewDataContext(&c06Fake{id: dvid.InstanceID(t.I)}, dvid.VersionID(t.V))
		var k storage.Key
		if t.X {
			k = ctx.TombstoneKey(storage.TKey(tk))
		} else {
			k = ctx.ConstructKey(storage.TKey(tk))
		}
		if t.C != 0 {
			if err := storage.UpdateDataKey(k, dvid.InstanceID(t.I), dvid.VersionID(t.V), dvid.ClientID(t.C)); err != nil {
				return nil, err
			}
		}
		keys[i] = k
		if _, dup := seen[string(k)]; dup {
			overwritten = append(overwritten, i)
		}
		seen[string(k)] = i
		val := make([]byte, len(c06Magic)+4)
		copy(val, c06Magic)
		binary.BigEndian.PutUint32(val[len(c06Magic):], uint32(i))
		if err := st.RawPut(k, val); err != nil {
			return nil, fmt.Errorf("RawPut tuple %d: %v", i, err)
		}
	}
	scan := func() (idx []int, other []string, err error) {
		kvs, err := c06Scan(st)
		if err != nil {
			return nil, nil, err
		}
		idx = []int{}
		other = []string{}
		for _, kv := range kvs {
			if len(kv.V) == len(c06Magic)+4 && bytes.HasPrefix(kv.V, c06Magic) {
				idx = append(idx, int(binary.BigEndian.Uint32(kv.V[len(c06Magic):])))
			} else if len(other) < 20 {
				other = append(other, hex.EncodeToString(kv.K))
			}
		}
		return idx, other, nil
	}
	res := map[string]interface{}{"overwritten": overwritten}
	before, ob, err := scan()
	if err != nil {
		return nil, err
	}
	res["before"], res["other_before"] = before, ob
	res["delerr"] = ""
	switch a.DelMode {
	case "unversioned":
		// what storage.DeleteDataInstance does
		if err := st.DeleteAll(storage.NewDataContext(&c06Fake{id: dvid.InstanceID(a.Del)}, 0)); err != nil {
			res["delerr"] = err.Error()
		}
	case "versioned":
		if err := st.DeleteAll(datastore.NewVersionedCtx(&c06Fake{id: dvid.InstanceID(a.Del)}, 1)); err != nil {
			res["delerr"] = err.Error()
		}
	}
	after, oa, err := scan()
	if err != nil {
		return nil, err
	}
	res["after"], res["other_after"] = after, oa
	for _, k := range keys {
		if err := st.RawDelete(k); err != nil {
			return nil, fmt.Errorf("RawDelete: %v", err)
		}
	}
	left, _, err := scan()
	if err != nil {
		return nil, err
	}
	res["left"] = len(left)
	DrainWriteLog()
	return res, nil
}
