// Package wk is the worker-side library: it links the real DVID code from /repo,
// registers two wrapping storage engines (crashkv over badger, crashlog over filelog)
// that give a write log, crash injection and delay injection without touching /repo,
// and boots the server in-process exactly as cmd/dvid DoServe does (minus sockets).
package wk

import (
	"encoding/hex"
	"fmt"
	"os"
	"strconv"
	"strings"
	"sync"
	"sync/atomic"
	"syscall"
	"time"

	"github.com/blang/semver"
	"github.com/janelia-flyem/dvid/dvid"
	"github.com/janelia-flyem/dvid/storage"
	"github.com/janelia-flyem/dvid/storage/badger"
	_ "github.com/janelia-flyem/dvid/storage/filelog"
)

// WriteEvent is one outermost write-class call on a wrapped store.
type WriteEvent struct {
	W     int64  `json:"w"`              // global sequence number (1-based)
	Op    string `json:"op"`             // put, delete, rawput, rawdelete, putrange, deleterange, deleteall, batch, putblob, logappend, topicappend
	Space string `json:"space"`          // metadata | data | blob | log
	Inst  uint32 `json:"inst,omitempty"` // instance id for data keys
	Ver   uint32 `json:"ver,omitempty"`  // version id for data keys (ctx version for range ops)
	Class int    `json:"class"`          // tkey class (first tkey byte), -1 if n/a
	TKey  string `json:"tkey,omitempty"` // hex of tkey (first one for batches)
	N     int    `json:"n,omitempty"`    // number of sub-operations (batch / putrange)
	VLen  int    `json:"vlen,omitempty"` // value length
	Tomb  bool   `json:"tomb,omitempty"` // a versioned delete (tombstone written)
	Log   string `json:"log,omitempty"`  // for log appends: dataUUID/versionUUID or topic
	EType uint16 `json:"etype,omitempty"`
	Req   string `json:"req,omitempty"` // request label current when the write happened (best effort: single-request phases only)
}

var (
	wseq     atomic.Int64
	wlogMu   sync.Mutex
	wlog     []WriteEvent
	wlogOn   = true
	wlogCap  = 2_000_000
	curReq   atomic.Value // string
	crashSet bool
	crashAt  int64
	crashPre bool // true = before:N, false = after:N

	delayMu    sync.RWMutex
	delayRead  time.Duration // sleep after read-class calls
	delayWrite time.Duration // sleep before write-class calls
	delayJit   bool          // if true, sleep a pseudo-random fraction
	delayCtr   atomic.Uint64
	delayWipe  atomic.Int64 // nanoseconds to sleep before DeleteAll (the wipe of a deleted instance) only
)

func init() {
	curReq.Store("")
	if s := os.Getenv("VERIF_CRASH"); s != "" {
		parts := strings.SplitN(s, ":", 2)
		if len(parts) == 2 {
			n, err := strconv.ParseInt(parts[1], 10, 64)
			if err == nil && (parts[0] == "before" || parts[0] == "after") {
				crashSet, crashAt, crashPre = true, n, parts[0] == "before"
			}
		}
	}
}

// SetCurrentRequest labels subsequent write events (only meaningful when requests are sequential).
func SetCurrentRequest(s string) { curReq.Store(s) }

// SetDelay configures delay injection: read = sleep after each read-class store call,
// write = sleep before each write-class store call; jitter = scale by a cheap counter hash.
func SetDelay(read, write time.Duration, jitter bool) {
	delayMu.Lock()
	delayRead, delayWrite, delayJit = read, write, jitter
	delayMu.Unlock()
}

func doDelay(isRead bool) {
	delayMu.RLock()
	d := delayWrite
	if isRead {
		d = delayRead
	}
	j := delayJit
	delayMu.RUnlock()
	if d <= 0 {
		return
	}
	if j {
		c := delayCtr.Add(1)
		c = (c * 0x9E3779B97F4A7C15) >> 60 // 0..15
		d = d * time.Duration(c) / 15
	}
	if d > 0 {
		time.Sleep(d)
	}
}

func die() {
	syscall.Kill(os.Getpid(), syscall.SIGKILL)
	time.Sleep(10 * time.Second)
	os.Exit(137)
}

// beginWrite numbers a write, crashes if configured for before:N, and returns the number.
func beginWrite() int64 {
	doDelay(false)
	w := wseq.Add(1)
	if crashSet && crashPre && w == crashAt {
		die()
	}
	return w
}

func endWrite(w int64, ev WriteEvent) {
	ev.W = w
	ev.Req, _ = curReq.Load().(string)
	wlogMu.Lock()
	if wlogOn && len(wlog) < wlogCap {
		wlog = append(wlog, ev)
	}
	wlogMu.Unlock()
	if crashSet && !crashPre && w == crashAt {
		die()
	}
}

// DrainWriteLog returns and clears the write log.
func DrainWriteLog() []WriteEvent {
	wlogMu.Lock()
	defer wlogMu.Unlock()
	out := wlog
	wlog = nil
	return out
}

// WriteCount returns the number of writes issued so far by this process.
func WriteCount() int64 { return wseq.Load() }

func keyEvent(op string, k storage.Key, vlen int) WriteEvent {
	ev := WriteEvent{Op: op, Class: -1, VLen: vlen}
	if len(k) == 0 {
		return ev
	}
	switch {
	case k[0] == 0:
		ev.Space = "metadata"
		if len(k) > 1 {
			ev.Class = int(k[1])
		}
		ev.TKey = hex.EncodeToString(k[1:])
	case k[0] == 1:
		ev.Space = "data"
		if i, v, _, err := storage.DataKeyToLocalIDs(k); err == nil {
			ev.Inst, ev.Ver = uint32(i), uint32(v)
		}
		if tk, err := storage.TKeyFromKey(k); err == nil && len(tk) > 0 {
			ev.Class = int(tk[0])
			ev.TKey = hex.EncodeToString(tk)
		}
		ev.Tomb = k.IsTombstone()
	default:
		ev.Space = "blob"
	}
	return ev
}

func ctxEvent(op string, ctx storage.Context, tk storage.TKey, vlen int) WriteEvent {
	ev := WriteEvent{Op: op, Class: -1, VLen: vlen}
	if ctx == nil {
		return ev
	}
	if len(tk) > 0 {
		ev.Class = int(tk[0])
		ev.TKey = hex.EncodeToString(tk)
	}
	if dc, ok := ctx.(interface{ InstanceID() dvid.InstanceID }); ok {
		ev.Space = "data"
		ev.Inst = uint32(dc.InstanceID())
		ev.Ver = uint32(ctx.VersionID())
	} else {
		ev.Space = "metadata"
	}
	return ev
}

// ---------------------------------------------------------------------------------------
// crashkv: wraps *badger.BadgerDB

type CrashKV struct {
	*badger.BadgerDB
}

type kvEngine struct{}

func (kvEngine) String() string            { return "crashkv (verif wrapper over badger)" }
func (kvEngine) GetName() string           { return "crashkv" }
func (kvEngine) IsDistributed() bool       { return false }
func (kvEngine) GetSemVer() semver.Version { return semver.Version{Major: 0, Minor: 1} }
func (kvEngine) NewStore(config dvid.StoreConfig) (dvid.Store, bool, error) {
	e := storage.GetEngine("badger")
	if e == nil {
		return nil, false, fmt.Errorf("badger engine not compiled in (need -tags badger)")
	}
	st, created, err := e.NewStore(config)
	if err != nil {
		return nil, false, err
	}
	bdb, ok := st.(*badger.BadgerDB)
	if !ok {
		return nil, false, fmt.Errorf("badger engine returned %T", st)
	}
	return &CrashKV{bdb}, created, nil
}

// --- read-class (delay only) ---

func (db *CrashKV) Get(ctx storage.Context, tk storage.TKey) ([]byte, error) {
	v, err := db.BadgerDB.Get(ctx, tk)
	doDelay(true)
	return v, err
}

func (db *CrashKV) GetRange(ctx storage.Context, a, b storage.TKey) ([]*storage.TKeyValue, error) {
	v, err := db.BadgerDB.GetRange(ctx, a, b)
	doDelay(true)
	return v, err
}

func (db *CrashKV) KeysInRange(ctx storage.Context, a, b storage.TKey) ([]storage.TKey, error) {
	v, err := db.BadgerDB.KeysInRange(ctx, a, b)
	doDelay(true)
	return v, err
}

// --- write-class ---

func (db *CrashKV) Put(ctx storage.Context, tk storage.TKey, v []byte) error {
	w := beginWrite()
	err := db.BadgerDB.Put(ctx, tk, v)
	endWrite(w, ctxEvent("put", ctx, tk, len(v)))
	return err
}

func (db *CrashKV) Delete(ctx storage.Context, tk storage.TKey) error {
	w := beginWrite()
	err := db.BadgerDB.Delete(ctx, tk)
	ev := ctxEvent("delete", ctx, tk, 0)
	ev.Tomb = ctx != nil && ctx.Versioned()
	endWrite(w, ev)
	return err
}

func (db *CrashKV) RawPut(k storage.Key, v []byte) error {
	w := beginWrite()
	err := db.BadgerDB.RawPut(k, v)
	endWrite(w, keyEvent("rawput", k, len(v)))
	return err
}

func (db *CrashKV) RawDelete(k storage.Key) error {
	w := beginWrite()
	err := db.BadgerDB.RawDelete(k)
	endWrite(w, keyEvent("rawdelete", k, 0))
	return err
}

func (db *CrashKV) PutRange(ctx storage.Context, kvs []storage.TKeyValue) error {
	w := beginWrite()
	err := db.BadgerDB.PutRange(ctx, kvs)
	var tk storage.TKey
	if len(kvs) > 0 {
		tk = kvs[0].K
	}
	ev := ctxEvent("putrange", ctx, tk, 0)
	ev.N = len(kvs)
	endWrite(w, ev)
	return err
}

func (db *CrashKV) DeleteRange(ctx storage.Context, a, b storage.TKey) error {
	w := beginWrite()
	err := db.BadgerDB.DeleteRange(ctx, a, b)
	ev := ctxEvent("deleterange", ctx, a, 0)
	ev.Tomb = ctx != nil && ctx.Versioned()
	endWrite(w, ev)
	return err
}

// SetWipeDelay holds every DeleteAll (the asynchronous wipe behind an instance / repo deletion) for d before it starts,
// without slowing any other store call: the window "deletion acknowledged, entries not yet removed" at a chosen width.
func SetWipeDelay(d time.Duration) { delayWipe.Store(int64(d)) }

func (db *CrashKV) DeleteAll(ctx storage.Context) error {
	if d := delayWipe.Load(); d > 0 {
		time.Sleep(time.Duration(d))
	}
	w := beginWrite()
	err := db.BadgerDB.DeleteAll(ctx)
	endWrite(w, ctxEvent("deleteall", ctx, nil, 0))
	return err
}

func (db *CrashKV) PutBlob(v []byte) (string, error) {
	w := beginWrite()
	ref, err := db.BadgerDB.PutBlob(v)
	endWrite(w, WriteEvent{Op: "putblob", Space: "blob", Class: -1, VLen: len(v)})
	return ref, err
}

type crashBatch struct {
	inner storage.Batch
	ctx   storage.Context
	first storage.TKey
	n     int
	dels  int
}

func (db *CrashKV) NewBatch(ctx storage.Context) storage.Batch {
	b := db.BadgerDB.NewBatch(ctx)
	if b == nil {
		return nil
	}
	return &crashBatch{inner: b, ctx: ctx}
}

func (b *crashBatch) Delete(tk storage.TKey) {
	if b.n == 0 {
		b.first = append(storage.TKey{}, tk...)
	}
	b.n++
	b.dels++
	b.inner.Delete(tk)
}

func (b *crashBatch) Put(tk storage.TKey, v []byte) {
	if b.n == 0 {
		b.first = append(storage.TKey{}, tk...)
	}
	b.n++
	b.inner.Put(tk, v)
}

func (b *crashBatch) Commit() error {
	w := beginWrite()
	err := b.inner.Commit()
	ev := ctxEvent("batch", b.ctx, b.first, 0)
	ev.N = b.n
	ev.Tomb = b.dels > 0 && b.ctx != nil && b.ctx.Versioned()
	endWrite(w, ev)
	return err
}

// ---------------------------------------------------------------------------------------
// crashlog: wraps the filelog store

type CrashLog struct {
	dvid.Store
	wl storage.WriteLog
	rl storage.ReadLog
}

type logEngine struct{}

func (logEngine) String() string            { return "crashlog (verif wrapper over filelog)" }
func (logEngine) GetName() string           { return "crashlog" }
func (logEngine) IsDistributed() bool       { return false }
func (logEngine) GetSemVer() semver.Version { return semver.Version{Major: 0, Minor: 1} }
func (logEngine) NewStore(config dvid.StoreConfig) (dvid.Store, bool, error) {
	e := storage.GetEngine("filelog")
	if e == nil {
		return nil, false, fmt.Errorf("filelog engine not available")
	}
	st, created, err := e.NewStore(config)
	if err != nil {
		return nil, false, err
	}
	wl, ok1 := st.(storage.WriteLog)
	rl, ok2 := st.(storage.ReadLog)
	if !ok1 || !ok2 {
		return nil, false, fmt.Errorf("filelog store %T lacks WriteLog/ReadLog", st)
	}
	return &CrashLog{Store: st, wl: wl, rl: rl}, created, nil
}

func (l *CrashLog) Append(dataID, version dvid.UUID, msg storage.LogMessage) error {
	w := beginWrite()
	err := l.wl.Append(dataID, version, msg)
	endWrite(w, WriteEvent{Op: "logappend", Space: "log", Class: -1, Log: string(dataID) + "/" + string(version), EType: msg.EntryType, VLen: len(msg.Data)})
	return err
}
func (l *CrashLog) CloseLog(dataID, version dvid.UUID) error { return l.wl.CloseLog(dataID, version) }
func (l *CrashLog) TopicAppend(topic string, msg storage.LogMessage) error {
	w := beginWrite()
	err := l.wl.TopicAppend(topic, msg)
	endWrite(w, WriteEvent{Op: "topicappend", Space: "log", Class: -1, Log: topic, EType: msg.EntryType, VLen: len(msg.Data)})
	return err
}
func (l *CrashLog) TopicClose(topic string) error { return l.wl.TopicClose(topic) }
func (l *CrashLog) ReadBinary(dataID, version dvid.UUID) ([]byte, error) {
	return l.rl.ReadBinary(dataID, version)
}
func (l *CrashLog) ReadAll(dataID, version dvid.UUID) ([]storage.LogMessage, error) {
	return l.rl.ReadAll(dataID, version)
}
func (l *CrashLog) StreamAll(dataID, version dvid.UUID, ch chan storage.LogMessage) error {
	return l.rl.StreamAll(dataID, version, ch)
}

func init() {
	storage.RegisterEngine(kvEngine{})
	storage.RegisterEngine(logEngine{})
}
