package wk

import (
	"encoding/json"
	"runtime"
	"strings"
	"time"

	"github.com/janelia-flyem/dvid/datastore"
	"github.com/janelia-flyem/dvid/dvid"
)

// c08.quiesce: waits until no goroutine of the process is executing code of the labelmap data type or
// of the down-sampling package.  POST raw acknowledges before its index aggregation goroutine
// (labelmap.aggregateBlockChanges -> ChangeLabelIndex, updateBlockMaxLabel, updateMaxLabel) has finished,
// and that goroutine raises none of the Updating / ScaleUpdating flags wk.Settle polls; the goroutine
// dump is the only observation point for "the acknowledged write has been fully applied".
//
//	args:   {"max_wait_ms": 60000}
//	result: {"polls": n, "busy_polls": k, "ok": bool, "last": "function seen last"}
//
// The verdict of a check never depends on how long this took; ok=false is reported as inconclusive.
func init() {
	APIs["c08.quiesce"] = func(args json.RawMessage) (interface{}, error) {
		var a struct {
			MaxWaitMS int64 `json:"max_wait_ms"`
		}
		json.Unmarshal(args, &a)
		if a.MaxWaitMS <= 0 {
			a.MaxWaitMS = 60000
		}
		deadline := time.Now().Add(time.Duration(a.MaxWaitMS) * time.Millisecond)
		polls, busyPolls, clear := 0, 0, 0
		last := ""
		buf := make([]byte, 1<<20)
		for {
			polls++
			var n int
			for {
				n = runtime.Stack(buf, true)
				if n < len(buf) {
					break
				}
				buf = make([]byte, 2*len(buf))
			}
			who := labelmapFrame(string(buf[:n]))
			if who != "" {
				busyPolls++
				clear = 0
				last = who
			} else {
				clear++
				if clear >= 2 {
					return map[string]interface{}{"polls": polls, "busy_polls": busyPolls, "ok": true, "last": last}, nil
				}
			}
			if time.Now().After(deadline) {
				return map[string]interface{}{"polls": polls, "busy_polls": busyPolls, "ok": false, "last": last}, nil
			}
			time.Sleep(2 * time.Millisecond)
		}
	}
}

// labelmapFrame returns the first function of the labelmap / downres packages found in a goroutine dump.
func labelmapFrame(dump string) string {
	for _, g := range strings.Split(dump, "\n\n") {
		for _, line := range strings.Split(g, "\n") {
			if strings.HasPrefix(line, "\t") || strings.HasPrefix(line, "goroutine ") || strings.HasPrefix(line, "created by ") {
				continue
			}
			if strings.Contains(line, "dvid/datatype/labelmap.") || strings.Contains(line, "dvid/datatype/common/downres.") {
				if i := strings.Index(line, "("); i > 0 {
					// keep "pkg.(*T).fn" up to its argument list
					if j := strings.LastIndex(line, "("); j > i {
						return line[:j]
					}
				}
				return line
			}
		}
	}
	return ""
}

// c14.idlewatch: runs one write request in a goroutine and, while it is in flight, samples the instance at every
// moment it REPORTS ITSELF IDLE (Updating()==false && AnyScaleUpdating()==false, the flags datastore.BlockOnUpdating
// and downres.BlockOnUpdating poll): a level-n read followed by a level-n+1 read, kept when the idle report still
// holds after both reads.  The driver decides whether level n+1 is the vote over level n.
//
//	args:   {"uuid","name","method","url","body"(base64),"lo_url","hi_url","max_samples"}
//	result: {"status","resp","samples":[{"lo","hi","in_flight"}], "idle_polls", "busy_polls"}
//
// c08.ackprobe: runs one write request synchronously and, immediately after it has been acknowledged, reports whether
// the instance says idle while goroutines of the labelmap package are still applying that write.
//
//	args:   {"uuid","name","method","url","body"}
//	result: {"status","idle_flags":bool,"running":"function name or empty"}
func init() {
	type wargs struct {
		UUID       string `json:"uuid"`
		Name       string `json:"name"`
		Method     string `json:"method"`
		URL        string `json:"url"`
		Body       []byte `json:"body"`
		LoURL      string `json:"lo_url"`
		HiURL      string `json:"hi_url"`
		MaxSamples int    `json:"max_samples"`
	}
	idle := func(uuid, name string) (func() bool, error) {
		d, err := datastore.GetDataByUUIDName(dvid.UUID(uuid), dvid.InstanceName(name))
		if err != nil {
			return nil, err
		}
		return func() bool {
			if u, ok := d.(updatingFlag); ok && u.Updating() {
				return false
			}
			if u, ok := d.(scaleUpdater); ok && u.AnyScaleUpdating() {
				return false
			}
			return true
		}, nil
	}
	APIs["c14.idlewatch"] = func(args json.RawMessage) (interface{}, error) {
		var a wargs
		if err := json.Unmarshal(args, &a); err != nil {
			return nil, err
		}
		isIdle, err := idle(a.UUID, a.Name)
		if err != nil {
			return nil, err
		}
		if a.MaxSamples <= 0 {
			a.MaxSamples = 4
		}
		done := make(chan Resp, 1)
		go func() { done <- Do(a.Method, a.URL, a.Body, nil) }()
		type sample struct {
			Lo       []byte `json:"lo"`
			Hi       []byte `json:"hi"`
			InFlight bool   `json:"in_flight"`
		}
		var samples []sample
		idlePolls, busyPolls := 0, 0
		var resp Resp
		finished := false
		for !finished {
			select {
			case resp = <-done:
				finished = true
				continue
			default:
			}
			if !isIdle() {
				busyPolls++
				runtime.Gosched()
				continue
			}
			idlePolls++
			if len(samples) >= a.MaxSamples {
				time.Sleep(200 * time.Microsecond)
				continue
			}
			lo := Do("GET", a.LoURL, nil, nil)
			hi := Do("GET", a.HiURL, nil, nil)
			still := isIdle()
			inFlight := true
			select {
			case resp = <-done:
				finished = true
				inFlight = false
			default:
			}
			if still && inFlight && lo.Status == 200 && hi.Status == 200 {
				// keep only samples whose level-n content differs from the previous kept sample
				if len(samples) == 0 || string(samples[len(samples)-1].Lo) != string(lo.Body) {
					samples = append(samples, sample{lo.Body, hi.Body, inFlight})
				}
			}
		}
		return map[string]interface{}{"status": resp.Status, "resp": string(resp.Body), "samples": samples, "idle_polls": idlePolls, "busy_polls": busyPolls}, nil
	}
	APIs["c08.ackprobe"] = func(args json.RawMessage) (interface{}, error) {
		var a wargs
		if err := json.Unmarshal(args, &a); err != nil {
			return nil, err
		}
		isIdle, err := idle(a.UUID, a.Name)
		if err != nil {
			return nil, err
		}
		resp := Do(a.Method, a.URL, a.Body, nil)
		flags := isIdle()
		buf := make([]byte, 1<<20)
		n := runtime.Stack(buf, true)
		for n == len(buf) {
			buf = make([]byte, 2*len(buf))
			n = runtime.Stack(buf, true)
		}
		return map[string]interface{}{"status": resp.Status, "idle_flags": flags, "running": labelmapFrame(string(buf[:n]))}, nil
	}
}
