package wk

import (
	"encoding/json"
	"runtime"
	"strings"
	"time"
)

// c08.quiesce: waits until no goroutine of the process is executing code of the labelmap data type or
// of the down-sampling package.  POST raw acknowledges before its index aggregation goroutine
// (labelmap.aggregateBlockChanges -> ChangeLabelIndex, updateBlockMaxLabel, updateMaxLabel) has finished,
// and that goroutine raises none of the Updating / ScaleUpdating flags wk.Settle polls; the goroutine
// dump is the only observation point for "the acknowledged write has been fully applied".
//
//	args:   {"max_wait_ms": 60000}
//	result: {"polls": n, "busy_polls": k, "ok": bool, "last": "function seen last"}
//
// The verdict of a check never depends on how long this took; ok=false is reported as inconclusive.
func init() {
	APIs["c08.quiesce"] = func(args json.RawMessage) (interface{}, error) {
		var a struct {
			MaxWaitMS int64 `json:"max_wait_ms"`
		}
		json.Unmarshal(args, &a)
		if a.MaxWaitMS <= 0 {
			a.MaxWaitMS = 60000
		}
		deadline := time.Now().Add(time.Duration(a.MaxWaitMS) * time.Millisecond)
		polls, busyPolls, clear := 0, 0, 0
		last := ""
		buf := make([]byte, 1<<20)
		for {
			polls++
			var n int
			for {
				n = runtime.Stack(buf, true)
				if n < len(buf) {
					break
				}
				buf = make([]byte, 2*len(buf))
			}
			who := labelmapFrame(string(buf[:n]))
			if who != "" {
				busyPolls++
				clear = 0
				last = who
			} else {
				clear++
				if clear >= 2 {
					return map[string]interface{}{"polls": polls, "busy_polls": busyPolls, "ok": true, "last": last}, nil
				}
			}
			if time.Now().After(deadline) {
				return map[string]interface{}{"polls": polls, "busy_polls": busyPolls, "ok": false, "last": last}, nil
			}
			time.Sleep(2 * time.Millisecond)
		}
	}
}

// labelmapFrame returns the first function of the labelmap / downres packages found in a goroutine dump.
func labelmapFrame(dump string) string {
	for _, g := range strings.Split(dump, "\n\n") {
		for _, line := range strings.Split(g, "\n") {
			if strings.HasPrefix(line, "\t") || strings.HasPrefix(line, "goroutine ") || strings.HasPrefix(line, "created by ") {
				continue
			}
			if strings.Contains(line, "dvid/datatype/labelmap.") || strings.Contains(line, "dvid/datatype/common/downres.") {
				if i := strings.Index(line, "("); i > 0 {
					// keep "pkg.(*T).fn" up to its argument list
					if j := strings.LastIndex(line, "("); j > i {
						return line[:j]
					}
				}
				return line
			}
		}
	}
	return ""
}
