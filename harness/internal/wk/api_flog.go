package wk

import (
	"crypto/sha1"
	"encoding/hex"
	"encoding/json"
	"fmt"

	"github.com/janelia-flyem/dvid/dvid"
	"github.com/janelia-flyem/dvid/storage"
)

// flog.append / flog.read: exercise the real filelog store (storage.WriteLog / storage.ReadLog) on a
// directory chosen by the driver, so that the driver can tear the file between the two calls.

type flogRec struct {
	Type uint16 `json:"type"`
	Data []byte `json:"data,omitempty"`
	Len  int    `json:"len"`
	Sum  string `json:"sum"`
}

func openFlog(path string) (dvid.Store, error) {
	e := storage.GetEngine("filelog")
	if e == nil {
		return nil, fmt.Errorf("no filelog engine")
	}
	var c dvid.Config
	c.SetAll(map[string]interface{}{"path": path})
	st, _, err := e.NewStore(dvid.StoreConfig{Config: c, Engine: "filelog"})
	return st, err
}

func sum(b []byte) string {
	h := sha1.Sum(b)
	return hex.EncodeToString(h[:6])
}

func init() {
	type args struct {
		Path    string    `json:"path"`
		Data    string    `json:"data"`
		Version string    `json:"version"`
		Records []flogRec `json:"records"`
	}
	APIs["flog.append"] = func(raw json.RawMessage) (interface{}, error) {
		var a args
		if err := json.Unmarshal(raw, &a); err != nil {
			return nil, err
		}
		st, err := openFlog(a.Path)
		if err != nil {
			return nil, err
		}
		defer st.Close()
		wl := st.(storage.WriteLog)
		for _, r := range a.Records {
			if err := wl.Append(dvid.UUID(a.Data), dvid.UUID(a.Version), storage.LogMessage{EntryType: r.Type, Data: r.Data}); err != nil {
				return nil, err
			}
		}
		return nil, nil
	}
	APIs["flog.read"] = func(raw json.RawMessage) (interface{}, error) {
		var a args
		if err := json.Unmarshal(raw, &a); err != nil {
			return nil, err
		}
		st, err := openFlog(a.Path)
		if err != nil {
			return nil, err
		}
		defer st.Close()
		rl := st.(storage.ReadLog)
		out := map[string]interface{}{}
		func() {
			defer func() {
				if e := recover(); e != nil {
					out["readall_panic"] = fmt.Sprint(e)
				}
			}()
			msgs, err := rl.ReadAll(dvid.UUID(a.Data), dvid.UUID(a.Version))
			if err != nil {
				out["readall_err"] = err.Error()
			}
			recs := []flogRec{}
			for _, m := range msgs {
				recs = append(recs, flogRec{Type: m.EntryType, Len: len(m.Data), Sum: sum(m.Data)})
			}
			out["readall"] = recs
		}()
		func() {
			recs := []flogRec{}
			ch := make(chan storage.LogMessage, 100)
			done := make(chan struct{})
			go func() {
				for m := range ch {
					recs = append(recs, flogRec{Type: m.EntryType, Len: len(m.Data), Sum: sum(m.Data)})
				}
				close(done)
			}()
			perr := make(chan string, 1)
			go func() {
				defer func() {
					if e := recover(); e != nil {
						perr <- fmt.Sprint(e)
						// StreamAll's deferred close(ch) has run during panicking
						return
					}
					perr <- ""
				}()
				if err := rl.StreamAll(dvid.UUID(a.Data), dvid.UUID(a.Version), ch); err != nil {
					out["stream_err"] = err.Error()
				}
			}()
			if p := <-perr; p != "" {
				out["stream_panic"] = p
			}
			<-done
			out["stream"] = recs
		}()
		return out, nil
	}
}
