package wk

import (
	"bytes"
	"crypto/sha1"
	"encoding/json"
	"fmt"
	"net/http"
	"net/http/httptest"
	"os"
	"runtime"
	"strings"
	"syscall"
	"time"

	"github.com/janelia-flyem/dvid/datastore"
	"github.com/janelia-flyem/dvid/dvid"
	"github.com/janelia-flyem/dvid/server"
	"github.com/janelia-flyem/dvid/storage"

	// same data types as cmd/dvid
	_ "github.com/janelia-flyem/dvid/datatype/annotation"
	_ "github.com/janelia-flyem/dvid/datatype/googlevoxels"
	_ "github.com/janelia-flyem/dvid/datatype/imageblk"
	_ "github.com/janelia-flyem/dvid/datatype/imagetile"
	_ "github.com/janelia-flyem/dvid/datatype/keyvalue"
	_ "github.com/janelia-flyem/dvid/datatype/labelarray"
	_ "github.com/janelia-flyem/dvid/datatype/labelblk"
	_ "github.com/janelia-flyem/dvid/datatype/labelmap"
	_ "github.com/janelia-flyem/dvid/datatype/labelsz"
	_ "github.com/janelia-flyem/dvid/datatype/labelvol"
	_ "github.com/janelia-flyem/dvid/datatype/multichan16"
	_ "github.com/janelia-flyem/dvid/datatype/neuronjson"
	_ "github.com/janelia-flyem/dvid/datatype/roi"
	_ "github.com/janelia-flyem/dvid/datatype/tarsupervoxels"
)

// ProtoOut is where protocol lines go.  StealStdout moves the real stdout there and
// points fd 1 at stderr so stray prints from the server never corrupt the protocol.
var ProtoOut *os.File = os.Stdout

func StealStdout() error {
	fd, err := syscall.Dup(1)
	if err != nil {
		return err
	}
	ProtoOut = os.NewFile(uintptr(fd), "proto")
	if err := syscall.Dup2(2, 1); err != nil {
		return err
	}
	return nil
}

// Boot replicates cmd/dvid DoServe up to (not including) server.Serve().
func Boot(configPath string) error {
	if err := server.LoadConfig(configPath); err != nil {
		return fmt.Errorf("LoadConfig: %v", err)
	}
	// let the logging goroutine finish what LoadConfig queued before Initialize swaps the logger under it
	for i := 0; i < 200 && dvid.PendingLogMessages() > 0; i++ {
		time.Sleep(5 * time.Millisecond)
	}
	time.Sleep(20 * time.Millisecond)
	if err := server.Initialize(); err != nil {
		return fmt.Errorf("server.Initialize: %v", err)
	}
	backend, err := server.InitBackend()
	if err != nil {
		return fmt.Errorf("InitBackend: %v", err)
	}
	datatypes := make(map[dvid.TypeString]struct{})
	for _, t := range datastore.Compiled {
		datatypes[t.GetTypeName()] = struct{}{}
	}
	initMetadata, err := storage.Initialize(dvid.Config{}, backend, datatypes)
	if err != nil {
		return fmt.Errorf("storage.Initialize: %v", err)
	}
	if err := datastore.Initialize(initMetadata, server.DatastoreConfig()); err != nil {
		return fmt.Errorf("datastore.Initialize: %v", err)
	}
	return nil
}

// CleanShutdown is server.Shutdown minus the unbuffered channel send (Serve() is not running).
func CleanShutdown() {
	dvid.DenyRequests()
	datastore.Shutdown()
	dvid.BlockOnActiveCgo()
	storage.Shutdown()
	dvid.Shutdown()
}

// Resp is the outcome of one in-process HTTP request.
type Resp struct {
	Status int    `json:"status"`
	Body   []byte `json:"body,omitempty"`
	CT     string `json:"ct,omitempty"`
	T0     int64  `json:"t0,omitempty"` // ns since process start, taken just before ServeSingleHTTP
	T1     int64  `json:"t1,omitempty"` // ns since process start, taken just after
}

var procStart = time.Now()

func Mono() int64 { return int64(time.Since(procStart)) }

// Do runs one request through the full server mux.
func Do(method, url string, body []byte, hdr map[string]string) Resp {
	var r *http.Request
	var err error
	if body != nil {
		r, err = http.NewRequest(method, url, bytes.NewReader(body))
	} else {
		r, err = http.NewRequest(method, url, nil)
	}
	if err != nil {
		return Resp{Status: -1, Body: []byte(err.Error())}
	}
	if r.Body == nil {
		r.Body = http.NoBody // a real net/http server never hands a handler a nil Body
	}
	for k, v := range hdr {
		r.Header.Set(k, v)
	}
	r.RemoteAddr = "127.0.0.1:1"
	w := httptest.NewRecorder()
	t0 := Mono()
	server.ServeSingleHTTP(w, r)
	t1 := Mono()
	out := w.Body.Bytes()
	if len(out) > 16<<20 {
		// no oracle needs the bytes of a response this large: send its length and digest instead
		h := sha1.Sum(out)
		out = []byte(fmt.Sprintf("TRUNCATED-BY-WORKER len=%d sha1=%x", len(out), h[:8]))
	}
	return Resp{Status: w.Code, Body: out, CT: w.Header().Get("Content-Type"), T0: t0, T1: t1}
}

type syncPender interface{ SyncPending() bool }
type updatingFlag interface{ Updating() bool }
type scaleUpdater interface{ AnyScaleUpdating() bool }

// AllData lists every data instance of every repo.
func AllData() ([]datastore.DataService, error) {
	jb, err := datastore.MarshalJSON()
	if err != nil {
		return nil, err
	}
	var repos map[string]*struct {
		Root          string
		DataInstances map[string]json.RawMessage
	}
	if err := json.Unmarshal(jb, &repos); err != nil {
		return nil, err
	}
	var out []datastore.DataService
	for _, r := range repos {
		if r == nil {
			continue
		}
		for name := range r.DataInstances {
			d, err := datastore.GetDataByUUIDName(dvid.UUID(r.Root), dvid.InstanceName(name))
			if err == nil {
				out = append(out, d)
			}
		}
	}
	return out, nil
}

var stackBuf = make([]byte, 1<<20)

// blockedSince remembers, per goroutine id, since when it has been seen parked in the same blocked state
// inside labelmap / downres code.  A goroutine parked unchanged for longer than leakAfter is treated as
// leaked (e.g. a producer left behind by a request that failed), not as pending work.
var blockedSince = map[string]time.Time{}

const leakAfter = 1500 * time.Millisecond

// workFrames reports whether some goroutine is doing (or about to do) labelmap / downres work.
func workFrames(dump string) string {
	now := time.Now()
	seen := map[string]bool{}
	busy := ""
	for _, g := range strings.Split(dump, "\n\n") {
		lines := strings.Split(g, "\n")
		if len(lines) == 0 || !strings.HasPrefix(lines[0], "goroutine ") {
			continue
		}
		fn := ""
		for _, line := range lines[1:] {
			if strings.HasPrefix(line, "\t") || strings.HasPrefix(line, "created by ") {
				continue
			}
			if strings.Contains(line, "dvid/datatype/labelmap.") || strings.Contains(line, "dvid/datatype/common/downres.") {
				fn = line
				break
			}
		}
		if fn == "" {
			continue
		}
		hdr := lines[0] // goroutine 123 [chan receive, 2 minutes]:
		state := hdr
		if i := strings.Index(hdr, "["); i >= 0 {
			state = strings.TrimSuffix(strings.TrimSpace(hdr[i+1:]), "]:")
		}
		id := strings.Fields(hdr)[1]
		blocked := strings.HasPrefix(state, "chan ") || strings.HasPrefix(state, "select") || strings.HasPrefix(state, "sync.") || strings.HasPrefix(state, "semacquire")
		if !blocked {
			busy = fn
			continue
		}
		key := id + "|" + strings.SplitN(state, ",", 2)[0] + "|" + lines[1]
		seen[key] = true
		t0, ok := blockedSince[key]
		if !ok {
			blockedSince[key] = now
			busy = fn
		} else if now.Sub(t0) < leakAfter {
			busy = fn
		}
	}
	for k := range blockedSince {
		if !seen[k] {
			delete(blockedSince, k)
		}
	}
	return busy
}

func busy() (bool, string) {
	// POST raw / blocks acknowledge before their index-aggregation goroutines finish, and those raise none
	// of the flags below: a goroutine still executing labelmap / downres code means "not idle" as well.
	for {
		n := runtime.Stack(stackBuf, true)
		if n < len(stackBuf) {
			if who := workFrames(string(stackBuf[:n])); who != "" {
				return true, "goroutine in " + strings.TrimSpace(who)
			}
			break
		}
		stackBuf = make([]byte, 2*len(stackBuf))
	}
	ds, err := AllData()
	if err != nil {
		return false, ""
	}
	for _, d := range ds {
		if s, ok := d.(syncPender); ok && s.SyncPending() {
			return true, string(d.DataName()) + ":sync"
		}
		if u, ok := d.(updatingFlag); ok && u.Updating() {
			return true, string(d.DataName()) + ":updating"
		}
		if u, ok := d.(scaleUpdater); ok && u.AnyScaleUpdating() {
			return true, string(d.DataName()) + ":scale"
		}
	}
	return false, ""
}

// Settle waits until every data instance reports idle by the code's own definitions
// (SyncPending / Updating / AnyScaleUpdating - what datastore.BlockOnUpdating and
// downres.BlockOnUpdating poll), observed idle on `need` consecutive polls spaced 25 ms apart
// (the first poll happens after an initial 60 ms, as BlockOnUpdating itself sleeps 100 ms first, because
// a handler may return before its background goroutine has raised its flag).
// Returns the number of polls that saw activity.  maxWait bounds the wait; on expiry ok=false.
func Settle(maxWait time.Duration) (busyPolls int, ok bool, last string) {
	deadline := time.Now().Add(maxWait)
	time.Sleep(60 * time.Millisecond)
	clear := 0
	const need = 3
	for {
		b, who := busy()
		if b {
			busyPolls++
			clear = 0
			last = who
		} else {
			clear++
			if clear >= need {
				return busyPolls, true, last
			}
		}
		if time.Now().After(deadline) {
			return busyPolls, false, last
		}
		time.Sleep(25 * time.Millisecond)
	}
}

// IsPanicBody reports whether a response body is the recover middleware's message.
func IsPanicBody(b []byte) bool {
	return strings.Contains(string(b), "Panic detected")
}
