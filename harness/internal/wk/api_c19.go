package wk

// In-process observation point for property C19 (copying a data instance preserves its content).
//
// c19.copy {uuid, source, target, settings:["transmit=flatten", ...]}
//     Builds the same dvid.Command the RPC handler of "repo <uuid> copy <source> <target> <settings...>"
//     receives, takes its Settings() exactly as server/rpc.go does and calls datastore.CopyInstance
//     synchronously (the RPC handler runs the very same call in a goroutine and only logs its error).
//     CopyInstance itself returns only after copyData's receiving goroutine has stored the last
//     key-value pair (sync.WaitGroup in copyData), so its return is the completion signal.
//     Result: {"err": "<text or empty>"}.

//
// c19.rawentries {uuid, name}
//     Lists what the store physically holds for the instance: for every raw key in the instance's key range
//     (RawRangeQuery, keys only) the type-specific key (hex), the version id and whether it is a tombstone.
//     The driver feeds these into its own versioned-map model to decide which versions see an unresolved
//     merge conflict under some key (there "the source as seen from V" is undefined).

import (
	"encoding/hex"
	"encoding/json"
	"fmt"
	"runtime/debug"

	"github.com/janelia-flyem/dvid/datastore"
	"github.com/janelia-flyem/dvid/dvid"
	"github.com/janelia-flyem/dvid/storage"
)

func init() {
	APIs["c19.copy"] = func(args json.RawMessage) (interface{}, error) {
		var a struct {
			UUID     string   `json:"uuid"`
			Source   string   `json:"source"`
			Target   string   `json:"target"`
			Settings []string `json:"settings"`
		}
		if err := json.Unmarshal(args, &a); err != nil {
			return nil, err
		}
		cmd := dvid.Command(append([]string{"repo", a.UUID, "copy", a.Source, a.Target}, a.Settings...))
		var source, target string
		cmd.CommandArgs(3, &source, &target)
		config := cmd.Settings()
		uuid, _, err := datastore.MatchingUUID(a.UUID)
		if err != nil {
			return nil, err
		}
		var cerr error
		var panicked string
		func() {
			defer func() {
				if e := recover(); e != nil {
					panicked = fmt.Sprintf("PANIC in datastore.CopyInstance: %v\n%s", e, debug.Stack())
				}
			}()
			cerr = datastore.CopyInstance(uuid, dvid.InstanceName(source), dvid.InstanceName(target), config)
		}()
		if panicked != "" {
			return map[string]string{"err": panicked, "panic": "true"}, nil
		}
		if cerr != nil {
			return map[string]string{"err": cerr.Error()}, nil
		}
		return map[string]string{"err": ""}, nil
	}

	// c19.storeof {uuid, name} -> {"store": "<String() of the store the instance is assigned to>"}
	APIs["c19.storeof"] = func(args json.RawMessage) (interface{}, error) {
		var a struct {
			UUID string `json:"uuid"`
			Name string `json:"name"`
		}
		if err := json.Unmarshal(args, &a); err != nil {
			return nil, err
		}
		data, err := datastore.GetDataByUUIDName(dvid.UUID(a.UUID), dvid.InstanceName(a.Name))
		if err != nil {
			return nil, err
		}
		st, err := data.KVStore()
		if err != nil {
			return nil, err
		}
		return map[string]string{"store": fmt.Sprint(st)}, nil
	}

	APIs["c19.rawentries"] = func(args json.RawMessage) (interface{}, error) {
		var a struct {
			UUID string `json:"uuid"`
			Name string `json:"name"`
		}
		if err := json.Unmarshal(args, &a); err != nil {
			return nil, err
		}
		data, err := datastore.GetDataByUUIDName(dvid.UUID(a.UUID), dvid.InstanceName(a.Name))
		if err != nil {
			return nil, err
		}
		db, err := datastore.GetOrderedKeyValueDB(data)
		if err != nil {
			return nil, err
		}
		type entry struct {
			TK   string `json:"tk"`
			V    uint32 `json:"v"`
			Tomb bool   `json:"tomb,omitempty"`
		}
		out := []entry{}
		ctx := storage.NewDataContext(data, 0)
		lo, hi := ctx.KeyRange()
		ch := make(chan *storage.KeyValue, 100)
		done := make(chan error, 1)
		go func() { done <- db.RawRangeQuery(lo, hi, true, ch, nil) }()
		for kv := range ch {
			if kv == nil {
				break
			}
			tk, err := storage.TKeyFromKey(kv.K)
			if err != nil {
				return nil, err
			}
			v, err := storage.VersionFromDataKey(kv.K)
			if err != nil {
				return nil, err
			}
			out = append(out, entry{TK: hex.EncodeToString(tk), V: uint32(v), Tomb: kv.K.IsTombstone()})
		}
		if err := <-done; err != nil {
			return nil, err
		}
		return out, nil
	}
}
