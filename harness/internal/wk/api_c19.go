package wk

// In-process observation point for property C19 (copying a data instance preserves its content).
//
// c19.copy {uuid, source, target, settings:["transmit=flatten", ...]}
//     Builds the same dvid.Command the RPC handler of "repo <uuid> copy <source> <target> <settings...>"
//     receives, takes its Settings() exactly as server/rpc.go does and calls datastore.CopyInstance
//     synchronously (the RPC handler runs the very same call in a goroutine and only logs its error).
//     CopyInstance itself returns only after copyData's receiving goroutine has stored the last
//     key-value pair (sync.WaitGroup in copyData), so its return is the completion signal.
//     Result: {"err": "<text or empty>"}.

import (
	"encoding/json"

	"github.com/janelia-flyem/dvid/datastore"
	"github.com/janelia-flyem/dvid/dvid"
)

func init() {
	APIs["c19.copy"] = func(args json.RawMessage) (interface{}, error) {
		var a struct {
			UUID     string   `json:"uuid"`
			Source   string   `json:"source"`
			Target   string   `json:"target"`
			Settings []string `json:"settings"`
		}
		if err := json.Unmarshal(args, &a); err != nil {
			return nil, err
		}
		cmd := dvid.Command(append([]string{"repo", a.UUID, "copy", a.Source, a.Target}, a.Settings...))
		var source, target string
		cmd.CommandArgs(3, &source, &target)
		config := cmd.Settings()
		uuid, _, err := datastore.MatchingUUID(a.UUID)
		if err != nil {
			return nil, err
		}
		if err := datastore.CopyInstance(uuid, dvid.InstanceName(source), dvid.InstanceName(target), config); err != nil {
			return map[string]string{"err": err.Error()}, nil
		}
		return map[string]string{"err": ""}, nil
	}
}
