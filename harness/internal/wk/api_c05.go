package wk

// In-process observation points for property C05 (range and listing queries agree with point reads).
//
// c05.sweep   {uuid, name, keys:[..], endpoints:[..], pairs:[[lo,hi],..], unversioned}
//     Calls Get for every key and GetRange / KeysInRange / SendKeysInRange / ProcessRange for every
//     (lo,hi) pair on the OrderedKeyValueDB of the keyvalue instance.  lo/hi index into endpoints;
//     -1 = keyvalue.MinTKey, -2 = keyvalue.MaxTKey (whole key class).
//     Context: datastore.NewVersionedCtx(data, version of uuid) — for an instance created with
//     versioned=false the version is the repo root, exactly as server.instanceSelector does —
//     or, with unversioned=true, storage.NewDataContext(data, 0) (the unversioned code path,
//     unversionedRange / plain Get).
// c05.deleterange {uuid, name, lo, hi, lomin, himax, unversioned}   -> db.DeleteRange
// c05.put / c05.del {uuid, name, key, val, unversioned}             -> db.Put / db.Delete (value
//     goes through keyvalue.Data.PutData, i.e. serialized with the instance's compression/checksum)
//
// Values are returned deserialized (dvid.DeserializeData), keys decoded with keyvalue.DecodeTKey.

import (
	"encoding/hex"
	"encoding/json"
	"fmt"
	"time"

	"github.com/janelia-flyem/dvid/datastore"
	"github.com/janelia-flyem/dvid/datatype/keyvalue"
	"github.com/janelia-flyem/dvid/dvid"
	"github.com/janelia-flyem/dvid/storage"
)

type c05Target struct {
	UUID        string `json:"uuid"`
	Name        string `json:"name"`
	Unversioned bool   `json:"unversioned"`
}

func (t c05Target) open() (storage.OrderedKeyValueDB, storage.Context, datastore.DataService, error) {
	uuid := dvid.UUID(t.UUID)
	data, err := datastore.GetDataByUUIDName(uuid, dvid.InstanceName(t.Name))
	if err != nil {
		return nil, nil, nil, err
	}
	db, err := datastore.GetOrderedKeyValueDB(data)
	if err != nil {
		return nil, nil, nil, err
	}
	if t.Unversioned {
		return db, storage.NewDataContext(data, 0), data, nil
	}
	v, err := datastore.VersionFromUUID(uuid)
	if err != nil {
		return nil, nil, nil, err
	}
	if !data.Versioned() {
		if v, err = datastore.GetRepoRootVersion(v); err != nil {
			return nil, nil, nil, err
		}
	}
	return db, datastore.NewVersionedCtx(data, v), data, nil
}

// C05Range is the outcome of one range consumer on one interval.
type C05Range struct {
	Keys []string `json:"k"`
	Vals []string `json:"v,omitempty"` // nil for keys-only consumers
	Err  string   `json:"e,omitempty"`
}

type c05Point struct {
	Found bool   `json:"found"`
	Val   string `json:"val,omitempty"`
	Err   string `json:"err,omitempty"`
}

func c05DecodeKey(tk storage.TKey) string {
	s, err := keyvalue.DecodeTKey(tk)
	if err != nil {
		return "!undecodable:" + hex.EncodeToString(tk)
	}
	return s
}

func c05Value(v []byte) string {
	if v == nil {
		return "!nil"
	}
	out, _, err := dvid.DeserializeData(v, true)
	if err != nil {
		return "!undeserializable:" + hex.EncodeToString(v)
	}
	return string(out)
}

func c05TKey(endpoints []string, i int) (storage.TKey, error) {
	switch {
	case i == -1:
		return keyvalue.MinTKey, nil
	case i == -2:
		return keyvalue.MaxTKey, nil
	case i >= 0 && i < len(endpoints):
		return keyvalue.NewTKey(endpoints[i])
	}
	return nil, fmt.Errorf("bad endpoint index %d", i)
}

func init() {
	APIs["c05.sweep"] = func(args json.RawMessage) (interface{}, error) {
		var a struct {
			c05Target
			Keys      []string `json:"keys"`
			Endpoints []string `json:"endpoints"`
			Pairs     [][2]int `json:"pairs"`
		}
		if err := json.Unmarshal(args, &a); err != nil {
			return nil, err
		}
		db, ctx, _, err := a.open()
		if err != nil {
			return nil, err
		}
		type out struct {
			Points map[string]c05Point   `json:"points"`
			Ranges []map[string]C05Range `json:"ranges"`
		}
		res := out{Points: map[string]c05Point{}}
		for _, k := range a.Keys {
			tk, err := keyvalue.NewTKey(k)
			if err != nil {
				return nil, err
			}
			v, err := db.Get(ctx, tk)
			switch {
			case err != nil:
				res.Points[k] = c05Point{Err: err.Error()}
			case v == nil:
				res.Points[k] = c05Point{}
			default:
				res.Points[k] = c05Point{Found: true, Val: c05Value(v)}
			}
		}
		for _, p := range a.Pairs {
			lo, err := c05TKey(a.Endpoints, p[0])
			if err != nil {
				return nil, err
			}
			hi, err := c05TKey(a.Endpoints, p[1])
			if err != nil {
				return nil, err
			}
			m := map[string]C05Range{}

			// GetRange
			{
				r := C05Range{Keys: []string{}, Vals: []string{}}
				tkvs, err := db.GetRange(ctx, lo, hi)
				if err != nil {
					r.Err = err.Error()
				}
				for _, tkv := range tkvs {
					if tkv == nil {
						r.Keys = append(r.Keys, "!nil-entry")
						r.Vals = append(r.Vals, "!nil")
						continue
					}
					r.Keys = append(r.Keys, c05DecodeKey(tkv.K))
					r.Vals = append(r.Vals, c05Value(tkv.V))
				}
				m["GetRange"] = r
			}
			// KeysInRange
			{
				r := C05Range{Keys: []string{}}
				tks, err := db.KeysInRange(ctx, lo, hi)
				if err != nil {
					r.Err = err.Error()
				}
				for _, tk := range tks {
					r.Keys = append(r.Keys, c05DecodeKey(tk))
				}
				m["KeysInRange"] = r
			}
			// SendKeysInRange: full storage keys down a channel, nil marks the end
			{
				r := C05Range{Keys: []string{}}
				kch := make(storage.KeyChan, 16)
				done := make(chan struct{})
				go func() {
					defer close(done)
					for k := range kch {
						if k == nil {
							return
						}
						tk, err := storage.TKeyFromKey(k)
						if err != nil {
							r.Keys = append(r.Keys, "!bad-key:"+hex.EncodeToString(k))
							continue
						}
						r.Keys = append(r.Keys, c05DecodeKey(tk))
					}
				}()
				err := db.SendKeysInRange(ctx, lo, hi, kch)
				select {
				case <-done:
				case <-time.After(20 * time.Second):
					// the documented end marker (nil key) never arrived
					r.Keys = append(r.Keys, "!no-end-marker")
					close(kch)
					<-done
				}
				if err != nil {
					r.Err = err.Error()
				}
				m["SendKeysInRange"] = r
			}
			// ProcessRange
			{
				r := C05Range{Keys: []string{}, Vals: []string{}}
				err := db.ProcessRange(ctx, lo, hi, &storage.ChunkOp{}, func(c *storage.Chunk) error {
					if c == nil || c.TKeyValue == nil {
						r.Keys = append(r.Keys, "!nil-chunk")
						r.Vals = append(r.Vals, "!nil")
						return nil
					}
					r.Keys = append(r.Keys, c05DecodeKey(c.K))
					r.Vals = append(r.Vals, c05Value(c.V))
					return nil
				})
				if err != nil {
					r.Err = err.Error()
				}
				m["ProcessRange"] = r
			}
			res.Ranges = append(res.Ranges, m)
		}
		return res, nil
	}

	// c05.instanceids {uuid, names:[..]} -> {name: local instance id}
	APIs["c05.instanceids"] = func(args json.RawMessage) (interface{}, error) {
		var a struct {
			UUID  string   `json:"uuid"`
			Names []string `json:"names"`
		}
		if err := json.Unmarshal(args, &a); err != nil {
			return nil, err
		}
		out := map[string]uint32{}
		for _, n := range a.Names {
			data, err := datastore.GetDataByUUIDName(dvid.UUID(a.UUID), dvid.InstanceName(n))
			if err != nil {
				return nil, err
			}
			out[n] = uint32(data.InstanceID())
		}
		return out, nil
	}

	APIs["c05.deleterange"] = func(args json.RawMessage) (interface{}, error) {
		var a struct {
			c05Target
			Lo    string `json:"lo"`
			Hi    string `json:"hi"`
			LoMin bool   `json:"lomin"`
			HiMax bool   `json:"himax"`
		}
		if err := json.Unmarshal(args, &a); err != nil {
			return nil, err
		}
		db, ctx, _, err := a.open()
		if err != nil {
			return nil, err
		}
		lo, hi := keyvalue.MinTKey, keyvalue.MaxTKey
		if !a.LoMin {
			if lo, err = keyvalue.NewTKey(a.Lo); err != nil {
				return nil, err
			}
		}
		if !a.HiMax {
			if hi, err = keyvalue.NewTKey(a.Hi); err != nil {
				return nil, err
			}
		}
		if err := db.DeleteRange(ctx, lo, hi); err != nil {
			return map[string]string{"err": err.Error()}, nil
		}
		return map[string]string{"err": ""}, nil
	}

	APIs["c05.put"] = func(args json.RawMessage) (interface{}, error) {
		var a struct {
			c05Target
			Key string `json:"key"`
			Val string `json:"val"`
		}
		if err := json.Unmarshal(args, &a); err != nil {
			return nil, err
		}
		db, ctx, data, err := a.open()
		if err != nil {
			return nil, err
		}
		kd, ok := data.(*keyvalue.Data)
		if !ok {
			return nil, fmt.Errorf("%q is not a keyvalue instance", a.Name)
		}
		_ = db
		return nil, kd.PutData(ctx, a.Key, []byte(a.Val))
	}

	APIs["c05.del"] = func(args json.RawMessage) (interface{}, error) {
		var a struct {
			c05Target
			Key string `json:"key"`
		}
		if err := json.Unmarshal(args, &a); err != nil {
			return nil, err
		}
		db, ctx, _, err := a.open()
		if err != nil {
			return nil, err
		}
		tk, err := keyvalue.NewTKey(a.Key)
		if err != nil {
			return nil, err
		}
		return nil, db.Delete(ctx, tk)
	}
}
