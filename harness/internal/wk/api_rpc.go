package wk

import (
	"encoding/json"
	"fmt"

	"github.com/janelia-flyem/dvid/datastore"
	"github.com/janelia-flyem/dvid/dvid"
)

// Mirrors of the RPC-only repo commands of server/rpc.go (same exported datastore calls, same order).
func init() {
	type a struct {
		UUID     string `json:"uuid"`
		Name     string `json:"name"`
		NewName  string `json:"newname"`
		Passcode string `json:"passcode"`
	}
	parse := func(args json.RawMessage) (a, dvid.UUID, error) {
		var x a
		if err := json.Unmarshal(args, &x); err != nil {
			return x, "", err
		}
		u, _, err := datastore.MatchingUUID(x.UUID)
		return x, u, err
	}
	// "repos delete <uuid> <passcode>"
	APIs["rpc.repo_delete"] = func(args json.RawMessage) (interface{}, error) {
		x, u, err := parse(args)
		if err != nil {
			return nil, err
		}
		return nil, datastore.DeleteRepo(u, x.Passcode)
	}
	// "repo <uuid> rename <old> <new> <passcode>"
	APIs["rpc.data_rename"] = func(args json.RawMessage) (interface{}, error) {
		x, u, err := parse(args)
		if err != nil {
			return nil, err
		}
		if _, err = datastore.GetDataByUUIDName(u, dvid.InstanceName(x.Name)); err != nil {
			return nil, fmt.Errorf("Error trying to rename %q for UUID %s: %v", x.Name, u, err)
		}
		return nil, datastore.RenameData(u, dvid.InstanceName(x.Name), dvid.InstanceName(x.NewName), x.Passcode)
	}
	// "repo <uuid> delete <name|datauuid> <passcode>"
	APIs["rpc.data_delete"] = func(args json.RawMessage) (interface{}, error) {
		x, u, err := parse(args)
		if err != nil {
			return nil, err
		}
		if err = datastore.DeleteDataByDataUUID(dvid.UUID(x.Name), x.Passcode); err != nil {
			err = datastore.DeleteDataByName(u, dvid.InstanceName(x.Name), x.Passcode)
		}
		return nil, err
	}
}
