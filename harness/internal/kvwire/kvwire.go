// Package kvwire holds driver-side decoders for the wire formats of the keyvalue REST API
// (protobuf KeyValues / Keys, tar, JSON object with preserved member order).  It imports nothing
// from /repo: the protobuf wire format of
//
//	message KeyValue  { string key = 1; bytes value = 2; }
//	message KeyValues { repeated KeyValue kvs = 1; }
//	message Keys      { repeated string keys = 1; }
//
// is decoded by hand so that the decoder is independent of the code under observation.
package kvwire

import (
	"archive/tar"
	"bytes"
	"encoding/json"
	"fmt"
	"io"
)

// KV is one decoded pair, in the order it appeared in the response.
type KV struct {
	K string
	V []byte
}

func uvarint(b []byte) (uint64, int, error) {
	var x uint64
	var s uint
	for i := 0; i < len(b); i++ {
		c := b[i]
		if i == 10 {
			return 0, 0, fmt.Errorf("varint too long")
		}
		if c < 0x80 {
			return x | uint64(c)<<s, i + 1, nil
		}
		x |= uint64(c&0x7f) << s
		s += 7
	}
	return 0, 0, fmt.Errorf("truncated varint")
}

func putUvarint(buf *bytes.Buffer, x uint64) {
	for x >= 0x80 {
		buf.WriteByte(byte(x) | 0x80)
		x >>= 7
	}
	buf.WriteByte(byte(x))
}

// fields iterates over the (field number, wire type, payload) triples of one message.
func fields(b []byte, f func(num int, wt int, payload []byte, v uint64) error) error {
	for len(b) > 0 {
		tag, n, err := uvarint(b)
		if err != nil {
			return err
		}
		b = b[n:]
		num, wt := int(tag>>3), int(tag&7)
		switch wt {
		case 0:
			v, n, err := uvarint(b)
			if err != nil {
				return err
			}
			b = b[n:]
			if err := f(num, wt, nil, v); err != nil {
				return err
			}
		case 1:
			if len(b) < 8 {
				return fmt.Errorf("truncated fixed64")
			}
			b = b[8:]
		case 5:
			if len(b) < 4 {
				return fmt.Errorf("truncated fixed32")
			}
			b = b[4:]
		case 2:
			l, n, err := uvarint(b)
			if err != nil {
				return err
			}
			b = b[n:]
			if uint64(len(b)) < l {
				return fmt.Errorf("length-delimited field %d: need %d bytes, have %d", num, l, len(b))
			}
			if err := f(num, wt, b[:l], 0); err != nil {
				return err
			}
			b = b[l:]
		default:
			return fmt.Errorf("unsupported wire type %d for field %d", wt, num)
		}
	}
	return nil
}

// DecodeKeyValues decodes a serialized KeyValues message.
func DecodeKeyValues(b []byte) ([]KV, error) {
	var out []KV
	err := fields(b, func(num, wt int, p []byte, _ uint64) error {
		if num != 1 || wt != 2 {
			return fmt.Errorf("KeyValues: unexpected field %d wire type %d", num, wt)
		}
		var kv KV
		kv.V = []byte{}
		if err := fields(p, func(n2, w2 int, p2 []byte, _ uint64) error {
			if w2 != 2 {
				return fmt.Errorf("KeyValue: unexpected wire type %d for field %d", w2, n2)
			}
			switch n2 {
			case 1:
				kv.K = string(p2)
			case 2:
				kv.V = append([]byte{}, p2...)
			default:
				return fmt.Errorf("KeyValue: unexpected field %d", n2)
			}
			return nil
		}); err != nil {
			return err
		}
		out = append(out, kv)
		return nil
	})
	return out, err
}

// EncodeKeys serializes a Keys message.
func EncodeKeys(keys []string) []byte {
	var buf bytes.Buffer
	for _, k := range keys {
		buf.WriteByte(1<<3 | 2)
		putUvarint(&buf, uint64(len(k)))
		buf.WriteString(k)
	}
	return buf.Bytes()
}

// EncodeKeyValues serializes a KeyValues message (used for POST keyvalues).
func EncodeKeyValues(kvs []KV) []byte {
	var buf bytes.Buffer
	for _, kv := range kvs {
		var in bytes.Buffer
		in.WriteByte(1<<3 | 2)
		putUvarint(&in, uint64(len(kv.K)))
		in.WriteString(kv.K)
		in.WriteByte(2<<3 | 2)
		putUvarint(&in, uint64(len(kv.V)))
		in.Write(kv.V)
		buf.WriteByte(1<<3 | 2)
		putUvarint(&buf, uint64(in.Len()))
		buf.Write(in.Bytes())
	}
	return buf.Bytes()
}

// DecodeTar lists the entries of a tar stream in order and checks that the stream is a COMPLETE archive:
// every entry padded to 512 bytes and the two zero blocks of the end-of-archive marker present.
// (archive/tar alone tolerates a stream that stops after the last entry's data and silently eats
// whatever follows as "padding" — exactly the shape of a response whose producer failed half way.)
// Bytes after the end marker are returned as trailing; a missing marker or a cut entry is an error.
// Entries of non-ASCII names come with a PAX extended header, which archive/tar folds into the entry.
func DecodeTar(b []byte) (kvs []KV, trailing []byte, err error) {
	rd := bytes.NewReader(b)
	tr := tar.NewReader(rd)
	expected := 0
	for {
		h, e := tr.Next()
		if e == io.EOF {
			break
		}
		if e != nil {
			return kvs, nil, e
		}
		if h.Typeflag != tar.TypeReg && h.Typeflag != 0 {
			return kvs, nil, fmt.Errorf("unexpected tar entry type %q for %q", h.Typeflag, h.Name)
		}
		v, e := io.ReadAll(tr)
		if e != nil {
			return kvs, nil, e
		}
		if int64(len(v)) != h.Size {
			return kvs, nil, fmt.Errorf("tar entry %q: header says %d bytes, stream has %d", h.Name, h.Size, len(v))
		}
		kvs = append(kvs, KV{K: h.Name, V: v})
		// where this entry ends in the stream: headers (a PAX extended header precedes the entry of a non-ASCII name)
		// plus data, padded to the block size; archive/tar reads unbuffered, so the reader position is exact
		expected = (len(b) - rd.Len() + 511) / 512 * 512
	}
	if len(b) < expected+1024 {
		return kvs, nil, fmt.Errorf("incomplete tar archive: %d entries need %d bytes plus a 1024-byte end marker, stream has %d bytes (tail %q)", len(kvs), expected, len(b), tail(b, expected))
	}
	for _, c := range b[expected : expected+1024] {
		if c != 0 {
			return kvs, nil, fmt.Errorf("tar end-of-archive marker missing after %d entries (found %q)", len(kvs), tail(b, expected))
		}
	}
	return kvs, bytes.TrimLeft(b[expected+1024:], "\x00"), nil
}

func tail(b []byte, from int) string {
	if from > len(b) {
		from = len(b)
	}
	t := b[from:]
	if len(t) > 120 {
		t = t[:120]
	}
	return string(t)
}

// DecodeJSONObject decodes {"k":<json>, ...} keeping member order and duplicates; values are the raw
// JSON texts.  Anything after the closing brace is returned as trailing.
func DecodeJSONObject(b []byte) (kvs []KV, trailing []byte, err error) {
	dec := json.NewDecoder(bytes.NewReader(b))
	t, err := dec.Token()
	if err != nil {
		return nil, nil, err
	}
	if d, ok := t.(json.Delim); !ok || d != '{' {
		return nil, nil, fmt.Errorf("expected '{', got %v", t)
	}
	for dec.More() {
		kt, err := dec.Token()
		if err != nil {
			return kvs, nil, err
		}
		k, ok := kt.(string)
		if !ok {
			return kvs, nil, fmt.Errorf("expected member name, got %v", kt)
		}
		var raw json.RawMessage
		if err := dec.Decode(&raw); err != nil {
			return kvs, nil, err
		}
		kvs = append(kvs, KV{K: k, V: []byte(raw)})
	}
	if _, err := dec.Token(); err != nil {
		return kvs, nil, err
	}
	rest, _ := io.ReadAll(dec.Buffered())
	off := dec.InputOffset()
	if int(off) < len(b) {
		rest = b[off:]
	}
	return kvs, bytes.TrimSpace(rest), nil
}

// DecodeJSONStrings decodes a JSON array of strings.
func DecodeJSONStrings(b []byte) ([]string, error) {
	var out []string
	if err := json.Unmarshal(b, &out); err != nil {
		return nil, err
	}
	return out, nil
}
