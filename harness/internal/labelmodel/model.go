// Package labelmodel is the driver-side reference model of one labelmap instance at one version:
// a dense supervoxel volume plus the supervoxel -> body mapping.  Operations are defined voxel-wise
// and every derived view is recomputed by a brute-force scan.  It imports nothing from /repo.
//
// One State exists per DAG node; a child starts as Clone() of its parent.
package labelmodel

import (
	"fmt"
	"sort"
)

// Geom is the block grid the model covers: NB blocks of BS^3 voxels starting at block Org
// (Org may be negative).
type Geom struct {
	BS  int
	Org [3]int
	NB  [3]int
}

func (g *Geom) Dim() [3]int    { return [3]int{g.NB[0] * g.BS, g.NB[1] * g.BS, g.NB[2] * g.BS} }
func (g *Geom) NVox() int      { d := g.Dim(); return d[0] * d[1] * d[2] }
func (g *Geom) VoxOrg() [3]int { return [3]int{g.Org[0] * g.BS, g.Org[1] * g.BS, g.Org[2] * g.BS} }

// Idx maps an absolute voxel coordinate to the dense index, or -1 when outside the grid.
func (g *Geom) Idx(x, y, z int) int {
	o := g.VoxOrg()
	d := g.Dim()
	x -= o[0]
	y -= o[1]
	z -= o[2]
	if x < 0 || y < 0 || z < 0 || x >= d[0] || y >= d[1] || z >= d[2] {
		return -1
	}
	return (z*d[1]+y)*d[0] + x
}

// Coord is the inverse of Idx.
func (g *Geom) Coord(i int) (x, y, z int) {
	o := g.VoxOrg()
	d := g.Dim()
	x = i%d[0] + o[0]
	y = (i/d[0])%d[1] + o[1]
	z = i/(d[0]*d[1]) + o[2]
	return
}

func floorDiv(a, b int) int {
	q := a / b
	if a%b != 0 && (a < 0) != (b < 0) {
		q--
	}
	return q
}

// BlockOf returns the block coordinate containing an absolute voxel coordinate.
func (g *Geom) BlockOf(x, y, z int) [3]int {
	return [3]int{floorDiv(x, g.BS), floorDiv(y, g.BS), floorDiv(z, g.BS)}
}

// Blocks lists every block coordinate of the grid in z,y,x order.
func (g *Geom) Blocks() [][3]int {
	var out [][3]int
	for z := 0; z < g.NB[2]; z++ {
		for y := 0; y < g.NB[1]; y++ {
			for x := 0; x < g.NB[0]; x++ {
				out = append(out, [3]int{g.Org[0] + x, g.Org[1] + y, g.Org[2] + z})
			}
		}
	}
	return out
}

// Run is a run of N voxels along x starting at (X,Y,Z) (absolute voxel coordinates).
type Run struct{ X, Y, Z, N int }

// State is the model of one version.
type State struct {
	G        *Geom
	SV       []uint64          // supervoxel per voxel, 0 = background
	Has      map[[3]int]bool   // blocks written at this version or an ancestor
	Map      map[uint64]uint64 // supervoxel -> body where it differs from the identity
	SplitSV  map[uint64]bool   // supervoxels retired by a split (they map to 0)
	BodyOnly map[uint64]bool   // ids that only ever named bodies (cleave / renumber / split targets)
	Seen     map[uint64]bool   // every label this lineage has seen
}

func New(g *Geom) *State {
	return &State{G: g, SV: make([]uint64, g.NVox()), Has: map[[3]int]bool{}, Map: map[uint64]uint64{},
		SplitSV: map[uint64]bool{}, BodyOnly: map[uint64]bool{}, Seen: map[uint64]bool{}}
}

func (s *State) Clone() *State {
	c := &State{G: s.G, SV: append([]uint64(nil), s.SV...), Has: map[[3]int]bool{}, Map: map[uint64]uint64{},
		SplitSV: map[uint64]bool{}, BodyOnly: map[uint64]bool{}, Seen: map[uint64]bool{}}
	for k, v := range s.Has {
		c.Has[k] = v
	}
	for k, v := range s.Map {
		c.Map[k] = v
	}
	for k, v := range s.SplitSV {
		c.SplitSV[k] = v
	}
	for k, v := range s.BodyOnly {
		c.BodyOnly[k] = v
	}
	for k, v := range s.Seen {
		c.Seen[k] = v
	}
	return c
}

// Body returns the body a supervoxel belongs to at this version.
func (s *State) Body(sv uint64) uint64 {
	if sv == 0 {
		return 0
	}
	if b, ok := s.Map[sv]; ok {
		return b
	}
	return sv
}

// ---------------------------------------------------------------- operations

// WriteBox stores data (x fastest) into the box at voxel offset off with the given size; off and size
// must be block aligned.  Ingest and mutate are the same voxel-wise operation.
func (s *State) WriteBox(off, size [3]int, data []uint64) error {
	bs := s.G.BS
	for k := 0; k < 3; k++ {
		if off[k]%bs != 0 || size[k]%bs != 0 || size[k] <= 0 {
			return fmt.Errorf("box off=%v size=%v not aligned to %d", off, size, bs)
		}
	}
	if len(data) != size[0]*size[1]*size[2] {
		return fmt.Errorf("data has %d voxels, box %v needs %d", len(data), size, size[0]*size[1]*size[2])
	}
	i := 0
	for z := 0; z < size[2]; z++ {
		for y := 0; y < size[1]; y++ {
			base := s.G.Idx(off[0], off[1]+y, off[2]+z)
			if base < 0 || s.G.Idx(off[0]+size[0]-1, off[1]+y, off[2]+z) < 0 {
				return fmt.Errorf("box off=%v size=%v leaves the model grid", off, size)
			}
			for x := 0; x < size[0]; x++ {
				l := data[i]
				s.SV[base+x] = l
				if l != 0 {
					s.Seen[l] = true
				}
				i++
			}
		}
	}
	for z := 0; z < size[2]; z += bs {
		for y := 0; y < size[1]; y += bs {
			for x := 0; x < size[0]; x += bs {
				s.Has[s.G.BlockOf(off[0]+x, off[1]+y, off[2]+z)] = true
			}
		}
	}
	return nil
}

// ReadBox extracts the supervoxels of a box (x fastest).
func (s *State) ReadBox(off, size [3]int) []uint64 {
	out := make([]uint64, 0, size[0]*size[1]*size[2])
	for z := 0; z < size[2]; z++ {
		for y := 0; y < size[1]; y++ {
			for x := 0; x < size[0]; x++ {
				i := s.G.Idx(off[0]+x, off[1]+y, off[2]+z)
				if i < 0 {
					out = append(out, 0)
				} else {
					out = append(out, s.SV[i])
				}
			}
		}
	}
	return out
}

// liveSVs returns the supervoxels that currently have voxels.
func (s *State) liveSVs() map[uint64]int {
	m := map[uint64]int{}
	for _, l := range s.SV {
		if l != 0 {
			m[l]++
		}
	}
	return m
}

// Merge moves every supervoxel of the merged bodies into target.
func (s *State) Merge(target uint64, merged []uint64) {
	ms := map[uint64]bool{}
	for _, m := range merged {
		ms[m] = true
	}
	for sv := range s.liveSVs() {
		if ms[s.Body(sv)] {
			s.setBody(sv, target)
		}
	}
	// stale (voxel-less) supervoxels that were mapped to a merged body follow it as well; they have no
	// observable voxels, the entry only keeps Body() total.
	for sv, b := range s.Map {
		if ms[b] {
			s.setBody(sv, target)
		}
	}
	s.Seen[target] = true
}

func (s *State) setBody(sv, body uint64) {
	if sv == body {
		delete(s.Map, sv)
	} else {
		s.Map[sv] = body
	}
}

// Assign maps the given supervoxels to an existing body (POST mappings).
func (s *State) Assign(svs []uint64, body uint64) {
	for _, sv := range svs {
		s.setBody(sv, body)
		s.Seen[sv] = true
	}
	s.Seen[body] = true
}

// Cleave moves the given supervoxels out of their body into newLabel.
func (s *State) Cleave(svs []uint64, newLabel uint64) {
	for _, sv := range svs {
		s.setBody(sv, newLabel)
	}
	s.BodyOnly[newLabel] = true
	s.Seen[newLabel] = true
}

// Renumber gives body old the id new.
func (s *State) Renumber(old, new uint64) {
	for sv := range s.liveSVs() {
		if s.Body(sv) == old {
			s.setBody(sv, new)
		}
	}
	for sv, b := range s.Map {
		if b == old {
			s.setBody(sv, new)
		}
	}
	s.BodyOnly[new] = true
	s.Seen[new] = true
}

// SplitSupervoxel relabels the voxels of sv under the runs to split and all its other voxels to remain;
// both stay in sv's body and sv is retired.  Run voxels that do not belong to sv are ignored.
func (s *State) SplitSupervoxel(sv uint64, runs []Run, split, remain uint64) (nsplit, nremain int) {
	body := s.Body(sv)
	for _, r := range runs {
		for k := 0; k < r.N; k++ {
			i := s.G.Idx(r.X+k, r.Y, r.Z)
			if i >= 0 && s.SV[i] == sv {
				s.SV[i] = split
				nsplit++
			}
		}
	}
	for i, l := range s.SV {
		if l == sv {
			s.SV[i] = remain
			nremain++
		}
	}
	delete(s.Map, sv)
	s.SplitSV[sv] = true
	s.setBody(split, body)
	s.setBody(remain, body)
	s.Seen[split] = true
	s.Seen[remain] = true
	return
}

// SVSplit names the two successors of a supervoxel cut by a body split.
type SVSplit struct{ Old, Remain, Split uint64 }

// SplitBody moves the voxels under the runs into newBody.  Every supervoxel touched by the runs is
// retired: its voxels under the runs become Split (in newBody), its other voxels Remain (in body).
func (s *State) SplitBody(body uint64, runs []Run, newBody uint64, svs []SVSplit) {
	by := map[uint64]SVSplit{}
	for _, t := range svs {
		by[t.Old] = t
	}
	for _, r := range runs {
		for k := 0; k < r.N; k++ {
			i := s.G.Idx(r.X+k, r.Y, r.Z)
			if i < 0 {
				continue
			}
			if t, ok := by[s.SV[i]]; ok {
				s.SV[i] = t.Split
			}
		}
	}
	for i, l := range s.SV {
		if t, ok := by[l]; ok {
			s.SV[i] = t.Remain
		}
	}
	for _, t := range svs {
		delete(s.Map, t.Old)
		s.SplitSV[t.Old] = true
		s.setBody(t.Split, newBody)
		s.setBody(t.Remain, body)
		s.Seen[t.Split] = true
		s.Seen[t.Remain] = true
	}
	s.BodyOnly[newBody] = true
	s.Seen[newBody] = true
}

// ---------------------------------------------------------------- brute-force views

// Scan is everything one pass over the voxels yields.
type Scan struct {
	NonZero  int
	SVSize   map[uint64]int
	SVBody   map[uint64]uint64
	BodySize map[uint64]int
	BodySVs  map[uint64]map[uint64]int            // body -> supervoxel -> voxels
	Index    map[uint64]map[[3]int]map[uint64]int // body -> block -> supervoxel -> voxels
	SVBlocks map[uint64]map[[3]int]int            // supervoxel -> block -> voxels
}

func (s *State) Scan() *Scan {
	sc := &Scan{SVSize: map[uint64]int{}, SVBody: map[uint64]uint64{}, BodySize: map[uint64]int{},
		BodySVs: map[uint64]map[uint64]int{}, Index: map[uint64]map[[3]int]map[uint64]int{}, SVBlocks: map[uint64]map[[3]int]int{}}
	d := s.G.Dim()
	bs := s.G.BS
	i := 0
	for z := 0; z < d[2]; z++ {
		for y := 0; y < d[1]; y++ {
			for x := 0; x < d[0]; x++ {
				l := s.SV[i]
				i++
				if l == 0 {
					continue
				}
				sc.NonZero++
				b := s.Body(l)
				blk := [3]int{s.G.Org[0] + x/bs, s.G.Org[1] + y/bs, s.G.Org[2] + z/bs}
				sc.SVSize[l]++
				sc.SVBody[l] = b
				sc.BodySize[b]++
				if sc.BodySVs[b] == nil {
					sc.BodySVs[b] = map[uint64]int{}
					sc.Index[b] = map[[3]int]map[uint64]int{}
				}
				sc.BodySVs[b][l]++
				if sc.Index[b][blk] == nil {
					sc.Index[b][blk] = map[uint64]int{}
				}
				sc.Index[b][blk][l]++
				if sc.SVBlocks[l] == nil {
					sc.SVBlocks[l] = map[[3]int]int{}
				}
				sc.SVBlocks[l][blk]++
			}
		}
	}
	return sc
}

// Bodies returns the sorted ids of bodies that have voxels.
func (sc *Scan) Bodies() []uint64 {
	out := make([]uint64, 0, len(sc.BodySize))
	for b := range sc.BodySize {
		out = append(out, b)
	}
	sort.Slice(out, func(i, j int) bool { return out[i] < out[j] })
	return out
}

func (sc *Scan) SVs() []uint64 {
	out := make([]uint64, 0, len(sc.SVSize))
	for b := range sc.SVSize {
		out = append(out, b)
	}
	sort.Slice(out, func(i, j int) bool { return out[i] < out[j] })
	return out
}

// BodyVolume is the mapped (body id per voxel) volume.
func (s *State) BodyVolume() []uint64 {
	out := make([]uint64, len(s.SV))
	cache := map[uint64]uint64{}
	for i, l := range s.SV {
		if l == 0 {
			continue
		}
		b, ok := cache[l]
		if !ok {
			b = s.Body(l)
			cache[l] = b
		}
		out[i] = b
	}
	return out
}

// Bounds are optional inclusive voxel bounds.
type Bounds struct {
	Min, Max [3]*int
}

func (b *Bounds) In(x, y, z int) bool {
	c := [3]int{x, y, z}
	for k := 0; k < 3; k++ {
		if b.Min[k] != nil && c[k] < *b.Min[k] {
			return false
		}
		if b.Max[k] != nil && c[k] > *b.Max[k] {
			return false
		}
	}
	return true
}

func (b *Bounds) IsSet() bool {
	for k := 0; k < 3; k++ {
		if b.Min[k] != nil || b.Max[k] != nil {
			return true
		}
	}
	return false
}

// Mask marks the voxels of a body (or of a supervoxel when isSV) inside the optional bounds.
func (s *State) Mask(label uint64, isSV bool, b *Bounds) (mask []bool, n int) {
	mask = make([]bool, len(s.SV))
	for i, l := range s.SV {
		if l == 0 {
			continue
		}
		if isSV {
			if l != label {
				continue
			}
		} else if s.Body(l) != label {
			continue
		}
		if b != nil && b.IsSet() {
			x, y, z := s.G.Coord(i)
			if !b.In(x, y, z) {
				continue
			}
		}
		mask[i] = true
		n++
	}
	return
}

// LabelAt returns the body (or supervoxel) at an absolute voxel coordinate; 0 outside the grid.
func (s *State) LabelAt(x, y, z int, supervoxel bool) uint64 {
	i := s.G.Idx(x, y, z)
	if i < 0 {
		return 0
	}
	if supervoxel {
		return s.SV[i]
	}
	return s.Body(s.SV[i])
}

// MaxLabel is the largest label present (as supervoxel or body) at this version.
func (sc *Scan) MaxLabel() uint64 {
	var m uint64
	for l := range sc.SVSize {
		if l > m {
			m = l
		}
	}
	for l := range sc.BodySize {
		if l > m {
			m = l
		}
	}
	return m
}

// ---------------------------------------------------------------- down-sampling (C14)

// Vote is the documented down-sampling rule over 8 child voxels: the most frequent non-zero label,
// ties to the smaller label, all zero gives zero.
func Vote(c [8]uint64) uint64 {
	var best uint64
	bestN := 0
	for i := 0; i < 8; i++ {
		l := c[i]
		if l == 0 {
			continue
		}
		n := 0
		for j := 0; j < 8; j++ {
			if c[j] == l {
				n++
			}
		}
		if n > bestN || n == bestN && l < best {
			best, bestN = l, n
		}
	}
	return best
}

// Downres halves a volume of dimensions dim (all even) with Vote.
func Downres(v []uint64, dim [3]int) ([]uint64, [3]int) {
	nd := [3]int{dim[0] / 2, dim[1] / 2, dim[2] / 2}
	out := make([]uint64, nd[0]*nd[1]*nd[2])
	for z := 0; z < nd[2]; z++ {
		for y := 0; y < nd[1]; y++ {
			for x := 0; x < nd[0]; x++ {
				var c [8]uint64
				k := 0
				for dz := 0; dz < 2; dz++ {
					for dy := 0; dy < 2; dy++ {
						for dx := 0; dx < 2; dx++ {
							c[k] = v[((2*z+dz)*dim[1]+2*y+dy)*dim[0]+2*x+dx]
							k++
						}
					}
				}
				out[(z*nd[1]+y)*nd[0]+x] = Vote(c)
			}
		}
	}
	return out, nd
}
