package imgmodel

import (
	"bytes"
	"encoding/binary"
	"fmt"
	"image"
	"image/png"
)

// StreamBlock is one record of the subvolblocks / specificblocks stream:
// int32 x, int32 y, int32 z, int32 n (little endian), n bytes.
type StreamBlock struct {
	BC   P3
	Data []byte
}

// DecodeBlockStream parses the documented block stream format.
func DecodeBlockStream(b []byte) ([]StreamBlock, error) {
	var out []StreamBlock
	pos := 0
	for pos < len(b) {
		if len(b)-pos < 16 {
			return out, fmt.Errorf("truncated block header at byte %d of %d", pos, len(b))
		}
		x := int(int32(binary.LittleEndian.Uint32(b[pos:])))
		y := int(int32(binary.LittleEndian.Uint32(b[pos+4:])))
		z := int(int32(binary.LittleEndian.Uint32(b[pos+8:])))
		n := int(int32(binary.LittleEndian.Uint32(b[pos+12:])))
		pos += 16
		if n < 0 || len(b)-pos < n {
			return out, fmt.Errorf("block %d,%d,%d announces %d bytes, %d remain", x, y, z, n, len(b)-pos)
		}
		out = append(out, StreamBlock{BC: P3{x, y, z}, Data: b[pos : pos+n]})
		pos += n
	}
	return out, nil
}

// DecodePNG turns the PNG of a 2-D imageblk read back into voxel bytes (row-major, BPV bytes per pixel),
// inverting the documented packing:
//
//	1 byte/voxel  -> 8-bit gray
//	2 bytes/voxel -> 16-bit gray (PNG is big endian; voxels are little endian)
//	4 bytes/voxel -> the four bytes as non-premultiplied R,G,B,A (rgba8, and "little-endian four byte format written as RGBA")
//	8 bytes/voxel -> the eight bytes as 16-bit non-premultiplied R,G,B,A samples in stream order
//
// kind names the pixel format that was found (for the evidence).
func DecodePNG(b []byte, bpv int) (data []byte, w, h int, kind string, err error) {
	img, err := png.Decode(bytes.NewReader(b))
	if err != nil {
		return nil, 0, 0, "", err
	}
	r := img.Bounds()
	w, h = r.Dx(), r.Dy()
	data = make([]byte, 0, w*h*bpv)
	kind = fmt.Sprintf("%T", img)
	switch bpv {
	case 1:
		g, ok := img.(*image.Gray)
		if !ok {
			return nil, w, h, kind, fmt.Errorf("1 byte/voxel slice came back as %T, expected 8-bit gray", img)
		}
		for y := r.Min.Y; y < r.Max.Y; y++ {
			for x := r.Min.X; x < r.Max.X; x++ {
				data = append(data, g.GrayAt(x, y).Y)
			}
		}
	case 2:
		g, ok := img.(*image.Gray16)
		if !ok {
			return nil, w, h, kind, fmt.Errorf("2 bytes/voxel slice came back as %T, expected 16-bit gray", img)
		}
		for y := r.Min.Y; y < r.Max.Y; y++ {
			for x := r.Min.X; x < r.Max.X; x++ {
				v := g.Gray16At(x, y).Y
				data = append(data, byte(v), byte(v>>8))
			}
		}
	case 4:
		switch m := img.(type) {
		case *image.NRGBA:
			for y := r.Min.Y; y < r.Max.Y; y++ {
				for x := r.Min.X; x < r.Max.X; x++ {
					c := m.NRGBAAt(x, y)
					data = append(data, c.R, c.G, c.B, c.A)
				}
			}
		case *image.RGBA: // fully opaque images are stored without alpha; alpha is 255 everywhere
			for y := r.Min.Y; y < r.Max.Y; y++ {
				for x := r.Min.X; x < r.Max.X; x++ {
					c := m.RGBAAt(x, y)
					if c.A != 255 {
						return nil, w, h, kind, fmt.Errorf("premultiplied RGBA with alpha %d cannot be inverted", c.A)
					}
					data = append(data, c.R, c.G, c.B, c.A)
				}
			}
		default:
			return nil, w, h, kind, fmt.Errorf("4 bytes/voxel slice came back as %T", img)
		}
	case 8:
		switch m := img.(type) {
		case *image.NRGBA64:
			for y := r.Min.Y; y < r.Max.Y; y++ {
				for x := r.Min.X; x < r.Max.X; x++ {
					c := m.NRGBA64At(x, y)
					data = append(data, byte(c.R>>8), byte(c.R), byte(c.G>>8), byte(c.G), byte(c.B>>8), byte(c.B), byte(c.A>>8), byte(c.A))
				}
			}
		case *image.RGBA64:
			for y := r.Min.Y; y < r.Max.Y; y++ {
				for x := r.Min.X; x < r.Max.X; x++ {
					c := m.RGBA64At(x, y)
					if c.A != 0xffff {
						return nil, w, h, kind, fmt.Errorf("premultiplied RGBA64 with alpha %d cannot be inverted", c.A)
					}
					data = append(data, byte(c.R>>8), byte(c.R), byte(c.G>>8), byte(c.G), byte(c.B>>8), byte(c.B), byte(c.A>>8), byte(c.A))
				}
			}
		default:
			return nil, w, h, kind, fmt.Errorf("8 bytes/voxel slice came back as %T", img)
		}
	default:
		return nil, w, h, kind, fmt.Errorf("no 2-D decoding for %d bytes/voxel", bpv)
	}
	return data, w, h, kind, nil
}

// FirstDiffLinear describes the first differing element of two row-major payloads of width w.
func FirstDiffLinear(exp, got []byte, bpv, w int) string {
	if len(exp) != len(got) {
		return fmt.Sprintf("payload length %d, expected %d", len(got), len(exp))
	}
	n, first := 0, -1
	for i := 0; i+bpv <= len(exp); i += bpv {
		if !bytes.Equal(exp[i:i+bpv], got[i:i+bpv]) {
			if first < 0 {
				first = i / bpv
			}
			n++
		}
	}
	if first < 0 {
		return ""
	}
	i := first * bpv
	return fmt.Sprintf("%d of %d elements differ; first at column %d row %d: expected %x got %x", n, len(exp)/bpv, first%w, first/w, exp[i:i+bpv], got[i:i+bpv])
}
