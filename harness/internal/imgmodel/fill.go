package imgmodel

// Unique voxel contents: every written block is filled with bytes derived from
// (seed, write sequence number, block coordinate, voxel index) so that a voxel that ends up at the
// wrong place, in the wrong block or at the wrong version is (with overwhelming probability) detected.

func mix64(x uint64) uint64 {
	x += 0x9E3779B97F4A7C15
	x = (x ^ (x >> 30)) * 0xBF58476D1CE4E5B9
	x = (x ^ (x >> 27)) * 0x94D049BB133111EB
	return x ^ (x >> 31)
}

// FillKind adjusts raw pseudo-random bytes to the voxel type.
type FillKind int

const (
	FillRaw     FillKind = iota // any bit pattern
	FillFloat32                 // little-endian float32, never NaN/Inf (exponent != 0xFF)
)

// FillBlock returns the content for one block write.
func (v *Vol) FillBlock(seed int64, seq int, bc P3, kind FillKind) []byte {
	n := v.BlockVoxels()
	out := make([]byte, n*v.BPV)
	base := mix64(uint64(seed)) ^ mix64(uint64(seq)*0x100000001B3+1) ^
		mix64(uint64(int64(bc[0]))*3+0x1111) ^ mix64(uint64(int64(bc[1]))*5+0x2222) ^ mix64(uint64(int64(bc[2]))*7+0x3333)
	for i := 0; i < n; i++ {
		h := mix64(base + uint64(i)*0x9E3779B97F4A7C15)
		o := i * v.BPV
		for k := 0; k < v.BPV; k++ {
			out[o+k] = byte(h >> (8 * uint(k%8)))
		}
		if kind == FillFloat32 && v.BPV == 4 {
			// exponent bits = bits 23..30 of the little-endian word
			if out[o+3]&0x7F == 0x7F && out[o+2]&0x80 == 0x80 {
				out[o+3] &^= 0x01
			}
		}
	}
	return out
}

// BoxFromBlocks assembles the ZYX payload of a block-aligned POST raw/0_1_2 covering nb blocks per axis
// starting at block coordinate b0, taking each block's content from get.
func (v *Vol) BoxFromBlocks(b0, nb P3, get func(bc P3) []byte) []byte {
	sx, sy, sz := nb[0]*v.BS[0], nb[1]*v.BS[1], nb[2]*v.BS[2]
	out := make([]byte, sx*sy*sz*v.BPV)
	for bz := 0; bz < nb[2]; bz++ {
		for by := 0; by < nb[1]; by++ {
			for bx := 0; bx < nb[0]; bx++ {
				blk := get(P3{b0[0] + bx, b0[1] + by, b0[2] + bz})
				for z := 0; z < v.BS[2]; z++ {
					for y := 0; y < v.BS[1]; y++ {
						src := ((z*v.BS[1] + y) * v.BS[0]) * v.BPV
						dst := (((bz*v.BS[2]+z)*sy+(by*v.BS[1]+y))*sx + bx*v.BS[0]) * v.BPV
						copy(out[dst:dst+v.BS[0]*v.BPV], blk[src:src+v.BS[0]*v.BPV])
					}
				}
			}
		}
	}
	return out
}
