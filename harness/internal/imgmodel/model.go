// Package imgmodel is the driver-side reference model of an imageblk volume (property C17).
//
// It is written from the property statement and the imageblk help text only and imports nothing
// from /repo: a sparse map block-coordinate -> voxel bytes per version, inherited along the
// version tree (nearest ancestor that wrote the block wins; imageblk has no block deletion),
// a background value for every voxel of a block that no ancestor wrote, and extents = the
// bounding box of the written blocks visible at a version.
//
// Geometry conventions (imageblk help): a block holds BS[0]*BS[1]*BS[2] voxels of BPV bytes, X
// fastest, then Y, then Z; block coordinate b covers voxels [b*BS, (b+1)*BS) per axis (floor
// division, so negative coordinates are legal); 3-D reads are ZYX arrays with X fastest.
package imgmodel

import (
	"fmt"
	"sort"
)

// P3 is an (x,y,z) triple: voxel coordinate, block coordinate or size.
type P3 [3]int

func (p P3) String() string { return fmt.Sprintf("%d_%d_%d", p[0], p[1], p[2]) }

// Comma renders "x,y,z".
func (p P3) Comma() string { return fmt.Sprintf("%d,%d,%d", p[0], p[1], p[2]) }

// FloorDiv is division rounding towards minus infinity (b > 0).
func FloorDiv(a, b int) int {
	q := a / b
	if a%b != 0 && (a < 0) != (b < 0) {
		q--
	}
	return q
}

// Mod is the non-negative remainder matching FloorDiv.
func Mod(a, b int) int { return a - FloorDiv(a, b)*b }

// Written is one stored block at one version.
type Written struct {
	Data   []byte
	Origin string // endpoint that wrote it ("raw", "raw-mutate", "raw-roi", "blocks", ...)
	Seq    int    // write sequence number (for witnesses)
}

// Vol is the model of one imageblk data instance across a version tree.
type Vol struct {
	BS         P3
	BPV        int  // bytes per voxel
	Background byte // only meaningful for BPV == 1 (see BackgroundBlock in the help text: "Integer value ... in any element")

	parent map[string]string
	order  []string
	blocks map[string]map[P3]*Written
}

func New(bs P3, bpv int, background byte, root string) *Vol {
	v := &Vol{BS: bs, BPV: bpv, Background: background, parent: map[string]string{}, blocks: map[string]map[P3]*Written{}}
	v.parent[root] = ""
	v.order = append(v.order, root)
	v.blocks[root] = map[P3]*Written{}
	return v
}

// AddVersion registers a child version (single parent: the workloads of C17 use version trees, no merges).
func (v *Vol) AddVersion(ver, parent string) {
	if _, ok := v.parent[parent]; !ok {
		panic("imgmodel: unknown parent " + parent)
	}
	v.parent[ver] = parent
	v.order = append(v.order, ver)
	v.blocks[ver] = map[P3]*Written{}
}

func (v *Vol) Versions() []string { return append([]string{}, v.order...) }

// Index returns the creation index of a version (stable short name).
func (v *Vol) Index(ver string) int {
	for i, x := range v.order {
		if x == ver {
			return i
		}
	}
	return -1
}

func (v *Vol) BlockVoxels() int { return v.BS[0] * v.BS[1] * v.BS[2] }
func (v *Vol) BlockBytes() int  { return v.BlockVoxels() * v.BPV }

// PutBlock records a whole-block write at a version.
func (v *Vol) PutBlock(ver string, bc P3, data []byte, origin string, seq int) {
	if len(data) != v.BlockBytes() {
		panic(fmt.Sprintf("imgmodel: block of %d bytes, want %d", len(data), v.BlockBytes()))
	}
	m, ok := v.blocks[ver]
	if !ok {
		panic("imgmodel: unknown version " + ver)
	}
	m[bc] = &Written{Data: append([]byte{}, data...), Origin: origin, Seq: seq}
}

// Block resolves a block at a version: the write at the nearest ancestor (reflexive) or nil.
func (v *Vol) Block(ver string, bc P3) *Written {
	for cur := ver; cur != ""; cur = v.parent[cur] {
		if w := v.blocks[cur][bc]; w != nil {
			return w
		}
	}
	return nil
}

// WrittenAt reports whether the block was written at exactly this version (not inherited).
func (v *Vol) WrittenAt(ver string, bc P3) bool { return v.blocks[ver][bc] != nil }

// Visible lists the block coordinates with data at a version, sorted (z, y, x).
func (v *Vol) Visible(ver string) []P3 {
	seen := map[P3]bool{}
	for cur := ver; cur != ""; cur = v.parent[cur] {
		for bc := range v.blocks[cur] {
			seen[bc] = true
		}
	}
	out := make([]P3, 0, len(seen))
	for bc := range seen {
		out = append(out, bc)
	}
	sort.Slice(out, func(i, j int) bool {
		a, b := out[i], out[j]
		if a[2] != b[2] {
			return a[2] < b[2]
		}
		if a[1] != b[1] {
			return a[1] < b[1]
		}
		return a[0] < b[0]
	})
	return out
}

// BackgroundBlock is the content of a block nobody wrote.
func (v *Vol) BackgroundBlock() []byte {
	b := make([]byte, v.BlockBytes())
	if v.Background != 0 && v.BPV == 1 {
		for i := range b {
			b[i] = v.Background
		}
	}
	return b
}

// BlockOrBackground returns the bytes a full-block read must yield.
func (v *Vol) BlockOrBackground(ver string, bc P3) []byte {
	if w := v.Block(ver, bc); w != nil {
		return w.Data
	}
	return v.BackgroundBlock()
}

// Voxel returns the BPV bytes of one voxel at a version (nil slice never returned).
func (v *Vol) Voxel(ver string, p P3) []byte {
	bc := P3{FloorDiv(p[0], v.BS[0]), FloorDiv(p[1], v.BS[1]), FloorDiv(p[2], v.BS[2])}
	w := v.Block(ver, bc)
	if w == nil {
		out := make([]byte, v.BPV)
		if v.BPV == 1 {
			out[0] = v.Background
		}
		return out
	}
	ix, iy, iz := Mod(p[0], v.BS[0]), Mod(p[1], v.BS[1]), Mod(p[2], v.BS[2])
	i := ((iz*v.BS[1]+iy)*v.BS[0] + ix) * v.BPV
	return w.Data[i : i+v.BPV]
}

// reader resolves voxels at one version with a per-request cache of block lookups
// (the index arithmetic stays voxel-by-voxel; only the ancestor walk is cached).
type reader struct {
	v     *Vol
	ver   string
	cache map[P3][]byte
}

func (v *Vol) newReader(ver string) *reader { return &reader{v: v, ver: ver, cache: map[P3][]byte{}} }

func (r *reader) voxel(p P3) []byte {
	v := r.v
	bc := P3{FloorDiv(p[0], v.BS[0]), FloorDiv(p[1], v.BS[1]), FloorDiv(p[2], v.BS[2])}
	blk, ok := r.cache[bc]
	if !ok {
		blk = v.BlockOrBackground(r.ver, bc)
		r.cache[bc] = blk
	}
	ix, iy, iz := Mod(p[0], v.BS[0]), Mod(p[1], v.BS[1]), Mod(p[2], v.BS[2])
	i := ((iz*v.BS[1]+iy)*v.BS[0] + ix) * v.BPV
	return blk[i : i+v.BPV]
}

// ReadBox is the expected payload of GET raw/0_1_2/<size>/<off>: ZYX order, X fastest.
// It is deliberately voxel-by-voxel (no per-block copy arithmetic shared with the code under test).
func (v *Vol) ReadBox(ver string, off, size P3) []byte {
	out := make([]byte, 0, size[0]*size[1]*size[2]*v.BPV)
	r := v.newReader(ver)
	for z := 0; z < size[2]; z++ {
		for y := 0; y < size[1]; y++ {
			for x := 0; x < size[0]; x++ {
				out = append(out, r.voxel(P3{off[0] + x, off[1] + y, off[2] + z})...)
			}
		}
	}
	return out
}

// Writers counts the versions that wrote a block (>= 2 means some version sees older data than another).
func (v *Vol) Writers(bc P3) int {
	n := 0
	for _, m := range v.blocks {
		if m[bc] != nil {
			n++
		}
	}
	return n
}

// Plane axes of the orthogonal slices: "0_1" = XY, "0_2" = XZ, "1_2" = YZ.
var PlaneAxes = map[string][2]int{"0_1": {0, 1}, "0_2": {0, 2}, "1_2": {1, 2}}

// ReadSlice is the expected pixel data (row-major, w fastest) of GET raw/<plane>/<w>_<h>/<off>.
func (v *Vol) ReadSlice(ver, plane string, off P3, w, h int) []byte {
	ax := PlaneAxes[plane]
	out := make([]byte, 0, w*h*v.BPV)
	r := v.newReader(ver)
	for j := 0; j < h; j++ {
		for i := 0; i < w; i++ {
			p := off
			p[ax[0]] += i
			p[ax[1]] += j
			out = append(out, r.voxel(p)...)
		}
	}
	return out
}

// BoxStats classifies a read box relative to the block grid and the written data at a version.
type BoxStats struct {
	Blocks    int // blocks intersected
	Written   int // of those, with data
	Unwritten int
}

func (v *Vol) BoxStats(ver string, off, size P3) BoxStats {
	var s BoxStats
	lo := P3{FloorDiv(off[0], v.BS[0]), FloorDiv(off[1], v.BS[1]), FloorDiv(off[2], v.BS[2])}
	hi := P3{FloorDiv(off[0]+size[0]-1, v.BS[0]), FloorDiv(off[1]+size[1]-1, v.BS[1]), FloorDiv(off[2]+size[2]-1, v.BS[2])}
	for z := lo[2]; z <= hi[2]; z++ {
		for y := lo[1]; y <= hi[1]; y++ {
			for x := lo[0]; x <= hi[0]; x++ {
				s.Blocks++
				if v.Block(ver, P3{x, y, z}) != nil {
					s.Written++
				} else {
					s.Unwritten++
				}
			}
		}
	}
	return s
}

// Extents is the bounding box (inclusive voxel coordinates) of the written blocks visible at a version.
// only(origin) restricts to blocks whose visible write came from an origin accepted by the filter (nil = all).
func (v *Vol) Extents(ver string, only func(origin string) bool) (min, max P3, ok bool) {
	for _, bc := range v.Visible(ver) {
		if only != nil && !only(v.Block(ver, bc).Origin) {
			continue
		}
		lo := P3{bc[0] * v.BS[0], bc[1] * v.BS[1], bc[2] * v.BS[2]}
		hi := P3{lo[0] + v.BS[0] - 1, lo[1] + v.BS[1] - 1, lo[2] + v.BS[2] - 1}
		if !ok {
			min, max, ok = lo, hi, true
			continue
		}
		for d := 0; d < 3; d++ {
			if lo[d] < min[d] {
				min[d] = lo[d]
			}
			if hi[d] > max[d] {
				max[d] = hi[d]
			}
		}
	}
	return
}

// FirstDiff describes the first differing voxel between an expected and an actual ZYX box payload.
func (v *Vol) FirstDiff(exp, got []byte, off, size P3) string {
	if len(exp) != len(got) {
		return fmt.Sprintf("payload length %d, expected %d", len(got), len(exp))
	}
	n := 0
	first := -1
	for i := 0; i+v.BPV <= len(exp); i += v.BPV {
		for k := 0; k < v.BPV; k++ {
			if exp[i+k] != got[i+k] {
				if first < 0 {
					first = i / v.BPV
				}
				n++
				break
			}
		}
	}
	if first < 0 {
		return ""
	}
	x := first % size[0]
	y := (first / size[0]) % size[1]
	z := first / (size[0] * size[1])
	p := P3{off[0] + x, off[1] + y, off[2] + z}
	bc := P3{FloorDiv(p[0], v.BS[0]), FloorDiv(p[1], v.BS[1]), FloorDiv(p[2], v.BS[2])}
	i := first * v.BPV
	return fmt.Sprintf("%d of %d voxels differ; first at voxel %s (block %s, offset in box %d,%d,%d): expected %x got %x",
		n, len(exp)/v.BPV, p.Comma(), bc.Comma(), x, y, z, exp[i:i+v.BPV], got[i:i+v.BPV])
}
