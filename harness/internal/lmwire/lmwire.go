// Package lmwire holds driver-side codecs for the labelmap REST formats, written from the
// formats documented in the labelmap help text (no /repo imports):
//   - packed little-endian uint64 volumes (GET/POST raw, "uncompressed" blocks),
//   - the DVID compressed label Block serialization (decoder + a plain encoder),
//   - block streams (3 x int32 coord, int32 length, payload) with gzip framing per block,
//   - legacy RLE sparse volumes ("rles") and the coarse variant,
//   - LabelIndex / LabelIndices / MappingOps protobuf messages (hand-coded wire format),
//   - small JSON helpers.
package lmwire

import (
	"bytes"
	"compress/gzip"
	"encoding/binary"
	"encoding/json"
	"fmt"
	"io"
	"sort"
)

// ---------------------------------------------------------------- uint64 volumes

func EncodeVolume(v []uint64) []byte {
	b := make([]byte, len(v)*8)
	for i, x := range v {
		binary.LittleEndian.PutUint64(b[i*8:], x)
	}
	return b
}

func DecodeVolume(b []byte, nvox int) ([]uint64, error) {
	if len(b) != nvox*8 {
		return nil, fmt.Errorf("volume has %d bytes, expected %d (%d voxels)", len(b), nvox*8, nvox)
	}
	v := make([]uint64, nvox)
	for i := range v {
		v[i] = binary.LittleEndian.Uint64(b[i*8:])
	}
	return v, nil
}

// ---------------------------------------------------------------- compressed label Block

const sub = 8 // sub-block edge

func bitsFor(n int) int {
	if n < 2 {
		return 0
	}
	n--
	bits := 0
	for n > 0 {
		bits++
		n >>= 1
	}
	return bits
}

// EncodeBlock serializes a block of bs[0] x bs[1] x bs[2] voxels (x fastest) in the documented
// Block format.  A block with a single label is emitted in its solid form (N == 1, no sub-block data).
func EncodeBlock(vox []uint64, bs [3]int) ([]byte, error) {
	if bs[0]%sub != 0 || bs[1]%sub != 0 || bs[2]%sub != 0 {
		return nil, fmt.Errorf("block size %v not a multiple of %d", bs, sub)
	}
	if len(vox) != bs[0]*bs[1]*bs[2] {
		return nil, fmt.Errorf("block has %d voxels, expected %d", len(vox), bs[0]*bs[1]*bs[2])
	}
	gx, gy, gz := bs[0]/sub, bs[1]/sub, bs[2]/sub
	labelIdx := map[uint64]uint32{}
	var labels []uint64
	nsb := gx * gy * gz
	numSB := make([]uint16, nsb)
	var sbIndices []uint32
	var values []byte
	sbn := 0
	for sz := 0; sz < gz; sz++ {
		for sy := 0; sy < gy; sy++ {
			for sx := 0; sx < gx; sx++ {
				local := map[uint64]int{}
				var order []uint64
				idxs := make([]int, 0, sub*sub*sub)
				for z := 0; z < sub; z++ {
					for y := 0; y < sub; y++ {
						base := (sz*sub+z)*bs[0]*bs[1] + (sy*sub+y)*bs[0] + sx*sub
						for x := 0; x < sub; x++ {
							l := vox[base+x]
							li, ok := local[l]
							if !ok {
								li = len(order)
								local[l] = li
								order = append(order, l)
							}
							idxs = append(idxs, li)
						}
					}
				}
				numSB[sbn] = uint16(len(order))
				for _, l := range order {
					gi, ok := labelIdx[l]
					if !ok {
						gi = uint32(len(labels))
						labelIdx[l] = gi
						labels = append(labels, l)
					}
					sbIndices = append(sbIndices, gi)
				}
				bits := bitsFor(len(order))
				if bits > 0 {
					nbytes := (len(idxs)*bits + 7) / 8
					buf := make([]byte, nbytes)
					bitpos := 0
					for _, li := range idxs {
						// MSB-first packing
						for k := bits - 1; k >= 0; k-- {
							if li&(1<<uint(k)) != 0 {
								buf[bitpos>>3] |= 1 << uint(7-bitpos%8)
							}
							bitpos++
						}
					}
					values = append(values, buf...)
				}
				sbn++
			}
		}
	}
	out := make([]byte, 16, 16+len(labels)*8+nsb*2+len(sbIndices)*4+len(values))
	binary.LittleEndian.PutUint32(out[0:], uint32(gx))
	binary.LittleEndian.PutUint32(out[4:], uint32(gy))
	binary.LittleEndian.PutUint32(out[8:], uint32(gz))
	binary.LittleEndian.PutUint32(out[12:], uint32(len(labels)))
	var t8 [8]byte
	for _, l := range labels {
		binary.LittleEndian.PutUint64(t8[:], l)
		out = append(out, t8[:]...)
	}
	if len(labels) <= 1 {
		return out, nil
	}
	for _, n := range numSB {
		binary.LittleEndian.PutUint16(t8[:], n)
		out = append(out, t8[:2]...)
	}
	for _, gi := range sbIndices {
		binary.LittleEndian.PutUint32(t8[:], gi)
		out = append(out, t8[:4]...)
	}
	out = append(out, values...)
	return out, nil
}

// DecodeBlock expands a serialized Block into its voxels (x fastest) and returns the block size.
func DecodeBlock(data []byte) (vox []uint64, bs [3]int, err error) {
	if len(data) < 16 {
		return nil, bs, fmt.Errorf("block serialization of %d bytes is shorter than its 16-byte header", len(data))
	}
	gx := int(binary.LittleEndian.Uint32(data[0:]))
	gy := int(binary.LittleEndian.Uint32(data[4:]))
	gz := int(binary.LittleEndian.Uint32(data[8:]))
	n := int(binary.LittleEndian.Uint32(data[12:]))
	if gx <= 0 || gy <= 0 || gz <= 0 || gx > 64 || gy > 64 || gz > 64 {
		return nil, bs, fmt.Errorf("bad sub-block grid %d,%d,%d", gx, gy, gz)
	}
	bs = [3]int{gx * sub, gy * sub, gz * sub}
	nvox := bs[0] * bs[1] * bs[2]
	if n < 0 || len(data) < 16+n*8 {
		return nil, bs, fmt.Errorf("label table of %d labels exceeds %d bytes", n, len(data))
	}
	labels := make([]uint64, n)
	for i := range labels {
		labels[i] = binary.LittleEndian.Uint64(data[16+i*8:])
	}
	vox = make([]uint64, nvox)
	if n <= 1 {
		var l uint64
		if n == 1 {
			l = labels[0]
		}
		for i := range vox {
			vox[i] = l
		}
		return vox, bs, nil
	}
	pos := 16 + n*8
	nsb := gx * gy * gz
	if len(data) < pos+nsb*2 {
		return nil, bs, fmt.Errorf("truncated sub-block label counts")
	}
	numSB := make([]int, nsb)
	tot := 0
	for i := range numSB {
		numSB[i] = int(binary.LittleEndian.Uint16(data[pos+i*2:]))
		tot += numSB[i]
	}
	pos += nsb * 2
	if len(data) < pos+tot*4 {
		return nil, bs, fmt.Errorf("truncated sub-block indices")
	}
	sbIdx := make([]uint32, tot)
	for i := range sbIdx {
		sbIdx[i] = binary.LittleEndian.Uint32(data[pos+i*4:])
		if int(sbIdx[i]) >= n {
			return nil, bs, fmt.Errorf("sub-block label index %d out of range (%d labels)", sbIdx[i], n)
		}
	}
	pos += tot * 4
	vals := data[pos:]
	ip := 0
	bitpos := 0
	sbn := 0
	for sz := 0; sz < gz; sz++ {
		for sy := 0; sy < gy; sy++ {
			for sx := 0; sx < gx; sx++ {
				ns := numSB[sbn]
				bits := bitsFor(ns)
				loc := sbIdx[ip : ip+ns]
				ip += ns
				if bits > 0 && len(vals)*8 < bitpos+sub*sub*sub*bits {
					return nil, bs, fmt.Errorf("truncated sub-block values (sub-block %d)", sbn)
				}
				for z := 0; z < sub; z++ {
					for y := 0; y < sub; y++ {
						base := (sz*sub+z)*bs[0]*bs[1] + (sy*sub+y)*bs[0] + sx*sub
						for x := 0; x < sub; x++ {
							switch {
							case ns == 0:
								vox[base+x] = 0
							case ns == 1:
								vox[base+x] = labels[loc[0]]
							default:
								v := 0
								for k := 0; k < bits; k++ {
									v <<= 1
									if vals[bitpos>>3]&(1<<uint(7-bitpos%8)) != 0 {
										v |= 1
									}
									bitpos++
								}
								if v >= ns {
									return nil, bs, fmt.Errorf("packed value %d >= %d labels of sub-block %d", v, ns, sbn)
								}
								vox[base+x] = labels[loc[v]]
							}
						}
					}
				}
				if bitpos%8 != 0 {
					bitpos += 8 - bitpos%8
				}
				sbn++
			}
		}
	}
	return vox, bs, nil
}

// ---------------------------------------------------------------- block streams

type PosBlock struct {
	X, Y, Z int32
	Vox     []uint64
}

func gzipBytes(b []byte) []byte {
	var buf bytes.Buffer
	w := gzip.NewWriter(&buf)
	w.Write(b)
	w.Close()
	return buf.Bytes()
}

func gunzip(b []byte) ([]byte, error) {
	r, err := gzip.NewReader(bytes.NewReader(b))
	if err != nil {
		return nil, err
	}
	defer r.Close()
	return io.ReadAll(r)
}

// EncodeBlockStream builds the body of POST blocks: per block 3 x int32 coordinate, int32 byte
// count, gzip(Block serialization).
func EncodeBlockStream(blocks []PosBlock, bs [3]int) ([]byte, error) {
	var out bytes.Buffer
	for _, b := range blocks {
		ser, err := EncodeBlock(b.Vox, bs)
		if err != nil {
			return nil, err
		}
		z := gzipBytes(ser)
		binary.Write(&out, binary.LittleEndian, b.X)
		binary.Write(&out, binary.LittleEndian, b.Y)
		binary.Write(&out, binary.LittleEndian, b.Z)
		binary.Write(&out, binary.LittleEndian, int32(len(z)))
		out.Write(z)
	}
	return out.Bytes(), nil
}

// DecodeBlockStream parses a GET blocks / specificblocks response.  compression is the value of
// the request's "compression" option: "uncompressed" (packed uint64) or "blocks" (gzip of the
// Block serialization, the storage default).
func DecodeBlockStream(data []byte, compression string, bs [3]int) ([]PosBlock, error) {
	var out []PosBlock
	nvox := bs[0] * bs[1] * bs[2]
	pos := 0
	for pos < len(data) {
		if len(data)-pos < 16 {
			return nil, fmt.Errorf("truncated block header at byte %d of %d", pos, len(data))
		}
		x := int32(binary.LittleEndian.Uint32(data[pos:]))
		y := int32(binary.LittleEndian.Uint32(data[pos+4:]))
		z := int32(binary.LittleEndian.Uint32(data[pos+8:]))
		n := int(int32(binary.LittleEndian.Uint32(data[pos+12:])))
		pos += 16
		if n < 0 || len(data)-pos < n {
			return nil, fmt.Errorf("block (%d,%d,%d) claims %d bytes, %d remain", x, y, z, n, len(data)-pos)
		}
		payload := data[pos : pos+n]
		pos += n
		var vox []uint64
		var err error
		switch compression {
		case "uncompressed":
			vox, err = DecodeVolume(payload, nvox)
		case "blocks", "gzip":
			var raw []byte
			raw, err = gunzip(payload)
			if err == nil {
				if compression == "gzip" {
					vox, err = DecodeVolume(raw, nvox)
				} else {
					var gotbs [3]int
					vox, gotbs, err = DecodeBlock(raw)
					if err == nil && gotbs != bs {
						err = fmt.Errorf("block size %v, expected %v", gotbs, bs)
					}
				}
			}
		default:
			err = fmt.Errorf("unsupported compression %q", compression)
		}
		if err != nil {
			return nil, fmt.Errorf("block (%d,%d,%d): %v", x, y, z, err)
		}
		out = append(out, PosBlock{x, y, z, vox})
	}
	return out, nil
}

// ---------------------------------------------------------------- RLE sparse volumes

type Run struct {
	X, Y, Z int32
	N       int32
}

// EncodeRLEs builds a binary sparse volume (the body of split / split-supervoxel requests).
func EncodeRLEs(runs []Run) []byte {
	var b bytes.Buffer
	b.WriteByte(0) // binary sparse volume
	b.WriteByte(3) // dimensions
	b.WriteByte(0) // run dimension X
	b.WriteByte(0) // reserved
	binary.Write(&b, binary.LittleEndian, uint32(0))
	binary.Write(&b, binary.LittleEndian, uint32(len(runs)))
	for _, r := range runs {
		binary.Write(&b, binary.LittleEndian, r.X)
		binary.Write(&b, binary.LittleEndian, r.Y)
		binary.Write(&b, binary.LittleEndian, r.Z)
		binary.Write(&b, binary.LittleEndian, r.N)
	}
	return b.Bytes()
}

// DecodeRLEs parses the "rles" format (also used by sparsevol-coarse with block coordinates).
// An empty body decodes to no runs.
func DecodeRLEs(data []byte) ([]Run, error) {
	if len(data) == 0 {
		return nil, nil
	}
	if len(data) < 12 {
		return nil, fmt.Errorf("RLE header truncated (%d bytes)", len(data))
	}
	if data[0] != 0 {
		return nil, fmt.Errorf("payload descriptor %d, expected 0 (binary)", data[0])
	}
	if data[1] != 3 || data[2] != 0 {
		return nil, fmt.Errorf("dimensions=%d run-dimension=%d, expected 3 and 0", data[1], data[2])
	}
	n := int(binary.LittleEndian.Uint32(data[8:]))
	if len(data) != 12+n*16 {
		return nil, fmt.Errorf("header announces %d spans but body has %d bytes (expected %d)", n, len(data), 12+n*16)
	}
	runs := make([]Run, n)
	for i := range runs {
		p := 12 + i*16
		runs[i] = Run{
			int32(binary.LittleEndian.Uint32(data[p:])),
			int32(binary.LittleEndian.Uint32(data[p+4:])),
			int32(binary.LittleEndian.Uint32(data[p+8:])),
			int32(binary.LittleEndian.Uint32(data[p+12:])),
		}
	}
	return runs, nil
}

// ---------------------------------------------------------------- protobuf (hand-coded)

type pbuf struct {
	b   []byte
	pos int
}

func (p *pbuf) varint() (uint64, error) {
	var x uint64
	var s uint
	for i := 0; ; i++ {
		if p.pos >= len(p.b) {
			return 0, io.ErrUnexpectedEOF
		}
		c := p.b[p.pos]
		p.pos++
		if c < 0x80 {
			if i > 9 || i == 9 && c > 1 {
				return 0, fmt.Errorf("varint overflow")
			}
			return x | uint64(c)<<s, nil
		}
		x |= uint64(c&0x7f) << s
		s += 7
	}
}

func (p *pbuf) bytes() ([]byte, error) {
	n, err := p.varint()
	if err != nil {
		return nil, err
	}
	if uint64(len(p.b)-p.pos) < n {
		return nil, io.ErrUnexpectedEOF
	}
	out := p.b[p.pos : p.pos+int(n)]
	p.pos += int(n)
	return out, nil
}

func (p *pbuf) skip(wt uint64) error {
	switch wt {
	case 0:
		_, err := p.varint()
		return err
	case 1:
		p.pos += 8
	case 2:
		_, err := p.bytes()
		return err
	case 5:
		p.pos += 4
	default:
		return fmt.Errorf("unsupported wire type %d", wt)
	}
	if p.pos > len(p.b) {
		return io.ErrUnexpectedEOF
	}
	return nil
}

// LabelIndex is the decoded form of the documented LabelIndex message.
// Blocks is keyed by block coordinate {x,y,z}; the inner map is supervoxel -> voxel count.
type LabelIndex struct {
	Label   uint64
	Blocks  map[[3]int32]map[uint64]uint32
	LastMut uint64
}

// DecodeBlockKey unpacks the ZYX block key: three 21-bit fields, bit 20 of each is the sign flag.
func DecodeBlockKey(k uint64) [3]int32 {
	f := func(v uint64) int32 {
		x := int32(v & 0xFFFFF)
		if v&0x100000 != 0 {
			x = -x
		}
		return x
	}
	return [3]int32{f(k), f(k >> 21), f(k >> 42)}
}

func EncodeBlockKey(c [3]int32) uint64 {
	f := func(x int32) uint64 {
		if x < 0 {
			return 0x100000 | uint64(-x)&0xFFFFF
		}
		return uint64(x) & 0xFFFFF
	}
	return f(c[2])<<42 | f(c[1])<<21 | f(c[0])
}

func decodeSVCount(b []byte) (map[uint64]uint32, error) {
	out := map[uint64]uint32{}
	p := &pbuf{b: b}
	for p.pos < len(p.b) {
		tag, err := p.varint()
		if err != nil {
			return nil, err
		}
		if tag>>3 == 1 && tag&7 == 2 {
			e, err := p.bytes()
			if err != nil {
				return nil, err
			}
			q := &pbuf{b: e}
			var k, v uint64
			for q.pos < len(q.b) {
				t, err := q.varint()
				if err != nil {
					return nil, err
				}
				switch {
				case t>>3 == 1 && t&7 == 0:
					if k, err = q.varint(); err != nil {
						return nil, err
					}
				case t>>3 == 2 && t&7 == 0:
					if v, err = q.varint(); err != nil {
						return nil, err
					}
				default:
					if err := q.skip(t & 7); err != nil {
						return nil, err
					}
				}
			}
			out[k] = uint32(v)
		} else if err := p.skip(tag & 7); err != nil {
			return nil, err
		}
	}
	return out, nil
}

func DecodeLabelIndex(b []byte) (*LabelIndex, error) {
	li := &LabelIndex{Blocks: map[[3]int32]map[uint64]uint32{}}
	p := &pbuf{b: b}
	for p.pos < len(p.b) {
		tag, err := p.varint()
		if err != nil {
			return nil, err
		}
		switch {
		case tag>>3 == 1 && tag&7 == 2:
			e, err := p.bytes()
			if err != nil {
				return nil, err
			}
			q := &pbuf{b: e}
			var k uint64
			var val []byte
			for q.pos < len(q.b) {
				t, err := q.varint()
				if err != nil {
					return nil, err
				}
				switch {
				case t>>3 == 1 && t&7 == 0:
					if k, err = q.varint(); err != nil {
						return nil, err
					}
				case t>>3 == 2 && t&7 == 2:
					if val, err = q.bytes(); err != nil {
						return nil, err
					}
				default:
					if err := q.skip(t & 7); err != nil {
						return nil, err
					}
				}
			}
			cnt, err := decodeSVCount(val)
			if err != nil {
				return nil, err
			}
			li.Blocks[DecodeBlockKey(k)] = cnt
		case tag>>3 == 2 && tag&7 == 0:
			if li.Label, err = p.varint(); err != nil {
				return nil, err
			}
		case tag>>3 == 3 && tag&7 == 0:
			if li.LastMut, err = p.varint(); err != nil {
				return nil, err
			}
		default:
			if err := p.skip(tag & 7); err != nil {
				return nil, err
			}
		}
	}
	return li, nil
}

// DecodeLabelIndices parses message LabelIndices { repeated LabelIndex indices = 1; }.
func DecodeLabelIndices(b []byte) ([]*LabelIndex, error) {
	var out []*LabelIndex
	p := &pbuf{b: b}
	for p.pos < len(p.b) {
		tag, err := p.varint()
		if err != nil {
			return nil, err
		}
		if tag>>3 == 1 && tag&7 == 2 {
			e, err := p.bytes()
			if err != nil {
				return nil, err
			}
			li, err := DecodeLabelIndex(e)
			if err != nil {
				return nil, err
			}
			out = append(out, li)
		} else if err := p.skip(tag & 7); err != nil {
			return nil, err
		}
	}
	return out, nil
}

func putVarint(b []byte, x uint64) []byte {
	for x >= 0x80 {
		b = append(b, byte(x)|0x80)
		x >>= 7
	}
	return append(b, byte(x))
}

func putBytes(b []byte, field int, payload []byte) []byte {
	b = putVarint(b, uint64(field)<<3|2)
	b = putVarint(b, uint64(len(payload)))
	return append(b, payload...)
}

// EncodeLabelIndex serializes a LabelIndex (deterministic field order).
func EncodeLabelIndex(li *LabelIndex) []byte {
	var out []byte
	keys := make([][3]int32, 0, len(li.Blocks))
	for k := range li.Blocks {
		keys = append(keys, k)
	}
	sort.Slice(keys, func(i, j int) bool { return EncodeBlockKey(keys[i]) < EncodeBlockKey(keys[j]) })
	for _, k := range keys {
		var svc []byte
		svs := make([]uint64, 0, len(li.Blocks[k]))
		for sv := range li.Blocks[k] {
			svs = append(svs, sv)
		}
		sort.Slice(svs, func(i, j int) bool { return svs[i] < svs[j] })
		for _, sv := range svs {
			var e []byte
			e = putVarint(e, 1<<3)
			e = putVarint(e, sv)
			e = putVarint(e, 2<<3)
			e = putVarint(e, uint64(li.Blocks[k][sv]))
			svc = putBytes(svc, 1, e)
		}
		var e []byte
		e = putVarint(e, 1<<3)
		e = putVarint(e, EncodeBlockKey(k))
		e = putBytes(e, 2, svc)
		out = putBytes(out, 1, e)
	}
	out = putVarint(out, 2<<3)
	out = putVarint(out, li.Label)
	return out
}

func EncodeLabelIndices(lis []*LabelIndex) []byte {
	var out []byte
	for _, li := range lis {
		out = putBytes(out, 1, EncodeLabelIndex(li))
	}
	return out
}

// MappingOp mirrors message MappingOp { uint64 mutid = 1; uint64 mapped = 2; repeated uint64 original = 3; }.
type MappingOp struct {
	MutID    uint64
	Mapped   uint64
	Original []uint64
}

// EncodeMappingOps serializes message MappingOps { repeated MappingOp mappings = 1; } (original packed).
func EncodeMappingOps(ops []MappingOp) []byte {
	var out []byte
	for _, op := range ops {
		var e []byte
		e = putVarint(e, 1<<3)
		e = putVarint(e, op.MutID)
		e = putVarint(e, 2<<3)
		e = putVarint(e, op.Mapped)
		var pk []byte
		for _, o := range op.Original {
			pk = putVarint(pk, o)
		}
		e = putBytes(e, 3, pk)
		out = putBytes(out, 1, e)
	}
	return out
}

// ---------------------------------------------------------------- JSON helpers

func JSONU64s(v []uint64) []byte {
	if v == nil {
		v = []uint64{}
	}
	b, _ := json.Marshal(v)
	return b
}

func ParseU64s(b []byte) ([]uint64, error) {
	var v []uint64
	dec := json.NewDecoder(bytes.NewReader(b))
	if err := dec.Decode(&v); err != nil {
		return nil, err
	}
	return v, nil
}

// DecodeU64Stream parses a stream of little-endian uint64 (listlabels).
func DecodeU64Stream(b []byte) ([]uint64, error) {
	if len(b)%8 != 0 {
		return nil, fmt.Errorf("stream of %d bytes is not a multiple of 8", len(b))
	}
	out := make([]uint64, len(b)/8)
	for i := range out {
		out[i] = binary.LittleEndian.Uint64(b[i*8:])
	}
	return out, nil
}
