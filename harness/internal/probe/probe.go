// Package probe is the worker-side helper for package-level oracles (programs under wcmd/ that link
// /repo packages, run generators + naive reference implementations in-process and report JSON lines).
//
// Protocol (stdout, one JSON object per line):
//
//	{"t":"viol","key":K,"what":W,"case":{...}}     a violation with its witness
//	{"t":"sample","v":{...}}                       a sample case for the evidence file
//	{"t":"sum","evals":N,"hashes":"<16 hex chars per distinct non-trivial case>","counts":{...},"sets":{name:[members]}}
//
// The current case is written to $PROBE_CURFILE before it is executed, so that a sanitizer abort or
// fatal error (which recover() never sees) still leaves the failing input on disk.
package probe

import (
	"bufio"
	"encoding/json"
	"flag"
	"fmt"
	"hash/fnv"
	"math/rand"
	"os"
	"strings"
	"sync"
)

type P struct {
	Tier    string
	Seed    int64
	Rand    *rand.Rand
	Flavour string
	out     *bufio.Writer
	mu      sync.Mutex
	evals   int
	hashes  map[uint64]struct{}
	counts  map[string]int
	sets    map[string]map[string]struct{}
	nsample int
	nviol   int
	cur     *os.File
}

func New() *P {
	tier := flag.String("tier", "quick", "")
	seed := flag.Int64("seed", 1, "")
	flavour := flag.String("flavour", "", "")
	flag.Parse()
	p := &P{Tier: *tier, Seed: *seed, Flavour: *flavour, Rand: rand.New(rand.NewSource(*seed)),
		out: bufio.NewWriterSize(os.Stdout, 1<<16), hashes: map[uint64]struct{}{}, counts: map[string]int{}, sets: map[string]map[string]struct{}{}}
	if f := os.Getenv("PROBE_CURFILE"); f != "" {
		p.cur, _ = os.OpenFile(f, os.O_CREATE|os.O_WRONLY|os.O_TRUNC, 0644)
	}
	return p
}

func (p *P) Quick() bool { return p.Tier != "thorough" }
func (p *P) N(q, t int) int {
	if p.Quick() {
		return q
	}
	return t
}

// Begin records the case about to be executed (survives a process-fatal report).
func (p *P) Begin(desc string) {
	if p.cur != nil {
		p.cur.Truncate(0)
		p.cur.WriteAt([]byte(desc), 0)
	}
}

// Case counts one evaluated case; key identifies it canonically.
func (p *P) Case(key string, nontrivial bool) {
	p.mu.Lock()
	p.evals++
	if nontrivial {
		h := fnv.New64a()
		h.Write([]byte(key))
		p.hashes[h.Sum64()] = struct{}{}
	}
	p.mu.Unlock()
}

func (p *P) Count(name string, n int) {
	p.mu.Lock()
	p.counts[name] += n
	p.mu.Unlock()
}

func (p *P) Seen(set, member string) {
	p.mu.Lock()
	m := p.sets[set]
	if m == nil {
		m = map[string]struct{}{}
		p.sets[set] = m
	}
	if len(m) < 5000 {
		m[member] = struct{}{}
	}
	p.mu.Unlock()
}

func (p *P) emit(v interface{}) {
	b, _ := json.Marshal(v)
	p.mu.Lock()
	p.out.Write(b)
	p.out.WriteByte('\n')
	p.out.Flush()
	p.mu.Unlock()
}

func (p *P) Sample(v interface{}) {
	p.mu.Lock()
	p.nsample++
	n := p.nsample
	p.mu.Unlock()
	if n <= 4 {
		p.emit(map[string]interface{}{"t": "sample", "v": v})
	}
}

// Violation reports a violation; key is the canonical class+witness id used for known-finding matching.
func (p *P) Violation(key, what string, witness interface{}) {
	p.mu.Lock()
	p.nviol++
	n := p.nviol
	p.mu.Unlock()
	if n <= 50 {
		p.emit(map[string]interface{}{"t": "viol", "key": key, "what": what, "case": witness})
	}
}

// Try runs f, converting a panic into a returned description (sanitizer aborts are not recoverable).
func Try(f func()) (panicked string) {
	defer func() {
		if e := recover(); e != nil {
			panicked = fmt.Sprint(e)
		}
	}()
	f()
	return ""
}

// Done emits the summary line.
func (p *P) Done() {
	var sb strings.Builder
	for h := range p.hashes {
		fmt.Fprintf(&sb, "%016x", h)
	}
	sets := map[string][]string{}
	for k, m := range p.sets {
		for s := range m {
			sets[k] = append(sets[k], s)
		}
	}
	p.emit(map[string]interface{}{"t": "sum", "evals": p.evals, "hashes": sb.String(), "counts": p.counts, "sets": sets})
}
