package njcheck

import (
	"fmt"
	"math/rand"
	"sort"
	"strconv"
	"strings"
)

// ---------- body-id pools ----------

// ID styles.  In the three same-length styles the decimal strings of all ids have the same number of digits,
// so lexicographic order of the store keys equals numeric order; "mixed" uses 1..4-digit ids.
const (
	StyleFour  = "4digit"
	Style2p53  = "near2^53"
	StyleMax64 = "near2^64"
	StyleMixed = "mixed-length"
)

func IDPool(r *rand.Rand, style string, n int) []uint64 {
	seen := map[uint64]bool{}
	var out []uint64
	add := func(v uint64) {
		if v != 0 && !seen[v] {
			seen[v] = true
			out = append(out, v)
		}
	}
	switch style {
	case Style2p53:
		for _, v := range []uint64{9007199254740991, 9007199254740992, 9007199254740993} {
			add(v)
		}
		for len(out) < n {
			add(9007199254740980 + uint64(r.Intn(40)))
		}
	case StyleMax64:
		add(18446744073709551615)
		add(18446744073709551614)
		for len(out) < n {
			add(18446744073709551615 - uint64(r.Intn(600)))
		}
	case StyleMixed:
		add(uint64(1 + r.Intn(9)))
		add(uint64(10 + r.Intn(90)))
		add(uint64(100 + r.Intn(900)))
		for len(out) < n {
			switch r.Intn(4) {
			case 0:
				add(uint64(1 + r.Intn(9)))
			case 1:
				add(uint64(10 + r.Intn(90)))
			case 2:
				add(uint64(100 + r.Intn(900)))
			default:
				add(uint64(1000 + r.Intn(9000)))
			}
		}
	default:
		for len(out) < n {
			add(uint64(1000 + r.Intn(9000)))
		}
	}
	sort.Slice(out, func(i, j int) bool { return out[i] < out[j] })
	return out
}

// ---------- field vocabulary ----------

// Tok is one JSON value token with the class it exercises.
type Tok struct {
	JSON  string
	Class string // str, int, bigint, negint, float, intfloat, intlist, strlist, list, intfloatlist, object, bool, digitstr
}

type FieldSpec struct {
	Name string
	Toks []Tok
}

func toks(class string, js ...string) []Tok {
	out := make([]Tok, len(js))
	for i, j := range js {
		out[i] = Tok{j, class}
	}
	return out
}

func cat(ts ...[]Tok) []Tok {
	var out []Tok
	for _, t := range ts {
		out = append(out, t...)
	}
	return out
}

// Vocab is the closed set of fields and values the workload draws from (small pools so that repeated identical
// values, shared values across annotations and query hits are frequent).  No name ends in _user/_time, none is "user".
var Vocab = []FieldSpec{
	{"type", toks("str", `"KC"`, `"KCab"`, `"MBON01"`, `"ORN_DA1"`, `""`, `"a b"`, `"re/x"`, `"ü\"q\\"`, `"<t>&"`)},
	{"status", cat(toks("str", `"Traced"`, `"Anchor"`, `"Orphan"`, `"0"`), toks("int", `5`))}, // 5 violates the json_schema when one is active
	{"group", cat(toks("int", `1`, `2`, `0`), toks("bigint", `9007199254740991`, `9007199254740992`, `9007199254740993`, `18446744073709551615`),
		toks("negint", `-1`, `-9007199254740993`), toks("digitstr", `"123"`))},
	{"size", cat(toks("float", `0.5`, `-2.25`, `1e-7`, `1.5e300`), toks("int", `100`, `2`))},
	{"pos", toks("intlist", `[1,2,3]`, `[10,20,30]`, `[0,0,0]`, `[9007199254740993,2,3]`, `[-1,2,3]`)},
	{"tags", cat(toks("strlist", `["a","b"]`, `["a"]`, `["re/x","b"]`), toks("intlist", `[]`), toks("list", `[1,"a"]`, `[1.5,2]`, `[[1,2],[3]]`))},
	{"meta", toks("object", `{"x":1,"y":{"z":[1,2]}}`, `{}`, `{"k":"v"}`, `{"big":9007199254740993}`, `{"n":null}`)},
	{"flag", toks("bool", `true`, `false`)},
	{"note", toks("str", `"soma ok"`, `"check é"`, `"x"`)},
}

// IntFloatToks are number tokens written in float syntax whose value is integral: the store re-reads them as integers.
var IntFloatToks = map[string][]Tok{
	"size": toks("intfloat", `3.0`, `1e2`),
	"tags": toks("intfloatlist", `[1,2.0]`, `[1.0,2.0]`),
}

func Spec(name string) *FieldSpec {
	for i := range Vocab {
		if Vocab[i].Name == name {
			return &Vocab[i]
		}
	}
	return nil
}

// Annotation is one POST body: ordered fields with their JSON tokens ("null" = remove).
type Annotation struct {
	ID     uint64
	Fields []string
	Toks   map[string]Tok
	// Stamps: explicit F_user / F_time sent along with F (dedicated sub-test only); "" = not sent.
	Stamps map[string][2]string
}

// Ann builds an annotation from (field, token) pairs.
func Ann(id uint64, kv ...string) *Annotation {
	a := &Annotation{ID: id, Toks: map[string]Tok{}}
	for i := 0; i+1 < len(kv); i += 2 {
		a.Fields = append(a.Fields, kv[i])
		a.Toks[kv[i]] = Tok{kv[i+1], classOf(kv[i+1])}
	}
	return a
}

func classOf(js string) string {
	if js == "null" {
		return "null"
	}
	for _, sp := range Vocab {
		for _, t := range sp.Toks {
			if t.JSON == js {
				return t.Class
			}
		}
	}
	for _, ts := range IntFloatToks {
		for _, t := range ts {
			if t.JSON == js {
				return t.Class
			}
		}
	}
	return "other"
}

func (a *Annotation) JSON() string {
	var sb strings.Builder
	fmt.Fprintf(&sb, `{"bodyid":%d`, a.ID)
	for _, f := range a.Fields {
		fmt.Fprintf(&sb, `,%s:%s`, strconv.Quote(f), a.Toks[f].JSON)
		if st, ok := a.Stamps[f]; ok {
			if st[0] != "" {
				fmt.Fprintf(&sb, `,%s:%s`, strconv.Quote(f+"_user"), strconv.Quote(st[0]))
			}
			if st[1] != "" {
				fmt.Fprintf(&sb, `,%s:%s`, strconv.Quote(f+"_time"), strconv.Quote(st[1]))
			}
		}
	}
	sb.WriteByte('}')
	return sb.String()
}

// GenAnnotation draws 0..4 fields; pNull = probability (percent) that a field is posted as null; intfloat enables the
// integral-float tokens.
func GenAnnotation(r *rand.Rand, id uint64, pNull int, intfloat bool, prefer []string) *Annotation {
	a := &Annotation{ID: id, Toks: map[string]Tok{}}
	n := 1 + r.Intn(4)
	if r.Intn(25) == 0 {
		n = 0
	}
	for i := 0; i < n; i++ {
		var spec *FieldSpec
		if len(prefer) > 0 && r.Intn(2) == 0 {
			spec = Spec(prefer[r.Intn(len(prefer))])
		}
		if spec == nil {
			spec = &Vocab[r.Intn(len(Vocab))]
		}
		if _, dup := a.Toks[spec.Name]; dup {
			continue
		}
		var t Tok
		switch {
		case r.Intn(100) < pNull:
			t = Tok{"null", "null"}
		case intfloat && len(IntFloatToks[spec.Name]) > 0 && r.Intn(3) == 0:
			p := IntFloatToks[spec.Name]
			t = p[r.Intn(len(p))]
		default:
			t = spec.Toks[r.Intn(len(spec.Toks))]
		}
		a.Fields = append(a.Fields, spec.Name)
		a.Toks[spec.Name] = t
	}
	return a
}

// ---------- query vocabulary ----------

// Query is one query body with the class of predicate it exercises.
type Query struct {
	Body  string
	Class string // eq-str, eq-int, list-str, list-int, regex, regex-list, exists, float, other, and, or, bodyid, bodyid-and
	Field string
}

func pick(r *rand.Rand, ts []Tok, class ...string) string {
	var c []Tok
	for _, t := range ts {
		for _, cl := range class {
			if t.Class == cl {
				c = append(c, t)
			}
		}
	}
	if len(c) == 0 {
		return ts[r.Intn(len(ts))].JSON
	}
	return c[r.Intn(len(c))].JSON
}

// GenQueries draws the query bodies of one read battery.
func GenQueries(r *rand.Rand, ids []uint64, n int) []Query {
	var out []Query
	ty, st, gr := Spec("type").Toks, Spec("status").Toks, Spec("group").Toks
	regex := []string{`"re/^KC"`, `"re/.*B"`, `"re/O.*1$"`, `"re/^$"`, `"re/re/"`, `"re/[a-z ]+$"`}
	allFields := []string{"type", "status", "group", "size", "pos", "tags", "meta", "flag", "note", "nosuch"}
	id := func() uint64 { return ids[r.Intn(len(ids))] }
	gens := []func() Query{
		func() Query { return Query{fmt.Sprintf(`{"type":%s}`, pick(r, ty)), "eq-str", "type"} },
		func() Query { return Query{fmt.Sprintf(`{"status":%s}`, pick(r, st)), "eq-str", "status"} },
		func() Query {
			return Query{fmt.Sprintf(`{"group":%s}`, pick(r, gr, "int", "bigint", "negint")), "eq-int", "group"}
		},
		func() Query {
			return Query{fmt.Sprintf(`{"type":[%s,%s]}`, pick(r, ty), pick(r, ty)), "list-str", "type"}
		},
		func() Query {
			return Query{fmt.Sprintf(`{"group":[%s,%s,7]}`, pick(r, gr, "int", "bigint"), pick(r, gr, "int", "negint")), "list-int", "group"}
		},
		func() Query { return Query{fmt.Sprintf(`{"type":%s}`, regex[r.Intn(len(regex))]), "regex", "type"} },
		func() Query {
			return Query{fmt.Sprintf(`{"type":["re/^MB",%s]}`, pick(r, ty)), "regex-list", "type"}
		},
		func() Query {
			f := allFields[r.Intn(len(allFields))]
			return Query{fmt.Sprintf(`{%q:"exists/%d"}`, f, r.Intn(2)), "exists", f}
		},
		func() Query {
			return Query{[]string{`{"size":100}`, `{"size":2}`, `{"size":3}`, `{"size":0.5}`, `{"size":[0.5,1.5]}`, `{"size":[-2.25]}`}[r.Intn(6)], "float", "size"}
		},
		func() Query {
			return Query{[]string{`{"pos":2}`, `{"pos":[20,99]}`, `{"pos":9007199254740993}`, `{"pos":-1}`}[r.Intn(4)], "list-member-int", "pos"}
		},
		func() Query {
			return Query{[]string{`{"tags":"a"}`, `{"tags":["b","zz"]}`, `{"tags":"re/^re"}`, `{"tags":1}`, `{"tags":2}`}[r.Intn(5)], "list-member", "tags"}
		},
		func() Query {
			return Query{[]string{`{"flag":true}`, `{"meta":{"k":"v"}}`, `{"note":"x","flag":false}`}[r.Intn(3)], "other", "flag"}
		},
		func() Query {
			return Query{fmt.Sprintf(`{"type":%s,"status":"exists/%d"}`, pick(r, ty), r.Intn(2)), "and", "type"}
		},
		func() Query {
			return Query{fmt.Sprintf(`{"status":%s,"group":"exists/1","type":"re/."}`, pick(r, st)), "and", "status"}
		},
		func() Query {
			return Query{fmt.Sprintf(`[{"type":%s},{"group":%s},{"tags":"a"}]`, pick(r, ty), pick(r, gr, "int", "bigint")), "or", "type"}
		},
		func() Query { return Query{fmt.Sprintf(`{"bodyid":%d}`, id()), "bodyid", "bodyid"} },
		func() Query {
			a, b := id(), id()
			if a > b {
				a, b = b, a
			}
			return Query{fmt.Sprintf(`{"bodyid":[%d,%d]}`, a, b), "bodyid", "bodyid"}
		},
		func() Query {
			return Query{fmt.Sprintf(`{"bodyid":%d,"type":"exists/%d"}`, id(), r.Intn(2)), "bodyid-and", "bodyid"}
		},
	}
	// every generator once, then random extras
	for _, g := range gens {
		out = append(out, g())
	}
	for len(out) < n {
		out = append(out, gens[r.Intn(len(gens))]())
	}
	return out
}

// ---------- schemas ----------

// JSONSchemaText constrains the typed vocabulary fields; additional properties are allowed.
const JSONSchemaText = `{
 "$schema": "https://json-schema.org/draft/2020-12/schema",
 "type": "object",
 "additionalProperties": true,
 "required": ["bodyid"],
 "properties": {
  "bodyid": {"type": "integer"},
  "group": {"type": ["integer", "null"]},
  "status": {"type": ["string", "null"]},
  "pos": {"type": ["array", "null"], "items": {"type": "integer"}, "minItems": 3, "maxItems": 3}
 }
}`

func NeuSchemaText(r *rand.Rand, which string) string {
	return fmt.Sprintf(`{"%s_for":"neutu","rev":%d,"fields":["type","status"]}`, which, r.Intn(1000))
}
