package njcheck

import (
	"encoding/json"
	"fmt"
	"os"
	"regexp"
	"sort"
	"strconv"
	"strings"

	"verif/harness/internal/drv"
)

// Snap is the battery's answers on one version.
type Snap struct {
	UUID string
	Ans  []Ans
	Raw  []string // truncated raw bodies for witnesses
}

func (s *Seq) battery() []Rq {
	bt := Battery(s.R, s.IDs, s.NQ)
	return append(bt, s.Extra...)
}

func (s *Seq) runBattery(bt []Rq, uuid string) (*Snap, error) {
	sn := &Snap{UUID: uuid, Ans: make([]Ans, len(bt)), Raw: make([]string, len(bt))}
	for i := range bt {
		q := &bt[i]
		r, err := s.W.HTTP(q.Method, s.url(uuid, q.Path), q.Body)
		if err != nil {
			return nil, fmt.Errorf("%s at %s: %v", q, uuid[:6], err)
		}
		if r.Panicked() {
			s.C.Count("read_requests_panicked", 1)
			s.C.Seen("panicking_reads", q.Class+" "+Short(string(q.Body), 60))
		}
		sn.Ans[i] = Normalise(q, r.Status, r.Body)
		if sn.Ans[i].Bad != "" {
			s.C.Count("undecodable_2xx_bodies", 1)
		}
		if q.Norm == "pbset" || q.Norm == "pbord" || q.Norm == "tarset" || q.Norm == "tarord" {
			sn.Raw[i] = fmt.Sprintf("%d <%d bytes> items=%s", r.Status, len(r.Body), Short(strings.Join(sn.Ans[i].Items, " | "), 600))
		} else {
			sn.Raw[i] = fmt.Sprintf("%d %s", r.Status, Short(string(r.Body), 700))
		}
		s.C.Count("reads_"+q.Class, 1)
	}
	return sn, nil
}

// xctx = facts about the two sides used to attribute a difference to a precise class.
type xctx struct {
	kind           string // pair | restart-head | restart-store
	stale          map[string]bool
	aKeys, bKeys   []string
	countsA        map[string]int64
	countsB        map[string]int64
	haveCB, haveCA bool
	bFull          map[string]map[string]interface{}
}

func find(bt []Rq, class, path string) int {
	for i := range bt {
		if bt[i].Class == class && (path == "" || bt[i].Path == path) {
			return i
		}
	}
	return -1
}

func unq(items []string) []string {
	out := make([]string, len(items))
	for i, s := range items {
		out[i] = Unquote(s)
	}
	return out
}

func parseCounts(a Ans) (map[string]int64, bool) {
	if a.Status != 200 || len(a.Items) != 1 {
		return nil, false
	}
	var m map[string]int64
	if json.Unmarshal([]byte(a.Items[0]), &m) != nil {
		return nil, false
	}
	return m, true
}

func (s *Seq) context(bt []Rq, a, b *Snap, kind string) *xctx {
	x := &xctx{kind: kind, stale: map[string]bool{}, bFull: map[string]map[string]interface{}{}}
	if i := find(bt, "keys", "keys"); i >= 0 {
		x.aKeys, x.bKeys = unq(a.Ans[i].Items), unq(b.Ans[i].Items)
	}
	// stale id = listed by A's own `keys` although A's own HEAD key/<id> says 404
	for _, k := range x.aKeys {
		if i := find(bt, "head", "key/"+k); i >= 0 && a.Ans[i].Status == 404 {
			x.stale[k] = true
		}
	}
	if i := find(bt, "counts", ""); i >= 0 {
		x.countsA, x.haveCA = parseCounts(a.Ans[i])
		x.countsB, x.haveCB = parseCounts(b.Ans[i])
	}
	for i := range bt {
		if bt[i].Class == "key" && strings.HasSuffix(bt[i].Path, "?show=all") && b.Ans[i].Status == 200 {
			if m, err := Obj([]byte(b.Ans[i].Items[0])); err == nil {
				x.bFull[strings.TrimSuffix(strings.TrimPrefix(bt[i].Path, "key/"), "?show=all")] = m
			}
		}
	}
	return x
}

func boundNum(s string) (uint64, bool) {
	if s == "" {
		return 0, false
	}
	if s[0] > '9' {
		return ^uint64(0), true
	}
	if s[0] < '0' {
		return 0, true
	}
	v, err := strconv.ParseUint(s, 10, 64)
	return v, err == nil
}

func inNum(k, beg, end string) bool {
	kv, ok1 := boundNum(k)
	b, ok2 := boundNum(beg)
	e, ok3 := boundNum(end)
	return ok1 && ok2 && ok3 && kv >= b && kv <= e
}

func inLex(k, beg, end string) bool { return k >= beg && k <= end }

func sameSet(a, b []string) bool {
	if len(a) != len(b) {
		return false
	}
	x := append([]string{}, a...)
	y := append([]string{}, b...)
	sort.Strings(x)
	sort.Strings(y)
	for i := range x {
		if x[i] != y[i] {
			return false
		}
	}
	return true
}

// kvMap turns a keyrangevalues answer into key -> canonical value.
func kvMap(q *Rq, a Ans) (map[string]string, bool) {
	out := map[string]string{}
	if a.Status != 200 {
		return nil, false
	}
	if q.Norm == "json" {
		if len(a.Items) != 1 {
			return nil, false
		}
		m, err := Obj([]byte(a.Items[0]))
		if err != nil {
			return nil, false
		}
		for k, v := range m {
			out[k] = CanonV(v)
		}
		return out, true
	}
	for _, it := range a.Items {
		i := strings.Index(it, "=")
		if i < 0 {
			return nil, false
		}
		out[it[:i]] = it[i+1:]
	}
	return out, true
}

func keysOf(m map[string]string) []string {
	var out []string
	for k := range m {
		out = append(out, k)
	}
	return out
}

// stampRE masks wall-clock stamps so that case keys are reproducible for a seed.
var stampRE = regexp.MustCompile(`\d{4}-\d{2}-\d{2}T\d{2}:\d{2}:\d{2}(Z|[+-]\d{2}:\d{2})`)

// Classes documents the precisely attributed difference classes (violation keys) and the predicate proving each.
var Classes = map[string]string{
	KeyDeleteBodyID:   "the in-memory head lists a body id in keys/keyrange (or emits {} / the bare id for it in a query scan) although its own HEAD key/<id> is 404 and the store path does not list it; nothing else differs",
	KeyZeroRetained:   "fields?counts=true of the in-memory head has a field with count 0 that the store path does not have (fields: an empty-string entry per such field)",
	KeyNullDrift:      "the in-memory count of field F exceeds the store's count by exactly the number of accepted POSTs that set an existing F to null since the in-memory database was built",
	KeyRangeLex:       "mixed-length ids only: head answer = keys k with beg<=k<=end numerically; store answer = keys that are in range numerically AND as decimal strings",
	KeyRangeValuesLex: "mixed-length ids only: head answer = keys in range numerically; store answer = keys in range as decimal strings; common keys carry equal values",
	KeyQueryOrder:     "mixed-length ids only: same elements; head in ascending body id, store path in ascending decimal-string order",
	KeyQueryFields:    "query with fields=: every head element equals the documented projection (bodyid + listed fields + stamps per show) of the store's annotation, every store element equals the whole annotation",
	KeyUntypedList:    "the store path matches annotations the head does not; each of them got, since the in-memory database was built, a list value posted with mixed integer/float syntax (e.g. [1,2.0]) in a field named by the query",
	KeyFieldTimes:     "GET fieldtimes of the same head version differs before/after a restart",
	KeySchemaLocked:   "GET/HEAD json_schema is 404 on the open head but 200 on its committed parent; the worker was started while the master head was committed and json_schema was not posted since",
}

const (
	KeyDeleteBodyID   = "neuronjson:deleteBodyID-search"
	KeyZeroRetained   = "neuronjson:fieldcount-zero-retained"
	KeyNullDrift      = "neuronjson:fieldcount-null-not-decremented"
	KeyRangeLex       = "neuronjson:keyrange-store-lexicographic"
	KeyRangeValuesLex = "neuronjson:keyrangevalues-store-lexicographic"
	KeyQueryOrder     = "neuronjson:query-store-order-lexicographic"
	KeyQueryFields    = "neuronjson:query-store-ignores-fields"
	KeyUntypedList    = "neuronjson:query-mem-untyped-list"
	KeyFieldTimes     = "neuronjson:fieldtimes-differs-after-restart"
	KeySchemaLocked   = "neuronjson:json_schema-not-served-after-start-on-locked-head"
)

// explain attributes the difference of one request to precisely defined classes; nil = not explained.
// A is the incrementally maintained in-memory head, B the store path (pair) or the head rebuilt after a restart.
func (s *Seq) explain(q *Rq, a, b Ans, d Diff, x *xctx) []string {
	if x.kind == "restart-store" {
		return nil
	}
	if d.Status {
		// the worker started while the master head was locked: the in-memory copy of json_schema is not filled
		if q.Class == "schema" && q.Path == "json_schema" && (x.kind == "pair" || x.kind == "restart-head") && s.lockedStart && a.Status == 404 && b.Status == 200 {
			return []string{KeySchemaLocked}
		}
		return nil
	}
	set := map[string]bool{}
	keys := func() []string {
		var out []string
		for k := range set {
			out = append(out, k)
		}
		sort.Strings(out)
		return out
	}
	allStale := func(items []string) bool {
		for _, e := range items {
			if !x.stale[Unquote(e)] {
				return false
			}
		}
		return len(items) > 0
	}
	switch q.Class {
	case "fieldtimes":
		if x.kind == "restart-head" {
			return []string{KeyFieldTimes}
		}
	case "keys":
		if len(d.MissingA) == 0 && allStale(d.ExtraA) {
			return []string{KeyDeleteBodyID}
		}
	case "keyrange":
		if len(d.MissingA) == 0 && allStale(d.ExtraA) {
			return []string{KeyDeleteBodyID}
		}
		if s.Style == StyleMixed && x.kind == "pair" {
			var expA, expB []string
			for _, k := range x.aKeys {
				if inNum(k, q.Beg, q.End) {
					expA = append(expA, k)
				}
			}
			for _, k := range x.bKeys {
				if inNum(k, q.Beg, q.End) && inLex(k, q.Beg, q.End) {
					expB = append(expB, k)
				}
			}
			if sameSet(unq(a.Items), expA) && sameSet(unq(b.Items), expB) {
				set[KeyRangeLex] = true
				for _, k := range unq(a.Items) {
					if x.stale[k] {
						set[KeyDeleteBodyID] = true
					}
				}
				return keys()
			}
		}
	case "krv":
		if s.Style == StyleMixed && x.kind == "pair" {
			ma, ok1 := kvMap(q, a)
			mb, ok2 := kvMap(q, b)
			if !ok1 || !ok2 {
				return nil
			}
			var expA, expB []string
			for _, k := range x.aKeys {
				if inNum(k, q.Beg, q.End) && !x.stale[k] {
					expA = append(expA, k)
				}
			}
			for _, k := range x.bKeys {
				if inLex(k, q.Beg, q.End) {
					expB = append(expB, k)
				}
			}
			if !sameSet(keysOf(ma), expA) || !sameSet(keysOf(mb), expB) {
				return nil
			}
			for k, v := range ma {
				if w, ok := mb[k]; ok && w != v {
					return nil
				}
			}
			return []string{KeyRangeValuesLex}
		}
	case "fields":
		if len(d.MissingA) > 0 || !x.haveCA || !x.haveCB {
			return nil
		}
		for _, e := range d.ExtraA {
			f := Unquote(e)
			switch {
			case f == "":
				set[KeyZeroRetained] = true
			case s.nullRemovals[f] > 0 && x.countsA[f]-x.countsB[f] == int64(s.nullRemovals[f]):
				set[KeyNullDrift] = true
			default:
				return nil
			}
		}
		return keys()
	case "counts":
		if !x.haveCA || !x.haveCB {
			return nil
		}
		for f, av := range x.countsA {
			bv, inB := x.countsB[f]
			if inB && av == bv {
				continue
			}
			switch {
			case av == 0 && !inB:
				set[KeyZeroRetained] = true
			case s.nullRemovals[f] > 0 && av-bv == int64(s.nullRemovals[f]):
				set[KeyNullDrift] = true
			default:
				return nil
			}
		}
		for f := range x.countsB {
			if _, inA := x.countsA[f]; !inA {
				return nil
			}
		}
		return keys()
	case "query-scan":
		ai, bi := append([]string{}, a.Items...), append([]string{}, b.Items...)
		// (1) elements produced for stale ids of the sorted id list: "{}" (no annotation behind the id) or the bare id
		if len(x.stale) > 0 {
			var keep []string
			removed := 0
			for _, e := range ai {
				if removed < len(x.stale) && ((!q.OnlyID && e == "{}") || (q.OnlyID && x.stale[e])) {
					removed++
					continue
				}
				keep = append(keep, e)
			}
			if removed > 0 {
				set[KeyDeleteBodyID] = true
				ai = keep
			}
		}
		// (2) annotations whose list value was posted with mixed integer/float syntax are typed differently in memory:
		//     body ids matched by the store path only, each with such a field named in the query
		{
			cnt := map[string]int{}
			for _, e := range bi {
				cnt[BodyIDOf(e)]++
			}
			for _, e := range ai {
				cnt[BodyIDOf(e)]--
			}
			ok, n := true, 0
			if os.Getenv("C16_DEBUG") != "" {
				fmt.Fprintf(os.Stderr, "DBG explain query-scan: cnt=%v untyped=%v body=%s kind=%s\n", cnt, s.untyped, q.Body, x.kind)
			}
			for id, c := range cnt {
				if c < 0 {
					ok = false
				}
				if c > 0 {
					n++
					hit := false
					for f := range s.untyped[id] {
						if strings.Contains(string(q.Body), `"`+f+`"`) {
							hit = true
						}
					}
					if !hit || id == "" {
						ok = false
					}
				}
			}
			if ok && n > 0 {
				set[KeyUntypedList] = true
				var keep []string
				for _, e := range bi {
					if id := BodyIDOf(e); cnt[id] > 0 {
						cnt[id]--
						continue
					}
					keep = append(keep, e)
				}
				bi = keep
			}
		}
		// (3) the store path returns whole annotations although fields= was given
		if len(q.Fields) > 0 && !q.OnlyID && x.kind == "pair" && len(ai) == len(bi) {
			bm := map[string]string{}
			for _, e := range bi {
				bm[BodyIDOf(e)] = e
			}
			ok, differs := true, false
			var bAdj []string
			for _, e := range bi {
				id := BodyIDOf(e)
				full := x.bFull[id]
				if id == "" || full == nil || CanonV(Project(full, nil, q.Show)) != e {
					ok = false
					break
				}
				p := CanonV(Project(full, q.Fields, q.Show))
				if p != e {
					differs = true
				}
				bAdj = append(bAdj, p)
			}
			if ok && differs {
				cmp, _ := Compare(&Rq{Norm: "set"}, Ans{Items: ai}, Ans{Items: bAdj})
				if !cmp.Any() {
					set[KeyQueryFields] = true
					bi = bAdj
				}
			}
		}
		// (4) same elements, the store path in decimal-string order instead of ascending body id
		dd, _ := Compare(&Rq{Norm: "ordered"}, Ans{Items: ai}, Ans{Items: bi})
		if dd.OrderOnly && s.Style == StyleMixed {
			asc := func(items []string, less func(a, b string) bool) bool {
				for i := 1; i < len(items); i++ {
					if less(BodyIDOf(items[i]), BodyIDOf(items[i-1])) {
						return false
					}
				}
				return true
			}
			if asc(ai, NumLess) && asc(bi, func(a, b string) bool { return a < b }) {
				set[KeyQueryOrder] = true
				dd.OrderOnly = false
			}
		}
		if os.Getenv("C16_DEBUG") != "" {
			fmt.Fprintf(os.Stderr, "DBG explain end: set=%v dd=%+v ai=%d bi=%d\n", set, dd, len(ai), len(bi))
		}
		if dd.Any() {
			return nil
		}
		return keys()
	}
	return nil
}

// compareSnaps evaluates every request of the battery on two snapshots.
func (s *Seq) compareSnaps(bt []Rq, a, b *Snap, kind, what string, nontrivial bool) {
	x := s.context(bt, a, b, kind)
	for i := range bt {
		q := &bt[i]
		if q.Class == "fieldtimes" && kind != "restart-head" {
			continue // only defined for the in-memory head
		}
		aa, bb := a.Ans[i], b.Ans[i]
		hi := aa.Items
		if !ordered(q.Norm) { // unordered answers: the case key must not depend on map iteration order
			hi = append([]string{}, aa.Items...)
			sort.Strings(hi)
		}
		s.C.Case(kind+"|"+q.String()+"|"+drv.Hash(stampRE.ReplaceAllString(strings.Join(hi, "\x00"), "<t>"), fmt.Sprint(aa.Status)), nontrivial)
		s.C.Seen("endpoint_forms", q.Class+"/"+q.Norm+"/"+q.QClass)
		s.C.Count("comparisons_"+kind, 1)
		if aa.Nullish != bb.Nullish {
			s.C.Count("empty_list_as_null_on_one_side_only", 1)
		}
		d, orderObs := Compare(q, aa, bb)
		if orderObs {
			s.C.Count("unordered_endpoint_order_differs_"+q.Class, 1)
		}
		if !d.Any() {
			continue
		}
		ks := s.explain(q, aa, bb, d, x)
		if ks == nil {
			ks = []string{"neuronjson:diff:" + q.Class + ":" + kind}
		}
		names := map[string][2]string{"pair": {"in-memory head " + a.UUID[:8], "store path (committed parent " + b.UUID[:8] + ")"},
			"restart-head":  {"head " + a.UUID[:8] + " before restart", "same version after restart"},
			"restart-store": {"version " + a.UUID[:8] + " before restart", "same version after restart"}}[kind]
		var kinds []string
		if d.Status {
			kinds = append(kinds, fmt.Sprintf("status %d vs %d", aa.Status, bb.Status))
		}
		if len(d.ExtraA) > 0 {
			kinds = append(kinds, "only on first: "+Short(strings.Join(d.ExtraA, " , "), 300))
		}
		if len(d.MissingA) > 0 {
			kinds = append(kinds, "only on second: "+Short(strings.Join(d.MissingA, " , "), 300))
		}
		if d.OrderOnly {
			kinds = append(kinds, "same elements in a different order")
		}
		for _, k := range ks {
			s.viol(k, fmt.Sprintf("%s: %s answers differently on %s and on %s (%s): %s", what, q, names[0], names[1], strings.Join(kinds, "; "), Short(a.Raw[i], 300)+"  VS  "+Short(b.Raw[i], 300)),
				map[string]interface{}{"request": q.String(), "compare": kind, "first": names[0], "second": names[1], "answer_first": a.Raw[i], "answer_second": b.Raw[i],
					"only_first": d.ExtraA, "only_second": d.MissingA, "order_only": d.OrderOnly, "all_keys_for_this_difference": ks})
		}
	}
}

func (s *Seq) nAnnotations() int { return len(s.Exists) }

// Advance commits the head, opens a new version and compares the two read paths on identical data.
func (s *Seq) Advance() error {
	if err := s.Cl.Commit(s.Head); err != nil {
		return fmt.Errorf("commit: %v", err)
	}
	nv, err := s.Cl.NewVersion(s.Head)
	if err != nil {
		return fmt.Errorf("newversion: %v", err)
	}
	s.tr("commit+newversion")
	s.Prev, s.Head = s.Head, nv
	s.C.Count("op_commit_newversion", 1)
	return s.Observe()
}

// Observe compares head (memory) and its committed parent (store); requires identical data (no write since Advance).
func (s *Seq) Observe() error {
	if s.Prev == "" {
		return nil
	}
	bt := s.battery()
	a, err := s.runBattery(bt, s.Head)
	if err != nil {
		return err
	}
	b, err := s.runBattery(bt, s.Prev)
	if err != nil {
		return err
	}
	nt := s.nAnnotations() >= 2 && s.changed
	s.compareSnaps(bt, a, b, "pair", "after commit+newversion", nt)
	s.C.Count("pair_observations", 1)
	if nt {
		s.C.Count("pair_observations_nontrivial", 1)
	}
	s.changed = false
	return nil
}

// Restart ends the worker (clean | abrupt | kill), starts it again on the same directory and compares the same
// versions before/after.  between=true: the restart happens between commit and newversion.
func (s *Seq) Restart(mode string, between bool) error {
	if between {
		if err := s.Cl.Commit(s.Head); err != nil {
			return fmt.Errorf("commit: %v", err)
		}
		s.tr("commit")
	}
	bt := s.battery()
	a1, err := s.runBattery(bt, s.Head)
	if err != nil {
		return err
	}
	var b1 *Snap
	if s.Prev != "" {
		if b1, err = s.runBattery(bt, s.Prev); err != nil {
			return err
		}
	}
	s.tr("restart(%s)", mode)
	switch mode {
	case "kill":
		s.W.Kill()
	default:
		if err := s.W.Exit(mode); err != nil {
			return fmt.Errorf("exit(%s): %v", mode, err)
		}
	}
	w, err := drv.StartWorker(s.Bin, s.W.Dir, drv.StartOpts{})
	if err != nil {
		st := ""
		if w != nil {
			st = drv.FatalInStderr(w.Stderr())
		}
		return fmt.Errorf("restart after %s exit: %v; stderr: %s", mode, err, st)
	}
	s.W = w
	s.Cl.W = w
	s.C.Count("op_restart_"+mode, 1)
	nt := s.nAnnotations() >= 2
	a2, err := s.runBattery(bt, s.Head)
	if err != nil {
		return err
	}
	s.compareSnaps(bt, a1, a2, "restart-head", "restart ("+mode+")", nt)
	if b1 != nil {
		b2, err := s.runBattery(bt, s.Prev)
		if err != nil {
			return err
		}
		s.compareSnaps(bt, b1, b2, "restart-store", "restart ("+mode+")", nt)
	}
	s.resetEpoch()
	s.lockedStart = between
	if between {
		nv, err := s.Cl.NewVersion(s.Head)
		if err != nil {
			return fmt.Errorf("newversion: %v", err)
		}
		s.tr("newversion")
		s.Prev, s.Head = s.Head, nv
		s.C.Count("op_commit_restart_newversion", 1)
		return s.Observe()
	}
	return nil
}
