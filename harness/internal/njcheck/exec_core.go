package njcheck

import (
	"fmt"
	"math/rand"
	"strconv"
	"strings"
	"time"

	"verif/harness/internal/drv"
	"verif/harness/internal/dvc"
)

// Viol is one violation found in a sequence (reported by the driver after all sequences, first per key).
type Viol struct {
	Key     string
	What    string
	Witness interface{}
}

// Seq is one history on one neuronjson instance ("nj") in its own repo.
type Seq struct {
	C    *drv.Ctx
	Name string
	R    *rand.Rand
	Bin  string
	W    *drv.Worker
	Cl   *dvc.Client

	Root, Head, Prev string
	IDs              []uint64
	Style            string
	IntFloat         bool
	NQ               int
	Extra            []Rq // scripted scenarios: requests added to every battery

	Trace  []string
	Viols  []Viol
	Exists map[uint64]bool
	Last   map[uint64]*Annotation // last accepted POST body per id

	changed bool // an accepted mutation since the last observation
	// bookkeeping per life of the in-memory database (reset at restart): used only to attribute differences
	nullRemovals map[string]int
	untyped      map[string]map[string]bool
	lastChange   map[string]time.Time
	// the worker was started while the master head was committed (locked) and json_schema has not been posted since
	lockedStart bool
	TimeGuard   time.Duration
}

func NewSeq(c *drv.Ctx, name string, r *rand.Rand, bin string, w *drv.Worker) (*Seq, error) {
	s := &Seq{C: c, Name: name, R: r, Bin: bin, W: w, Cl: &dvc.Client{W: w}, NQ: 22,
		Exists: map[uint64]bool{}, Last: map[uint64]*Annotation{}, lastChange: map[string]time.Time{}, TimeGuard: 2500 * time.Millisecond}
	s.resetEpoch()
	root, err := s.Cl.NewRepo("c16-" + name)
	if err != nil {
		return nil, err
	}
	if err := s.Cl.NewInstance(root, "neuronjson", "nj", nil); err != nil {
		return nil, err
	}
	s.Root, s.Head = root, root
	return s, nil
}

func (s *Seq) resetEpoch() {
	s.nullRemovals = map[string]int{}
	s.untyped = map[string]map[string]bool{}
}

func (s *Seq) url(uuid, path string) string { return "/api/node/" + uuid + "/nj/" + path }

func (s *Seq) tr(format string, a ...interface{}) {
	s.Trace = append(s.Trace, fmt.Sprintf(format, a...))
}

func (s *Seq) viol(key, what string, detail map[string]interface{}) {
	if detail == nil {
		detail = map[string]interface{}{}
	}
	detail["sequence"] = s.Name
	detail["id_style"] = s.Style
	detail["trace"] = append([]string{}, s.Trace...)
	s.Viols = append(s.Viols, Viol{key, fmt.Sprintf("[%s] %s; history: %s", s.Name, what, Short(strings.Join(s.Trace, " ; "), 1500)), detail})
	s.C.Count("violations_by_key:"+key, 1)
}

// readFull returns the annotation with all stamps as served at the head (nil if 404).
func (s *Seq) readFull(id uint64) (map[string]interface{}, error) {
	r, err := s.W.Get(s.url(s.Head, "key/"+strconv.FormatUint(id, 10)+"?show=all"))
	if err != nil {
		return nil, err
	}
	if r.Status == 404 {
		return nil, nil
	}
	if !r.OK() {
		return nil, fmt.Errorf("GET key %d at head: %s", id, r)
	}
	return Obj(r.Body)
}

func isMeta(f string) bool { return strings.HasSuffix(f, "_user") || strings.HasSuffix(f, "_time") }

func canonOf(v interface{}) string { return CanonV(v) }

// PostOpts selects the flavour of a POST.
type PostOpts struct {
	User    string
	Replace bool
	Cond    []string
}

func (o PostOpts) qs() string {
	p := "?u=" + o.User
	if o.Replace {
		p += "&replace=true"
	}
	if len(o.Cond) > 0 {
		p += "&conditionals=" + strings.Join(o.Cond, ",")
	}
	return p
}

// Post sends annotations (one = POST key, batch = POST keyvalues) and evaluates the update rules on each.
func (s *Seq) Post(as []*Annotation, o PostOpts, batch bool) error {
	before := make([]map[string]interface{}, len(as))
	for i, a := range as {
		b, err := s.readFull(a.ID)
		if err != nil {
			return err
		}
		before[i] = b
	}
	var r drv.Resp
	var err error
	if batch {
		var kvs []KV
		var desc []string
		for _, a := range as {
			kvs = append(kvs, KV{strconv.FormatUint(a.ID, 10), []byte(a.JSON())})
			desc = append(desc, a.JSON())
		}
		s.tr("POST keyvalues%s [%s]", o.qs(), strings.Join(desc, ", "))
		r, err = s.W.Post(s.url(s.Head, "keyvalues"+o.qs()), EncodeKeyValues(kvs))
		s.C.Count("op_post_keyvalues", 1)
	} else {
		a := as[0]
		s.tr("POST key/%d%s %s", a.ID, o.qs(), a.JSON())
		r, err = s.W.Post(s.url(s.Head, fmt.Sprintf("key/%d%s", a.ID, o.qs())), []byte(a.JSON()))
		s.C.Count("op_post_key", 1)
	}
	if err != nil {
		return err
	}
	switch {
	case o.Replace:
		s.C.Count("op_flavour_replace", 1)
	case len(o.Cond) > 0:
		s.C.Count("op_flavour_conditionals", 1)
	default:
		s.C.Count("op_flavour_plain", 1)
	}
	if !r.OK() {
		s.Trace[len(s.Trace)-1] += fmt.Sprintf(" -> %d", r.Status)
		s.C.Count("mutations_refused", 1)
		s.C.Seen("refusal_reasons", Short(strings.ReplaceAll(string(r.Body), s.Head, "<head>"), 90))
		if batch {
			s.changed = true // a batch may have been applied partly: stamps of its annotations may have moved unobserved
			for _, a := range as {
				pre := strconv.FormatUint(a.ID, 10) + "|"
				for k := range s.lastChange {
					if strings.HasPrefix(k, pre) {
						delete(s.lastChange, k)
					}
				}
				// ... and a list written in float syntax by the applied part is held untyped in memory like any other
				for f, t := range a.Toks {
					if t.Class == "intfloatlist" {
						ids := strconv.FormatUint(a.ID, 10)
						if s.untyped[ids] == nil {
							s.untyped[ids] = map[string]bool{}
						}
						s.untyped[ids][f] = true
					}
				}
			}
		}
		return nil
	}
	s.changed = true
	now := time.Now()
	for i, a := range as {
		after, err := s.readFull(a.ID)
		if err != nil {
			return err
		}
		s.checkRules(a, o, before[i], after, now)
		s.Exists[a.ID] = true
		s.Last[a.ID] = a
		ids := strconv.FormatUint(a.ID, 10)
		if o.Replace {
			delete(s.untyped, ids)
		}
		for f, t := range a.Toks {
			s.C.Seen("value_classes_posted", t.Class)
			if t.JSON == "null" {
				if before[i] != nil && before[i][f] != nil {
					s.nullRemovals[f]++
					s.C.Count("null_removed_existing_field", 1)
				}
			}
			if t.Class == "intfloatlist" {
				if s.untyped[ids] == nil {
					s.untyped[ids] = map[string]bool{}
				}
				s.untyped[ids][f] = true
			} else if s.untyped[ids] != nil {
				// protected by conditionals = not overwritten
				prot := false
				for _, cf := range o.Cond {
					if cf == f && before[i] != nil && before[i][f] != nil {
						prot = true
					}
				}
				if !prot {
					delete(s.untyped[ids], f)
				}
			}
		}
	}
	return nil
}

func (s *Seq) checkRules(a *Annotation, o PostOpts, before, after map[string]interface{}, now time.Time) {
	detail := func(f string) map[string]interface{} {
		return map[string]interface{}{"posted": a.JSON(), "options": o.qs(), "field": f, "before": before, "after": after}
	}
	caseKey := func(rule, f string) {
		bv, av := "", ""
		if before != nil {
			bv = canonOf(before[f])
		}
		if after != nil {
			av = canonOf(after[f])
		}
		s.C.Case("rule|"+rule+"|"+f+"|"+bv+"|"+a.Toks[f].JSON+"|"+av+"|"+fmt.Sprint(o.Replace, o.Cond), before != nil)
		s.C.Count("rule_evals_"+rule, 1)
	}
	if after == nil {
		s.viol("neuronjson:rule:posted-annotation-missing", fmt.Sprintf("POST of %s was accepted but GET key/%d at the head is 404", a.JSON(), a.ID), detail(""))
		return
	}
	ids := strconv.FormatUint(a.ID, 10)
	stampAt := func(lc string) (time.Time, bool) { t, ok := s.lastChange[lc]; return t, ok }
	// R1: a field not mentioned in a non-replace POST keeps its value
	if !o.Replace && before != nil {
		for f, bv := range before {
			if isMeta(f) || f == "bodyid" {
				continue
			}
			if _, mentioned := a.Toks[f]; mentioned {
				continue
			}
			caseKey("unmentioned", f)
			if av, ok := after[f]; !ok || canonOf(av) != canonOf(bv) {
				s.viol("neuronjson:rule:unmentioned-field-changed", fmt.Sprintf("field %q was not mentioned in non-replace POST %s%s but changed from %s to %s", f, a.JSON(), o.qs(), canonOf(bv), canonOf(after[f])), detail(f))
			}
		}
	}
	// R2: a field posted as null no longer has a value
	for f, t := range a.Toks {
		if t.JSON != "null" {
			continue
		}
		caseKey("null", f)
		if av, ok := after[f]; ok && av != nil {
			s.viol("neuronjson:rule:null-field-still-set", fmt.Sprintf("field %q posted as null by %s%s still has value %s", f, a.JSON(), o.qs(), canonOf(av)), detail(f))
		}
	}
	// documented "conditionals": a listed field that is set is not overwritten
	for _, f := range o.Cond {
		if before == nil || before[f] == nil || o.Replace {
			continue
		}
		if t, ok := a.Toks[f]; ok && t.JSON != "null" {
			caseKey("conditional", f)
			if canonOf(after[f]) != canonOf(before[f]) {
				s.viol("neuronjson:rule:conditional-overwritten", fmt.Sprintf("conditional field %q was set to %s and was overwritten by %s%s (now %s)", f, canonOf(before[f]), a.JSON(), o.qs(), canonOf(after[f])), detail(f))
			}
		}
	}
	// R3: F_user / F_time change only when F's value changes, and do change when it does
	for f, av := range after {
		if isMeta(f) || f == "bodyid" || av == nil {
			continue
		}
		var bv interface{}
		had := false
		if before != nil {
			bv, had = before[f]
			had = had && bv != nil
		}
		tk := a.Toks[f]
		lc := ids + "|" + f
		if had && canonOf(av) == canonOf(bv) {
			if _, explicit := a.Stamps[f]; explicit {
				continue
			}
			caseKey("stamp-keep", f)
			for _, suf := range []string{"_user", "_time"} {
				bs, ok := before[f+suf]
				if !ok {
					continue
				}
				if as, ok := after[f+suf]; !ok || canonOf(as) != canonOf(bs) {
					key := "neuronjson:rule:stamp-changed-value-unchanged"
					if tk.Class == "intfloat" || tk.Class == "intfloatlist" {
						key = "neuronjson:rule:stamp-changed-intfloat-repost"
					}
					s.viol(key, fmt.Sprintf("value of %q is unchanged (%s) after %s%s, yet %s changed from %s to %s", f, canonOf(av), a.JSON(), o.qs(), f+suf, canonOf(bs), canonOf(after[f+suf])), detail(f))
					break
				}
			}
			continue
		}
		// new or changed value
		if _, mentioned := a.Toks[f]; !mentioned {
			continue // judged by R1
		}
		caseKey("stamp-update", f)
		wantUser := o.User
		if st, ok := a.Stamps[f]; ok && st[0] != "" {
			wantUser = st[0]
		}
		if us, _ := after[f+"_user"].(string); us != wantUser {
			s.viol("neuronjson:rule:stamp-not-updated-value-changed", fmt.Sprintf("value of %q changed (%s -> %s) by %s%s but %s_user is %s, expected %q", f, canonOf(bv), canonOf(av), a.JSON(), o.qs(), f, canonOf(after[f+"_user"]), wantUser), detail(f))
		}
		ts, hasT := after[f+"_time"].(string)
		if st, ok := a.Stamps[f]; ok && st[1] != "" {
			if ts != st[1] {
				s.viol("neuronjson:rule:explicit-stamp-not-kept", fmt.Sprintf("explicit %s_time %q posted with %s%s, stored %q", f, st[1], a.JSON(), o.qs(), ts), detail(f))
			}
		} else if !hasT {
			s.viol("neuronjson:rule:stamp-not-updated-value-changed", fmt.Sprintf("value of %q changed by %s%s but there is no %s_time", f, a.JSON(), o.qs(), f), detail(f))
		} else if had {
			if bt, ok := before[f+"_time"].(string); ok && bt == ts {
				old := strings.HasPrefix(bt, "2001-") // explicit stamp of the dedicated sub-test: certainly not "now"
				if t0, seen := stampAt(lc); old || (seen && now.Sub(t0) >= s.TimeGuard) {
					s.C.Count("rule_time_must_change_armed", 1)
					s.viol("neuronjson:rule:stamp-time-not-updated", fmt.Sprintf("value of %q changed (%s -> %s) by %s%s but %s_time stayed %q", f, canonOf(bv), canonOf(av), a.JSON(), o.qs(), f, ts), detail(f))
				}
			} else if t0, seen := stampAt(lc); seen && now.Sub(t0) >= s.TimeGuard {
				s.C.Count("rule_time_must_change_armed", 1)
			}
		}
	}
	// remember when each F_time was last seen to change (the guard of the "F_time does change" assertion)
	for f, av := range after {
		if !strings.HasSuffix(f, "_time") {
			continue
		}
		if before == nil || canonOf(before[f]) != canonOf(av) {
			s.lastChange[ids+"|"+strings.TrimSuffix(f, "_time")] = now
		}
	}
}

// Delete removes an annotation at the head.
func (s *Seq) Delete(id uint64, user string) error {
	s.tr("DELETE key/%d?u=%s", id, user)
	r, err := s.W.Delete(s.url(s.Head, fmt.Sprintf("key/%d?u=%s", id, user)))
	if err != nil {
		return err
	}
	s.C.Count("op_delete_key", 1)
	if !r.OK() {
		s.Trace[len(s.Trace)-1] += fmt.Sprintf(" -> %d", r.Status)
		s.C.Count("mutations_refused", 1)
		return nil
	}
	if s.Exists[id] {
		s.changed = true
	}
	delete(s.Exists, id)
	delete(s.Last, id)
	delete(s.untyped, strconv.FormatUint(id, 10))
	return nil
}

// Meta posts or deletes one of the schema documents (which = json_schema | schema | schema_batch | key/schema | key/schema_batch).
func (s *Seq) Meta(which, body, user string) error {
	var r drv.Resp
	var err error
	if body == "" {
		s.tr("DELETE %s?u=%s", which, user)
		r, err = s.W.Delete(s.url(s.Head, which+"?u="+user))
	} else {
		s.tr("POST %s?u=%s <%d bytes>", which, user, len(body))
		r, err = s.W.Post(s.url(s.Head, which+"?u="+user), []byte(body))
	}
	if err != nil {
		return err
	}
	s.C.Count("op_schema_"+strings.ReplaceAll(which, "/", "-"), 1)
	if !r.OK() {
		s.Trace[len(s.Trace)-1] += fmt.Sprintf(" -> %d", r.Status)
		s.C.Count("mutations_refused", 1)
		return nil
	}
	s.changed = true
	if which == "json_schema" && body != "" {
		s.lockedStart = false
	}
	return nil
}
