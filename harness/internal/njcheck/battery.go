package njcheck

import (
	"encoding/json"
	"fmt"
	"math/rand"
	"sort"
	"strconv"
	"strings"
)

// Rq is one read request of the battery (path is relative to /api/node/<uuid>/<instance>/).
type Rq struct {
	Class  string // keys all fields counts fieldtimes key head keyrange krv kv query-ids query-scan schema
	Method string
	Path   string
	Body   []byte
	Norm   string // set ordered json pbset pbord tarset tarord status raw
	// facts used by the explanation predicates
	Fields []string // fields= option
	Show   string   // show= option
	OnlyID bool
	Beg    string
	End    string
	QClass string
	QField string
}

func (q *Rq) String() string {
	s := q.Method + " " + q.Path
	if len(q.Body) > 0 {
		if q.Norm == "pbord" {
			s += " <protobuf Keys>"
		} else {
			s += " " + string(q.Body)
		}
	}
	return s
}

// Ans is a normalised answer.
type Ans struct {
	Status  int
	Items   []string // canonical elements in response order (one element for json/raw)
	Nullish bool     // an empty list rendered as JSON null
	Bad     string   // non-empty if a 2xx body could not be decoded as its format
}

func opt(parts ...string) string {
	var p []string
	for _, s := range parts {
		if s != "" {
			p = append(p, s)
		}
	}
	if len(p) == 0 {
		return ""
	}
	return "?" + strings.Join(p, "&")
}

type viewOpt struct {
	fields []string
	show   string
}

func (v viewOpt) qs() []string {
	var p []string
	if len(v.fields) > 0 {
		p = append(p, "fields="+strings.Join(v.fields, ","))
	}
	if v.show != "" {
		p = append(p, "show="+v.show)
	}
	return p
}

func randView(r *rand.Rand) viewOpt {
	var v viewOpt
	switch r.Intn(6) {
	case 0:
		v.show = "all"
	case 1:
		v.show = "user"
	case 2:
		v.show = "time"
	}
	if r.Intn(3) == 0 {
		names := []string{"type", "status", "group", "size", "pos", "tags", "meta", "flag", "note", "nosuch", "bodyid"}
		n := 1 + r.Intn(3)
		for i := 0; i < n; i++ {
			v.fields = append(v.fields, names[r.Intn(len(names))])
		}
	}
	return v
}

func idStrs(ids []uint64) []string {
	out := make([]string, len(ids))
	for i, v := range ids {
		out[i] = strconv.FormatUint(v, 10)
	}
	return out
}

// Battery builds the read requests for one observation point.  ids = the id pool of the sequence (sorted),
// nq = number of query bodies.
func Battery(r *rand.Rand, ids []uint64, nq int) []Rq {
	var out []Rq
	add := func(q Rq) { out = append(out, q) }
	get := func(class, path, norm string) Rq { return Rq{Class: class, Method: "GET", Path: path, Norm: norm} }

	add(get("keys", "keys", "set"))
	add(get("all", "all", "set"))
	add(get("all", "all?show=all", "set"))
	for i := 0; i < 2; i++ {
		v := randView(r)
		q := get("all", "all"+opt(v.qs()...), "set")
		q.Fields, q.Show = v.fields, v.show
		add(q)
	}
	add(get("fields", "fields", "set"))
	add(get("counts", "fields?counts=true", "json"))
	add(get("fieldtimes", "fieldtimes", "json"))
	for _, s := range []string{"json_schema", "schema", "schema_batch", "key/schema", "key/schema_batch"} {
		add(get("schema", s, "raw"))
	}
	for _, s := range []string{"json_schema", "schema", "schema_batch"} {
		add(Rq{Class: "schema", Method: "HEAD", Path: s, Norm: "status"})
	}

	// point reads: every pool id + an id outside the pool
	probe := append([]uint64{}, ids...)
	probe = append(probe, ids[len(ids)-1]-1, 4242424242)
	for _, id := range probe {
		k := strconv.FormatUint(id, 10)
		add(Rq{Class: "head", Method: "HEAD", Path: "key/" + k, Norm: "status"})
		add(get("key", "key/"+k+"?show=all", "json"))
		v := randView(r)
		q := get("key", "key/"+k+opt(v.qs()...), "json")
		q.Fields, q.Show = v.fields, v.show
		add(q)
	}

	// ranges
	type rg struct{ b, e string }
	ks := idStrs(ids)
	rgs := []rg{{"0", "a"}, {ks[0], ks[len(ks)-1]}, {ks[len(ks)-1], ks[0]}, {"0", ks[0]}, {ks[len(ks)-1], "a"}}
	for i := 0; i < 4; i++ {
		a, b := r.Intn(len(ids)), r.Intn(len(ids))
		if a > b {
			a, b = b, a
		}
		lo, hi := ids[a], ids[b]
		switch r.Intn(4) {
		case 0:
			lo++
		case 1:
			if hi > 1 {
				hi--
			}
		case 2:
			if lo > 1 {
				lo--
			}
			hi++
		}
		rgs = append(rgs, rg{strconv.FormatUint(lo, 10), strconv.FormatUint(hi, 10)})
	}
	for i, g := range rgs {
		q := get("keyrange", "keyrange/"+g.b+"/"+g.e, "set")
		q.Beg, q.End = g.b, g.e
		add(q)
		v := randView(r)
		var q2 Rq
		switch i % 3 {
		case 0:
			q2 = get("krv", "keyrangevalues/"+g.b+"/"+g.e+opt(append([]string{"json=true"}, v.qs()...)...), "json")
		case 1:
			q2 = get("krv", "keyrangevalues/"+g.b+"/"+g.e+opt(v.qs()...), "pbset")
		default:
			q2 = get("krv", "keyrangevalues/"+g.b+"/"+g.e+opt(append([]string{"tar=true"}, v.qs()...)...), "tarset")
		}
		q2.Beg, q2.End, q2.Fields, q2.Show = g.b, g.e, v.fields, v.show
		add(q2)
	}

	// keyvalues: explicit key lists in request order (includes a missing key)
	for i := 0; i < 4; i++ {
		n := 1 + r.Intn(len(probe))
		perm := r.Perm(len(probe))[:n]
		var sel []uint64
		for _, p := range perm {
			sel = append(sel, probe[p])
		}
		strs := idStrs(sel)
		v := randView(r)
		var q Rq
		switch i {
		case 0:
			b, _ := json.Marshal(strs)
			q = Rq{Class: "kv", Method: "GET", Path: "keyvalues" + opt(append([]string{"json=true"}, v.qs()...)...), Body: b, Norm: "json"}
		case 1:
			b := "[" + strings.Join(strs, ",") + "]"
			q = Rq{Class: "kv", Method: "GET", Path: "keyvalues" + opt(append([]string{"json=true"}, v.qs()...)...), Body: []byte(b), Norm: "json"}
		case 2:
			b, _ := json.Marshal(strs)
			q = Rq{Class: "kv", Method: "GET", Path: "keyvalues" + opt(append([]string{"jsontar=true"}, v.qs()...)...), Body: b, Norm: "tarord"}
		default:
			q = Rq{Class: "kv", Method: "GET", Path: "keyvalues" + opt(v.qs()...), Body: EncodeKeys(strs), Norm: "pbord"}
		}
		q.Fields, q.Show = v.fields, v.show
		add(q)
	}

	// queries
	for i, qu := range GenQueries(r, ids, nq) {
		v := randView(r)
		onlyid := r.Intn(5) == 0
		parts := v.qs()
		if onlyid {
			parts = append(parts, "onlyid=true")
		}
		m := "GET"
		if i%3 == 2 {
			m = "POST"
		}
		class := "query-scan"
		if qu.Class == "bodyid" {
			class = "query-ids"
		}
		add(Rq{Class: class, Method: m, Path: "query" + opt(parts...), Body: []byte(qu.Body), Norm: "ordered",
			Fields: v.fields, Show: v.show, OnlyID: onlyid, QClass: qu.Class, QField: qu.Field})
	}
	return out
}

// Normalise turns a raw response into its comparable form.
func Normalise(q *Rq, status int, body []byte) Ans {
	a := Ans{Status: status}
	if status < 200 || status > 299 {
		return a
	}
	kvItems := func(kvs []KV) {
		for _, kv := range kvs {
			v := "<nil>"
			if len(kv.Value) > 0 {
				v = Canon(kv.Value)
			}
			a.Items = append(a.Items, kv.Key+"="+v)
		}
	}
	switch q.Norm {
	case "status":
	case "raw":
		a.Items = []string{string(body)}
	case "json":
		a.Items = []string{Canon(body)}
		if strings.HasPrefix(a.Items[0], "!notjson:") {
			a.Bad = "body is not JSON"
		}
	case "set", "ordered":
		el, err := Elems(body)
		if err != nil {
			a.Bad = err.Error()
			a.Items = []string{"!" + string(body)}
			return a
		}
		a.Items = el
		a.Nullish = strings.TrimSpace(string(body)) == "null"
	case "pbset", "pbord":
		kvs, err := DecodeKeyValues(body)
		if err != nil {
			a.Bad = err.Error()
		}
		kvItems(kvs)
	case "tarset", "tarord":
		kvs, err := DecodeTar(body)
		if err != nil {
			a.Bad = err.Error()
		}
		kvItems(kvs)
	}
	return a
}

// Diff of two answers: elements only in A, only in B (multiset), and whether only the order differs.
type Diff struct {
	Status    bool
	ExtraA    []string
	MissingA  []string
	OrderOnly bool
}

func (d *Diff) Any() bool { return d.Status || len(d.ExtraA) > 0 || len(d.MissingA) > 0 || d.OrderOnly }

func ordered(norm string) bool {
	switch norm {
	case "ordered", "pbord", "tarord", "json", "raw":
		return true
	}
	return false
}

// Compare computes the difference.  For set-normalised requests an order difference is reported in
// orderObs only (not part of the Diff).
func Compare(q *Rq, a, b Ans) (d Diff, orderObs bool) {
	if a.Status != b.Status {
		d.Status = true
		return
	}
	cnt := map[string]int{}
	for _, s := range a.Items {
		cnt[s]++
	}
	for _, s := range b.Items {
		cnt[s]--
	}
	var keys []string
	for k := range cnt {
		keys = append(keys, k)
	}
	sort.Strings(keys)
	for _, k := range keys {
		for n := cnt[k]; n > 0; n-- {
			d.ExtraA = append(d.ExtraA, k)
		}
		for n := cnt[k]; n < 0; n++ {
			d.MissingA = append(d.MissingA, k)
		}
	}
	if len(d.ExtraA) == 0 && len(d.MissingA) == 0 {
		same := true
		for i := range a.Items {
			if a.Items[i] != b.Items[i] {
				same = false
				break
			}
		}
		if !same {
			if ordered(q.Norm) {
				d.OrderOnly = true
			} else {
				orderObs = true
			}
		}
	}
	return
}

// Project applies the documented fields=/show= selection to a full (show=all) annotation: bodyid always, the listed
// fields (all when none listed), plus their _user/_time stamps as show says.
func Project(full map[string]interface{}, fields []string, show string) map[string]interface{} {
	su := show == "user" || show == "all"
	st := show == "time" || show == "all"
	out := map[string]interface{}{}
	if v, ok := full["bodyid"]; ok {
		out["bodyid"] = v
	}
	if len(fields) > 0 {
		for _, f := range fields {
			if f == "bodyid" {
				continue
			}
			if v, ok := full[f]; ok {
				out[f] = v
			}
			if v, ok := full[f+"_user"]; ok && su {
				out[f+"_user"] = v
			}
			if v, ok := full[f+"_time"]; ok && st {
				out[f+"_time"] = v
			}
		}
		return out
	}
	for k, v := range full {
		if strings.HasSuffix(k, "_user") && !su {
			continue
		}
		if strings.HasSuffix(k, "_time") && !st {
			continue
		}
		out[k] = v
	}
	return out
}

// NumLess orders decimal strings numerically.
func NumLess(a, b string) bool {
	if len(a) != len(b) {
		return len(a) < len(b)
	}
	return a < b
}

func Unquote(canon string) string {
	var s string
	if json.Unmarshal([]byte(canon), &s) == nil {
		return s
	}
	return canon
}

func Short(s string, n int) string {
	if len(s) > n {
		return s[:n] + fmt.Sprintf("…(+%d)", len(s)-n)
	}
	return s
}
