// Package njcheck holds the driver-side helpers of check C16 (neuronjson differential): wire formats
// (protobuf Keys/KeyValues, tar), JSON canonicalisation, value generators.  It links nothing from /repo.
package njcheck

import (
	"archive/tar"
	"bytes"
	"encoding/json"
	"fmt"
	"io"
	"sort"
	"strconv"
	"strings"
)

// KV is one key/value of the protobuf KeyValues message (KeyValue{string key=1; bytes value=2}).
type KV struct {
	Key   string
	Value []byte
}

func putVarint(b []byte, v uint64) []byte {
	for v >= 0x80 {
		b = append(b, byte(v)|0x80)
		v >>= 7
	}
	return append(b, byte(v))
}

func putBytes(b []byte, field int, p []byte) []byte {
	b = putVarint(b, uint64(field<<3|2))
	b = putVarint(b, uint64(len(p)))
	return append(b, p...)
}

// EncodeKeys serialises message Keys { repeated string keys = 1; }.
func EncodeKeys(keys []string) []byte {
	var b []byte
	for _, k := range keys {
		b = putBytes(b, 1, []byte(k))
	}
	return b
}

// EncodeKeyValues serialises message KeyValues { repeated KeyValue kvs = 1; }.
func EncodeKeyValues(kvs []KV) []byte {
	var b []byte
	for _, kv := range kvs {
		var m []byte
		m = putBytes(m, 1, []byte(kv.Key))
		m = putBytes(m, 2, kv.Value)
		b = putBytes(b, 1, m)
	}
	return b
}

func getVarint(b []byte) (uint64, int) {
	var v uint64
	for i := 0; i < len(b) && i < 10; i++ {
		v |= uint64(b[i]&0x7f) << (7 * uint(i))
		if b[i] < 0x80 {
			return v, i + 1
		}
	}
	return 0, 0
}

// fields splits a message into (field number, payload) of its length-delimited fields.
func fields(b []byte) ([][2]interface{}, error) {
	var out [][2]interface{}
	for len(b) > 0 {
		tag, n := getVarint(b)
		if n == 0 {
			return nil, fmt.Errorf("bad varint tag")
		}
		b = b[n:]
		switch tag & 7 {
		case 2:
			l, n := getVarint(b)
			if n == 0 || uint64(len(b)-n) < l {
				return nil, fmt.Errorf("truncated length-delimited field")
			}
			out = append(out, [2]interface{}{int(tag >> 3), b[n : n+int(l)]})
			b = b[n+int(l):]
		case 0:
			_, n := getVarint(b)
			if n == 0 {
				return nil, fmt.Errorf("bad varint")
			}
			b = b[n:]
		default:
			return nil, fmt.Errorf("unexpected wire type %d", tag&7)
		}
	}
	return out, nil
}

// DecodeKeyValues parses a KeyValues message.
func DecodeKeyValues(b []byte) ([]KV, error) {
	top, err := fields(b)
	if err != nil {
		return nil, err
	}
	var out []KV
	for _, f := range top {
		if f[0].(int) != 1 {
			continue
		}
		sub, err := fields(f[1].([]byte))
		if err != nil {
			return nil, err
		}
		var kv KV
		for _, s := range sub {
			switch s[0].(int) {
			case 1:
				kv.Key = string(s[1].([]byte))
			case 2:
				kv.Value = append([]byte{}, s[1].([]byte)...)
			}
		}
		out = append(out, kv)
	}
	return out, nil
}

// DecodeTar lists (name, content) of a tar stream.
func DecodeTar(b []byte) ([]KV, error) {
	tr := tar.NewReader(bytes.NewReader(b))
	var out []KV
	for {
		h, err := tr.Next()
		if err == io.EOF {
			return out, nil
		}
		if err != nil {
			return out, err
		}
		p, err := io.ReadAll(tr)
		if err != nil {
			return out, err
		}
		out = append(out, KV{h.Name, p})
	}
}

// ---------- canonical JSON ----------

func canonNumber(s string) string {
	if u, err := strconv.ParseUint(s, 10, 64); err == nil {
		return strconv.FormatUint(u, 10)
	}
	if i, err := strconv.ParseInt(s, 10, 64); err == nil {
		return strconv.FormatInt(i, 10)
	}
	if f, err := strconv.ParseFloat(s, 64); err == nil {
		return strconv.FormatFloat(f, 'g', -1, 64)
	}
	return s
}

func canonValue(v interface{}, sb *strings.Builder) {
	switch x := v.(type) {
	case map[string]interface{}:
		keys := make([]string, 0, len(x))
		for k := range x {
			keys = append(keys, k)
		}
		sort.Strings(keys)
		sb.WriteByte('{')
		for i, k := range keys {
			if i > 0 {
				sb.WriteByte(',')
			}
			kb, _ := json.Marshal(k)
			sb.Write(kb)
			sb.WriteByte(':')
			canonValue(x[k], sb)
		}
		sb.WriteByte('}')
	case []interface{}:
		sb.WriteByte('[')
		for i, e := range x {
			if i > 0 {
				sb.WriteByte(',')
			}
			canonValue(e, sb)
		}
		sb.WriteByte(']')
	case json.Number:
		sb.WriteString(canonNumber(string(x)))
	default:
		b, _ := json.Marshal(x)
		sb.Write(b)
	}
}

// Parse decodes JSON keeping number tokens (no float64 rounding of 2^53+1).
func Parse(b []byte) (interface{}, error) {
	dec := json.NewDecoder(bytes.NewReader(b))
	dec.UseNumber()
	var v interface{}
	if err := dec.Decode(&v); err != nil {
		return nil, err
	}
	if dec.More() {
		return nil, fmt.Errorf("trailing data after JSON value")
	}
	return v, nil
}

// CanonV renders a parsed value canonically: object keys sorted, numbers normalised
// (integers as decimal, others as shortest float64 form), array order kept.
func CanonV(v interface{}) string {
	var sb strings.Builder
	canonValue(v, &sb)
	return sb.String()
}

// Canon canonicalises JSON text; text that is not JSON is returned verbatim with a marker.
func Canon(b []byte) string {
	v, err := Parse(b)
	if err != nil {
		return "!notjson:" + string(b)
	}
	return CanonV(v)
}

// Obj parses a JSON object into field -> parsed value.
func Obj(b []byte) (map[string]interface{}, error) {
	v, err := Parse(b)
	if err != nil {
		return nil, err
	}
	m, ok := v.(map[string]interface{})
	if !ok {
		return nil, fmt.Errorf("not a JSON object: %s", Canon(b))
	}
	return m, nil
}

// Elems parses a JSON array and returns the canonical form of each element.
func Elems(b []byte) ([]string, error) {
	v, err := Parse(b)
	if err != nil {
		return nil, err
	}
	if v == nil {
		return nil, nil // "null" = empty list (Go nil slice)
	}
	l, ok := v.([]interface{})
	if !ok {
		return nil, fmt.Errorf("not a JSON array")
	}
	out := make([]string, len(l))
	for i, e := range l {
		out[i] = CanonV(e)
	}
	return out, nil
}

// BodyIDOf extracts the decimal bodyid of a canonical JSON object ("" if none).
func BodyIDOf(canon string) string {
	v, err := Parse([]byte(canon))
	if err != nil {
		return ""
	}
	m, ok := v.(map[string]interface{})
	if !ok {
		if n, ok := v.(json.Number); ok {
			return string(n)
		}
		return ""
	}
	if n, ok := m["bodyid"].(json.Number); ok {
		return string(n)
	}
	return ""
}
