// Package mixed drives a random sequence of WELL-FORMED requests across all modelled data types
// (repo/DAG ops, keyvalue, labelmap proofreading, annotation + labelsz, neuronjson, roi, imageblk)
// and takes full observable snapshots.  It carries only as much tracking state as is needed to
// keep requests valid (which bodies / supervoxels / elements / keys exist at which version); it is
// not an oracle by itself.  Used by C03 (restart differential), C04 (crash sweep), C02 (read
// stability), C12 (id event log) and as the valid-request population of C20.
package mixed

import (
	"bytes"
	"encoding/binary"
	"encoding/json"
	"fmt"
	"math/rand"
	"sort"
	"strings"
	"time"

	"verif/harness/internal/drv"
	"verif/harness/internal/dvc"
)

type box struct{ x0, y0, z0, x1, y1, z1 int } // half-open

func (b box) vol() int { return (b.x1 - b.x0) * (b.y1 - b.y0) * (b.z1 - b.z0) }

type elem struct {
	Pos  [3]int
	Kind string
	Tags []string
}

// nodeState is the tracking state of one version (copied to children on creation).
type nodeState struct {
	svBox  map[uint64]box    // live supervoxels and their geometry
	svBody map[uint64]uint64 // supervoxel -> body
	elems  map[[3]int]elem
	nj     map[uint64]bool
	kv     map[string]bool
	img    map[[3]int]bool
	roi    bool
	noData bool // merge nodes: no per-type mutations are issued here
}

func (s *nodeState) clone() *nodeState {
	c := &nodeState{svBox: map[uint64]box{}, svBody: map[uint64]uint64{}, elems: map[[3]int]elem{}, nj: map[uint64]bool{}, kv: map[string]bool{}, img: map[[3]int]bool{}, roi: s.roi, noData: s.noData}
	for k, v := range s.svBox {
		c.svBox[k] = v
	}
	for k, v := range s.svBody {
		c.svBody[k] = v
	}
	for k, v := range s.elems {
		c.elems[k] = v
	}
	for k, v := range s.nj {
		c.nj[k] = v
	}
	for k, v := range s.kv {
		c.kv[k] = v
	}
	for k, v := range s.img {
		c.img[k] = v
	}
	return c
}

func (s *nodeState) bodies() map[uint64][]uint64 {
	m := map[uint64][]uint64{}
	for sv, b := range s.svBody {
		m[b] = append(m[b], sv)
	}
	for _, l := range m {
		sort.Slice(l, func(i, j int) bool { return l[i] < l[j] })
	}
	return m
}

// IDEvent is one identifier issued by the server (for C12).
type IDEvent struct {
	Kind  string // mutid | label | version | instance
	ID    uint64
	Scope string // repo root / instance name
	Seq   int    // request sequence number (issue order for sequential histories)
	Epoch int    // worker process epoch
	Op    string
}

// OpInfo describes the last operation issued by Step (for crash / concurrency attribution).
type OpInfo struct {
	Kind    string // dag | kv | lm | ann | nj | roi | img
	Version string // uuid the request was addressed to ("" for repo-level merge)
	Desc    string
}

// Group returns the instance names whose state an operation of this kind can change (sync chains included).
func (o OpInfo) Group() []string {
	switch o.Kind {
	case "lm":
		return []string{"lm", "syn", "lsz"}
	case "ann":
		return []string{"syn", "lsz"}
	case "kv":
		return []string{"kv"}
	case "nj":
		return []string{"nj"}
	case "roi":
		return []string{"roi"}
	case "img":
		return []string{"img"}
	}
	return nil
}

type Opts struct {
	Types      []string // subset of: kv lm ann nj roi img ; empty = all
	MaxDownres int
	Tag        string
	NoMerge    bool
	Admin      bool // also create / rename / delete extra keyvalue instances (delete + rename through the RPC-equivalent API)
	AdminEvery int  // with Admin: one step in AdminEvery is an admin step (default 12)
	NJWide     bool // neuronjson body ids of 1 to 5 digits (keys are decimal strings: numeric and string order differ), and ordered / range reads of them in the snapshot
}

type World struct {
	W     *drv.Worker
	C     *dvc.Client
	R     *rand.Rand
	H     *dvc.Hist
	Root  string
	St    map[string]*nodeState
	has   map[string]bool
	Trace []string
	IDs   []IDEvent
	Seq   int
	// union of hints over all versions (snapshots read these everywhere)
	allLabels  map[uint64]bool
	allPts     map[[3]int]bool
	allNJ      map[uint64]bool
	allKV      map[string]bool
	nextNJ     uint64
	NJWide     bool
	valSeq     int
	Normalize  bool // snapshots are normalised for comparison across runs (uuids -> version ids, times masked)
	NeedSettle bool // set by the last Step when it touched a type with background processing
	LastOp     OpInfo
	SnapTypes  map[string]bool // when set, snapshots only read these types (kv lm ann nj roi img)
	admin      bool
	adminEvery int
	restricted bool            // Opts.Types named a subset of the data types
	Side       map[string]bool // root uuids of side repos created by admin steps and not yet deleted
	sideOrder  []string
	tag        string
	Extra      map[string]bool // extra keyvalue instances currently alive
	nextra     int
	Panics     []string // recovered-panic responses seen on well-formed requests (C20)
	FiveXX     []string
	LabelBase  uint64
}

const volN = 64 // labelmap volume is volN^3 voxels at offset 0 (2x2x2 blocks of 32^3)

func (wd *World) on(t string) bool { return wd.has[t] }

// Has reports whether the instance name (kv lm syn lsz nj roi img) exists in this world.
func (wd *World) Has(inst string) bool {
	switch inst {
	case "syn", "lsz":
		return wd.has["ann"]
	}
	return wd.has[inst]
}

// New creates a repo with one instance per selected type and ingests the initial label volume.
func New(w *drv.Worker, r *rand.Rand, o Opts) (*World, error) {
	cl := &dvc.Client{W: w}
	h, err := dvc.NewHist(cl, r, o.Tag)
	if err != nil {
		return nil, err
	}
	wd := &World{W: w, C: cl, R: r, H: h, Root: h.Root, St: map[string]*nodeState{}, has: map[string]bool{},
		allLabels: map[uint64]bool{}, allPts: map[[3]int]bool{}, allNJ: map[uint64]bool{}, allKV: map[string]bool{}, nextNJ: 1000}
	wd.admin = o.Admin
	wd.adminEvery = o.AdminEvery
	if wd.adminEvery <= 0 {
		wd.adminEvery = 12
	}
	wd.tag = o.Tag
	wd.NJWide = o.NJWide
	wd.Extra = map[string]bool{}
	types := o.Types
	wd.restricted = len(types) > 0
	if len(types) == 0 {
		types = []string{"kv", "lm", "ann", "nj", "roi", "img"}
	}
	for _, t := range types {
		wd.has[t] = true
	}
	st := &nodeState{svBox: map[uint64]box{}, svBody: map[uint64]uint64{}, elems: map[[3]int]elem{}, nj: map[uint64]bool{}, kv: map[string]bool{}, img: map[[3]int]bool{}}
	wd.St[wd.Root] = st
	mk := func(typ, name string, cfg map[string]string) error {
		if err := cl.NewInstance(wd.Root, typ, name, cfg); err != nil {
			return fmt.Errorf("create %s %s: %w", typ, name, err)
		}
		return nil
	}
	if wd.on("kv") {
		if err := mk("keyvalue", "kv", nil); err != nil {
			return nil, err
		}
	}
	if wd.on("lm") {
		cfg := map[string]string{"BlockSize": "32,32,32"}
		if o.MaxDownres > 0 {
			cfg["MaxDownresLevel"] = fmt.Sprint(o.MaxDownres)
		}
		if err := mk("labelmap", "lm", cfg); err != nil {
			return nil, err
		}
	}
	if wd.on("ann") {
		if !wd.on("lm") {
			return nil, fmt.Errorf("ann needs lm")
		}
		if err := mk("annotation", "syn", nil); err != nil {
			return nil, err
		}
		if r, err := w.PostS("/api/node/"+wd.Root+"/syn/sync", `{"sync":"lm"}`); err != nil || !r.OK() {
			return nil, fmt.Errorf("sync syn->lm: %v %v", r, err)
		}
		if err := mk("labelsz", "lsz", nil); err != nil {
			return nil, err
		}
		if r, err := w.PostS("/api/node/"+wd.Root+"/lsz/sync", `{"sync":"syn"}`); err != nil || !r.OK() {
			return nil, fmt.Errorf("sync lsz->syn: %v %v", r, err)
		}
	}
	if wd.on("nj") {
		if err := mk("neuronjson", "nj", nil); err != nil {
			return nil, err
		}
	}
	if wd.on("roi") {
		if err := mk("roi", "roi", map[string]string{"versioned": "true"}); err != nil {
			return nil, err
		}
	}
	if wd.on("img") {
		if err := mk("uint8blk", "img", map[string]string{"BlockSize": "32,32,32"}); err != nil {
			return nil, err
		}
	}
	if wd.on("lm") {
		if err := wd.ingestLabels(); err != nil {
			return nil, err
		}
	}
	return wd, nil
}

// ingestLabels posts the initial 64^3 volume: a 4x4x4 grid of 16^3 supervoxels, some background.
func (wd *World) ingestLabels() error {
	st := wd.St[wd.Root]
	vol := make([]uint64, volN*volN*volN)
	base := wd.LabelBase
	lab := uint64(0)
	for gz := 0; gz < 4; gz++ {
		for gy := 0; gy < 4; gy++ {
			for gx := 0; gx < 4; gx++ {
				lab++
				if wd.R.Intn(6) == 0 {
					continue // background cube
				}
				l := base + lab
				b := box{gx * 16, gy * 16, gz * 16, gx*16 + 16, gy*16 + 16, gz*16 + 16}
				st.svBox[l] = b
				st.svBody[l] = l
				wd.allLabels[l] = true
				for z := b.z0; z < b.z1; z++ {
					for y := b.y0; y < b.y1; y++ {
						for x := b.x0; x < b.x1; x++ {
							vol[(z*volN+y)*volN+x] = l
						}
					}
				}
			}
		}
	}
	buf := make([]byte, len(vol)*8)
	for i, v := range vol {
		binary.LittleEndian.PutUint64(buf[i*8:], v)
	}
	r, err := wd.W.Post(fmt.Sprintf("/api/node/%s/lm/raw/0_1_2/%d_%d_%d/0_0_0", wd.Root, volN, volN, volN), buf)
	if err != nil {
		return err
	}
	if !r.OK() {
		return fmt.Errorf("initial label ingest: %s", r)
	}
	wd.note("POST lm/raw 64^3 (%d supervoxels)", len(st.svBox))
	return wd.W.Settle()
}

func (wd *World) note(f string, a ...interface{}) {
	wd.Trace = append(wd.Trace, fmt.Sprintf(f, a...))
}

func (wd *World) open() []string {
	var out []string
	for _, u := range wd.H.D.Open() {
		out = append(out, u)
	}
	return out
}

// do sends a well-formed request; a 5xx / recovered panic is recorded for C20.
func (wd *World) do(method, url string, body []byte, what string) (drv.Resp, error) {
	wd.Seq++
	r, err := wd.W.HTTP(method, url, body)
	if err != nil {
		return r, fmt.Errorf("%s: %w", what, err)
	}
	if r.Panicked() {
		wd.Panics = append(wd.Panics, what+" => "+r.String())
	} else if r.Status >= 500 {
		wd.FiveXX = append(wd.FiveXX, what+" => "+r.String())
	}
	wd.note("%s => %d", what, r.Status)
	return r, nil
}

func (wd *World) idEvent(kind string, id uint64, scope, op string) {
	wd.IDs = append(wd.IDs, IDEvent{Kind: kind, ID: id, Scope: scope, Seq: wd.Seq, Epoch: wd.W.Epoch, Op: op})
}

func (wd *World) short(u string) string { return wd.H.Short(u) }

// Step performs one random well-formed operation and settles.  Returns a short description.
func (wd *World) Step() (string, error) {
	open := wd.open()
	// one draw over the enabled kinds: dag 18, kv 9, lm 26, ann 17, nj 12, roi 8, img 10 (a workload restricted to a few
	// data types spends the share of the others on those types, not on DAG operations)
	x := wd.R.Intn(100)
	if wd.restricted {
		type kw struct {
			lo, hi int
			on     bool
		}
		ranges := []kw{{0, 18, true}, {18, 27, wd.on("kv")}, {27, 53, wd.on("lm")}, {53, 70, wd.on("ann")}, {70, 82, wd.on("nj")}, {82, 90, wd.on("roi")}, {90, 100, wd.on("img")}}
		total := 0
		for _, k := range ranges {
			if k.on {
				total += k.hi - k.lo
			}
		}
		y := x * total / 100
		for _, k := range ranges {
			if !k.on {
				continue
			}
			if y < k.hi-k.lo {
				x = k.lo + y
				break
			}
			y -= k.hi - k.lo
		}
	}
	var desc string
	var err error
	var u string
	if len(open) > 0 {
		u = open[wd.R.Intn(len(open))]
	}
	kind := "dag"
	if wd.admin && wd.R.Intn(wd.adminEvery) == 0 {
		desc, err = wd.adminStep()
		wd.LastOp = OpInfo{Kind: "dag", Desc: desc}
		return desc, err
	}
	switch {
	case x < 18 || len(open) == 0:
		u = ""
		desc, err = wd.dagStep()
	case x < 27 && wd.on("kv"):
		kind = "kv"
		desc, err = wd.kvStep(u)
	case x < 53 && wd.on("lm"):
		kind = "lm"
		desc, err = wd.lmStep(u)
	case x < 70 && wd.on("ann"):
		kind = "ann"
		desc, err = wd.annStep(u)
	case x < 82 && wd.on("nj"):
		kind = "nj"
		desc, err = wd.njStep(u)
	case x < 90 && wd.on("roi"):
		kind = "roi"
		desc, err = wd.roiStep(u)
	case wd.on("img"):
		kind = "img"
		desc, err = wd.imgStep(u)
	default:
		u = ""
		desc, err = wd.dagStep()
	}
	if strings.HasPrefix(desc, "kv") {
		kind = "kv" // steps on merge nodes fall back to a keyvalue write
	}
	wd.LastOp = OpInfo{Kind: kind, Version: u, Desc: desc}
	if err != nil {
		return desc, err
	}
	// only labelmap / annotation / labelsz have background processing (indexing, syncs)
	if strings.HasPrefix(desc, "lm") || strings.HasPrefix(desc, "ann") {
		if err := wd.W.Settle(); err != nil {
			return desc, fmt.Errorf("settle after %s: %w", desc, err)
		}
	}
	return desc, nil
}

// dagStep issues exactly ONE repo-level request (commit | newversion | branch | merge).
func (wd *World) dagStep() (string, error) {
	before := len(wd.H.D.Order)
	n0 := len(wd.H.Ops)
	wd.Seq++
	open := wd.open()
	var dataOpen []string
	for _, u := range open {
		if wd.St[u] != nil && !wd.St[u].noData {
			dataOpen = append(dataOpen, u)
		}
	}
	var err error
	switch {
	case len(dataOpen) == 0:
		// keep a mutable data version around: extend the newest committed non-merge node
		var cand []string
		for _, u := range wd.H.D.Committed() {
			if wd.St[u] != nil && !wd.St[u].noData {
				cand = append(cand, u)
			}
		}
		done := false
		for i := len(cand) - 1; i >= 0 && !done; i-- {
			n := wd.H.D.Nodes[cand[i]]
			free := true
			for _, c := range n.Children {
				if wd.H.D.Nodes[c].Branch == n.Branch {
					free = false
				}
			}
			if free {
				_, err = wd.H.NewVersionOf(cand[i])
				done = true
			}
		}
		if !done && len(cand) > 0 {
			_, err = wd.H.BranchOf(cand[len(cand)-1])
		} else if !done {
			_, err = wd.H.StepDAG()
		}
	case len(dataOpen) == 1 && wd.R.Intn(3) > 0:
		err = wd.H.CommitNode(dataOpen[0])
	default:
		_, err = wd.H.StepDAG()
	}
	if err != nil {
		if dvc.IsWorkerErr(err) {
			return "dag", err
		}
		wd.note("DAG op refused: %v", err)
	}
	for _, u := range wd.H.D.Order[before:] {
		n := wd.H.D.Nodes[u]
		if len(n.Parents) == 1 {
			wd.St[u] = wd.St[n.Parents[0]].clone()
		} else {
			s := wd.St[n.Parents[0]].clone()
			s.noData = true
			wd.St[u] = s
		}
		wd.idEvent("version", 0, wd.Root, "newnode "+u)
	}
	d := strings.Join(wd.H.Ops[n0:], "; ")
	wd.note("%s", d)
	return "dag: " + d, nil
}

var kvKeys = []string{"a", "aa", "ab", "b", "k1", "k10", "zz"}

func (wd *World) kvStep(u string) (string, error) {
	st := wd.St[u]
	k := kvKeys[wd.R.Intn(len(kvKeys))]
	wd.allKV[k] = true
	if st.kv[k] && wd.R.Intn(3) == 0 {
		_, err := wd.do("DELETE", "/api/node/"+u+"/kv/key/"+k, nil, "DELETE kv/"+k+"@"+wd.short(u))
		if err == nil {
			delete(st.kv, k)
		}
		return "kv delete", err
	}
	wd.valSeq++
	r, err := wd.do("POST", "/api/node/"+u+"/kv/key/"+k, []byte(fmt.Sprintf(`{"v":"%s#%d"}`, k, wd.valSeq)), "POST kv/"+k+"@"+wd.short(u))
	if err == nil && r.OK() {
		st.kv[k] = true
	}
	return "kv put", err
}

func rleOf(b box) []byte {
	var buf bytes.Buffer
	buf.Write([]byte{0, 3, 0, 0})
	binary.Write(&buf, binary.LittleEndian, uint32(0))
	n := (b.y1 - b.y0) * (b.z1 - b.z0)
	binary.Write(&buf, binary.LittleEndian, uint32(n))
	for z := b.z0; z < b.z1; z++ {
		for y := b.y0; y < b.y1; y++ {
			binary.Write(&buf, binary.LittleEndian, int32(b.x0))
			binary.Write(&buf, binary.LittleEndian, int32(y))
			binary.Write(&buf, binary.LittleEndian, int32(z))
			binary.Write(&buf, binary.LittleEndian, int32(b.x1-b.x0))
		}
	}
	return buf.Bytes()
}

func sortedU64(m map[uint64][]uint64) []uint64 {
	var ks []uint64
	for k := range m {
		ks = append(ks, k)
	}
	sort.Slice(ks, func(i, j int) bool { return ks[i] < ks[j] })
	return ks
}

// Plan is a prepared well-formed request plus the tracking update to apply when it is acknowledged.
type Plan struct {
	Kind  string
	Desc  string
	Req   drv.Req
	Apply func(r drv.Resp)
}

// Exec sends a plan sequentially and applies it when acknowledged.
func (wd *World) Exec(p *Plan) (drv.Resp, error) {
	r, err := wd.do(p.Req.Method, p.Req.URL, p.Req.Body, p.Desc)
	if err != nil {
		return r, err
	}
	if r.OK() && p.Apply != nil {
		p.Apply(r)
	}
	return r, nil
}

// PlanMerge merges 1..3 bodies into a target; bodies in `used` are avoided and chosen ones are added to it.
func (wd *World) PlanMerge(u string, used map[uint64]bool) *Plan {
	st := wd.St[u]
	bodies := st.bodies()
	var bl []uint64
	for _, b := range sortedU64(bodies) {
		if !used[b] {
			bl = append(bl, b)
		}
	}
	if len(bl) < 3 {
		return nil
	}
	p := wd.R.Perm(len(bl))
	k := 2 + wd.R.Intn(3)
	if k > len(bl)-1 {
		k = len(bl) - 1
	}
	var ls []uint64
	for _, i := range p[:k] {
		ls = append(ls, bl[i])
		used[bl[i]] = true
	}
	jb, _ := json.Marshal(ls)
	return &Plan{Kind: "merge", Desc: fmt.Sprintf("POST lm/merge %v@%s", ls, wd.short(u)), Req: drv.Req{Method: "POST", URL: "/api/node/" + u + "/lm/merge", Body: jb},
		Apply: func(r drv.Resp) {
			for _, b := range ls[1:] {
				for _, sv := range bodies[b] {
					st.svBody[sv] = ls[0]
				}
			}
			wd.mutID(r, "merge")
		}}
}

// PlanCleave cleaves a proper subset of a multi-supervoxel body.
func (wd *World) PlanCleave(u string, used map[uint64]bool) *Plan {
	st := wd.St[u]
	bodies := st.bodies()
	var multi []uint64
	for _, b := range sortedU64(bodies) {
		if len(bodies[b]) >= 2 && !used[b] {
			multi = append(multi, b)
		}
	}
	if len(multi) == 0 {
		return nil
	}
	b := multi[wd.R.Intn(len(multi))]
	used[b] = true
	svs := bodies[b]
	k := 1 + wd.R.Intn(len(svs)-1)
	var cl []uint64
	for _, i := range wd.R.Perm(len(svs))[:k] {
		cl = append(cl, svs[i])
	}
	jb, _ := json.Marshal(cl)
	return &Plan{Kind: "cleave", Desc: fmt.Sprintf("POST lm/cleave/%d %v@%s", b, cl, wd.short(u)), Req: drv.Req{Method: "POST", URL: fmt.Sprintf("/api/node/%s/lm/cleave/%d", u, b), Body: jb},
		Apply: func(r drv.Resp) {
			var o struct{ CleavedLabel, MutationID uint64 }
			json.Unmarshal(r.Body, &o)
			for _, sv := range cl {
				st.svBody[sv] = o.CleavedLabel
			}
			wd.allLabels[o.CleavedLabel] = true
			wd.idEvent("label", o.CleavedLabel, "lm", "cleave")
			wd.idEvent("mutid", o.MutationID, wd.Root, "cleave")
		}}
}

// PlanSplitSV splits a supervoxel (still a box) in two boxes along its longest axis.
func (wd *World) PlanSplitSV(u string, used map[uint64]bool) *Plan {
	st := wd.St[u]
	var cand []uint64
	for sv, b := range st.svBox {
		if (b.x1-b.x0 >= 2 || b.y1-b.y0 >= 2 || b.z1-b.z0 >= 2) && !used[st.svBody[sv]] {
			cand = append(cand, sv)
		}
	}
	if len(cand) == 0 {
		return nil
	}
	sort.Slice(cand, func(i, j int) bool { return cand[i] < cand[j] })
	sv := cand[wd.R.Intn(len(cand))]
	used[st.svBody[sv]] = true
	b := st.svBox[sv]
	sp, rem := b, b
	dx, dy, dz := b.x1-b.x0, b.y1-b.y0, b.z1-b.z0
	switch {
	case dx >= dy && dx >= dz:
		m := b.x0 + dx/2
		sp.x1, rem.x0 = m, m
	case dy >= dz:
		m := b.y0 + dy/2
		sp.y1, rem.y0 = m, m
	default:
		m := b.z0 + dz/2
		sp.z1, rem.z0 = m, m
	}
	return &Plan{Kind: "split-supervoxel", Desc: fmt.Sprintf("POST lm/split-supervoxel/%d box%v@%s", sv, sp, wd.short(u)),
		Req: drv.Req{Method: "POST", URL: fmt.Sprintf("/api/node/%s/lm/split-supervoxel/%d", u, sv), Body: rleOf(sp)},
		Apply: func(r drv.Resp) {
			var o struct{ SplitSupervoxel, RemainSupervoxel, MutationID uint64 }
			json.Unmarshal(r.Body, &o)
			body := st.svBody[sv]
			delete(st.svBox, sv)
			delete(st.svBody, sv)
			st.svBox[o.SplitSupervoxel], st.svBody[o.SplitSupervoxel] = sp, body
			st.svBox[o.RemainSupervoxel], st.svBody[o.RemainSupervoxel] = rem, body
			wd.allLabels[o.SplitSupervoxel], wd.allLabels[o.RemainSupervoxel] = true, true
			wd.idEvent("label", o.SplitSupervoxel, "lm", "split-supervoxel")
			wd.idEvent("label", o.RemainSupervoxel, "lm", "split-supervoxel")
			wd.idEvent("mutid", o.MutationID, wd.Root, "split-supervoxel")
		}}
}

// PlanNextLabel reserves n labels.
func (wd *World) PlanNextLabel(u string, n int) *Plan {
	return &Plan{Kind: "nextlabel", Desc: fmt.Sprintf("POST lm/nextlabel/%d@%s", n, wd.short(u)), Req: drv.Req{Method: "POST", URL: fmt.Sprintf("/api/node/%s/lm/nextlabel/%d", u, n)},
		Apply: func(r drv.Resp) {
			var o struct{ Start, End uint64 }
			json.Unmarshal(r.Body, &o)
			for l := o.Start; l <= o.End && l < o.Start+16; l++ {
				wd.idEvent("label", l, "lm", "nextlabel")
			}
		}}
}

// PlanMaxLabel is POST maxlabel/<m>: it raises the informative per-version and repo-wide maximum label (ignored when not
// greater); it hands out no id itself.
func (wd *World) PlanMaxLabel(u string, m uint64) *Plan {
	return &Plan{Kind: "maxlabel", Desc: fmt.Sprintf("POST lm/maxlabel/%d@%s", m, wd.short(u)), Req: drv.Req{Method: "POST", URL: fmt.Sprintf("/api/node/%s/lm/maxlabel/%d", u, m)}}
}

// ApplyPar records the outcome of a plan that was sent through Worker.Par.
func (wd *World) ApplyPar(p *Plan, r drv.Resp) {
	wd.Seq++
	if r.Panicked() {
		wd.Panics = append(wd.Panics, p.Desc+" => "+r.String())
	} else if r.Status >= 500 {
		wd.FiveXX = append(wd.FiveXX, p.Desc+" => "+r.String())
	}
	wd.note("(par) %s => %d", p.Desc, r.Status)
	if r.OK() && p.Apply != nil {
		p.Apply(r)
	}
}

// OpenDataNodes lists open versions on which per-type mutations may be issued.
func (wd *World) OpenDataNodes() []string {
	var out []string
	for _, u := range wd.open() {
		if wd.St[u] != nil && !wd.St[u].noData {
			out = append(out, u)
		}
	}
	return out
}

// MaxLabelSeen returns the largest label the workload has ingested or been handed.
func (wd *World) MaxLabelSeen() uint64 {
	var m uint64
	for l := range wd.allLabels {
		if l > m {
			m = l
		}
	}
	return m
}

// IngestBigLabel overwrites one 32^3 block (block coordinate bc inside the 2x2x2 volume) with a new supervoxel label.
func (wd *World) IngestBigLabel(u string, bc [3]int, label uint64) (drv.Resp, error) {
	st := wd.St[u]
	n := 32
	buf := make([]byte, n*n*n*8)
	for i := 0; i < n*n*n; i++ {
		binary.LittleEndian.PutUint64(buf[i*8:], label)
	}
	r, err := wd.do("POST", fmt.Sprintf("/api/node/%s/lm/raw/0_1_2/32_32_32/%d_%d_%d?mutate=true", u, bc[0]*32, bc[1]*32, bc[2]*32), buf, fmt.Sprintf("POST lm/raw?mutate=true block%v label %d@%s", bc, label, wd.short(u)))
	if err != nil || !r.OK() {
		return r, err
	}
	bb := box{bc[0] * 32, bc[1] * 32, bc[2] * 32, bc[0]*32 + 32, bc[1]*32 + 32, bc[2]*32 + 32}
	for sv, b := range st.svBox {
		if b.x0 >= bb.x0 && b.x1 <= bb.x1 && b.y0 >= bb.y0 && b.y1 <= bb.y1 && b.z0 >= bb.z0 && b.z1 <= bb.z1 {
			delete(st.svBox, sv)
			delete(st.svBody, sv)
		}
	}
	st.svBox[label] = bb
	st.svBody[label] = label
	wd.allLabels[label] = true
	return r, nil
}

func (wd *World) lmStep(u string) (string, error) {
	st := wd.St[u]
	if st.noData || len(st.svBody) < 4 {
		return wd.kvOrNothing(u)
	}
	used := map[uint64]bool{}
	var p *Plan
	switch x := wd.R.Intn(100); {
	case x < 35:
		p = wd.PlanMerge(u, used)
	case x < 60:
		p = wd.PlanCleave(u, used)
	case x < 85:
		p = wd.PlanSplitSV(u, used)
	case x < 93:
		p = wd.PlanNextLabel(u, 1+wd.R.Intn(3))
	default: // renumber a body to a label the server hands out
		bodies := st.bodies()
		bl := sortedU64(bodies)
		b := bl[wd.R.Intn(len(bl))]
		base := "/api/node/" + u + "/lm/"
		at := "@" + wd.short(u)
		r, err := wd.do("POST", base+"nextlabel/1", nil, "POST lm/nextlabel/1"+at)
		if err != nil {
			return "lm nextlabel", err
		}
		if !r.OK() {
			return "lm renumber skipped", nil
		}
		var o struct{ Start, End uint64 }
		json.Unmarshal(r.Body, &o)
		wd.idEvent("label", o.Start, "lm", "nextlabel")
		jb, _ := json.Marshal([]uint64{o.Start, b})
		r, err = wd.do("POST", base+"renumber", jb, fmt.Sprintf("POST lm/renumber [%d,%d]%s", o.Start, b, at))
		if err != nil {
			return "lm renumber", err
		}
		if r.OK() {
			for _, sv := range bodies[b] {
				st.svBody[sv] = o.Start
			}
			wd.allLabels[o.Start] = true
		}
		return "lm renumber", nil
	}
	if p == nil {
		return "lm: nothing applicable", nil
	}
	_, err := wd.Exec(p)
	if err == nil && wd.R.Intn(3) == 0 {
		// the mutation history of a body between the root and this version: the one request that reads a version's
		// mutation log while the log is open for appending
		bl := sortedU64(st.bodies())
		if len(bl) > 0 {
			b := bl[wd.R.Intn(len(bl))]
			if _, err := wd.do("GET", fmt.Sprintf("/api/node/%s/lm/history/%d/%s/%s", u, b, wd.Root, u), nil, fmt.Sprintf("GET lm/history/%d/root/%s", b, wd.short(u))); err != nil {
				return "lm " + p.Kind + " + history", err
			}
			return "lm " + p.Kind + " + history", nil
		}
	}
	return "lm " + p.Kind, err
}

func (wd *World) mutID(r drv.Resp, op string) {
	var o struct{ MutationID uint64 }
	if json.Unmarshal(r.Body, &o) == nil && o.MutationID != 0 {
		wd.idEvent("mutid", o.MutationID, wd.Root, op)
	}
}

func (wd *World) kvOrNothing(u string) (string, error) {
	if wd.on("kv") {
		return wd.kvStep(u)
	}
	return "nothing", nil
}

var annKinds = []string{"PostSyn", "PreSyn", "Note", "Gap"}
var annTags = []string{"t1", "t2", "t3"}

func (wd *World) annStep(u string) (string, error) {
	st := wd.St[u]
	if st.noData {
		return wd.kvOrNothing(u)
	}
	base := "/api/node/" + u + "/syn/"
	at := "@" + wd.short(u)
	var poss [][3]int
	for p := range st.elems {
		poss = append(poss, p)
	}
	sort.Slice(poss, func(i, j int) bool { return fmt.Sprint(poss[i]) < fmt.Sprint(poss[j]) })
	newPos := func() [3]int {
		for {
			p := [3]int{wd.R.Intn(volN), wd.R.Intn(volN), wd.R.Intn(volN)}
			if _, dup := st.elems[p]; !dup {
				return p
			}
		}
	}
	x := wd.R.Intn(100)
	switch {
	case x >= 38 && x < 60 && len(poss) >= 3:
		// re-post 2-4 stored elements with their tags drawn afresh (what a client does when it edits tags): one request
		// that adds a tag to some elements and drops it from others
		n := 2 + wd.R.Intn(3)
		if n > len(poss) {
			n = len(poss)
		}
		var es []map[string]interface{}
		var edited []elem
		for _, i := range wd.R.Perm(len(poss))[:n] {
			e := st.elems[poss[i]]
			e.Tags = nil
			for _, t := range annTags {
				if wd.R.Intn(2) == 0 {
					e.Tags = append(e.Tags, t)
				}
			}
			edited = append(edited, e)
			m := map[string]interface{}{"Pos": e.Pos, "Kind": e.Kind, "Prop": map[string]string{"i": fmt.Sprint(wd.Seq)}}
			if len(e.Tags) > 0 {
				m["Tags"] = e.Tags
			}
			es = append(es, m)
		}
		jb, _ := json.Marshal(es)
		r, err := wd.do("POST", base+"elements", jb, fmt.Sprintf("POST syn/elements retag x%d%s", len(es), at))
		if err != nil {
			return "ann retag", err
		}
		if r.OK() {
			for _, e := range edited {
				st.elems[e.Pos] = e
			}
		}
		return "ann retag", nil
	case x < 60 || len(poss) < 2: // post 1-3 elements; two of them may reference each other
		n := 1 + wd.R.Intn(3)
		var es []map[string]interface{}
		var added []elem
		for i := 0; i < n; i++ {
			p := newPos()
			if len(poss) > 0 && wd.R.Intn(5) == 0 {
				p = poss[wd.R.Intn(len(poss))] // overwrite an existing position
			}
			dup := false
			for _, a := range added {
				if a.Pos == p {
					dup = true
				}
			}
			if dup {
				continue
			}
			e := elem{Pos: p, Kind: annKinds[wd.R.Intn(len(annKinds))]}
			for _, t := range annTags {
				if wd.R.Intn(3) == 0 {
					e.Tags = append(e.Tags, t)
				}
			}
			added = append(added, e)
		}
		for i, e := range added {
			m := map[string]interface{}{"Pos": e.Pos, "Kind": e.Kind, "Prop": map[string]string{"i": fmt.Sprint(wd.Seq)}}
			if len(e.Tags) > 0 {
				m["Tags"] = e.Tags
			}
			if len(added) >= 2 && i < 2 {
				m["Rels"] = []map[string]interface{}{{"Rel": "GroupedWith", "To": added[1-i].Pos}}
			}
			es = append(es, m)
		}
		jb, _ := json.Marshal(es)
		r, err := wd.do("POST", base+"elements", jb, fmt.Sprintf("POST syn/elements x%d%s", len(es), at))
		if err != nil {
			return "ann post", err
		}
		if r.OK() {
			for _, e := range added {
				st.elems[e.Pos] = e
				wd.allPts[e.Pos] = true
			}
		}
		return "ann post", nil
	case x < 80:
		p := poss[wd.R.Intn(len(poss))]
		r, err := wd.do("DELETE", fmt.Sprintf("%selement/%d_%d_%d", base, p[0], p[1], p[2]), nil, fmt.Sprintf("DELETE syn/element %v%s", p, at))
		if err != nil {
			return "ann delete", err
		}
		if r.OK() {
			delete(st.elems, p)
		}
		return "ann delete", nil
	default:
		p := poss[wd.R.Intn(len(poss))]
		q := newPos()
		r, err := wd.do("POST", fmt.Sprintf("%smove/%d_%d_%d/%d_%d_%d", base, p[0], p[1], p[2], q[0], q[1], q[2]), nil, fmt.Sprintf("POST syn/move %v->%v%s", p, q, at))
		if err != nil {
			return "ann move", err
		}
		if r.OK() {
			e := st.elems[p]
			delete(st.elems, p)
			e.Pos = q
			st.elems[q] = e
			wd.allPts[q] = true
		}
		return "ann move", nil
	}
}

func (wd *World) njStep(u string) (string, error) {
	st := wd.St[u]
	if st.noData {
		return wd.kvOrNothing(u)
	}
	base := "/api/node/" + u + "/nj/"
	at := "@" + wd.short(u)
	var ids []uint64
	for id := range st.nj {
		ids = append(ids, id)
	}
	sort.Slice(ids, func(i, j int) bool { return ids[i] < ids[j] })
	x := wd.R.Intn(100)
	switch {
	case x < 38 || len(ids) == 0:
		wd.nextNJ += uint64(1 + wd.R.Intn(5))
		id := wd.nextNJ
		if wd.NJWide {
			for try := 0; try < 20; try++ {
				mag := []uint64{1, 10, 100, 1000, 10000}[wd.R.Intn(5)]
				cand := mag + uint64(wd.R.Int63n(int64(9*mag)))
				if !wd.allNJ[cand] {
					id = cand
					break
				}
			}
		}
		body := fmt.Sprintf(`{"bodyid": %d, "type": "T%d", "n": %d, "tags": ["x","y"]}`, id, wd.R.Intn(4), wd.R.Intn(1000))
		r, err := wd.do("POST", fmt.Sprintf("%skey/%d?u=user%d", base, id, wd.R.Intn(3)), []byte(body), fmt.Sprintf("POST nj/key/%d%s", id, at))
		if err == nil && r.OK() {
			st.nj[id] = true
			wd.allNJ[id] = true
		}
		return "nj new", err
	case x < 66:
		id := ids[wd.R.Intn(len(ids))]
		var body string
		switch wd.R.Intn(3) {
		case 0:
			body = fmt.Sprintf(`{"bodyid": %d, "n": %d}`, id, wd.R.Intn(1000))
		case 1:
			body = fmt.Sprintf(`{"bodyid": %d, "type": null, "extra": {"a": [1,2,%d]}}`, id, wd.R.Intn(9))
		default:
			body = fmt.Sprintf(`{"bodyid": %d, "type": "T%d"}`, id, wd.R.Intn(4))
		}
		q := fmt.Sprintf("?u=user%d", wd.R.Intn(3))
		if wd.R.Intn(5) == 0 {
			q += "&replace=true"
		}
		_, err := wd.do("POST", fmt.Sprintf("%skey/%d%s", base, id, q), []byte(body), fmt.Sprintf("POST nj/key/%d%s %s%s", id, q, body, at))
		return "nj update", err
	case x < 84:
		// versioned metadata documents: validation schema (permissive for everything this workload writes) and the two
		// client schemas; the open master head serves them from memory, every other version from the store
		typ := []string{"json_schema", "schema", "schema_batch"}[wd.R.Intn(3)]
		if wd.R.Intn(4) == 0 {
			_, err := wd.do("DELETE", base+typ, nil, "DELETE nj/"+typ+at)
			return "nj schema delete", err
		}
		body := fmt.Sprintf(`{"version": %d, "fields": ["bodyid", "f%d"]}`, wd.R.Intn(1000), wd.R.Intn(9))
		if typ == "json_schema" {
			body = fmt.Sprintf(`{"type": "object", "title": "s%d", "properties": {"bodyid": {"type": "integer"}, "n": {"type": "integer"}}}`, wd.R.Intn(1000))
		}
		_, err := wd.do("POST", base+typ, []byte(body), fmt.Sprintf("POST nj/%s %s%s", typ, body, at))
		return "nj schema post", err
	default:
		id := ids[wd.R.Intn(len(ids))]
		r, err := wd.do("DELETE", fmt.Sprintf("%skey/%d?u=user1", base, id), nil, fmt.Sprintf("DELETE nj/key/%d%s", id, at))
		if err == nil && r.OK() {
			delete(st.nj, id)
		}
		return "nj delete", err
	}
}

func (wd *World) roiStep(u string) (string, error) {
	st := wd.St[u]
	if st.noData {
		return wd.kvOrNothing(u)
	}
	at := "@" + wd.short(u)
	if st.roi && wd.R.Intn(4) == 0 {
		r, err := wd.do("DELETE", "/api/node/"+u+"/roi/roi", nil, "DELETE roi/roi"+at)
		if err == nil && r.OK() {
			st.roi = false
		}
		return "roi delete", err
	}
	var spans [][4]int
	for z := 0; z < 3; z++ {
		for y := 0; y < 3; y++ {
			if wd.R.Intn(2) == 0 {
				x0 := wd.R.Intn(3)
				spans = append(spans, [4]int{z, y, x0, x0 + wd.R.Intn(3)})
			}
		}
	}
	if len(spans) == 0 {
		spans = append(spans, [4]int{0, 0, 0, 1})
	}
	jb, _ := json.Marshal(spans)
	r, err := wd.do("POST", "/api/node/"+u+"/roi/roi", jb, fmt.Sprintf("POST roi/roi %d spans%s", len(spans), at))
	if err == nil && r.OK() {
		st.roi = true
	}
	return "roi post", err
}

func (wd *World) imgStep(u string) (string, error) {
	st := wd.St[u]
	if st.noData {
		return wd.kvOrNothing(u)
	}
	bc := [3]int{wd.R.Intn(3) - 1, wd.R.Intn(3) - 1, wd.R.Intn(3) - 1}
	buf := make([]byte, 32*32*32)
	seed := byte(wd.R.Intn(250) + 1)
	for i := range buf {
		buf[i] = seed + byte(i%7)
	}
	q := ""
	if st.img[bc] && wd.R.Intn(2) == 0 {
		q = "?mutate=true"
	}
	r, err := wd.do("POST", fmt.Sprintf("/api/node/%s/img/raw/0_1_2/32_32_32/%d_%d_%d%s", u, bc[0]*32, bc[1]*32, bc[2]*32, q), buf, fmt.Sprintf("POST img/raw block%v%s@%s", bc, q, wd.short(u)))
	if err == nil && r.OK() {
		st.img[bc] = true
	}
	return "img post", err
}

// Fork registers a child version created outside Step (tracking state copied from the parent).
func (wd *World) Fork(parent, child string) {
	if wd.St[parent] != nil {
		wd.St[child] = wd.St[parent].clone()
	}
}

// Elements returns the tracked annotation positions at a version (sorted).
func (wd *World) Elements(u string) [][3]int {
	var out [][3]int
	for p := range wd.St[u].elems {
		out = append(out, p)
	}
	sort.Slice(out, func(i, j int) bool { return fmt.Sprint(out[i]) < fmt.Sprint(out[j]) })
	return out
}

// NJKeys returns the tracked neuronjson body ids at a version (sorted).
func (wd *World) NJKeys(u string) []uint64 {
	var out []uint64
	for id := range wd.St[u].nj {
		out = append(out, id)
	}
	sort.Slice(out, func(i, j int) bool { return out[i] < out[j] })
	return out
}

// KVKeys returns the tracked keyvalue keys at a version (sorted).
func (wd *World) KVKeys(u string) []string {
	var out []string
	for k := range wd.St[u].kv {
		out = append(out, k)
	}
	sort.Strings(out)
	return out
}

// Bodies returns body -> supervoxels at a version.
func (wd *World) Bodies(u string) map[uint64][]uint64 { return wd.St[u].bodies() }

// SplitRLE returns a supervoxel that can be split and the RLE body of its first half.
func (wd *World) SplitRLE(u string) (uint64, []byte) {
	p := wd.PlanSplitSV(u, map[uint64]bool{})
	if p == nil {
		return 0, nil
	}
	var sv uint64
	fmt.Sscanf(p.Req.URL[strings.LastIndex(p.Req.URL, "/")+1:], "%d", &sv)
	return sv, p.Req.Body
}

// adminStep creates, renames or deletes an extra keyvalue instance.  Deletion is asynchronous in the
// server; its completion signal is the instance leaving the repo's DataInstances.
// waitDeletions waits for the code's own completion point of background instance / repo deletions (no goroutine inside
// datastore.(*repoT).deleteData or storage.DeleteDataInstance any more).
func (wd *World) waitDeletions() error {
	for i := 0; i < 6000; i++ {
		var out struct {
			Running bool `json:"running"`
		}
		if err := wd.W.API("c06.deleting", nil, &out); err != nil {
			return err
		}
		if !out.Running {
			return nil
		}
		time.Sleep(5 * time.Millisecond)
	}
	return fmt.Errorf("background deletion still running: %w", drv.ErrWatchdog)
}

func (wd *World) adminStep() (string, error) {
	var names []string
	for n := range wd.Extra {
		names = append(names, n)
	}
	sort.Strings(names)
	wd.Seq++
	// side repos: whole repos created next to the workload's own and deleted again (the deletion removes the repo record,
	// the id-map entries of its versions and, asynchronously, its data)
	if y := wd.R.Intn(5); y < 2 {
		// in creation order (uuids are random: sorting by them would make the choice differ from run to run)
		var sides []string
		for _, u := range wd.sideOrder {
			if wd.Side[u] {
				sides = append(sides, u)
			}
		}
		if len(sides) > 0 && wd.R.Intn(2) == 0 {
			u := sides[wd.R.Intn(len(sides))]
			err := wd.W.API("rpc.repo_delete", map[string]string{"uuid": u}, nil)
			if err != nil {
				if _, ok := err.(*drv.APIError); !ok {
					return "admin repo delete", err
				}
				wd.note("repo delete refused: %v", err)
				return "admin repo delete refused", nil
			}
			delete(wd.Side, u)
			wd.note("delete side repo %s", u[:8])
			if err := wd.waitDeletions(); err != nil {
				return "admin repo delete", err
			}
			return "admin repo delete", nil
		}
		wd.nextra++
		u, err := wd.C.NewRepo(fmt.Sprintf("side-%s-%d", wd.tag, wd.nextra))
		if err != nil {
			if dvc.IsWorkerErr(err) {
				return "admin repo create", err
			}
			return "admin repo create refused", nil
		}
		if wd.Side == nil {
			wd.Side = map[string]bool{}
		}
		wd.Side[u] = true
		wd.sideOrder = append(wd.sideOrder, u)
		// (a compound step: a worker that dies anywhere inside it must surface as an error of THIS step)
		more := wd.R.Intn(2) == 0
		if err := wd.C.NewInstance(u, "keyvalue", "skv", nil); err != nil {
			if dvc.IsWorkerErr(err) {
				return "admin repo create", err
			}
		} else {
			if _, err := wd.W.Post("/api/node/"+u+"/skv/key/k", []byte("side")); err != nil {
				return "admin repo create", err
			}
			if more {
				if err := wd.C.Commit(u); err != nil {
					if dvc.IsWorkerErr(err) {
						return "admin repo create", err
					}
				} else if _, err := wd.C.NewVersion(u); err != nil && dvc.IsWorkerErr(err) {
					return "admin repo create", err
				}
			}
		}
		wd.note("create side repo %s", u[:8])
		return "admin repo create", nil
	}
	switch x := wd.R.Intn(3); {
	case x == 0 || len(names) == 0:
		wd.nextra++
		name := fmt.Sprintf("x%d", wd.nextra)
		at := wd.Root // instances can only be created through an uncommitted node
		if op := wd.open(); len(op) > 0 {
			at = op[wd.R.Intn(len(op))]
		}
		if err := wd.C.NewInstance(at, "keyvalue", name, nil); err != nil {
			if dvc.IsWorkerErr(err) {
				return "admin create", err
			}
			wd.note("instance create refused: %v", err)
			return "admin create refused", nil
		}
		wd.Extra[name] = true
		for _, u := range wd.open() {
			if _, err := wd.W.Post("/api/node/"+u+"/"+name+"/key/k", []byte(name)); err != nil {
				return "admin create", err
			}
			break
		}
		wd.note("create instance %s", name)
		return "admin create " + name, nil
	case x == 1:
		old := names[wd.R.Intn(len(names))]
		wd.nextra++
		nn := fmt.Sprintf("y%d", wd.nextra)
		err := wd.W.API("rpc.data_rename", map[string]string{"uuid": wd.Root, "name": old, "newname": nn}, nil)
		if err != nil {
			if _, ok := err.(*drv.APIError); !ok {
				return "admin rename", err
			}
			wd.note("rename refused: %v", err)
			return "admin rename refused", nil
		}
		delete(wd.Extra, old)
		wd.Extra[nn] = true
		wd.note("rename instance %s -> %s", old, nn)
		return "admin rename", nil
	default:
		name := names[wd.R.Intn(len(names))]
		err := wd.W.API("rpc.data_delete", map[string]string{"uuid": wd.Root, "name": name}, nil)
		if err != nil {
			if _, ok := err.(*drv.APIError); !ok {
				return "admin delete", err
			}
			wd.note("delete refused: %v", err)
			return "admin delete refused", nil
		}
		for i := 0; i < 400; i++ {
			ri, err := wd.C.Repo(wd.Root)
			if err != nil {
				return "admin delete", err
			}
			if _, still := ri.DataInstances[name]; !still {
				delete(wd.Extra, name)
				wd.note("delete instance %s", name)
				// the name goes first; the repo log entry and the save of the repo follow in the same background goroutine
				if err := wd.waitDeletions(); err != nil {
					return "admin delete", err
				}
				return "admin delete " + name, nil
			}
			wd.W.Settle()
		}
		return "admin delete", fmt.Errorf("instance %s still listed long after its deletion was acknowledged: %w", name, drv.ErrWatchdog)
	}
}
