package mixed

import (
	"crypto/sha1"
	"encoding/hex"
	"encoding/json"
	"fmt"
	"regexp"
	"sort"
	"strings"

	"verif/harness/internal/drv"
	"verif/harness/internal/dvc"
)

// Snap is a full observable snapshot: url -> canonical response ("status|canonical body or hash").
type Snap struct {
	Names      map[string]string // uuid -> normalised name (only when normalising)
	raw        map[string]drv.Resp
	ordered    [][2]string // (url key, literal rendering) of list responses whose order is compared
	M          map[string]string
	MutationID map[string]uint64 // repo root -> MutationID (compared with >= across restarts)
	SavedMutID map[string]uint64
}

func hashBytes(b []byte) string {
	h := sha1.Sum(b)
	return fmt.Sprintf("bin[%d]:%s", len(b), hex.EncodeToString(h[:8]))
}

// canonJSON renders JSON with object keys sorted and arrays sorted by their canonical rendering
// (responses are compared as multisets: element order is covered by other properties).
func canonJSON(v interface{}) string {
	switch t := v.(type) {
	case map[string]interface{}:
		ks := make([]string, 0, len(t))
		for k := range t {
			ks = append(ks, k)
		}
		sort.Strings(ks)
		var sb strings.Builder
		sb.WriteByte('{')
		for i, k := range ks {
			if i > 0 {
				sb.WriteByte(',')
			}
			fmt.Fprintf(&sb, "%q:%s", k, canonJSON(t[k]))
		}
		sb.WriteByte('}')
		return sb.String()
	case []interface{}:
		parts := make([]string, len(t))
		for i, e := range t {
			parts[i] = canonJSON(e)
		}
		sort.Strings(parts)
		return "[" + strings.Join(parts, ",") + "]"
	default:
		b, _ := json.Marshal(t)
		return string(b)
	}
}

// Canon canonicalises one response.
func Canon(r drv.Resp) string {
	body := r.Body
	if len(body) > 0 && (body[0] == '{' || body[0] == '[' || body[0] == '"') {
		var v interface{}
		dec := json.NewDecoder(strings.NewReader(string(body)))
		dec.UseNumber()
		if err := dec.Decode(&v); err == nil {
			s := canonJSON(v)
			if len(s) > 4000 {
				return fmt.Sprintf("%d|json:%s:%s", r.Status, hashBytes([]byte(s)), s[:200])
			}
			return fmt.Sprintf("%d|%s", r.Status, s)
		}
	}
	if i := strings.Index(string(body), "found multiple kv for key"); i >= 0 {
		// a streamed read (keyrangevalues, all-elements, ...) that met an unresolved merge conflict after the 200 header
		// was sent: what was streamed before the error counts, the error text (it names whichever of the conflicting
		// stored versions the scan met first) is compared like any other error body - not at all
		return fmt.Sprintf("%d|partial:%s|conflict-error", r.Status, hashBytes(body[:i]))
	}
	if r.Status >= 400 {
		// error text may embed request ids / timings: keep the status only
		return fmt.Sprintf("%d|error", r.Status)
	}
	if len(body) <= 64 {
		return fmt.Sprintf("%d|%q", r.Status, string(body))
	}
	return fmt.Sprintf("%d|%s", r.Status, hashBytes(body))
}

// stripVolatile removes fields of the repo JSON that the property allows to differ.
func stripVolatile(v interface{}, path string, mut map[string]uint64, saved map[string]uint64, root string) interface{} {
	switch t := v.(type) {
	case map[string]interface{}:
		out := map[string]interface{}{}
		for k, e := range t {
			switch k {
			case "Updated":
				continue // timestamps refreshed by the restart itself
			case "MutationID":
				if n, ok := e.(json.Number); ok {
					x, _ := n.Int64()
					mut[root] = uint64(x)
				}
				continue
			case "SavedMutationID":
				if n, ok := e.(json.Number); ok {
					x, _ := n.Int64()
					saved[root] = uint64(x)
				}
				continue
			}
			out[k] = stripVolatile(e, path+"/"+k, mut, saved, root)
		}
		return out
	case []interface{}:
		out := make([]interface{}, len(t))
		for i, e := range t {
			out[i] = stripVolatile(e, path, mut, saved, root)
		}
		return out
	}
	return v
}

// canonRLE sorts the 16-byte spans of a DVID binary sparse volume (the server emits them in an order
// that varies from call to call within one process, so span order is not an observable of the data).
func canonRLE(b []byte) []byte {
	if len(b) < 12 || (len(b)-12)%16 != 0 {
		return b
	}
	n := (len(b) - 12) / 16
	spans := make([]string, n)
	for i := 0; i < n; i++ {
		spans[i] = string(b[12+i*16 : 12+(i+1)*16])
	}
	sort.Strings(spans)
	out := append([]byte{}, b[:12]...)
	for _, sp := range spans {
		out = append(out, sp...)
	}
	return out
}

func (wd *World) get(s *Snap, url string) error {
	r, err := wd.W.Get(url)
	if err != nil {
		return fmt.Errorf("GET %s: %w", url, err)
	}
	if r.Status == 200 && strings.Contains(url, "/sparsevol") && !strings.Contains(url, "sparsevol-size") {
		r.Body = canonRLE(r.Body)
	}
	s.raw[url] = r
	return nil
}

// getOrdered records a list response with its order kept (Canon compares JSON arrays as multisets).
func (wd *World) getOrdered(s *Snap, url string) error {
	r, err := wd.W.Get(url)
	if err != nil {
		return fmt.Errorf("GET %s: %w", url, err)
	}
	body := string(r.Body)
	if r.Status >= 400 {
		body = "error"
	}
	s.ordered = append(s.ordered, [2]string{url + " #in-served-order", fmt.Sprintf("%d|%s", r.Status, drv.Trunc(body, 4000))})
	return nil
}

func (wd *World) getBody(s *Snap, url string, body []byte, tag string) error {
	r, err := wd.W.HTTP("GET", url, body)
	if err != nil {
		return fmt.Errorf("GET %s: %w", url, err)
	}
	s.raw[url+" "+tag] = r
	return nil
}

func (wd *World) post(s *Snap, url string, body []byte, tag string) error {
	r, err := wd.W.HTTP("POST", url, body)
	if err != nil {
		return fmt.Errorf("POST %s: %w", url, err)
	}
	s.raw["POST "+url+" "+tag] = r
	return nil
}

func sortedKeysU(m map[uint64]bool) []uint64 {
	var ks []uint64
	for k := range m {
		ks = append(ks, k)
	}
	sort.Slice(ks, func(i, j int) bool { return ks[i] < ks[j] })
	return ks
}

// Snapshot reads every read endpoint of every instance at every version, plus repo-level JSON.
// Versions may be restricted (nil = all nodes of the DAG model).
// Hints fixes the label / key universes a snapshot queries, so that a later snapshot can ask exactly
// the same questions as an earlier one although the workload has seen more labels since.
type Hints struct {
	Labels []uint64
	NJ     []uint64
	KV     []string
}

func (wd *World) CurrentHints() *Hints {
	h := &Hints{Labels: sortedKeysU(wd.allLabels), NJ: sortedKeysU(wd.allNJ)}
	for k := range wd.allKV {
		h.KV = append(h.KV, k)
	}
	sort.Strings(h.KV)
	return h
}

func (wd *World) Snapshot(versions []string) (*Snap, error) { return wd.SnapshotH(versions, nil) }

func (wd *World) SnapshotH(versions []string, hints *Hints) (*Snap, error) {
	if hints == nil {
		hints = wd.CurrentHints()
	}
	on := func(t string) bool { return wd.has[t] && (wd.SnapTypes == nil || wd.SnapTypes[t]) }
	s := &Snap{raw: map[string]drv.Resp{}, M: map[string]string{}, MutationID: map[string]uint64{}, SavedMutID: map[string]uint64{}}
	// repo-level
	r, err := wd.W.Get("/api/repos/info")
	if err != nil {
		return nil, err
	}
	{
		var v interface{}
		dec := json.NewDecoder(strings.NewReader(string(r.Body)))
		dec.UseNumber()
		if err := dec.Decode(&v); err != nil {
			return nil, fmt.Errorf("repos/info not JSON: %v", err)
		}
		if m, ok := v.(map[string]interface{}); ok {
			for root, rv := range m {
				c := canonJSON(stripVolatile(rv, "", s.MutationID, s.SavedMutID, root))
				// split per top-level field for readable diffs
				var top map[string]interface{}
				json.Unmarshal([]byte(c), &top)
				if top == nil {
					s.M["repos/info/"+root] = c
					continue
				}
				for k, e := range top {
					if k == "DAG" {
						if dag, ok := e.(map[string]interface{}); ok {
							if nodes, ok := dag["Nodes"].(map[string]interface{}); ok {
								for u, n := range nodes {
									s.M["repos/info/"+root+"/DAG/"+u] = canonJSON(n)
								}
								continue
							}
						}
					}
					if k == "DataInstances" {
						if di, ok := e.(map[string]interface{}); ok {
							for name, d := range di {
								s.M["repos/info/"+root+"/DataInstances/"+name] = canonJSON(d)
							}
							continue
						}
					}
					s.M["repos/info/"+root+"/"+k] = canonJSON(e)
				}
			}
		}
	}
	if versions == nil {
		versions = wd.H.D.Order
	}
	labels := hints.Labels
	var sample []uint64
	for i, l := range labels {
		if len(labels) <= 10 || i%(len(labels)/10+1) == 0 || i >= len(labels)-4 {
			sample = append(sample, l)
		}
	}
	labelsJSON, _ := json.Marshal(labels)
	var pts [][3]int
	for p := range wd.allPts {
		pts = append(pts, p)
	}
	sort.Slice(pts, func(i, j int) bool { return fmt.Sprint(pts[i]) < fmt.Sprint(pts[j]) })
	// a few fixed probe points (supervoxel cube centres)
	probe := [][3]int{{8, 8, 8}, {24, 8, 8}, {40, 40, 40}, {56, 56, 56}, {8, 56, 24}, {33, 31, 32}}
	probeJSON, _ := json.Marshal(probe)
	njIDs := hints.NJ
	kvs := hints.KV

	// branch resolution
	branches := map[string]bool{"master": true}
	for _, u := range wd.H.D.Order {
		if b := wd.H.D.Nodes[u].Branch; b != "" {
			branches[b] = true
		}
	}
	for b := range branches {
		if on("kv") {
			if err := wd.get(s, "/api/node/"+wd.Root+":"+b+"/kv/keys"); err != nil {
				return nil, err
			}
		}
		if b != "master" {
			if err := wd.get(s, "/api/repo/"+wd.Root+"/branch-versions/"+b); err != nil {
				return nil, err
			}
		}
	}

	var extras []string
	for n := range wd.Extra {
		extras = append(extras, n)
	}
	sort.Strings(extras)
	for _, u := range versions {
		n := "/api/node/" + u + "/"
		for _, x := range extras {
			if err := wd.get(s, n+x+"/keys"); err != nil {
				return nil, err
			}
			if err := wd.get(s, n+x+"/key/k"); err != nil {
				return nil, err
			}
		}
		for _, ep := range []string{"note", "log", "status"} {
			if err := wd.get(s, n+ep); err != nil {
				return nil, err
			}
		}
		if on("kv") {
			if err := wd.get(s, n+"kv/keys"); err != nil {
				return nil, err
			}
			for _, k := range kvs {
				if err := wd.get(s, n+"kv/key/"+k); err != nil {
					return nil, err
				}
			}
			if err := wd.get(s, n+"kv/keyrangevalues/a/zz?json=true"); err != nil {
				return nil, err
			}
		}
		if on("lm") {
			for _, ep := range []string{
				fmt.Sprintf("lm/raw/0_1_2/%d_%d_%d/0_0_0", volN, volN, volN),
				fmt.Sprintf("lm/raw/0_1_2/%d_%d_%d/0_0_0?supervoxels=true", volN, volN, volN),
				"lm/maxlabel", "lm/nextlabel", "lm/listlabels", "lm/info", "lm/supervoxel-splits",
			} {
				if err := wd.get(s, n+ep); err != nil {
					return nil, err
				}
			}
			if err := wd.getBody(s, n+"lm/sizes", labelsJSON, "all-labels"); err != nil {
				return nil, err
			}
			if err := wd.getBody(s, n+"lm/sizes?supervoxels=true", labelsJSON, "all-labels"); err != nil {
				return nil, err
			}
			if err := wd.getBody(s, n+"lm/mapping", labelsJSON, "all-labels"); err != nil {
				return nil, err
			}
			if err := wd.getBody(s, n+"lm/labels", probeJSON, "probe-points"); err != nil {
				return nil, err
			}
			for _, l := range sample {
				for _, ep := range []string{"supervoxels/%d", "size/%d", "sparsevol/%d?format=rles", "sparsevol-coarse/%d", "sparsevol-size/%d", "lastmod/%d", "supervoxel-sizes/%d"} {
					if ep == "lastmod/%d" {
						continue // carries wall-clock time of the mutation; stable across restart but checked via index below
					}
					if err := wd.get(s, n+"lm/"+fmt.Sprintf(ep, l)); err != nil {
						return nil, err
					}
				}
			}
			if err := wd.get(s, n+"lm/label/33_31_32"); err != nil {
				return nil, err
			}
		}
		if on("ann") {
			for _, ep := range []string{"syn/all-elements", fmt.Sprintf("syn/elements/%d_%d_%d/0_0_0", volN, volN, volN), "syn/tag/t1?relationships=true", "syn/tag/t2", "syn/tag/t3",
				"lsz/top/10/AllSyn", "lsz/top/10/PostSyn", "lsz/top/5/PreSyn", "lsz/threshold/1/AllSyn"} {
				if err := wd.get(s, n+ep); err != nil {
					return nil, err
				}
			}
			for _, l := range sample {
				if err := wd.get(s, fmt.Sprintf("%ssyn/label/%d?relationships=true", n, l)); err != nil {
					return nil, err
				}
				if err := wd.get(s, fmt.Sprintf("%slsz/count/%d/AllSyn", n, l)); err != nil {
					return nil, err
				}
			}
		}
		if on("nj") {
			for _, ep := range []string{"nj/all", "nj/keys", "nj/fields", "nj/all?show=all", "nj/json_schema", "nj/schema", "nj/schema_batch", "nj/key/schema"} {
				if err := wd.get(s, n+ep); err != nil {
					return nil, err
				}
			}
			for i, id := range njIDs {
				if i < 12 {
					if err := wd.get(s, fmt.Sprintf("%snj/key/%d", n, id)); err != nil {
						return nil, err
					}
				}
			}
			if err := wd.post(s, n+"nj/query", []byte(`{"type":"T1"}`), "type=T1"); err != nil {
				return nil, err
			}
			if wd.NJWide {
				// body ids are decimal-string keys: range reads over bounds of different digit counts, and the key list in
				// the order it is served (a list's order is observable; neuronjson serves it in a deterministic order on
				// either path)
				for _, ep := range []string{"nj/keyrange/5/2000", "nj/keyrangevalues/30/700", "nj/keyrange/100/50000"} {
					if err := wd.get(s, n+ep); err != nil {
						return nil, err
					}
				}
				if err := wd.getOrdered(s, n+"nj/keys"); err != nil {
					return nil, err
				}
			}
		}
		if on("roi") {
			if err := wd.get(s, n+"roi/roi"); err != nil {
				return nil, err
			}
			if err := wd.post(s, n+"roi/ptquery", []byte(`[[5,5,5],[40,40,40],[70,10,10],[100,100,100]]`), "pts"); err != nil {
				return nil, err
			}
		}
		if on("img") {
			if err := wd.get(s, n+"img/raw/0_1_2/96_96_96/-32_-32_-32"); err != nil {
				return nil, err
			}
			if err := wd.get(s, n+"img/info"); err != nil {
				return nil, err
			}
		}
	}
	_ = pts
	_ = dvc.Absent
	var rp *strings.Replacer
	if wd.Normalize {
		rp = s.normalize(r.Body)
	}
	for k, resp := range s.raw {
		if rp != nil {
			k = fixText(rp, k)
			if len(resp.Body) > 0 && (resp.Body[0] == '{' || resp.Body[0] == '[' || resp.Body[0] == '"') {
				resp.Body = []byte(fixText(rp, string(resp.Body)))
			}
		}
		s.M[k] = Canon(resp)
	}
	for _, o := range s.ordered {
		k, v := o[0], o[1]
		if rp != nil {
			k, v = fixText(rp, k), fixText(rp, v)
		}
		s.M[k] = v
	}
	s.raw = nil
	return s, nil
}

func fixText(rp *strings.Replacer, x string) string {
	x = rp.Replace(x)
	x = reTime.ReplaceAllString(x, "<time>")
	x = rePath.ReplaceAllString(x, "<dir>/")
	return x
}

var reTime = regexp.MustCompile(`[0-9]{4}-[0-9]{2}-[0-9]{2}T[0-9]{2}:[0-9]{2}:[0-9]{2}(\.[0-9]+)?(Z|[+-][0-9]{2}:[0-9]{2})`)
var rePath = regexp.MustCompile(`/[A-Za-z0-9_./-]*vcheck-[A-Za-z0-9_-]+/[A-Za-z0-9_.-]+/`)

// normalize makes snapshots of two different runs of the same deterministic workload comparable:
// node UUIDs become V<version id>, data UUIDs become D<instance name>, timestamps and scratch paths are masked.
func (s *Snap) normalize(reposInfo []byte) *strings.Replacer {
	repl := map[string]string{}
	repos, err := dvc.ParseRepos(reposInfo)
	if err == nil {
		for _, ri := range repos {
			if ri == nil {
				continue
			}
			for u, n := range ri.DAG.Nodes {
				repl[u] = fmt.Sprintf("V%d", n.VersionID)
			}
			for name, raw := range ri.DataInstances {
				var d struct{ Base struct{ DataUUID string } }
				if json.Unmarshal(raw, &d) == nil && d.Base.DataUUID != "" {
					repl[d.Base.DataUUID] = "D" + name
				}
			}
		}
	}
	var olds []string
	for k := range repl {
		olds = append(olds, k)
	}
	sort.Slice(olds, func(i, j int) bool { return len(olds[i]) > len(olds[j]) })
	var pairs []string
	for _, k := range olds {
		if len(k) >= 8 {
			pairs = append(pairs, k, repl[k])
		}
	}
	s.Names = repl
	rp := strings.NewReplacer(pairs...)
	// entries derived from repos/info were already canonicalised: rename inside them and re-canonicalise
	m := make(map[string]string, len(s.M))
	for k, v := range s.M {
		v = fixText(rp, v)
		var x interface{}
		dec := json.NewDecoder(strings.NewReader(v))
		dec.UseNumber()
		if dec.Decode(&x) == nil {
			v = canonJSON(x)
		}
		m[fixText(rp, k)] = v
	}
	s.M = m
	mi := map[string]uint64{}
	for k, v := range s.MutationID {
		mi[fixText(rp, k)] = v
	}
	s.MutationID = mi
	return rp
}

// Diff lists differences between two snapshots (bounded).
func Diff(a, b *Snap) []string {
	var out []string
	for k, v := range a.M {
		w, ok := b.M[k]
		if !ok {
			out = append(out, fmt.Sprintf("%s: present before, missing after", k))
		} else if v != w {
			i := 0
			for i < len(v) && i < len(w) && v[i] == w[i] {
				i++
			}
			lo := i - 80
			if lo < 0 {
				lo = 0
			}
			cut := func(x string) string {
				hi := i + 200
				if hi > len(x) {
					hi = len(x)
				}
				if lo > len(x) {
					return ""
				}
				return x[lo:hi]
			}
			out = append(out, fmt.Sprintf("%s: differs at byte %d: …%s  =>  …%s", k, i, cut(v), cut(w)))
		}
	}
	for k := range b.M {
		if _, ok := a.M[k]; !ok {
			out = append(out, fmt.Sprintf("%s: missing before, present after", k))
		}
	}
	sort.Strings(out)
	return out
}
