package mixed

import (
	"encoding/json"
	"fmt"
	"sort"
	"strings"
)

// CatEntry is one well-formed request: METHOD /api/node/<uuid>/<Inst>/<Path> (node-level when Inst is empty).
type CatEntry struct {
	Inst   string
	Method string
	Path   string
	Body   []byte
}

func jb(v interface{}) []byte { b, _ := json.Marshal(v); return b }

// pbKeyValues encodes proto3 KeyValues{repeated KeyValue{string key=1; bytes value=2}}.
func PBKeyValues(kvs map[string]string) []byte {
	var out []byte
	putVar := func(b []byte, x int) []byte {
		for x >= 0x80 {
			b = append(b, byte(x)|0x80)
			x >>= 7
		}
		return append(b, byte(x))
	}
	var ks []string
	for k := range kvs {
		ks = append(ks, k)
	}
	sort.Strings(ks)
	for _, k := range ks {
		var kv []byte
		kv = append(kv, 0x0a)
		kv = putVar(kv, len(k))
		kv = append(kv, k...)
		kv = append(kv, 0x12)
		kv = putVar(kv, len(kvs[k]))
		kv = append(kv, kvs[k]...)
		out = append(out, 0x0a)
		out = putVar(out, len(kv))
		out = append(out, kv...)
	}
	return out
}

// Catalogue builds well-formed mutation requests for every modelled type from the tracking state of version `at`.
func (wd *World) Catalogue(at string) []CatEntry {
	var es []CatEntry
	add := func(inst, method, path string, body []byte) {
		es = append(es, CatEntry{Inst: inst, Method: method, Path: path, Body: body})
	}
	// keyvalue
	add("kv", "POST", "key/k1", []byte(`{"v":"gate"}`))
	add("kv", "PUT", "key/k1", []byte(`{"v":"gate-put"}`))
	if ks := wd.KVKeys(at); len(ks) > 0 {
		add("kv", "DELETE", "key/"+ks[0], nil)
		add("kv", "POST", "key/"+ks[0], []byte(`{"v":"overwrite"}`))
	}
	add("kv", "POST", "keyvalues", PBKeyValues(map[string]string{"pb1": `{"a":1}`, "pb2": `{"b":2}`}))
	// labelmap
	used := map[uint64]bool{}
	if p := wd.PlanMerge(at, used); p != nil {
		add("lm", "POST", "merge", p.Req.Body)
	}
	if p := wd.PlanCleave(at, map[uint64]bool{}); p != nil {
		add("lm", "POST", p.Req.URL[strings.Index(p.Req.URL, "/lm/")+4:], p.Req.Body)
	}
	if sv, rle := wd.SplitRLE(at); rle != nil {
		add("lm", "POST", fmt.Sprintf("split-supervoxel/%d", sv), rle)
		bodies := wd.Bodies(at)
		for b, svs := range bodies {
			for _, s := range svs {
				if s == sv {
					add("lm", "POST", fmt.Sprintf("split/%d", b), rle)
				}
			}
		}
	}
	var bl []uint64
	for b := range wd.Bodies(at) {
		bl = append(bl, b)
	}
	sort.Slice(bl, func(i, j int) bool { return bl[i] < bl[j] })
	if len(bl) > 0 {
		add("lm", "POST", "renumber", jb([]uint64{9000001, bl[0]}))
	}
	blk := make([]byte, 32*32*32*8)
	for i := 0; i < len(blk); i += 8 {
		blk[i] = 77
	}
	add("lm", "POST", "raw/0_1_2/32_32_32/0_0_0", blk)
	add("lm", "POST", "raw/0_1_2/32_32_32/32_0_0?mutate=true", blk)
	add("lm", "POST", "nextlabel/2", nil)
	add("lm", "POST", "maxlabel/123456789", nil)
	add("lm", "POST", "set-nextlabel/223456789", nil)
	// annotation
	add("syn", "POST", "elements", jb([]map[string]interface{}{{"Pos": []int{3, 4, 5}, "Kind": "PostSyn", "Tags": []string{"t1", "gate"}, "Prop": map[string]string{"g": "1"}}}))
	if ps := wd.Elements(at); len(ps) > 0 {
		p := ps[0]
		add("syn", "DELETE", fmt.Sprintf("element/%d_%d_%d", p[0], p[1], p[2]), nil)
		if len(ps) > 1 {
			q := ps[1]
			add("syn", "POST", fmt.Sprintf("move/%d_%d_%d/%d_%d_%d", q[0], q[1], q[2], 61, 62, 63), nil)
		}
	}
	add("syn", "POST", "blocks", jb(map[string]interface{}{"0,0,0": []map[string]interface{}{{"Pos": []int{7, 7, 7}, "Kind": "Note", "Tags": []string{"blk"}}}}))
	add("syn", "POST", "labels", jb(map[string]string{"1": `[{"Pos":[9,9,9],"Kind":"Note"}]`}))
	add("syn", "POST", "reload", nil)
	add("lsz", "POST", "reload", nil)
	// neuronjson
	add("nj", "POST", "key/777001?u=gate", []byte(`{"bodyid": 777001, "type": "gate"}`))
	if ids := wd.NJKeys(at); len(ids) > 0 {
		add("nj", "POST", fmt.Sprintf("key/%d?u=gate", ids[0]), []byte(fmt.Sprintf(`{"bodyid": %d, "gate": true}`, ids[0])))
		add("nj", "DELETE", fmt.Sprintf("key/%d?u=gate", ids[0]), nil)
	}
	add("nj", "POST", "keyvalues?u=gate", []byte(`{"777002": {"bodyid": 777002, "a": 1}}`))
	add("nj", "POST", "json_schema?u=gate", []byte(`{"type":"object","properties":{"bodyid":{"type":"integer"}}}`))
	add("nj", "POST", "schema?u=gate", []byte(`{"bodyid": "int"}`))
	add("nj", "POST", "schema_batch?u=gate", []byte(`{"bodyid": "int"}`))
	add("nj", "POST", "query", []byte(`{"type":"T1"}`)) // documented as non-mutating
	// roi
	add("roi", "POST", "roi", []byte(`[[0,0,0,1],[1,1,0,2]]`))
	add("roi", "DELETE", "roi", nil)
	add("roi", "POST", "ptquery", []byte(`[[1,1,1]]`)) // documented as non-mutating
	// imageblk
	img := make([]byte, 32*32*32)
	for i := range img {
		img[i] = 201
	}
	add("img", "POST", "raw/0_1_2/32_32_32/0_0_0", img)
	add("img", "POST", "raw/0_1_2/32_32_32/32_32_32?mutate=true", img)
	add("img", "POST", "blocks/1_1_1/1", img)
	// node-level
	es = append(es, CatEntry{Method: "POST", Path: "note", Body: []byte(`{"note":"changed"}`)})
	es = append(es, CatEntry{Method: "POST", Path: "log", Body: []byte(`{"log":["l1"]}`)})
	es = append(es, CatEntry{Method: "POST", Path: "commit", Body: []byte(`{"note":"again"}`)})
	return es
}
