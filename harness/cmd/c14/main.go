// C14 — lower-resolution label levels always match the documented down-sampling.
//
// Oracle: after the instance reports idle (w.Settle: Updating / AnyScaleUpdating), for every level n below the
// configured maximum, every voxel of level n+1 read from the server (GET raw and GET blocks with
// scale=n+1&supervoxels=true) must equal the documented vote over its 2x2x2 children read from the SERVER at level n
// (level-to-level), and level 0 must equal the driver's voxel model.  Vote: most frequent non-zero label, ties to the
// smaller label, all zero gives zero (read in labels.downresArray).
package main

import (
	"encoding/json"
	"fmt"
	"math/rand"
	"sort"
	"strings"
	"sync"

	"verif/harness/internal/drv"
	"verif/harness/internal/dvc"
	"verif/harness/internal/labelmodel"
	"verif/harness/internal/lmwire"
)

func main() { drv.Main("C14", "exploration", run) }

const bsz = 32

type seq struct {
	c      *drv.Ctx
	w      *drv.Worker
	cl     *dvc.Client
	h      *dvc.Hist
	r      *rand.Rand
	tag    string
	name   string
	g      *labelmodel.Geom
	L      int // MaxDownresLevel
	states map[string]*labelmodel.State
	maxID  uint64
	trace  []string
	step   int
	dirty  map[string]int
	lastOp map[string]string
	nviol  int
	neg    bool
	// C08's known defect (index delta lost when a write touches a supervoxel whose mapping entries exist only on
	// other branches) makes split requests, which consult the index, unreliable at such a version: they are skipped there
	entries map[uint64]map[string]bool
	taint   map[string]bool
	// zeroWrite[v]: some write at v (or an ancestor) stored a block that is entirely background
	zeroWrite map[string]string
}

// noteZero records writes of all-background blocks (the class of Block.setBlank: unmodified octants are
// taken for background, so the whole parent block is replaced by a solid 0 block).
func (s *seq) noteZero(v, kind string, off, size [3]int, data []uint64) {
	for bz := 0; bz < size[2]; bz += bsz {
		for by := 0; by < size[1]; by += bsz {
			for bx := 0; bx < size[0]; bx += bsz {
				zero := true
				for z := bz; z < bz+bsz && zero; z++ {
					for y := by; y < by+bsz && zero; y++ {
						base := (z*size[1]+y)*size[0] + bx
						for x := 0; x < bsz; x++ {
							if data[base+x] != 0 {
								zero = false
								break
							}
						}
					}
				}
				if zero && s.zeroWrite[v] == "" {
					s.zeroWrite[v] = fmt.Sprintf("%s at %s stored the all-background block %v", kind, s.short(v), [3]int{(off[0] + bx) / bsz, (off[1] + by) / bsz, (off[2] + bz) / bsz})
					s.c.Count("writes_storing_an_all_background_block", 1)
				}
			}
		}
	}
}

func (s *seq) entry(v string, ls ...uint64) {
	for _, l := range ls {
		if s.entries[l] == nil {
			s.entries[l] = map[string]bool{}
		}
		s.entries[l][v] = true
	}
}

func (s *seq) noteWrite(v string, vols ...[]uint64) {
	anc := s.h.D.Anc(v)
	seen := map[uint64]bool{}
	for _, vol := range vols {
		for _, l := range vol {
			if l == 0 || seen[l] {
				continue
			}
			seen[l] = true
			es := s.entries[l]
			if len(es) == 0 {
				continue
			}
			own := false
			for ev := range es {
				if anc[ev] {
					own = true
				}
			}
			if !own && !s.taint[v] {
				s.taint[v] = true
				s.c.Count("versions_where_splits_are_skipped_because_of_the_C08_index_defect", 1)
			}
		}
	}
}

var (
	repMu    sync.Mutex
	reported = map[string]int{}
)

func firstReport(key string) bool {
	repMu.Lock()
	defer repMu.Unlock()
	reported[key]++
	return reported[key] == 1
}

func (s *seq) url(v, path string) string { return "/api/node/" + v + "/" + s.name + "/" + path }
func (s *seq) log(f string, a ...interface{}) {
	s.trace = append(s.trace, fmt.Sprintf(f, a...))
}
func (s *seq) short(v string) string { return s.h.Short(v) }

func (s *seq) viol(key, what string, extra map[string]interface{}) {
	s.nviol++
	if s.neg {
		key += "|negcoords"
	}
	if !firstReport(key) {
		s.c.Count("violations_repeating_an_already_reported_class", 1)
		return
	}
	m := map[string]interface{}{"sequence": s.tag, "max_downres_level": s.L, "grid_origin_blocks": s.g.Org, "grid_blocks": s.g.NB, "trace": s.trace, "dag": s.h.D.Shape()}
	for k, v := range extra {
		m[k] = v
	}
	s.c.Violation(key, fmt.Sprintf("[%s L=%d] %s; history: %s", s.tag, s.L, what, drv.Trunc(strings.Join(s.trace, "; "), 1500)), m)
}

func (s *seq) fresh() uint64 { s.maxID += 1 + uint64(s.r.Intn(2)); return s.maxID }

func (s *seq) see(ls ...uint64) {
	for _, l := range ls {
		if l > s.maxID {
			s.maxID = l
		}
	}
}

func cs(c [3]int) string { return fmt.Sprintf("%d_%d_%d", c[0], c[1], c[2]) }

// ---------------------------------------------------------------- layouts

func (s *seq) palette(st *labelmodel.State, n int) []uint64 {
	live := st.Scan().SVs()
	out := make([]uint64, n)
	for i := range out {
		if len(live) > 0 && s.r.Intn(3) == 0 {
			l := live[s.r.Intn(len(live))]
			if !st.SplitSV[l] {
				out[i] = l
				continue
			}
		}
		out[i] = s.fresh()
	}
	return out
}

func (s *seq) genBox(st *labelmodel.State, size [3]int, style string) []uint64 {
	n := size[0] * size[1] * size[2]
	out := make([]uint64, n)
	r := s.r
	switch style {
	case "zero":
	case "solid":
		l := s.palette(st, 1)[0]
		for i := range out {
			out[i] = l
		}
	case "noise": // per-voxel noise from a tiny palette: every 2x2x2 cell is a contested vote with ties
		pal := append(s.palette(st, 2+r.Intn(3)), 0)
		for i := range out {
			out[i] = pal[r.Intn(len(pal))]
		}
	case "pairs": // exact 4:4 and 2:2:2:2 ties inside each cell
		pal := s.palette(st, 4)
		mode := r.Intn(3)
		i := 0
		for z := 0; z < size[2]; z++ {
			for y := 0; y < size[1]; y++ {
				for x := 0; x < size[0]; x++ {
					switch mode {
					case 0:
						out[i] = pal[x%2]
					case 1:
						out[i] = pal[(x%2)+2*(y%2)]
					default:
						if z%2 == 0 {
							out[i] = pal[x%2]
						} // upper half of each cell stays 0: 2:2 tie among non-zero labels
					}
					i++
				}
			}
		}
	case "slabs":
		axis := r.Intn(3)
		pal := append(s.palette(st, 2+r.Intn(3)), 0)
		cuts := make([]int, size[axis])
		cur := 0
		for i := range cuts {
			if r.Intn(5) == 0 {
				cur = r.Intn(len(pal))
			}
			cuts[i] = cur
		}
		i := 0
		for z := 0; z < size[2]; z++ {
			for y := 0; y < size[1]; y++ {
				for x := 0; x < size[0]; x++ {
					c := [3]int{x, y, z}
					out[i] = pal[cuts[c[axis]]]
					i++
				}
			}
		}
	default: // voronoi
		k := 3 + r.Intn(5)
		pal := s.palette(st, k)
		type seed struct {
			x, y, z int
			l       uint64
		}
		seeds := make([]seed, k)
		for i := range seeds {
			seeds[i] = seed{r.Intn(size[0]), r.Intn(size[1]), r.Intn(size[2]), pal[i]}
			if r.Intn(4) == 0 {
				seeds[i].l = 0
			}
		}
		i := 0
		for z := 0; z < size[2]; z++ {
			for y := 0; y < size[1]; y++ {
				for x := 0; x < size[0]; x++ {
					best, bd := 0, 1<<30
					for si, sd := range seeds {
						dx, dy, dz := x-sd.x, y-sd.y, z-sd.z
						if d := dx*dx + dy*dy + dz*dz; d < bd {
							best, bd = si, d
						}
					}
					out[i] = seeds[best].l
					i++
				}
			}
		}
	}
	return out
}

var styles = []string{"voronoi", "voronoi", "noise", "noise", "noise", "pairs", "pairs", "slabs", "slabs", "solid", "solid", "voronoi", "noise", "zero"}

func (s *seq) style() string { return styles[s.r.Intn(len(styles))] }

func (s *seq) unwritten(st *labelmodel.State) [][3]int {
	var out [][3]int
	for _, b := range s.g.Blocks() {
		if !st.Has[b] {
			out = append(out, b)
		}
	}
	return out
}

func diff(a, b *labelmodel.State) int {
	n := 0
	for i := range a.SV {
		if a.SV[i] != b.SV[i] {
			n++
		}
	}
	return n
}

func (s *seq) after(v, kind string, before *labelmodel.State) {
	s.lastOp[v] = kind
	s.dirty[v] = diff(before, s.states[v])
	s.c.Count("mutations_"+kind, 1)
}

// ---------------------------------------------------------------- mutations

// touch patterns for block sets: one octant of a parent block, all eight, a checkerboard, random
func (s *seq) pattern(cands [][3]int) ([][3]int, string) {
	if len(cands) == 0 {
		return nil, ""
	}
	pick := cands[s.r.Intn(len(cands))]
	parent := func(b [3]int) [3]int { return [3]int{fl2(b[0]), fl2(b[1]), fl2(b[2])} }
	switch s.r.Intn(4) {
	case 0:
		return [][3]int{pick}, "one-octant"
	case 1:
		var out [][3]int
		for _, b := range cands {
			if parent(b) == parent(pick) {
				out = append(out, b)
			}
		}
		return out, "all-octants-of-a-parent"
	case 2:
		var out [][3]int
		for _, b := range cands {
			if (b[0]+b[1]+b[2])%2 == 0 {
				out = append(out, b)
			}
		}
		if len(out) == 0 {
			out = [][3]int{pick}
		}
		return out, "checkerboard"
	default:
		var out [][3]int
		for _, b := range cands {
			if s.r.Intn(2) == 0 {
				out = append(out, b)
			}
		}
		if len(out) == 0 {
			out = [][3]int{pick}
		}
		return out, "random-subset"
	}
}

func fl2(a int) int {
	if a < 0 {
		return -((-a + 1) / 2)
	}
	return a / 2
}

func (s *seq) opIngestBlocks(v string) (bool, error) {
	st := s.states[v]
	blocks, pat := s.pattern(s.unwritten(st))
	if len(blocks) == 0 {
		return false, nil
	}
	before := st.Clone()
	var pbs []lmwire.PosBlock
	for _, b := range blocks {
		data := s.genBox(st, [3]int{bsz, bsz, bsz}, s.style())
		pbs = append(pbs, lmwire.PosBlock{X: int32(b[0]), Y: int32(b[1]), Z: int32(b[2]), Vox: data})
		if err := st.WriteBox([3]int{b[0] * bsz, b[1] * bsz, b[2] * bsz}, [3]int{bsz, bsz, bsz}, data); err != nil {
			return false, err
		}
	}
	body, err := lmwire.EncodeBlockStream(pbs, [3]int{bsz, bsz, bsz})
	if err != nil {
		return false, err
	}
	s.log("POST blocks?downres=true@%s %s %v", s.short(v), pat, blocks)
	r, err := s.w.Post(s.url(v, "blocks?downres=true"), body)
	if err != nil {
		return false, err
	}
	if !r.OK() {
		s.states[v] = before
		return false, s.refused("ingest-blocks", r)
	}
	for _, pb := range pbs {
		s.noteWrite(v, pb.Vox)
		s.noteZero(v, "POST blocks", [3]int{int(pb.X) * bsz, int(pb.Y) * bsz, int(pb.Z) * bsz}, [3]int{bsz, bsz, bsz}, pb.Vox)
	}
	s.after(v, "ingest-blocks", before)
	return true, nil
}

// opParallelIngest: the octants of lower-resolution blocks arrive in separate, simultaneous POST blocks?downres=true
// requests (one block each) - clients ingest in parallel.  Every request is acknowledged; once the instance reports
// idle each level must be the vote over the level below, exactly as if the blocks had come one after the other.
func (s *seq) opParallelIngest(v string) (bool, error) {
	st := s.states[v]
	cands := s.unwritten(st)
	if len(cands) < 2 {
		return false, nil
	}
	// all unwritten octants of one or two parents
	parent := func(b [3]int) [3]int { return [3]int{fl2(b[0]), fl2(b[1]), fl2(b[2])} }
	pick := parent(cands[s.r.Intn(len(cands))])
	pick2 := parent(cands[s.r.Intn(len(cands))])
	var blocks [][3]int
	for _, b := range cands {
		if parent(b) == pick || parent(b) == pick2 {
			blocks = append(blocks, b)
		}
	}
	if len(blocks) < 2 {
		return false, nil
	}
	before := st.Clone()
	var reqs []drv.Req
	var vols [][]uint64
	for _, b := range blocks {
		data := s.genBox(st, [3]int{bsz, bsz, bsz}, s.style())
		body, err := lmwire.EncodeBlockStream([]lmwire.PosBlock{{X: int32(b[0]), Y: int32(b[1]), Z: int32(b[2]), Vox: data}}, [3]int{bsz, bsz, bsz})
		if err != nil {
			return false, err
		}
		reqs = append(reqs, drv.Req{Method: "POST", URL: s.url(v, "blocks?downres=true"), Body: body})
		vols = append(vols, data)
	}
	s.log("%d simultaneous POST blocks?downres=true@%s, one block each: %v", len(blocks), s.short(v), blocks)
	resps, err := s.w.Par(reqs)
	if err != nil {
		return false, err
	}
	for i, r := range resps {
		if !r.OK() {
			s.states[v] = before
			return false, s.refused("parallel-ingest-blocks", r)
		}
		b := blocks[i]
		if err := st.WriteBox([3]int{b[0] * bsz, b[1] * bsz, b[2] * bsz}, [3]int{bsz, bsz, bsz}, vols[i]); err != nil {
			return false, err
		}
		s.noteWrite(v, vols[i])
		s.noteZero(v, "POST blocks", [3]int{b[0] * bsz, b[1] * bsz, b[2] * bsz}, [3]int{bsz, bsz, bsz}, vols[i])
	}
	s.after(v, "parallel-ingest-blocks", before)
	s.c.Count("parallel_ingest_rounds", 1)
	s.c.Count("parallel_ingest_requests", len(reqs))
	return true, nil
}

// refused reports a refused legal write; a recovered panic inside the down-sampling code leaves the instance's
// scale flags raised, so the sequence cannot continue (errStop).
var errStop = fmt.Errorf("sequence stopped")

func (s *seq) refused(kind string, r drv.Resp) error {
	class := "refused"
	if r.Panicked() {
		class = "panic"
	}
	key := "write-" + class + ":" + kind
	if r.Panicked() && s.neg {
		key = "downres-panic-on-write" // one class for every write path; the suffix |negcoords is added by viol
	}
	s.viol(key, fmt.Sprintf("legal %s answered %s", kind, drv.Trunc(r.String(), 300)), map[string]interface{}{"status": r.Status, "body": drv.Trunc(string(r.Body), 2000)})
	return errStop
}

func (s *seq) opWriteRaw(v string, mutate bool) (bool, error) {
	st := s.states[v]
	var blocks [][3]int
	var pat string
	if mutate {
		blocks, pat = s.pattern(s.g.Blocks())
	} else {
		blocks, pat = s.pattern(s.unwritten(st))
	}
	if len(blocks) == 0 {
		return false, nil
	}
	// POST raw takes a box: use the single block, or the bounding box when the blocks of the pattern fill it
	// (ingest) / always the bounding box (mutate)
	lo, hi := blocks[0], blocks[0]
	for _, b := range blocks {
		for a := 0; a < 3; a++ {
			if b[a] < lo[a] {
				lo[a] = b[a]
			}
			if b[a] > hi[a] {
				hi[a] = b[a]
			}
		}
	}
	nb := [3]int{hi[0] - lo[0] + 1, hi[1] - lo[1] + 1, hi[2] - lo[2] + 1}
	if !mutate {
		full := true
		for z := lo[2]; z <= hi[2]; z++ {
			for y := lo[1]; y <= hi[1]; y++ {
				for x := lo[0]; x <= hi[0]; x++ {
					if st.Has[[3]int{x, y, z}] {
						full = false
					}
				}
			}
		}
		if !full {
			lo, nb, pat = blocks[0], [3]int{1, 1, 1}, "one-octant"
		}
	} else if pat != "all-octants-of-a-parent" && s.r.Intn(2) == 0 {
		lo, nb, pat = blocks[0], [3]int{1, 1, 1}, "one-octant"
	}
	off := [3]int{lo[0] * bsz, lo[1] * bsz, lo[2] * bsz}
	size := [3]int{nb[0] * bsz, nb[1] * bsz, nb[2] * bsz}
	data := s.genBox(st, size, s.style())
	url := s.url(v, "raw/0_1_2/"+cs(size)+"/"+cs(off))
	kind := "ingest-raw"
	if mutate {
		url += "?mutate=true"
		kind = "mutate-raw"
	}
	s.log("%s@%s %s off=%v size=%v", kind, s.short(v), pat, off, size)
	r, err := s.w.Post(url, lmwire.EncodeVolume(data))
	if err != nil {
		return false, err
	}
	if !r.OK() {
		return false, s.refused(kind, r)
	}
	before := st.Clone()
	s.noteWrite(v, st.ReadBox(off, size), data)
	if err := st.WriteBox(off, size, data); err != nil {
		return false, err
	}
	s.see(data...)
	s.noteZero(v, kind, off, size, data)
	s.after(v, kind, before)
	return true, nil
}

func maskRuns(g *labelmodel.Geom, mask []bool) []labelmodel.Run {
	var runs []labelmodel.Run
	d, o := g.Dim(), g.VoxOrg()
	i := 0
	for z := 0; z < d[2]; z++ {
		for y := 0; y < d[1]; y++ {
			start := -1
			for x := 0; x <= d[0]; x++ {
				on := x < d[0] && mask[i+x]
				if on && start < 0 {
					start = x
				}
				if !on && start >= 0 {
					runs = append(runs, labelmodel.Run{X: o[0] + start, Y: o[1] + y, Z: o[2] + z, N: x - start})
					start = -1
				}
			}
			i += d[0]
		}
	}
	return runs
}

func wire(runs []labelmodel.Run) []lmwire.Run {
	out := make([]lmwire.Run, len(runs))
	for i, r := range runs {
		out[i] = lmwire.Run{X: int32(r.X), Y: int32(r.Y), Z: int32(r.Z), N: int32(r.N)}
	}
	return out
}

// subset picks part of a voxel mask: one voxel, one sub-block worth, a half-space or noise.
func (s *seq) subset(mask []bool, proper bool) ([]bool, string) {
	var idx []int
	for i, m := range mask {
		if m {
			idx = append(idx, i)
		}
	}
	if len(idx) == 0 || proper && len(idx) < 2 {
		return nil, ""
	}
	sub := make([]bool, len(mask))
	shape := []string{"single", "noise", "half", "subblock"}[s.r.Intn(4)]
	switch shape {
	case "single":
		sub[idx[s.r.Intn(len(idx))]] = true
	case "noise":
		for _, i := range idx {
			sub[i] = s.r.Intn(2) == 0
		}
	case "half":
		for k, i := range idx {
			sub[i] = k < len(idx)/2
		}
	default:
		x0, y0, z0 := s.g.Coord(idx[s.r.Intn(len(idx))])
		for _, i := range idx {
			x, y, z := s.g.Coord(i)
			sub[i] = x/8 == x0/8 && y/8 == y0/8 && z/8 == z0/8
		}
	}
	n := 0
	for _, i := range idx {
		if sub[i] {
			n++
		}
	}
	if n == 0 {
		sub[idx[0]] = true
		n = 1
	}
	if proper && n == len(idx) {
		sub[idx[len(idx)-1]] = false
	}
	return sub, shape
}

func (s *seq) opSplitSupervoxel(v string) (bool, error) {
	st := s.states[v]
	svs := st.Scan().SVs()
	if len(svs) == 0 {
		return false, nil
	}
	sv := svs[s.r.Intn(len(svs))]
	mask, _ := st.Mask(sv, true, nil)
	sub, shape := s.subset(mask, false)
	if sub == nil {
		return false, nil
	}
	runs := maskRuns(s.g, sub)
	s.log("split-supervoxel@%s sv=%d %s runs=%d", s.short(v), sv, shape, len(runs))
	r, err := s.w.Post(s.url(v, fmt.Sprintf("split-supervoxel/%d", sv)), lmwire.EncodeRLEs(wire(runs)))
	if err != nil {
		return false, err
	}
	if !r.OK() {
		return false, s.refused("split-supervoxel", r)
	}
	var out struct{ SplitSupervoxel, RemainSupervoxel uint64 }
	if json.Unmarshal(r.Body, &out) != nil || out.SplitSupervoxel == 0 || out.RemainSupervoxel == 0 {
		return false, fmt.Errorf("split-supervoxel response %q", r.Body)
	}
	before := st.Clone()
	st.SplitSupervoxel(sv, runs, out.SplitSupervoxel, out.RemainSupervoxel)
	s.entry(v, sv, out.SplitSupervoxel, out.RemainSupervoxel)
	s.see(out.SplitSupervoxel, out.RemainSupervoxel)
	s.log("  -> split=%d remain=%d", out.SplitSupervoxel, out.RemainSupervoxel)
	s.after(v, "split-supervoxel", before)
	return true, nil
}

// opSolidSplit: one fresh supervoxel written over two neighbouring blocks (both become solid blocks of that one
// label), then a split-supervoxel whose voxels all lie in the first block: the second block changes its label (to the
// "remain" supervoxel) without a single voxel of it being named by the request, and every level has to follow.
func (s *seq) opSolidSplit(v string) (bool, error) {
	st := s.states[v]
	in := map[[3]int]bool{}
	for _, b := range s.g.Blocks() {
		in[b] = true
	}
	var pairs [][3]int
	for _, b := range s.g.Blocks() {
		if in[[3]int{b[0] + 1, b[1], b[2]}] {
			pairs = append(pairs, b)
		}
	}
	if len(pairs) == 0 {
		return false, nil
	}
	b := pairs[s.r.Intn(len(pairs))]
	off := [3]int{b[0] * bsz, b[1] * bsz, b[2] * bsz}
	size := [3]int{2 * bsz, bsz, bsz}
	x := s.fresh()
	data := make([]uint64, size[0]*size[1]*size[2])
	for i := range data {
		data[i] = x
	}
	s.log("solid-split@%s: mutate-raw off=%v size=%v all label %d", s.short(v), off, size, x)
	r, err := s.w.Post(s.url(v, "raw/0_1_2/"+cs(size)+"/"+cs(off)+"?mutate=true"), lmwire.EncodeVolume(data))
	if err != nil {
		return false, err
	}
	if !r.OK() {
		return false, s.refused("mutate-raw", r)
	}
	before := st.Clone()
	s.noteWrite(v, st.ReadBox(off, size), data)
	if err := st.WriteBox(off, size, data); err != nil {
		return false, err
	}
	s.see(x)
	s.after(v, "mutate-raw", before)
	if err := s.w.Settle(); err != nil {
		return false, err
	}
	sub := make([]bool, s.g.NVox())
	for z := 3; z < 6; z++ {
		for y := 4; y < 8; y++ {
			for xx := 5; xx < 14; xx++ {
				if i := s.g.Idx(off[0]+xx, off[1]+y, off[2]+z); i >= 0 {
					sub[i] = true
				}
			}
		}
	}
	runs := maskRuns(s.g, sub)
	s.log("solid-split@%s: split-supervoxel sv=%d box inside block %v, runs=%d", s.short(v), x, b, len(runs))
	r, err = s.w.Post(s.url(v, fmt.Sprintf("split-supervoxel/%d", x)), lmwire.EncodeRLEs(wire(runs)))
	if err != nil {
		return false, err
	}
	if !r.OK() {
		return true, s.refused("split-supervoxel", r)
	}
	var out struct{ SplitSupervoxel, RemainSupervoxel uint64 }
	if json.Unmarshal(r.Body, &out) != nil || out.SplitSupervoxel == 0 || out.RemainSupervoxel == 0 {
		return false, fmt.Errorf("split-supervoxel response %q", r.Body)
	}
	before = st.Clone()
	st.SplitSupervoxel(x, runs, out.SplitSupervoxel, out.RemainSupervoxel)
	s.entry(v, x, out.SplitSupervoxel, out.RemainSupervoxel)
	s.see(out.SplitSupervoxel, out.RemainSupervoxel)
	s.log("  -> split=%d remain=%d", out.SplitSupervoxel, out.RemainSupervoxel)
	s.after(v, "split-supervoxel", before)
	s.c.Count("solid_block_splits", 1)
	return true, nil
}

func (s *seq) opSplitBody(v string) (bool, error) {
	st := s.states[v]
	sc := st.Scan()
	var cands []uint64
	for _, b := range sc.Bodies() {
		if sc.BodySize[b] >= 2 {
			cands = append(cands, b)
		}
	}
	if len(cands) == 0 {
		return false, nil
	}
	body := cands[s.r.Intn(len(cands))]
	mask, _ := st.Mask(body, false, nil)
	sub, shape := s.subset(mask, true)
	if sub == nil {
		return false, nil
	}
	runs := maskRuns(s.g, sub)
	s.log("split@%s body=%d %s runs=%d", s.short(v), body, shape, len(runs))
	r, err := s.w.Post(s.url(v, fmt.Sprintf("split/%d", body)), lmwire.EncodeRLEs(wire(runs)))
	if err != nil {
		return false, err
	}
	if !r.OK() {
		return false, s.refused("split", r)
	}
	var out struct {
		Label      uint64 `json:"label"`
		MutationID uint64
	}
	if json.Unmarshal(r.Body, &out) != nil || out.Label == 0 {
		return false, fmt.Errorf("split response %q", r.Body)
	}
	sr, err := s.w.Get(s.url(v, "supervoxel-splits"))
	if err != nil {
		return false, err
	}
	var raw []json.RawMessage
	var triples []labelmodel.SVSplit
	if sr.OK() && json.Unmarshal(sr.Body, &raw) == nil {
		for _, item := range raw {
			var recs [][]uint64
			if json.Unmarshal(item, &recs) != nil {
				continue
			}
			for _, rec := range recs {
				if len(rec) == 4 && rec[0] == out.MutationID {
					triples = append(triples, labelmodel.SVSplit{Old: rec[1], Remain: rec[2], Split: rec[3]})
				}
			}
		}
	}
	touched := map[uint64]bool{}
	for i, on := range sub {
		if on {
			touched[st.SV[i]] = true
		}
	}
	if len(triples) != len(touched) {
		return false, fmt.Errorf("supervoxel-splits lists %d successors for mutation %d, the split cut %d supervoxels", len(triples), out.MutationID, len(touched))
	}
	before := st.Clone()
	st.SplitBody(body, runs, out.Label, triples)
	s.see(out.Label)
	for _, t := range triples {
		s.see(t.Remain, t.Split)
		s.entry(v, t.Old, t.Remain, t.Split)
	}
	s.log("  -> new body %d, successors %v", out.Label, triples)
	s.after(v, "split", before)
	return true, nil
}

// ---------------------------------------------------------------- reads and the oracle

// levelRegion is the image of the level-0 grid at level n: voxel origin and dimensions.
func (s *seq) levelRegion(n int) (off, dim [3]int) {
	o, d := s.g.VoxOrg(), s.g.Dim()
	for a := 0; a < 3; a++ {
		off[a] = o[a] >> uint(n) // the grid origin is a multiple of 32, so this is exact also for negatives
		dim[a] = d[a] >> uint(n)
	}
	return
}

func (s *seq) readRaw(v string, n int) ([]uint64, [3]int, drv.Resp, error) {
	off, dim := s.levelRegion(n)
	r, err := s.w.Get(s.url(v, fmt.Sprintf("raw/0_1_2/%s/%s?scale=%d&supervoxels=true", cs(dim), cs(off), n)))
	if err != nil {
		return nil, dim, r, err
	}
	if !r.OK() {
		return nil, dim, r, nil
	}
	vol, derr := lmwire.DecodeVolume(r.Body, dim[0]*dim[1]*dim[2])
	if derr != nil {
		return nil, dim, drv.Resp{Status: r.Status, Body: []byte(derr.Error())}, nil
	}
	return vol, dim, r, nil
}

func floorDiv(a, b int) int {
	q := a / b
	if a%b != 0 && (a < 0) != (b < 0) {
		q--
	}
	return q
}

// readBlocks reads the block-aligned cover of the level-n region through GET blocks and returns the region's voxels
// plus the number of non-zero voxels found outside the region (nothing was ever written there).
func (s *seq) readBlocks(v string, n int) (vol []uint64, outside int, r drv.Resp, err error) {
	off, dim := s.levelRegion(n)
	var lo, nb [3]int
	for a := 0; a < 3; a++ {
		lo[a] = floorDiv(off[a], bsz)
		hi := floorDiv(off[a]+dim[a]-1, bsz)
		nb[a] = hi - lo[a] + 1
	}
	coff := [3]int{lo[0] * bsz, lo[1] * bsz, lo[2] * bsz}
	csize := [3]int{nb[0] * bsz, nb[1] * bsz, nb[2] * bsz}
	r, err = s.w.Get(s.url(v, fmt.Sprintf("blocks/%s/%s?scale=%d&supervoxels=true&compression=uncompressed", cs(csize), cs(coff), n)))
	if err != nil || !r.OK() {
		return nil, 0, r, err
	}
	pbs, derr := lmwire.DecodeBlockStream(r.Body, "uncompressed", [3]int{bsz, bsz, bsz})
	if derr != nil {
		return nil, 0, drv.Resp{Status: r.Status, Body: []byte(derr.Error())}, nil
	}
	vol = make([]uint64, dim[0]*dim[1]*dim[2])
	for _, pb := range pbs {
		i := 0
		for z := 0; z < bsz; z++ {
			for y := 0; y < bsz; y++ {
				for x := 0; x < bsz; x++ {
					l := pb.Vox[i]
					i++
					ax, ay, az := int(pb.X)*bsz+x-off[0], int(pb.Y)*bsz+y-off[1], int(pb.Z)*bsz+z-off[2]
					if ax < 0 || ay < 0 || az < 0 || ax >= dim[0] || ay >= dim[1] || az >= dim[2] {
						if l != 0 {
							outside++
						}
						continue
					}
					vol[(az*dim[1]+ay)*dim[0]+ax] = l
				}
			}
		}
	}
	return vol, outside, r, nil
}

func distinctLabels(v []uint64) int {
	m := map[uint64]bool{}
	for _, l := range v {
		if l != 0 {
			m[l] = true
			if len(m) > 2 {
				break
			}
		}
	}
	return len(m)
}

func firstDiff(a, b []uint64) (int, int) {
	first, n := -1, 0
	for i := range a {
		if a[i] != b[i] {
			if first < 0 {
				first = i
			}
			n++
		}
	}
	return first, n
}

func (s *seq) at(n int, dim [3]int, i int) string {
	off, _ := s.levelRegion(n)
	return fmt.Sprintf("(%d,%d,%d)@scale%d", off[0]+i%dim[0], off[1]+(i/dim[0])%dim[1], off[2]+i/(dim[0]*dim[1]), n)
}

// children lists the 8 child labels of a level n+1 voxel index from the level n volume.
func children(lo []uint64, dim [3]int, ndim [3]int, i int) [8]uint64 {
	x, y, z := i%ndim[0], (i/ndim[0])%ndim[1], i/(ndim[0]*ndim[1])
	var c [8]uint64
	k := 0
	for dz := 0; dz < 2; dz++ {
		for dy := 0; dy < 2; dy++ {
			for dx := 0; dx < 2; dx++ {
				c[k] = lo[((2*z+dz)*dim[1]+2*y+dy)*dim[0]+2*x+dx]
				k++
			}
		}
	}
	return c
}

func (s *seq) check(v, phase string) error {
	st := s.states[v]
	changed := s.dirty[v] > 0
	s.c.Count("level_checks_"+phase, 1)
	caseKey := func(what string, n int) string {
		return fmt.Sprintf("%s|%d|%s|%s|%s|%d", s.tag, s.step, phase, s.short(v), what, n)
	}
	extra := func(n int) map[string]interface{} {
		return map[string]interface{}{"version": s.short(v), "level": n, "phase": phase, "last_op_at_version": s.lastOp[v]}
	}
	prev, pdim, r, err := s.readRaw(v, 0)
	if err != nil {
		return err
	}
	s.c.Case(caseKey("level0-vs-model", 0), changed)
	if prev == nil {
		s.viol("read-failed:raw-scale0", fmt.Sprintf("GET raw scale=0 at %s: %s", s.short(v), r), extra(0))
		return nil
	}
	if i, n := firstDiff(st.SV, prev); n > 0 {
		s.viol("level0|voxel-mismatch", fmt.Sprintf("level 0 at %s (%s): %d voxels differ from the model; first %s: server %d, model %d", s.short(v), phase, n, s.at(0, pdim, i), prev[i], st.SV[i]), extra(0))
	}
	model := st.SV
	mdim := pdim
	for n := 0; n < s.L; n++ {
		next, ndim, r, err := s.readRaw(v, n+1)
		if err != nil {
			return err
		}
		want, wdim := labelmodel.Downres(prev, pdim)
		nontrivial := changed && distinctLabels(want) >= 2
		s.c.Case(caseKey("raw-level-to-level", n+1), nontrivial)
		s.c.Count("levels_compared", 1)
		if next == nil {
			s.viol(fmt.Sprintf("read-failed:raw-scale%d", n+1), fmt.Sprintf("GET raw scale=%d at %s: %s", n+1, s.short(v), r), extra(n+1))
			return nil
		}
		if wdim != ndim {
			return fmt.Errorf("dimension bookkeeping: %v vs %v", wdim, ndim)
		}
		if i, nd := firstDiff(want, next); nd > 0 {
			c8 := children(prev, pdim, ndim, i)
			class := "stale-or-wrong-vote"
			if next[i] == 0 {
				class = "zero-where-children-have-labels"
			} else if labelmodel.Vote(c8) == 0 {
				class = "label-where-all-children-are-zero"
			} else {
				in := false
				for _, l := range c8 {
					if l == next[i] {
						in = true
					}
				}
				if in {
					class = "wrong-winner-among-children"
				}
			}
			ex := extra(n + 1)
			ex["children"] = c8
			ex["server"] = next[i]
			ex["vote"] = want[i]
			ex["ndiff"] = nd
			allZero := true
			for j := range want {
				if want[j] != next[j] && next[j] != 0 {
					allZero = false
					break
				}
			}
			if allZero && s.zeroWrite[v] != "" {
				class = "parent-block-blanked-by-all-zero-octant-update"
				ex["zero_write"] = s.zeroWrite[v]
			}
			s.viol(fmt.Sprintf("level-to-level|%s", class), fmt.Sprintf("level %d at %s (%s, last op %s): %d voxels are not the vote over their children at level %d; first %s: server %d, children %v vote %d",
				n+1, s.short(v), phase, s.lastOp[v], nd, n, s.at(n+1, ndim, i), next[i], c8, want[i]), ex)
		}
		// the same level derived from the model's level 0
		model, mdim = labelmodel.Downres(model, mdim)
		s.c.Case(caseKey("raw-level-vs-model", n+1), nontrivial)
		if i, nd := firstDiff(model, next); nd > 0 {
			s.c.Count("levels_differing_from_model_pyramid", 1)
			if j, nd0 := firstDiff(want, next); nd0 == 0 {
				_ = j
				ex := extra(n + 1)
				key := "model-pyramid|mismatch"
				if s.zeroWrite[v] != "" {
					key = "level-to-level|parent-block-blanked-by-all-zero-octant-update" // propagated from the level below
				}
				s.viol(key, fmt.Sprintf("level %d at %s (%s): consistent with the server's level %d but %d voxels differ from the pyramid of the model; first %s: server %d, model %d",
					n+1, s.short(v), phase, n, nd, s.at(n+1, ndim, i), next[i], model[i]), ex)
			}
		}
		// second read path: GET blocks at this scale must return the same voxels as GET raw
		bvol, outside, br, err := s.readBlocks(v, n+1)
		if err != nil {
			return err
		}
		s.c.Case(caseKey("blocks-vs-raw", n+1), nontrivial)
		if bvol == nil {
			s.viol(fmt.Sprintf("read-failed:blocks-scale%d", n+1), fmt.Sprintf("GET blocks scale=%d at %s: %s", n+1, s.short(v), br), extra(n+1))
		} else {
			if i, nd := firstDiff(next, bvol); nd > 0 {
				s.viol("blocks-vs-raw|mismatch", fmt.Sprintf("level %d at %s: GET blocks and GET raw disagree on %d voxels; first %s: blocks %d, raw %d", n+1, s.short(v), nd, s.at(n+1, ndim, i), bvol[i], next[i]), extra(n+1))
			}
			if outside > 0 {
				s.viol("blocks|labels-outside-written-region", fmt.Sprintf("level %d at %s: %d non-zero voxels outside the image of the written grid", n+1, s.short(v), outside), extra(n+1))
			}
		}
		prev, pdim = next, ndim
	}
	return nil
}

// ---------------------------------------------------------------- sequences

type geomChoice struct{ org, nb [3]int }

var geoms = []geomChoice{
	{[3]int{0, 0, 0}, [3]int{2, 2, 2}},
	{[3]int{0, 0, 0}, [3]int{4, 2, 2}},
	{[3]int{2, 0, 4}, [3]int{2, 2, 2}},
	{[3]int{1, 1, 0}, [3]int{2, 2, 2}}, // straddles parent blocks
	{[3]int{0, 0, 0}, [3]int{2, 4, 2}},
	{[3]int{0, 0, 0}, [3]int{4, 4, 2}},
}

var negGeoms = []geomChoice{
	{[3]int{-2, -2, -2}, [3]int{2, 2, 2}}, // even negative block coordinates only
	{[3]int{-1, -1, -1}, [3]int{2, 2, 2}},
	{[3]int{-2, 0, -1}, [3]int{2, 2, 2}},
}

func sequence(c *drv.Ctx, w *drv.Worker, seed int64, idx int, nops int, negative bool) error {
	r := rand.New(rand.NewSource(seed))
	tag := fmt.Sprintf("s%d", idx)
	gc := geoms[r.Intn(len(geoms))]
	if negative {
		tag = fmt.Sprintf("neg%d", idx)
		gc = negGeoms[idx%len(negGeoms)]
	}
	if c.Quick() && gc.nb == [3]int{4, 4, 2} && r.Intn(2) == 0 {
		gc = geoms[1]
	}
	cl := &dvc.Client{W: w}
	h, err := dvc.NewHist(cl, r, "c14"+tag)
	if err != nil {
		return err
	}
	L := 1 + r.Intn(3)
	g := &labelmodel.Geom{BS: bsz, Org: gc.org, NB: gc.nb}
	s := &seq{c: c, w: w, cl: cl, h: h, r: r, tag: tag, name: "seg" + tag, g: g, L: L, states: map[string]*labelmodel.State{},
		dirty: map[string]int{}, lastOp: map[string]string{}, neg: negative, entries: map[uint64]map[string]bool{}, taint: map[string]bool{}, zeroWrite: map[string]string{}}
	if err := cl.NewInstance(h.Root, "labelmap", s.name, map[string]string{"BlockSize": "32,32,32", "MaxDownresLevel": fmt.Sprint(L)}); err != nil {
		return err
	}
	s.states[h.Root] = labelmodel.New(g)
	s.lastOp[h.Root] = "none"
	s.log("grid origin(blocks)=%v blocks=%v MaxDownresLevel=%d", g.Org, g.NB, L)
	defer func() {
		c.Seen("dag_shapes", h.D.Shape())
		c.Seen("geometries", fmt.Sprintf("%v+%v L=%d", g.Org, g.NB, L))
		c.Count("sequences", 1)
		if idx < 2 && !negative {
			c.Sample(map[string]interface{}{"sequence": tag, "max_downres_level": L, "trace": s.trace})
		}
	}()
	for s.step = 0; s.step < nops; s.step++ {
		open := h.D.Open()
		if len(open) == 0 {
			break
		}
		if s.step >= 2 && r.Intn(100) < 25 && len(h.D.Order) < 5 {
			v := open[r.Intn(len(open))]
			if err := h.CommitNode(v); err != nil {
				return err
			}
			var child string
			if r.Intn(3) == 0 {
				child, err = h.BranchOf(v)
			} else {
				child, err = h.NewVersionOf(v)
			}
			if err != nil {
				return err
			}
			s.states[child] = s.states[v].Clone()
			s.taint[child] = s.taint[v]
			s.zeroWrite[child] = s.zeroWrite[v]
			s.lastOp[child] = "newversion"
			s.log("commit %s; version %s <- child of %s", s.short(v), s.short(child), s.short(v))
			if r.Intn(3) == 0 && len(h.D.Order) < 5 {
				comm := h.D.Committed()
				p := comm[r.Intn(len(comm))]
				sib, err := h.BranchOf(p)
				if err != nil {
					return err
				}
				s.states[sib] = s.states[p].Clone()
				s.taint[sib] = s.taint[p]
				s.zeroWrite[sib] = s.zeroWrite[p]
				s.lastOp[sib] = "newversion"
				s.log("version %s <- branch of %s", s.short(sib), s.short(p))
			}
			c.Count("dag_moves", 1)
			continue
		}
		v := open[r.Intn(len(open))]
		var done bool
		x := r.Intn(100)
		if s.step < 2 || len(s.unwritten(s.states[v])) == len(g.Blocks()) {
			x = r.Intn(40)
		}
		switch {
		case x < 8:
			done, err = s.opParallelIngest(v)
		case x < 20:
			done, err = s.opIngestBlocks(v)
		case x < 40:
			done, err = s.opWriteRaw(v, false)
		case x < 70:
			done, err = s.opWriteRaw(v, true)
		case s.taint[v]:
			done, err = s.opWriteRaw(v, true)
		case x < 85:
			done, err = s.opSplitSupervoxel(v)
		case x < 92:
			done, err = s.opSolidSplit(v)
		default:
			done, err = s.opSplitBody(v)
		}
		if err == errStop {
			return nil
		}
		if err != nil {
			return err
		}
		if !done {
			continue
		}
		// idle by the code's own definition, nothing more
		if err := w.Settle(); err != nil {
			if err == drv.ErrDied {
				return err
			}
			s.viol("never-idle-after:"+s.lastOp[v], fmt.Sprintf("the instance did not report idle within 120 s after %s: %v", s.lastOp[v], err), nil)
			return nil
		}
		if err := s.check(v, "step"); err != nil {
			return err
		}
		if s.nviol >= 20 {
			break
		}
	}
	s.step = nops
	for _, v := range h.D.Order {
		if err := s.check(v, "final"); err != nil {
			return err
		}
	}
	c.Count("versions_swept", len(h.D.Order))
	return nil
}

// idleWatch looks for the refuting observation of the "before the volume reports itself idle" clause: while a POST raw
// is in flight, the worker samples (level n, level n+1) at moments the instance reports idle by its own flags.
func idleWatch(c *drv.Ctx, w *drv.Worker, seed int64, idx int) error {
	r := rand.New(rand.NewSource(seed))
	cl := &dvc.Client{W: w}
	tag := fmt.Sprintf("idle%d", idx)
	h, err := dvc.NewHist(cl, r, "c14"+tag)
	if err != nil {
		return err
	}
	L := 1 + idx%2
	nb := [3]int{2, 2, 2}
	if L == 2 {
		nb = [3]int{4, 4, 2}
	}
	g := &labelmodel.Geom{BS: bsz, Org: [3]int{0, 0, 0}, NB: nb}
	s := &seq{c: c, w: w, cl: cl, h: h, r: r, tag: tag, name: "seg" + tag, g: g, L: L, states: map[string]*labelmodel.State{},
		dirty: map[string]int{}, lastOp: map[string]string{}, entries: map[uint64]map[string]bool{}, taint: map[string]bool{}, zeroWrite: map[string]string{}}
	if err := cl.NewInstance(h.Root, "labelmap", s.name, map[string]string{"BlockSize": "32,32,32", "MaxDownresLevel": fmt.Sprint(L)}); err != nil {
		return err
	}
	st := labelmodel.New(g)
	s.states[h.Root] = st
	d := g.Dim()
	first := s.genBox(st, d, "voronoi")
	s.log("MaxDownresLevel=%d grid=%v; POST raw of the whole grid (voronoi layout)", L, nb)
	pr, err := w.Post(s.url(h.Root, "raw/0_1_2/"+cs(d)+"/0_0_0"), lmwire.EncodeVolume(first))
	if err != nil {
		return err
	}
	if !pr.OK() {
		return fmt.Errorf("initial POST raw: %s", pr)
	}
	if err := w.Settle(); err != nil {
		return err
	}
	second := s.genBox(st, d, "noise")
	n := L - 1 // watch the last level pair: (L-1 -> L)
	lo, ldim := s.levelRegion(n)
	hi, hdim := s.levelRegion(n + 1)
	var out struct {
		Status  int    `json:"status"`
		Resp    string `json:"resp"`
		Samples []struct {
			Lo []byte `json:"lo"`
			Hi []byte `json:"hi"`
		} `json:"samples"`
		IdlePolls int `json:"idle_polls"`
		BusyPolls int `json:"busy_polls"`
	}
	s.log("POST raw?mutate=true of the whole grid (noise layout) while sampling scale %d and %d at idle-reporting moments", n, n+1)
	err = w.API("c14.idlewatch", map[string]interface{}{"uuid": h.Root, "name": s.name, "method": "POST",
		"url": s.url(h.Root, "raw/0_1_2/"+cs(d)+"/0_0_0?mutate=true"), "body": lmwire.EncodeVolume(second),
		"lo_url": s.url(h.Root, fmt.Sprintf("raw/0_1_2/%s/%s?scale=%d&supervoxels=true", cs(ldim), cs(lo), n)),
		"hi_url": s.url(h.Root, fmt.Sprintf("raw/0_1_2/%s/%s?scale=%d&supervoxels=true", cs(hdim), cs(hi), n+1)), "max_samples": 4}, &out)
	if err != nil {
		return err
	}
	c.Count("idlewatch_runs", 1)
	c.Count("idlewatch_polls_reporting_idle_during_the_write", out.IdlePolls)
	c.Count("idlewatch_polls_reporting_busy_during_the_write", out.BusyPolls)
	if out.Status != 200 {
		return fmt.Errorf("watched POST raw: %d %s", out.Status, out.Resp)
	}
	for si, sm := range out.Samples {
		lv, e1 := lmwire.DecodeVolume(sm.Lo, ldim[0]*ldim[1]*ldim[2])
		hv, e2 := lmwire.DecodeVolume(sm.Hi, hdim[0]*hdim[1]*hdim[2])
		if e1 != nil || e2 != nil {
			continue
		}
		c.Count("idlewatch_samples", 1)
		want, _ := labelmodel.Downres(lv, ldim)
		i, nd := firstDiff(want, hv)
		c.Case(fmt.Sprintf("%s|idlewatch|%d", tag, si), nd > 0 || distinctLabels(want) >= 2)
		if nd > 0 {
			c.Count("idlewatch_stale_samples", 1)
			s.viol("idle-reported-while-level-stale|post-raw", fmt.Sprintf("while POST raw?mutate=true was in flight the instance reported idle (Updating=false, AnyScaleUpdating=false; %d idle polls, %d busy polls) and at that moment %d voxels of level %d were not the vote over level %d; first %s: level %d holds %d, vote %d",
				out.IdlePolls, out.BusyPolls, nd, n+1, n, s.at(n+1, hdim, i), n+1, hv[i], want[i]), map[string]interface{}{"level": n + 1, "idle_polls": out.IdlePolls, "busy_polls": out.BusyPolls, "ndiff": nd})
			break
		}
	}
	if err := w.Settle(); err != nil {
		return err
	}
	return nil
}

func run(c *drv.Ctx) error {
	c.Rule("a sequence = one labelmap instance (32^3 blocks, MaxDownresLevel 1..3, grids of 2x2x2..4x4x2 blocks incl. grids straddling parent blocks) driven by POST blocks?downres=true and POST raw ingests, " +
		"POST raw?mutate=true rewrites (single octant, all eight octants of a parent, checkerboard, random subsets; all-zero, solid, per-voxel noise and exact-tie layouts), split-supervoxel and split, interleaved with " +
		"commit/newversion/branch; after each mutation the instance is awaited idle and every level is compared at the mutated version, at the end at every version. " +
		"A case = one level pair (n -> n+1) through one read path at one version and step; key = (sequence, step, phase, version, comparison, level). " +
		"Non-trivial: the last mutation at that version changed >=1 level-0 voxel and the expected level n+1 holds >=2 distinct labels")
	c.Assume("POST blocks is only sent with downres=true and only for blocks not yet visible at the version; overwrites use POST raw?mutate=true (down-sampling always on)")
	c.Assume("wrapper engines add no semantics: crashkv delegates every call to storage/badger")
	c.Extra("vote_rule_verified_in", "datatype/common/labels/compressed.go downresArray (used by Block.DownresSlow): counts non-zero labels, most votes wins, equal votes -> smaller label, no non-zero child -> 0")
	bin, err := c.Build("dvidw", "")
	if err != nil {
		return err
	}
	nseq := c.N(12, 300)
	nops := c.N(9, 22)
	nw := 4
	if !c.Quick() {
		nw = 10
	}
	seeds := make([]int64, nseq)
	for i := range seeds {
		seeds[i] = c.Rand.Int63()
	}
	nneg := c.N(3, 12)
	negSeeds := make([]int64, nneg)
	for i := range negSeeds {
		negSeeds[i] = c.Rand.Int63()
	}
	var wg sync.WaitGroup
	errs := make(chan error, nw+3)
	for wi := 0; wi < nw; wi++ {
		wg.Add(1)
		go func(wi int) {
			defer wg.Done()
			dir, err := c.NewDataDir(fmt.Sprintf("c14w%d", wi), drv.ConfOpts{})
			if err != nil {
				errs <- err
				return
			}
			w, err := drv.StartWorker(bin, dir, drv.StartOpts{})
			if err != nil {
				errs <- err
				return
			}
			defer w.Kill()
			for i := wi; i < nseq; i += nw {
				if err := sequence(c, w, seeds[i], i, nops, false); err != nil {
					errs <- fmt.Errorf("worker %d sequence %d: %v; stderr: %s", wi, i, err, drv.Trunc(drv.FatalInStderr(w.Stderr()), 600))
					return
				}
			}
		}(wi)
	}
	// negative block coordinates: one worker process per sequence (a panic in the down-sampling code leaves the
	// instance's scale flags raised for good, so nothing else can share that process)
	wg.Add(1)
	go func() {
		defer wg.Done()
		for i := 0; i < nneg; i++ {
			dir, err := c.NewDataDir(fmt.Sprintf("c14neg%d", i), drv.ConfOpts{})
			if err != nil {
				errs <- err
				return
			}
			w, err := drv.StartWorker(bin, dir, drv.StartOpts{})
			if err != nil {
				errs <- err
				return
			}
			err = sequence(c, w, negSeeds[i], i, 5, true)
			if err != nil && w.Dead() {
				fatal := drv.FatalInStderr(w.Stderr())
				if firstReport("server-crash|negcoords") {
					c.Violation("server-crash|negcoords", fmt.Sprintf("[neg%d] the server process died: %v; %s", i, err, drv.Trunc(fatal, 700)), map[string]interface{}{"stderr": drv.Trunc(fatal, 3000)})
				}
				err = nil
			}
			w.Kill()
			if err != nil {
				errs <- fmt.Errorf("negative-coordinate sequence %d: %v", i, err)
				return
			}
		}
	}()
	// idle-report watch (own worker: the in-flight write must not overlap other sequences' settles)
	nidle := c.N(4, 16)
	idleSeeds := make([]int64, nidle)
	for i := range idleSeeds {
		idleSeeds[i] = c.Rand.Int63()
	}
	wg.Add(1)
	go func() {
		defer wg.Done()
		dir, err := c.NewDataDir("c14idle", drv.ConfOpts{})
		if err != nil {
			errs <- err
			return
		}
		w, err := drv.StartWorker(bin, dir, drv.StartOpts{})
		if err != nil {
			errs <- err
			return
		}
		defer w.Kill()
		for i := 0; i < nidle; i++ {
			if err := idleWatch(c, w, idleSeeds[i], i); err != nil {
				errs <- fmt.Errorf("idle watch %d: %v; stderr: %s", i, err, drv.Trunc(drv.FatalInStderr(w.Stderr()), 400))
				return
			}
		}
	}()
	wg.Wait()
	close(errs)
	var all []string
	for e := range errs {
		all = append(all, e.Error())
	}
	if len(all) > 0 {
		sort.Strings(all)
		return fmt.Errorf("%s", strings.Join(all, " | "))
	}
	return nil
}
