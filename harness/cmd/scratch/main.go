package main

import (
	"fmt"
	"math/rand"

	"verif/harness/internal/drv"
	"verif/harness/internal/mixed"
)

func main() {
	drv.Main("C00", "exploration", func(c *drv.Ctx) error {
		bin, err := c.Build("dvidw", "")
		if err != nil {
			return err
		}
		dir, _ := c.NewDataDir("d1", drv.ConfOpts{})
		w, err := drv.StartWorker(bin, dir, drv.StartOpts{})
		if err != nil {
			return err
		}
		defer w.Kill()
		wd, err := mixed.New(w, rand.New(rand.NewSource(5)), mixed.Opts{Types: []string{"lm", "nj", "kv"}, Tag: "x"})
		if err != nil {
			return err
		}
		u := wd.Root
		try := func(m, p string, body []byte) {
			w.Watchdog = 20e9
			r, err := w.HTTP(m, "/api/node/"+u+"/"+p, body)
			fmt.Printf("%s %s -> %v %v\n", m, p, drv.Trunc(r.String(), 200), err)
		}
		try("POST", "lm/merge", []byte("[]"))
		try("POST", "lm/merge", []byte("[5]"))
		try("GET", "lm/proximity/5", nil)
		try("GET", "lm/proximity/5_6", nil)
		try("POST", "nj/key/1?u=a", []byte(`{"bodyid":1,"x":1,"x_time":5}`))
		try("GET", "nj/all", nil)
		try("POST", "nj/key/2?u=a", []byte(`{"bodyid":2,"y":1}`))
		try("GET", "nj/fieldtimes", nil)
		try("GET", "nj/key/2", nil)
		c.Case("a", true)
		c.Case("b", true)
		return nil
	})
}
