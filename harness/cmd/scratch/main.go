package main

import (
	"fmt"
	"math/rand"
	"verif/harness/internal/drv"
	"verif/harness/internal/mixed"
)

func main() {
	drv.Main("C00", "exploration", func(c *drv.Ctx) error {
		bin, err := c.Build("dvidw", "")
		if err != nil {
			return err
		}
		dir, _ := c.NewDataDir("d1", drv.ConfOpts{})
		w, err := drv.StartWorker(bin, dir, drv.StartOpts{})
		if err != nil {
			return err
		}
		wd, err := mixed.New(w, rand.New(rand.NewSource(5)), mixed.Opts{Types: []string{"lm"}, Tag: "x"})
		if err != nil {
			return err
		}
		for i := 0; i < 12; i++ {
			wd.Step()
		}
		for _, l := range []int{2, 20, 5, 7} {
			seen := map[string]int{}
			for i := 0; i < 20; i++ {
				r, _ := w.Get(fmt.Sprintf("/api/node/%s:master/lm/sparsevol/%d?format=rles", wd.Root, l))
				seen[mixed.Canon(r)]++
			}
			fmt.Println(l, seen)
		}
		w.Kill()
		c.Case("a", true); c.Case("b", true)
		return nil
	})
}
