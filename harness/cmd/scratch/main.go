package main

import (
	"fmt"
	"math/rand"
	"os"
	"sort"

	"verif/harness/internal/drv"
	"verif/harness/internal/mixed"
)

// throwaway experiment driver: labelmap-only mixed workload with history reads until the worker dies
func main() { drv.Main("C20", "exploration", run) }

func run(c *drv.Ctx) error {
	bin, err := c.Build("dvidw", "")
	if err != nil {
		return err
	}
	dir, _ := c.NewDataDir("dup", drv.ConfOpts{})
	w, err := drv.StartWorker(bin, dir, drv.StartOpts{})
	if err != nil {
		return err
	}
	wd, err := mixed.New(w, rand.New(rand.NewSource(5)), mixed.Opts{Types: []string{"lm"}, Tag: "x"})
	if err != nil {
		return err
	}
	u := wd.Root
	bodies := wd.Bodies(u)
	var bl []uint64
	for b := range bodies {
		bl = append(bl, b)
	}
	sort.Slice(bl, func(i, j int) bool { return bl[i] < bl[j] })
	c.Case("a", true)
	c.Case("b", true)
	base := "/api/node/" + u + "/lm/"
	body := []byte(fmt.Sprintf("[%d,%d]", bl[0], bl[1]))
	for _, variant := range []string{"seq", "par"} {
		if variant == "seq" {
			for i := 0; i < 2; i++ {
				r, err := w.Post(base+"merge", body)
				fmt.Fprintln(os.Stderr, "merge", string(body), "=>", r.Status, drv.Trunc(string(r.Body), 100), err)
			}
		} else {
			body = []byte(fmt.Sprintf("[%d,%d]", bl[2], bl[3]))
			rs, err := w.Par([]drv.Req{{Method: "POST", URL: base + "merge", Body: body}, {Method: "POST", URL: base + "merge", Body: body}, {Method: "POST", URL: base + "merge", Body: body}})
			for _, r := range rs {
				fmt.Fprintln(os.Stderr, "par merge", string(body), "=>", r.Status, drv.Trunc(string(r.Body), 100))
			}
			fmt.Fprintln(os.Stderr, err)
		}
		w.Settle()
		r, err := w.Get(fmt.Sprintf("%shistory/%d/%s/%s", base, bl[0], u, u))
		fmt.Fprintln(os.Stderr, variant, "history =>", r.Status, drv.Trunc(string(r.Body), 200), err)
		if err != nil {
			fmt.Fprintln(os.Stderr, drv.Trunc(drv.FatalInStderr(w.Stderr()), 400))
			return nil
		}
	}
	return nil
}
