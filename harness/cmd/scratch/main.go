package main

import (
	"fmt"
	"time"

	"verif/harness/internal/drv"
	"verif/harness/internal/dvc"
)

func main() {
	drv.Main("C00", "exploration", func(c *drv.Ctx) error {
		bin, err := c.Build("dvidw", "")
		if err != nil {
			return err
		}
		dir, _ := c.NewDataDir("d1", drv.ConfOpts{})
		w, err := drv.StartWorker(bin, dir, drv.StartOpts{})
		if err != nil {
			return err
		}
		cl := &dvc.Client{W: w}
		main, _ := cl.NewRepo("main")
		cl.NewInstance(main, "keyvalue", "kv", nil)
		side, _ := cl.NewRepo("side")
		cl.NewInstance(side, "keyvalue", "skv", nil)
		w.Post("/api/node/"+side+"/skv/key/k", []byte("side"))
		cl.Commit(side)
		ch, _ := cl.NewVersion(side)
		fmt.Println("side", side[:8], "child", ch[:8])
		err = w.API("rpc.repo_delete", map[string]string{"uuid": side}, nil)
		fmt.Println("delete:", err)
		time.Sleep(500 * time.Millisecond)
		// something else happens in the main repo
		w.Post("/api/node/"+main+"/kv/key/a", []byte("1"))
		cl.Commit(main)
		cl.NewVersion(main)
		repos, _, _ := cl.Repos()
		fmt.Println("repos before restart:", len(repos))
		w.Kill()
		w, err = drv.StartWorker(bin, dir, drv.StartOpts{})
		if err != nil {
			return err
		}
		cl.W = w
		repos, _, _ = cl.Repos()
		fmt.Println("repos after restart:", len(repos))
		for r := range repos {
			fmt.Println("  ", r[:8])
		}
		w.Kill()
		c.Case("a", true)
		c.Case("b", true)
		return nil
	})
}
