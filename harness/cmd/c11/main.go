// C11 — concurrent acknowledged mutations are never lost or half applied.
// Oracles: porcupine linearizability check of recorded keyvalue register histories (partitioned by
// key); for operations that commute by construction the unique sequential outcome is computed and
// compared after settle (conservation: every acknowledged element / supervoxel / field present exactly
// once); for version creation at most one acknowledged child per branch.  Schedules: barrier release
// of 2-8 goroutines + delay injection at store-call boundaries of the wrapping engine.
// The Go race detector runs over the same cases once; its reports are evidence, not verdicts.
package main

import (
	"encoding/json"
	"fmt"
	"math/rand"
	"os"
	"path/filepath"
	"sort"
	"strings"
	"sync"
	"time"

	"github.com/anishathalye/porcupine"

	"verif/harness/internal/drv"
	"verif/harness/internal/dvc"
	"verif/harness/internal/mixed"
)

func main() { drv.Main("C11", "exploration", run) }

type env struct {
	c     *drv.Ctx
	w     *drv.Worker
	cl    *dvc.Client
	r     *rand.Rand
	races bool
	// labelmap rounds whose mappings are read again after the restart at the end of the batch
	lmAfter []lmRecheck
}

func (e *env) delays() string {
	// delay injection between store calls widens read-modify-write windows
	switch e.r.Intn(4) {
	case 0:
		e.w.SetDelay(0, 0, false)
		return "none"
	case 1:
		e.w.SetDelay(300, 0, true)
		return "after-read<=300us"
	case 2:
		e.w.SetDelay(1500, 200, true)
		return "after-read<=1.5ms,before-write<=200us"
	default:
		e.w.SetDelay(0, 800, true)
		return "before-write<=800us"
	}
}

// ---------- 1. keyvalue registers + porcupine ----------

type kvIn struct {
	Key   string
	Op    string // put | del | get
	Value string
}
type kvOut struct {
	Status int
	Value  string
}

var kvModel = porcupine.Model{
	Partition: func(history []porcupine.Operation) [][]porcupine.Operation {
		m := map[string][]porcupine.Operation{}
		for _, op := range history {
			k := op.Input.(kvIn).Key
			m[k] = append(m[k], op)
		}
		var ks []string
		for k := range m {
			ks = append(ks, k)
		}
		sort.Strings(ks)
		var out [][]porcupine.Operation
		for _, k := range ks {
			out = append(out, m[k])
		}
		return out
	},
	Init: func() interface{} { return "" }, // "" = absent (values are never empty)
	Step: func(state, input, output interface{}) (bool, interface{}) {
		in, out := input.(kvIn), output.(kvOut)
		st := state.(string)
		switch in.Op {
		case "put":
			if out.Status >= 200 && out.Status < 300 {
				return true, in.Value
			}
			return true, st // a refused write has no effect
		case "del":
			if out.Status >= 200 && out.Status < 300 {
				return true, ""
			}
			return true, st
		default:
			if out.Status == 404 {
				return st == "", st
			}
			if out.Status == 200 {
				return st == out.Value, st
			}
			return true, st // an error answer constrains nothing
		}
	},
	DescribeOperation: func(input, output interface{}) string {
		in, out := input.(kvIn), output.(kvOut)
		return fmt.Sprintf("%s(%s %s) -> %d %s", in.Op, in.Key, in.Value, out.Status, out.Value)
	},
}

func (e *env) kvRegisters(idx int) error {
	root, err := e.cl.NewRepo(fmt.Sprintf("kvreg%d", idx))
	if err != nil {
		return err
	}
	if err := e.cl.NewInstance(root, "keyvalue", "kv", nil); err != nil {
		return err
	}
	keys := []string{"x", "y"}
	if e.r.Intn(2) == 0 {
		keys = append(keys, "z")
	}
	// every second history runs at a child version whose committed parent holds a value for every key: a register
	// that loses both its value and its deletion marker does not read "absent" there, it reads the parent's value
	model := kvModel
	at := "root"
	if idx%2 == 1 {
		for _, k := range keys {
			if r, err := e.w.Post("/api/node/"+root+"/kv/key/"+k, []byte("anc")); err != nil || !r.OK() {
				return fmt.Errorf("ancestor value: %v %v", r, err)
			}
		}
		if err := e.cl.Commit(root); err != nil {
			return err
		}
		child, err := e.cl.NewVersion(root)
		if err != nil {
			return err
		}
		root, at = child, "child-of-committed-parent-holding-the-keys"
		model.Init = func() interface{} { return "anc" }
	}
	e.c.Seen("kv_register_versions", at)
	dl := e.delays()
	var ops []porcupine.Operation
	seq := 0
	rounds := 3 + e.r.Intn(3)
	for rd := 0; rd < rounds; rd++ {
		n := 2 + e.r.Intn(7)
		reqs := make([]drv.Req, n)
		ins := make([]kvIn, n)
		for i := 0; i < n; i++ {
			k := keys[e.r.Intn(len(keys))]
			switch x := e.r.Intn(10); {
			case x < 5:
				seq++
				v := fmt.Sprintf("c%d#%d", i, seq)
				ins[i] = kvIn{k, "put", v}
				reqs[i] = drv.Req{Method: "POST", URL: "/api/node/" + root + "/kv/key/" + k, Body: []byte(v)}
			case x < 7:
				ins[i] = kvIn{k, "del", ""}
				reqs[i] = drv.Req{Method: "DELETE", URL: "/api/node/" + root + "/kv/key/" + k}
			default:
				ins[i] = kvIn{k, "get", ""}
				reqs[i] = drv.Req{Method: "GET", URL: "/api/node/" + root + "/kv/key/" + k}
			}
		}
		resps, err := e.w.Par(reqs)
		if err != nil {
			return err
		}
		for i, rp := range resps {
			ops = append(ops, porcupine.Operation{ClientId: i, Input: ins[i], Call: rp.T0, Output: kvOut{rp.Status, string(rp.Body)}, Return: rp.T1})
		}
	}
	e.w.SetDelay(0, 0, false)
	// final sequential reads take part in the history
	for _, k := range keys {
		rp, err := e.w.Get("/api/node/" + root + "/kv/key/" + k)
		if err != nil {
			return err
		}
		t := ops[len(ops)-1].Return + 1000
		for _, o := range ops {
			if o.Return+1000 > t {
				t = o.Return + 1000
			}
		}
		ops = append(ops, porcupine.Operation{ClientId: 99, Input: kvIn{k, "get", ""}, Call: t, Output: kvOut{rp.Status, string(rp.Body)}, Return: t + 10})
	}
	res, info := porcupine.CheckOperationsVerbose(model, ops, 60*time.Second)
	sig := interleaving(ops)
	e.c.Case(fmt.Sprintf("kvreg|%d|%s", idx, drv.Hash(sig)), len(ops) >= 8)
	e.c.Seen("kv_interleaving_signatures", drv.Hash(sig))
	e.c.Seen("delay_profiles", dl)
	e.c.Count("kv_register_ops", len(ops))
	switch res {
	case porcupine.Unknown:
		e.c.Inconclusive("porcupine timed out on a keyvalue history")
	case porcupine.Illegal:
		var desc []string
		for _, o := range ops {
			desc = append(desc, fmt.Sprintf("[%d,%d] %s", o.Call, o.Return, kvModel.DescribeOperation(o.Input, o.Output)))
		}
		_ = info
		e.c.Violation("keyvalue:not-linearizable", fmt.Sprintf("keyvalue history of %d operations on keys %v at the %s (delays %s) is not linearizable", len(ops), keys, at, dl), map[string]interface{}{"history": desc, "version": at})
	}
	if idx == 0 {
		var desc []string
		for i, o := range ops {
			if i < 8 {
				desc = append(desc, kvModel.DescribeOperation(o.Input, o.Output))
			}
		}
		e.c.Sample(map[string]interface{}{"case": "kv-register", "delays": dl, "first_ops": desc})
	}
	return nil
}

// interleaving signature: order of call/return events per key
func interleaving(ops []porcupine.Operation) string {
	type evt struct {
		t int64
		s string
	}
	var es []evt
	for i, o := range ops {
		in := o.Input.(kvIn)
		es = append(es, evt{o.Call, fmt.Sprintf("c%d%s%s", i%16, in.Key, in.Op[:1])}, evt{o.Return, fmt.Sprintf("r%d", i%16)})
	}
	sort.Slice(es, func(i, j int) bool { return es[i].t < es[j].t })
	var sb strings.Builder
	for _, e := range es {
		sb.WriteString(e.s)
	}
	return sb.String()
}

func overlapSig(resps []drv.Resp) string {
	type evt struct {
		t int64
		s string
	}
	var es []evt
	for i, r := range resps {
		es = append(es, evt{r.T0, fmt.Sprintf("c%d", i)}, evt{r.T1, fmt.Sprintf("r%d", i)})
	}
	sort.Slice(es, func(i, j int) bool { return es[i].t < es[j].t })
	var sb strings.Builder
	for _, e := range es {
		sb.WriteString(e.s)
	}
	return sb.String()
}

// ---------- 2. annotation elements in one block ----------

type annEl struct {
	Pos  [3]int
	Kind string
	Tags []string
}

func parseEls(b []byte) map[[3]int]annEl {
	var els []annEl
	json.Unmarshal(b, &els)
	m := map[[3]int]annEl{}
	for _, e := range els {
		m[e.Pos] = e
	}
	return m
}

func (e *env) annotations(idx int) error {
	root, err := e.cl.NewRepo(fmt.Sprintf("ann%d", idx))
	if err != nil {
		return err
	}
	if err := e.cl.NewInstance(root, "annotation", "syn", nil); err != nil {
		return err
	}
	base := "/api/node/" + root + "/syn/"
	dl := e.delays()
	n := 2 + e.r.Intn(7)
	// distinct positions inside block (0,0,0) of the default 64^3 annotation blocks, one shared tag
	used := map[[3]int]bool{}
	var pos [][3]int
	for len(pos) < n+3 {
		p := [3]int{e.r.Intn(60) + 1, e.r.Intn(60) + 1, e.r.Intn(60) + 1}
		if !used[p] {
			used[p] = true
			pos = append(pos, p)
		}
	}
	// pre-existing elements (sequential) that concurrent deletes / moves will target
	pre := pos[n:]
	var preEls []map[string]interface{}
	for _, p := range pre {
		preEls = append(preEls, map[string]interface{}{"Pos": p, "Kind": "Note", "Tags": []string{"shared"}})
	}
	b, _ := json.Marshal(preEls)
	if r, err := e.w.Post(base+"elements", b); err != nil || !r.OK() {
		return fmt.Errorf("pre-post elements: %v %v", r, err)
	}
	var reqs []drv.Req
	expect := map[[3]int]bool{}
	for _, p := range pre {
		expect[p] = true
	}
	var kinds []string
	for i := 0; i < n; i++ {
		b, _ := json.Marshal([]map[string]interface{}{{"Pos": pos[i], "Kind": "PostSyn", "Tags": []string{"shared"}}})
		reqs = append(reqs, drv.Req{Method: "POST", URL: base + "elements", Body: b})
		kinds = append(kinds, "post")
	}
	mode := e.r.Intn(3)
	// every second time: 2-4 of the concurrent requests re-post ONE stored element with different tag sets (a tag edit
	// racing another tag edit): whichever request wins, every view must agree on the tags the element ends up with
	var retagPos *[3]int
	if idx%2 == 1 {
		p := pre[2]
		retagPos = &p
		sets := [][]string{{"t1"}, {"shared", "t2"}, {"t1", "t2"}, {"shared"}}
		for k := 0; k < 2+e.r.Intn(3); k++ {
			b, _ := json.Marshal([]map[string]interface{}{{"Pos": p, "Kind": "Note", "Tags": sets[k]}})
			reqs = append(reqs, drv.Req{Method: "POST", URL: base + "elements", Body: b})
			kinds = append(kinds, "retag")
		}
	}
	var moved [3]int
	if mode >= 1 { // one concurrent delete of a pre-existing element
		p := pre[0]
		reqs = append(reqs, drv.Req{Method: "DELETE", URL: fmt.Sprintf("%selement/%d_%d_%d", base, p[0], p[1], p[2])})
		kinds = append(kinds, "delete")
	}
	if mode == 2 { // one concurrent move of another pre-existing element inside the block
		p := pre[1]
		moved = [3]int{61, 62, 63}
		reqs = append(reqs, drv.Req{Method: "POST", URL: fmt.Sprintf("%smove/%d_%d_%d/%d_%d_%d", base, p[0], p[1], p[2], moved[0], moved[1], moved[2])})
		kinds = append(kinds, "move")
	}
	resps, err := e.w.Par(reqs)
	if err != nil {
		return err
	}
	e.w.SetDelay(0, 0, false)
	if err := e.w.Settle(); err != nil {
		return err
	}
	allOK := true
	for i, rp := range resps {
		if !rp.OK() {
			allOK = false
			if rp.Panicked() {
				e.c.Violation("annotation:panic-under-concurrency", fmt.Sprintf("concurrent %s answered %s", kinds[i], rp), nil)
			}
			continue
		}
		switch kinds[i] {
		case "post":
			expect[pos[i]] = true
		case "delete":
			delete(expect, pre[0])
		case "move":
			delete(expect, pre[1])
			expect[moved] = true
		}
	}
	_ = allOK
	sig := overlapSig(resps)
	e.c.Case(fmt.Sprintf("ann|%d|%d|%s", idx, mode, drv.Hash(sig)), len(reqs) >= 3)
	e.c.Seen("ann_interleaving_signatures", drv.Hash(sig))
	e.c.Seen("delay_profiles", dl)
	e.c.Count("annotation_concurrent_requests", len(reqs))
	if retagPos != nil {
		rp, err := e.w.Get(base + "elements/64_64_64/0_0_0")
		if err != nil {
			return err
		}
		el, ok := parseEls(rp.Body)[*retagPos]
		has := map[string]bool{}
		for _, t := range el.Tags {
			has[t] = true
		}
		for _, t := range []string{"shared", "t1", "t2"} {
			tr, err := e.w.Get(base + "tag/" + t)
			if err != nil {
				return err
			}
			_, listed := parseEls(tr.Body)[*retagPos]
			if ok && listed != has[t] {
				e.c.Violation("annotation:tag-view-disagrees-after-concurrent-retag", fmt.Sprintf("concurrent re-posts of element %v with different tag sets (all acknowledged, delays %s): the element is stored with tags %v but GET tag/%s lists it: %v", *retagPos, dl, el.Tags, t, listed),
					map[string]interface{}{"kinds": kinds, "stored_tags": el.Tags, "tag": t, "listed": listed, "overlap": sig})
			}
		}
	}
	views := map[string]string{"block": base + "elements/64_64_64/0_0_0", "tag": base + "tag/shared", "all": base + "all-elements"}
	for name, url := range views {
		rp, err := e.w.Get(url)
		if err != nil {
			return err
		}
		got := map[[3]int]bool{}
		if name == "all" {
			var m map[string][]annEl
			json.Unmarshal(rp.Body, &m)
			for _, els := range m {
				for _, el := range els {
					got[el.Pos] = true
				}
			}
		} else {
			for p := range parseEls(rp.Body) {
				got[p] = true
			}
		}
		if name == "tag" && retagPos != nil {
			// the re-tagged element's membership in the shared-tag view was judged above against its stored tags
			delete(got, *retagPos)
		}
		var missing, extra [][3]int
		for p := range expect {
			if name == "tag" && retagPos != nil && p == *retagPos {
				continue
			}
			if !got[p] {
				missing = append(missing, p)
			}
		}
		for p := range got {
			if !expect[p] {
				extra = append(extra, p)
			}
		}
		if len(missing) > 0 || len(extra) > 0 {
			kind := "block-rmw"
			if name == "tag" {
				kind = "tag-rmw"
			}
			e.c.Violation("annotation:"+kind, fmt.Sprintf("%d concurrent acknowledged element edits in one block (%v, delays %s): the %s view lacks %d acknowledged elements and has %d that should be gone (expected %d elements)",
				len(reqs), kinds, dl, name, len(missing), len(extra), len(expect)),
				map[string]interface{}{"kinds": kinds, "missing": missing, "extra": extra, "overlap": sig})
		}
	}
	return nil
}

// annBlocks: the low-level block ingestion (POST blocks = a blind overwrite of whole element blocks, no denormalisations)
// issued together with element edits of the same block.  Whichever order the requests take effect in, nothing deletes the
// ingested elements: once everything is acknowledged they must be in the block (an edit that read the block before the
// ingestion and wrote it back afterwards would drop them).
func (e *env) annBlocks(idx int) error {
	root, err := e.cl.NewRepo(fmt.Sprintf("annblk%d", idx))
	if err != nil {
		return err
	}
	if err := e.cl.NewInstance(root, "annotation", "syn", nil); err != nil {
		return err
	}
	base := "/api/node/" + root + "/syn/"
	used := map[[3]int]bool{}
	fresh := func() [3]int {
		for {
			p := [3]int{e.r.Intn(60) + 1, e.r.Intn(60) + 1, e.r.Intn(60) + 1}
			if !used[p] {
				used[p] = true
				return p
			}
		}
	}
	var preEls []map[string]interface{}
	var pre [][3]int
	for i := 0; i < 3; i++ {
		p := fresh()
		pre = append(pre, p)
		preEls = append(preEls, map[string]interface{}{"Pos": p, "Kind": "Note", "Tags": []string{"shared"}})
	}
	b, _ := json.Marshal(preEls)
	if r, err := e.w.Post(base+"elements", b); err != nil || !r.OK() {
		return fmt.Errorf("pre-post elements: %v %v", r, err)
	}
	dl := e.delays()
	var ingested [][3]int
	var ing []map[string]interface{}
	for i := 0; i < 2+e.r.Intn(3); i++ {
		p := fresh()
		ingested = append(ingested, p)
		ing = append(ing, map[string]interface{}{"Pos": p, "Kind": "PreSyn", "Tags": []string{"ingested"}})
	}
	blk, _ := json.Marshal(map[string]interface{}{"0,0,0": ing})
	var reqs []drv.Req
	var kinds []string
	nEdits := 2 + e.r.Intn(4)
	at := e.r.Intn(nEdits + 1)
	for i := 0; i <= nEdits; i++ {
		if i == at {
			reqs = append(reqs, drv.Req{Method: "POST", URL: base + "blocks", Body: blk})
			kinds = append(kinds, "blocks")
			continue
		}
		switch e.r.Intn(4) {
		case 0:
			p := pre[0]
			reqs = append(reqs, drv.Req{Method: "DELETE", URL: fmt.Sprintf("%selement/%d_%d_%d", base, p[0], p[1], p[2])})
			kinds = append(kinds, "delete")
		case 1:
			p, q := pre[1], fresh()
			reqs = append(reqs, drv.Req{Method: "POST", URL: fmt.Sprintf("%smove/%d_%d_%d/%d_%d_%d", base, p[0], p[1], p[2], q[0], q[1], q[2])})
			kinds = append(kinds, "move")
		default:
			b, _ := json.Marshal([]map[string]interface{}{{"Pos": fresh(), "Kind": "PostSyn", "Tags": []string{"shared"}}})
			reqs = append(reqs, drv.Req{Method: "POST", URL: base + "elements", Body: b})
			kinds = append(kinds, "post")
		}
	}
	resps, err := e.w.Par(reqs)
	if err != nil {
		return err
	}
	e.w.SetDelay(0, 0, false)
	if err := e.w.Settle(); err != nil {
		return err
	}
	sig := overlapSig(resps)
	e.c.Case(fmt.Sprintf("annblocks|%d|%s", idx, drv.Hash(sig)), true)
	e.c.Seen("annblocks_interleaving_signatures", drv.Hash(sig))
	e.c.Seen("delay_profiles", dl)
	e.c.Count("annotation_block_ingest_rounds", 1)
	if !resps[at].OK() {
		if resps[at].Panicked() {
			e.c.Violation("annotation:panic-under-concurrency", fmt.Sprintf("concurrent POST blocks answered %s", resps[at]), nil)
		}
		return nil
	}
	rp, err := e.w.Get(base + "elements/64_64_64/0_0_0")
	if err != nil {
		return err
	}
	got := parseEls(rp.Body)
	var missing [][3]int
	for _, p := range ingested {
		if _, ok := got[p]; !ok {
			missing = append(missing, p)
		}
	}
	if len(missing) > 0 {
		e.c.Violation("annotation:block-ingest-lost-under-concurrent-edits", fmt.Sprintf("POST blocks of %d elements into block 0,0,0 was acknowledged together with %d element edits of that block (%v, delays %s); afterwards %d of the ingested elements are not in the block although no request removes them",
			len(ingested), nEdits, kinds, dl, len(missing)), map[string]interface{}{"kinds": kinds, "missing": missing, "overlap": sig})
	}
	return nil
}

// ---------- 3. labelmap merges / cleaves on one target ----------

func (e *env) labelmap(idx int) error {
	wd, err := mixed.New(e.w, rand.New(rand.NewSource(e.r.Int63())), mixed.Opts{Types: []string{"lm"}, Tag: fmt.Sprintf("c11-%d", idx)})
	if err != nil {
		return err
	}
	u := wd.Root
	bodies := wd.Bodies(u)
	var bl []uint64
	for b := range bodies {
		bl = append(bl, b)
	}
	sort.Slice(bl, func(i, j int) bool { return bl[i] < bl[j] })
	if len(bl) < 12 {
		return nil
	}
	e.r.Shuffle(len(bl), func(i, j int) { bl[i], bl[j] = bl[j], bl[i] })
	target := bl[0]
	n := 2 + e.r.Intn(5)
	dl := e.delays()
	var reqs []drv.Req
	var merged [][]uint64
	k := 1
	for i := 0; i < n && k+2 < len(bl); i++ {
		m := []uint64{bl[k]}
		k++
		if e.r.Intn(2) == 0 {
			m = append(m, bl[k])
			k++
		}
		merged = append(merged, m)
		body, _ := json.Marshal(append([]uint64{target}, m...))
		reqs = append(reqs, drv.Req{Method: "POST", URL: "/api/node/" + u + "/lm/merge", Body: body})
	}
	resps, err := e.w.Par(reqs)
	if err != nil {
		return err
	}
	e.w.SetDelay(0, 0, false)
	if err := e.w.Settle(); err != nil {
		return err
	}
	expectSVs := map[uint64]bool{}
	for _, sv := range bodies[target] {
		expectSVs[sv] = true
	}
	var gone []uint64
	for i, rp := range resps {
		if rp.Panicked() {
			e.c.Violation("labelmap:panic-under-concurrency", fmt.Sprintf("concurrent merge answered %s", rp), nil)
		}
		if !rp.OK() {
			continue
		}
		for _, b := range merged[i] {
			gone = append(gone, b)
			for _, sv := range bodies[b] {
				expectSVs[sv] = true
			}
		}
	}
	sig := overlapSig(resps)
	e.c.Case(fmt.Sprintf("lm-merge|%d|%s", idx, drv.Hash(sig)), len(reqs) >= 2)
	e.c.Seen("lm_interleaving_signatures", drv.Hash(sig))
	e.c.Seen("delay_profiles", dl)
	e.c.Count("labelmap_concurrent_merges", len(reqs))
	// supervoxel set and size of the target must be the union; merged bodies must be gone
	rp, err := e.w.Get(fmt.Sprintf("/api/node/%s/lm/supervoxels/%d", u, target))
	if err != nil {
		return err
	}
	var svs []uint64
	json.Unmarshal(rp.Body, &svs)
	got := map[uint64]bool{}
	for _, s := range svs {
		got[s] = true
	}
	var missing []uint64
	for s := range expectSVs {
		if !got[s] {
			missing = append(missing, s)
		}
	}
	wit := map[string]interface{}{"target": target, "merges": merged, "statuses": statuses(resps), "overlap": sig, "delays": dl}
	if len(missing) > 0 || len(got) != len(expectSVs) {
		e.c.Violation("labelmap:merge-target-rmw", fmt.Sprintf("%d concurrent acknowledged merges into body %d (delays %s): its supervoxel set has %d entries, %d acknowledged supervoxels are missing (expected %d)", len(reqs), target, dl, len(got), len(missing), len(expectSVs)), wit)
	}
	rp, err = e.w.Get(fmt.Sprintf("/api/node/%s/lm/size/%d", u, target))
	if err != nil {
		return err
	}
	var sz struct{ Voxels uint64 }
	json.Unmarshal(rp.Body, &sz)
	if want := uint64(len(expectSVs)) * 4096; sz.Voxels != want && len(missing) == 0 {
		e.c.Violation("labelmap:merge-target-size", fmt.Sprintf("after %d concurrent merges body %d reports %d voxels, expected %d", len(reqs), target, sz.Voxels, want), wit)
	}
	for _, b := range gone {
		rp, err := e.w.Get(fmt.Sprintf("/api/node/%s/lm/size/%d", u, b))
		if err != nil {
			return err
		}
		if rp.Status == 200 {
			var s struct{ Voxels uint64 }
			json.Unmarshal(rp.Body, &s)
			if s.Voxels != 0 {
				e.c.Violation("labelmap:merged-body-survives", fmt.Sprintf("body %d was merged (acknowledged) into %d but still reports %d voxels", b, target, s.Voxels), wit)
			}
		}
	}
	// mapping of every supervoxel that should now belong to the target
	var all []uint64
	for s := range expectSVs {
		all = append(all, s)
	}
	sort.Slice(all, func(i, j int) bool { return all[i] < all[j] })
	body, _ := json.Marshal(all)
	rp, err = e.w.HTTP("GET", fmt.Sprintf("/api/node/%s/lm/mapping", u), body)
	if err != nil {
		return err
	}
	var mp []uint64
	json.Unmarshal(rp.Body, &mp)
	for i, m := range mp {
		if i < len(all) && m != target {
			e.c.Violation("labelmap:mapping-disagrees-with-index", fmt.Sprintf("supervoxel %d maps to %d after acknowledged merges into %d", all[i], m, target), wit)
			break
		}
	}
	// the merges were also appended, concurrently, to the version's mutation log - the first appends that log ever saw.
	// Two readers of the log judge it: the mutation history of the target now, and the start-up replay at the end of the batch.
	hr, err := e.w.Get(fmt.Sprintf("/api/node/%s/lm/history/%d/%s/%s", u, target, u, u))
	if err != nil {
		if e.w.Dead() {
			e.c.Violation("labelmap:history-after-concurrent-merges-kills-server", fmt.Sprintf("GET history of body %d after %d concurrent acknowledged merges (delays %s): the server process died: %s", target, len(reqs), dl, drv.Trunc(drv.FatalInStderr(e.w.Stderr()), 500)), wit)
			return errBatchOver
		}
		return err
	}
	if hr.Panicked() {
		e.c.Violation("labelmap:panic-under-concurrency", fmt.Sprintf("GET history after concurrent merges answered %s", hr), wit)
	}
	e.lmAfter = append(e.lmAfter, lmRecheck{u: u, target: target, svs: all, merges: len(reqs), delays: dl})
	return nil
}

// labelmapMixed: merges, cleaves and supervoxel splits of disjoint bodies issued at once on a version whose mutation log
// has never been appended to (a fresh instance) - the different operations log through different code paths.  Each
// acknowledged operation must be in the log exactly as it was acknowledged: the mapping of every supervoxel is read
// now and again after the restart at the end of the batch (start-up replays the log), and the mutation history is read.
func (e *env) labelmapMixed(idx int) error {
	wd, err := mixed.New(e.w, rand.New(rand.NewSource(e.r.Int63())), mixed.Opts{Types: []string{"lm"}, Tag: fmt.Sprintf("c11m-%d", idx)})
	if err != nil {
		return err
	}
	u := wd.Root
	// four versions in a row: every new version starts with a mutation log nobody has appended to yet
	for gen := 0; gen < 4; gen++ {
		if gen > 0 {
			if err := wd.H.CommitNode(u); err != nil {
				return err
			}
			child, err := wd.H.NewVersionOf(u)
			if err != nil {
				return err
			}
			wd.Fork(u, child)
			u = child
		}
		used := map[uint64]bool{}
		var plans []*mixed.Plan
		for i, n := 0, 3+e.r.Intn(4); i < n; i++ {
			var p *mixed.Plan
			switch i % 3 {
			case 0:
				p = wd.PlanSplitSV(u, used)
			case 1:
				p = wd.PlanCleave(u, used)
			default:
				p = wd.PlanMerge(u, used)
			}
			if p == nil {
				p = wd.PlanMerge(u, used)
			}
			if p != nil {
				plans = append(plans, p)
			}
		}
		if len(plans) < 2 {
			break
		}
		e.w.SetDelay(0, 0, false)
		reqs := make([]drv.Req, len(plans))
		var kinds, descs []string
		for i, p := range plans {
			reqs[i] = p.Req
			kinds = append(kinds, p.Kind)
			descs = append(descs, p.Desc)
		}
		resps, err := e.w.Par(reqs)
		if err != nil {
			return err
		}
		if err := e.w.Settle(); err != nil {
			return err
		}
		for i, p := range plans {
			if resps[i].Panicked() {
				e.c.Violation("labelmap:panic-under-concurrency", fmt.Sprintf("concurrent %s answered %s", p.Kind, resps[i]), nil)
			}
			if !resps[i].OK() {
				descs[i] += " => " + drv.Trunc(resps[i].String(), 200)
			}
			wd.ApplyPar(p, resps[i])
		}
		sig := overlapSig(resps)
		e.c.Case(fmt.Sprintf("lm-mixed|%d|%s", idx, drv.Hash(sig)), true)
		e.c.Seen("lm_mixed_interleaving_signatures", drv.Hash(sig))
		e.c.Count("labelmap_concurrent_mixed_ops", len(reqs))
		// every supervoxel the model knows after the operations, and where it maps now
		var svs []uint64
		for _, ss := range wd.Bodies(u) {
			svs = append(svs, ss...)
		}
		sort.Slice(svs, func(i, j int) bool { return svs[i] < svs[j] })
		body, _ := json.Marshal(svs)
		rp, err := e.w.HTTP("GET", fmt.Sprintf("/api/node/%s/lm/mapping", u), body)
		if err != nil {
			return err
		}
		var mp []uint64
		json.Unmarshal(rp.Body, &mp)
		wit := map[string]interface{}{"kinds": kinds, "statuses": statuses(resps), "overlap": sig}
		for b := range wd.Bodies(u) {
			hr, err := e.w.Get(fmt.Sprintf("/api/node/%s/lm/history/%d/%s/%s", u, b, u, u))
			if err != nil {
				if e.w.Dead() {
					e.c.Violation("labelmap:history-after-concurrent-operations-kills-server", fmt.Sprintf("GET history of body %d after concurrent acknowledged %v: the server process died: %s", b, kinds, drv.Trunc(drv.FatalInStderr(e.w.Stderr()), 500)), wit)
					return errBatchOver
				}
				return err
			}
			if hr.Panicked() {
				e.c.Violation("labelmap:panic-under-concurrency", fmt.Sprintf("GET history after concurrent %v answered %s", kinds, hr), wit)
			}
			break // one body is enough: the handler streams the whole log of the version
		}
		e.lmAfter = append(e.lmAfter, lmRecheck{u: u, svs: svs, before: mp, merges: len(reqs), delays: strings.Join(kinds, "+"), descs: descs, statuses: statuses(resps)})
	}
	return nil
}

// errBatchOver ends a batch whose server process died (the death itself was reported as a violation).
var errBatchOver = fmt.Errorf("batch over")

type lmRecheck struct {
	u        string
	target   uint64   // every supervoxel maps here, or
	before   []uint64 // (target == 0) the mapping of each supervoxel before the restart
	svs      []uint64
	merges   int
	delays   string
	descs    []string
	statuses []int
}

// lmReplay: after a restart the mappings are rebuilt from the mutation logs the concurrent merges appended to.
func (e *env) lmReplay() error {
	for _, x := range e.lmAfter {
		body, _ := json.Marshal(x.svs)
		rp, err := e.w.HTTP("GET", fmt.Sprintf("/api/node/%s/lm/mapping", x.u), body)
		if err != nil {
			return err
		}
		var mp []uint64
		json.Unmarshal(rp.Body, &mp)
		e.c.Case(fmt.Sprintf("lm-replay|%s|%d", x.u[:8], x.target), true)
		e.c.Count("labelmap_mappings_reread_after_restart", len(x.svs))
		bad := 0
		first := ""
		for i, m := range mp {
			want := x.target
			if x.target == 0 && i < len(x.before) {
				want = x.before[i]
			}
			if i < len(x.svs) && m != want {
				if bad == 0 {
					first = fmt.Sprintf("supervoxel %d maps to %d, before the restart to %d", x.svs[i], m, want)
				}
				bad++
			}
		}
		if x.target == 0 && (bad > 0 || len(mp) != len(x.svs)) {
			e.c.Violation("labelmap:acknowledged-operations-lost-after-restart", fmt.Sprintf("%d concurrent acknowledged operations (%s) on a fresh labelmap version: after a restart %d of %d supervoxels map differently than before it (%s; answer %d %s)",
				x.merges, x.delays, bad, len(x.svs), first, rp.Status, drv.Trunc(string(rp.Body), 120)), map[string]interface{}{"version": x.u, "operations": x.descs, "statuses": x.statuses, "supervoxels": x.svs, "before": x.before, "after": mp})
		} else if bad > 0 || len(mp) != len(x.svs) {
			e.c.Violation("labelmap:acknowledged-merges-lost-after-restart", fmt.Sprintf("%d concurrent acknowledged merges into body %d (delays %s) were all visible before the restart; after it %d of %d supervoxels no longer map to %d (%s; answer %d %s)",
				x.merges, x.target, x.delays, bad, len(x.svs), x.target, first, rp.Status, drv.Trunc(string(rp.Body), 120)), map[string]interface{}{"target": x.target, "version": x.u})
		}
	}
	e.lmAfter = nil
	return nil
}

func statuses(rs []drv.Resp) []int {
	var out []int
	for _, r := range rs {
		out = append(out, r.Status)
	}
	return out
}

// ---------- 4. neuronjson ----------

func (e *env) neuronjson(idx int) error {
	root, err := e.cl.NewRepo(fmt.Sprintf("nj%d", idx))
	if err != nil {
		return err
	}
	if err := e.cl.NewInstance(root, "neuronjson", "nj", nil); err != nil {
		return err
	}
	base := "/api/node/" + root + "/nj/"
	dl := e.delays()
	n := 2 + e.r.Intn(7)
	same := e.r.Intn(2) == 0
	var reqs []drv.Req
	for i := 0; i < n; i++ {
		id := 5000 + i
		if same {
			id = 5000
		}
		body := fmt.Sprintf(`{"bodyid": %d, "f%d": "v%d"}`, id, i, i)
		reqs = append(reqs, drv.Req{Method: "POST", URL: fmt.Sprintf("%skey/%d?u=user%d", base, id, i), Body: []byte(body)})
	}
	resps, err := e.w.Par(reqs)
	if err != nil {
		return err
	}
	e.w.SetDelay(0, 0, false)
	sig := overlapSig(resps)
	e.c.Case(fmt.Sprintf("nj|%d|%v|%s", idx, same, drv.Hash(sig)), len(reqs) >= 2)
	e.c.Seen("nj_interleaving_signatures", drv.Hash(sig))
	e.c.Seen("delay_profiles", dl)
	e.c.Count("neuronjson_concurrent_posts", len(reqs))
	wit := map[string]interface{}{"same_key": same, "n": n, "statuses": statuses(resps), "overlap": sig, "delays": dl}
	// expected: every acknowledged field present (distinct keys: one annotation each; same key: all fields merged)
	rp, err := e.w.Get(base + "all")
	if err != nil {
		return err
	}
	var all []map[string]interface{}
	json.Unmarshal(rp.Body, &all)
	have := map[string]bool{}
	for _, a := range all {
		for f := range a {
			if strings.HasPrefix(f, "f") {
				have[fmt.Sprintf("%v/%s", a["bodyid"], f)] = true
			}
		}
	}
	var lost []string
	for i, r := range resps {
		if !r.OK() {
			if r.Panicked() {
				e.c.Violation("neuronjson:panic-under-concurrency", fmt.Sprintf("concurrent POST key answered %s", r), wit)
			}
			continue
		}
		id := 5000 + i
		if same {
			id = 5000
		}
		if !have[fmt.Sprintf("%d/f%d", id, i)] {
			lost = append(lost, fmt.Sprintf("%d/f%d", id, i))
		}
	}
	if len(lost) > 0 {
		kind := "distinct-keys"
		if same {
			kind = "same-key-field-rmw"
		}
		e.c.Violation("neuronjson:"+kind, fmt.Sprintf("%d concurrent acknowledged POST key (%s, delays %s): %d acknowledged fields are missing afterwards: %v", n, kind, dl, len(lost), lost), wit)
	}
	// memory view vs store view of the same data
	if err := e.cl.Commit(root); err == nil {
		if child, err := e.cl.NewVersion(root); err == nil {
			a, _ := e.w.Get(base + "all")
			b, _ := e.w.Get("/api/node/" + child + "/nj/all")
			if mixed.Canon(a) != mixed.Canon(b) {
				e.c.Violation("neuronjson:memory-vs-store-after-concurrency", fmt.Sprintf("after concurrent posts the committed parent (store) and the new head (memory) differ: %s vs %s", drv.Trunc(mixed.Canon(a), 300), drv.Trunc(mixed.Canon(b), 300)), wit)
			}
		}
	}
	return nil
}

// ---------- 5. version creation on one parent ----------

func (e *env) versions(idx int) error {
	root, err := e.cl.NewRepo(fmt.Sprintf("ver%d", idx))
	if err != nil {
		return err
	}
	if err := e.cl.Commit(root); err != nil {
		return err
	}
	// the parent is the committed root (master) or, every second time, a committed node on a named branch: there
	// "newversion" and "branch <the parent's own branch name>" ask for the same slot
	parent, parentBranch := root, "master"
	if idx%2 == 1 {
		b, err := e.cl.Branch(root, "pb")
		if err != nil {
			return err
		}
		if err := e.cl.Commit(b); err != nil {
			return err
		}
		parent, parentBranch = b, "pb"
	}
	// every third time: the same NEW branch name asked for on different committed parents of the repo at once
	var otherParents []string
	if idx%3 == 2 {
		cur := parent
		for k := 0; k < 2; k++ {
			ch, err := e.cl.NewVersion(cur)
			if err != nil {
				return err
			}
			if err := e.cl.Commit(ch); err != nil {
				return err
			}
			otherParents = append(otherParents, ch)
			cur = ch
		}
		otherParents = append([]string{parent}, otherParents[:len(otherParents)-1]...) // committed nodes that already have their master child
	}
	dl := e.delays()
	n := 2 + e.r.Intn(7)
	kind := []string{"newversion", "branch-same-name", "mixed"}[e.r.Intn(3)]
	if len(otherParents) > 0 {
		kind = "branch-same-name-different-parents"
	}
	var reqs []drv.Req
	var slot []string // branch the request asks a child for
	for i := 0; i < n; i++ {
		switch {
		case len(otherParents) > 0:
			reqs = append(reqs, drv.Req{Method: "POST", URL: "/api/node/" + otherParents[i%len(otherParents)] + "/branch", Body: []byte(`{"branch":"same"}`)})
			slot = append(slot, "same")
		case kind == "newversion" || (kind == "mixed" && i%2 == 0):
			reqs = append(reqs, drv.Req{Method: "POST", URL: "/api/node/" + parent + "/newversion", Body: []byte(`{"note":"x"}`)})
			slot = append(slot, parentBranch)
		case parentBranch != "master" && e.r.Intn(2) == 0:
			reqs = append(reqs, drv.Req{Method: "POST", URL: "/api/node/" + parent + "/branch", Body: []byte(`{"branch":"` + parentBranch + `"}`)})
			slot = append(slot, parentBranch)
		default:
			reqs = append(reqs, drv.Req{Method: "POST", URL: "/api/node/" + parent + "/branch", Body: []byte(`{"branch":"same"}`)})
			slot = append(slot, "same")
		}
	}
	resps, err := e.w.Par(reqs)
	if err != nil {
		return err
	}
	e.w.SetDelay(0, 0, false)
	sig := overlapSig(resps)
	e.c.Case(fmt.Sprintf("ver|%d|%s|%s|%s", idx, kind, parentBranch, drv.Hash(sig)), true)
	e.c.Seen("version_parent_kinds", parentBranch)
	e.c.Seen("version_interleaving_signatures", drv.Hash(sig))
	e.c.Seen("delay_profiles", dl)
	e.c.Count("concurrent_version_requests", len(reqs))
	okBy := map[string]int{}
	for i, r := range resps {
		if r.OK() {
			okBy[slot[i]]++
		}
	}
	wit := map[string]interface{}{"kind": kind, "parent_branch": parentBranch, "statuses": statuses(resps), "overlap": sig, "delays": dl}
	for b, k := range okBy {
		if k > 1 {
			which := "newversion"
			if b == "same" {
				which = "branch"
			} else if parentBranch != "master" {
				which = "newversion+branch-own-name"
			}
			e.c.Violation("versions:"+which+":same-branch-concurrent", fmt.Sprintf("%d of %d concurrent requests on one committed parent (branch %q) were acknowledged for a child on branch %q (at most one child per branch)", k, len(reqs), parentBranch, b), wit)
		}
	}
	repos, _, err := e.cl.Repos()
	if err != nil {
		return err
	}
	if ri := repos[root]; ri != nil {
		one := map[string]*dvc.RepoInfo{root: ri}
		for _, b := range dvc.CheckDAGInvariants(one) {
			e.c.Violation("versions:dag-invariant:"+strings.SplitN(b, ":", 2)[0], "after concurrent version creation: "+b, wit)
		}
		// every acknowledged child must be in the DAG
		for _, r := range resps {
			if r.OK() {
				var o struct{ Child string }
				json.Unmarshal(r.Body, &o)
				if ri.DAG.Nodes[o.Child] == nil {
					e.c.Violation("versions:acknowledged-child-missing", fmt.Sprintf("acknowledged child %s is not in the DAG", o.Child), wit)
				}
			}
		}
	}
	return nil
}

// ---------- run ----------

func batch(c *drv.Ctx, bin string, seed int64, idx int, rounds int, races bool) (string, error) {
	r := rand.New(rand.NewSource(seed))
	dir, err := c.NewDataDir(fmt.Sprintf("b%d", idx), drv.ConfOpts{})
	if err != nil {
		return "", err
	}
	so := drv.StartOpts{}
	raceLog := filepath.Join(dir, "race")
	if races {
		so.Env = []string{"GORACE=halt_on_error=0 log_path=" + raceLog}
	}
	w, err := drv.StartWorker(bin, dir, so)
	if err != nil {
		return "", err
	}
	w.Watchdog = 300 * time.Second
	e := &env{c: c, w: w, cl: &dvc.Client{W: w}, r: r, races: races}
	defer w.Kill()
	for i := 0; i < rounds; i++ {
		id := idx*1000 + i
		steps := []func(int) error{e.kvRegisters, e.annotations, e.annBlocks, e.labelmap, e.labelmapMixed, e.neuronjson, e.versions}
		for _, f := range steps {
			if err := f(id); err == errBatchOver {
				return "", nil // the violation is recorded; this batch's server is gone
			} else if err != nil {
				return "", fmt.Errorf("batch %d round %d: %v; stderr: %s", idx, i, err, drv.Trunc(drv.FatalInStderr(w.Stderr()), 600))
			}
		}
	}
	if len(e.lmAfter) > 0 {
		if err := w.Settle(); err != nil {
			return "", err
		}
		if err := w.Exit("clean"); err != nil {
			return "", err
		}
		w2, err := drv.StartWorker(bin, dir, so)
		if err != nil {
			c.Violation("restart-fails-after-concurrent-rounds", fmt.Sprintf("batch %d: the server does not start again after the concurrent rounds: %v; stderr: %s", idx, err, drv.Trunc(drv.FatalInStderr(w2.Stderr()), 600)), nil)
			return "", nil
		}
		w2.Watchdog = 300 * time.Second
		defer w2.Kill()
		w = w2
		e.w, e.cl.W = w2, w2
		if err := e.lmReplay(); err != nil {
			return "", fmt.Errorf("batch %d replay after restart: %v; stderr: %s", idx, err, drv.Trunc(drv.FatalInStderr(w.Stderr()), 600))
		}
	}
	var raceText string
	if races {
		w.Exit("clean")
		files, _ := filepath.Glob(raceLog + ".*")
		for _, f := range files {
			b, _ := os.ReadFile(f)
			raceText += string(b)
		}
	}
	return raceText, nil
}

// dedupeRaces groups race reports by the pair of outermost repo frames.
func dedupeRaces(text string) map[string]int {
	out := map[string]int{}
	for _, blk := range strings.Split(text, "WARNING: DATA RACE")[1:] {
		var fr []string
		for _, ln := range strings.Split(blk, "\n") {
			ln = strings.TrimSpace(ln)
			if strings.HasPrefix(ln, "github.com/janelia-flyem/dvid/") && strings.Contains(ln, "(") {
				f := ln[:strings.Index(ln, "(")]
				f = strings.TrimPrefix(f, "github.com/janelia-flyem/dvid/")
				fr = append(fr, f)
			}
			if strings.HasPrefix(ln, "Goroutine ") {
				break
			}
		}
		if len(fr) == 0 {
			continue
		}
		first := fr[0]
		var second string
		for _, f := range fr[1:] {
			if f != first {
				second = f
				break
			}
		}
		out[first+" | "+second]++
	}
	return out
}

func run(c *drv.Ctx) error {
	c.Rule("per case 2-8 requests are released by one barrier on separate goroutines (GOMAXPROCS 16) with one of four delay profiles injected at store-call boundaries of the wrapping engine; " +
		"classes: keyvalue POST/DELETE/GET on 2-3 keys with unique values (several rounds, porcupine per-key linearizability incl. final reads); annotation POST elements at distinct positions of one block sharing a tag, with concurrent delete/move; " +
		"labelmap merges of disjoint bodies into one target; neuronjson POST key on distinct ids or disjoint fields of one id; newversion / same-name branch on one committed parent; " +
		"after settle the unique sequential outcome is compared; distinct by (class, interleaving signature = order of call/return events); the race detector runs over the same cases once and its deduplicated reports are listed as evidence")
	c.Assume("only interleavings produced by barrier + delay injection + 16 cores are observed; no claim of schedule completeness")
	bin, err := c.Build("dvidw", "")
	if err != nil {
		return err
	}
	nb := c.N(6, 60)
	rounds := c.N(5, 12)
	var wg sync.WaitGroup
	var mu sync.Mutex
	var errs []string
	sem := make(chan struct{}, 6)
	for i := 0; i < nb; i++ {
		i := i
		seed := c.Rand.Int63()
		wg.Add(1)
		go func() {
			defer wg.Done()
			sem <- struct{}{}
			defer func() { <-sem }()
			if _, err := batch(c, bin, seed, i, rounds, false); err != nil {
				mu.Lock()
				errs = append(errs, err.Error())
				mu.Unlock()
			}
		}()
	}
	// race-detector pass over the same kind of cases (evidence only)
	raceSeed := c.Rand.Int63()
	var raceText string
	wg.Add(1)
	go func() {
		defer wg.Done()
		rbin, err := c.Build("dvidw", "race")
		if err != nil {
			mu.Lock()
			errs = append(errs, "race build: "+err.Error())
			mu.Unlock()
			return
		}
		t, err := batch(c, rbin, raceSeed, 900, c.N(2, 6), true)
		if err != nil {
			c.Extra("race_pass_error", drv.Trunc(err.Error(), 400))
			return
		}
		raceText = t
	}()
	wg.Wait()
	if len(errs) > 0 {
		sort.Strings(errs)
		return fmt.Errorf("%s", drv.Trunc(strings.Join(errs, " | "), 3000))
	}
	races := dedupeRaces(raceText)
	var rl []string
	for k, v := range races {
		rl = append(rl, fmt.Sprintf("%s x%d", k, v))
	}
	sort.Strings(rl)
	c.Extra("race_reports_deduplicated", rl)
	c.Count("race_report_blocks", strings.Count(raceText, "WARNING: DATA RACE"))
	return nil
}
