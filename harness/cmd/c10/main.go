// C10 — operations on compressed label blocks (datatype/common/labels) equal the voxel-wise reference.
//
// Package-level probe (wcmd/probe-c10) run in three builds: plain, -race (race detector + checkptr on the
// unsafe slice aliasing of dvid/utils.go) and -asan.  Each case compresses a generated label array with the
// real MakeBlock, applies real operations on the compressed form (MergeLabels, ReplaceLabel, ReplaceLabels,
// Split / splitFast, SplitSupervoxel(s), DoSplitWithStats, SplitStats, Downres / DownresSlow / DownresFast,
// DownresLabels) and compares with the naive operation on the plain []uint64 array.
package main

import (
	"encoding/json"
	"fmt"
	"os"
	"sync"
	"time"

	"verif/harness/internal/drv"
)

func main() { drv.Main("C10", "exploration", run) }

type replayDoc struct {
	Seed int64  `json:"seed"`
	Tier string `json:"tier"`
	Case struct {
		Case    *int   `json:"case"`
		Flavour string `json:"flavour"`
		Tier    string `json:"tier"`
	} `json:"case"`
}

func run(c *drv.Ctx) error {
	c.Rule("blocks are generated as in C09 (edges in {16,24,32,64}^3, content built per 8x8x8 sub-block over every index bit width, labels up to 2^64-1). " +
		"table case: 1-4 chained MergeLabels (target present/absent/0, merged labels present/absent/all) / ReplaceLabel (target absent/0/present; new label fresh/0/identity/already present) / " +
		"ReplaceLabels (chains, swaps, to/from 0, identity, many-to-one) applied to the compressed block without re-encoding; one evaluation per step. " +
		"split case: Split, splitFast (unexported, by go:linkname), SplitSupervoxel, SplitSupervoxels, DoSplitWithStats, SplitStats with run sets " +
		"{empty, whole block, single voxel, exact cover, partial, random segments crossing sub-blocks, dilated beyond the label, wholly outside, exact+segments}, runs cut into adjacent pieces and shuffled, " +
		"block coordinates in [-2,4]^3, one third after a table edit. downres case: octant presence pattern (all 256) x {solid, mixed} octants x receiver {blank, solid, mixed} through " +
		"Downres, DownresSlow, DownresFast (blank receiver, even sub-block counts) and DownresLabels, against the documented vote (most frequent non-zero label of the 8 children, ties to the smaller label, else 0; absent octants keep the receiver). " +
		"After every operation: result decoded and compared voxel for voxel, reported counts against true counts, source block unchanged, all direct views of the result " +
		"(Value, GetPointLabels, CalcNumLabels(nil|source), WriteRLEs, WriteBinaryBlocks, Marshal round trip). " +
		"Distinct by (size, kind, array hash, operation sequence / run-set hash / octant pattern + content hash). Non-trivial: the operation changes >= 1 voxel of the array.")
	c.Assume("the naive oracles are loops over the plain []uint64 array in wcmd/probe-c10/main.go and internal/labelgen/views.go (no code of the package under test computes an expectation)")
	c.Assume("legal inputs only: runs inside the block, inside one row, non-overlapping; merged sets without the target and without 0; labels handed out for splits are unused; octants and receiver have the same size")
	c.Assume("the unexported labels.PositionedBlock.splitFast is reached through go:linkname from the probe (no change in /repo)")

	flavours := []string{"", "race", "asan"}
	var extra []string
	if c.Replay != "" {
		b, err := os.ReadFile(c.Replay)
		if err != nil {
			return err
		}
		var d replayDoc
		if err := json.Unmarshal(b, &d); err != nil {
			return fmt.Errorf("replay file: %v", err)
		}
		c.Seed = d.Seed
		if d.Tier != "" {
			c.Tier = d.Tier
		}
		flavours = []string{d.Case.Flavour}
		if d.Case.Case != nil {
			extra = []string{"--only", fmt.Sprint(*d.Case.Case)}
		}
	}
	watchdog := time.Duration(c.N(170, 1700)) * time.Second
	runOne := func(fl string) error {
		name := fl
		if name == "" {
			name = "plain"
		}
		return c.RunProbe("probe-c10", fl, extra, watchdog, "crash:"+name)
	}
	// the flavours are independent processes; run them side by side unless building against a scratch repo
	// copy (VERIF_REPO writes one shared alternate go.mod)
	if os.Getenv("VERIF_REPO") != "" || len(flavours) == 1 {
		for _, fl := range flavours {
			if err := runOne(fl); err != nil {
				return err
			}
		}
	} else {
		var wg sync.WaitGroup
		errs := make([]error, len(flavours))
		for i, fl := range flavours {
			wg.Add(1)
			go func(i int, fl string) {
				defer wg.Done()
				errs[i] = runOne(fl)
			}(i, fl)
		}
		wg.Wait()
		for _, err := range errs {
			if err != nil {
				return err
			}
		}
	}
	c.Extra("flavours", []string{"plain", "race(+checkptr)", "asan"})
	c.Extra("exhaustive_slice", "all 256 present/absent octant patterns x {solid, mixed} octants are executed by the plain build in both tiers (observed.distinct_octant_pattern_x_mode)")
	return nil
}
