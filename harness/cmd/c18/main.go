// C18 — spatial keys, packed block indices and run-length volumes preserve geometry.
// Package-level part: wcmd/probe-c18 (plain and race+checkptr builds).  ROI part: this driver talks to the real
// server (dvidw) over its HTTP mux: POST/GET/DELETE roi, POST ptquery, GET mask on roi instances, compared with a
// block-set model of the posted spans.
package main

import (
	"encoding/json"
	"fmt"
	"math/rand"
	"os"
	"sort"
	"strings"
	"sync"
	"time"

	"verif/harness/internal/drv"
	"verif/harness/internal/dvc"
)

func main() { drv.Main("C18", "exploration", run) }

type span [4]int32 // z, y, x0, x1 in block coordinates

type model struct {
	bs     [3]int32
	spans  []span // sorted (z, y, x0, x1), unique
	blocks map[[3]int32]bool
}

func newModel(bs [3]int32) *model { return &model{bs: bs, blocks: map[[3]int32]bool{}} }

func (m *model) set(sp []span) {
	uniq := map[span]bool{}
	m.spans = nil
	m.blocks = map[[3]int32]bool{}
	for _, s := range sp {
		if !uniq[s] {
			uniq[s] = true
			m.spans = append(m.spans, s)
		}
		for x := s[2]; x <= s[3]; x++ {
			m.blocks[[3]int32{x, s[1], s[0]}] = true
		}
	}
	sort.Slice(m.spans, func(i, j int) bool {
		a, b := m.spans[i], m.spans[j]
		for k := 0; k < 4; k++ {
			if a[k] != b[k] {
				return a[k] < b[k]
			}
		}
		return false
	})
}

func (m *model) clone() *model {
	c := newModel(m.bs)
	c.set(m.spans)
	return c
}

func (m *model) overlapping() bool {
	n := 0
	for _, s := range m.spans {
		n += int(s[3] - s[2] + 1)
	}
	return n != len(m.blocks)
}

func floorDiv(a, b int32) int32 {
	q := a / b
	if a%b != 0 && (a < 0) != (b < 0) {
		q--
	}
	return q
}

func (m *model) inside(v [3]int32) bool {
	return m.blocks[[3]int32{floorDiv(v[0], m.bs[0]), floorDiv(v[1], m.bs[1]), floorDiv(v[2], m.bs[2])}]
}

func (m *model) anyBlock(r *rand.Rand) ([3]int32, bool) {
	if len(m.spans) == 0 {
		return [3]int32{}, false
	}
	s := m.spans[r.Intn(len(m.spans))]
	return [3]int32{s[2] + int32(r.Intn(int(s[3]-s[2]+1))), s[1], s[0]}, true
}

func genSpans(r *rand.Rand, messy bool) []span {
	n := r.Intn(13)
	if r.Intn(10) == 0 {
		n = 0
	}
	var out []span
	type row struct{ z, y int32 }
	next := map[row]int32{}
	far := r.Intn(8) == 0
	for i := 0; i < n; i++ {
		z, y := int32(r.Intn(7)-3), int32(r.Intn(7)-3)
		if messy { // few rows, so that spans really overlap, nest, touch and repeat
			z, y = int32(r.Intn(2)-1), int32(r.Intn(2)-1)
		}
		if far && r.Intn(2) == 0 {
			z, y = int32(r.Intn(3)-1)*30000, int32(r.Intn(3)-1)*20000
		}
		l := int32(r.Intn(4))
		var x0 int32
		if messy {
			x0 = int32(r.Intn(13) - 6) // may overlap, touch or duplicate earlier spans
		} else {
			nx, ok := next[row{z, y}]
			if !ok {
				nx = int32(r.Intn(9) - 8)
			}
			x0 = nx + int32(r.Intn(3)) // gap 0 = adjacent spans
			next[row{z, y}] = x0 + l + 1
		}
		if far && r.Intn(3) == 0 {
			x0 += 50000 * int32(1-2*r.Intn(2))
		}
		out = append(out, span{z, y, x0, x0 + l})
	}
	if messy && len(out) > 0 && r.Intn(2) == 0 {
		out = append(out, out[r.Intn(len(out))]) // exact duplicate
	}
	r.Shuffle(len(out), func(i, j int) { out[i], out[j] = out[j], out[i] })
	return out
}

type hist struct {
	c     *drv.Ctx
	w     *drv.Worker
	r     *rand.Rand
	name  string
	tag   string
	trace []string
}

// Violations of the HTTP layer are aggregated per key (= failing class): one report per class, carrying the
// shortest witness history seen and the number of failing queries.
type agg struct {
	n    int
	what string
	w    map[string]interface{}
}

var (
	aggMu sync.Mutex
	aggs  = map[string]*agg{}
)

func (h *hist) fail(key, what string, extra map[string]interface{}) {
	w := map[string]interface{}{"history": h.tag, "trace": append([]string{}, h.trace...)}
	for k, v := range extra {
		w[k] = v
	}
	full := fmt.Sprintf("%s; history %s: %s", what, h.tag, strings.Join(h.trace, "; "))
	aggMu.Lock()
	defer aggMu.Unlock()
	a := aggs[key]
	if a == nil {
		a = &agg{}
		aggs[key] = a
	}
	a.n++
	if a.n == 1 || len(full) < len(a.what) {
		a.what, a.w = full, w
	}
}

func flushAggs(c *drv.Ctx) {
	aggMu.Lock()
	defer aggMu.Unlock()
	keys := make([]string, 0, len(aggs))
	for k := range aggs {
		keys = append(keys, k)
	}
	sort.Strings(keys)
	for _, k := range keys {
		a := aggs[k]
		c.Violation(k, fmt.Sprintf("%s  [%d failing quer(ies) of this class in this run]", a.what, a.n), a.w)
	}
}

func spansJSON(sp []span) string {
	if len(sp) == 0 {
		return "[]"
	}
	b, _ := json.Marshal(sp)
	return string(b)
}

func (h *hist) checkGet(uuid string, m *model, where string) error {
	rr, err := h.w.Get("/api/node/" + uuid + "/" + h.name + "/roi")
	if err != nil {
		return err
	}
	h.c.Count("http_get_roi", 1)
	h.c.Case(fmt.Sprintf("get|%s|%d|%s", h.tag, len(h.trace), spansJSON(m.spans)), len(m.spans) >= 2)
	if !rr.OK() {
		h.fail("roi:request-failed:get", fmt.Sprintf("GET roi (%s) -> %s", where, rr), nil)
		return nil
	}
	var got []span
	if err := json.Unmarshal(rr.Body, &got); err != nil {
		h.fail("roi:get:bad-json", fmt.Sprintf("GET roi (%s) returned unparsable body %q", where, drv.Trunc(string(rr.Body), 200)), nil)
		return nil
	}
	if spansJSON(got) != spansJSON(m.spans) {
		h.fail("roi:get:spans-differ", fmt.Sprintf("GET roi (%s) returned %s, posted span set (sorted, unique) is %s", where, spansJSON(got), spansJSON(m.spans)), map[string]interface{}{"got": got, "want": m.spans})
	}
	return nil
}

func (h *hist) checkPoints(uuid string, m *model, where string) error {
	r := h.r
	var pts [][3]int32
	n := 6 + r.Intn(25)
	for len(pts) < n {
		b, ok := m.anyBlock(r)
		switch {
		case ok && r.Intn(3) > 0:
			lo := [3]int32{b[0] * m.bs[0], b[1] * m.bs[1], b[2] * m.bs[2]}
			hi := [3]int32{lo[0] + m.bs[0] - 1, lo[1] + m.bs[1] - 1, lo[2] + m.bs[2] - 1}
			v := [3]int32{lo[0] + int32(r.Intn(int(m.bs[0]))), lo[1] + int32(r.Intn(int(m.bs[1]))), lo[2] + int32(r.Intn(int(m.bs[2])))}
			switch r.Intn(6) {
			case 0:
				v = lo
			case 1:
				v = hi
			case 2: // one step outside the block along one axis
				d := r.Intn(3)
				v[d] = lo[d] - 1
			case 3:
				d := r.Intn(3)
				v[d] = hi[d] + 1
			}
			pts = append(pts, v)
		case r.Intn(12) == 0:
			pts = append(pts, [3]int32{int32(r.Intn(4000001) - 2000000), int32(r.Intn(2000001) - 1000000), int32(r.Intn(2000001) - 1000000)})
		default:
			pts = append(pts, [3]int32{int32(r.Intn(int(m.bs[0])*16)) - m.bs[0]*8, int32(r.Intn(int(m.bs[1])*10)) - m.bs[1]*5, int32(r.Intn(int(m.bs[2])*10)) - m.bs[2]*5})
		}
	}
	return h.pointsAt(uuid, m, pts, where)
}

func (h *hist) pointsAt(uuid string, m *model, pts [][3]int32, where string) error {
	body, _ := json.Marshal(pts)
	rr, err := h.w.Post("/api/node/"+uuid+"/"+h.name+"/ptquery", body)
	if err != nil {
		return err
	}
	h.c.Count("http_ptquery", 1)
	h.c.Count("ptquery_points", len(pts))
	want := make([]bool, len(pts))
	nin := 0
	for i, v := range pts {
		want[i] = m.inside(v)
		if want[i] {
			nin++
		}
	}
	h.c.Case(fmt.Sprintf("pt|%s|%d|%s|%s", h.tag, len(h.trace), spansJSON(m.spans), string(body)), nin > 0 && nin < len(pts))
	if !rr.OK() {
		h.fail("roi:request-failed:ptquery", fmt.Sprintf("POST ptquery (%s) %s -> %s", where, body, rr), nil)
		return nil
	}
	var got []bool
	if err := json.Unmarshal(rr.Body, &got); err != nil || len(got) != len(pts) {
		h.fail("roi:ptquery:bad-reply", fmt.Sprintf("POST ptquery (%s) with %d points returned %q", where, len(pts), drv.Trunc(string(rr.Body), 200)), nil)
		return nil
	}
	for i := range pts {
		if got[i] != want[i] {
			cls := "positive"
			if pts[i][0] < 0 || pts[i][1] < 0 || pts[i][2] < 0 {
				cls = "negative-coords"
			}
			if m.overlapping() {
				cls += ":overlapping-spans"
			}
			h.fail("roi:ptquery:"+cls, fmt.Sprintf("ptquery (%s) voxel %v (block %v, block size %v): server says %v, spans %s say %v (query of %d points: %s)",
				where, pts[i], [3]int32{floorDiv(pts[i][0], m.bs[0]), floorDiv(pts[i][1], m.bs[1]), floorDiv(pts[i][2], m.bs[2])}, m.bs, got[i], spansJSON(m.spans), want[i], len(pts), body),
				map[string]interface{}{"points": pts, "got": got, "want": want, "spans": m.spans, "block_size": m.bs})
			break
		}
	}
	return nil
}

func (h *hist) checkMask(uuid string, m *model, where string) error {
	r := h.r
	var size, off [3]int32
	for d := 0; d < 3; d++ {
		size[d] = 1 + int32(r.Intn(int(m.bs[d])*5/2))
		if r.Intn(5) == 0 {
			size[d] = m.bs[d] * int32(1+r.Intn(2)) // whole blocks
		}
	}
	for int(size[0])*int(size[1])*int(size[2]) > 160000 {
		d := r.Intn(3)
		if size[d] > 1 {
			size[d] = (size[d] + 1) / 2
		}
	}
	b, ok := m.anyBlock(r)
	if !ok || r.Intn(4) == 0 {
		b = [3]int32{int32(r.Intn(9) - 4), int32(r.Intn(7) - 3), int32(r.Intn(7) - 3)}
	}
	for d := 0; d < 3; d++ {
		off[d] = b[d]*m.bs[d] - int32(r.Intn(int(size[d])+1)) + int32(r.Intn(int(m.bs[d])))
		if r.Intn(5) == 0 {
			off[d] = b[d] * m.bs[d] // block aligned
		}
	}
	return h.maskAt(uuid, m, size, off, where)
}

func (h *hist) maskAt(uuid string, m *model, size, off [3]int32, where string) error {
	url := fmt.Sprintf("/api/node/%s/%s/mask/0_1_2/%d_%d_%d/%d_%d_%d", uuid, h.name, size[0], size[1], size[2], off[0], off[1], off[2])
	rr, err := h.w.Get(url)
	if err != nil {
		return err
	}
	h.c.Count("http_mask", 1)
	nvox := int(size[0]) * int(size[1]) * int(size[2])
	h.c.Count("mask_voxels", nvox)
	want := make([]byte, nvox)
	nin := 0
	i := 0
	for z := int32(0); z < size[2]; z++ {
		for y := int32(0); y < size[1]; y++ {
			for x := int32(0); x < size[0]; x++ {
				if m.inside([3]int32{off[0] + x, off[1] + y, off[2] + z}) {
					want[i] = 1
					nin++
				}
				i++
			}
		}
	}
	h.c.Case(fmt.Sprintf("mask|%s|%d|%s|%v|%v", h.tag, len(h.trace), spansJSON(m.spans), size, off), nin > 0 && nin < nvox)
	cls := "positive"
	if off[0] < 0 || off[1] < 0 || off[2] < 0 {
		cls = "negative-coords" // one class whatever the span set looks like
	} else if m.overlapping() {
		cls += ":overlapping-spans"
	}
	if !rr.OK() {
		h.fail("roi:request-failed:mask:"+cls, fmt.Sprintf("GET %s (%s) -> %s", url, where, rr), nil)
		return nil
	}
	if len(rr.Body) != nvox {
		h.fail("roi:mask:size:"+cls, fmt.Sprintf("GET %s (%s) returned %d bytes for %d voxels", url, where, len(rr.Body), nvox), nil)
		return nil
	}
	i = 0
	for z := int32(0); z < size[2]; z++ {
		for y := int32(0); y < size[1]; y++ {
			for x := int32(0); x < size[0]; x++ {
				if (rr.Body[i] != 0) != (want[i] != 0) {
					gin := 0
					for _, v := range rr.Body {
						if v != 0 {
							gin++
						}
					}
					v := [3]int32{off[0] + x, off[1] + y, off[2] + z}
					h.fail("roi:mask:"+cls, fmt.Sprintf("mask (%s) size %v offset %v block size %v: voxel %v (block %v) is %d in the mask, spans %s say %d; mask has %d voxels set, model %d",
						where, size, off, m.bs, v, [3]int32{floorDiv(v[0], m.bs[0]), floorDiv(v[1], m.bs[1]), floorDiv(v[2], m.bs[2])}, rr.Body[i], spansJSON(m.spans), want[i], gin, nin),
						map[string]interface{}{"url": url, "spans": m.spans, "block_size": m.bs, "first_bad_voxel": v, "mask_set": gin, "model_set": nin})
					return nil
				}
				i++
			}
		}
	}
	return nil
}

func roiHistory(c *drv.Ctx, w *drv.Worker, cl *dvc.Client, seed int64, idx int) error {
	r := rand.New(rand.NewSource(seed))
	h := &hist{c: c, w: w, r: r, name: fmt.Sprintf("roi%d", idx), tag: fmt.Sprintf("h%d", idx)}
	root, err := cl.NewRepo("c18-" + h.tag)
	if err != nil {
		return err
	}
	cfg := map[string]string{}
	bs := [3]int32{32, 32, 32}
	switch r.Intn(4) {
	case 1:
		bs = [3]int32{16, 16, 16}
	case 2:
		bs = [3]int32{8, 8, 8}
	case 3:
		bs = [3]int32{4, 8, 16}
	}
	if bs != [3]int32{32, 32, 32} || r.Intn(2) == 0 {
		cfg["BlockSize"] = fmt.Sprintf("%d,%d,%d", bs[0], bs[1], bs[2])
	}
	versioned := r.Intn(2) == 0
	if versioned {
		cfg["versioned"] = "true"
	}
	if err := cl.NewInstance(root, "roi", h.name, cfg); err != nil {
		return err
	}
	c.Seen("roi_block_sizes", fmt.Sprint(bs))
	c.Seen("roi_versioned", fmt.Sprint(versioned))
	h.trace = append(h.trace, fmt.Sprintf("new roi %s BlockSize=%v versioned=%v", h.name, bs, versioned))
	m := newModel(bs)
	messy := r.Intn(4) == 0
	cur := root
	var parent string
	var parentModel *model
	nops := 10 + r.Intn(10)
	branchAt := -1
	if versioned && r.Intn(3) > 0 {
		branchAt = 2 + r.Intn(nops-3)
	}
	if err := h.checkGet(cur, m, "before any POST"); err != nil {
		return err
	}
	for op := 0; op < nops; op++ {
		if op == branchAt {
			if err := cl.Commit(cur); err != nil {
				return err
			}
			child, err := cl.NewVersion(cur)
			if err != nil {
				return err
			}
			parent, parentModel = cur, m.clone()
			cur = child
			h.trace = append(h.trace, "commit + newversion")
			c.Count("roi_version_steps", 1)
		}
		k := r.Intn(10)
		if op == 0 {
			k = 0
		}
		switch {
		case k < 3: // POST replaces the span set
			sp := genSpans(r, messy)
			body := spansJSON(sp)
			rr, err := w.Post("/api/node/"+cur+"/"+h.name+"/roi", []byte(body))
			if err != nil {
				return err
			}
			c.Count("http_post_roi", 1)
			h.trace = append(h.trace, "POST roi "+body)
			if !rr.OK() {
				h.fail("roi:request-failed:post", fmt.Sprintf("POST roi %s -> %s", body, rr), nil)
				return nil
			}
			m.set(sp)
			if m.overlapping() {
				c.Count("roi_posts_with_overlapping_spans", 1)
			}
			if err := h.checkGet(cur, m, "after POST"); err != nil {
				return err
			}
		case k == 3:
			rr, err := w.Delete("/api/node/" + cur + "/" + h.name + "/roi")
			if err != nil {
				return err
			}
			c.Count("http_delete_roi", 1)
			h.trace = append(h.trace, "DELETE roi")
			if !rr.OK() {
				h.fail("roi:request-failed:delete", fmt.Sprintf("DELETE roi -> %s", rr), nil)
				return nil
			}
			m.set(nil)
			if err := h.checkGet(cur, m, "after DELETE"); err != nil {
				return err
			}
		case k < 7:
			if err := h.checkPoints(cur, m, "current version"); err != nil {
				return err
			}
		default:
			if err := h.checkMask(cur, m, "current version"); err != nil {
				return err
			}
		}
	}
	if parent != "" { // the committed parent still answers from its own spans
		if err := h.checkGet(parent, parentModel, "committed parent"); err != nil {
			return err
		}
		if err := h.checkPoints(parent, parentModel, "committed parent"); err != nil {
			return err
		}
		if err := h.checkMask(parent, parentModel, "committed parent"); err != nil {
			return err
		}
	}
	if idx < 2 {
		c.Sample(map[string]interface{}{"layer": "roi-http", "history": h.trace})
	}
	return nil
}

// directed: the smallest histories around the coordinate origin (one span, one query each), so that a defect in a
// sign-dependent code path is reported with a minimal witness.
func directed(c *drv.Ctx, w *drv.Worker, cl *dvc.Client) error {
	root, err := cl.NewRepo("c18-directed")
	if err != nil {
		return err
	}
	k := 0
	for _, bsv := range []int32{32, 8} {
		for _, sp := range []span{{0, 0, 0, 0}, {0, 0, -1, -1}, {0, -1, 0, 0}, {-1, 0, 0, 0}, {-1, -1, -1, 0}} {
			k++
			h := &hist{c: c, w: w, r: rand.New(rand.NewSource(int64(k))), name: fmt.Sprintf("d%d", k), tag: fmt.Sprintf("directed%d", k)}
			if err := cl.NewInstance(root, "roi", h.name, map[string]string{"BlockSize": fmt.Sprintf("%d,%d,%d", bsv, bsv, bsv)}); err != nil {
				return err
			}
			m := newModel([3]int32{bsv, bsv, bsv})
			body := spansJSON([]span{sp})
			rr, err := w.Post("/api/node/"+root+"/"+h.name+"/roi", []byte(body))
			if err != nil {
				return err
			}
			h.trace = append(h.trace, fmt.Sprintf("new roi BlockSize=%d", bsv), "POST roi "+body)
			if !rr.OK() {
				h.fail("roi:request-failed:post", fmt.Sprintf("POST roi %s -> %s", body, rr), nil)
				continue
			}
			m.set([]span{sp})
			if err := h.checkGet(root, m, "directed"); err != nil {
				return err
			}
			// the two voxels at the low x corner of the span's first block and the two just before it
			lo := [3]int32{sp[2] * bsv, sp[1] * bsv, sp[0] * bsv}
			if err := h.maskAt(root, m, [3]int32{4, 1, 1}, [3]int32{lo[0] - 2, lo[1], lo[2]}, "directed"); err != nil {
				return err
			}
			// the last four voxels of that block along x, on its last row and slice (box strictly inside the block)
			if err := h.maskAt(root, m, [3]int32{4, 1, 1}, [3]int32{lo[0] + bsv - 4, lo[1] + bsv - 1, lo[2] + bsv - 1}, "directed"); err != nil {
				return err
			}
			if err := h.pointsAt(root, m, [][3]int32{{lo[0] - 1, lo[1], lo[2]}, lo, {lo[0], lo[1] - 1, lo[2]}, {lo[0], lo[1], lo[2] - 1}, {lo[0] + bsv - 1, lo[1] + bsv - 1, lo[2] + bsv - 1}, {lo[0] + bsv, lo[1], lo[2]}}, "directed"); err != nil {
				return err
			}
		}
	}
	return nil
}

func roiHTTP(c *drv.Ctx) error {
	defer flushAggs(c)
	bin, err := c.Build("dvidw", "")
	if err != nil {
		return err
	}
	n := c.N(30, 600)
	seeds := make([]int64, n)
	for i := range seeds {
		seeds[i] = c.Rand.Int63()
	}
	nw := 1
	if !c.Quick() {
		nw = 4
	}
	var wg sync.WaitGroup
	errs := make(chan error, nw)
	jobs := make(chan int, n)
	for i := 0; i < n; i++ {
		jobs <- i
	}
	close(jobs)
	for wi := 0; wi < nw; wi++ {
		wg.Add(1)
		go func(wi int) {
			defer wg.Done()
			dir, err := c.NewDataDir(fmt.Sprintf("roi%d", wi), drv.ConfOpts{})
			if err != nil {
				errs <- err
				return
			}
			w, err := drv.StartWorker(bin, dir, drv.StartOpts{})
			if err != nil {
				errs <- err
				return
			}
			defer w.Kill()
			cl := &dvc.Client{W: w}
			if wi == 0 {
				if err := directed(c, w, cl); err != nil {
					errs <- fmt.Errorf("directed roi histories: %v; stderr: %s", err, drv.FatalInStderr(w.Stderr()))
					return
				}
			}
			for i := range jobs {
				if err := roiHistory(c, w, cl, seeds[i], i); err != nil {
					errs <- fmt.Errorf("roi history %d: %v; stderr: %s", i, err, drv.FatalInStderr(w.Stderr()))
					return
				}
				c.Count("roi_histories", 1)
			}
		}(wi)
	}
	wg.Wait()
	close(errs)
	for e := range errs {
		return e
	}
	return nil
}

func run(c *drv.Ctx) error {
	c.Rule("keys: every point over the boundary set {MinInt32,-2^20,-2^20+1,-1,0,1,2^20-1,MaxInt32}^3 and all 512^2 ordered pairs of them, plus random points/pairs (independent, +-1 neighbours, same z, same z,y); " +
		"a key case is one encode/decode through all codec entry points, an order case one pair (non-trivial when the two points differ). " +
		"packed: 15^3 edge points of the documented range and random points with |coord| < 2^20 (non-trivial = inside the documented range). " +
		"rle: random sets of non-overlapping runs (unsorted, adjacent pieces, single voxels, runs crossing several blocks, negative coordinates, starts/ends exactly on block edges), block sizes from {1,2,3,4,5,8,16,32}^3; " +
		"one case per (run set, operation, parameters) for Normalize, Partition, Split(subset), FitToBounds, Add, binary forms, single-run Excise/Intersects/Within; non-trivial when the operation has a visible effect " +
		"(Normalize changes the list, Partition yields more fragments than runs, Split removes some but not all voxels, the bounds cut some but not all voxels, Add overlaps the receiver); overlapping/degenerate runs are crash-only (trivial). " +
		"roi: package function VoxelBoundsInside against a block model; HTTP histories on roi instances (block sizes 32/16/8/4x8x16, versioned and unversioned, optional commit+newversion): POST roi (replace), GET roi, DELETE roi, " +
		"POST ptquery (points in, on the corners of, one step outside and far from ROI blocks), GET mask (boxes around ROI blocks, negative offsets included); a query case is non-trivial when its expected answer mixes inside and outside")
	c.Assume("set preservation is demanded for non-overlapping runs only, as the statement says; overlapping or non-positive-length runs are exercised for crash-freedom only")
	c.Assume("Normalize's sorted/merged canonical form, Add's voxelsAdded return value, BlockRLEs.NumVoxels and receiver aliasing are observed and counted, not judged (the statement speaks of the voxel set)")
	c.Assume("ROI membership of a set of (possibly overlapping or duplicate) spans is the union of their blocks; GET roi is compared with the posted spans sorted by (z,y,x0,x1) with exact duplicates removed (the span is the storage key)")
	c.Assume("packed block index: only |coord| < 2^20 is claimed (documented range); values outside are run for crash-freedom")

	wd := 5 * time.Minute
	if !c.Quick() {
		wd = 28 * time.Minute
	}
	flavours := []string{"", "race"}
	for _, f := range flavours {
		if _, err := c.Build("probe-c18", f); err != nil {
			return err
		}
	}
	errs := make([]error, len(flavours)+1)
	var wg sync.WaitGroup
	wg.Add(1)
	go func() {
		defer wg.Done()
		errs[len(flavours)] = roiHTTP(c)
	}()
	if os.Getenv("VERIF_REPO") != "" {
		wg.Wait() // Build writes the alternative modfile: keep builds strictly sequential in sensitivity mode
		for i, f := range flavours {
			errs[i] = c.RunProbe("probe-c18", f, nil, wd, "")
		}
	} else {
		for i, f := range flavours {
			wg.Add(1)
			go func(i int, f string) {
				defer wg.Done()
				errs[i] = c.RunProbe("probe-c18", f, nil, wd, "")
			}(i, f)
		}
		wg.Wait()
	}
	for _, e := range errs {
		if e != nil {
			return e
		}
	}
	return nil
}
