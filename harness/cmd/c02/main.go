// C02 — committed versions are immutable.
// Oracles: (1) self-calibrating gate differential: the same well-formed request is sent to a fresh open
// version and to a committed version holding identical data; whatever it does to the open one, the
// committed one must read back unchanged, no store write / log append may carry its version id, and a
// request that did change the open one must be refused on the committed one (default mode);
// (2) write auditor on every workload; (3) read stability of committed versions under later histories and restarts.
package main

import (
	"encoding/json"
	"fmt"
	"math/rand"
	"os"
	"path/filepath"
	"regexp"
	"sort"
	"strconv"
	"strings"
	"sync"

	"verif/harness/internal/drv"
	"verif/harness/internal/dvc"
	"verif/harness/internal/mixed"
)

func main() { drv.Main("C02", "exploration", run) }

type entry struct {
	inst   string // instance name ("" = node-level route)
	method string
	path   string // after /api/node/<uuid>/<inst>/  (or after /api/node/<uuid>/ for node-level)
	body   []byte
	class  string // catalogue | scanned
	mustOK bool   // branch/newversion/tag: must stay allowed on a committed node
}

func jb(v interface{}) []byte { b, _ := json.Marshal(v); return b }

// scanKeywords finds the `case "<keyword>"` arms of every data type package in /repo's current tree.
func scanKeywords() map[string][]string {
	out := map[string][]string{}
	re := regexp.MustCompile(`case "([a-z0-9_-]+)"`)
	for _, t := range []string{"keyvalue", "labelmap", "annotation", "labelsz", "neuronjson", "roi", "imageblk"} {
		files, _ := filepath.Glob(filepath.Join(drv.RepoDir, "datatype", t, "*.go"))
		seen := map[string]bool{}
		for _, f := range files {
			if strings.HasSuffix(f, "_test.go") {
				continue
			}
			b, err := os.ReadFile(f)
			if err != nil {
				continue
			}
			for _, m := range re.FindAllStringSubmatch(string(b), -1) {
				seen[m[1]] = true
			}
		}
		for k := range seen {
			out[t] = append(out[t], k)
		}
		sort.Strings(out[t])
	}
	return out
}

var typeOf = map[string]string{"kv": "keyvalue", "lm": "labelmap", "syn": "annotation", "lsz": "labelsz", "nj": "neuronjson", "roi": "roi", "img": "imageblk"}

func catalogue(wd *mixed.World, at string, r *rand.Rand) []entry {
	var es []entry
	for _, e := range wd.Catalogue(at) {
		es = append(es, entry{inst: e.Inst, method: e.Method, path: e.Path, body: e.Body, class: "catalogue"})
	}
	return es
}

func known(es []entry) map[string]bool {
	m := map[string]bool{}
	for _, e := range es {
		kw := e.path
		if i := strings.IndexAny(kw, "/?"); i > 0 {
			kw = kw[:i]
		}
		m[typeOf[e.inst]+":"+kw] = true
	}
	return m
}

type gateEnv struct {
	c      *drv.Ctx
	w      *drv.Worker
	wd     *mixed.World
	mode   string // default | fullwrite | readonly | admintoken | after-readonly-toggle
	cm     string // committed node
	root   string
	vids   map[string]uint32
	fixedO string // read-only mode: nothing can change, one open version (created before the switch) serves all probes
}

func (g *gateEnv) refreshVIDs() error {
	repos, _, err := g.wd.C.Repos()
	if err != nil {
		return err
	}
	g.vids = map[string]uint32{}
	for _, ri := range repos {
		if ri != nil {
			for u, n := range ri.DAG.Nodes {
				g.vids[u] = n.VersionID
			}
		}
	}
	return nil
}

// versioned reports whether a snapshot URL is versioned content of version u (not instance-wide settings).
func versionedURL(url, u string) bool {
	if !strings.Contains(url, "/api/node/"+u+"/") {
		return false
	}
	for _, suffix := range []string{"/info", "/nextlabel", "/maxlabel"} {
		if strings.HasSuffix(strings.SplitN(url, " ", 2)[0], suffix) {
			return false
		}
	}
	return true
}

func diffAt(a, b *mixed.Snap, u string) []string {
	var out []string
	for k, v := range a.M {
		if !versionedURL(k, u) {
			continue
		}
		if w, ok := b.M[k]; ok && w != v {
			out = append(out, fmt.Sprintf("%s: %s => %s", strings.Replace(k, u, "<V>", 1), drv.Trunc(v, 120), drv.Trunc(w, 120)))
		}
	}
	sort.Strings(out)
	return out
}

func (g *gateEnv) one(e entry, idx int) error {
	c, w, wd := g.c, g.w, g.wd
	// fresh open version O holding the same data as the committed one
	o := g.fixedO
	if o == "" {
		var err error
		o, err = wd.H.BranchOf(g.root)
		if err != nil {
			return fmt.Errorf("branch for gate probe: %v", err)
		}
		wd.Fork(g.root, o)
		if err := g.refreshVIDs(); err != nil {
			return err
		}
	}
	url := func(u string) string {
		p := "/api/node/" + u + "/"
		if e.inst != "" {
			p += e.inst + "/"
		}
		p += e.path
		if g.mode == "admintoken" {
			if strings.Contains(p, "?") {
				p += "&admintoken=sesame"
			} else {
				p += "?admintoken=sesame"
			}
		}
		return p
	}
	vs := []string{o, g.cm}
	// only the sync group of the addressed instance can change (C06 covers cross-instance isolation)
	switch e.inst {
	case "kv", "nj", "roi", "img":
		wd.SnapTypes = map[string]bool{e.inst: true}
	case "lm", "syn", "lsz":
		wd.SnapTypes = map[string]bool{"lm": true, "ann": true}
	default:
		wd.SnapTypes = map[string]bool{"kv": true}
	}
	defer func() { wd.SnapTypes = nil }()
	before, err := wd.Snapshot(vs)
	if err != nil {
		return err
	}
	w.Audit()
	rO, err := w.HTTP(e.method, url(o), e.body)
	if err != nil {
		return fmt.Errorf("%s %s on open node: %v; %s", e.method, e.path, err, drv.FatalInStderr(w.Stderr()))
	}
	if err := w.Settle(); err != nil {
		return err
	}
	w.Audit()
	rC, err := w.HTTP(e.method, url(g.cm), e.body)
	if err != nil {
		return fmt.Errorf("%s %s on committed node: %v; %s", e.method, e.path, err, drv.FatalInStderr(w.Stderr()))
	}
	if err := w.Settle(); err != nil {
		return err
	}
	evs, _ := w.Audit()
	after, err := wd.Snapshot(vs)
	if err != nil {
		return err
	}
	chO := diffAt(before, after, o)
	chC := diffAt(before, after, g.cm)
	var stamped []string
	cv := g.vids[g.cm]
	for _, ev := range evs {
		if ev.Space == "data" && ev.Ver == cv && cv != 0 {
			stamped = append(stamped, fmt.Sprintf("%s inst=%d class=%d tkey=%s", ev.Op, ev.Inst, ev.Class, drv.Trunc(ev.TKey, 24)))
		}
		if ev.Space == "log" && strings.HasSuffix(ev.Log, "/"+g.cm) {
			stamped = append(stamped, "logappend "+ev.Log)
		}
	}
	kw := e.path
	if i := strings.IndexAny(kw, "/?"); i > 0 {
		kw = kw[:i]
	}
	tname := typeOf[e.inst]
	if e.inst == "" {
		tname = "node"
	}
	id := fmt.Sprintf("%s:%s:%s", tname, kw, e.method)
	c.Case(fmt.Sprintf("gate|%s|%s|%s|%d", g.mode, id, e.path, idx), len(chO) > 0)
	c.Seen("gate_routes_"+g.mode, id)
	c.Count("gate_requests", 2)
	if len(chO) > 0 {
		c.Seen("routes_observed_to_mutate", id)
	}
	wit := map[string]interface{}{"mode": g.mode, "method": e.method, "path": e.path, "instance": e.inst, "open_response": rO.String(), "committed_response": rC.String(),
		"open_changes": head(chO, 4), "committed_changes": head(chC, 4), "writes_at_committed_version": head(stamped, 4), "setup_trace": tail(wd.Trace, 12)}
	allowed := g.mode == "fullwrite" || g.mode == "admintoken"
	switch {
	case allowed:
		// negative control: the differential really sees changes when mutation is allowed
		if len(chO) > 0 && rO.OK() {
			if rC.OK() && len(chC) > 0 {
				c.Count("control_mutations_seen_on_committed", 1)
			} else if !rC.OK() {
				c.Count("control_refused_although_allowed", 1)
			}
		}
	case g.mode == "readonly":
		if rO.OK() && e.method != "GET" && e.method != "HEAD" {
			c.Violation("readonly:accepted:"+id, fmt.Sprintf("read-only server answered %s to %s %s on an open node", rO, e.method, e.path), wit)
		}
		if len(chO) > 0 || len(chC) > 0 || len(stamped) > 0 {
			c.Violation("readonly:data-changed:"+id, fmt.Sprintf("read-only server changed data on %s %s: open %v committed %v writes %v", e.method, e.path, head(chO, 2), head(chC, 2), head(stamped, 2)), wit)
		}
	default:
		if len(chC) > 0 {
			c.Violation("committed-data-changed:"+id, fmt.Sprintf("[%s] %s %s on a committed version changed what it returns: %s (response %s)", g.mode, e.method, e.path, strings.Join(head(chC, 3), " || "), rC), wit)
		}
		if len(stamped) > 0 {
			c.Violation("write-at-committed-version:"+id, fmt.Sprintf("[%s] %s %s on a committed version issued store writes stamped with that version: %s (response %s)", g.mode, e.method, e.path, strings.Join(head(stamped, 3), "; "), rC), wit)
		}
		if len(chO) > 0 && rO.OK() && rC.OK() && !e.mustOK {
			c.Violation("mutation-acknowledged-on-committed:"+id, fmt.Sprintf("[%s] %s %s changed the open version and was answered %s on the committed version instead of being refused", g.mode, e.method, e.path, rC), wit)
		}
		if e.mustOK && !rC.OK() {
			c.Violation("child-creation-refused:"+id, fmt.Sprintf("[%s] %s %s must stay allowed on a committed version but was answered %s", g.mode, e.method, e.path, rC), wit)
		}
	}
	return nil
}

func head(s []string, n int) []string {
	if len(s) > n {
		return s[:n]
	}
	return s
}
func tail(s []string, n int) []string {
	if len(s) > n {
		return s[len(s)-n:]
	}
	return s
}

func gate(c *drv.Ctx, bin string, seed int64, mode string, scanned map[string][]string) error {
	r := rand.New(rand.NewSource(seed))
	conf := drv.ConfOpts{}
	so := drv.StartOpts{}
	switch mode {
	case "fullwrite":
		conf.RWMode = "fullwrite"
	case "admintoken":
		so.AdminToken = "sesame"
	}
	dir, err := c.NewDataDir("gate-"+mode, conf)
	if err != nil {
		return err
	}
	w, err := drv.StartWorker(bin, dir, so)
	if err != nil {
		return err
	}
	defer func() { w.Kill() }()
	wd, err := mixed.New(w, r, mixed.Opts{Tag: "g" + mode, NoMerge: true})
	if err != nil {
		return fmt.Errorf("setup: %v", err)
	}
	root := wd.Root
	// populate the root with content of every type (the root is the only open version, so every step lands there)
	for i := 0; i < 40; i++ {
		if len(wd.H.D.Order) > 1 {
			break
		}
		if wd.R.Intn(100) < 0 {
			continue
		}
		u := wd.OpenDataNodes()
		if len(u) == 0 {
			break
		}
		// avoid DAG steps during population: call type steps through Step but undo nothing; DAG steps simply end population
		if d, err := wd.Step(); err != nil {
			return fmt.Errorf("populate %s: %v", d, err)
		}
	}
	if len(wd.H.D.Order) > 1 {
		// population ended by a DAG op: use the root only if it is committed, else commit it
	}
	if !wd.H.D.Nodes[root].Locked {
		if err := wd.H.CommitNode(root); err != nil {
			return err
		}
	}
	if err := w.Settle(); err != nil {
		return err
	}
	cm, err := wd.H.BranchOf(root)
	if err != nil {
		return err
	}
	wd.Fork(root, cm)
	if err := wd.H.CommitNode(cm); err != nil {
		return err
	}
	g := &gateEnv{c: c, w: w, wd: wd, mode: mode, cm: cm, root: root}
	if mode == "readonly" {
		o, err := wd.H.BranchOf(root)
		if err != nil {
			return err
		}
		wd.Fork(root, o)
		g.fixedO = o
		if err := g.refreshVIDs(); err != nil {
			return err
		}
		if err := w.SetMode("readonly-on"); err != nil {
			return err
		}
	}
	if mode == "after-readonly-toggle" {
		// what the transfer-data RPC does around the transfer
		w.SetMode("readonly-on")
		w.SetMode("readonly-off")
	}
	es := catalogue(wd, root, r)
	kn := known(es)
	if mode == "default" {
		// HTTP method tokens are case-sensitive on the wire, but the data types dispatch on the lower-cased method:
		// "post" / "Delete" reach the same mutation code and must meet the same refusal on a committed version
		for _, e := range append([]entry{}, es...) {
			v := e
			v.method, v.class = strings.ToLower(e.method), "catalogue-lowercase-method"
			es = append(es, v)
			if !c.Quick() {
				v.method, v.class = e.method[:1]+strings.ToLower(e.method[1:]), "catalogue-titlecase-method"
				es = append(es, v)
			}
		}
	}
	// scanned keywords without a catalogue payload get generic bodies
	for inst, t := range typeOf {
		if c.Quick() && mode != "default" {
			break
		}
		for _, kw := range scanned[t] {
			if kn[t+":"+kw] {
				continue
			}
			switch kw {
			case "get", "post", "put", "delete", "head", "help", "info", "sync", "tags", "extents", "resolution", "metadata", "gzip", "lz4", "uncompressed", "google", "srles", "xy", "xz", "yz", "0", "user", "time", "local", "remote", "jpg", "png":
				continue // HTTP verbs, format names, or instance-wide (unversioned) settings
			}
			for _, m := range []string{"POST", "DELETE"} {
				es = append(es, entry{inst: inst, method: m, path: kw, body: []byte(`{}`), class: "scanned"})
				if !c.Quick() {
					es = append(es, entry{inst: inst, method: m, path: kw + "/1", body: []byte(`[1,2]`), class: "scanned"})
				}
			}
		}
	}
	// child creation on a committed node must stay allowed (last: they add children)
	if mode != "readonly" {
		es = append(es, entry{method: "POST", path: "branch", body: jb(map[string]string{"branch": "gate-child-" + mode}), class: "catalogue", mustOK: true})
		es = append(es, entry{method: "POST", path: "tag", body: jb(map[string]string{"tag": "gatetag" + mode}), class: "catalogue", mustOK: true})
		es = append(es, entry{method: "POST", path: "newversion", body: []byte(`{"note":"nv"}`), class: "catalogue", mustOK: true})
	}
	for i, e := range es {
		if err := g.one(e, i); err != nil {
			return fmt.Errorf("[%s] entry %s %s/%s: %v", mode, e.method, e.inst, e.path, err)
		}
	}
	c.Count("gate_entries_"+mode, len(es))
	if mode == "default" {
		c.Sample(map[string]interface{}{"mode": mode, "entries": len(es), "example": fmt.Sprintf("%s %s/%s", es[5].method, es[5].inst, es[5].path)})
	}
	return nil
}

// stability: committed versions read back identically after later histories and restarts.
func stability(c *drv.Ctx, bin string, seed int64, idx int) error {
	r := rand.New(rand.NewSource(seed))
	dir, err := c.NewDataDir(fmt.Sprintf("stab%d", idx), drv.ConfOpts{LabelCacheMB: 16 * (idx % 2)})
	if err != nil {
		return err
	}
	w, err := drv.StartWorker(bin, dir, drv.StartOpts{})
	if err != nil {
		return err
	}
	defer func() { w.Kill() }()
	// every second history concentrates on two or three data types, so that their rarer operations (schema documents,
	// renumber, roi delete, ...) recur on both sides of a commit within one history
	opts := mixed.Opts{Tag: fmt.Sprintf("s%d", idx)}
	if idx%2 == 1 {
		opts.Types = [][]string{{"nj", "kv"}, {"lm", "ann"}, {"roi", "img", "kv"}, {"nj", "lm"}}[(idx/2)%4]
	}
	wd, err := mixed.New(w, r, opts)
	if err != nil {
		return err
	}
	base := map[string]*mixed.Snap{}
	hints := map[string]*mixed.Hints{}
	vids := map[string]uint32{}
	steps := c.N(45, 90)
	for i := 0; i < steps; i++ {
		w.Audit()
		d, err := wd.Step()
		if err != nil {
			return fmt.Errorf("step %s: %v; %s", d, err, drv.FatalInStderr(w.Stderr()))
		}
		if err := w.Settle(); err != nil {
			return err
		}
		evs, _ := w.Audit()
		// write auditor: no store write may carry the version id of a committed version
		for _, ev := range evs {
			if ev.Space != "data" || ev.Ver == 0 {
				continue
			}
			for u, v := range vids {
				if v == ev.Ver && base[u] != nil {
					c.Violation("auditor:write-at-committed-version:"+strings.Fields(d + " x")[0], fmt.Sprintf("after %q a store write (%s inst=%d class=%d) carries the version id %d of committed version %s", d, ev.Op, ev.Inst, ev.Class, v, wd.H.Short(u)),
						map[string]interface{}{"seed": seed, "trace": tail(wd.Trace, 30)})
				}
			}
		}
		c.Count("audited_writes", len(evs))
		// new commits get a baseline
		for _, u := range wd.H.D.Committed() {
			if base[u] == nil {
				hints[u] = wd.CurrentHints()
				s, err := wd.SnapshotH([]string{u}, hints[u])
				if err != nil {
					return err
				}
				base[u] = s
				repos, _, err := wd.C.Repos()
				if err == nil {
					for _, ri := range repos {
						if ri != nil {
							for uu, n := range ri.DAG.Nodes {
								vids[uu] = n.VersionID
							}
						}
					}
				}
			}
		}
		check := i%9 == 8 || i == steps-1
		if i == steps/2 {
			mode := []string{"clean", "sigkill"}[r.Intn(2)]
			if mode == "clean" {
				w.Exit("clean")
			} else {
				w.Kill()
			}
			w2, err := drv.StartWorker(bin, dir, drv.StartOpts{})
			if err != nil {
				return fmt.Errorf("restart: %v", err)
			}
			w = w2
			wd.W, wd.C.W = w2, w2
			check = true
			c.Count("restarts", 1)
		}
		if check {
			var us []string
			for u := range base {
				us = append(us, u)
			}
			sort.Strings(us)
			for _, u := range us {
				now, err := wd.SnapshotH([]string{u}, hints[u])
				if err != nil {
					return err
				}
				ds := diffAt(base[u], now, u)
				c.Case(fmt.Sprintf("stability|%d|%d|%s", idx, i, wd.H.Short(u)), len(wd.H.D.Nodes[u].Children) > 0)
				c.Count("stability_urls_compared", len(now.M))
				if len(ds) > 0 {
					fam := ds[0]
					if j := strings.Index(fam, ": "); j > 0 {
						fam = fam[:j]
					}
					parts := strings.Split(fam, "/")
					if len(parts) >= 6 {
						fam = parts[4] + "/" + strings.SplitN(parts[5], "?", 2)[0]
					}
					c.Violation("committed-read-changed:"+strings.SplitN(fam, " ", 2)[0], fmt.Sprintf("committed version %s no longer reads as at commit time (%d urls) after %q: %s", wd.H.Short(u), len(ds), d, strings.Join(head(ds, 3), " || ")),
						map[string]interface{}{"seed": seed, "trace": tail(wd.Trace, traceLen()), "diffs": head(ds, 6)})
					base[u] = now
				}
			}
		}
	}
	if idx == 0 {
		c.Sample(map[string]interface{}{"stability_history": idx, "committed_versions_tracked": len(base), "last_ops": tail(wd.Trace, 8)})
	}
	return nil
}

func run(c *drv.Ctx) error {
	c.Rule("gate differential: every catalogued well-formed mutation (payloads built from live state) and every `case \"keyword\"` arm found in /repo's data type packages (generic bodies) x POST/PUT/DELETE is sent to a fresh open version and to a committed version with identical data, in modes default / admin token / full-write (controls) / read-only / after the read-only toggle used by the transfer-data RPC; " +
		"the committed version's versioned reads must not change, no store write or log append may carry its version id, a request that changed the open version must be refused on the committed one, branch/newversion/tag must stay allowed; " +
		"stability: mixed histories with a baseline snapshot of every version at commit time re-read after later operations and a restart, with a write auditor on every step; " +
		"a gate case is non-trivial when the request changed the open version; a stability case when the committed version has children")
	c.Assume("instance-wide settings (info, extents, resolution, sync, tags, next-label counter) are not versioned content and are excluded from the immutability comparison")
	bin, err := c.Build("dvidw", "")
	if err != nil {
		return err
	}
	if s := os.Getenv("C02_STAB_SEED"); s != "" { // debugging aid: one stability history with the seed of a witness
		seed, _ := strconv.ParseInt(s, 10, 64)
		idx, _ := strconv.Atoi(os.Getenv("C02_STAB_IDX"))
		return stability(c, bin, seed, idx)
	}
	scanned := scanKeywords()
	n := 0
	for _, ks := range scanned {
		n += len(ks)
	}
	c.Count("keywords_scanned_from_source", n)
	var wg sync.WaitGroup
	var mu sync.Mutex
	var errs []string
	run1 := func(f func() error) {
		wg.Add(1)
		go func() {
			defer wg.Done()
			if err := f(); err != nil {
				mu.Lock()
				errs = append(errs, err.Error())
				mu.Unlock()
			}
		}()
	}
	for _, mode := range []string{"default", "fullwrite", "admintoken", "readonly", "after-readonly-toggle"} {
		mode := mode
		seed := c.Rand.Int63()
		run1(func() error { return gate(c, bin, seed, mode, scanned) })
	}
	run1(func() error { return directedResolve(c, bin) })
	ns := c.N(6, 60)
	sem := make(chan struct{}, 6)
	for i := 0; i < ns; i++ {
		i := i
		seed := c.Rand.Int63()
		run1(func() error {
			sem <- struct{}{}
			defer func() { <-sem }()
			return stability(c, bin, seed, i)
		})
	}
	wg.Wait()
	if len(errs) > 0 {
		sort.Strings(errs)
		return fmt.Errorf("%s", drv.Trunc(strings.Join(errs, " | "), 3000))
	}
	_ = dvc.Absent
	return nil
}

func traceLen() int {
	if os.Getenv("VERIF_FULLTRACE") != "" {
		return 100000
	}
	return 40
}
