package main

import (
	"fmt"
	"strings"

	"verif/harness/internal/drv"
	"verif/harness/internal/dvc"
)

// directedResolve: repo-level requests that work on committed versions by design.  POST resolve deletes the losing
// copies of conflicting keys "in a new child of the parent", never in the committed parent itself.  The request names
// several data instances and several parents; every combination of (which instance holds a conflict, which parent loses)
// below must leave every committed version reading as before, and no store write may carry a committed version's id.
func directedResolve(c *drv.Ctx, bin string) error {
	dir, err := c.NewDataDir("directed-resolve", drv.ConfOpts{})
	if err != nil {
		return err
	}
	w, err := drv.StartWorker(bin, dir, drv.StartOpts{})
	if err != nil {
		return err
	}
	defer w.Kill()
	cl := &dvc.Client{W: w}
	// conflict pattern per instance: which of the instances named in the request hold a conflicting key
	for ci, pattern := range [][]bool{{true}, {false, true}, {true, true}, {false, false, true}, {true, false, true}} {
		root, err := cl.NewRepo(fmt.Sprintf("resolve-%d", ci))
		if err != nil {
			return err
		}
		var names []string
		for i := range pattern {
			n := fmt.Sprintf("kv%c", 'a'+i)
			names = append(names, n)
			if err := cl.NewInstance(root, "keyvalue", n, nil); err != nil {
				return err
			}
		}
		post := func(u, inst, k, v string) error {
			r, err := w.Post("/api/node/"+u+"/"+inst+"/key/"+k, []byte(v))
			if err != nil {
				return err
			}
			if !r.OK() {
				return fmt.Errorf("POST %s/key/%s at %s: %s", inst, k, u[:8], r)
			}
			return nil
		}
		for _, n := range names {
			if err := post(root, n, "x", "root"); err != nil {
				return err
			}
			if err := post(root, n, "stay", "root"); err != nil {
				return err
			}
		}
		if err := cl.Commit(root); err != nil {
			return err
		}
		b1, err := cl.Branch(root, fmt.Sprintf("p%d-1", ci))
		if err != nil {
			return err
		}
		b2, err := cl.Branch(root, fmt.Sprintf("p%d-2", ci))
		if err != nil {
			return err
		}
		for i, n := range names {
			if pattern[i] { // both parents write x: a conflict the resolve has to settle (b1 is listed first and wins)
				if err := post(b1, n, "x", "b1"); err != nil {
					return err
				}
				if err := post(b2, n, "x", "b2"); err != nil {
					return err
				}
			} else if err := post(b1, n, "only1", "b1"); err != nil {
				return err
			}
		}
		if err := cl.Commit(b1); err != nil {
			return err
		}
		if err := cl.Commit(b2); err != nil {
			return err
		}
		read := func() (map[string]string, error) {
			out := map[string]string{}
			for _, u := range []string{root, b1, b2} {
				for _, n := range names {
					for _, k := range []string{"x", "stay", "only1"} {
						r, err := w.Get("/api/node/" + u + "/" + n + "/key/" + k)
						if err != nil {
							return nil, err
						}
						out[u+" "+n+"/"+k] = fmt.Sprintf("%d|%s", r.Status, drv.Trunc(string(r.Body), 40))
					}
					r, err := w.Get("/api/node/" + u + "/" + n + "/keys")
					if err != nil {
						return nil, err
					}
					out[u+" "+n+"/keys"] = fmt.Sprintf("%d|%s", r.Status, drv.Trunc(string(r.Body), 80))
				}
			}
			return out, nil
		}
		before, err := read()
		if err != nil {
			return err
		}
		repos, _, err := cl.Repos()
		if err != nil {
			return err
		}
		vids := map[uint32]string{}
		for u, n := range repos[root].DAG.Nodes {
			vids[n.VersionID] = u
		}
		w.Audit()
		rr, err := w.Post("/api/repo/"+root+"/resolve", jb(map[string]interface{}{"data": names, "parents": []string{b1, b2}, "note": "directed"}))
		if err != nil {
			return err
		}
		evs, _ := w.Audit()
		desc := fmt.Sprintf("POST resolve data=%v parents=[b1 b2] (conflict in %v)", names, pattern)
		c.Case(fmt.Sprintf("directed-resolve|%v", pattern), true)
		c.Count("directed_resolve_requests", 1)
		c.Count("audited_writes", len(evs))
		wit := map[string]interface{}{"instances": names, "conflict_in": pattern, "response": rr.String()}
		for _, ev := range evs {
			if ev.Space != "data" || ev.Ver == 0 {
				continue
			}
			if u, ok := vids[ev.Ver]; ok {
				name := map[string]string{root: "root", b1: "b1", b2: "b2"}[u]
				c.Violation("auditor:write-at-committed-version:resolve", fmt.Sprintf("%s (answered %d): a store write (%s inst=%d tombstone=%v) carries the version id %d of the committed parent %s", desc, rr.Status, ev.Op, ev.Inst, ev.Tomb, ev.Ver, name), wit)
				break
			}
		}
		after, err := read()
		if err != nil {
			return err
		}
		var ds []string
		for k, v := range before {
			if after[k] != v {
				u := strings.SplitN(k, " ", 2)
				name := map[string]string{root: "root", b1: "b1", b2: "b2"}[u[0]]
				ds = append(ds, fmt.Sprintf("%s %s: %s => %s", name, u[1], v, after[k]))
			}
		}
		if len(ds) > 0 {
			c.Violation("committed-read-changed:resolve", fmt.Sprintf("%s (answered %d) changed what committed versions return: %s", desc, rr.Status, strings.Join(head(ds, 4), " || ")), wit)
		}
	}
	return nil
}
