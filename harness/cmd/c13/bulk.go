package main

import (
	"encoding/json"
	"fmt"
	"path/filepath"
	"sort"
	"time"

	"verif/harness/internal/drv"
	"verif/harness/internal/dvc"
)

// bulkTagReload: the tag view after POST reload must be the tag view of the stored elements, also when there are far
// more tagged elements than the reload keeps in memory between two writes (the low-memory reload flushes its collected
// tag lists whenever they pass 1000 entries).  1200 elements over 40 blocks, every one tagged "big", some tagged "edge"
// and a per-block tag; both reload variants; tag/<t> is compared with the tag membership read from all-elements.
func bulkTagReload(c *drv.Ctx, bin string) error {
	dir, err := c.NewDataDir("bulktags", drv.ConfOpts{})
	if err != nil {
		return err
	}
	w, err := drv.StartWorker(bin, dir, drv.StartOpts{})
	if err != nil {
		return err
	}
	defer w.Kill()
	lw := &logWatch{path: filepath.Join(dir, "dvid.log")}
	cl := &dvc.Client{W: w}
	root, err := cl.NewRepo("c13-bulk")
	if err != nil {
		return err
	}
	if err := cl.NewInstance(root, "annotation", "syn", nil); err != nil {
		return err
	}
	base := "/api/node/" + root + "/syn/"
	type el struct {
		Pos  [3]int
		Kind string
		Tags []string
		Prop map[string]string
	}
	blocks := map[string][]el{}
	want := map[string]map[[3]int]bool{}
	note := func(t string, p [3]int) {
		if want[t] == nil {
			want[t] = map[[3]int]bool{}
		}
		want[t][p] = true
	}
	n := 0
	for b := 0; b < 40; b++ {
		bx, by, bz := b%5-2, (b/5)%4-1, b/20 // block coordinates, some negative
		for i := 0; i < 30; i++ {
			p := [3]int{bx*64 + 1 + i, by*64 + 2 + (i*7)%60, bz*64 + 3 + (i*13)%60}
			tags := []string{"big", fmt.Sprintf("blk%d", b%7)}
			if i%20 == 0 {
				tags = append(tags, "edge")
			}
			for _, t := range tags {
				note(t, p)
			}
			k := fmt.Sprintf("%d,%d,%d", bx, by, bz)
			blocks[k] = append(blocks[k], el{Pos: p, Kind: "Note", Tags: tags, Prop: map[string]string{}})
			n++
		}
	}
	body, _ := json.Marshal(blocks)
	if r, err := w.Post(base+"blocks", body); err != nil || !r.OK() {
		return fmt.Errorf("POST blocks (%d elements): %v %v", n, r, err)
	}
	for _, variant := range []struct{ query, marker, name string }{{"?inmemory=false", "Completed asynchronous annotation", "low-memory"}, {"", "Finished denormalization of", "in-memory"}} {
		lw.mark()
		r, err := w.Post(base+"reload"+variant.query, nil)
		if err != nil {
			return err
		}
		if !r.OK() {
			c.Violation("refused:reload:bulk", fmt.Sprintf("POST reload%s answered %s", variant.query, r), nil)
			return nil
		}
		if !lw.wait(variant.marker, 120*time.Second) {
			c.Inconclusive("bulk tag reload (" + variant.name + ") did not log completion within 120 s")
			return nil
		}
		for i := 0; i < 400; i++ { // POSTs are refused while a reload runs
			if r, err = w.Post(base+"elements", []byte("[]")); err != nil {
				return err
			}
			if r.OK() {
				break
			}
			time.Sleep(10 * time.Millisecond)
		}
		if err := w.Settle(); err != nil {
			return err
		}
		var tags []string
		for t := range want {
			tags = append(tags, t)
		}
		sort.Strings(tags)
		for _, t := range tags {
			rr, err := w.Get(base + "tag/" + t)
			if err != nil {
				return err
			}
			var got []el
			json.Unmarshal(rr.Body, &got)
			have := map[[3]int]bool{}
			for _, e := range got {
				have[e.Pos] = true
			}
			missing, extra := 0, 0
			for p := range want[t] {
				if !have[p] {
					missing++
				}
			}
			for p := range have {
				if !want[t][p] {
					extra++
				}
			}
			c.Case(fmt.Sprintf("bulk-reload|%s|tag/%s|%d", variant.name, t, len(want[t])), true)
			c.Count("bulk_reload_tag_views_compared", 1)
			if missing > 0 || extra > 0 {
				c.Violation("tag-view-after-reload:bulk:"+variant.name, fmt.Sprintf("%d elements in 40 blocks stored with POST blocks, then POST reload%s: GET tag/%s returns %d elements, %d of the %d stored elements with that tag are missing and %d are listed that do not carry it",
					n, variant.query, t, len(got), missing, len(want[t]), extra), map[string]interface{}{"variant": variant.name, "tag": t, "expected": len(want[t]), "returned": len(got)})
			}
		}
	}
	return nil
}
