// C13 — annotation indexes are views of one element set, synced with labels.
//
// Oracle: internal/annmodel (element set keyed by position + minimal label volume).  After every
// operation of a random sequential history and after w.Settle(), every view of the annotation
// instance (elements/<size>/<offset>, all-elements, blocks, tag/<t>, label/<l> with and without
// relationships, roi/<spec>) and of the synced labelsz instance (count, counts, top, threshold per
// index type) must equal the view computed from the model; relationship rules are asserted only
// for mutual references.  Committed ancestors must keep their views.
package main

import (
	"encoding/json"
	"fmt"
	"math/rand"
	"os"
	"path/filepath"
	"sort"
	"strings"
	"sync"
	"time"

	am "verif/harness/internal/annmodel"
	"verif/harness/internal/drv"
	"verif/harness/internal/dvc"
)

func main() { drv.Main("C13", "exploration", run) }

const BS = 32 // block edge of the labelmap (and therefore of the synced annotation) and of the ROI

var (
	tagPool  = []string{"t0", "t1", "t2", "t3"}
	verbose  = os.Getenv("C13_VERBOSE") != ""
	kindPick = []string{"PostSyn", "PostSyn", "PostSyn", "PreSyn", "PreSyn", "PreSyn", "Gap", "Note", "Note", "Unknown"}
)

// ---------------------------------------------------------------------------------------
// log watcher: the only completion signal of the asynchronous reloads is a log line

type logWatch struct {
	path string
	off  int64
}

func (l *logWatch) mark() {
	if st, err := os.Stat(l.path); err == nil {
		l.off = st.Size()
	}
}

// wait blocks until marker appears in the log after the mark (false = watchdog).
func (l *logWatch) wait(marker string, max time.Duration) bool {
	deadline := time.Now().Add(max)
	for {
		f, err := os.Open(l.path)
		if err == nil {
			st, _ := f.Stat()
			if st != nil && st.Size() > l.off {
				buf := make([]byte, st.Size()-l.off)
				n, _ := f.ReadAt(buf, l.off)
				if i := strings.Index(string(buf[:n]), marker); i >= 0 {
					f.Close()
					l.off += int64(i + len(marker))
					return true
				}
			}
			f.Close()
		}
		if time.Now().After(deadline) {
			return false
		}
		time.Sleep(15 * time.Millisecond)
	}
}

// ---------------------------------------------------------------------------------------

type vstate struct {
	uuid   string
	name   string // n0, n1 …
	elems  *am.Set
	vol    *am.LabelVol
	locked bool
	labels map[uint64]bool // every body label that ever existed in this lineage (queried for zero counts)
	late   int             // number of late blocks already ingested
	stale  bool            // POST blocks done, reload pending: tag/label/labelsz views are not yet specified
	// taintAllSyn: a labelsz reload stored AllSyn counts that include Note/Unknown elements (reported once with its
	// own key); the AllSyn dimension of this lineage is no longer comparable and is skipped from then on
	taintAllSyn bool
	lszReloaded bool // the last operation ended with a labelsz reload
}

func (v *vstate) clone(uuid, name string) *vstate {
	c := &vstate{uuid: uuid, name: name, elems: v.elems.Clone(), vol: v.vol.Clone(), labels: map[uint64]bool{}, late: v.late, taintAllSyn: v.taintAllSyn}
	for l := range v.labels {
		c.labels[l] = true
	}
	return c
}

func (v *vstate) noteLabels() {
	for b := range v.vol.Bodies() {
		v.labels[b] = true
	}
}

type hist struct {
	c    *drv.Ctx
	w    *drv.Worker
	cl   *dvc.Client
	r    *rand.Rand
	tag  string
	root string
	vs   []*vstate
	pool []am.Point
	org  am.Point
	neg  bool // the label volume (and most candidate positions) sit at negative coordinates
	// feature: the one class of operations with a known, reported defect that this history may use, and only in its
	// last 40% ("risky" phase), so that every history first explores everything else and one history in five ends
	// with the sweep over all versions:  "" none | "kind" overwrite with another kind | "neg" cleave under an element at negative coordinates |
	// "samebody" move within one body | "mapped" voxel writes to blocks whose elements sit on merged/cleaved supervoxels
	feature string
	risky   bool
	spans   []am.Span
	lw      *logWatch
	trace   []string
	dead    bool // a violation made the model and the server diverge: stop this history
	incon   bool // … or the fixture / a watchdog failed (inconclusive, no verdict)

	opClass string // class of the last operation (part of violation keys)
	opNT    bool   // last operation touched an element with tags or relationships
	lateIDs []uint64
	lateBlk []am.Point // block coordinates of the not yet ingested blocks
	nbranch int
}

func (h *hist) logf(f string, a ...interface{}) {
	s := fmt.Sprintf(f, a...)
	h.trace = append(h.trace, s)
	if verbose {
		fmt.Fprintf(os.Stderr, "[%s] %s\n", h.tag, s)
	}
}

func (h *hist) url(v *vstate, inst, rest string) string {
	return "/api/node/" + v.uuid + "/" + inst + "/" + rest
}

func (h *hist) witness(extra map[string]interface{}) map[string]interface{} {
	m := map[string]interface{}{"history": h.tag, "negative_coordinates": h.neg, "trace": append([]string(nil), h.trace...)}
	for k, v := range extra {
		m[k] = v
	}
	return m
}

var (
	repMu    sync.Mutex
	reported = map[string]int{}
)

// violation reports the first two occurrences of a key (canonical class of the failing history); more are only counted.
func (h *hist) violation(key, what string, extra map[string]interface{}) {
	repMu.Lock()
	reported[key]++
	n := reported[key]
	repMu.Unlock()
	h.c.Count("violating_observations", 1)
	h.c.Seen("violation_keys", key)
	if n > 2 {
		h.c.Count("violations_same_key_not_repeated", 1)
		return
	}
	h.c.Violation(key, what+" | history "+h.tag+": "+tail(h.trace, 8), h.witness(extra))
}

func tail(t []string, n int) string {
	if len(t) > n {
		return "… " + strings.Join(t[len(t)-n:], "; ")
	}
	return strings.Join(t, "; ")
}

// ---------------------------------------------------------------------------------------
// set-up

func (h *hist) setup() error {
	var err error
	if h.root, err = h.cl.NewRepo("c13-" + h.tag); err != nil {
		return err
	}
	if err = h.cl.NewInstance(h.root, "labelmap", "labels", map[string]string{"BlockSize": fmt.Sprintf("%d,%d,%d", BS, BS, BS)}); err != nil {
		return err
	}
	if err = h.cl.NewInstance(h.root, "annotation", "syn", nil); err != nil {
		return err
	}
	if err = h.cl.NewInstance(h.root, "labelsz", "lsz", nil); err != nil {
		return err
	}
	if err = h.cl.NewInstance(h.root, "roi", "roi", nil); err != nil {
		return err
	}
	if h.r.Intn(2) == 0 {
		// the annotation instance is asked for elements before it learns which label volume it follows: whatever it
		// derives from the synced volume (block size) must follow the later POST sync
		if _, err := h.w.Get("/api/node/" + h.root + "/syn/elements/64_64_64/0_0_0"); err != nil {
			return err
		}
		h.c.Count("histories_reading_before_sync", 1)
	}
	for _, s := range [][2]string{{"syn", "labels"}, {"lsz", "syn"}} {
		r, err := h.w.PostS("/api/node/"+h.root+"/"+s[0]+"/sync", `{"sync":"`+s[1]+`"}`)
		if err != nil {
			return err
		}
		if !r.OK() {
			return fmt.Errorf("sync %s->%s refused: %s", s[0], s[1], r)
		}
	}
	// "neg" histories put the label volume at negative coordinates (origin −32,−32,−32) so that −1|0 is a block border
	// between labelled voxels and elements sit on bodies at negative coordinates.
	if h.neg {
		h.org = am.Point{-BS, -BS, -BS}
	}
	o := h.org
	ob := o.Block(BS)
	// ROI: spans of blocks (a block row of the volume, one partly outside)
	h.spans = []am.Span{{ob[2], ob[1], ob[0], ob[0] + 1}, {ob[2] + 1, ob[1] + 1, ob[0] + 1, ob[0] + 2}}
	sb, _ := json.Marshal(h.spans)
	r, err := h.w.Post("/api/node/"+h.root+"/roi/roi", sb)
	if err != nil {
		return err
	}
	if !r.OK() {
		return fmt.Errorf("POST roi refused: %s", r)
	}

	// label volume: 3x2x2 blocks; the first 2x2x2 are ingested at once, the last x column later, block by block
	vol := am.NewLabelVol(BS, o, [3]int32{3 * BS, 2 * BS, 2 * BS})
	id := uint64(0)
	for cz := int32(0); cz < 4; cz++ {
		for cy := int32(0); cy < 4; cy++ {
			for cx := int32(0); cx < 4; cx++ {
				id++
				if h.r.Intn(100) < 22 {
					h.lateIDs = append(h.lateIDs, id) // unused now: background cell
					continue
				}
				lo := am.Point{o[0] + cx*16, o[1] + cy*16, o[2] + cz*16}
				vol.FillBox(lo, am.Point{lo[0] + 16, lo[1] + 16, lo[2] + 16}, id)
			}
		}
	}
	for by := int32(0); by < 2; by++ {
		for bz := int32(0); bz < 2; bz++ {
			h.lateBlk = append(h.lateBlk, am.Point{ob[0] + 2, ob[1] + by, ob[2] + bz})
		}
	}
	v0 := &vstate{uuid: h.root, name: "n0", elems: am.NewSet(BS), vol: vol, labels: map[uint64]bool{}}
	h.vs = []*vstate{v0}

	// candidate positions
	add := func(p am.Point) {
		for _, q := range h.pool {
			if q == p {
				return
			}
		}
		h.pool = append(h.pool, p)
	}
	rc := func(lo, hi int32) int32 { return lo + int32(h.r.Intn(int(hi-lo))) }
	for d := 0; d < 3; d++ { // pairs straddling the block border …31|32… (and −1|0 in negative histories) on each axis
		p := am.Point{o[0] + rc(1, 62), o[1] + rc(1, 62), o[2] + rc(1, 62)}
		p[d] = o[d] + 31
		q := p
		q[d] = o[d] + 32
		add(p)
		add(q)
	}
	for d := 0; d < 2; d++ { // supervoxel border inside a block
		p := am.Point{o[0] + rc(1, 62), o[1] + rc(1, 62), o[2] + rc(1, 62)}
		p[d] = o[d] + 15
		q := p
		q[d] = o[d] + 16
		add(p)
		add(q)
	}
	add(am.Point{o[0] + 63, o[1] + rc(0, 64), o[2] + rc(0, 64)}) // border to the late blocks
	add(am.Point{o[0] + 64, o[1] + rc(0, 64), o[2] + rc(0, 64)})
	add(am.Point{o[0] + rc(64, 96), o[1] + rc(0, 64), o[2] + rc(0, 64)})
	add(am.Point{o[0], o[1], o[2]}) // first voxel
	for i := 0; i < 8; i++ {
		add(am.Point{o[0] + rc(0, 64), o[1] + rc(0, 64), o[2] + rc(0, 64)})
	}
	// two more in the block of an existing candidate so that blocks hold several elements
	for i := 0; i < 3; i++ {
		b := h.pool[h.r.Intn(len(h.pool))].Block(BS)
		add(am.Point{b[0]*BS + rc(0, BS), b[1]*BS + rc(0, BS), b[2]*BS + rc(0, BS)})
	}
	// background far outside the volume (no label block stored there)
	add(am.Point{o[0] + 200, o[1] + 5, o[2] + 70})
	add(am.Point{o[0] + 201, o[1] + 6, o[2] + 70})
	if h.neg {
		add(am.Point{-1, -1, -1})
		add(am.Point{0, 0, 0})
		add(am.Point{-70, 3, -2}) // negative and outside the volume
	}
	sort.Slice(h.pool, func(i, j int) bool { return h.pool[i].Less(h.pool[j]) })
	h.r.Shuffle(len(h.pool), func(i, j int) { h.pool[i], h.pool[j] = h.pool[j], h.pool[i] })
	h.logf("setup feature=%q pool=%d positions, roi spans %v", h.feature, len(h.pool), h.spans)

	// some histories post elements before any label exists: the ingest must then index them
	if h.r.Intn(3) == 0 {
		if err := h.opPostNew(v0, 2+h.r.Intn(2)); err != nil {
			return err
		}
	}
	raw := vol.Raw(o, [3]int32{2 * BS, 2 * BS, 2 * BS})
	rr, err := h.w.Post(h.url(v0, "labels", fmt.Sprintf("raw/0_1_2/%d_%d_%d/%s", 2*BS, 2*BS, 2*BS, o.URL())), raw)
	if err != nil {
		return err
	}
	if !rr.OK() {
		return fmt.Errorf("initial POST raw at %s refused: %s", o, rr)
	}
	v0.noteLabels()
	h.opClass, h.opNT = "ingest-initial", false
	h.logf("ingest initial volume %d^3 at %s: %d supervoxels", 2*BS, o, len(vol.LiveSVs()))
	return h.compare(v0)
}

// ---------------------------------------------------------------------------------------
// generators

func (h *hist) randElem(p am.Point) *am.Element {
	e := &am.Element{Pos: p, Kind: kindPick[h.r.Intn(len(kindPick))]}
	for _, t := range tagPool {
		if h.r.Intn(100) < 35 {
			e.Tags = append(e.Tags, t)
		}
	}
	if h.r.Intn(2) == 0 {
		e.Prop = map[string]string{"conf": fmt.Sprintf("0.%d", h.r.Intn(100))}
		if h.r.Intn(3) == 0 {
			e.Prop["user"] = "u" + fmt.Sprint(h.r.Intn(5))
		}
	}
	return e
}

func (h *hist) allow(f string) bool { return h.feature == f && h.risky }

// usable: every candidate position may be used at any time
func (h *hist) usable(p am.Point) bool { return true }

func (h *hist) freePositions(v *vstate) []am.Point {
	var out []am.Point
	for _, p := range h.pool {
		if v.elems.E[p] == nil && h.usable(p) {
			out = append(out, p)
		}
	}
	return out
}

// strictClone copies an element for re-posting: loose relationships are not sent.
func strictClone(e *am.Element) *am.Element {
	c := e.Clone()
	var rs []am.Rel
	for _, r := range c.Rels {
		if !r.Loose() {
			rs = append(rs, r)
		}
	}
	c.Rels = rs
	return c
}

func relFor(kind string) string {
	switch kind {
	case "PostSyn":
		return "PostSynTo"
	case "PreSyn":
		return "PreSynTo"
	case "Gap":
		return "ConvergentTo"
	case "Note":
		return "GroupedWith"
	}
	return "UnknownRelationship"
}

func anyNeg(ps ...am.Point) bool {
	for _, p := range ps {
		if p.HasNeg() {
			return true
		}
	}
	return false
}

func negSuffix(b bool) string {
	if b {
		return ":neg"
	}
	return ""
}

// tagConflict reports whether the request makes one element drop a tag that another element of the
// same request carries (annotation.addTagDelta then depends on map order / panics): returns the tag.
func tagConflict(v *vstate, post []*am.Element) (string, bool) {
	for _, x := range post {
		cur := v.elems.E[x.Pos]
		if cur == nil {
			continue
		}
		for _, t := range cur.Tags {
			if x.HasTag(t) {
				continue
			}
			for _, y := range post {
				if y != x && y.HasTag(t) {
					return t, true
				}
			}
		}
	}
	return "", false
}

// postElements sends POST elements and applies it to the model when acknowledged.
// expectPanicKey != "" marks a request that is known (by reading) to hit a recovered panic.
func (h *hist) postElements(v *vstate, post []*am.Element, class, expectPanicKey string) error {
	body := am.MarshalElements(post)
	var ps []string
	neg := false
	for _, e := range post {
		ps = append(ps, fmt.Sprintf("%s %s %v rels=%d", e.Pos, e.Kind, e.Tags, len(e.Rels)))
		neg = neg || e.Pos.HasNeg()
		if len(e.Tags) > 0 || len(e.Rels) > 0 {
			h.opNT = true
		}
	}
	h.opClass = class + negSuffix(neg)
	h.logf("%s POST elements@%s [%s]", class, v.name, strings.Join(ps, " | "))
	r, err := h.postRetry(h.url(v, "syn", "elements"), body)
	if err != nil {
		return err
	}
	h.c.Count("op_post_elements", 1)
	if r.OK() {
		v.elems.Post(post)
		return nil
	}
	if r.Panicked() {
		key := expectPanicKey
		if key == "" || !strings.Contains(string(r.Body), "assignment to entry in nil map") {
			key = "panic:" + class
			h.dead = true // unknown site: the stored state is unknown
		}
		h.c.Count("recovered_panics", 1)
		h.violation(key, fmt.Sprintf("well-formed POST elements answered %d with a recovered panic: %s; body %s", r.Status, drv.Trunc(string(r.Body), 300), drv.Trunc(string(body), 500)),
			map[string]interface{}{"request_body": string(body), "response": string(r.Body), "class": class})
		return nil // the panic site of addTagDelta precedes every write: the model is unchanged
	}
	h.dead = true
	h.violation("refused:"+class, fmt.Sprintf("well-formed POST elements refused: %s; body %s", r, drv.Trunc(string(body), 500)), map[string]interface{}{"request_body": string(body)})
	return nil
}

// postRetry repeats a POST while the instance answers that a reload is still in progress.
func (h *hist) postRetry(url string, body []byte) (drv.Resp, error) {
	for i := 0; ; i++ {
		r, err := h.w.Post(url, body)
		if err != nil {
			return r, err
		}
		if r.Status == 400 && strings.Contains(string(r.Body), "is being reloaded") && i < 400 {
			h.c.Count("posts_retried_during_reload", 1)
			time.Sleep(10 * time.Millisecond)
			continue
		}
		return r, nil
	}
}

func (h *hist) opPostNew(v *vstate, n int) error {
	free := h.freePositions(v)
	if len(free) == 0 {
		return nil
	}
	if n > len(free) {
		n = len(free)
	}
	h.r.Shuffle(len(free), func(i, j int) { free[i], free[j] = free[j], free[i] })
	var post []*am.Element
	byPos := map[am.Point]*am.Element{}
	class := "post-new"
	for _, p := range free[:n] {
		e := h.randElem(p)
		post = append(post, e)
		byPos[p] = e
	}
	// relationships: to existing elements or to each other; mutual (partner re-posted with a back reference) or one-sided
	cands := v.elems.Positions()
	for _, e := range post {
		cands = append(cands, e.Pos)
	}
	for _, e := range append([]*am.Element(nil), post...) {
		if len(cands) < 2 || h.r.Intn(100) >= 55 {
			continue
		}
		to := cands[h.r.Intn(len(cands))]
		if to == e.Pos {
			continue
		}
		e.Rels = append(e.Rels, am.Rel{Rel: relFor(e.Kind), To: to})
		if h.r.Intn(100) < 65 { // mutual
			partner := byPos[to]
			if partner == nil {
				partner = strictClone(v.elems.E[to])
				byPos[to] = partner
				post = append(post, partner)
			}
			if !partner.RefsStrict(e.Pos) {
				partner.Rels = append(partner.Rels, am.Rel{Rel: relFor(partner.Kind), To: e.Pos})
			}
			class = "post-new+mutual"
		} else if class == "post-new" {
			class = "post-new+onesided"
		}
	}
	if _, bad := tagConflict(v, post); bad {
		return nil // cannot happen (partners keep their tags); be safe
	}
	return h.postElements(v, post, class, "")
}

func (h *hist) opPostOverwrite(v *vstate) error {
	ps := v.elems.Positions()
	if len(ps) == 0 {
		return h.opPostNew(v, 1)
	}
	n := 1 + h.r.Intn(2)
	h.r.Shuffle(len(ps), func(i, j int) { ps[i], ps[j] = ps[j], ps[i] })
	if n > len(ps) {
		n = len(ps)
	}
	var post []*am.Element
	mods := map[string]bool{}
	for _, p := range ps[:n] {
		cur := v.elems.E[p]
		e := strictClone(cur)
		if h.allow("kind") && h.r.Intn(100) < 50 {
			k := kindPick[h.r.Intn(len(kindPick))]
			if k != e.Kind {
				e.Kind = k
				mods["kind"] = true
			}
		}
		if h.r.Intn(100) < 55 {
			e.Tags = h.randElem(p).Tags
			if strings.Join(e.Tags, ",") != strings.Join(cur.Tags, ",") {
				mods["tags"] = true
			}
		}
		if h.r.Intn(100) < 35 {
			e.Prop = map[string]string{"conf": fmt.Sprintf("1.%d", h.r.Intn(100))}
			mods["props"] = true
		}
		if len(e.Rels) > 0 && h.r.Intn(100) < 20 {
			e.Rels = nil // partners' references become one-sided
			mods["rels"] = true
		}
		post = append(post, e)
	}
	if _, bad := tagConflict(v, post); bad {
		post = post[:1] // the conflicting combination is exercised (in one block) by opTagSwap only
	}
	// class = the most consequential modification (keys stay canonical); the trace shows all of them
	class := "post-overwrite"
	for _, m := range []string{"kind", "tags", "rels", "props"} {
		if mods[m] {
			class += "+" + m
			break
		}
	}
	return h.postElements(v, post, class, "")
}

// opTagSwap: one request, two elements of ONE block: X drops tag T, Y carries T.
func (h *hist) opTagSwap(v *vstate) (bool, error) {
	ps := v.elems.Positions()
	h.r.Shuffle(len(ps), func(i, j int) { ps[i], ps[j] = ps[j], ps[i] })
	free := h.freePositions(v)
	for _, xp := range ps {
		x := v.elems.E[xp]
		if len(x.Tags) == 0 {
			continue
		}
		t := x.Tags[h.r.Intn(len(x.Tags))]
		var y *am.Element
		for _, yp := range ps { // an existing neighbour without T
			if yp != xp && yp.Block(BS) == xp.Block(BS) && !v.elems.E[yp].HasTag(t) {
				y = strictClone(v.elems.E[yp])
				break
			}
		}
		if y == nil {
			for _, yp := range free {
				if yp.Block(BS) == xp.Block(BS) {
					y = h.randElem(yp)
					y.Tags = nil
					break
				}
			}
		}
		if y == nil {
			continue
		}
		y.Tags = append(y.Tags, t)
		nx := strictClone(x)
		var keep []string
		for _, q := range nx.Tags {
			if q != t {
				keep = append(keep, q)
			}
		}
		nx.Tags = keep
		post := []*am.Element{nx, y}
		if h.r.Intn(2) == 0 {
			post = []*am.Element{y, nx}
		}
		h.c.Count("op_tagswap_same_block", 1)
		return true, h.postElements(v, post, "post-tagswap-same-block", "annotation:addTagDelta-nil-erase")
	}
	return false, nil
}

func (h *hist) bodyClass(v *vstate, from, to am.Point) string {
	a, b := v.vol.BodyAt(from), v.vol.BodyAt(to)
	switch {
	case a == 0 && b == 0:
		return "bg-to-bg"
	case a == 0:
		return "bg-to-body"
	case b == 0:
		return "body-to-bg"
	case a == b:
		return "same-body"
	}
	return "other-body"
}

func (h *hist) opDelete(v *vstate) error {
	ps := v.elems.Positions()
	if len(ps) == 0 {
		return nil
	}
	p := ps[h.r.Intn(len(ps))]
	e := v.elems.E[p]
	class := "delete"
	for _, r := range e.Rels {
		if !r.Loose() && v.elems.Mutual(p, r.To) {
			class = "delete+mutual"
		}
	}
	h.opNT = len(e.Tags) > 0 || len(e.Rels) > 0
	h.opClass = class + negSuffix(p.HasNeg())
	h.logf("%s DELETE element@%s %s (body %d)", class, v.name, p, v.vol.BodyAt(p))
	var r drv.Resp
	var err error
	for i := 0; ; i++ {
		if r, err = h.w.Delete(h.url(v, "syn", "element/"+p.URL())); err != nil {
			return err
		}
		if r.Status == 400 && strings.Contains(string(r.Body), "is being reloaded") && i < 400 {
			time.Sleep(10 * time.Millisecond)
			continue
		}
		break
	}
	h.c.Count("op_delete", 1)
	if !r.OK() {
		h.dead = true
		key := "refused:" + class
		if r.Panicked() {
			key = "panic:" + class
		}
		h.violation(key, fmt.Sprintf("DELETE of the existing element %s answered %s", p, r), nil)
		return nil
	}
	v.elems.Delete(p)
	return nil
}

func (h *hist) opMove(v *vstate) error {
	ps := v.elems.Positions()
	free := h.freePositions(v)
	if len(ps) == 0 || len(free) == 0 {
		return nil
	}
	from := ps[h.r.Intn(len(ps))]
	if !h.allow("samebody") {
		var ok []am.Point
		for _, q := range free {
			if b := v.vol.BodyAt(q); b == 0 || b != v.vol.BodyAt(from) {
				ok = append(ok, q)
			}
		}
		if free = ok; len(free) == 0 {
			return nil
		}
	} else if h.r.Intn(2) == 0 { // look for a target on the same body
		var same []am.Point
		for _, q := range free {
			if b := v.vol.BodyAt(q); b != 0 && b == v.vol.BodyAt(from) {
				same = append(same, q)
			}
		}
		if len(same) > 0 {
			free = same
		}
	}
	to := free[h.r.Intn(len(free))]
	if h.r.Intn(3) == 0 { // prefer a target in the same block if there is one
		for _, q := range free {
			if q.Block(BS) == from.Block(BS) {
				to = q
				break
			}
		}
	}
	e := v.elems.E[from]
	blk := "cross-block"
	if from.Block(BS) == to.Block(BS) {
		blk = "same-block"
	}
	class := "move:" + blk + ":" + h.bodyClass(v, from, to)
	for _, r := range e.Rels {
		if !r.Loose() && v.elems.Mutual(from, r.To) {
			class += "+mutual"
			break
		}
	}
	h.opNT = len(e.Tags) > 0 || len(e.Rels) > 0
	h.opClass = class + negSuffix(anyNeg(from, to))
	h.logf("%s POST move@%s %s -> %s (body %d -> %d) tags %v rels %d", class, v.name, from, to, v.vol.BodyAt(from), v.vol.BodyAt(to), e.Tags, len(e.Rels))
	r, err := h.postRetry(h.url(v, "syn", "move/"+from.URL()+"/"+to.URL()), nil)
	if err != nil {
		return err
	}
	h.c.Count("op_move", 1)
	h.c.Seen("move_classes", class)
	if !r.OK() {
		h.dead = true
		key := "refused:" + class
		if r.Panicked() {
			key = "panic:" + class
		}
		h.violation(key, fmt.Sprintf("move of the existing element %s to the free position %s answered %s", from, to, r), nil)
		return nil
	}
	v.elems.Move(from, to)
	return nil
}

// opBlocksReload: POST blocks replaces whole blocks, then reload of the annotation and of labelsz.
func (h *hist) opBlocksReload(v *vstate) error {
	// candidate blocks = blocks of pool positions
	bset := map[am.Point][]am.Point{}
	for _, p := range h.pool {
		if h.usable(p) {
			bset[p.Block(BS)] = append(bset[p.Block(BS)], p)
		}
	}
	var bl []am.Point
	for b := range bset {
		bl = append(bl, b)
	}
	sort.Slice(bl, func(i, j int) bool { return bl[i].Less(bl[j]) })
	h.r.Shuffle(len(bl), func(i, j int) { bl[i], bl[j] = bl[j], bl[i] })
	n := 1 + h.r.Intn(2)
	blocks := map[am.Point][]*am.Element{}
	neg := false
	var desc []string
	all := v.elems.Positions()
	for _, b := range bl[:n] {
		ps := bset[b]
		k := h.r.Intn(4)
		if k > len(ps) {
			k = len(ps)
		}
		h.r.Shuffle(len(ps), func(i, j int) { ps[i], ps[j] = ps[j], ps[i] })
		es := []*am.Element{}
		for _, p := range ps[:k] {
			e := h.randElem(p)
			if len(all) > 0 && h.r.Intn(2) == 0 {
				if to := all[h.r.Intn(len(all))]; to != p { // no self references
					e.Rels = append(e.Rels, am.Rel{Rel: relFor(e.Kind), To: to})
				}
			}
			es = append(es, e)
			neg = neg || p.HasNeg()
			desc = append(desc, fmt.Sprintf("%s %s %v", p, e.Kind, e.Tags))
		}
		blocks[b] = es
		desc = append(desc, "in block "+b.String())
	}
	lowmem := h.r.Intn(100) < 30
	class := "blocks+reload"
	if lowmem {
		class += ":lowmem"
	}
	h.opClass, h.opNT = class+negSuffix(neg), true
	h.logf("%s POST blocks@%s {%s}", class, v.name, strings.Join(desc, "; "))
	body := am.MarshalBlocks(blocks)
	r, err := h.postRetry(h.url(v, "syn", "blocks"), body)
	if err != nil {
		return err
	}
	h.c.Count("op_post_blocks", 1)
	if !r.OK() {
		h.dead = true
		h.violation("refused:post-blocks", fmt.Sprintf("well-formed POST blocks answered %s; body %s", r, drv.Trunc(string(body), 400)), nil)
		return nil
	}
	v.elems.PutBlocks(blocks)
	v.stale = true
	if h.r.Intn(2) == 0 { // block-keyed views must already show the new content
		if err := h.compare(v); err != nil || h.dead {
			return err
		}
	}
	// annotation reload (asynchronous; completion = log line, then POSTs are accepted again)
	h.lw.mark()
	ru := h.url(v, "syn", "reload")
	marker := "Finished denormalization of"
	if lowmem {
		ru += "?inmemory=false"
		marker = "Completed asynchronous annotation"
	}
	if r, err = h.postRetry(ru, nil); err != nil {
		return err
	}
	if !r.OK() {
		h.dead = true
		h.violation("refused:reload", fmt.Sprintf("POST reload answered %s", r), nil)
		return nil
	}
	if !h.lw.wait(marker, 60*time.Second) {
		h.c.Inconclusive("annotation reload did not log completion within 60 s")
		h.dead, h.incon = true, true
		return nil
	}
	// a POST during the reload must be rejected or, once finished, accepted: wait until accepted
	if r, err = h.postRetry(h.url(v, "syn", "elements"), []byte("[]")); err != nil {
		return err
	}
	if err := h.w.Settle(); err != nil {
		return err
	}
	// labelsz has not seen the block ingestion: documented remedy is its own reload
	h.lw.mark()
	if r, err = h.w.Post(h.url(v, "lsz", "reload"), nil); err != nil {
		return err
	}
	if !r.OK() {
		h.dead = true
		h.violation("refused:labelsz-reload", fmt.Sprintf("POST labelsz reload answered %s", r), nil)
		return nil
	}
	if !h.lw.wait("Completed labelsz", 60*time.Second) {
		h.c.Inconclusive("labelsz reload did not log completion within 60 s")
		h.dead, h.incon = true, true
		return nil
	}
	v.stale = false
	v.lszReloaded = true
	h.c.Count("op_reload", 1)
	h.logf("reload syn (lowmem=%v) + reload lsz done", lowmem)
	return nil
}

// ---- label side

type lmResp struct {
	Label            uint64 // split/<label>
	CleavedLabel     uint64
	SplitSupervoxel  uint64
	RemainSupervoxel uint64
	MutationID       uint64
}

func (h *hist) labelPost(v *vstate, rest string, body []byte, what string) (lmResp, bool, error) {
	var out lmResp
	r, err := h.w.Post(h.url(v, "labels", rest), body)
	if err != nil {
		return out, false, err
	}
	if !r.OK() {
		// the label volume is only the fixture here (C08 owns it): when it refuses an operation (e.g. its own index and
		// voxels disagree after voxel edits) this history cannot go on, but that is no C13 verdict
		h.c.Inconclusive(fmt.Sprintf("history %s: labelmap refused %s: %s", h.tag, what, drv.Trunc(string(r.Body), 300)))
		h.c.Count("histories_abandoned_labelmap_refusal", 1)
		h.c.Seen("labelmap_refusals", what)
		h.dead, h.incon = true, true
		return out, false, nil
	}
	if len(r.Body) > 0 {
		json.Unmarshal(r.Body, &out)
	}
	return out, true, nil
}

func (h *hist) elemsTouched(v *vstate, pred func(p am.Point) bool) (n int, neg bool) {
	for p, e := range v.elems.E {
		if pred(p) {
			n++
			neg = neg || p.HasNeg()
			if len(e.Tags) > 0 || len(e.Rels) > 0 {
				h.opNT = true
			}
		}
	}
	return
}

func (h *hist) opMerge(v *vstate) error {
	bodies := v.vol.SortedBodies()
	if len(bodies) < 2 {
		return nil
	}
	// prefer bodies that carry elements
	var with []uint64
	for _, b := range bodies {
		if len(v.elems.OnBody(v.vol, b)) > 0 {
			with = append(with, b)
		}
	}
	h.r.Shuffle(len(bodies), func(i, j int) { bodies[i], bodies[j] = bodies[j], bodies[i] })
	k := 2
	if len(bodies) > 2 && h.r.Intn(2) == 0 {
		k = 3
	}
	pick := bodies[:k]
	if len(with) > 0 && h.r.Intn(4) > 0 {
		w := with[h.r.Intn(len(with))]
		found := false
		for _, b := range pick {
			found = found || b == w
		}
		if !found {
			pick[h.r.Intn(len(pick))] = w
		}
	}
	target, merged := pick[0], pick[1:]
	ms := map[uint64]bool{}
	for _, m := range merged {
		ms[m] = true
	}
	h.opNT = false
	n, neg := h.elemsTouched(v, func(p am.Point) bool { return ms[v.vol.BodyAt(p)] })
	h.opClass = "merge" + negSuffix(neg)
	h.logf("merge@%s %v -> %d (%d elements change body)", v.name, merged, target, n)
	body, _ := json.Marshal(append([]uint64{target}, merged...))
	if _, ok, err := h.labelPost(v, "merge", body, "merge"); err != nil || !ok {
		return err
	}
	v.vol.Merge(target, merged)
	h.c.Count("op_merge", 1)
	h.c.Count("elements_rebodied_by_label_ops", n)
	return nil
}

func (h *hist) opCleave(v *vstate) error {
	bodies := v.vol.Bodies()
	var multi []uint64
	for b, svs := range bodies {
		if len(svs) >= 2 {
			multi = append(multi, b)
		}
	}
	if len(multi) == 0 {
		return h.opMerge(v)
	}
	sort.Slice(multi, func(i, j int) bool { return multi[i] < multi[j] })
	b := multi[h.r.Intn(len(multi))]
	svs := append([]uint64(nil), bodies[b]...)
	h.r.Shuffle(len(svs), func(i, j int) { svs[i], svs[j] = svs[j], svs[i] })
	k := 1 + h.r.Intn(len(svs)-1)
	cll := append([]uint64(nil), svs[:k]...)
	// prefer cleaving a supervoxel that carries an element
	var carry []uint64
	for _, p := range v.elems.Positions() {
		if s := v.vol.SVAt(p); s != 0 && v.vol.BodyOf(s) == b {
			carry = append(carry, s)
		}
	}
	if len(carry) > 0 && h.r.Intn(4) > 0 {
		s := carry[h.r.Intn(len(carry))]
		in := false
		for _, c := range cll {
			in = in || c == s
		}
		if !in {
			cll[0] = s
		}
	}
	cs := map[uint64]bool{}
	for _, s := range cll {
		cs[s] = true
	}
	h.opNT = false
	n, neg := h.elemsTouched(v, func(p am.Point) bool { return cs[v.vol.SVAt(p)] })
	if neg && !h.allow("neg") {
		// cleaving a supervoxel under an element at negative coordinates has a known, reported defect: late phase only
		return h.opMerge(v)
	}
	h.opClass = "cleave" + negSuffix(neg)
	body, _ := json.Marshal(cll)
	out, ok, err := h.labelPost(v, fmt.Sprintf("cleave/%d", b), body, "cleave")
	if err != nil || !ok {
		return err
	}
	if out.CleavedLabel == 0 || out.CleavedLabel <= v.vol.MaxID() && v.labels[out.CleavedLabel] {
		return fmt.Errorf("cleave returned the label %d which is not fresh (fixture problem)", out.CleavedLabel)
	}
	h.logf("cleave@%s body %d supervoxels %v -> new body %d (%d elements change body)", v.name, b, cll, out.CleavedLabel, n)
	v.vol.Cleave(cll, out.CleavedLabel)
	v.labels[out.CleavedLabel] = true
	h.c.Count("op_cleave", 1)
	h.c.Count("elements_rebodied_by_label_ops", n)
	return nil
}

func (h *hist) opSplitSV(v *vstate) error {
	live := v.vol.LiveSVs()
	var svs []uint64
	for s := range live {
		svs = append(svs, s)
	}
	if len(svs) == 0 {
		return nil
	}
	sort.Slice(svs, func(i, j int) bool { return svs[i] < svs[j] })
	// prefer a supervoxel under an element
	sv := svs[h.r.Intn(len(svs))]
	for _, p := range v.elems.Positions() {
		if s := v.vol.SVAt(p); s != 0 && h.r.Intn(3) == 0 {
			sv = s
			break
		}
	}
	lo, hi, ok := v.vol.SVBounds(sv)
	if !ok {
		return nil
	}
	ax := h.r.Intn(3)
	for i := 0; i < 3 && hi[ax]-lo[ax] < 2; i++ {
		ax = (ax + 1) % 3
	}
	if hi[ax]-lo[ax] < 2 {
		return nil
	}
	shi := hi
	shi[ax] = lo[ax] + (hi[ax]-lo[ax])/2
	runs, nvox := v.vol.RunsOfSV(sv, lo, shi)
	if nvox == 0 || nvox == live[sv] {
		return nil
	}
	h.opNT = false
	n, neg := h.elemsTouched(v, func(p am.Point) bool { return v.vol.SVAt(p) == sv })
	h.opClass = "split-supervoxel" + negSuffix(neg)
	out, ok, err := h.labelPost(v, fmt.Sprintf("split-supervoxel/%d", sv), am.EncodeRLE(runs), "split-supervoxel")
	if err != nil || !ok {
		return err
	}
	if out.SplitSupervoxel == 0 || out.RemainSupervoxel == 0 {
		return fmt.Errorf("split-supervoxel returned no ids (fixture problem)")
	}
	h.logf("split-supervoxel@%s sv %d (body %d) box %s..%s -> split %d remain %d (%d elements on it; bodies must not change)", v.name, sv, v.vol.BodyOf(sv), lo, shi, out.SplitSupervoxel, out.RemainSupervoxel, n)
	v.vol.SplitSV(sv, lo, shi, out.SplitSupervoxel, out.RemainSupervoxel)
	h.c.Count("op_split_supervoxel", 1)
	return nil
}

// opSplitBody: POST split/<label> with a sparse volume that is a proper part of the body.
func (h *hist) opSplitBody(v *vstate) error {
	bodies := v.vol.SortedBodies()
	if len(bodies) == 0 {
		return nil
	}
	b := bodies[h.r.Intn(len(bodies))]
	var on []am.Point
	for _, p := range v.elems.Positions() {
		if v.vol.BodyAt(p) != 0 {
			on = append(on, p)
		}
	}
	var lo, hi am.Point
	if len(on) > 0 && h.r.Intn(4) > 0 { // a box around (or right next to) an element
		c := on[h.r.Intn(len(on))]
		b = v.vol.BodyAt(c)
		lo = am.Point{c[0] - int32(h.r.Intn(5)), c[1] - int32(h.r.Intn(5)), c[2] - int32(h.r.Intn(5))}
		hi = am.Point{lo[0] + 3 + int32(h.r.Intn(8)), lo[1] + 3 + int32(h.r.Intn(8)), lo[2] + 3 + int32(h.r.Intn(8))}
	} else {
		svs := v.vol.Bodies()[b]
		l, u, ok := v.vol.SVBounds(svs[h.r.Intn(len(svs))])
		if !ok {
			return nil
		}
		ax := h.r.Intn(3)
		u[ax] = l[ax] + (u[ax]-l[ax]+1)/2
		lo, hi = l, u
	}
	runs, nvox := v.vol.RunsWhere(lo, hi, func(p am.Point) bool { return v.vol.BodyAt(p) == b })
	if nvox == 0 || nvox >= v.vol.BodyVoxels(b) {
		return h.opPostNew(v, 1)
	}
	h.opNT = false
	size := [3]int32{hi[0] - lo[0], hi[1] - lo[1], hi[2] - lo[2]}
	n, neg := h.elemsTouched(v, func(p am.Point) bool { return v.vol.BodyAt(p) == b && p.InBox(lo, size) })
	h.opClass = "split" + negSuffix(neg)
	out, ok, err := h.labelPost(v, fmt.Sprintf("split/%d", b), am.EncodeRLE(runs), "split")
	if err != nil || !ok {
		return err
	}
	if out.Label == 0 {
		return fmt.Errorf("split returned no label (fixture problem)")
	}
	// the server renames the touched supervoxels: take the new supervoxel volume from the labelmap itself
	if err := h.w.Settle(); err != nil {
		return err
	}
	r, err := h.w.Get(h.url(v, "labels", fmt.Sprintf("raw/0_1_2/%d_%d_%d/%s?supervoxels=true", v.vol.Dim[0], v.vol.Dim[1], v.vol.Dim[2], v.vol.Org.URL())))
	if err != nil {
		return err
	}
	if !r.OK() {
		return fmt.Errorf("GET raw supervoxels after split: %s", r)
	}
	if err := v.vol.ApplySplit(runs, out.Label, r.Body); err != nil {
		return fmt.Errorf("split read-back does not fit the model (fixture problem): %v; history %s", err, tail(h.trace, 6))
	}
	v.labels[out.Label] = true
	h.logf("split@%s body %d box %s..%s (%d voxels) -> new body %d (%d elements change body)", v.name, b, lo, hi, nvox, out.Label, n)
	h.c.Count("op_split_body", 1)
	h.c.Count("elements_rebodied_by_label_ops", n)
	return nil
}

// opMutate paints a box inside one ingested block with background or a live supervoxel (POST raw?mutate=true).
func (h *hist) opMutate(v *vstate) error {
	o := h.org
	nbx := int32(2)
	if v.late > 0 {
		nbx = 3
	}
	// blocks already stored
	var blocks []am.Point
	for bx := int32(0); bx < nbx; bx++ {
		for by := int32(0); by < 2; by++ {
			for bz := int32(0); bz < 2; bz++ {
				b := am.Point{o.Block(BS)[0] + bx, o.Block(BS)[1] + by, o.Block(BS)[2] + bz}
				if bx == 2 {
					stored := false
					for i := 0; i < v.late; i++ {
						stored = stored || h.lateBlk[i] == b
					}
					if !stored {
						continue
					}
				}
				blocks = append(blocks, b)
			}
		}
	}
	isStored := map[am.Point]bool{}
	for _, b := range blocks {
		isStored[b] = true
	}
	var cands []am.Point // elements inside stored blocks
	for _, p := range v.elems.Positions() {
		if isStored[p.Block(BS)] {
			cands = append(cands, p)
		}
	}
	live := v.vol.LiveSVs()
	var svs []uint64
	for s := range live {
		svs = append(svs, s)
	}
	sort.Slice(svs, func(i, j int) bool { return svs[i] < svs[j] })
	var b, lo, hi, boff am.Point
	var val uint64
	var before map[am.Point]uint64
	mapped, found := false, false
	for try := 0; try < 12 && !found; try++ {
		b = blocks[h.r.Intn(len(blocks))]
		if len(cands) > 0 && h.r.Intn(4) > 0 { // paint around an element
			c := cands[h.r.Intn(len(cands))]
			b = c.Block(BS)
			lo = am.Point{c[0] - int32(h.r.Intn(4)), c[1] - int32(h.r.Intn(4)), c[2] - int32(h.r.Intn(4))}
		} else {
			lo = am.Point{b[0]*BS + int32(h.r.Intn(BS-4)), b[1]*BS + int32(h.r.Intn(BS-4)), b[2]*BS + int32(h.r.Intn(BS-4))}
		}
		hi = am.Point{lo[0] + 2 + int32(h.r.Intn(10)), lo[1] + 2 + int32(h.r.Intn(10)), lo[2] + 2 + int32(h.r.Intn(10))}
		boff = am.Point{b[0] * BS, b[1] * BS, b[2] * BS}
		for d := 0; d < 3; d++ { // clip to the block
			if lo[d] < boff[d] {
				lo[d] = boff[d]
			}
			if hi[d] > boff[d]+BS {
				hi[d] = boff[d] + BS
			}
		}
		val = 0
		if h.r.Intn(4) > 0 && len(svs) > 0 {
			val = svs[h.r.Intn(len(svs))]
		}
		// "mapped": an element of this block sits (or will sit) on a supervoxel whose body is not its own id
		before = map[am.Point]uint64{}
		mapped = false
		for _, p := range cands {
			if p.Block(BS) != b {
				continue
			}
			before[p] = v.vol.BodyAt(p)
			if s := v.vol.SVAt(p); s != 0 && v.vol.BodyOf(s) != s {
				mapped = true
			}
			if p.InBox(lo, [3]int32{hi[0] - lo[0], hi[1] - lo[1], hi[2] - lo[2]}) && val != 0 && v.vol.BodyOf(val) != val {
				mapped = true
			}
		}
		found = !mapped || h.allow("mapped")
		if h.allow("mapped") && !mapped && try < 6 {
			found = false // this history is here to exercise the mapped case: look for one first
		}
	}
	if !found {
		return h.opPostNew(v, 1)
	}
	v.vol.FillBox(lo, hi, val)
	n, neg := 0, false
	h.opNT = false
	for p, was := range before {
		neg = neg || p.HasNeg()
		if v.vol.BodyAt(p) != was {
			n++
		}
		if e := v.elems.E[p]; len(e.Tags) > 0 || len(e.Rels) > 0 {
			h.opNT = true
		}
	}
	class := "mutate-raw"
	if mapped {
		class += ":mapped-supervoxel-in-block"
	}
	h.opClass = class + negSuffix(neg)
	h.logf("%s@%s block %s box %s..%s := supervoxel %d (body %d); %d elements in block, %d change body", class, v.name, b, lo, hi, val, v.vol.BodyOf(val), len(before), n)
	raw := v.vol.Raw(boff, [3]int32{BS, BS, BS})
	if _, ok, err := h.labelPost(v, fmt.Sprintf("raw/0_1_2/%d_%d_%d/%s?mutate=true", BS, BS, BS, boff.URL()), raw, "POST raw mutate"); err != nil || !ok {
		return err
	}
	h.c.Count("op_mutate_raw", 1)
	h.c.Count("elements_rebodied_by_label_ops", n)
	return nil
}

// opIngest stores one of the late blocks for the first time (plain POST raw).
func (h *hist) opIngest(v *vstate) error {
	if v.late >= len(h.lateBlk) {
		return h.opMutate(v)
	}
	b := h.lateBlk[v.late]
	boff := am.Point{b[0] * BS, b[1] * BS, b[2] * BS}
	// two slabs: an unused id (or background) and an existing supervoxel, possibly one that is mapped to another body
	var ids []uint64
	if len(h.lateIDs) > 0 {
		ids = append(ids, h.lateIDs[(v.late)%len(h.lateIDs)])
	} else {
		ids = append(ids, 0)
	}
	live := v.vol.LiveSVs()
	var svs []uint64
	for s := range live {
		svs = append(svs, s)
	}
	sort.Slice(svs, func(i, j int) bool { return svs[i] < svs[j] })
	if !h.allow("mapped") {
		var un []uint64
		for _, s := range svs {
			if v.vol.BodyOf(s) == s {
				un = append(un, s)
			}
		}
		svs = un
	}
	if len(svs) == 0 {
		return h.opPostNew(v, 1)
	}
	ids = append(ids, svs[h.r.Intn(len(svs))])
	cut := int32(8 + h.r.Intn(16))
	v.vol.FillBox(boff, am.Point{boff[0] + cut, boff[1] + BS, boff[2] + BS}, ids[0])
	v.vol.FillBox(am.Point{boff[0] + cut, boff[1], boff[2]}, am.Point{boff[0] + BS, boff[1] + BS, boff[2] + BS}, ids[1])
	h.opNT = false
	n, neg := h.elemsTouched(v, func(p am.Point) bool { return p.Block(BS) == b })
	class := "ingest-block"
	if v.vol.BodyOf(ids[1]) != ids[1] {
		class += ":mapped-supervoxel"
	}
	h.opClass = class + negSuffix(neg)
	h.logf("%s@%s block %s: x<%d supervoxel %d, rest supervoxel %d (body %d); %d elements already in that block", class, v.name, b, cut, ids[0], ids[1], v.vol.BodyOf(ids[1]), n)
	raw := v.vol.Raw(boff, [3]int32{BS, BS, BS})
	if _, ok, err := h.labelPost(v, fmt.Sprintf("raw/0_1_2/%d_%d_%d/%s", BS, BS, BS, boff.URL()), raw, "POST raw ingest"); err != nil || !ok {
		return err
	}
	v.late++
	h.c.Count("op_ingest_block", 1)
	h.c.Count("elements_rebodied_by_label_ops", n)
	return nil
}

// ---- DAG

func (h *hist) opNewVersion(v *vstate) (*vstate, error) {
	if err := h.w.Settle(); err != nil {
		return nil, err
	}
	if err := h.cl.Commit(v.uuid); err != nil {
		return nil, fmt.Errorf("commit: %v", err)
	}
	v.locked = true
	child, err := h.cl.NewVersion(v.uuid)
	if err != nil {
		return nil, fmt.Errorf("newversion: %v", err)
	}
	nv := v.clone(child, fmt.Sprintf("n%d", len(h.vs)))
	h.vs = append(h.vs, nv)
	h.opClass, h.opNT = "newversion", false
	h.logf("commit %s + newversion -> %s", v.name, nv.name)
	h.c.Count("op_newversion", 1)
	return nv, nil
}

func (h *hist) opBranch(from *vstate) (*vstate, error) {
	h.nbranch++
	child, err := h.cl.Branch(from.uuid, fmt.Sprintf("b%d-%s", h.nbranch, h.tag))
	if err != nil {
		return nil, fmt.Errorf("branch: %v", err)
	}
	nv := from.clone(child, fmt.Sprintf("n%d", len(h.vs)))
	h.vs = append(h.vs, nv)
	h.opClass, h.opNT = "branch", false
	h.logf("branch from committed %s -> %s", from.name, nv.name)
	h.c.Count("op_branch", 1)
	return nv, nil
}

// ---------------------------------------------------------------------------------------
// comparison

// alt is the exact signature of a defect that has its own key: what the server is known to answer instead.
type alt struct {
	key  string
	eval func(r drv.Resp) ([]string, error)
	cont func() // non-nil: the history can go on once this dimension is marked as tainted
}

type check struct {
	view string // view class (part of keys)
	url  string
	body []byte
	// eval parses the response and returns the mismatches
	eval  func(r drv.Resp) ([]string, error)
	canon string // canonical expected content (case key)
	size  int    // number of elements in the expected view
	alts  []alt
}

func elemEval(exp []*am.Element, withRels bool) func(r drv.Resp) ([]string, error) {
	return func(r drv.Resp) ([]string, error) {
		act, err := am.ParseElements(r.Body)
		if err != nil {
			return nil, err
		}
		var out []string
		for _, m := range am.Diff(exp, act, withRels) {
			out = append(out, m.String())
		}
		return out, nil
	}
}

func (h *hist) elemCheck(v *vstate, view, rest string, exp []*am.Element, withRels bool) check {
	return check{view: view, url: h.url(v, "syn", rest), canon: am.Canon(exp, withRels), size: len(exp), eval: elemEval(exp, withRels)}
}

func (h *hist) blockCheck(v *vstate, view, rest string, exp map[am.Point][]*am.Element) check {
	var flat []*am.Element
	for _, es := range exp {
		flat = append(flat, es...)
	}
	return check{view: view, url: h.url(v, "syn", rest), canon: am.Canon(flat, true), size: len(flat),
		eval: func(r drv.Resp) ([]string, error) {
			act, err := am.ParseBlocks(r.Body)
			if err != nil {
				return nil, err
			}
			var out []string
			for _, m := range am.DiffBlocks(BS, exp, act) {
				out = append(out, m.String())
			}
			return out, nil
		}}
}

type lszEntry map[string]uint64 // {"Label": l, "<type>": n}

const (
	keyNegPoints   = "labelmap:GetLabelPoints-negative-coordinate"
	keyReloadAllSy = "labelsz:reload-AllSyn-counts-nonsynaptic"
)

// keyView collapses view names that are served from the same denormalisation.
func keyView(view string) string {
	switch {
	case strings.HasPrefix(view, "labelsz-"):
		return "labelsz"
	case view == "label+rels":
		return "label"
	case view == "tag+rels":
		return "tag"
	}
	return view
}

// siteKey is the violation key: "<view>:<class of the last operation>", except for the four combinations whose cause
// was traced to one code site by reading (each reproduces only under exactly this combination); those carry the site's name
// so that every variant of the same defect maps to one stable key.
func siteKey(view, opClass string) string {
	base := strings.TrimSuffix(opClass, ":neg")
	lab := view == "label" || view == "labelsz"
	switch {
	case view == "label" && strings.HasPrefix(base, "move:") && strings.Contains(base, ":same-body"):
		// moveElementInLabels returns early when old and new label are equal: the label list keeps the old position
		return "annotation:moveElementInLabels-same-label-keeps-old-position"
	case view == "labelsz" && strings.HasPrefix(base, "post-overwrite+kind"):
		// storeLabelElements reports only NEW positions to subscribers: a changed kind never reaches labelsz
		return "annotation:storeLabelElements-kind-change-not-propagated"
	case lab && strings.HasPrefix(base, "mutate-raw:mapped-supervoxel-in-block"):
		// mutateBlock indexes elements under the raw supervoxel ids of the block, not under the mapped body
		return "annotation:mutateBlock-indexes-by-supervoxel-id"
	case lab && strings.HasPrefix(base, "ingest-block:mapped-supervoxel"):
		return "annotation:ingestBlock-indexes-by-supervoxel-id"
	case lab && opClass == "cleave:neg":
		// labelmap.partitionPoints (GetPointsInSupervoxels, used by the annotation's cleave sync) divides with truncation:
		// elements at negative coordinates are looked up in the wrong block and stay with the old body
		return "labelmap:GetPointsInSupervoxels-negative-coordinate"
	}
	return view + ":" + opClass
}

func (h *hist) labelmapLabelAt(v *vstate, p am.Point) (uint64, error) {
	r, err := h.w.Get(h.url(v, "labels", "label/"+p.URL()))
	if err != nil {
		return 0, err
	}
	var out struct{ Label uint64 }
	if !r.OK() || json.Unmarshal(r.Body, &out) != nil {
		return 0, fmt.Errorf("labelmap GET label/%s: %s", p.URL(), r)
	}
	return out.Label, nil
}

func (h *hist) compare(v *vstate) error {
	if err := h.w.Settle(); err != nil {
		return err
	}
	h.c.Count("settles", 1)
	// fixture self-check: inside the stored volume the label model must agree with the labelmap's own point query
	// (outside, nothing was ever stored: background by construction)
	negAns := map[am.Point]uint64{}
	negWrong := false
	for _, p := range v.elems.Positions() {
		got, err := h.labelmapLabelAt(v, p)
		if err != nil {
			return err
		}
		want := v.vol.BodyAt(p)
		if v.vol.Covers(p) {
			if got != want {
				return fmt.Errorf("label model diverged from the labelmap at %s@%s: labelmap says %d, model %d (harness problem, not a C13 verdict); history %s", p, v.name, got, want, strings.Join(h.trace, "; "))
			}
		} else if p.HasNeg() {
			// no label block was ever stored at negative coordinates; what the labelmap's point lookup claims
			// there is what the annotation instance is told when it indexes the element
			negAns[p] = got
			negWrong = negWrong || got != 0
		} else if got != 0 {
			return fmt.Errorf("labelmap reports label %d at %s where nothing was stored (fixture problem)", got, p)
		}
	}
	var altBody func(p am.Point) uint64
	if negWrong {
		h.c.Count("labelmap_point_lookups_wrong_at_negative_coordinates", 1)
		altBody = func(p am.Point) uint64 {
			if a, ok := negAns[p]; ok {
				return a
			}
			return v.vol.BodyAt(p)
		}
	}

	var checks []check
	o := h.org
	el := v.elems
	checks = append(checks, h.blockCheck(v, "all-elements", "all-elements", el.ByBlock()))
	boxes := [][2]am.Point{
		{{o[0] - 40, o[1] - 40, o[2] - 40}, {3*BS + 80, 2*BS + 80, 2*BS + 80}}, // the whole label volume and a margin (negative coordinates included)
		{{o[0] + 20, o[1] + 10, o[2] + 5}, {24, 40, 50}},                       // crosses block borders, cuts blocks
		{{o[0] + 32, o[1], o[2]}, {32, 32, 32}},                                // exactly one block
		{{-3, -3, -3}, {20, 40, 40}},                                           // straddles −1|0 on every axis
	}
	for i, b := range boxes {
		if i == 3 && !h.neg {
			continue
		}
		sz := [3]int32{b[1][0], b[1][1], b[1][2]}
		rest := fmt.Sprintf("%d_%d_%d/%s", sz[0], sz[1], sz[2], b[0].URL())
		checks = append(checks, h.elemCheck(v, "elements-box", "elements/"+rest, el.InBox(b[0], sz), true))
		if i != 2 {
			checks = append(checks, h.blockCheck(v, "blocks-box", "blocks/"+rest, el.InBlocksOfBox(b[0], sz)))
		}
	}
	checks = append(checks, h.elemCheck(v, "roi", "roi/roi", el.InROI(h.spans), true))
	if !v.stale {
		for _, t := range tagPool {
			exp := el.WithTag(t)
			checks = append(checks, h.elemCheck(v, "tag", "tag/"+t, exp, false))
			checks = append(checks, h.elemCheck(v, "tag+rels", "tag/"+t+"?relationships=true", exp, true))
		}
		v.noteLabels()
		var labels []uint64
		for l := range v.labels {
			labels = append(labels, l)
		}
		sort.Slice(labels, func(i, j int) bool { return labels[i] < labels[j] })
		for _, l := range labels {
			exp := el.OnBody(v.vol, l)
			var ae []*am.Element
			if altBody != nil {
				ae = el.OnBodyFn(altBody, l)
			}
			// every label that ever existed is asked, also the ones that must be empty (merged away, never populated)
			c1 := h.elemCheck(v, "label", fmt.Sprintf("label/%d", l), exp, false)
			c2 := h.elemCheck(v, "label+rels", fmt.Sprintf("label/%d?relationships=true", l), exp, true)
			if altBody != nil {
				c1.alts = []alt{{key: keyNegPoints, eval: elemEval(ae, false)}}
				c2.alts = []alt{{key: keyNegPoints, eval: elemEval(ae, true)}}
			}
			checks = append(checks, c1)
			if len(exp) > 0 || len(ae) > 0 {
				checks = append(checks, c2)
			}
		}
		checks = append(checks, h.lszChecks(v, labels, altBody)...)
	}

	nviol := 0
	var taints []func()
	for _, ck := range checks {
		bad, _, err := h.runCheck(ck)
		if err != nil {
			return err
		}
		nt := ck.size >= 2 || h.opNT
		h.c.Case(ck.view+"|"+h.opClass+"|"+drv.Hash(ck.canon), nt)
		h.c.Count("views_compared", 1)
		h.c.Seen("view_kinds", ck.view)
		h.c.Seen("operation_classes", h.opClass)
		if len(bad) == 0 {
			continue
		}
		// the sync chain is asynchronous: only a mismatch that survives a second settle counts
		h.w.Settle()
		time.Sleep(150 * time.Millisecond)
		if err := h.w.Settle(); err != nil {
			return err
		}
		bad2, resp, err := h.runCheck(ck)
		if err != nil {
			return err
		}
		if len(bad2) == 0 {
			h.c.Count("mismatch_gone_after_second_settle", 1)
			continue
		}
		key := siteKey(keyView(ck.view), h.opClass)
		fatal := true
		if resp.OK() {
			for _, a := range ck.alts {
				if ab, err := a.eval(resp); err == nil && len(ab) == 0 {
					// exact signature of a defect that has its own key
					key = a.key
					if a.cont != nil {
						taints = append(taints, a.cont)
						fatal = false
					}
					break
				}
			}
		}
		if fatal {
			nviol++
		}
		h.violation(key, fmt.Sprintf("after %q at version %s: GET %s differs from the element set: %s", h.opClass, v.name, strings.TrimPrefix(ck.url, "/api/node/"+v.uuid), drv.Trunc(strings.Join(bad2, " || "), 700)),
			map[string]interface{}{"view": ck.view, "url": ck.url, "version": v.name, "mismatches": bad2, "expected": ck.canon, "op_class": h.opClass, "response": drv.Trunc(string(resp.Body), 2000)})
	}
	if nviol > 0 {
		h.dead = true
	}
	for _, f := range taints {
		f()
	}
	v.lszReloaded = false
	if h.c.SeenCount("sampled") < 3 && len(v.elems.E) >= 3 {
		h.c.Seen("sampled", h.tag)
		h.c.Sample(map[string]interface{}{"history": h.tag, "version": v.name, "after": h.opClass, "elements": am.Canon(v.elems.All(), true), "views_checked": len(checks), "trace_tail": tail(h.trace, 5)})
	}
	return nil
}

func (h *hist) runCheck(ck check) ([]string, drv.Resp, error) {
	var r drv.Resp
	var err error
	if ck.body != nil {
		r, err = h.w.HTTP("GET", ck.url, ck.body)
	} else {
		r, err = h.w.Get(ck.url)
	}
	if err != nil {
		return nil, r, err
	}
	if !r.OK() {
		return []string{fmt.Sprintf("request answered %s", r)}, r, nil
	}
	bad, err := ck.eval(r)
	if err != nil {
		return []string{fmt.Sprintf("unparsable answer (%v): %s", err, drv.Trunc(string(r.Body), 200))}, r, nil
	}
	return bad, r, nil
}

// lszChecks builds the labelsz comparisons.  altBody != nil: the labelmap's point lookup gives wrong bodies at
// negative coordinates; the counts that follow from those wrong answers are the signature of that defect.
func (h *hist) lszChecks(v *vstate, labels []uint64, altBody func(am.Point) uint64) []check {
	counts := v.elems.Counts(v.vol)
	// what a labelsz reload is known to store instead: AllSyn = every element on the body, Note and Unknown included
	inflate := func(counts map[uint64]map[string]int) map[uint64]map[string]int {
		out := map[uint64]map[string]int{}
		for l, m := range counts {
			am2 := map[string]int{}
			tot := 0
			for k, n := range m {
				am2[k] = n
				if k != "AllSyn" {
					tot += n
				}
			}
			am2["AllSyn"] = tot
			out[l] = am2
		}
		return out
	}
	var out []check
	lj, _ := json.Marshal(labels)
	for _, it := range am.IndexTypes {
		it := it
		if it == "AllSyn" && v.taintAllSyn {
			h.c.Count("labelsz_allsyn_checks_skipped_after_reported_reload_defect", 1)
			continue
		}
		// random parameters first, so that the alternative expectations ask the same questions
		var single []uint64
		for _, l := range labels {
			if counts[l][it] > 0 {
				single = append(single, l)
				break
			}
		}
		if len(labels) > 0 {
			single = append(single, labels[h.r.Intn(len(labels))])
		}
		nTop := 2
		if h.r.Intn(2) == 0 {
			nTop = len(am.Ranked(counts, it, 1)) + 2
		}
		thr := 1 + h.r.Intn(2)
		mk := func(counts map[uint64]map[string]int) []check {
			var out []check
			var cparts []string
			nz := 0
			for _, l := range labels {
				if n := counts[l][it]; n > 0 {
					cparts = append(cparts, fmt.Sprintf("%d:%d", l, n))
					nz++
				}
			}
			canon := it + " " + strings.Join(cparts, ",")
			// counts/<type> for every label that ever existed
			out = append(out, check{view: "labelsz-counts", url: h.url(v, "lsz", "counts/"+it), body: lj, canon: canon, size: nz,
				eval: func(r drv.Resp) ([]string, error) {
					var got []lszEntry
					if err := json.Unmarshal(r.Body, &got); err != nil {
						return nil, err
					}
					var bad []string
					if len(got) != len(labels) {
						bad = append(bad, fmt.Sprintf("%d entries for %d labels", len(got), len(labels)))
					}
					for i, g := range got {
						if i >= len(labels) {
							break
						}
						if g["Label"] != labels[i] || g[it] != uint64(counts[labels[i]][it]) {
							bad = append(bad, fmt.Sprintf("label %d %s: got %v, elements on that body give %d", labels[i], it, map[string]uint64(g), counts[labels[i]][it]))
						}
					}
					return bad, nil
				}})
			// count/<label>/<type> for up to two labels (one with elements if there is one)
			for _, l := range single {
				l := l
				out = append(out, check{view: "labelsz-count", url: h.url(v, "lsz", fmt.Sprintf("count/%d/%s", l, it)), canon: fmt.Sprintf("%s %d:%d", it, l, counts[l][it]), size: counts[l][it],
					eval: func(r drv.Resp) ([]string, error) {
						var g lszEntry
						if err := json.Unmarshal(r.Body, &g); err != nil {
							return nil, err
						}
						if g["Label"] != l || g[it] != uint64(counts[l][it]) {
							return []string{fmt.Sprintf("label %d %s: got %v, elements on that body give %d", l, it, map[string]uint64(g), counts[l][it])}, nil
						}
						return nil, nil
					}})
			}
			ranked := am.Ranked(counts, it, 1)
			rankEval := func(exp []am.LabelSize, what string) func(r drv.Resp) ([]string, error) {
				return func(r drv.Resp) ([]string, error) {
					var got []am.LabelSize
					if err := json.Unmarshal(r.Body, &got); err != nil {
						return nil, err
					}
					var bad []string
					if len(got) != len(exp) {
						bad = append(bad, fmt.Sprintf("%s returned %d labels, expected %d (%v vs %v)", what, len(got), len(exp), got, exp))
					}
					seen := map[uint64]bool{}
					for i, g := range got {
						if seen[g.Label] {
							bad = append(bad, fmt.Sprintf("label %d listed twice", g.Label))
						}
						seen[g.Label] = true
						if int(g.Size) != counts[g.Label][it] {
							bad = append(bad, fmt.Sprintf("label %d listed with %s=%d, elements on that body give %d", g.Label, it, g.Size, counts[g.Label][it]))
						}
						// sizes must be the expected sizes in descending order (the order among equal sizes is not specified)
						if i < len(exp) && g.Size != exp[i].Size {
							bad = append(bad, fmt.Sprintf("rank %d has size %d, expected %d (%v vs %v)", i, g.Size, exp[i].Size, got, exp))
						}
					}
					return bad, nil
				}
			}
			expTop := ranked
			if len(expTop) > nTop {
				expTop = expTop[:nTop]
			}
			out = append(out, check{view: "labelsz-top", url: h.url(v, "lsz", fmt.Sprintf("top/%d/%s", nTop, it)), canon: fmt.Sprintf("%s top%d %v", it, nTop, expTop), size: len(expTop), eval: rankEval(expTop, "top")})
			expThr := am.Ranked(counts, it, thr)
			out = append(out, check{view: "labelsz-threshold", url: h.url(v, "lsz", fmt.Sprintf("threshold/%d/%s", thr, it)), canon: fmt.Sprintf("%s thr%d %v", it, thr, expThr), size: len(expThr), eval: rankEval(expThr, "threshold")})
			return out
		}
		prim := mk(counts)
		if it == "AllSyn" && v.lszReloaded {
			ac := mk(inflate(counts))
			for i := range prim {
				prim[i].alts = append(prim[i].alts, alt{key: keyReloadAllSy, eval: ac[i].eval, cont: func() { v.taintAllSyn = true }})
			}
		}
		if altBody != nil {
			nc := v.elems.CountsFn(altBody)
			ac := mk(nc)
			for i := range prim {
				prim[i].alts = append(prim[i].alts, alt{key: keyNegPoints, eval: ac[i].eval})
			}
			if it == "AllSyn" && v.lszReloaded {
				ac2 := mk(inflate(nc))
				for i := range prim {
					prim[i].alts = append(prim[i].alts, alt{key: keyNegPoints, eval: ac2[i].eval})
				}
			}
		}
		out = append(out, prim...)
	}
	return out
}

// ---------------------------------------------------------------------------------------

func (h *hist) openLeaves() []*vstate {
	var out []*vstate
	for _, v := range h.vs {
		if !v.locked {
			out = append(out, v)
		}
	}
	return out
}

func (h *hist) run(nops int) error {
	if err := h.setup(); err != nil || h.dead {
		return err
	}
	nvers := 0
	for i := 0; i < nops && !h.dead; i++ {
		h.risky = i*10 >= nops*6
		open := h.openLeaves()
		v := open[h.r.Intn(len(open))]
		x := h.r.Intn(100)
		var err error
		switch {
		case x < 16:
			err = h.opPostNew(v, 1+h.r.Intn(3))
		case x < 28:
			err = h.opPostOverwrite(v)
		case x < 33:
			var done bool
			if done, err = h.opTagSwap(v); !done && err == nil {
				err = h.opPostNew(v, 2)
			}
		case x < 42:
			err = h.opDelete(v)
		case x < 58:
			err = h.opMove(v)
		case x < 64:
			err = h.opBlocksReload(v)
		case x < 72:
			err = h.opMerge(v)
		case x < 79:
			err = h.opCleave(v)
		case x < 82:
			err = h.opSplitSV(v)
		case x < 85:
			err = h.opSplitBody(v)
		case x < 92:
			err = h.opMutate(v)
		case x < 95:
			err = h.opIngest(v)
		default:
			if nvers >= 3 || len(v.elems.E) == 0 {
				err = h.opPostNew(v, 2)
				break
			}
			nvers++
			var nv *vstate
			if len(h.vs) >= 2 && h.r.Intn(3) == 0 {
				// branch off a committed ancestor
				var locked []*vstate
				for _, a := range h.vs {
					if a.locked {
						locked = append(locked, a)
					}
				}
				if nv, err = h.opBranch(locked[h.r.Intn(len(locked))]); err != nil {
					return err
				}
			} else {
				parent := v
				if nv, err = h.opNewVersion(v); err != nil {
					return err
				}
				// the committed parent must show exactly what it showed before
				if err = h.compare(parent); err != nil || h.dead {
					return err
				}
			}
			v = nv
		}
		if err != nil {
			return err
		}
		if h.dead {
			break
		}
		if err := h.compare(v); err != nil {
			return err
		}
	}
	if h.dead {
		if h.incon {
			h.c.Count("histories_abandoned_inconclusive", 1)
		} else {
			h.c.Count("histories_stopped_at_first_violation", 1)
		}
		return nil
	}
	// final sweep: every version, ancestors included
	for _, v := range h.vs {
		h.opClass, h.opNT = "final-sweep", len(v.elems.E) > 0
		if v.locked {
			h.opClass = "final-sweep:committed-ancestor"
		}
		if err := h.compare(v); err != nil || h.dead {
			return err
		}
	}
	h.c.Count("histories_completed", 1)
	h.c.Count("versions_swept", len(h.vs))
	return nil
}

func run(c *drv.Ctx) error {
	c.Rule("a case is one view comparison (GET elements/<size>/<offset>, blocks/<size>/<offset>, all-elements, roi/<spec>, tag/<t> and label/<l> with and without relationships, labelsz count / counts / top / threshold per index type) " +
		"after one operation of a random sequential history on a small version DAG (commit + newversion / branch; committed ancestors are compared again), after the worker settled; operations: POST elements (new / overwrite / mutual and one-sided relationships / " +
		"tag swap inside one block), DELETE element, move (same or other block; same body, other body, background), POST blocks + reload (in-memory or low-memory) + labelsz reload, and merge / cleave / split-supervoxel / split / POST raw?mutate=true / " +
		"first-time block ingest on the synced labelmap; positions straddle block borders (…31|32…, 63|64) and supervoxel borders and lie on background outside any label block; every fifth history has its whole label volume at negative coordinates (origin −32,−32,−32, so −1|0 is a block border between labelled voxels). Four operation classes have known, reported defects; " +
		"every history may use exactly one of them (history index mod 5: none / overwrite with another kind / cleave under an element at negative coordinates / move within one body / voxel writes under elements on merged or cleaved supervoxels) and only in its last 40%, " +
		"so all histories explore the rest first and a history stops at its first fatal violation (model and server have diverged). " +
		"A case is non-trivial when the expected view holds >= 2 elements or the last operation touched an element with tags or relationships; distinct by (view kind, class of the last operation, expected content)")
	c.Assume("the label volume is a fixture here: the model's body at every element position is cross-checked against the labelmap's own GET label/<coord>; a disagreement aborts the run as BROKEN instead of producing a verdict")
	c.Assume("relationship consistency is asserted for mutual references only; one-sided references whose target was deleted or moved may be kept, dropped or retargeted")
	c.Assume("completion of the asynchronous annotation / labelsz reloads is read from the server log line written at their end")
	bin, err := c.Build("dvidw", "")
	if err != nil {
		return err
	}
	nh := c.N(30, 400)
	if s := os.Getenv("C13_HISTORIES"); s != "" {
		fmt.Sscanf(s, "%d", &nh)
	}
	nw := 5
	if !c.Quick() {
		nw = 12
	}
	if nw > nh {
		nw = nh
	}
	type job struct {
		i    int
		seed int64
	}
	jobs := make(chan job, nh)
	for i := 0; i < nh; i++ {
		jobs <- job{i, c.Rand.Int63()}
	}
	close(jobs)
	var wg sync.WaitGroup
	errs := make(chan error, nw+nh+2)
	for wi := 0; wi < nw; wi++ {
		wg.Add(1)
		go func(wi int) {
			defer wg.Done()
			dir, err := c.NewDataDir(fmt.Sprintf("w%d", wi), drv.ConfOpts{})
			if err != nil {
				errs <- err
				return
			}
			w, err := drv.StartWorker(bin, dir, drv.StartOpts{})
			if err != nil {
				errs <- err
				return
			}
			defer w.Kill()
			lw := &logWatch{path: filepath.Join(dir, "dvid.log")}
			for j := range jobs {
				r := rand.New(rand.NewSource(j.seed))
				feature := []string{"", "kind", "neg", "samebody", "mapped"}[j.i%5]
				h := &hist{c: c, w: w, cl: &dvc.Client{W: w}, r: r, tag: fmt.Sprintf("h%d", j.i), lw: lw, neg: feature == "neg", feature: feature}
				nops := 10 + r.Intn(51)
				if c.Quick() {
					nops = 10 + r.Intn(31)
				}
				err := h.run(nops)
				c.Count("operations", len(h.trace))
				if err != nil {
					if err == drv.ErrWatchdog || strings.Contains(err.Error(), "watchdog") {
						c.Inconclusive(fmt.Sprintf("history %s: %v", h.tag, err))
						return
					}
					errs <- fmt.Errorf("worker %d history %s: %v; stderr: %s", wi, h.tag, err, drv.Trunc(drv.FatalInStderr(w.Stderr()), 600))
					return
				}
			}
		}(wi)
	}
	wg.Add(1)
	go func() {
		defer wg.Done()
		if err := bulkTagReload(c, bin); err != nil {
			if err == drv.ErrWatchdog || strings.Contains(err.Error(), "watchdog") {
				c.Inconclusive(fmt.Sprintf("bulk tag reload: %v", err))
				return
			}
			errs <- fmt.Errorf("bulk tag reload: %v", err)
		}
	}()
	wg.Wait()
	close(errs)
	var all []string
	for e := range errs {
		all = append(all, e.Error())
	}
	if len(all) > 0 {
		sort.Strings(all)
		return fmt.Errorf("%s", strings.Join(all, " | "))
	}
	return nil
}
