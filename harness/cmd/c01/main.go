// C01 — versioned reads resolve to the nearest ancestor write in the version DAG.
// Oracle: the maximal-live-candidate model (dvc.VMap) over (1) the resolver called on synthetic
// entry placements for enumerated / sampled DAG shapes, (2) real HTTP histories on keyvalue instances.
package main

import (
	"encoding/json"
	"fmt"
	"math/rand"
	"sort"
	"strings"
	"sync"

	"verif/harness/internal/drv"
	"verif/harness/internal/dvc"
)

func main() { drv.Main("C01", "exploration", run) }

// ---------- shape enumeration ----------

func perms(xs []int) [][]int {
	if len(xs) <= 1 {
		return [][]int{append([]int{}, xs...)}
	}
	var out [][]int
	for i := range xs {
		rest := append(append([]int{}, xs[:i]...), xs[i+1:]...)
		for _, p := range perms(rest) {
			out = append(out, append([]int{xs[i]}, p...))
		}
	}
	return out
}

// parentChoices lists every ordered, non-empty parent list for node i (subset of 0..i-1, size <= maxPar).
func parentChoices(i, maxPar int) [][]int {
	var out [][]int
	for mask := 1; mask < 1<<uint(i); mask++ {
		var s []int
		for b := 0; b < i; b++ {
			if mask&(1<<uint(b)) != 0 {
				s = append(s, b)
			}
		}
		if len(s) > maxPar {
			continue
		}
		out = append(out, perms(s)...)
	}
	return out
}

func allShapes(n, maxPar int) [][][]int {
	shapes := [][][]int{{{}}}
	for i := 1; i < n; i++ {
		var next [][][]int
		ch := parentChoices(i, maxPar)
		for _, s := range shapes {
			for _, c := range ch {
				ns := append(append([][]int{}, s...), c)
				next = append(next, ns)
			}
		}
		shapes = next
	}
	return shapes
}

func randomShape(r *rand.Rand, n int) [][]int {
	s := [][]int{{}}
	for i := 1; i < n; i++ {
		k := 1
		if i >= 2 && r.Intn(100) < 45 {
			k = 2 + r.Intn(3)
			if k > i {
				k = i
			}
		}
		p := r.Perm(i)[:k]
		// bias single parents towards recent nodes so that chains and deep shapes appear
		if k == 1 && r.Intn(2) == 0 {
			p = []int{i - 1 - r.Intn(min(i, 2))}
		}
		s = append(s, p)
	}
	return s
}

func shapeKey(s [][]int) string {
	var parts []string
	for _, p := range s {
		var q []string
		for _, x := range p {
			q = append(q, fmt.Sprint(x))
		}
		parts = append(parts, strings.Join(q, "+"))
	}
	return strings.Join(parts, ",")
}

func allPlacements(n int) []string {
	out := []string{""}
	for i := 0; i < n; i++ {
		var next []string
		for _, s := range out {
			for _, c := range "-vt" {
				next = append(next, s+string(c))
			}
		}
		out = next
	}
	return out
}

func randPlacement(r *rand.Rand, n int) string {
	b := make([]byte, n)
	for i := range b {
		b[i] = "-vvt"[r.Intn(4)]
	}
	return string(b)
}

// ---------- layer 1: resolver ----------

type qres struct {
	Best []int `json:"best"`
	KV   []int `json:"kv"`
}

func modelFor(shape [][]int, pl string) (*dvc.VMap, []string) {
	names := make([]string, len(shape))
	for i := range shape {
		names[i] = fmt.Sprintf("n%02d", i)
	}
	d := dvc.NewDAG(names[0])
	for i := 1; i < len(shape); i++ {
		var ps []string
		for _, p := range shape[i] {
			ps = append(ps, names[p])
		}
		d.AddChild(names[i], ps, "")
	}
	m := dvc.NewVMap(d)
	for i := range shape {
		switch pl[i] {
		case 'v':
			m.Put("k", names[i], fmt.Sprint(i))
		case 't':
			m.Del("k", names[i])
		}
	}
	return m, names
}

func checkResolver(c *drv.Ctx, w *drv.Worker, shape [][]int, pls []string, shuffle int64) error {
	var b struct {
		ID string `json:"id"`
	}
	if err := w.API("resolver.build", map[string]interface{}{"parents": shape}, &b); err != nil {
		if _, ok := err.(*drv.APIError); ok {
			c.Count("resolver_shapes_rejected_by_api", 1)
			c.Seen("rejected_shape_reasons", drv.Trunc(err.Error(), 80))
			return nil
		}
		return err
	}
	var res []qres
	if err := w.API("resolver.query", map[string]interface{}{"id": b.ID, "placements": pls, "shuffle": shuffle}, &res); err != nil {
		return err
	}
	sk := shapeKey(shape)
	c.Seen("dag_shapes", sk)
	for pi, pl := range pls {
		m, names := modelFor(shape, pl)
		for q := range shape {
			exp := m.Read("k", names[q])
			key := "resolver|" + sk + "|" + pl + "|" + fmt.Sprint(q)
			c.Case(key, exp.NCand >= 2)
			c.Count("resolver_reads", 2)
			for api, got := range map[string]int{"GetBestKeyVersion": res[pi].Best[q], "VersionedKeyValue": res[pi].KV[q]} {
				bad := ""
				switch exp.Kind {
				case dvc.Absent:
					if got != -1 {
						bad = fmt.Sprintf("expected not-found, got %s", describe(got))
					}
				case dvc.Value:
					want := 0
					fmt.Sscanf(exp.Val, "%d", &want)
					if got != want {
						bad = fmt.Sprintf("expected the entry of node %d, got %s", want, describe(got))
					}
				case dvc.Conflict:
					c.Count("conflict_cases", 1)
					if got >= 0 {
						bad = fmt.Sprintf("two unsuperseded live values %v remain, yet the read succeeded with %s", exp.Vals, describe(got))
					}
				}
				if bad != "" {
					c.Violation("resolver:"+sk+":"+pl+":q"+fmt.Sprint(q)+":"+api,
						fmt.Sprintf("%s at node %d of DAG parents=%s with placement %q (v=value,t=tombstone,-=nothing per node): %s", api, q, sk, pl, bad),
						map[string]interface{}{"layer": "resolver", "parents": shape, "placement": pl, "query": q, "shuffle": shuffle, "api": api, "got": got, "model": exp})
				}
			}
		}
		if pi == 0 && c.SeenCount("dag_shapes") <= 3 {
			c.Sample(map[string]interface{}{"layer": "resolver", "parents": sk, "placement": pl, "best": res[pi].Best, "kv": res[pi].KV})
		}
	}
	return nil
}

func describe(g int) string {
	switch g {
	case -1:
		return "not-found"
	case -2:
		return "an error"
	case -3:
		return "a tombstone returned as data"
	case -4:
		return "a value that does not belong to the returned key"
	}
	return fmt.Sprintf("the entry of node %d", g)
}

// ---------- layer 3: HTTP histories ----------

var keyPool = []string{"a", "aa", "a0", "ab", "b", "k1", "k10", "zz"}

func httpHistory(c *drv.Ctx, w *drv.Worker, r *rand.Rand, tag string, nops int) error {
	cl := &dvc.Client{W: w}
	h, err := dvc.NewHist(cl, r, tag)
	if err != nil {
		return err
	}
	if err := cl.NewInstance(h.Root, "keyvalue", "kv", nil); err != nil {
		return err
	}
	if err := cl.NewInstance(h.Root, "keyvalue", "ukv", map[string]string{"versioned": "false"}); err != nil {
		return err
	}
	// sibling repo that writes the same key names: must never leak
	sib, err := cl.NewRepo("sib-" + tag)
	if err != nil {
		return err
	}
	if err := cl.NewInstance(sib, "keyvalue", "kv", nil); err != nil {
		return err
	}
	m := dvc.NewVMap(h.D)
	uk := map[string]*string{}
	seq := 0
	var trace []string
	check := func(key, v string) error {
		exp := m.Read(key, v)
		rr, err := w.Get("/api/node/" + v + "/kv/key/" + key)
		if err != nil {
			return err
		}
		c.Count("http_point_reads", 1)
		c.Case("http|"+h.D.Shape()+"|"+key+"|"+h.Short(v)+"|"+fmt.Sprint(len(trace)), exp.NCand >= 2)
		bad := ""
		switch exp.Kind {
		case dvc.Absent:
			if rr.Status != 404 {
				bad = fmt.Sprintf("expected 404, got %s", rr)
			}
		case dvc.Value:
			if rr.Status != 200 || string(rr.Body) != exp.Val {
				bad = fmt.Sprintf("expected 200 %q (written at %s), got %s", exp.Val, h.Short(exp.From), rr)
			}
		case dvc.Conflict:
			c.Count("conflict_cases", 1)
			if rr.Status == 200 {
				bad = fmt.Sprintf("unsuperseded live values %v remain, yet GET succeeded with %q", exp.Vals, string(rr.Body))
			}
		}
		if bad != "" {
			c.Violation("http:kv:"+tag+":"+key+"@"+h.Short(v), fmt.Sprintf("GET key %q at %s: %s; history: %s", key, h.Short(v), bad, strings.Join(trace, "; ")),
				map[string]interface{}{"layer": "http", "trace": trace, "key": key, "version": h.Short(v), "model": exp, "got_status": rr.Status, "got_body": string(rr.Body)})
		}
		// the same datum read through the range path (its own resolver): the one-key interval [key, key] and the interval
		// from the smallest key name up to this key must list the key exactly when the model says it has a value at v
		if exp.Kind != dvc.Conflict {
			for _, lo := range []string{key, "0"} {
				kr, err := w.Get("/api/node/" + v + "/kv/keyrange/" + lo + "/" + key)
				if err != nil {
					return err
				}
				c.Count("http_range_reads", 1)
				var ks []string
				listed := false
				if kr.Status == 200 && json.Unmarshal(kr.Body, &ks) == nil {
					for _, k := range ks {
						if k == key {
							listed = true
						}
					}
				}
				if kr.Status == 200 && listed != (exp.Kind == dvc.Value) {
					c.Violation("http:kv-range:"+tag+":"+key+"@"+h.Short(v), fmt.Sprintf("GET keyrange/%s/%s at %s lists %v but the model says key %q is %v there (point read: %d); history: %s", lo, key, h.Short(v), ks, key, exp.Kind, rr.Status, strings.Join(trace, "; ")),
						map[string]interface{}{"layer": "http-range", "trace": trace, "key": key, "version": h.Short(v), "model": exp, "listed": ks})
					break
				}
			}
		}
		// unversioned instance: one state for the whole repo
		ur, err := w.Get("/api/node/" + v + "/ukv/key/" + key)
		if err != nil {
			return err
		}
		if want := uk[key]; want == nil {
			if ur.Status != 404 {
				c.Violation("http:ukv:"+tag+":"+key, fmt.Sprintf("unversioned GET key %q at %s: expected 404 got %s; history: %s", key, h.Short(v), ur, strings.Join(trace, "; ")), trace)
			}
		} else if ur.Status != 200 || string(ur.Body) != *want {
			c.Violation("http:ukv:"+tag+":"+key, fmt.Sprintf("unversioned GET key %q at %s: expected %q got %s; history: %s", key, h.Short(v), *want, ur, strings.Join(trace, "; ")), trace)
		}
		return nil
	}
	for i := 0; i < nops; i++ {
		x := r.Intn(100)
		open := h.D.Open()
		switch {
		case x < 45 && len(open) > 0: // write or delete at an open node
			v := open[r.Intn(len(open))]
			key := keyPool[r.Intn(len(keyPool))]
			if r.Intn(100) < 70 {
				seq++
				val := fmt.Sprintf("%s#%d@%s", key, seq, h.Short(v))
				rr, err := w.Post("/api/node/"+v+"/kv/key/"+key, []byte(val))
				if err != nil {
					return err
				}
				if !rr.OK() {
					c.Violation("http:put-refused", fmt.Sprintf("POST key at open node refused: %s", rr), trace)
					continue
				}
				m.Put(key, v, val)
				trace = append(trace, fmt.Sprintf("put %s@%s", key, h.Short(v)))
				// sibling repo writes the same key with another value
				if r.Intn(3) == 0 {
					w.Post("/api/node/"+sib+"/kv/key/"+key, []byte("SIBLING-"+val))
				}
			} else {
				rr, err := w.Delete("/api/node/" + v + "/kv/key/" + key)
				if err != nil {
					return err
				}
				if !rr.OK() {
					c.Violation("http:delete-refused", fmt.Sprintf("DELETE key at open node refused: %s", rr), trace)
					continue
				}
				m.Del(key, v)
				trace = append(trace, fmt.Sprintf("del %s@%s", key, h.Short(v)))
			}
		case x < 55: // unversioned write through any uuid
			v := h.D.Order[r.Intn(len(h.D.Order))]
			key := keyPool[r.Intn(len(keyPool))]
			if r.Intn(4) > 0 {
				seq++
				val := fmt.Sprintf("u-%s#%d", key, seq)
				rr, err := w.Post("/api/node/"+v+"/ukv/key/"+key, []byte(val))
				if err != nil {
					return err
				}
				if rr.OK() {
					uk[key] = &val
					trace = append(trace, fmt.Sprintf("uput %s via %s", key, h.Short(v)))
				}
			} else {
				rr, err := w.Delete("/api/node/" + v + "/ukv/key/" + key)
				if err != nil {
					return err
				}
				if rr.OK() {
					uk[key] = nil
					trace = append(trace, fmt.Sprintf("udel %s via %s", key, h.Short(v)))
				}
			}
		case x < 80:
			n0 := len(h.Ops)
			if _, err := h.StepDAG(); err != nil {
				if dvc.IsWorkerErr(err) {
					return err
				}
				c.Violation("http:dag-op-refused", fmt.Sprintf("legal DAG operation refused: %v; history: %s", err, strings.Join(trace, "; ")), trace)
			}
			trace = append(trace, h.Ops[n0:]...)
		default: // interleaved read
			v := h.D.Order[r.Intn(len(h.D.Order))]
			if err := check(keyPool[r.Intn(len(keyPool))], v); err != nil {
				return err
			}
		}
	}
	// final sweep: every key at every version
	for _, v := range h.D.Order {
		for _, key := range keyPool {
			if err := check(key, v); err != nil {
				return err
			}
		}
	}
	c.Seen("http_dag_shapes", h.D.Shape())
	c.Count("http_histories", 1)
	c.Count("http_ops", len(trace))
	if c.SeenCount("http_dag_shapes") <= 2 {
		c.Sample(map[string]interface{}{"layer": "http", "trace": trace})
	}
	return nil
}

// ---------- run ----------

func run(c *drv.Ctx) error {
	c.Rule("layer resolver: DAG shapes (ordered parent lists per node; every permutation of merge parents is a separate shape) x placements of value/tombstone/nothing per node x queried node, " +
		"entries shuffled before each call; thorough enumerates all shapes with <=5 nodes (<=4 parents) and all 3^n placements, plus sampled shapes up to 10 nodes; " +
		"layer http: random legal interleavings of put/delete/commit/newversion/branch/merge on a versioned and an unversioned keyvalue instance with a sibling repo writing the same keys; " +
		"a case is one read; it is non-trivial when the queried version has >=2 candidate entries in its ancestry; distinct by (shape, placement, query) resp. (shape, key, version, history position)")
	c.Assume("wrapper engines add no semantics: crashkv delegates every call to storage/badger")
	bin, err := c.Build("dvidw", "")
	if err != nil {
		return err
	}

	// work list for the resolver layer
	type job struct {
		shape [][]int
		pls   []string
		shuf  int64
	}
	var jobs []job
	r := c.Rand
	if c.Quick() {
		for n := 2; n <= 5; n++ {
			for _, s := range allShapes(n, 4) {
				jobs = append(jobs, job{s, allPlacements(n), r.Int63()})
			}
		}
		c.Extra("exhaustive_slice", "all DAG shapes with <=5 nodes and <=4 ordered merge parents x all 3^n placements x all query nodes")
		// sampled 6..9-node shapes
		for i := 0; i < 150; i++ {
			n := 6 + r.Intn(4)
			var pls []string
			for j := 0; j < 40; j++ {
				pls = append(pls, randPlacement(r, n))
			}
			jobs = append(jobs, job{randomShape(r, n), pls, r.Int63()})
		}
	} else {
		for n := 2; n <= 5; n++ {
			for _, s := range allShapes(n, 4) {
				jobs = append(jobs, job{s, allPlacements(n), r.Int63()})
			}
		}
		c.Extra("exhaustive_slice", "all DAG shapes with <=5 nodes and <=4 ordered merge parents x all 3^n placements x all query nodes")
		for i := 0; i < 3000; i++ {
			n := 6 + r.Intn(5)
			var pls []string
			for j := 0; j < 60; j++ {
				pls = append(pls, randPlacement(r, n))
			}
			jobs = append(jobs, job{randomShape(r, n), pls, r.Int63()})
		}
	}
	nw := 8
	if c.Quick() {
		nw = 6
	}
	var wg sync.WaitGroup
	errs := make(chan error, nw+8)
	jch := make(chan job, len(jobs))
	for _, j := range jobs {
		jch <- j
	}
	close(jch)
	for wi := 0; wi < nw; wi++ {
		wg.Add(1)
		go func(wi int) {
			defer wg.Done()
			dir, err := c.NewDataDir(fmt.Sprintf("res%d", wi), drv.ConfOpts{})
			if err != nil {
				errs <- err
				return
			}
			w, err := drv.StartWorker(bin, dir, drv.StartOpts{})
			if err != nil {
				errs <- err
				return
			}
			defer w.Kill()
			for j := range jch {
				if err := checkResolver(c, w, j.shape, j.pls, j.shuf); err != nil {
					errs <- fmt.Errorf("resolver worker %d: %v; stderr: %s", wi, err, drv.FatalInStderr(w.Stderr()))
					return
				}
			}
		}(wi)
	}

	// HTTP layer in parallel
	nh := c.N(24, 600)
	hw := 4
	hch := make(chan int, nh)
	for i := 0; i < nh; i++ {
		hch <- i
	}
	close(hch)
	seeds := make([]int64, nh)
	for i := range seeds {
		seeds[i] = r.Int63()
	}
	for wi := 0; wi < hw; wi++ {
		wg.Add(1)
		go func(wi int) {
			defer wg.Done()
			dir, err := c.NewDataDir(fmt.Sprintf("http%d", wi), drv.ConfOpts{})
			if err != nil {
				errs <- err
				return
			}
			w, err := drv.StartWorker(bin, dir, drv.StartOpts{})
			if err != nil {
				errs <- err
				return
			}
			defer w.Kill()
			for i := range hch {
				rr := rand.New(rand.NewSource(seeds[i]))
				if err := httpHistory(c, w, rr, fmt.Sprintf("h%d", i), 50+rr.Intn(40)); err != nil {
					errs <- fmt.Errorf("http worker %d history %d: %v; stderr: %s", wi, i, err, drv.FatalInStderr(w.Stderr()))
					return
				}
			}
		}(wi)
	}
	wg.Wait()
	close(errs)
	var all []string
	for e := range errs {
		all = append(all, e.Error())
	}
	if len(all) > 0 {
		sort.Strings(all)
		return fmt.Errorf("%s", strings.Join(all, " | "))
	}
	if !c.Quick() {
		c.Extra("exhaustive_note", "exhaustive:true refers to the <=5-node resolver slice only; larger shapes and HTTP histories are sampled")
	}
	return nil
}

func min(a, b int) int {
	if a < b {
		return a
	}
	return b
}
