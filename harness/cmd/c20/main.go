// C20 — no request can crash the server; malformed ones are rejected harmlessly.
// Monitors: liveness of the worker process (exit, fatal error, unrecovered panic, sanitizer / checkptr
// abort), recovered-panic responses, status class, and the full read snapshot of the target version
// before/after every hostile batch (a rejected request must leave everything unchanged; an accepted one
// may only change its own sync group).  Hostile requests are structure-aware mutations of valid
// payloads for every ingestion / mutation endpoint plus syntactically hostile URLs.
package main

import (
	"encoding/binary"
	"fmt"
	"math/rand"
	"os"
	"path/filepath"
	"regexp"
	"sort"
	"strconv"
	"strings"
	"sync"
	"time"

	"verif/harness/internal/drv"
	"verif/harness/internal/lmwire"
	"verif/harness/internal/mixed"
)

func main() { drv.Main("C20", "exploration", run) }

type hreq struct {
	inst   string
	method string
	path   string
	body   []byte
	class  string // endpoint class: type:keyword
	mut    string // mutation kind
	valid  bool   // unmutated well-formed request
}

// ---------- payload population ----------

func extraPayloads(wd *mixed.World, at string) []mixed.CatEntry {
	var es []mixed.CatEntry
	// labelmap POST blocks (compressed block stream), two blocks
	mk := func(seed uint64) []uint64 {
		v := make([]uint64, 32*32*32)
		for i := range v {
			v[i] = 800000 + seed + uint64((i/512)%5)
		}
		return v
	}
	if bs, err := lmwire.EncodeBlockStream([]lmwire.PosBlock{{X: 0, Y: 0, Z: 0, Vox: mk(1)}, {X: 1, Y: 0, Z: 0, Vox: mk(7)}}, [3]int{32, 32, 32}); err == nil {
		es = append(es, mixed.CatEntry{Inst: "lm", Method: "POST", Path: "blocks", Body: bs})
		es = append(es, mixed.CatEntry{Inst: "lm", Method: "POST", Path: "ingest-supervoxels", Body: bs})
	}
	li := &lmwire.LabelIndex{Label: 800001, Blocks: map[[3]int32]map[uint64]uint32{{0, 0, 0}: {800001: 512}}, LastMut: 5}
	es = append(es, mixed.CatEntry{Inst: "lm", Method: "POST", Path: "index/800001", Body: lmwire.EncodeLabelIndex(li)})
	es = append(es, mixed.CatEntry{Inst: "lm", Method: "POST", Path: "indices", Body: lmwire.EncodeLabelIndices([]*lmwire.LabelIndex{li})})
	es = append(es, mixed.CatEntry{Inst: "lm", Method: "POST", Path: "mappings", Body: lmwire.EncodeMappingOps([]lmwire.MappingOp{{MutID: 9, Mapped: 800001, Original: []uint64{800002, 800003}}})})
	// reads with bodies / options
	es = append(es, mixed.CatEntry{Inst: "lm", Method: "GET", Path: "labels", Body: []byte(`[[1,2,3],[40,41,42]]`)})
	es = append(es, mixed.CatEntry{Inst: "lm", Method: "GET", Path: "mapping", Body: []byte(`[1,2,3]`)})
	es = append(es, mixed.CatEntry{Inst: "lm", Method: "GET", Path: "sizes", Body: []byte(`[1,2,3]`)})
	es = append(es, mixed.CatEntry{Inst: "lm", Method: "GET", Path: "specificblocks?blocks=0,0,0,1,1,1"})
	es = append(es, mixed.CatEntry{Inst: "lm", Method: "GET", Path: "blocks/64_64_64/0_0_0"})
	es = append(es, mixed.CatEntry{Inst: "lm", Method: "GET", Path: "raw/0_1_2/64_64_64/0_0_0"})
	es = append(es, mixed.CatEntry{Inst: "syn", Method: "GET", Path: "elements/64_64_64/0_0_0"})
	es = append(es, mixed.CatEntry{Inst: "nj", Method: "POST", Path: "query", Body: []byte(`[{"type":"T1"},{"n":[1,2]},{"type":"re/^T"},{"extra":"exists/1"}]`)})
	es = append(es, mixed.CatEntry{Inst: "nj", Method: "GET", Path: "keyvalues?jsontar=false", Body: []byte(`["1001","1002"]`)})
	es = append(es, mixed.CatEntry{Inst: "kv", Method: "GET", Path: "keyvalues?json=true", Body: []byte(`["a","b"]`)})
	es = append(es, mixed.CatEntry{Inst: "roi", Method: "GET", Path: "mask/0_1_2/64_64_64/0_0_0"})
	es = append(es, mixed.CatEntry{Inst: "roi", Method: "GET", Path: "partition?batchsize=2"})
	es = append(es, mixed.CatEntry{Inst: "img", Method: "GET", Path: "raw/0_1_2/64_64_64/-16_-16_-16"})
	es = append(es, mixed.CatEntry{Inst: "img", Method: "GET", Path: "raw/0_1/64_64/0_0_5"})
	es = append(es, mixed.CatEntry{Inst: "img", Method: "GET", Path: "subvolblocks/64_64_64/0_0_0?compression=uncompressed"})
	// throttled requests ("throttle=true": at most MaxThrottledOps such requests are served at a time, the rest get 503):
	// accepted ones, and ones that carry a body of the right length but are refused for what they ask
	img := make([]byte, 32*32*32)
	for i := range img {
		img[i] = byte(i%251 + 1)
	}
	for _, q := range []string{"raw/0_1_2/32_32_32/0_0_0?throttle=true", "raw/0_1_2/32_32_32/1_0_0?throttle=true", "raw/0_1_2/32_32_32/32_0_0?throttle=true&roi=nosuchroi", "raw/0_1_2/32_32_32/0_32_0?throttle=on&mutate=true"} {
		es = append(es, mixed.CatEntry{Inst: "img", Method: "POST", Path: q, Body: img})
	}
	es = append(es, mixed.CatEntry{Inst: "img", Method: "GET", Path: "raw/0_1_2/32_32_32/0_0_0?throttle=true"})
	es = append(es, mixed.CatEntry{Inst: "lm", Method: "GET", Path: "raw/0_1_2/64_64_64/0_0_0?throttle=true"})
	es = append(es, mixed.CatEntry{Inst: "lm", Method: "POST", Path: "raw/0_1_2/32_32_32/0_0_0?throttle=true", Body: lmwire.EncodeVolume(mk(3))})
	// documented endpoints no workload of another property issues (appendix C of DESIGN.md): instance tags, settings,
	// metadata, rendered views, bulk and log readers
	for _, inst := range []string{"lm", "kv", "syn", "nj", "img", "roi", "lsz"} {
		es = append(es, mixed.CatEntry{Inst: inst, Method: "GET", Path: "help"})
		es = append(es, mixed.CatEntry{Inst: inst, Method: "POST", Path: "info", Body: []byte(`{"note": "x"}`)})
	}
	for _, inst := range []string{"lm", "kv", "syn", "nj"} {
		es = append(es, mixed.CatEntry{Inst: inst, Method: "GET", Path: "tags"})
		es = append(es, mixed.CatEntry{Inst: inst, Method: "POST", Path: "tags", Body: []byte(`{"t1": "anything", "t2": "else"}`)})
		es = append(es, mixed.CatEntry{Inst: inst, Method: "POST", Path: "tags?replace=true", Body: []byte(`{}`)})
	}
	es = append(es, mixed.CatEntry{Inst: "lm", Method: "GET", Path: "metadata"})
	es = append(es, mixed.CatEntry{Inst: "lm", Method: "GET", Path: "isotropic/0_1/64_64/0_0_10"})
	es = append(es, mixed.CatEntry{Inst: "lm", Method: "GET", Path: "pseudocolor/0_1/64_64/0_0_10"})
	es = append(es, mixed.CatEntry{Inst: "lm", Method: "GET", Path: "sparsevols-coarse/1/60"})
	es = append(es, mixed.CatEntry{Inst: "lm", Method: "GET", Path: "indices-compressed", Body: []byte(`[1,2,3,800001]`)})
	es = append(es, mixed.CatEntry{Inst: "lm", Method: "GET", Path: "mutations"})
	es = append(es, mixed.CatEntry{Inst: "lm", Method: "GET", Path: "mutations?userid=gate"})
	es = append(es, mixed.CatEntry{Inst: "lm", Method: "GET", Path: "mutations-range/" + wd.Root + "/" + at})
	es = append(es, mixed.CatEntry{Inst: "lm", Method: "GET", Path: "map-stats"})
	es = append(es, mixed.CatEntry{Inst: "lm", Method: "POST", Path: "extents", Body: []byte(`{"MinPoint": [0,0,0], "MaxPoint": [127,127,127]}`)})
	es = append(es, mixed.CatEntry{Inst: "lm", Method: "POST", Path: "resolution", Body: []byte(`[8,8,8]`)})
	es = append(es, mixed.CatEntry{Inst: "img", Method: "GET", Path: "metadata"})
	es = append(es, mixed.CatEntry{Inst: "img", Method: "GET", Path: "arb/0_0_0/32_0_0/0_32_0/1"})
	es = append(es, mixed.CatEntry{Inst: "img", Method: "GET", Path: "rawkey?x=0&y=0&z=0"})
	es = append(es, mixed.CatEntry{Inst: "img", Method: "POST", Path: "extents", Body: []byte(`{"MinPoint": [0,0,0], "MaxPoint": [95,95,95]}`)})
	es = append(es, mixed.CatEntry{Inst: "img", Method: "POST", Path: "resolution", Body: []byte(`[8,8,8]`)})
	es = append(es, mixed.CatEntry{Inst: "kv", Method: "HEAD", Path: "key/a"})
	es = append(es, mixed.CatEntry{Inst: "kv", Method: "GET", Path: "mutations"})
	es = append(es, mixed.CatEntry{Inst: "roi", Method: "GET", Path: "erode/1"})
	// read endpoints whose arguments are path segments
	es = append(es, mixed.CatEntry{Inst: "lm", Method: "GET", Path: "proximity/1/2"})
	es = append(es, mixed.CatEntry{Inst: "lm", Method: "GET", Path: "sparsevol-by-point/10_10_10"})
	es = append(es, mixed.CatEntry{Inst: "lm", Method: "GET", Path: "label/10_10_10"})
	es = append(es, mixed.CatEntry{Inst: "lm", Method: "GET", Path: "supervoxels/1"})
	es = append(es, mixed.CatEntry{Inst: "lm", Method: "GET", Path: "lastmod/1"})
	es = append(es, mixed.CatEntry{Inst: "lm", Method: "GET", Path: "index/1"})
	es = append(es, mixed.CatEntry{Inst: "syn", Method: "GET", Path: "label/1"})
	es = append(es, mixed.CatEntry{Inst: "syn", Method: "GET", Path: "tag/t1"})
	es = append(es, mixed.CatEntry{Inst: "lsz", Method: "GET", Path: "count/1/AllSyn"})
	es = append(es, mixed.CatEntry{Inst: "lsz", Method: "GET", Path: "top/3/AllSyn"})
	es = append(es, mixed.CatEntry{Inst: "lsz", Method: "GET", Path: "threshold/1/AllSyn"})
	return es
}

// random hostile tokens never ask for gigabytes: the huge-size family is probed by the fixed list in hugeProbes
var hostileNums = []string{"0", "-1", "1", "-64", "4096", "-4096", "99999999999", "18446744073709551616", "abc", "", "1e9", "0x10", "%00", "1_2", "+5", "3.5"}

// hugeProbes is a fixed (seed-independent) list of requests whose sizes or counts ask for absurd amounts of memory or work.
var hugeProbes = []struct{ inst, method, path string }{
	{"lm", "GET", "raw/0_1_2/64_64_2147483647/0_0_0"},
	{"lm", "GET", "raw/0_1_2/64_64_-2147483648/0_0_0"},
	{"lm", "GET", "blocks/64_64_2147483584/0_0_0"},
	{"lm", "GET", "blocks/64_64_-2147483648/0_0_0"},
	{"lm", "GET", "raw/0_1_2/64_64_64/2147483647_0_0"},
	{"lm", "GET", "label/2147483647_2147483647_2147483647"},
	{"lm", "GET", "size/18446744073709551615"},
	{"lm", "GET", "sparsevol/18446744073709551615"},
	{"lm", "GET", "sparsevol/0"},
	{"lm", "POST", "nextlabel/18446744073709551615"},
	{"lm", "POST", "nextlabel/4294967296"},
	{"lm", "POST", "maxlabel/18446744073709551615"},
	{"syn", "GET", "elements/64_64_2147483647/0_0_0"},
	{"syn", "GET", "elements/64_64_-2147483648/0_0_0"},
	{"syn", "GET", "elements/2147483647_2147483647_2147483647/-2147483648_-2147483648_-2147483648"},
	{"roi", "GET", "mask/0_1_2/64_2147483647_64/0_0_0"},
	{"roi", "GET", "mask/0_1_2/64_64_-2147483648/0_0_0"},
	{"roi", "GET", "partition?batchsize=2147483647"},
	{"roi", "GET", "partition?batchsize=0"},
	{"roi", "GET", "partition?batchsize=2&optimized=true"},
	{"img", "GET", "raw/0_1_2/64_64_2147483647/0_0_0"},
	{"img", "GET", "raw/0_1_2/64_64_-2147483648/0_0_0"},
	{"img", "GET", "raw/0_1/2147483647_2147483647/0_0_0"},
	{"img", "GET", "blocks/0_0_0/2147483647"},
	{"img", "GET", "blocks/0_0_0/-1"},
	{"img", "GET", "subvolblocks/2147483647_64_64/0_0_0"},
	{"kv", "GET", "keyrange/a/" + strings.Repeat("z", 70000)},
	{"nj", "GET", "keyrange/0/18446744073709551615"},
	{"nj", "GET", "key/18446744073709551616"},
}

// hostileURLs derives syntactically hostile variants of a path: each numeric run replaced by a hostile token.
func hostileURLs(r *rand.Rand, path string, n int) []string {
	var spans [][2]int
	i := 0
	q := strings.Index(path, "?")
	lim := len(path)
	if q >= 0 {
		lim = q
	}
	for i < lim {
		if (path[i] >= '0' && path[i] <= '9') || (path[i] == '-' && i+1 < lim && path[i+1] >= '0' && path[i+1] <= '9') {
			j := i + 1
			for j < lim && path[j] >= '0' && path[j] <= '9' {
				j++
			}
			spans = append(spans, [2]int{i, j})
			i = j
		} else {
			i++
		}
	}
	var out []string
	for k := 0; k < n && len(spans) > 0; k++ {
		sp := spans[r.Intn(len(spans))]
		out = append(out, path[:sp[0]]+hostileNums[r.Intn(len(hostileNums))]+path[sp[1]:])
	}
	if q >= 0 {
		out = append(out, path[:q]+"?compression=bogus&scale=255&supervoxels=maybe")
	} else {
		out = append(out, path+"?compression=bogus&scale=255", path+"/", path+"/extra/segments/1_2_3")
	}
	// arguments missing: the path cut after each of its segments (never down to nothing)
	base := path[:lim]
	for k := strings.LastIndex(base, "/"); k > 0; k = strings.LastIndex(base[:k], "/") {
		out = append(out, base[:k])
	}
	return out
}

var strValRe = regexp.MustCompile(`:\s*("[^"]*")`)
var numValRe = regexp.MustCompile(`:\s*(-?\d+)\b`)
var arrayNumRe = regexp.MustCompile(`([\[,]\s*)(-?\d+)`)
var blockKeyRe = regexp.MustCompile(`"-?\d+,-?\d+,-?\d+"\s*:`)
var swapRe = regexp.MustCompile(`(-?\d+)\s*,\s*(-?\d+)\s*\]`)

// mutateBody applies one structure-aware mutation.
func mutateBody(r *rand.Rand, b []byte) ([]byte, string) {
	if len(b) == 0 {
		junk := make([]byte, 1+r.Intn(64))
		r.Read(junk)
		return junk, "junk-for-empty"
	}
	c := append([]byte{}, b...)
	switch r.Intn(10) {
	case 9: // JSON stays well formed but becomes internally inconsistent: the last two numbers of an inner array change places
		// (a span whose end lies before its start, a size before an offset, ...)
		if loc := swapRe.FindAllSubmatchIndex(c, -1); len(loc) > 0 {
			m := loc[r.Intn(len(loc))]
			a, b := string(c[m[2]:m[3]]), string(c[m[4]:m[5]])
			if a != b {
				out := append([]byte{}, c[:m[2]]...)
				out = append(out, b...)
				out = append(out, c[m[3]:m[4]]...)
				out = append(out, a...)
				out = append(out, c[m[5]:]...)
				return out, "json-numbers-swapped"
			}
		}
		return c[:len(c)/2], "truncate"
	case 0: // truncate
		n := r.Intn(len(c))
		if len(c) > 24 && r.Intn(2) == 0 {
			n = r.Intn(24) // inside the header
		}
		return c[:n], "truncate"
	case 1: // bit flips
		for k := 0; k < 1+r.Intn(4); k++ {
			i := r.Intn(len(c))
			c[i] ^= 1 << uint(r.Intn(8))
		}
		return c, "bitflip"
	case 2: // inflate a 32-bit field (aligned positions near the start are length / count fields)
		if len(c) >= 8 {
			i := 4 * r.Intn(min(len(c)/4, 12))
			binary.LittleEndian.PutUint32(c[i:], []uint32{0xFFFFFFFF, 0x7FFFFFFF, 0x80000000, 0x01000000, 65536}[r.Intn(5)])
		}
		return c, "inflate-u32"
	case 3: // inflate a 64-bit field
		if len(c) >= 16 {
			i := 8 * r.Intn(min(len(c)/8, 8))
			binary.LittleEndian.PutUint64(c[i:], []uint64{^uint64(0), 1 << 63, 1 << 40}[r.Intn(3)])
		}
		return c, "inflate-u64"
	case 4: // zero a region
		i := r.Intn(len(c))
		for j := i; j < len(c) && j < i+16; j++ {
			c[j] = 0
		}
		return c, "zero-region"
	case 5: // duplicate tail (over-long)
		return append(c, c[len(c)/2:]...), "over-long"
	case 6: // JSON-ish damage
		s := string(c)
		reps := [][2]string{{"[", "[["}, {"]", ""}, {"{", ""}, {":", "::"}, {",", ",,"}, {"\"", ""}, {"1", "-1"}, {"0", "99999999999999999999"}, {"true", "null"}, {"Pos", "pos"}, {"bodyid", "bodyId"}}
		rp := reps[r.Intn(len(reps))]
		if strings.Contains(s, rp[0]) {
			return []byte(strings.Replace(s, rp[0], rp[1], 1+r.Intn(2))), "json-damage"
		}
		return c[:len(c)/2], "truncate"
	case 7: // random bytes of same length
		r.Read(c)
		return c, "random-bytes"
	default: // splice: keep header, random body
		k := min(len(c), 16)
		r.Read(c[k:])
		return c, "header-kept-random-body"
	}
}

func min(a, b int) int {
	if a < b {
		return a
	}
	return b
}

// ---------- execution ----------

type runner struct {
	c      *drv.Ctx
	bin    string
	dir    string
	flav   string
	w      *drv.Worker
	wd     *mixed.World
	target string
	hints  *mixed.Hints
	// a leaked throttle slot is reported once per run, at the request after which it was first seen
	throttleReported bool
}

func (rn *runner) restart() error {
	w, err := drv.StartWorker(rn.bin, rn.dir, drv.StartOpts{Env: raceEnv(rn.dir)})
	if err != nil {
		return fmt.Errorf("server does not restart after a hostile request: %v", err)
	}
	w.Watchdog = 150 * time.Second
	rn.w = w
	rn.wd.W, rn.wd.C.W = w, w
	return nil
}

func groupOf(inst string) []string {
	switch inst {
	case "lm":
		return []string{"/lm/", "/syn/", "/lsz/"}
	case "syn":
		return []string{"/syn/", "/lsz/"}
	case "":
		return nil
	}
	return []string{"/" + inst + "/"}
}

func (rn *runner) batch(reqs []hreq, bi int) error {
	c := rn.c
	t0 := time.Now()
	defer func() {
		if os.Getenv("C20_TIMING") != "" {
			fmt.Fprintf(os.Stderr, "batch %d took %v\n", bi, time.Since(t0))
		}
	}()
	before, err := rn.wd.SnapshotH([]string{rn.target}, rn.hints)
	if os.Getenv("C20_TIMING") != "" {
		fmt.Fprintf(os.Stderr, "  snapshot took %v (%d urls)\n", time.Since(t0), len(before.M))
	}
	if err != nil {
		return fmt.Errorf("snapshot before batch: %v", err)
	}
	allowed := map[string]bool{}
	var sent []string
	for _, q := range reqs {
		url := "/api/node/" + rn.target + "/"
		if q.inst != "" {
			url += q.inst + "/"
		}
		url += q.path
		desc := fmt.Sprintf("%s %s [%s %s body %dB]", q.method, url, q.class, q.mut, len(q.body))
		sent = append(sent, desc)
		resp, err := rn.w.HTTP(q.method, url, q.body)
		key := q.class + ":" + q.mut
		c.Case(fmt.Sprintf("%s|%s|%s|%d|%s", rn.flav, q.class, q.mut, len(q.body), drv.Hash(url, string(q.body))), !q.valid)
		c.Seen("endpoint_classes", q.class)
		c.Seen("mutation_kinds", q.mut)
		wit := map[string]interface{}{"flavour": rn.flav, "method": q.method, "url": url, "body_len": len(q.body), "body_head_hex": fmt.Sprintf("%x", q.body[:min(len(q.body), 96)]), "mutation": q.mut, "batch": sent}
		if err != nil {
			if err == drv.ErrWatchdog {
				c.Count("watchdog_"+q.class, 1)
				if wedged, where := drv.Wedged(rn.w.Stderr()); wedged {
					// not a wall-clock verdict: the goroutine dump shows the request parked for minutes with nobody left to wake it
					wit["goroutine_dump"] = c.SaveText(fmt.Sprintf("wedged-%s-%s.txt", q.class, drv.Hash(url, string(q.body))), rn.w.Stderr())
					c.Violation("request-never-answered:"+q.class+":"+short(where), fmt.Sprintf("[%s] %s is never answered: its goroutine is parked in %s and no goroutine is left that could wake it", rn.flav, desc, where), wit)
				} else {
					c.Inconclusive("request outlived the watchdog: " + desc)
				}
				return rn.restart()
			}
			fatal := drv.FatalInStderr(rn.w.Stderr())
			site := crashSite(fatal)
			c.Violation("server-died:"+q.class+":"+site, fmt.Sprintf("[%s] the server process died while serving %s: %s", rn.flav, desc, drv.Trunc(fatal, 700)), wit)
			return rn.restart()
		}
		c.Count(fmt.Sprintf("status_%dxx", resp.Status/100), 1)
		if resp.Panicked() {
			site := panicSite(string(resp.Body))
			kind := "malformed"
			if q.valid {
				kind = "well-formed"
			}
			c.Violation("recovered-panic:"+q.class+":"+site, fmt.Sprintf("[%s] %s request %s was answered 500 by the recover handler: %s", rn.flav, kind, desc, drv.Trunc(string(resp.Body), 300)), wit)
		} else if resp.Status >= 500 {
			c.Count("non_panic_5xx_"+key, 1)
		}
		if resp.OK() {
			for _, g := range groupOf(q.inst) {
				allowed[g] = true
			}
		}
		if q.method != "GET" && ((q.inst == "lm" && (strings.HasPrefix(q.path, "blocks") || strings.HasPrefix(q.path, "raw/") || strings.HasPrefix(q.path, "ingest-supervoxels"))) ||
			(q.inst == "img" && (strings.HasPrefix(q.path, "blocks") || strings.HasPrefix(q.path, "raw/"))) || (q.inst == "syn" && strings.HasPrefix(q.path, "blocks"))) {
			// block streams and voxel boxes name the blocks they carry: a stream that turns out malformed at its second
			// block is refused after its first block was stored - those are blocks the request DID name, which the
			// statement does not protect (what it did not name - other instances, other sync groups - stays protected)
			for _, g := range groupOf(q.inst) {
				allowed[g] = true
			}
		}
		if q.inst == "roi" && strings.HasPrefix(q.path, "roi") && q.method != "GET" {
			// POST / DELETE roi names the instance's one datum (the whole region of interest) itself: the statement
			// protects what a request did NOT name, so a refused one may still have touched it
			allowed["/roi/"] = true
		}
		if q.inst == "" {
			// a node-level request names the node's note / log itself (the note and log handlers are known to
			// go on after reporting a malformed body), so those may differ whatever the answer was
			allowed["node"] = true
		}
		// liveness probe after every hostile request
		pr, err := rn.w.Get("/api/node/" + rn.target + "/kv/info")
		if err != nil || pr.Status != 200 {
			fatal := drv.FatalInStderr(rn.w.Stderr())
			c.Violation("server-unresponsive-after:"+q.class+":"+crashSite(fatal), fmt.Sprintf("[%s] after %s the next request is not served (%v %v): %s", rn.flav, desc, pr, err, drv.Trunc(fatal, 500)), wit)
			if rn.w.Dead() || err != nil {
				return rn.restart()
			}
		}
		// ... and so is a throttled one: nothing else is in flight, so no throttle slot can be taken
		if strings.Contains(q.path, "throttle") && rn.wd.Has("img") {
			tr, err := rn.w.Get("/api/node/" + rn.target + "/img/raw/0_1_2/32_32_32/0_0_0?throttle=true")
			c.Count("throttled_liveness_probes", 1)
			if err == nil && tr.Status == 503 && !rn.throttleReported {
				rn.throttleReported = true
				c.Violation("throttled-requests-refused-for-good-after:"+q.class, fmt.Sprintf("[%s] after %s (answered %d) a throttled request is answered 503 although no other request is in flight: %s", rn.flav, desc, resp.Status, drv.Trunc(string(tr.Body), 200)), wit)
			}
		}
	}
	t1 := time.Now()
	if os.Getenv("C20_TIMING") != "" {
		fmt.Fprintf(os.Stderr, "  requests took %v\n", t1.Sub(t0))
	}
	defer func() {
		if os.Getenv("C20_TIMING") != "" {
			fmt.Fprintf(os.Stderr, "  settle+snapshot took %v\n", time.Since(t1))
		}
	}()
	if err := rn.w.Settle(); err != nil {
		if rn.w.Dead() && !strings.Contains(err.Error(), "watchdog") {
			fatal := drv.FatalInStderr(rn.w.Stderr())
			c.Violation("server-died-in-background:"+crashSite(fatal), fmt.Sprintf("[%s] the server died during background processing after batch %d: %s", rn.flav, bi, drv.Trunc(fatal, 700)), map[string]interface{}{"batch": sent})
			return rn.restart()
		}
		c.Inconclusive(fmt.Sprintf("settle after hostile batch %d: %v", bi, err))
		rn.w.Kill()
		return rn.restart()
	}
	after, err := rn.wd.SnapshotH([]string{rn.target}, rn.hints)
	if err != nil {
		if rn.w.Dead() {
			fatal := drv.FatalInStderr(rn.w.Stderr())
			c.Violation("server-died-on-read-after-hostile-batch:"+crashSite(fatal), fmt.Sprintf("[%s] reading back after batch %d killed the server: %s", rn.flav, bi, drv.Trunc(fatal, 700)), map[string]interface{}{"batch": sent})
			return rn.restart()
		}
		return fmt.Errorf("snapshot after batch: %v", err)
	}
	var bad []string
	for u, v := range before.M {
		w, ok := after.M[u]
		if !ok || w == v {
			continue
		}
		ok2 := false
		for g := range allowed {
			if strings.Contains(u, g) || (g == "node" && (strings.HasSuffix(u, "/note") || strings.HasSuffix(u, "/log") || strings.HasSuffix(u, "/status"))) {
				ok2 = true
			}
		}
		if strings.HasPrefix(u, "repos/info") {
			ok2 = true // repo log / instance properties (extents, max label) follow accepted requests
		}
		base := strings.SplitN(u, " ", 2)[0]
		if strings.HasSuffix(base, "/info") || strings.HasSuffix(base, "/nextlabel") || strings.HasSuffix(base, "/maxlabel") {
			ok2 = true // instance-wide counters / settings are not data stored under keys or blocks (a refused split may consume labels)
		}
		if !ok2 {
			bad = append(bad, fmt.Sprintf("%s: %s => %s", u, drv.Trunc(v, 100), drv.Trunc(w, 100)))
		}
	}
	c.Count("snapshot_urls_compared", len(before.M))
	if len(bad) > 0 {
		sort.Strings(bad)
		fam := bad[0]
		parts := strings.Split(fam, "/")
		if len(parts) >= 6 {
			fam = parts[4] + "/" + strings.SplitN(strings.SplitN(parts[5], "?", 2)[0], ":", 2)[0]
		}
		c.Violation("untouched-data-changed:"+fam, fmt.Sprintf("[%s] after hostile batch %d, data that no accepted request addressed reads differently (%d urls): %s", rn.flav, bi, len(bad), strings.Join(bad[:min(len(bad), 3)], " || ")), map[string]interface{}{"batch": sent, "diffs": bad[:min(len(bad), 8)]})
	}
	return nil
}

// crashSite extracts the first dvid frame of a fatal report (stable part of the key).
func crashSite(fatal string) string {
	for _, ln := range strings.Split(fatal, "\n") {
		ln = strings.TrimSpace(ln)
		if strings.HasPrefix(ln, "github.com/janelia-flyem/dvid/") {
			f := strings.TrimPrefix(ln, "github.com/janelia-flyem/dvid/")
			if i := strings.LastIndex(f, "("); i > 0 {
				f = f[:i]
			}
			return f
		}
	}
	if strings.Contains(fatal, "out of memory") || strings.Contains(fatal, "cannot allocate") {
		return "out-of-memory"
	}
	return "unknown-site"
}

func panicSite(body string) string {
	// the recover handler prints the panic value; classify by its text
	b := body
	if i := strings.Index(b, "\n"); i > 0 {
		b = b[i+1:]
	}
	if i := strings.Index(b, "\n"); i > 0 {
		b = b[:i]
	}
	b = strings.TrimSpace(b)
	for _, pat := range []string{"index out of range", "slice bounds out of range", "nil pointer", "nil map", "divide by zero", "makeslice", "interface conversion", "negative shift", "invalid memory"} {
		if strings.Contains(b, pat) {
			return strings.ReplaceAll(pat, " ", "-")
		}
	}
	return drv.Hash(b)[:6]
}

// raceEnv: the race-detector build is there for its pointer checks (checkptr aborts on a hostile input that makes a parser
// form a bad pointer) - a data race report is written to a log and counted, it must not end the process: the detector
// stopping the server is not the server dying, and this property is not about unsynchronised accesses.
func raceEnv(dir string) []string {
	return []string{"GORACE=halt_on_error=0 log_path=" + filepath.Join(dir, "race"), "ASAN_OPTIONS=detect_leaks=0"}
}

var (
	raceMu   sync.Mutex
	raceSeen = map[string]int{}
)

var frameRe = regexp.MustCompile(`(?m)^  (github\.com/janelia-flyem/dvid/[^\s(]+)\(`)

// noteRaces folds the data race reports of one hostile run into the evidence (deduplicated by the first DVID frame of
// the two accesses).
func noteRaces(c *drv.Ctx, dir string) {
	files, _ := filepath.Glob(filepath.Join(dir, "race.*"))
	n := 0
	for _, f := range files {
		b, _ := os.ReadFile(f)
		for _, blk := range strings.Split(string(b), "WARNING: DATA RACE")[1:] {
			n++
			parts := strings.SplitN(blk, "Previous ", 2)
			key := "?"
			if m := frameRe.FindStringSubmatch(parts[0]); m != nil {
				key = m[1]
			}
			if len(parts) == 2 {
				if m := frameRe.FindStringSubmatch(parts[1]); m != nil {
					key += " / " + m[1]
				}
			}
			raceMu.Lock()
			raceSeen[key]++
			raceMu.Unlock()
		}
	}
	if n > 0 {
		c.Count("race_report_blocks", n)
		raceMu.Lock()
		var rl []string
		for k, v := range raceSeen {
			rl = append(rl, fmt.Sprintf("%s x%d", k, v))
		}
		raceMu.Unlock()
		sort.Strings(rl)
		c.Extra("race_reports_deduplicated", rl)
	}
}

func hostileRun(c *drv.Ctx, bin, flav string, seed int64, idx, perEndpoint int) error {
	r := rand.New(rand.NewSource(seed))
	dir, err := c.NewDataDir(fmt.Sprintf("hostile-%s-%d", flav, idx), drv.ConfOpts{})
	if err != nil {
		return err
	}
	w, err := drv.StartWorker(bin, dir, drv.StartOpts{Env: raceEnv(dir)})
	if err != nil {
		return err
	}
	w.Watchdog = 150 * time.Second
	wd, err := mixed.New(w, r, mixed.Opts{Tag: fmt.Sprintf("x%d", idx)})
	if err != nil {
		w.Kill()
		return fmt.Errorf("setup: %v", err)
	}
	rn := &runner{c: c, bin: bin, dir: dir, flav: flav, w: w, wd: wd, target: wd.Root}
	defer func() {
		rn.w.Kill()
		noteRaces(c, dir)
	}()
	// well-formed population first (this is also the "well-formed request" part of C20)
	for i := 0; i < 25; i++ {
		if len(wd.H.D.Order) > 1 {
			break
		}
		if d, err := wd.Step(); err != nil {
			if w.Dead() {
				c.Violation("server-died:well-formed-workload:"+crashSite(drv.FatalInStderr(w.Stderr())), fmt.Sprintf("[%s] the server died on the well-formed request %q: %s", flav, d, drv.Trunc(drv.FatalInStderr(w.Stderr()), 600)), map[string]interface{}{"trace": wd.Trace})
				return nil
			}
			return fmt.Errorf("populate %s: %v", d, err)
		}
	}
	for _, p := range wd.Panics {
		c.Violation("recovered-panic:well-formed-workload:"+drv.Hash(p)[:6], fmt.Sprintf("[%s] well-formed request answered by the recover handler: %s", flav, drv.Trunc(p, 400)), nil)
	}
	open := wd.OpenDataNodes()
	if len(open) == 0 {
		return nil
	}
	rn.target = open[len(open)-1]
	rn.hints = wd.CurrentHints()
	cat := append(wd.Catalogue(rn.target), extraPayloads(wd, rn.target)...)
	var reqs []hreq
	for _, e := range cat {
		kw := e.Path
		if i := strings.IndexAny(kw, "/?"); i > 0 {
			kw = kw[:i]
		}
		class := e.Inst + ":" + kw + ":" + e.Method
		if e.Inst == "" {
			class = "node:" + kw + ":" + e.Method
		}
		if kw == "commit" || kw == "reload" {
			continue // would freeze / rebuild the target: not a payload-carrying ingestion endpoint
		}
		for k := 0; k < perEndpoint; k++ {
			if len(e.Body) > 0 || e.Method != "GET" {
				mb, kind := mutateBody(r, e.Body)
				// a raw voxel payload is valid whatever its bytes are: random bytes only mean tens of thousands of
				// distinct labels to index (minutes of legitimate background work), not a malformed request
				for tries := 0; e.Inst == "lm" && strings.HasPrefix(e.Path, "raw/") && (kind == "random-bytes" || kind == "header-kept-random-body") && tries < 20; tries++ {
					mb, kind = mutateBody(r, e.Body)
				}
				reqs = append(reqs, hreq{e.Inst, e.Method, e.Path, mb, class, kind, false})
			}
			if k%2 == 0 {
				for _, u := range hostileURLs(r, e.Path, 1) {
					reqs = append(reqs, hreq{e.Inst, e.Method, u, e.Body, class, "hostile-url", false})
				}
			}
		}
		// JSON bodies: every position where two numbers of an inner array can change places (first three), once each
		if len(e.Body) > 0 && (e.Body[0] == '[' || e.Body[0] == '{') {
			for k, m := range swapRe.FindAllSubmatchIndex(e.Body, 3) {
				a, b := string(e.Body[m[2]:m[3]]), string(e.Body[m[4]:m[5]])
				if a == b {
					continue
				}
				out := append([]byte{}, e.Body[:m[2]]...)
				out = append(out, b...)
				out = append(out, e.Body[m[3]:m[4]]...)
				out = append(out, a...)
				out = append(out, e.Body[m[5]:]...)
				reqs = append(reqs, hreq{e.Inst, e.Method, e.Path, out, class, fmt.Sprintf("json-numbers-swapped#%d", k), false})
			}
		}
		if len(e.Body) > 0 && (e.Body[0] == '[' || e.Body[0] == '{') && e.Method != "GET" {
			for _, v := range [][2]string{{"[]", "json-empty-array"}, {"{}", "json-empty-object"}, {"null", "json-null"}, {"[[]]", "json-nested-empty"}, {`""`, "json-empty-string"}, {"0", "json-zero"}} {
				reqs = append(reqs, hreq{e.Inst, e.Method, e.Path, []byte(v[0]), class, v[1], false})
			}
			// each string value turned into a number and each number into a string (first three of each)
			for k, m := range strValRe.FindAllSubmatchIndex(e.Body, 3) {
				out := append(append(append([]byte{}, e.Body[:m[2]]...), "12345"...), e.Body[m[3]:]...)
				reqs = append(reqs, hreq{e.Inst, e.Method, e.Path, out, class, fmt.Sprintf("json-string-to-number#%d", k), false})
			}
			for k, m := range numValRe.FindAllSubmatchIndex(e.Body, 3) {
				out := append(append(append([]byte{}, e.Body[:m[2]]...), `"x"`...), e.Body[m[3]:]...)
				reqs = append(reqs, hreq{e.Inst, e.Method, e.Path, out, class, fmt.Sprintf("json-number-to-string#%d", k), false})
			}
		}
		if e.Inst == "nj" && strings.HasPrefix(e.Path, "key/") && e.Method == "POST" && len(e.Body) > 2 && e.Body[0] == '{' {
			// documented metadata fields (<field>_user, <field>_time are strings) given other JSON types
			for k, v := range []string{`"type_time": 5`, `"type_user": [1]`, `"n_time": {"a": 1}`, `"type_time": true, "type_user": 3.5`} {
				out := append([]byte(`{`+v+`, `), e.Body[1:]...)
				reqs = append(reqs, hreq{e.Inst, e.Method, e.Path, out, class, fmt.Sprintf("documented-field-wrong-type#%d", k), false})
			}
		}
		// binary bodies: each of the first eight 32-bit fields (format headers: counts, lengths, sizes) set to 2^32-1, once each
		if len(e.Body) >= 8 && e.Body[0] != '[' && e.Body[0] != '{' && e.Method != "GET" {
			for k := 0; k < 8 && 4*k+4 <= len(e.Body); k++ {
				out := append([]byte{}, e.Body...)
				binary.LittleEndian.PutUint32(out[4*k:], 0xFFFFFFFF)
				if e.Inst == "lm" && strings.HasPrefix(e.Path, "raw/") {
					break // raw voxel payloads have no header: any bytes are labels
				}
				reqs = append(reqs, hreq{e.Inst, e.Method, e.Path, out, class, fmt.Sprintf("u32-field-%d-max", k), false})
			}
		}
		// JSON bodies: every number inside an array moved by +100 / -100 (coordinates land in other blocks than the
		// structure around them says, ids and counts change)
		if len(e.Body) > 0 && (e.Body[0] == '[' || e.Body[0] == '{') && arrayNumRe.Match(e.Body) {
			for k, d := range []int64{100, -100} {
				out := arrayNumRe.ReplaceAllFunc(e.Body, func(m []byte) []byte {
					sub := arrayNumRe.FindSubmatch(m)
					v, err := strconv.ParseInt(string(sub[2]), 10, 64)
					if err != nil {
						return m
					}
					return []byte(string(sub[1]) + strconv.FormatInt(v+d, 10))
				})
				reqs = append(reqs, hreq{e.Inst, e.Method, e.Path, out, class, fmt.Sprintf("json-array-numbers-shifted#%d", k), false})
			}
		}
		// JSON objects keyed by a block coordinate ("x,y,z": [...]): the key no longer matches what is filed under it
		if len(e.Body) > 0 && e.Body[0] == '{' {
			if m := blockKeyRe.FindSubmatchIndex(e.Body); m != nil {
				for k, nk := range []string{`"0,0,0":`, `"-1,0,7":`} {
					out := append([]byte{}, e.Body[:m[0]]...)
					out = append(out, nk...)
					out = append(out, e.Body[m[1]:]...)
					reqs = append(reqs, hreq{e.Inst, e.Method, e.Path, out, class, fmt.Sprintf("json-block-key-changed#%d", k), false})
				}
			}
		}
		// the unmutated request itself (well-formed): must never panic, and must still be answered after whatever
		// malformed requests of its class came before it (twice, at two random places of the shuffled list)
		reqs = append(reqs, hreq{e.Inst, e.Method, e.Path, e.Body, class, "valid", true})
		if e.Method != "GET" {
			reqs = append(reqs, hreq{e.Inst, e.Method, e.Path, e.Body, class, "valid", true})
		}
	}
	r.Shuffle(len(reqs), func(i, j int) { reqs[i], reqs[j] = reqs[j], reqs[i] })
	const bsz = 20
	for i := 0; i < len(reqs); i += bsz {
		j := i + bsz
		if j > len(reqs) {
			j = len(reqs)
		}
		if err := rn.batch(reqs[i:j], i/bsz); err != nil {
			return fmt.Errorf("[%s] batch %d: %v", flav, i/bsz, err)
		}
	}
	// last: the well-formed maintenance requests that rebuild derived state from what is stored now (they were kept out
	// of the batches because they restructure the target) - whatever the hostile requests left behind, these must be
	// answered and must not take the process down, also not from their background goroutines
	for _, m := range []struct{ inst, path string }{{"syn", "reload"}, {"lsz", "reload"}} {
		if !rn.wd.Has(m.inst) {
			continue
		}
		url := "/api/node/" + rn.target + "/" + m.inst + "/" + m.path
		desc := "POST " + url + " [maintenance after the hostile batches]"
		resp, err := rn.w.Post(url, nil)
		c.Case(fmt.Sprintf("%s|maintenance|%s|%d", flav, m.inst+"/"+m.path, idx), true)
		wit := map[string]interface{}{"flavour": flav, "url": url}
		died := func(when string) bool {
			if !rn.w.Dead() {
				return false
			}
			fatal := drv.FatalInStderr(rn.w.Stderr())
			c.Violation("server-died:"+m.inst+":"+m.path+":"+crashSite(fatal), fmt.Sprintf("[%s] the server process died %s %s: %s", flav, when, desc, drv.Trunc(fatal, 700)), wit)
			return true
		}
		if err != nil {
			if err == drv.ErrWatchdog {
				c.Inconclusive("request outlived the watchdog: " + desc)
			} else if !died("while serving") {
				return fmt.Errorf("maintenance request: %v", err)
			}
			if err := rn.restart(); err != nil {
				return err
			}
			continue
		}
		if resp.Panicked() {
			c.Violation("recovered-panic:"+m.inst+":"+m.path+":"+panicSite(string(resp.Body)), fmt.Sprintf("[%s] %s was answered 500 by the recover handler: %s", flav, desc, drv.Trunc(string(resp.Body), 300)), wit)
		}
		serr := rn.w.Settle()
		// the reload runs in a goroutine of its own: give it until the instance reports idle, then probe
		if pr, err := rn.w.Get("/api/node/" + rn.target + "/kv/info"); serr != nil || err != nil || pr.Status != 200 {
			if !died("in the background after") {
				c.Inconclusive(fmt.Sprintf("after %s: settle %v, probe %v", desc, serr, err))
			}
			if err := rn.restart(); err != nil {
				return err
			}
		}
	}
	c.Count("hostile_requests_"+flav, len(reqs))
	if idx == 0 {
		var ex []string
		for _, q := range reqs[:min(6, len(reqs))] {
			ex = append(ex, fmt.Sprintf("%s %s/%s [%s] %dB", q.method, q.inst, drv.Trunc(q.path, 60), q.mut, len(q.body)))
		}
		c.Sample(map[string]interface{}{"flavour": flav, "hostile_requests": len(reqs), "examples": ex})
	}
	return nil
}

// hugeRun sends the fixed list of absurd-size requests, each on a live server with a short watchdog.
func hugeRun(c *drv.Ctx, bin string, seed int64) error {
	r := rand.New(rand.NewSource(12345)) // fixed: this phase is seed-independent by design
	dir, err := c.NewDataDir("huge", drv.ConfOpts{})
	if err != nil {
		return err
	}
	w, err := drv.StartWorker(bin, dir, drv.StartOpts{})
	if err != nil {
		return err
	}
	wd, err := mixed.New(w, r, mixed.Opts{Tag: "huge"})
	if err != nil {
		w.Kill()
		return err
	}
	for i := 0; i < 12 && len(wd.H.D.Order) == 1; i++ {
		if _, err := wd.Step(); err != nil {
			w.Kill()
			return err
		}
	}
	root := wd.Root
	var slow []string
	for _, p := range hugeProbes {
		if w.Dead() {
			w, err = drv.StartWorker(bin, dir, drv.StartOpts{})
			if err != nil {
				return fmt.Errorf("restart during huge probes: %v", err)
			}
		}
		w.Watchdog = 12 * time.Second
		url := "/api/node/" + root + "/" + p.inst + "/" + p.path
		kw := p.path
		if i := strings.IndexAny(kw, "/?"); i > 0 {
			kw = kw[:i]
		}
		desc := p.method + " " + drv.Trunc(url, 160)
		c.Case("huge|"+p.inst+"|"+drv.Trunc(p.path, 80), true)
		c.Count("huge_probes", 1)
		resp, err := w.HTTP(p.method, url, nil)
		wit := map[string]interface{}{"method": p.method, "url": drv.Trunc(url, 300)}
		if err == drv.ErrWatchdog {
			slow = append(slow, desc)
			continue
		}
		if err != nil {
			fatal := drv.FatalInStderr(w.Stderr())
			c.Violation("huge-request:server-died:"+p.inst+":"+kw+":"+crashSite(fatal), fmt.Sprintf("the server process died while serving %s: %s", desc, drv.Trunc(fatal, 500)), wit)
			continue
		}
		if resp.Panicked() {
			c.Violation("huge-request:recovered-panic:"+p.inst+":"+kw+":"+panicSite(string(resp.Body)), fmt.Sprintf("%s was answered 500 by the recover handler: %s", desc, drv.Trunc(string(resp.Body), 300)), wit)
		}
		if pr, err := w.Get("/api/node/" + root + "/kv/info"); err != nil || pr.Status != 200 {
			c.Violation("huge-request:server-unresponsive-after:"+p.inst+":"+kw, fmt.Sprintf("after %s the next request is not served: %v %v", desc, pr, err), wit)
		}
	}
	w.Kill()
	c.Extra("huge_requests_outliving_12s_watchdog_inconclusive", slow)
	return nil
}

func run(c *drv.Ctx) error {
	c.Rule("valid payloads of every ingestion/mutation endpoint (labelmap raw, blocks, ingest-supervoxels, split, split-supervoxel, index, indices, mappings, merge, cleave, renumber; annotation elements, blocks, labels, move, element; keyvalue key, keyvalues; neuronjson key, keyvalues, query, schemas; roi roi, ptquery; imageblk raw, blocks) and of read endpoints with bodies/options are mutated structure-aware (truncation incl. inside headers, bit flips, 32/64-bit length/count inflation, zeroed regions, over-long, JSON damage, random bytes) and their URLs made hostile (huge/negative/non-numeric sizes, coordinates, labels, bogus options); " +
		"requests run in batches of 20 on a child process whose command log is written before each send; after each request a liveness probe, after each batch settle + full snapshot of the target version; plain build, race build (checkptr) and asan build in thorough; non-trivial = mutated (not the unmutated control); distinct by (flavour, endpoint class, mutation kind, request hash)")
	c.Assume("a mutated payload answered 2xx is not judged malformed (it may still be well-formed); only changes outside the addressed sync group, recovered panics, process death and unresponsiveness are violations; a request that outlives the 90 s watchdog is inconclusive")
	flavours := []string{""}
	if !c.Quick() {
		flavours = []string{"", "race", "asan"}
	}
	if fl := os.Getenv("C20_FLAVOURS"); fl != "" { // debugging aid: comma-separated build flavours ("" = plain is written as "plain")
		flavours = nil
		for _, f := range strings.Split(fl, ",") {
			if f == "plain" {
				f = ""
			}
			flavours = append(flavours, f)
		}
	}
	bins := map[string]string{}
	for _, f := range flavours {
		b, err := c.Build("dvidw", f)
		if err != nil {
			return err
		}
		bins[f] = b
	}
	var wg sync.WaitGroup
	var mu sync.Mutex
	var errs []string
	sem := make(chan struct{}, 6)
	idx := 0

	for _, f := range flavours {
		if ph := os.Getenv("C20_PHASE"); ph == "huge" || ph == "scenarios" || ph == "wellformed" {
			break
		}
		nruns := c.N(2, 16)
		per := c.N(6, 60)
		if s := os.Getenv("C20_RUNS"); s != "" { // debugging aid
			fmt.Sscanf(s, "%d", &nruns)
		}
		if f == "checkptr" {
			nruns, per = 1, 6
		}
		for k := 0; k < nruns; k++ {
			f, i, seed := f, idx, c.Rand.Int63()
			idx++
			wg.Add(1)
			go func() {
				defer wg.Done()
				sem <- struct{}{}
				defer func() { <-sem }()
				name := f
				if name == "" {
					name = "plain"
				}
				if err := hostileRun(c, bins[f], name, seed, i, per); err != nil {
					mu.Lock()
					errs = append(errs, err.Error())
					mu.Unlock()
				}
			}()
		}
	}
	wg.Wait()
	if ph := os.Getenv("C20_PHASE"); ph == "" || ph == "wellformed" {
		if err := wellformedRun(c, bins[""]); err != nil {
			errs = append(errs, "well-formed workload: "+err.Error())
		}
	}
	if ph := os.Getenv("C20_PHASE"); ph == "" || ph == "scenarios" {
		if err := scenarioRun(c, bins[""]); err != nil {
			errs = append(errs, "scenario probes: "+err.Error())
		}
	}
	// the absurd-size probes burn CPU for their whole watchdog: run them when nothing else is measured
	if ph := os.Getenv("C20_PHASE"); ph == "" || ph == "huge" {
		if err := hugeRun(c, bins[""], c.Seed); err != nil {
			errs = append(errs, "huge probes: "+err.Error())
		}
	}
	if len(errs) > 0 {
		sort.Strings(errs)
		return fmt.Errorf("%s", drv.Trunc(strings.Join(errs, " | "), 3000))
	}
	return nil
}
