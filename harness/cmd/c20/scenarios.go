package main

import (
	"encoding/json"
	"fmt"
	"time"

	"verif/harness/internal/drv"
	"verif/harness/internal/dvc"
)

// Scenario probes: short sequences of WELL-FORMED requests, each of which was issued by the model-based workload of
// another property and there made a request hang or panic.  They are part of this property's quantifier ("every
// well-formed request issued by the model-based workloads of the other properties") and are replayed here on every run,
// with the verdict taken from what the server did, not from how long it took: a request counts as never answered only
// when the goroutine dump shows it parked for minutes with nobody left in the process who could wake it (drv.Wedged).
type scenario struct {
	name string
	run  func(w *drv.Worker, cl *dvc.Client) (last string, resp *drv.Resp, err error)
}

func jbody(v interface{}) []byte { b, _ := json.Marshal(v); return b }

var scenarios = []scenario{
	{"resolve-with-a-conflicted-merge-as-parent", func(w *drv.Worker, cl *dvc.Client) (string, *drv.Resp, error) {
		// found by the C07 workload: parents of POST resolve = [a merge node that still holds an unresolved conflict, another branch]
		root, err := cl.NewRepo("scn-resolve")
		if err != nil {
			return "", nil, err
		}
		if err := cl.NewInstance(root, "keyvalue", "kv", nil); err != nil {
			return "", nil, err
		}
		post := func(u, k, v string) error {
			r, err := w.Post("/api/node/"+u+"/kv/key/"+k, []byte(v))
			if err != nil {
				return err
			}
			if !r.OK() {
				return fmt.Errorf("POST key %s at %s: %s", k, u, r)
			}
			return nil
		}
		if err := post(root, "k", "v0"); err != nil {
			return "", nil, err
		}
		if err := cl.Commit(root); err != nil {
			return "", nil, err
		}
		b1, err := cl.Branch(root, "b1")
		if err != nil {
			return "", nil, err
		}
		m1, err := cl.NewVersion(root)
		if err != nil {
			return "", nil, err
		}
		b2, err := cl.Branch(root, "b2")
		if err != nil {
			return "", nil, err
		}
		for u, v := range map[string]string{b1: "vb1", m1: "vm1", b2: "vb2"} {
			if err := post(u, "k", v); err != nil {
				return "", nil, err
			}
			if err := cl.Commit(u); err != nil {
				return "", nil, err
			}
		}
		x, err := cl.Merge(root, []string{m1, b1}) // both parents wrote k: the merge node holds an unresolved conflict
		if err != nil {
			return "", nil, err
		}
		if err := cl.Commit(x); err != nil {
			return "", nil, err
		}
		last := fmt.Sprintf("POST /api/repo/%s/resolve parents=[merge(%s,%s) %s] data=[kv]", root[:8], m1[:8], b1[:8], b2[:8])
		r, err := w.Post("/api/repo/"+root+"/resolve", jbody(map[string]interface{}{"data": []string{"kv"}, "parents": []string{x, b2}, "note": "scenario"}))
		return last, &r, err
	}},
}

func scenarioRun(c *drv.Ctx, bin string) error {
	for i, sc := range scenarios {
		dir, err := c.NewDataDir(fmt.Sprintf("scenario-%d", i), drv.ConfOpts{})
		if err != nil {
			return err
		}
		w, err := drv.StartWorker(bin, dir, drv.StartOpts{})
		if err != nil {
			return err
		}
		w.Watchdog = 150 * time.Second // long enough for the dump to say "2 minutes" about a goroutine that is parked for good
		cl := &dvc.Client{W: w}
		c.Case("scenario|"+sc.name, true)
		c.Seen("scenario_probes", sc.name)
		last, resp, err := sc.run(w, cl)
		wit := map[string]interface{}{"scenario": sc.name, "last_request": last}
		switch {
		case err == drv.ErrWatchdog || (err != nil && dvc.IsWorkerErr(err) && !w.KilledBySignal(9) && drv.FatalInStderr(w.Stderr()) == ""):
			if wedged, where := drv.Wedged(w.Stderr()); wedged {
				wit["goroutine_dump"] = c.SaveText("scenario-"+sc.name+"-dump.txt", w.Stderr())
				c.Violation("request-never-answered:"+sc.name, fmt.Sprintf("well-formed %s is never answered: its goroutine is parked in %s and no goroutine is left that could wake it", last, where), wit)
			} else {
				c.Inconclusive("scenario " + sc.name + ": a request outlived the watchdog but the process was not quiescent")
			}
		case err != nil && dvc.IsWorkerErr(err):
			fatal := drv.FatalInStderr(w.Stderr())
			c.Violation("server-died:scenario:"+sc.name+":"+crashSite(fatal), fmt.Sprintf("the server process died during scenario %s (%s): %s", sc.name, last, drv.Trunc(fatal, 600)), wit)
		case err != nil:
			w.Kill()
			return fmt.Errorf("scenario %s could not be set up: %v", sc.name, err)
		case resp != nil && resp.Panicked():
			c.Violation("recovered-panic:scenario:"+sc.name+":"+panicSite(string(resp.Body)), fmt.Sprintf("well-formed %s was answered 500 by the recover handler: %s", last, drv.Trunc(string(resp.Body), 300)), wit)
		default:
			if pr, err := w.Get("/api/server/info"); err != nil || pr.Status != 200 {
				c.Violation("server-unresponsive-after:scenario:"+sc.name, fmt.Sprintf("after %s the next request is not served: %v %v", last, pr, err), wit)
			}
			c.Count("scenario_probes_answered", 1)
		}
		w.Kill()
	}
	return nil
}
