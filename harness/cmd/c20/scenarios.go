package main

import (
	"encoding/json"
	"fmt"
	"time"

	"verif/harness/internal/drv"
	"verif/harness/internal/dvc"
	"verif/harness/internal/lmwire"
)

// Scenario probes: short sequences of WELL-FORMED requests, each of which was issued by the model-based workload of
// another property and there made a request hang or panic.  They are part of this property's quantifier ("every
// well-formed request issued by the model-based workloads of the other properties") and are replayed here on every run,
// with the verdict taken from what the server did, not from how long it took: a request counts as never answered only
// when the goroutine dump shows it parked for minutes with nobody left in the process who could wake it (drv.Wedged).
type scenario struct {
	name string
	run  func(w *drv.Worker, cl *dvc.Client) (last string, resp *drv.Resp, err error)
}

func jbody(v interface{}) []byte { b, _ := json.Marshal(v); return b }

var scenarios = []scenario{
	{"resolve-with-a-conflicted-merge-as-parent", func(w *drv.Worker, cl *dvc.Client) (string, *drv.Resp, error) {
		// found by the C07 workload: parents of POST resolve = [a merge node that still holds an unresolved conflict, another branch]
		root, err := cl.NewRepo("scn-resolve")
		if err != nil {
			return "", nil, err
		}
		if err := cl.NewInstance(root, "keyvalue", "kv", nil); err != nil {
			return "", nil, err
		}
		post := func(u, k, v string) error {
			r, err := w.Post("/api/node/"+u+"/kv/key/"+k, []byte(v))
			if err != nil {
				return err
			}
			if !r.OK() {
				return fmt.Errorf("POST key %s at %s: %s", k, u, r)
			}
			return nil
		}
		if err := post(root, "k", "v0"); err != nil {
			return "", nil, err
		}
		if err := cl.Commit(root); err != nil {
			return "", nil, err
		}
		b1, err := cl.Branch(root, "b1")
		if err != nil {
			return "", nil, err
		}
		m1, err := cl.NewVersion(root)
		if err != nil {
			return "", nil, err
		}
		b2, err := cl.Branch(root, "b2")
		if err != nil {
			return "", nil, err
		}
		for u, v := range map[string]string{b1: "vb1", m1: "vm1", b2: "vb2"} {
			if err := post(u, "k", v); err != nil {
				return "", nil, err
			}
			if err := cl.Commit(u); err != nil {
				return "", nil, err
			}
		}
		x, err := cl.Merge(root, []string{m1, b1}) // both parents wrote k: the merge node holds an unresolved conflict
		if err != nil {
			return "", nil, err
		}
		if err := cl.Commit(x); err != nil {
			return "", nil, err
		}
		last := fmt.Sprintf("POST /api/repo/%s/resolve parents=[merge(%s,%s) %s] data=[kv]", root[:8], m1[:8], b1[:8], b2[:8])
		r, err := w.Post("/api/repo/"+root+"/resolve", jbody(map[string]interface{}{"data": []string{"kv"}, "parents": []string{x, b2}, "note": "scenario"}))
		return last, &r, err
	}},
}

func init() {
	scenarios = append(scenarios, scenario{"split-supervoxel-after-an-index-that-names-a-block-without-voxels", func(w *drv.Worker, cl *dvc.Client) (string, *drv.Resp, error) {
		// the payload family "index fields pointing outside their tables": POST index stores what it is given; a label index
		// with one extra block entry (no voxel data there) followed by well-formed mutations of that body
		root, err := cl.NewRepo("scn-index")
		if err != nil {
			return "", nil, err
		}
		if err := cl.NewInstance(root, "labelmap", "lm", map[string]string{"BlockSize": "32,32,32"}); err != nil {
			return "", nil, err
		}
		vox := make([]uint64, 64*64*64)
		for i := range vox {
			if i%64 < 40 {
				vox[i] = 1000
			} else {
				vox[i] = 2000
			}
		}
		base := "/api/node/" + root + "/lm/"
		if r, err := w.Post(base+"raw/0_1_2/64_64_64/0_0_0", lmwire.EncodeVolume(vox)); err != nil || !r.OK() {
			return "POST raw", &r, fmt.Errorf("POST raw: %v %v", r, err)
		}
		if err := w.Settle(); err != nil {
			return "", nil, err
		}
		g, err := w.Get(base + "index/1000")
		if err != nil || g.Status != 200 {
			return "GET index", &g, fmt.Errorf("GET index: %v %v", g, err)
		}
		li, err := lmwire.DecodeLabelIndex(g.Body)
		if err != nil {
			return "", nil, fmt.Errorf("decode index: %v", err)
		}
		li.Label = 1000
		li.Blocks[[3]int32{5, 5, 5}] = map[uint64]uint32{1000: 10}
		if r, err := w.Post(base+"index/1000", lmwire.EncodeLabelIndex(li)); err != nil || !r.OK() {
			return "POST index", &r, fmt.Errorf("POST index: %v %v", r, err)
		}
		last := "POST split-supervoxel/1000 (runs inside block 0,0,0) after POST index/1000 with an extra entry for block (5,5,5)"
		var runs []lmwire.Run
		for y := int32(2); y < 6; y++ {
			runs = append(runs, lmwire.Run{X: 3, Y: y, Z: 4, N: 9})
		}
		r, err := w.Post(base+"split-supervoxel/1000", lmwire.EncodeRLEs(runs))
		if err != nil {
			return last, &r, err
		}
		if r.Panicked() {
			return last, &r, nil
		}
		// later mutations and reads of the instance must still be served
		for _, q := range []struct {
			m, p string
			b    []byte
		}{
			{"POST", "merge", []byte("[2000, 1000]")},
			{"GET", "label/3_3_4", nil},
			{"GET", "sparsevol-size/2000", nil},
		} {
			last = q.m + " lm/" + q.p + " after the split-supervoxel on the inconsistent index"
			rr, err := w.HTTP(q.m, base+q.p, q.b)
			if err != nil || rr.Panicked() {
				return last, &rr, err
			}
		}
		return last, &r, nil
	}})
}

func init() {
	scenarios = append(scenarios, scenario{"voxel-write-into-a-block-whose-posted-index-entry-has-no-counts", func(w *drv.Worker, cl *dvc.Client) (string, *drv.Resp, error) {
		// found by the thorough hostile run: an accepted POST index whose block entry carries no supervoxel counts, then a
		// write that adds voxels of that body to that block (the index update runs in a goroutine outside the recover handler)
		root, err := cl.NewRepo("scn-nocounts")
		if err != nil {
			return "", nil, err
		}
		if err := cl.NewInstance(root, "labelmap", "lm", map[string]string{"BlockSize": "32,32,32"}); err != nil {
			return "", nil, err
		}
		vox := make([]uint64, 64*64*64)
		for i := range vox {
			x, y, z := i%64, (i/64)%64, i/4096
			if x < 32 && y < 32 && z < 32 {
				vox[i] = 1000
			} else {
				vox[i] = 2000
			}
		}
		base := "/api/node/" + root + "/lm/"
		if r, err := w.Post(base+"raw/0_1_2/64_64_64/0_0_0", lmwire.EncodeVolume(vox)); err != nil || !r.OK() {
			return "POST raw", &r, fmt.Errorf("POST raw: %v %v", r, err)
		}
		if err := w.Settle(); err != nil {
			return "", nil, err
		}
		g, err := w.Get(base + "index/1000")
		if err != nil || g.Status != 200 {
			return "GET index", &g, fmt.Errorf("GET index: %v %v", g, err)
		}
		li, err := lmwire.DecodeLabelIndex(g.Body)
		if err != nil {
			return "", nil, fmt.Errorf("decode index: %v", err)
		}
		li.Label = 1000
		li.Blocks[[3]int32{1, 0, 0}] = map[uint64]uint32{} // an entry without counts
		if r, err := w.Post(base+"index/1000", lmwire.EncodeLabelIndex(li)); err != nil || !r.OK() {
			return "POST index", &r, fmt.Errorf("POST index: %v %v", r, err)
		}
		last := "POST raw/0_1_2/32_32_32/32_0_0?mutate=true (label 1000 into block 1,0,0) after POST index/1000 with a count-less entry for that block"
		sub := make([]uint64, 32*32*32)
		for i := range sub {
			sub[i] = 1000
		}
		r, err := w.Post(base+"raw/0_1_2/32_32_32/32_0_0?mutate=true", lmwire.EncodeVolume(sub))
		if err != nil || r.Panicked() {
			return last, &r, err
		}
		if err := w.Settle(); err != nil {
			return last + " [background index update]", &r, err
		}
		rr, err := w.Get(base + "size/1000")
		return "GET size/1000 after " + last, &rr, err
	}})
}

func scenarioRun(c *drv.Ctx, bin string) error {
	for i, sc := range scenarios {
		dir, err := c.NewDataDir(fmt.Sprintf("scenario-%d", i), drv.ConfOpts{})
		if err != nil {
			return err
		}
		w, err := drv.StartWorker(bin, dir, drv.StartOpts{})
		if err != nil {
			return err
		}
		w.Watchdog = 150 * time.Second // long enough for the dump to say "2 minutes" about a goroutine that is parked for good
		cl := &dvc.Client{W: w}
		c.Case("scenario|"+sc.name, true)
		c.Seen("scenario_probes", sc.name)
		last, resp, err := sc.run(w, cl)
		wit := map[string]interface{}{"scenario": sc.name, "last_request": last}
		switch {
		case err == drv.ErrWatchdog || (err != nil && dvc.IsWorkerErr(err) && !w.KilledBySignal(9) && drv.FatalInStderr(w.Stderr()) == ""):
			if wedged, where := drv.Wedged(w.Stderr()); wedged {
				wit["goroutine_dump"] = c.SaveText("scenario-"+sc.name+"-dump.txt", w.Stderr())
				c.Violation("request-never-answered:"+sc.name, fmt.Sprintf("well-formed %s is never answered: its goroutine is parked in %s and no goroutine is left that could wake it", last, where), wit)
			} else {
				c.Inconclusive("scenario " + sc.name + ": a request outlived the watchdog but the process was not quiescent")
			}
		case err != nil && dvc.IsWorkerErr(err):
			fatal := drv.FatalInStderr(w.Stderr())
			c.Violation("server-died:scenario:"+sc.name+":"+crashSite(fatal), fmt.Sprintf("the server process died during scenario %s (%s): %s", sc.name, last, drv.Trunc(fatal, 600)), wit)
		case err != nil:
			w.Kill()
			return fmt.Errorf("scenario %s could not be set up: %v", sc.name, err)
		case resp != nil && resp.Panicked():
			c.Violation("recovered-panic:scenario:"+sc.name+":"+panicSite(string(resp.Body)), fmt.Sprintf("well-formed %s was answered 500 by the recover handler: %s", last, drv.Trunc(string(resp.Body), 300)), wit)
		default:
			if pr, err := w.Get("/api/server/info"); err != nil || pr.Status != 200 {
				c.Violation("server-unresponsive-after:scenario:"+sc.name, fmt.Sprintf("after %s the next request is not served: %v %v", last, pr, err), wit)
			}
			c.Count("scenario_probes_answered", 1)
		}
		w.Kill()
	}
	return nil
}
