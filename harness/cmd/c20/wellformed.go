package main

import (
	"fmt"
	"math/rand"
	"strings"

	"verif/harness/internal/drv"
	"verif/harness/internal/mixed"
)

// wellformedRun drives the model-based mixed workload of the other properties (every request well-formed by
// construction: repo/DAG operations, keyvalue, labelmap mutations, annotation posts / retags / moves, neuronjson,
// roi, imageblk, admin operations) and judges only what this property is about: no request is answered by the recover
// handler, the process does not die, and no request is left unanswered for good (quiescence oracle, drv.Wedged).
func wellformedRun(c *drv.Ctx, bin string) error {
	nh := c.N(8, 48)
	steps := c.N(100, 180)
	typeSets := [][]string{nil, {"ann", "lm"}, {"lm", "kv"}, {"ann", "lm"}, {"nj", "roi", "img", "kv"}, {"ann", "lm", "kv"}}
	for i := 0; i < nh; i++ {
		seed := c.Rand.Int63()
		r := rand.New(rand.NewSource(seed))
		dir, err := c.NewDataDir(fmt.Sprintf("wellformed-%d", i), drv.ConfOpts{LabelCacheMB: 16 * (i % 2)})
		if err != nil {
			return err
		}
		w, err := drv.StartWorker(bin, dir, drv.StartOpts{})
		if err != nil {
			return err
		}
		wd, err := mixed.New(w, r, mixed.Opts{Types: typeSets[i%len(typeSets)], Tag: fmt.Sprintf("wf%d", i), Admin: i%2 == 0})
		if err != nil {
			w.Kill()
			return fmt.Errorf("well-formed workload %d setup: %v", i, err)
		}
		last := "setup"
		for s := 0; s < steps; s++ {
			d, err := wd.Step()
			kind := strings.SplitN(d, ":", 2)[0]
			if d != "" {
				last = kind
			}
			c.Count("wellformed_requests", 1)
			c.Seen("wellformed_op_kinds", kind)
			if err == nil {
				continue
			}
			wit := map[string]interface{}{"workload_seed": seed, "types": typeSets[i%len(typeSets)], "step": s, "trace": tailS(wd.Trace, 30)}
			switch {
			case strings.Contains(err.Error(), drv.ErrWatchdog.Error()):
				if wedged, where := drv.Wedged(w.Stderr()); wedged {
					wit["goroutine_dump"] = c.SaveText(fmt.Sprintf("wellformed-%d-dump.txt", i), w.Stderr())
					c.Violation("request-never-answered:wellformed:"+kind+":"+short(where), fmt.Sprintf("well-formed request of the mixed workload (%s, after %s) is never answered: parked in %s with nobody left to wake it", d, last, where), wit)
				} else {
					c.Inconclusive(fmt.Sprintf("well-formed workload %d: %v", i, err))
				}
			case w.Dead():
				fatal := drv.FatalInStderr(w.Stderr())
				c.Violation("server-died:wellformed:"+kind+":"+crashSite(fatal), fmt.Sprintf("the server process died while serving a well-formed request of the mixed workload (%s): %s", d, drv.Trunc(fatal, 600)), wit)
			default:
				w.Kill()
				return fmt.Errorf("well-formed workload %d step %d (%s): %v", i, s, d, err)
			}
			break
		}
		c.Case(fmt.Sprintf("wellformed|%d|%d", i, len(wd.Trace)), true)
		seen := map[string]bool{}
		for _, p := range wd.Panics {
			site := panicSite(p)
			req := strings.SplitN(p, " => ", 2)[0]
			kind := strings.Join(strings.Fields(req + " x x")[:2], " ")
			if i := strings.Index(kind, "@"); i > 0 {
				kind = kind[:i]
			}
			key := "recovered-panic:wellformed:" + kind + ":" + site
			if seen[key] {
				continue
			}
			seen[key] = true
			c.Violation(key, fmt.Sprintf("well-formed request of the mixed workload was answered 500 by the recover handler: %s", drv.Trunc(p, 400)), map[string]interface{}{"workload_seed": seed, "types": typeSets[i%len(typeSets)], "trace": tailS(wd.Trace, 30)})
		}
		w.Kill()
	}
	return nil
}

func short(fn string) string {
	if i := strings.LastIndex(fn, "/"); i >= 0 {
		fn = fn[i+1:]
	}
	return fn
}

func tailS(s []string, n int) []string {
	if len(s) > n {
		return s[len(s)-n:]
	}
	return s
}
