// C03 — a restart changes nothing observable.
// Oracle: pure differential.  snapshot(P1) == snapshot(P2) where P2 is a fresh OS process opened on
// the same stores after P1 was stopped while idle (clean shutdown, abrupt exit, or SIGKILL).
package main

import (
	"fmt"
	"math/rand"
	"sort"
	"strings"
	"sync"

	"verif/harness/internal/drv"
	"verif/harness/internal/mixed"
)

func main() { drv.Main("C03", "exploration", run) }

var confs = []drv.ConfOpts{
	{},
	{LabelCacheMB: 16},
	{MutcacheNames: []string{"lm"}},
	{LabelCacheMB: 16, MutcacheNames: []string{"lm"}},
}

func history(c *drv.Ctx, bin string, seed int64, idx int) error {
	r := rand.New(rand.NewSource(seed))
	conf := confs[idx%len(confs)]
	dir, err := c.NewDataDir(fmt.Sprintf("h%d", idx), conf)
	if err != nil {
		return err
	}
	w, err := drv.StartWorker(bin, dir, drv.StartOpts{})
	if err != nil {
		return err
	}
	defer func() { w.Kill() }()
	opts := mixed.Opts{Tag: fmt.Sprint(idx), Admin: true, NJWide: true}
	nrestarts := 1 + r.Intn(c.N(2, 4))
	opsPer := c.N(14, 22)
	if idx%2 == 1 {
		// every second history: few data types, short bursts, at least two restarts - what a restart replays (mapping
		// logs, mutation logs, id records) is appended to again after the first restart and read back by the second
		opts.Types = [][]string{{"lm", "kv"}, {"lm", "ann"}, {"nj", "kv"}, {"lm", "nj", "roi"}}[(idx/2)%4]
		opts.Admin = false
		nrestarts = 2 + r.Intn(c.N(2, 3))
		opsPer = c.N(6, 10)
	}
	wd, err := mixed.New(w, r, opts)
	if err != nil {
		return fmt.Errorf("setup: %v; stderr: %s", err, drv.FatalInStderr(w.Stderr()))
	}
	for ri := 0; ri <= nrestarts; ri++ {
		var lastOp string
		for i := 0; i < opsPer+r.Intn(6); i++ {
			d, err := wd.Step()
			if err != nil {
				return fmt.Errorf("step %q: %v; stderr: %s", d, err, drv.FatalInStderr(w.Stderr()))
			}
			lastOp = strings.SplitN(d, ":", 2)[0]
			c.Count("ops", 1)
		}
		if ri == nrestarts {
			break
		}
		if err := w.Settle(); err != nil {
			return err
		}
		s1, err := wd.Snapshot(nil)
		if err != nil {
			return fmt.Errorf("snapshot before restart: %v", err)
		}
		mode := []string{"clean", "abrupt", "sigkill"}[r.Intn(3)]
		switch mode {
		case "clean":
			if err := w.Exit("clean"); err != nil {
				return fmt.Errorf("clean exit: %v", err)
			}
		case "abrupt":
			w.Exit("abrupt")
		default:
			w.Kill()
		}
		w2, err := drv.StartWorker(bin, dir, drv.StartOpts{})
		if err != nil {
			c.Violation("restart-fails:"+mode, fmt.Sprintf("server does not start after %s stop (history %d, last op %s): %v; stderr: %s", mode, idx, lastOp, err, drv.Trunc(drv.FatalInStderr(w2.Stderr()), 600)),
				map[string]interface{}{"seed": seed, "trace": tail(wd.Trace, 40)})
			return nil
		}
		w = w2
		wd.W, wd.C.W = w2, w2
		s2, err := wd.Snapshot(nil)
		if err != nil {
			return fmt.Errorf("snapshot after restart: %v; stderr: %s", err, drv.FatalInStderr(w2.Stderr()))
		}
		c.Case(fmt.Sprintf("h%d|r%d|%s|%s|%d", idx, ri, mode, lastOp, len(s1.M)), len(wd.H.D.Order) >= 2)
		c.Seen("restart_modes", mode)
		c.Seen("last_op_before_restart", lastOp)
		c.Count("snapshot_urls_compared", len(s1.M))
		c.Count("restarts", 1)
		diffs := mixed.Diff(s1, s2)
		for root, m1 := range s1.MutationID {
			if m2 := s2.MutationID[root]; m2 < m1 {
				diffs = append(diffs, fmt.Sprintf("MutationID of repo %s moved backwards: %d -> %d", root, m1, m2))
			}
		}
		if len(diffs) > 0 {
			// classify by the endpoint family of each difference for stable keys
			fam := map[string][]string{}
			for _, d := range diffs {
				f := family(d)
				// neuronjson keeps ONE in-memory db per branch head; when the master head moves onto another lineage
				// (newversion on a merge child) that db keeps serving the old lineage's annotations until a restart
				if strings.HasPrefix(f, "nj/") {
					// "switched": a master-branch version created by newversion on a node that was not the master head
					// at that time (possible once merge children exist), and the master versions created on top of it
					switched := map[string]bool{}
					head := wd.H.D.Root
					for _, u := range wd.H.D.Order {
						n := wd.H.D.Nodes[u]
						if u == wd.H.D.Root || n.Branch != "" || len(n.Parents) != 1 {
							continue
						}
						if n.Parents[0] != head || switched[n.Parents[0]] {
							switched[u] = true
						}
						head = u
					}
					for u := range switched {
						if strings.Contains(d, "/api/node/"+u+"/") {
							f = "nj:memdb-head-moved-onto-merge-lineage"
						}
					}
				}
				fam[f] = append(fam[f], d)
			}
			var fs []string
			for f := range fam {
				fs = append(fs, f)
			}
			sort.Strings(fs)
			for _, f := range fs {
				ds := fam[f]
				if len(ds) > 4 {
					ds = append(ds[:4], fmt.Sprintf("… %d more", len(fam[f])-4))
				}
				c.Violation("restart-diff:"+f, fmt.Sprintf("restart (%s) after history %d changed %s: %s", mode, idx, f, strings.Join(ds, " || ")),
					map[string]interface{}{"seed": seed, "history": idx, "mode": mode, "conf": fmt.Sprintf("%+v", conf), "trace": tail(wd.Trace, 60), "diffs": ds})
			}
		}
		if idx < 2 && ri == 0 {
			c.Sample(map[string]interface{}{"history": idx, "mode": mode, "ops_before_restart": tail(wd.Trace, 10), "urls_compared": len(s1.M)})
		}
	}
	if len(wd.Panics) > 0 {
		c.Extra("recovered_panics_seen_c20", wd.Panics[:min(len(wd.Panics), 5)])
	}
	return nil
}

// family maps a snapshot URL to a coarse endpoint family (stable part of the violation key).
func family(d string) string {
	u := d
	if i := strings.Index(u, ": "); i > 0 {
		u = u[:i]
	}
	u = strings.TrimPrefix(u, "POST ")
	parts := strings.Split(u, "/")
	switch {
	case strings.HasPrefix(u, "repos/info/"):
		if len(parts) >= 4 {
			if parts[3] == "DataInstances" && len(parts) >= 5 {
				return "repos-info:DataInstances:" + parts[4]
			}
			return "repos-info:" + parts[3]
		}
		return "repos-info"
	case strings.HasPrefix(u, "/api/node/") && len(parts) >= 6:
		ep := parts[5]
		if i := strings.IndexAny(ep, "? "); i > 0 {
			ep = ep[:i]
		}
		if strings.Contains(parts[3], ":") {
			return "branch-head:" + parts[4] + "/" + ep
		}
		return parts[4] + "/" + ep
	case strings.HasPrefix(u, "/api/node/") && len(parts) >= 5:
		return "node/" + parts[4]
	case strings.HasPrefix(u, "/api/repo/"):
		return "repo/" + parts[len(parts)-2]
	case strings.HasPrefix(u, "MutationID"):
		return "mutation-id-backwards"
	}
	return "other"
}

func tail(s []string, n int) []string {
	if len(s) > n {
		return s[len(s)-n:]
	}
	return s
}

func min(a, b int) int {
	if a < b {
		return a
	}
	return b
}

func run(c *drv.Ctx) error {
	c.Rule("mixed histories of well-formed requests over keyvalue, labelmap (merge/cleave/split-supervoxel/renumber/nextlabel), annotation+labelsz synced to the labelmap, neuronjson, roi, uint8blk and DAG ops (commit/newversion/branch/merge); " +
		"restart points after a seed-chosen number of settled operations, mode clean | abrupt exit | SIGKILL, 1-4 restarts per history (every second history: two or three data types, short bursts of operations, at least two restarts), configuration matrix {label index cache, mutation cache} on/off; " +
		"a case is one restart with a full snapshot (repos/info per node and instance, note/log/status, branch resolution, every read endpoint of every instance at every version) compared before/after; non-trivial when the DAG has >=2 versions; distinct by (history, restart, mode, last op)")
	c.Assume("JSON responses are compared as multisets (array order ignored); error bodies compared by status only; Updated timestamps and MutationID/SavedMutationID (compared with >=) are excluded as the statement allows")
	bin, err := c.Build("dvidw", "")
	if err != nil {
		return err
	}
	if err := directedLineage(c, bin); err != nil {
		return err
	}
	nh := c.N(28, 400)
	seeds := make([]int64, nh)
	for i := range seeds {
		seeds[i] = c.Rand.Int63()
	}
	ch := make(chan int, nh)
	for i := 0; i < nh; i++ {
		ch <- i
	}
	close(ch)
	var wg sync.WaitGroup
	var mu sync.Mutex
	var errs []string
	for k := 0; k < 6; k++ {
		wg.Add(1)
		go func() {
			defer wg.Done()
			for i := range ch {
				if err := history(c, bin, seeds[i], i); err != nil {
					if strings.Contains(err.Error(), drv.ErrWatchdog.Error()) {
						c.Inconclusive(fmt.Sprintf("history %d: %v", i, err)) // wall clock, not a verdict
						continue
					}
					mu.Lock()
					errs = append(errs, fmt.Sprintf("history %d: %v", i, err))
					mu.Unlock()
				}
			}
		}()
	}
	wg.Wait()
	if len(errs) > 0 {
		sort.Strings(errs)
		return fmt.Errorf("%s", drv.Trunc(strings.Join(errs, " | "), 3000))
	}
	return nil
}
