package main

import (
	"fmt"

	"verif/harness/internal/drv"
	"verif/harness/internal/dvc"
	"verif/harness/internal/mixed"
)

// directedLineage: the smallest history in which the master head leaves the line of versions it was on.
//
//	n0: POST nj/key/1000, json_schema; commit.  n1 = newversion(n0): POST nj/key/1001; commit.  b = branch(n0); commit.
//	m = merge(b, n0') ... n2 = newversion(n1): POST 1002 (master head n2, open).  n3 = newversion(m): now the master head.
//
// Whatever the server keeps in memory for "the master head" was built along n0-n1-n2; n3 descends from the merge node and
// holds neither 1001 nor 1002.  Every neuronjson read at every version must be the same before and after a restart.
func directedLineage(c *drv.Ctx, bin string) error {
	// variant "side-first": merge(side, n0), the head line continues to n2 (as described above);
	// variant "head-first": merge(n1, side) with the head line's last committed version as FIRST parent and no n2 - a walk
	// along first parents from the new head reaches the version the head db holds, although the merge also brings in `side`
	for _, variant := range []string{"side-first", "head-first"} {
		if err := directedLineageVariant(c, bin, variant); err != nil {
			return err
		}
	}
	return nil
}

func directedLineageVariant(c *drv.Ctx, bin, variant string) error {
	dir, err := c.NewDataDir("directed-lineage-"+variant, drv.ConfOpts{})
	if err != nil {
		return err
	}
	w, err := drv.StartWorker(bin, dir, drv.StartOpts{})
	if err != nil {
		return err
	}
	defer func() { w.Kill() }()
	cl := &dvc.Client{W: w}
	root, err := cl.NewRepo("directed-lineage-" + variant)
	if err != nil {
		return err
	}
	if err := cl.NewInstance(root, "neuronjson", "nj", nil); err != nil {
		return err
	}
	post := func(u, path, body string) error {
		r, err := w.Post("/api/node/"+u+"/nj/"+path, []byte(body))
		if err != nil {
			return err
		}
		if !r.OK() {
			return fmt.Errorf("POST %s at %s: %s", path, u[:8], r)
		}
		return nil
	}
	var n1, b, m, n2, n3 string
	steps := []func() error{
		func() error { return post(root, "key/1000?u=a", `{"bodyid": 1000, "type": "T0"}`) },
		func() error { return post(root, "json_schema", `{"type": "object", "title": "s0"}`) },
		func() error { return cl.Commit(root) },
		func() (err error) { n1, err = cl.NewVersion(root); return },
		func() error { return post(n1, "key/1001?u=a", `{"bodyid": 1001, "type": "T1"}`) },
		func() error { return post(n1, "schema", `{"version": 1}`) },
		func() error { return cl.Commit(n1) },
		func() (err error) { b, err = cl.Branch(root, "side"); return },
		func() error { return post(b, "key/1005?u=a", `{"bodyid": 1005, "type": "T5"}`) },
		func() error { return cl.Commit(b) },
		func() (err error) {
			if variant == "head-first" {
				m, err = cl.Merge(root, []string{n1, b})
			} else {
				m, err = cl.Merge(root, []string{b, root})
			}
			return
		},
		func() error { return cl.Commit(m) },
		func() (err error) {
			if variant == "head-first" {
				n2 = n1 // the head line ends at n1; reading there makes the head db hold n1
				_, err = w.Get("/api/node/" + n1 + "/nj/all")
				return
			}
			n2, err = cl.NewVersion(n1)
			return
		},
		func() error {
			if variant == "head-first" {
				return nil
			}
			return post(n2, "key/1002?u=a", `{"bodyid": 1002, "type": "T2"}`)
		},
		func() (err error) { n3, err = cl.NewVersion(m); return },
	}
	for i, f := range steps {
		if err := f(); err != nil {
			if dvc.IsWorkerErr(err) {
				return err
			}
			return fmt.Errorf("directed lineage history, step %d: %v", i, err)
		}
	}
	versions := map[string]string{"n0": root, "n1": n1, "side": b, "merge": m, "n2": n2, "n3": n3}
	eps := []string{"all", "keys", "fields", "json_schema", "schema", "key/1000", "key/1001", "key/1002", "key/1005"}
	read := func() (map[string]string, error) {
		out := map[string]string{}
		for name, u := range versions {
			for _, ep := range eps {
				r, err := w.Get("/api/node/" + u + "/nj/" + ep)
				if err != nil {
					return nil, err
				}
				out[name+" "+ep] = drv.Trunc(mixed.Canon(r), 400) // JSON compared as multisets, error bodies by status
			}
		}
		return out, nil
	}
	for _, mode := range []string{"clean", "sigkill"} {
		before, err := read()
		if err != nil {
			return err
		}
		if mode == "clean" {
			if err := w.Exit("clean"); err != nil {
				return err
			}
		} else {
			w.Kill()
		}
		if w, err = drv.StartWorker(bin, dir, drv.StartOpts{}); err != nil {
			c.Violation("restart-fails:directed-lineage", fmt.Sprintf("server does not start after the directed lineage history: %v", err), nil)
			return nil
		}
		cl.W = w
		after, err := read()
		if err != nil {
			return err
		}
		c.Case("directed-lineage|"+variant+"|"+mode, true)
		c.Count("restarts", 1)
		c.Count("snapshot_urls_compared", len(before))
		for k, v := range before {
			if after[k] != v {
				c.Violation("restart-diff:nj:memdb-head-moved-onto-merge-lineage", fmt.Sprintf("directed history (master head moved from the n0-n1-n2 line onto a child of a merge node): GET nj/%s before the %s restart %s, after it %s", k, mode, v, after[k]),
					map[string]interface{}{"history": "directed-lineage", "mode": mode, "read": k})
			}
		}
	}
	return nil
}
