package main

import (
	"encoding/json"
	"fmt"
	"sort"
	"strings"

	"verif/harness/internal/drv"
	"verif/harness/internal/labelmodel"
	"verif/harness/internal/lmwire"
)

// ---------------------------------------------------------------- label layouts

// usableSVs are live supervoxels a write may reuse: present with voxels at this version.
func usableSVs(st *labelmodel.State) []uint64 {
	sc := st.Scan()
	return sc.SVs()
}

// staleMapped reports supervoxel ids that have no voxels but still carry a non-identity mapping,
// or were retired by a split, or only ever named bodies: a write must not reintroduce them.
func forbidden(st *labelmodel.State, l uint64) bool {
	return st.SplitSV[l] || st.BodyOnly[l]
}

func (in *inst) palette(st *labelmodel.State, n int, reuse float64) []uint64 {
	live := usableSVs(st)
	var out []uint64
	for len(out) < n {
		if len(live) > 0 && in.r.Float64() < reuse {
			l := live[in.r.Intn(len(live))]
			if !forbidden(st, l) {
				out = append(out, l)
				continue
			}
		}
		out = append(out, in.fresh())
	}
	return out
}

// genBox fills a box of the given size (voxels) with a label layout.
func (in *inst) genBox(st *labelmodel.State, size [3]int, style string, reuse float64) []uint64 {
	n := size[0] * size[1] * size[2]
	out := make([]uint64, n)
	r := in.r
	switch style {
	case "zero":
	case "solid":
		l := in.palette(st, 1, reuse)[0]
		for i := range out {
			out[i] = l
		}
	case "slabs":
		axis := r.Intn(3)
		pal := in.palette(st, 2+r.Intn(4), reuse)
		if r.Intn(2) == 0 {
			pal[r.Intn(len(pal))] = 0
		}
		cuts := make([]int, size[axis])
		cur := 0
		for i := range cuts {
			if r.Intn(7) == 0 {
				cur = r.Intn(len(pal))
			}
			cuts[i] = cur
		}
		i := 0
		for z := 0; z < size[2]; z++ {
			for y := 0; y < size[1]; y++ {
				for x := 0; x < size[0]; x++ {
					c := [3]int{x, y, z}
					out[i] = pal[cuts[c[axis]]]
					i++
				}
			}
		}
	case "subblock":
		// background with supervoxels confined to single 8^3 sub-blocks
		k := 1 + r.Intn(4)
		pal := in.palette(st, k, reuse)
		for _, l := range pal {
			ox, oy, oz := r.Intn(size[0]/8)*8, r.Intn(size[1]/8)*8, r.Intn(size[2]/8)*8
			ex, ey, ez := 1+r.Intn(8), 1+r.Intn(8), 1+r.Intn(8)
			for z := oz; z < oz+ez; z++ {
				for y := oy; y < oy+ey; y++ {
					for x := ox; x < ox+ex; x++ {
						out[(z*size[1]+y)*size[0]+x] = l
					}
				}
			}
		}
	case "fine":
		// many labels per sub-block: 2x2x2 cells drawn from a larger palette
		pal := in.palette(st, 6+r.Intn(20), reuse)
		pal = append(pal, 0)
		cx, cy := (size[0]+1)/2, (size[1]+1)/2
		cells := make([]uint64, cx*cy*((size[2]+1)/2))
		for i := range cells {
			cells[i] = pal[r.Intn(len(pal))]
		}
		i := 0
		for z := 0; z < size[2]; z++ {
			for y := 0; y < size[1]; y++ {
				for x := 0; x < size[0]; x++ {
					out[i] = cells[((z/2)*cy+y/2)*cx+x/2]
					i++
				}
			}
		}
	default: // "voronoi": nearest of k seeds on a coarse grid, some seeds are background
		k := 3 + r.Intn(6)
		pal := in.palette(st, k, reuse)
		type seed struct {
			x, y, z int
			l       uint64
		}
		seeds := make([]seed, k)
		for i := range seeds {
			seeds[i] = seed{r.Intn(size[0]), r.Intn(size[1]), r.Intn(size[2]), pal[i]}
			if r.Intn(4) == 0 {
				seeds[i].l = 0
			}
		}
		i := 0
		for z := 0; z < size[2]; z++ {
			for y := 0; y < size[1]; y++ {
				for x := 0; x < size[0]; x++ {
					best, bd := 0, 1<<30
					for si, s := range seeds {
						dx, dy, dz := x-s.x, y-s.y, z-s.z
						d := dx*dx + dy*dy + dz*dz
						if d < bd {
							best, bd = si, d
						}
					}
					out[i] = seeds[best].l
					i++
				}
			}
		}
	}
	return out
}

var styles = []string{"voronoi", "voronoi", "slabs", "subblock", "fine", "solid", "zero"}

func (in *inst) style() string { return styles[in.r.Intn(len(styles))] }

// ---------------------------------------------------------------- helpers for choosing blocks

// unwritten lists the blocks not yet visible at this version.
func (in *inst) unwritten(st *labelmodel.State) [][3]int {
	var out [][3]int
	for _, b := range in.g.Blocks() {
		if !st.Has[b] {
			out = append(out, b)
		}
	}
	return out
}

// randomBox returns a block-aligned box (in blocks) inside the grid; when onlyUnwritten it contains
// unwritten blocks only (nil if there is none).
func (in *inst) randomBox(st *labelmodel.State, onlyUnwritten bool) (org, nb [3]int, ok bool) {
	g := in.g
	for try := 0; try < 40; try++ {
		for k := 0; k < 3; k++ {
			nb[k] = 1 + in.r.Intn(g.NB[k])
			if onlyUnwritten && in.r.Intn(2) == 0 {
				nb[k] = 1
			}
			org[k] = g.Org[k] + in.r.Intn(g.NB[k]-nb[k]+1)
		}
		if !onlyUnwritten {
			return org, nb, true
		}
		good := true
		for z := 0; z < nb[2] && good; z++ {
			for y := 0; y < nb[1] && good; y++ {
				for x := 0; x < nb[0]; x++ {
					if st.Has[[3]int{org[0] + x, org[1] + y, org[2] + z}] {
						good = false
						break
					}
				}
			}
		}
		if good {
			return org, nb, true
		}
	}
	if onlyUnwritten {
		if u := in.unwritten(st); len(u) > 0 {
			return u[in.r.Intn(len(u))], [3]int{1, 1, 1}, true
		}
	}
	return org, nb, false
}

func (in *inst) after(v, kind string, before *labelmodel.State) {
	in.lastOp[v] = kind
	in.dirty[v] = diffBodies(before, in.states[v])
	in.c.Count("mutations_"+kind, 1)
	if in.dirty[v] > 0 {
		in.c.Count("mutations_changing_voxels", 1)
	}
}

// ---------------------------------------------------------------- mutations

// opWriteRaw posts a box through POST raw (ingest into unwritten blocks, or mutate=true anywhere).
func (in *inst) opWriteRaw(v string, mutate bool) (bool, error) {
	st := in.states[v]
	org, nb, ok := in.randomBox(st, !mutate)
	if !ok {
		return false, nil
	}
	bs := in.g.BS
	off := [3]int{org[0] * bs, org[1] * bs, org[2] * bs}
	size := [3]int{nb[0] * bs, nb[1] * bs, nb[2] * bs}
	reuse := 0.35
	if mutate {
		reuse = 0.5
	}
	data := in.genBox(st, size, in.style(), reuse)
	url := in.url(v, "raw/0_1_2/"+coordStr(size)+"/"+coordStr(off))
	kind := "ingest-raw"
	if mutate {
		url += "?mutate=true"
		kind = "mutate-raw"
	}
	in.log("%s@%s off=%v size=%v", kind, in.short(v), off, size)
	r, err := in.w.Post(url, lmwire.EncodeVolume(data))
	if err != nil {
		return false, err
	}
	if !r.OK() {
		in.viol("op-refused:"+kind, fmt.Sprintf("legal %s refused: %s", kind, r), nil)
		return false, nil
	}
	before := st.Clone()
	old := st.ReadBox(off, size)
	if err := st.WriteBox(off, size, data); err != nil {
		return false, err
	}
	in.bump(v, data...)
	in.noteForeign(v, kind, distinct(old, data))
	in.after(v, kind, before)
	return true, nil
}

// noteForeign records the known defect class "index delta of a write is dropped for supervoxels whose
// only mapping entries were made on other branches" (labelmap.aggregateBlockChanges ignores mapLabel's
// found flag and files the delta under label 0).
func (in *inst) noteForeign(v, kind string, touched map[uint64]bool) {
	if f := in.foreignMapped(v, touched); len(f) > 0 && in.taint[v] == "" {
		in.taint[v] = fmt.Sprintf("%s at %s touched supervoxels %v whose only mapping entries were made at versions outside its ancestry", kind, in.short(v), f)
		in.log("  (write touches supervoxels %v that are mapped only on other branches)", f)
		in.c.Count("writes_touching_supervoxels_mapped_only_on_other_branches", 1)
	}
}

// opIngestBlocks posts a set of unwritten blocks through POST blocks.
func (in *inst) opIngestBlocks(v string) (bool, error) {
	st := in.states[v]
	u := in.unwritten(st)
	if len(u) == 0 {
		return false, nil
	}
	in.r.Shuffle(len(u), func(i, j int) { u[i], u[j] = u[j], u[i] })
	n := 1 + in.r.Intn(len(u))
	if n > 6 {
		n = 6
	}
	u = u[:n]
	bs := in.g.BS
	var pbs []lmwire.PosBlock
	before := st.Clone()
	var all []uint64
	for _, b := range u {
		data := in.genBox(st, [3]int{bs, bs, bs}, in.style(), 0.35)
		pbs = append(pbs, lmwire.PosBlock{X: int32(b[0]), Y: int32(b[1]), Z: int32(b[2]), Vox: data})
		if err := st.WriteBox([3]int{b[0] * bs, b[1] * bs, b[2] * bs}, [3]int{bs, bs, bs}, data); err != nil {
			return false, err
		}
		all = append(all, data...)
	}
	body, err := lmwire.EncodeBlockStream(pbs, in.bs)
	if err != nil {
		return false, err
	}
	in.log("ingest-blocks@%s blocks=%v", in.short(v), u)
	r, err := in.w.Post(in.url(v, "blocks"), body)
	if err != nil {
		return false, err
	}
	if !r.OK() {
		in.states[v] = before
		in.viol("op-refused:ingest-blocks", fmt.Sprintf("legal POST blocks refused: %s", r), nil)
		return false, nil
	}
	in.bump(v, all...)
	in.noteForeign(v, "ingest-blocks", distinct(all))
	in.after(v, "ingest-blocks", before)
	return true, nil
}

// opIngestOffline is the documented bulk-load path: POST blocks?noindexing=true with new supervoxels, then the
// matching label indices through POST indices and, for supervoxels that join an existing body, POST mappings.
func (in *inst) opIngestOffline(v string) (bool, error) {
	st := in.states[v]
	u := in.unwritten(st)
	if len(u) == 0 {
		return false, nil
	}
	in.r.Shuffle(len(u), func(i, j int) { u[i], u[j] = u[j], u[i] })
	n := 1 + in.r.Intn(len(u))
	if n > 3 {
		n = 3
	}
	u = u[:n]
	bs := in.g.BS
	before := st.Clone()
	var pbs []lmwire.PosBlock
	newSV := map[uint64]bool{}
	for _, b := range u {
		data := in.genBox(st, [3]int{bs, bs, bs}, in.style(), 0) // fresh supervoxels only
		pbs = append(pbs, lmwire.PosBlock{X: int32(b[0]), Y: int32(b[1]), Z: int32(b[2]), Vox: data})
		if err := st.WriteBox([3]int{b[0] * bs, b[1] * bs, b[2] * bs}, [3]int{bs, bs, bs}, data); err != nil {
			return false, err
		}
		for l := range distinct(data) {
			newSV[l] = true
		}
	}
	if len(newSV) == 0 {
		in.states[v] = before
		return false, nil
	}
	body, err := lmwire.EncodeBlockStream(pbs, in.bs)
	if err != nil {
		return false, err
	}
	// some of the new supervoxels join an existing body
	svs := sortedU64(newSV)
	var target uint64
	var joined []uint64
	if bodies := before.Scan().Bodies(); len(bodies) > 0 && len(svs) >= 2 && in.r.Intn(2) == 0 {
		target = bodies[in.r.Intn(len(bodies))]
		joined = svs[:1+in.r.Intn(len(svs)-1)]
		st.Assign(joined, target)
	}
	in.log("ingest-offline@%s blocks=%v (noindexing) new supervoxels=%d, %v mapped to body %d", in.short(v), u, len(svs), joined, target)
	r, err := in.w.Post(in.url(v, "blocks?noindexing=true"), body)
	if err != nil {
		return false, err
	}
	if !r.OK() {
		in.states[v] = before
		in.viol("op-refused:ingest-offline-blocks", fmt.Sprintf("legal POST blocks?noindexing=true refused: %s", r), nil)
		return false, nil
	}
	if len(joined) > 0 {
		r, err = in.w.Post(in.url(v, "mappings"), lmwire.EncodeMappingOps([]lmwire.MappingOp{{MutID: 1, Mapped: target, Original: joined}}))
		if err != nil {
			return false, err
		}
		if !r.OK() {
			in.viol("op-refused:post-mappings", fmt.Sprintf("legal POST mappings refused: %s", r), nil)
			return false, fmt.Errorf("cannot continue after refused POST mappings")
		}
		in.entry(v, joined...)
	}
	// indices of every body that gained voxels, computed from the voxels
	sc := st.Scan()
	affected := map[uint64]bool{}
	for _, sv := range svs {
		affected[sc.SVBody[sv]] = true
	}
	var lis []*lmwire.LabelIndex
	for _, b := range sortedU64(affected) {
		li := &lmwire.LabelIndex{Label: b, Blocks: map[[3]int32]map[uint64]uint32{}}
		for bc, m := range sc.Index[b] {
			mm := map[uint64]uint32{}
			for sv, c := range m {
				mm[sv] = uint32(c)
			}
			li.Blocks[[3]int32{int32(bc[0]), int32(bc[1]), int32(bc[2])}] = mm
		}
		lis = append(lis, li)
	}
	r, err = in.w.Post(in.url(v, "indices"), lmwire.EncodeLabelIndices(lis))
	if err != nil {
		return false, err
	}
	if !r.OK() {
		in.viol("op-refused:post-indices", fmt.Sprintf("legal POST indices refused: %s", r), nil)
		return false, fmt.Errorf("cannot continue after refused POST indices")
	}
	in.bump(v, svs...)
	in.after(v, "ingest-offline", before)
	return true, nil
}

func (in *inst) pickBodies(sc *labelmodel.Scan, n int) []uint64 {
	bs := sc.Bodies()
	in.r.Shuffle(len(bs), func(i, j int) { bs[i], bs[j] = bs[j], bs[i] })
	if len(bs) > n {
		bs = bs[:n]
	}
	return bs
}

func (in *inst) opMerge(v string) (bool, error) {
	st := in.states[v]
	sc := st.Scan()
	if len(sc.BodySize) < 2 {
		return false, nil
	}
	bodies := in.pickBodies(sc, 2+in.r.Intn(3))
	if len(in.forced) >= 2 {
		bodies, in.forced = in.forced, nil
	}
	target, merged := bodies[0], bodies[1:]
	in.log("merge@%s %d<-%v", in.short(v), target, merged)
	r, err := in.w.Post(in.url(v, "merge"), lmwire.JSONU64s(append([]uint64{target}, merged...)))
	if err != nil {
		return false, err
	}
	if !r.OK() {
		in.viol("op-refused:merge", fmt.Sprintf("legal merge of existing bodies %v into %d refused: %s", merged, target, r), nil)
		return false, nil
	}
	before := st.Clone()
	for _, m := range merged {
		in.entry(v, sortedKeysInt(sc.BodySVs[m])...)
	}
	st.Merge(target, merged)
	in.after(v, "merge", before)
	return true, nil
}

func (in *inst) opCleave(v string) (bool, error) {
	st := in.states[v]
	sc := st.Scan()
	var cands []uint64
	for _, b := range sc.Bodies() {
		if len(sc.BodySVs[b]) >= 2 {
			cands = append(cands, b)
		}
	}
	if len(cands) == 0 {
		return false, nil
	}
	body := cands[in.r.Intn(len(cands))]
	svs := sortedKeysInt(sc.BodySVs[body])
	in.r.Shuffle(len(svs), func(i, j int) { svs[i], svs[j] = svs[j], svs[i] })
	k := 1 + in.r.Intn(len(svs)-1)
	cl := svs[:k]
	if len(in.forced) >= 2 { // body, supervoxels to cleave
		body, cl, in.forced = in.forced[0], in.forced[1:], nil
		svs = sortedKeysInt(sc.BodySVs[body])
	}
	in.log("cleave@%s body=%d svs=%v", in.short(v), body, cl)
	r, err := in.w.Post(in.url(v, fmt.Sprintf("cleave/%d", body)), lmwire.JSONU64s(cl))
	if err != nil {
		return false, err
	}
	if !r.OK() {
		in.viol("op-refused:cleave", fmt.Sprintf("legal cleave of %v from body %d (supervoxels %v) refused: %s", cl, body, svs, r), nil)
		return false, nil
	}
	var out struct{ CleavedLabel, MutationID uint64 }
	if err := json.Unmarshal(r.Body, &out); err != nil || out.CleavedLabel == 0 {
		in.viol("cleave:bad-response", fmt.Sprintf("cleave response %q has no CleavedLabel", r.Body), nil)
		return false, nil
	}
	if in.ever[out.CleavedLabel] {
		in.viol("cleave:label-reused", fmt.Sprintf("cleave returned label %d which already names a label of this instance", out.CleavedLabel), nil)
	}
	in.log("  -> cleaved label %d", out.CleavedLabel)
	before := st.Clone()
	st.Cleave(cl, out.CleavedLabel)
	in.entry(v, cl...)
	in.entry(v, out.CleavedLabel)
	in.bump(v, out.CleavedLabel)
	in.after(v, "cleave", before)
	return true, nil
}

func (in *inst) opRenumber(v string) (bool, error) {
	st := in.states[v]
	sc := st.Scan()
	if len(sc.BodySize) == 0 {
		return false, nil
	}
	n := 1
	if len(sc.BodySize) >= 2 && in.r.Intn(3) == 0 {
		n = 2
	}
	olds := in.pickBodies(sc, n)
	if len(in.forced) >= 1 {
		olds, in.forced = in.forced, nil
	}
	var pairs []uint64
	var news []uint64
	for _, o := range olds {
		nl := in.fresh()
		news = append(news, nl)
		pairs = append(pairs, nl, o)
	}
	in.log("renumber@%s [new,old,...]=%v", in.short(v), pairs)
	r, err := in.w.Post(in.url(v, "renumber"), lmwire.JSONU64s(pairs))
	if err != nil {
		return false, err
	}
	if !r.OK() {
		in.viol("op-refused:renumber", fmt.Sprintf("legal renumber %v refused: %s", pairs, r), nil)
		return false, nil
	}
	before := st.Clone()
	for i, o := range olds {
		in.entry(v, sortedKeysInt(sc.BodySVs[o])...)
		in.entry(v, news[i])
		st.Renumber(o, news[i])
	}
	in.bump(v, news...)
	in.after(v, "renumber", before)
	return true, nil
}

// splitShape picks a subset of the masked voxels.  mustBeProper forbids taking every voxel.
func (in *inst) splitShape(mask []bool, n int, mustBeProper bool) (sub []bool, shape string) {
	g := in.g
	sub = make([]bool, len(mask))
	var idx []int
	for i, m := range mask {
		if m {
			idx = append(idx, i)
		}
	}
	shapes := []string{"single", "allbutone", "halfx", "halfz", "rows", "random"}
	if !mustBeProper {
		shapes = append(shapes, "all")
	}
	shape = shapes[in.r.Intn(len(shapes))]
	if n == 1 {
		if mustBeProper {
			return nil, ""
		}
		shape = "all"
	}
	switch shape {
	case "single":
		sub[idx[in.r.Intn(len(idx))]] = true
	case "allbutone":
		skip := idx[in.r.Intn(len(idx))]
		for _, i := range idx {
			sub[i] = i != skip
		}
	case "all":
		for _, i := range idx {
			sub[i] = true
		}
	case "halfx", "halfz":
		// cut at the median coordinate so the runs cross sub-block and block borders
		var cs []int
		for _, i := range idx {
			x, _, z := g.Coord(i)
			if shape == "halfx" {
				cs = append(cs, x)
			} else {
				cs = append(cs, z)
			}
		}
		sort.Ints(cs)
		med := cs[len(cs)/2]
		cnt := 0
		for _, i := range idx {
			x, _, z := g.Coord(i)
			c := z
			if shape == "halfx" {
				c = x
			}
			if c < med {
				sub[i] = true
				cnt++
			}
		}
		if cnt == 0 {
			sub[idx[0]] = true
		}
	case "rows":
		cnt := 0
		for _, i := range idx {
			_, y, z := g.Coord(i)
			if (y+z)%2 == 0 {
				sub[i] = true
				cnt++
			}
		}
		if cnt == 0 || cnt == len(idx) {
			for _, i := range idx {
				sub[i] = false
			}
			sub[idx[0]] = true
		}
	default:
		cnt := 0
		for _, i := range idx {
			if in.r.Intn(3) == 0 {
				sub[i] = true
				cnt++
			}
		}
		if cnt == 0 || cnt == len(idx) {
			for _, i := range idx {
				sub[i] = false
			}
			sub[idx[0]] = true
		}
	}
	return sub, shape
}

func (in *inst) opSplitSupervoxel(v string) (bool, error) {
	st := in.states[v]
	sc := st.Scan()
	svs := sc.SVs()
	if len(svs) == 0 {
		return false, nil
	}
	sv := svs[in.r.Intn(len(svs))]
	mask, n := st.Mask(sv, true, nil)
	sub, shape := in.splitShape(mask, n, false)
	if sub == nil {
		return false, nil
	}
	runs := maskToRuns(in.g, sub)
	outside := false
	if in.r.Intn(8) == 0 && len(runs) > 0 {
		// documented: "Any region that falls out of the given supervoxel will be ignored"
		r0 := runs[in.r.Intn(len(runs))]
		if in.g.Idx(r0.X+r0.N, r0.Y, r0.Z) >= 0 && !sub[in.g.Idx(r0.X+r0.N, r0.Y, r0.Z)] && !mask[in.g.Idx(r0.X+r0.N, r0.Y, r0.Z)] {
			for i := range runs {
				if runs[i] == r0 {
					runs[i].N++
				}
			}
			outside = true
			shape += "+outside"
		}
	}
	q := ""
	var wantSplit, wantRemain uint64
	if in.r.Intn(4) == 0 {
		wantSplit, wantRemain = in.fresh(), in.fresh()
		q = fmt.Sprintf("?split=%d&remain=%d", wantSplit, wantRemain)
	}
	in.log("split-supervoxel@%s sv=%d shape=%s voxels=%d/%d runs=%d%s", in.short(v), sv, shape, runVoxels(runs), n, len(runs), q)
	r, err := in.w.Post(in.url(v, fmt.Sprintf("split-supervoxel/%d", sv))+q, lmwire.EncodeRLEs(wireRuns(runs)))
	if err != nil {
		return false, err
	}
	if !r.OK() {
		if outside {
			// rejection is tolerated here (frame condition checked by the read surface), but recorded
			in.c.Count("split_supervoxel_partly_outside_rejected", 1)
			in.log("  -> rejected: %s", drv.Trunc(string(r.Body), 120))
			in.lastOp[v] = "rejected-split-supervoxel-outside"
			in.dirty[v] = 0
			return true, nil
		}
		in.viol("op-refused:split-supervoxel:"+shape, fmt.Sprintf("legal split-supervoxel of %d (%s, %d of %d voxels) refused: %s", sv, shape, runVoxels(runs), n, r), nil)
		return false, nil
	}
	var out struct{ SplitSupervoxel, RemainSupervoxel, MutationID uint64 }
	if err := json.Unmarshal(r.Body, &out); err != nil || out.SplitSupervoxel == 0 || out.RemainSupervoxel == 0 {
		in.viol("split-supervoxel:bad-response", fmt.Sprintf("response %q lacks the new supervoxel ids", r.Body), nil)
		return false, nil
	}
	if wantSplit != 0 && (out.SplitSupervoxel != wantSplit || out.RemainSupervoxel != wantRemain) {
		in.viol("split-supervoxel:requested-ids-ignored", fmt.Sprintf("asked for split=%d remain=%d, got %s", wantSplit, wantRemain, r.Body), nil)
	}
	if wantSplit == 0 && (in.ever[out.SplitSupervoxel] || in.ever[out.RemainSupervoxel]) {
		in.viol("split-supervoxel:label-reused", fmt.Sprintf("server-chosen ids %d/%d already name labels of this instance", out.SplitSupervoxel, out.RemainSupervoxel), nil)
	}
	in.log("  -> split=%d remain=%d", out.SplitSupervoxel, out.RemainSupervoxel)
	before := st.Clone()
	st.SplitSupervoxel(sv, runs, out.SplitSupervoxel, out.RemainSupervoxel)
	in.entry(v, sv, out.SplitSupervoxel, out.RemainSupervoxel)
	in.bump(v, out.SplitSupervoxel, out.RemainSupervoxel)
	in.after(v, "split-supervoxel", before)
	return true, nil
}

func (in *inst) opSplitBody(v string) (bool, error) {
	st := in.states[v]
	sc := st.Scan()
	var cands []uint64
	for _, b := range sc.Bodies() {
		if sc.BodySize[b] >= 2 {
			cands = append(cands, b)
		}
	}
	if len(cands) == 0 {
		return false, nil
	}
	body := cands[in.r.Intn(len(cands))]
	mask, n := st.Mask(body, false, nil)
	sub, shape := in.splitShape(mask, n, true)
	if sub == nil {
		return false, nil
	}
	runs := maskToRuns(in.g, sub)
	in.log("split@%s body=%d shape=%s voxels=%d/%d runs=%d", in.short(v), body, shape, runVoxels(runs), n, len(runs))
	r, err := in.w.Post(in.url(v, fmt.Sprintf("split/%d", body)), lmwire.EncodeRLEs(wireRuns(runs)))
	if err != nil {
		return false, err
	}
	if !r.OK() {
		in.viol("op-refused:split:"+shape, fmt.Sprintf("legal split of body %d (%s, %d of %d voxels) refused: %s", body, shape, runVoxels(runs), n, r), nil)
		return false, nil
	}
	var out struct {
		Label      uint64 `json:"label"`
		MutationID uint64
	}
	if err := json.Unmarshal(r.Body, &out); err != nil || out.Label == 0 {
		in.viol("split:bad-response", fmt.Sprintf("response %q lacks the new label", r.Body), nil)
		return false, nil
	}
	// the per-supervoxel successor ids are published by GET supervoxel-splits: [uuid, [[mutid, old, remain, split]...], ...]
	sr, err := in.w.Get(in.url(v, "supervoxel-splits"))
	if err != nil {
		return false, err
	}
	var raw []json.RawMessage
	var triples []labelmodel.SVSplit
	if sr.OK() && json.Unmarshal(sr.Body, &raw) == nil {
		for _, item := range raw {
			var recs [][]uint64
			if json.Unmarshal(item, &recs) != nil {
				continue
			}
			for _, rec := range recs {
				if len(rec) == 4 && rec[0] == out.MutationID {
					triples = append(triples, labelmodel.SVSplit{Old: rec[1], Remain: rec[2], Split: rec[3]})
				}
			}
		}
	}
	sort.Slice(triples, func(i, j int) bool { return triples[i].Old < triples[j].Old })
	// the supervoxels the split volume touches, by the model
	touched := map[uint64]bool{}
	for i, on := range sub {
		if on {
			touched[st.SV[i]] = true
		}
	}
	got := map[uint64]bool{}
	for _, t := range triples {
		got[t.Old] = true
	}
	if len(got) != len(touched) {
		in.viol("split:supervoxel-splits-incomplete", fmt.Sprintf("split of body %d (mutation %d) cut supervoxels %v but supervoxel-splits lists %v: %s", body, out.MutationID, sortedU64(touched), triples, drv.Trunc(string(sr.Body), 300)), nil)
		return false, fmt.Errorf("cannot continue the model after split without successor ids")
	}
	in.log("  -> new body %d, supervoxel successors %v", out.Label, triples)
	before := st.Clone()
	st.SplitBody(body, runs, out.Label, triples)
	in.bump(v, out.Label)
	for _, t := range triples {
		in.bump(v, t.Remain, t.Split)
		in.entry(v, t.Old, t.Remain, t.Split)
	}
	in.after(v, "split", before)
	return true, nil
}

// opIllegal sends a request the documentation says is rejected (or whose rejection must be harmless).
func (in *inst) opIllegal(v string) (bool, error) {
	st := in.states[v]
	sc := st.Scan()
	bodies := sc.Bodies()
	if len(bodies) == 0 {
		return false, nil
	}
	body := bodies[in.r.Intn(len(bodies))]
	ghost := in.fresh()
	type req struct {
		kind, url string
		body      []byte
		must400   bool // documented rejection
		apply     func()
	}
	var rq req
	switch in.r.Intn(6) {
	case 0:
		rq = req{"cleave-all-supervoxels", in.url(v, fmt.Sprintf("cleave/%d", body)), lmwire.JSONU64s(sortedKeysInt(sc.BodySVs[body])), true, nil}
	case 1:
		rq = req{"cleave-nonexistent-body", in.url(v, fmt.Sprintf("cleave/%d", ghost)), lmwire.JSONU64s([]uint64{bodies[0]}), true, nil}
	case 2:
		other := bodies[in.r.Intn(len(bodies))]
		if other == body || len(sc.BodySVs[body]) < 1 {
			rq = req{"cleave-nonexistent-body", in.url(v, fmt.Sprintf("cleave/%d", ghost)), lmwire.JSONU64s([]uint64{bodies[0]}), true, nil}
		} else {
			// a supervoxel of another body: not documented as 400, rejection must be harmless
			rq = req{"cleave-foreign-supervoxel", in.url(v, fmt.Sprintf("cleave/%d", body)), lmwire.JSONU64s([]uint64{sortedKeysInt(sc.BodySVs[other])[0]}), false, nil}
		}
	case 3:
		rq = req{"merge-into-itself", in.url(v, "merge"), lmwire.JSONU64s([]uint64{body, body}), false, nil}
	case 4:
		rq = req{"merge-nonexistent-body", in.url(v, "merge"), lmwire.JSONU64s([]uint64{body, ghost}), false, nil}
	default:
		rq = req{"merge-into-nonexistent-target", in.url(v, "merge"), lmwire.JSONU64s([]uint64{ghost, body}), false, func() { st.Merge(ghost, []uint64{body}) }}
	}
	in.log("illegal %s@%s %s", rq.kind, in.short(v), drv.Trunc(string(rq.body), 80))
	_ = strings.Contains
	r, err := in.w.Post(rq.url, rq.body)
	if err != nil {
		return false, err
	}
	in.c.Count("illegal_requests", 1)
	if r.OK() {
		in.c.Count("illegal_requests_accepted", 1)
		in.log("  -> accepted: %s", drv.Trunc(string(r.Body), 80))
		if rq.must400 {
			in.viol("illegal-accepted:"+rq.kind, fmt.Sprintf("%s is documented to be rejected with status 400 but returned %s", rq.kind, r), nil)
			return false, fmt.Errorf("model cannot follow an accepted %s", rq.kind)
		}
		if rq.kind == "cleave-foreign-supervoxel" {
			in.viol("illegal-accepted:"+rq.kind, fmt.Sprintf("cleaving a supervoxel that belongs to another body was accepted: %s", r), nil)
			return false, fmt.Errorf("model cannot follow an accepted %s", rq.kind)
		}
		before := st.Clone()
		if rq.apply != nil {
			rq.apply()
		}
		in.after(v, "accepted-"+rq.kind, before)
		return true, nil
	}
	if rq.must400 && r.Status != 400 {
		in.viol("illegal-status:"+rq.kind, fmt.Sprintf("%s: documented status 400, got %s", rq.kind, r), nil)
	}
	in.lastOp[v] = "rejected-" + rq.kind
	in.dirty[v] = 0
	return true, nil
}
