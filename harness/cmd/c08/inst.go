package main

import (
	"encoding/json"
	"fmt"
	"math/rand"
	"sort"
	"strings"
	"sync"

	"verif/harness/internal/drv"
	"verif/harness/internal/dvc"
	"verif/harness/internal/labelmodel"
	"verif/harness/internal/lmwire"
)

// inst is one labelmap instance under test together with its per-version reference models.
type inst struct {
	forced   []uint64 // arguments the next merge / cleave / renumber has to use (scripted chains)
	namesake uint64   // the body the namesake chain works on
	c        *drv.Ctx
	w        *drv.Worker
	cl       *dvc.Client
	h        *dvc.Hist
	r        *rand.Rand
	tag      string
	name     string
	g        *labelmodel.Geom
	bs       [3]int
	states   map[string]*labelmodel.State
	ever     map[uint64]bool   // every label sent to or received from the server, at any version
	resv     map[uint64]bool   // ids handed out by fresh() (they may never reach the server)
	local    map[string]uint64 // largest label introduced by operations at exactly this node
	lastOp   map[string]string // kind of the last mutation applied at a node
	dirty    map[string]int    // voxels whose body changed by the last mutation at a node
	trace    []string
	step     int
	conf     string
	nviol    int
	// entries[l] = versions at which an operation created a mapping entry for label l (merge, renumber,
	// cleave, split-supervoxel, split); taint[v] = why index-derived views at v are known to be off
	entries map[uint64]map[string]bool
	taint   map[string]string
}

func (in *inst) url(v, path string) string { return "/api/node/" + v + "/" + in.name + "/" + path }

func (in *inst) log(f string, a ...interface{}) {
	in.trace = append(in.trace, fmt.Sprintf(f, a...))
}

func (in *inst) short(v string) string { return in.h.Short(v) }

func (in *inst) witness(extra map[string]interface{}) map[string]interface{} {
	m := map[string]interface{}{"sequence": in.tag, "config": in.conf, "block_size": in.g.BS, "grid_origin_blocks": in.g.Org,
		"grid_blocks": in.g.NB, "trace": in.trace, "dag": in.h.D.Shape()}
	for k, v := range extra {
		m[k] = v
	}
	return m
}

// one report per violation class and run; repeats are only counted
var (
	reportedMu sync.Mutex
	reported   = map[string]int{}
)

func firstReport(key string) bool {
	reportedMu.Lock()
	defer reportedMu.Unlock()
	reported[key]++
	return reported[key] == 1
}

func (in *inst) viol(key, what string, extra map[string]interface{}) {
	in.nviol++
	if !firstReport(key) {
		in.c.Count("violations_repeating_an_already_reported_class", 1)
		return
	}
	in.c.Violation(key, fmt.Sprintf("[%s %s] %s; history: %s", in.tag, in.conf, what, drv.Trunc(strings.Join(in.trace, "; "), 1500)), in.witness(extra))
}

// settle waits for the code's own idle flags and then for the goroutines POST raw leaves behind.
func (in *inst) settle() error {
	if err := in.w.Settle(); err != nil {
		return err
	}
	var q struct {
		Polls     int    `json:"polls"`
		BusyPolls int    `json:"busy_polls"`
		OK        bool   `json:"ok"`
		Last      string `json:"last"`
	}
	if err := in.w.API("c08.quiesce", map[string]interface{}{"max_wait_ms": 60000}, &q); err != nil {
		return err
	}
	if q.BusyPolls > 0 {
		in.c.Count("settle_idle_but_labelmap_goroutines_running", 1)
		in.c.Seen("background_after_idle", q.Last)
	}
	if !q.OK {
		in.c.Inconclusive("labelmap goroutines still running 60 s after the instance reported idle: " + q.Last)
	}
	return nil
}

func (in *inst) entry(v string, labels ...uint64) {
	for _, l := range labels {
		if in.entries[l] == nil {
			in.entries[l] = map[string]bool{}
		}
		in.entries[l][v] = true
	}
}

// foreignMapped returns the labels among ls whose mapping entries all sit at versions that are not
// ancestors of v (siblings, cousins, descendants of ancestors).
func (in *inst) foreignMapped(v string, ls map[uint64]bool) []uint64 {
	anc := in.h.D.Anc(v)
	var out []uint64
	for _, l := range sortedU64(ls) {
		es := in.entries[l]
		if len(es) == 0 {
			continue
		}
		own := false
		for ev := range es {
			if anc[ev] {
				own = true
			}
		}
		if !own {
			out = append(out, l)
		}
	}
	return out
}

func distinct(vs ...[]uint64) map[uint64]bool {
	m := map[uint64]bool{}
	for _, v := range vs {
		var last uint64
		for _, l := range v {
			if l != 0 && l != last {
				m[l] = true
				last = l
			}
		}
	}
	return m
}

func (in *inst) see(labels ...uint64) {
	for _, l := range labels {
		if l != 0 {
			in.ever[l] = true
		}
	}
}

func (in *inst) bump(v string, labels ...uint64) {
	for _, l := range labels {
		if l > in.local[v] {
			in.local[v] = l
		}
	}
	in.see(labels...)
}

// fresh returns a label larger than anything seen or handed out so far in this instance.
func (in *inst) fresh() uint64 {
	var m uint64
	for l := range in.ever {
		if l > m {
			m = l
		}
	}
	for l := range in.resv {
		if l > m {
			m = l
		}
	}
	l := m + 1 + uint64(in.r.Intn(3))
	in.resv[l] = true
	return l
}

func (in *inst) neg() bool { return in.g.Org[0] < 0 || in.g.Org[1] < 0 || in.g.Org[2] < 0 }

func coordStr(c [3]int) string { return fmt.Sprintf("%d_%d_%d", c[0], c[1], c[2]) }

func sortedU64(m map[uint64]bool) []uint64 {
	out := make([]uint64, 0, len(m))
	for k := range m {
		out = append(out, k)
	}
	sort.Slice(out, func(i, j int) bool { return out[i] < out[j] })
	return out
}

func sortedKeysInt(m map[uint64]int) []uint64 {
	out := make([]uint64, 0, len(m))
	for k := range m {
		out = append(out, k)
	}
	sort.Slice(out, func(i, j int) bool { return out[i] < out[j] })
	return out
}

// maskToRuns converts a voxel mask over the model grid into maximal runs along x.
func maskToRuns(g *labelmodel.Geom, mask []bool) []labelmodel.Run {
	var runs []labelmodel.Run
	d := g.Dim()
	o := g.VoxOrg()
	i := 0
	for z := 0; z < d[2]; z++ {
		for y := 0; y < d[1]; y++ {
			start := -1
			for x := 0; x <= d[0]; x++ {
				on := x < d[0] && mask[i+x]
				if on && start < 0 {
					start = x
				}
				if !on && start >= 0 {
					runs = append(runs, labelmodel.Run{X: o[0] + start, Y: o[1] + y, Z: o[2] + z, N: x - start})
					start = -1
				}
			}
			i += d[0]
		}
	}
	return runs
}

func wireRuns(runs []labelmodel.Run) []lmwire.Run {
	out := make([]lmwire.Run, len(runs))
	for i, r := range runs {
		out[i] = lmwire.Run{X: int32(r.X), Y: int32(r.Y), Z: int32(r.Z), N: int32(r.N)}
	}
	return out
}

func runVoxels(runs []labelmodel.Run) int {
	n := 0
	for _, r := range runs {
		n += r.N
	}
	return n
}

func jsonOf(v interface{}) []byte {
	b, _ := json.Marshal(v)
	return b
}

// diffBodies counts voxels whose body differs between two states of the same geometry.
func diffBodies(a, b *labelmodel.State) int {
	va, vb := a.BodyVolume(), b.BodyVolume()
	n := 0
	for i := range va {
		if va[i] != vb[i] || a.SV[i] != b.SV[i] {
			n++
		}
	}
	return n
}
