package main

import (
	"encoding/json"
	"fmt"
	"sort"
	"strconv"
	"strings"

	"verif/harness/internal/drv"
	"verif/harness/internal/labelmodel"
	"verif/harness/internal/lmwire"
)

// chk is one evaluation of the read surface at one version.
type chk struct {
	in    *inst
	v     string
	st    *labelmodel.State
	sc    *labelmodel.Scan
	phase string // "step" | "final"
	full  bool
}

// key is the stable identifier of a violation class: endpoint, kind of disagreement, and whether the
// instance lives at negative block coordinates (a separate family of defects).
func (k *chk) key(endpoint, class string) string {
	if k.in.neg() && strings.HasPrefix(endpoint, "sparsevol-bounded") {
		// one root cause (voxel bounds -> block bounds by truncating division, dvid.OptionalBounds.Divide) shows as
		// 404s, missing voxels, foreign blocks or negative run lengths depending on the bounds drawn
		return "sparsevol-bounded|negcoords"
	}
	s := endpoint + "|" + class
	if k.in.neg() {
		s += "|negcoords"
	}
	return s
}

func (k *chk) bad(endpoint, class, what string, extra map[string]interface{}) {
	if extra == nil {
		extra = map[string]interface{}{}
	}
	extra["version"] = k.in.short(k.v)
	extra["endpoint"] = endpoint
	extra["phase"] = k.phase
	extra["last_op_at_version"] = k.in.lastOp[k.v]
	if t := k.in.taint[k.v]; t != "" && indexDerived(endpoint) {
		// known class: every index-derived disagreement at this version is attributed to it
		extra["observed_as"] = k.key(endpoint, class)
		k.in.viol("index-update-lost|write-touches-supervoxel-mapped-only-on-other-branch",
			fmt.Sprintf("%s; first seen through %s at %s (%s): %s", t, endpoint, k.in.short(k.v), k.phase, what), extra)
		return
	}
	k.in.viol(k.key(endpoint, class), fmt.Sprintf("%s at %s (%s): %s", endpoint, k.in.short(k.v), k.phase, what), extra)
}

// indexDerived tells whether an endpoint answers from the label index (as opposed to voxels / mapping).
func indexDerived(endpoint string) bool {
	for _, p := range []string{"raw", "blocks", "specificblocks", "labels", "label", "mapping", "mappings", "maxlabel"} {
		if endpoint == p || strings.HasPrefix(endpoint, p+"-") {
			return false
		}
	}
	return true
}

// caseFor records one evaluated case; nontrivial per the rule in run().
func (k *chk) caseFor(endpoint string, label uint64, nontrivial bool) {
	in := k.in
	in.c.Case(fmt.Sprintf("%s|%d|%s|%s|%s|%d", in.tag, in.step, k.phase, in.short(k.v), endpoint, label), nontrivial)
	in.c.Seen("endpoints", endpoint)
	in.c.Count("reads_"+endpoint, 1)
}

func (k *chk) bodyNontrivial(b uint64) bool {
	return len(k.sc.Index[b]) >= 2 || len(k.sc.BodySVs[b]) >= 2
}

func (k *chk) get(path string) (drv.Resp, error) { return k.in.w.Get(k.in.url(k.v, path)) }
func (k *chk) getBody(path string, body []byte) (drv.Resp, error) {
	return k.in.w.HTTP("GET", k.in.url(k.v, path), body)
}

func firstDiff(a, b []uint64) int {
	for i := range a {
		if i >= len(b) || a[i] != b[i] {
			return i
		}
	}
	if len(b) > len(a) {
		return len(a)
	}
	return -1
}

func (k *chk) voxelAt(i int) string {
	x, y, z := k.in.g.Coord(i)
	return fmt.Sprintf("(%d,%d,%d)", x, y, z)
}

// ---------------------------------------------------------------- volume reads

func (k *chk) volumes() error {
	in := k.in
	g := in.g
	d := g.Dim()
	off := g.VoxOrg()
	changed := in.dirty[k.v] > 0
	bodyVol := k.st.BodyVolume()
	for _, sv := range []bool{true, false} {
		want := bodyVol
		q := ""
		name := "raw"
		if sv {
			want = k.st.SV
			q = "?supervoxels=true"
			name = "raw-supervoxels"
		}
		r, err := k.get("raw/0_1_2/" + coordStr(d) + "/" + coordStr(off) + q)
		if err != nil {
			return err
		}
		k.caseFor(name, 0, changed)
		if !r.OK() {
			k.bad(name, "status", fmt.Sprintf("GET raw of the whole grid failed: %s", r), nil)
			continue
		}
		got, err := lmwire.DecodeVolume(r.Body, g.NVox())
		if err != nil {
			k.bad(name, "format", err.Error(), nil)
			continue
		}
		if i := firstDiff(want, got); i >= 0 {
			n := 0
			for j := range want {
				if want[j] != got[j] {
					n++
				}
			}
			k.bad(name, "voxel-mismatch", fmt.Sprintf("%d voxels differ from the model; first at %s: server %d, model %d", n, k.voxelAt(i), got[i], want[i]),
				map[string]interface{}{"first": k.voxelAt(i), "server": got[i], "model": want[i], "ndiff": n})
		}
	}
	// blocks, mapped and unmapped, in two encodings
	type variant struct {
		sv   bool
		comp string
	}
	vars := []variant{{true, "uncompressed"}, {false, "blocks"}}
	if k.full {
		vars = []variant{{true, "uncompressed"}, {false, "uncompressed"}, {true, "blocks"}, {false, "blocks"}}
	}
	for _, va := range vars {
		q := "?compression=" + va.comp
		name := "blocks"
		want := bodyVol
		if va.sv {
			q += "&supervoxels=true"
			name = "blocks-supervoxels"
			want = k.st.SV
		}
		r, err := k.get("blocks/" + coordStr(d) + "/" + coordStr(off) + q)
		if err != nil {
			return err
		}
		k.caseFor(name+"-"+va.comp, 0, changed)
		if !r.OK() {
			k.bad(name, "status", fmt.Sprintf("GET blocks failed: %s", r), nil)
			continue
		}
		pbs, err := lmwire.DecodeBlockStream(r.Body, va.comp, in.bs)
		if err != nil {
			k.bad(name, "format", err.Error(), nil)
			continue
		}
		k.compareBlocks(name, pbs, want, nil)
	}
	// specificblocks on a random subset (including one block outside the grid)
	blocks := g.Blocks()
	in.r.Shuffle(len(blocks), func(i, j int) { blocks[i], blocks[j] = blocks[j], blocks[i] })
	n := 1 + in.r.Intn(len(blocks))
	if n > 5 {
		n = 5
	}
	sel := append([][3]int{}, blocks[:n]...)
	sel = append(sel, [3]int{g.Org[0] + g.NB[0] + 3, g.Org[1], g.Org[2]})
	var parts []string
	for _, b := range sel {
		parts = append(parts, fmt.Sprintf("%d,%d,%d", b[0], b[1], b[2]))
	}
	r, err := k.get("specificblocks?compression=uncompressed&supervoxels=true&blocks=" + strings.Join(parts, ","))
	if err != nil {
		return err
	}
	k.caseFor("specificblocks", 0, changed)
	if !r.OK() {
		k.bad("specificblocks", "status", fmt.Sprintf("GET specificblocks %v failed: %s", sel, r), nil)
	} else if pbs, err := lmwire.DecodeBlockStream(r.Body, "uncompressed", in.bs); err != nil {
		k.bad("specificblocks", "format", err.Error(), nil)
	} else {
		want := map[[3]int]bool{}
		for _, b := range sel {
			want[b] = true
		}
		k.compareBlocks("specificblocks", pbs, k.st.SV, want)
	}
	return nil
}

// compareBlocks checks returned blocks voxel by voxel; a block that is not returned must be all
// background in the model.  only (if non-nil) is the set of requested blocks.
func (k *chk) compareBlocks(name string, pbs []lmwire.PosBlock, want []uint64, only map[[3]int]bool) {
	g := k.in.g
	bs := g.BS
	seen := map[[3]int]bool{}
	for _, pb := range pbs {
		bc := [3]int{int(pb.X), int(pb.Y), int(pb.Z)}
		if seen[bc] {
			k.bad(name, "duplicate-block", fmt.Sprintf("block %v returned twice", bc), nil)
		}
		seen[bc] = true
		if only != nil && !only[bc] {
			k.bad(name, "unrequested-block", fmt.Sprintf("block %v was not requested", bc), nil)
			continue
		}
		i := 0
		nd := 0
		first := ""
		for z := 0; z < bs; z++ {
			for y := 0; y < bs; y++ {
				for x := 0; x < bs; x++ {
					var w uint64
					if j := g.Idx(bc[0]*bs+x, bc[1]*bs+y, bc[2]*bs+z); j >= 0 {
						w = want[j]
					}
					if pb.Vox[i] != w {
						if nd == 0 {
							first = fmt.Sprintf("(%d,%d,%d): server %d, model %d", bc[0]*bs+x, bc[1]*bs+y, bc[2]*bs+z, pb.Vox[i], w)
						}
						nd++
					}
					i++
				}
			}
		}
		if nd > 0 {
			k.bad(name, "voxel-mismatch", fmt.Sprintf("block %v: %d voxels differ; first %s", bc, nd, first), map[string]interface{}{"block": bc})
		}
	}
	for _, bc := range g.Blocks() {
		if seen[bc] || (only != nil && !only[bc]) {
			continue
		}
		for z := 0; z < bs; z++ {
			for y := 0; y < bs; y++ {
				base := g.Idx(bc[0]*bs, bc[1]*bs+y, bc[2]*bs+z)
				for x := 0; x < bs; x++ {
					if want[base+x] != 0 {
						k.bad(name, "block-missing", fmt.Sprintf("block %v holds labels in the model but is absent from the stream", bc), map[string]interface{}{"block": bc})
						goto next
					}
				}
			}
		}
	next:
	}
}

// ---------------------------------------------------------------- sparse volumes

// runsToMask decodes runs into a mask over the grid; it reports duplicates and voxels outside the grid.
func (k *chk) runsToMask(runs []lmwire.Run) (mask []bool, n int, problem string) {
	g := k.in.g
	mask = make([]bool, g.NVox())
	for _, r := range runs {
		if r.N <= 0 {
			return mask, n, fmt.Sprintf("run %v has non-positive length", r)
		}
		for j := 0; j < int(r.N); j++ {
			i := g.Idx(int(r.X)+j, int(r.Y), int(r.Z))
			if i < 0 {
				return mask, n, fmt.Sprintf("run %v leaves the written volume", r)
			}
			if mask[i] {
				return mask, n, fmt.Sprintf("voxel %s is covered twice", k.voxelAt(i))
			}
			mask[i] = true
			n++
		}
	}
	return mask, n, ""
}

func (k *chk) compareMask(endpoint string, label uint64, got []bool, want []bool, extra string, b *labelmodel.Bounds, full []bool) {
	miss, surplus := 0, 0
	first := -1
	overshoot := b != nil && b.Max[0] != nil
	for i := range want {
		if want[i] && !got[i] {
			miss++
			if first < 0 {
				first = i
			}
		}
		if got[i] && !want[i] {
			surplus++
			if first < 0 {
				first = i
			}
			if overshoot {
				// class: the voxel belongs to the label, is inside the y/z bounds and lies beyond maxx but
				// still inside the 8-voxel sub-block that contains maxx
				x, y, z := k.in.g.Coord(i)
				mx := *b.Max[0]
				yz := labelmodel.Bounds{Min: [3]*int{b.Min[0], b.Min[1], b.Min[2]}, Max: [3]*int{nil, b.Max[1], b.Max[2]}}
				if !(full[i] && yz.In(x, y, z) && x > mx && x <= mx-(((mx%8)+8)%8)+7) {
					overshoot = false
				}
			}
		}
	}
	if miss == 0 && surplus > 0 && overshoot {
		k.bad(endpoint, "exact-maxx-overshoot-to-subblock-end", fmt.Sprintf("label %d%s with exact bounds: %d returned voxels of the label lie beyond maxx (all inside the 8-voxel sub-block that contains maxx, y/z bounds respected); first at %s",
			label, extra, surplus, k.voxelAt(first)), map[string]interface{}{"label": label, "surplus": surplus})
		return
	}
	if miss+surplus > 0 {
		k.bad(endpoint, "voxel-set-mismatch", fmt.Sprintf("label %d%s: %d voxels of the model are missing, %d returned voxels do not belong to it; first at %s",
			label, extra, miss, surplus, k.voxelAt(first)), map[string]interface{}{"label": label, "missing": miss, "surplus": surplus})
	}
}

func (k *chk) sparsevol(label uint64, isSV bool, b *labelmodel.Bounds, exact bool, byPoint string) error {
	q := []string{}
	if isSV {
		q = append(q, "supervoxels=true")
	}
	bdesc := ""
	if b != nil {
		names := [3]string{"x", "y", "z"}
		for a := 0; a < 3; a++ {
			if b.Min[a] != nil {
				q = append(q, fmt.Sprintf("min%s=%d", names[a], *b.Min[a]))
			}
			if b.Max[a] != nil {
				q = append(q, fmt.Sprintf("max%s=%d", names[a], *b.Max[a]))
			}
		}
		bdesc = " bounds " + strings.Join(q, "&")
		if !exact {
			q = append(q, "exact=false")
		}
	}
	ep := "sparsevol"
	path := fmt.Sprintf("sparsevol/%d", label)
	if byPoint != "" {
		ep = "sparsevol-by-point"
		path = "sparsevol-by-point/" + byPoint
	}
	if isSV {
		ep += "-supervoxels"
	}
	if b != nil {
		if exact {
			ep += "-bounded"
		} else {
			ep += "-bounded-inexact"
		}
	}
	if len(q) > 0 {
		path += "?" + strings.Join(q, "&")
	}
	r, err := k.get(path)
	if err != nil {
		return err
	}
	want, nwant := k.st.Mask(label, isSV, b)
	full, nfull := want, nwant
	if b != nil {
		full, nfull = k.st.Mask(label, isSV, nil)
	}
	k.caseFor(ep, label, !isSV && k.bodyNontrivial(label) || isSV && len(k.sc.SVBlocks[label]) >= 2)
	if nfull == 0 {
		if r.Status != 404 {
			k.bad(ep, "status-nonexistent", fmt.Sprintf("label %d has no voxels: documented 404, got %s", label, r), map[string]interface{}{"label": label})
		}
		return nil
	}
	if r.Status == 404 {
		if nwant > 0 {
			k.bad(ep, "status", fmt.Sprintf("label %d%s has %d voxels in the model but the server answered 404", label, bdesc, nwant), map[string]interface{}{"label": label})
		}
		return nil
	}
	if !r.OK() {
		k.bad(ep, "status", fmt.Sprintf("label %d%s: %s", label, bdesc, r), map[string]interface{}{"label": label})
		return nil
	}
	runs, err := lmwire.DecodeRLEs(r.Body)
	if err != nil {
		k.bad(ep, "format", fmt.Sprintf("label %d%s: %v", label, bdesc, err), nil)
		return nil
	}
	got, _, prob := k.runsToMask(runs)
	if prob != "" {
		k.bad(ep, "bad-runs", fmt.Sprintf("label %d%s: %s", label, bdesc, prob), map[string]interface{}{"label": label})
		return nil
	}
	if b == nil || exact {
		k.compareMask(ep, label, got, want, bdesc, b, full)
		return nil
	}
	// exact=false: runs "can extend a bit outside voxel bounds within border blocks": superset of the
	// bounded voxels, subset of the label, confined to blocks that intersect the bounds.
	g := k.in.g
	for i := range got {
		if want[i] && !got[i] {
			k.bad(ep, "voxel-missing", fmt.Sprintf("label %d%s: voxel %s inside the bounds is missing", label, bdesc, k.voxelAt(i)), map[string]interface{}{"label": label})
			return nil
		}
		if got[i] && !full[i] {
			k.bad(ep, "foreign-voxel", fmt.Sprintf("label %d%s: returned voxel %s does not belong to the label", label, bdesc, k.voxelAt(i)), map[string]interface{}{"label": label})
			return nil
		}
		if got[i] && !want[i] {
			x, y, z := g.Coord(i)
			bc := g.BlockOf(x, y, z)
			lo := [3]int{bc[0] * g.BS, bc[1] * g.BS, bc[2] * g.BS}
			hit := true
			for a := 0; a < 3; a++ {
				if b.Min[a] != nil && lo[a]+g.BS-1 < *b.Min[a] || b.Max[a] != nil && lo[a] > *b.Max[a] {
					hit = false
				}
			}
			if !hit {
				k.bad(ep, "outside-border-blocks", fmt.Sprintf("label %d%s: returned voxel %s lies in block %v which does not intersect the bounds", label, bdesc, k.voxelAt(i), bc), map[string]interface{}{"label": label})
				return nil
			}
		}
	}
	return nil
}

func (k *chk) randomBounds() *labelmodel.Bounds {
	g := k.in.g
	o := g.VoxOrg()
	d := g.Dim()
	b := &labelmodel.Bounds{}
	for a := 0; a < 3; a++ {
		if k.in.r.Intn(3) > 0 {
			lo := o[a] + k.in.r.Intn(d[a])
			b.Min[a] = &lo
		}
		if k.in.r.Intn(3) > 0 {
			base := o[a]
			if b.Min[a] != nil {
				base = *b.Min[a]
			}
			hi := base + k.in.r.Intn(o[a]+d[a]-base)
			b.Max[a] = &hi
		}
	}
	if !b.IsSet() {
		lo := o[0] + d[0]/2
		b.Min[0] = &lo
	}
	return b
}

func (k *chk) coarse(label uint64, isSV bool) error {
	ep := "sparsevol-coarse"
	path := fmt.Sprintf("sparsevol-coarse/%d", label)
	if isSV {
		ep += "-supervoxels"
		path += "?supervoxels=true"
	}
	r, err := k.get(path)
	if err != nil {
		return err
	}
	want := map[[3]int]bool{}
	if isSV {
		for b := range k.sc.SVBlocks[label] {
			want[b] = true
		}
	} else {
		for b := range k.sc.Index[label] {
			want[b] = true
		}
	}
	k.caseFor(ep, label, len(want) >= 2)
	if len(want) == 0 {
		if r.Status != 404 {
			k.bad(ep, "status-nonexistent", fmt.Sprintf("label %d has no voxels: documented 404, got %s", label, r), map[string]interface{}{"label": label})
		}
		return nil
	}
	if !r.OK() {
		k.bad(ep, "status", fmt.Sprintf("label %d: %s", label, r), map[string]interface{}{"label": label})
		return nil
	}
	runs, err := lmwire.DecodeRLEs(r.Body)
	if err != nil {
		k.bad(ep, "format", fmt.Sprintf("label %d: %v", label, err), nil)
		return nil
	}
	got := map[[3]int]bool{}
	for _, rn := range runs {
		for j := 0; j < int(rn.N); j++ {
			bc := [3]int{int(rn.X) + j, int(rn.Y), int(rn.Z)}
			if got[bc] {
				k.bad(ep, "duplicate-block", fmt.Sprintf("label %d: block %v listed twice", label, bc), nil)
			}
			got[bc] = true
		}
	}
	if !sameBlockSet(got, want) {
		k.bad(ep, "block-set-mismatch", fmt.Sprintf("label %d: server blocks %v, model blocks %v", label, blockList(got), blockList(want)), map[string]interface{}{"label": label})
	}
	return nil
}

func sameBlockSet(a, b map[[3]int]bool) bool {
	if len(a) != len(b) {
		return false
	}
	for k := range a {
		if !b[k] {
			return false
		}
	}
	return true
}

func blockList(m map[[3]int]bool) [][3]int {
	var out [][3]int
	for k := range m {
		out = append(out, k)
	}
	sort.Slice(out, func(i, j int) bool {
		a, b := out[i], out[j]
		if a[2] != b[2] {
			return a[2] < b[2]
		}
		if a[1] != b[1] {
			return a[1] < b[1]
		}
		return a[0] < b[0]
	})
	return out
}

// ---------------------------------------------------------------- per-label JSON views

func (k *chk) perBody(b uint64) error {
	nt := k.bodyNontrivial(b)
	size := k.sc.BodySize[b]
	exists := size > 0
	lbl := map[string]interface{}{"label": b}

	// size
	r, err := k.get(fmt.Sprintf("size/%d", b))
	if err != nil {
		return err
	}
	k.caseFor("size", b, nt)
	if !exists {
		if r.Status != 404 {
			k.bad("size", "status-nonexistent", fmt.Sprintf("label %d has no voxels: documented 404, got %s", b, r), lbl)
		}
	} else {
		var out struct{ Voxels *uint64 }
		if !r.OK() || json.Unmarshal(r.Body, &out) != nil || out.Voxels == nil {
			k.bad("size", "status", fmt.Sprintf("body %d (%d voxels): %s", b, size, r), lbl)
		} else if int(*out.Voxels) != size {
			k.bad("size", "mismatch", fmt.Sprintf("body %d: server %d voxels, scan %d", b, *out.Voxels, size), lbl)
		}
	}

	// supervoxels
	r, err = k.get(fmt.Sprintf("supervoxels/%d", b))
	if err != nil {
		return err
	}
	k.caseFor("supervoxels", b, nt)
	if !exists {
		if r.Status != 404 {
			k.bad("supervoxels", "status-nonexistent", fmt.Sprintf("label %d has no voxels: documented 404, got %s", b, r), lbl)
		}
	} else if svs, err := lmwire.ParseU64s(r.Body); !r.OK() || err != nil {
		k.bad("supervoxels", "status", fmt.Sprintf("body %d: %s", b, r), lbl)
	} else {
		got := map[uint64]int{}
		for _, s := range svs {
			got[s]++
		}
		want := k.sc.BodySVs[b]
		okk := len(got) == len(want) && len(svs) == len(want)
		for s := range want {
			if got[s] != 1 {
				okk = false
			}
		}
		if !okk {
			k.bad("supervoxels", "mismatch", fmt.Sprintf("body %d: server %v, scan %v", b, svs, sortedKeysInt(want)), lbl)
		}
	}

	// supervoxel-sizes
	r, err = k.get(fmt.Sprintf("supervoxel-sizes/%d", b))
	if err != nil {
		return err
	}
	k.caseFor("supervoxel-sizes", b, nt)
	if !exists {
		if r.Status != 404 {
			k.bad("supervoxel-sizes", "status-nonexistent", fmt.Sprintf("label %d has no voxels: documented 404, got %s", b, r), lbl)
		}
	} else {
		var out struct {
			Supervoxels []uint64 `json:"supervoxels"`
			Sizes       []uint64 `json:"sizes"`
		}
		if !r.OK() || json.Unmarshal(r.Body, &out) != nil || len(out.Supervoxels) != len(out.Sizes) {
			k.bad("supervoxel-sizes", "status", fmt.Sprintf("body %d: %s", b, r), lbl)
		} else {
			want := k.sc.BodySVs[b]
			okk := len(out.Supervoxels) == len(want)
			for i, s := range out.Supervoxels {
				if want[s] == 0 || uint64(want[s]) != out.Sizes[i] {
					okk = false
				}
			}
			if !okk {
				k.bad("supervoxel-sizes", "mismatch", fmt.Sprintf("body %d: server %s, scan %v", b, drv.Trunc(string(r.Body), 300), want), lbl)
			}
		}
	}

	// sparsevol-size
	r, err = k.get(fmt.Sprintf("sparsevol-size/%d", b))
	if err != nil {
		return err
	}
	k.caseFor("sparsevol-size", b, nt)
	if !exists {
		if r.Status != 404 {
			k.bad("sparsevol-size", "status-nonexistent", fmt.Sprintf("label %d has no voxels: documented 404, got %s", b, r), lbl)
		}
	} else {
		var out struct {
			Voxels    uint64 `json:"voxels"`
			NumBlocks int    `json:"numblocks"`
			MinVoxel  [3]int `json:"minvoxel"`
			MaxVoxel  [3]int `json:"maxvoxel"`
		}
		if !r.OK() || json.Unmarshal(r.Body, &out) != nil {
			k.bad("sparsevol-size", "status", fmt.Sprintf("body %d: %s", b, r), lbl)
		} else {
			bsz := k.in.g.BS
			var mn, mx [3]int
			first := true
			for bc := range k.sc.Index[b] {
				for a := 0; a < 3; a++ {
					lo, hi := bc[a]*bsz, bc[a]*bsz+bsz-1
					if first || lo < mn[a] {
						mn[a] = lo
					}
					if first || hi > mx[a] {
						mx[a] = hi
					}
				}
				first = false
			}
			if int(out.Voxels) != size || out.NumBlocks != len(k.sc.Index[b]) || out.MinVoxel != mn || out.MaxVoxel != mx {
				k.bad("sparsevol-size", "mismatch", fmt.Sprintf("body %d: server %s, scan voxels=%d numblocks=%d minvoxel=%v maxvoxel=%v", b, r.Body, size, len(k.sc.Index[b]), mn, mx), lbl)
			}
		}
	}

	// index
	r, err = k.get(fmt.Sprintf("index/%d", b))
	if err != nil {
		return err
	}
	k.caseFor("index", b, nt)
	if !exists {
		if r.OK() {
			if li, err := lmwire.DecodeLabelIndex(r.Body); err == nil && indexVoxels(li) > 0 {
				k.bad("index", "nonexistent-has-index", fmt.Sprintf("label %d has no voxels in the scan but an index with %d voxels", b, indexVoxels(li)), lbl)
			}
		}
	} else if !r.OK() {
		k.bad("index", "status", fmt.Sprintf("body %d: %s", b, r), lbl)
	} else if li, err := lmwire.DecodeLabelIndex(r.Body); err != nil {
		k.bad("index", "format", fmt.Sprintf("body %d: %v", b, err), lbl)
	} else if d := k.indexDiff(b, li); d != "" {
		k.bad("index", "mismatch", fmt.Sprintf("body %d: %s", b, d), lbl)
	}

	if err := k.sparsevol(b, false, nil, true, ""); err != nil {
		return err
	}
	return k.coarse(b, false)
}

func indexVoxels(li *lmwire.LabelIndex) int {
	n := 0
	for _, m := range li.Blocks {
		for _, c := range m {
			n += int(c)
		}
	}
	return n
}

func (k *chk) indexDiff(b uint64, li *lmwire.LabelIndex) string {
	if li.Label != b {
		return fmt.Sprintf("index carries label %d", li.Label)
	}
	want := k.sc.Index[b]
	for bc, m := range li.Blocks {
		w := want[[3]int{int(bc[0]), int(bc[1]), int(bc[2])}]
		for sv, c := range m {
			if c == 0 {
				continue
			}
			if w[sv] != int(c) {
				return fmt.Sprintf("block %v supervoxel %d: index %d voxels, scan %d", bc, sv, c, w[sv])
			}
		}
	}
	for bc, w := range want {
		m := li.Blocks[[3]int32{int32(bc[0]), int32(bc[1]), int32(bc[2])}]
		for sv, c := range w {
			if int(m[sv]) != c {
				return fmt.Sprintf("block %v supervoxel %d: scan %d voxels, index %d", bc, sv, c, m[sv])
			}
		}
	}
	return ""
}

// ---------------------------------------------------------------- batch views

func (k *chk) batch(dead []uint64) error {
	in := k.in
	sc := k.sc
	bodies := sc.Bodies()
	svs := sc.SVs()
	anyNT := len(bodies) >= 2

	// sizes (bodies + dead labels)
	q := append(append([]uint64{}, bodies...), dead...)
	r, err := k.getBody("sizes", lmwire.JSONU64s(q))
	if err != nil {
		return err
	}
	k.caseFor("sizes", 0, anyNT)
	if got, err := lmwire.ParseU64s(r.Body); !r.OK() || err != nil || len(got) != len(q) {
		k.bad("sizes", "status", fmt.Sprintf("GET sizes of %d labels: %s", len(q), r), nil)
	} else {
		for i, l := range q {
			if int(got[i]) != sc.BodySize[l] {
				k.bad("sizes", "mismatch", fmt.Sprintf("label %d: server %d voxels, scan %d", l, got[i], sc.BodySize[l]), map[string]interface{}{"label": l})
				break
			}
		}
	}
	// sizes?supervoxels=true (retired supervoxels are excluded: the index lookup for them is documented to fail)
	q = append([]uint64{}, svs...)
	for _, l := range dead {
		if !k.st.SplitSV[l] {
			q = append(q, l)
		}
	}
	r, err = k.getBody("sizes?supervoxels=true", lmwire.JSONU64s(q))
	if err != nil {
		return err
	}
	k.caseFor("sizes-supervoxels", 0, len(svs) >= 2)
	if got, err := lmwire.ParseU64s(r.Body); !r.OK() || err != nil || len(got) != len(q) {
		k.bad("sizes-supervoxels", "status", fmt.Sprintf("GET sizes?supervoxels=true of %d labels: %s", len(q), r), nil)
	} else {
		for i, l := range q {
			if int(got[i]) != sc.SVSize[l] {
				k.bad("sizes-supervoxels", "mismatch", fmt.Sprintf("supervoxel %d: server %d voxels, scan %d", l, got[i], sc.SVSize[l]), map[string]interface{}{"label": l})
				break
			}
		}
	}

	// mapping: live supervoxels -> body; retired / body-only / never-existing -> 0
	q = append([]uint64{}, svs...)
	for _, l := range dead {
		if k.st.SplitSV[l] || k.st.BodyOnly[l] && sc.SVSize[l] == 0 || !k.st.Seen[l] {
			q = append(q, l)
		}
	}
	r, err = k.getBody("mapping", lmwire.JSONU64s(q))
	if err != nil {
		return err
	}
	k.caseFor("mapping", 0, len(k.st.Map) > 0)
	if got, err := lmwire.ParseU64s(r.Body); !r.OK() || err != nil || len(got) != len(q) {
		k.bad("mapping", "status", fmt.Sprintf("GET mapping of %d labels: %s", len(q), r), nil)
	} else {
		for i, l := range q {
			var want uint64
			if sc.SVSize[l] > 0 {
				want = sc.SVBody[l]
			}
			if got[i] != want {
				class := "mismatch"
				if sc.SVSize[l] == 0 {
					class = "dead-label-mapped"
				}
				k.bad("mapping", class, fmt.Sprintf("label %d: server maps it to %d, model to %d (split=%v bodyOnly=%v seenHere=%v)", l, got[i], want, k.st.SplitSV[l], k.st.BodyOnly[l], k.st.Seen[l]), map[string]interface{}{"label": l})
				break
			}
		}
	}

	// mappings
	r, err = k.get("mappings")
	if err != nil {
		return err
	}
	k.caseFor("mappings", 0, len(k.st.Map) > 0)
	if !r.OK() {
		k.bad("mappings", "status", r.String(), nil)
	} else {
		got := map[uint64]uint64{}
		okk := true
		for _, line := range strings.Split(strings.TrimSpace(string(r.Body)), "\n") {
			if line == "" {
				continue
			}
			f := strings.Fields(line)
			if len(f) != 2 {
				okk = false
				break
			}
			a, e1 := strconv.ParseUint(f[0], 10, 64)
			b, e2 := strconv.ParseUint(f[1], 10, 64)
			if e1 != nil || e2 != nil {
				okk = false
				break
			}
			if _, dup := got[a]; dup {
				k.bad("mappings", "duplicate", fmt.Sprintf("supervoxel %d listed twice", a), nil)
			}
			got[a] = b
		}
		if !okk {
			k.bad("mappings", "format", drv.Trunc(string(r.Body), 200), nil)
		} else {
			for _, s := range svs {
				want := sc.SVBody[s]
				g, listed := got[s]
				if listed && g != want || !listed && want != s {
					k.bad("mappings", "mismatch", fmt.Sprintf("supervoxel %d: listed=%v as %d, model body %d", s, listed, g, want), map[string]interface{}{"label": s})
					break
				}
			}
			for l := range k.st.SplitSV {
				if g, listed := got[l]; listed && g != 0 && sc.SVSize[l] == 0 {
					k.bad("mappings", "retired-supervoxel-mapped", fmt.Sprintf("retired supervoxel %d is listed as mapped to %d", l, g), map[string]interface{}{"label": l})
					break
				}
			}
		}
	}

	// labels at points (GET with JSON body) and single label lookups
	g := in.g
	o, d := g.VoxOrg(), g.Dim()
	var pts [][3]int
	for i := 0; i < 40; i++ {
		pts = append(pts, [3]int{o[0] + in.r.Intn(d[0]), o[1] + in.r.Intn(d[1]), o[2] + in.r.Intn(d[2])})
	}
	// block corners and one point outside the written grid
	pts = append(pts, [3]int{o[0], o[1], o[2]}, [3]int{o[0] + d[0] - 1, o[1] + d[1] - 1, o[2] + d[2] - 1}, [3]int{o[0] + g.BS - 1, o[1] + g.BS, o[2] + g.BS - 1},
		[3]int{o[0] + d[0] + 5, o[1], o[2]})
	for _, sv := range []bool{false, true} {
		path, ep := "labels", "labels"
		if sv {
			path, ep = "labels?supervoxels=true", "labels-supervoxels"
		}
		r, err = k.getBody(path, jsonOf(pts))
		if err != nil {
			return err
		}
		k.caseFor(ep, 0, anyNT)
		if got, err := lmwire.ParseU64s(r.Body); !r.OK() || err != nil || len(got) != len(pts) {
			k.bad(ep, "status", fmt.Sprintf("GET labels of %d points: %s", len(pts), r), nil)
		} else {
			for i, p := range pts {
				if w := k.st.LabelAt(p[0], p[1], p[2], sv); got[i] != w {
					k.bad(ep, "mismatch", fmt.Sprintf("point %v: server %d, model %d", p, got[i], w), map[string]interface{}{"point": p})
					break
				}
			}
		}
	}
	for i := 0; i < 3; i++ {
		p := pts[in.r.Intn(len(pts))]
		sv := in.r.Intn(2) == 0
		path := "label/" + coordStr(p)
		if sv {
			path += "?supervoxels=true"
		}
		r, err = k.get(path)
		if err != nil {
			return err
		}
		k.caseFor("label", 0, anyNT)
		var out struct{ Label *uint64 }
		if !r.OK() || json.Unmarshal(r.Body, &out) != nil || out.Label == nil {
			k.bad("label", "status", fmt.Sprintf("point %v: %s", p, r), nil)
		} else if w := k.st.LabelAt(p[0], p[1], p[2], sv); *out.Label != w {
			k.bad("label", "mismatch", fmt.Sprintf("point %v supervoxels=%v: server %d, model %d", p, sv, *out.Label, w), map[string]interface{}{"point": p})
		}
	}

	// listlabels with sizes
	r, err = k.get("listlabels?sizes=true")
	if err != nil {
		return err
	}
	k.caseFor("listlabels", 0, anyNT)
	var listed []uint64
	var listedSum uint64
	if vals, err := lmwire.DecodeU64Stream(r.Body); !r.OK() || err != nil || len(vals)%2 != 0 {
		k.bad("listlabels", "status", r.String(), nil)
	} else {
		var ws []string
		for _, b := range bodies {
			ws = append(ws, fmt.Sprintf("%d:%d", b, sc.BodySize[b]))
		}
		var gs []string
		for i := 0; i < len(vals); i += 2 {
			gs = append(gs, fmt.Sprintf("%d:%d", vals[i], vals[i+1]))
			listed = append(listed, vals[i])
			listedSum += vals[i+1]
		}
		if strings.Join(ws, " ") != strings.Join(gs, " ") {
			k.bad("listlabels", "mismatch", fmt.Sprintf("server label:size list [%s], scan [%s]", drv.Trunc(strings.Join(gs, " "), 400), drv.Trunc(strings.Join(ws, " "), 400)), nil)
		}
		// conservation, from server data only: sum of listed body sizes == non-zero voxels of the server's own volume
		if err := k.conservation(listed, listedSum); err != nil {
			return err
		}
	}
	if k.full {
		r, err = k.get("listlabels?start=" + fmt.Sprint(firstOr(bodies, 1)) + "&number=2")
		if err != nil {
			return err
		}
		k.caseFor("listlabels-paged", 0, anyNT)
		if vals, err := lmwire.DecodeU64Stream(r.Body); !r.OK() || err != nil {
			k.bad("listlabels-paged", "status", r.String(), nil)
		} else {
			want := bodies
			if len(want) > 2 {
				want = want[:2]
			}
			if fmt.Sprint(vals) != fmt.Sprint(want) && !(len(vals) == 0 && len(want) == 0) {
				k.bad("listlabels-paged", "mismatch", fmt.Sprintf("start=%d number=2: server %v, scan %v", firstOr(bodies, 1), vals, want), nil)
			}
		}
	}

	// existing-labels
	r, err = k.get("existing-labels")
	if err != nil {
		return err
	}
	k.caseFor("existing-labels", 0, anyNT)
	if got, err := lmwire.ParseU64s(r.Body); !r.OK() || err != nil {
		k.bad("existing-labels", "status", r.String(), nil)
	} else {
		gs := map[uint64]bool{}
		for _, l := range got {
			gs[l] = true
		}
		for _, b := range bodies {
			if !gs[b] {
				k.bad("existing-labels", "body-missing", fmt.Sprintf("body %d has %d voxels but is not listed: %v", b, sc.BodySize[b], got), map[string]interface{}{"label": b})
				break
			}
		}
		for _, l := range got {
			if sc.BodySize[l] == 0 {
				k.bad("existing-labels", "nonexistent-listed", fmt.Sprintf("label %d is listed as existing but has no voxels at this version (bodies %v)", l, bodies), map[string]interface{}{"label": l})
				break
			}
		}
	}

	// maxlabel
	r, err = k.get("maxlabel")
	if err != nil {
		return err
	}
	k.caseFor("maxlabel", 0, in.local[k.v] > 0)
	if r.OK() {
		var out struct {
			MaxLabel *uint64 `json:"maxlabel"`
		}
		if json.Unmarshal(r.Body, &out) != nil || out.MaxLabel == nil {
			k.bad("maxlabel", "format", r.String(), nil)
		} else if *out.MaxLabel < in.local[k.v] {
			k.bad("maxlabel", "too-small", fmt.Sprintf("maxlabel %d is smaller than label %d introduced at this version", *out.MaxLabel, in.local[k.v]), nil)
		}
	} else if in.local[k.v] > 0 {
		k.bad("maxlabel", "status", fmt.Sprintf("labels up to %d were introduced at this version, yet: %s", in.local[k.v], r), nil)
	}

	// indices (bulk)
	if len(bodies) > 0 {
		q = append(append([]uint64{}, bodies...), dead...)
		if len(q) > 40 {
			q = q[:40]
		}
		r, err = k.getBody("indices", lmwire.JSONU64s(q))
		if err != nil {
			return err
		}
		k.caseFor("indices", 0, anyNT)
		if lis, err := lmwire.DecodeLabelIndices(r.Body); !r.OK() || err != nil || len(lis) != len(q) {
			k.bad("indices", "status", fmt.Sprintf("GET indices of %d labels: %s (%v)", len(q), drv.Trunc(r.String(), 100), err), nil)
		} else {
			for i, l := range q {
				if sc.BodySize[l] == 0 {
					if n := indexVoxels(lis[i]); n > 0 {
						k.bad("indices", "nonexistent-has-index", fmt.Sprintf("label %d has no voxels but an index of %d voxels", l, n), map[string]interface{}{"label": l})
						break
					}
					continue
				}
				if d := k.indexDiff(l, lis[i]); d != "" {
					k.bad("indices", "mismatch", fmt.Sprintf("body %d: %s", l, d), map[string]interface{}{"label": l})
					break
				}
			}
		}
	}
	return nil
}

func firstOr(v []uint64, d uint64) uint64 {
	if len(v) > 0 {
		return v[0]
	}
	return d
}

// conservation uses server responses only: the listed bodies' sizes add up to the non-zero voxels of the
// server's mapped volume, the listed bodies are exactly the distinct labels of that volume, and their
// supervoxel lists partition the distinct supervoxels of the server's unmapped volume.
func (k *chk) conservation(listed []uint64, listedSum uint64) error {
	g := k.in.g
	d, off := g.Dim(), g.VoxOrg()
	r1, err := k.get("raw/0_1_2/" + coordStr(d) + "/" + coordStr(off))
	if err != nil {
		return err
	}
	r2, err := k.get("raw/0_1_2/" + coordStr(d) + "/" + coordStr(off) + "?supervoxels=true")
	if err != nil {
		return err
	}
	k.caseFor("conservation", 0, len(listed) >= 2)
	mv, e1 := lmwire.DecodeVolume(r1.Body, g.NVox())
	sv, e2 := lmwire.DecodeVolume(r2.Body, g.NVox())
	if !r1.OK() || !r2.OK() || e1 != nil || e2 != nil {
		return nil // reported by volumes()
	}
	nz := uint64(0)
	bodies := map[uint64]uint64{}
	svset := map[uint64]uint64{} // supervoxel -> body seen in the mapped volume
	for i, l := range mv {
		if l != 0 {
			nz++
			bodies[l]++
		}
		if (l == 0) != (sv[i] == 0) {
			k.bad("conservation", "voxel-lost", fmt.Sprintf("voxel %s: supervoxel %d but mapped label %d", k.voxelAt(i), sv[i], l), nil)
			return nil
		}
		if sv[i] != 0 {
			if b, ok := svset[sv[i]]; ok && b != l {
				k.bad("conservation", "supervoxel-in-two-bodies", fmt.Sprintf("supervoxel %d reads as body %d and as body %d", sv[i], b, l), nil)
				return nil
			}
			svset[sv[i]] = l
		}
	}
	if listedSum != nz {
		k.bad("conservation", "size-sum", fmt.Sprintf("listlabels sizes add up to %d but the server's volume has %d non-zero voxels", listedSum, nz), nil)
	}
	ls := map[uint64]bool{}
	for _, b := range listed {
		ls[b] = true
		if bodies[b] == 0 {
			k.bad("conservation", "listed-body-without-voxels", fmt.Sprintf("listed body %d has no voxel in the server's volume", b), map[string]interface{}{"label": b})
			return nil
		}
	}
	for b := range bodies {
		if !ls[b] {
			k.bad("conservation", "voxels-of-unlisted-body", fmt.Sprintf("the server's volume holds %d voxels of body %d which listlabels does not list", bodies[b], b), map[string]interface{}{"label": b})
			return nil
		}
	}
	// partition of supervoxels
	owner := map[uint64]uint64{}
	for _, b := range listed {
		r, err := k.get(fmt.Sprintf("supervoxels/%d", b))
		if err != nil {
			return err
		}
		svs, perr := lmwire.ParseU64s(r.Body)
		if !r.OK() || perr != nil {
			continue
		}
		for _, s := range svs {
			if o, dup := owner[s]; dup {
				k.bad("conservation", "supervoxel-in-two-bodies", fmt.Sprintf("supervoxel %d is listed by body %d and body %d", s, o, b), nil)
				return nil
			}
			owner[s] = b
		}
	}
	for s, b := range svset {
		if owner[s] != b {
			k.bad("conservation", "partition", fmt.Sprintf("supervoxel %d has voxels reading as body %d but supervoxels/<body> assigns it to %d", s, b, owner[s]), nil)
			return nil
		}
	}
	for s, b := range owner {
		if _, ok := svset[s]; !ok {
			k.bad("conservation", "partition", fmt.Sprintf("body %d lists supervoxel %d which has no voxel in the server's volume", b, s), nil)
			return nil
		}
	}
	return nil
}

// ---------------------------------------------------------------- the surface

// surface runs the read surface at version v.  focus labels are always checked label by label.
func (in *inst) surface(v, phase string, full bool, focus []uint64) error {
	st := in.states[v]
	k := &chk{in: in, v: v, st: st, sc: st.Scan(), phase: phase, full: full}
	in.c.Count("surfaces_"+phase, 1)
	if err := k.volumes(); err != nil {
		return err
	}
	// dead labels: everything ever seen anywhere that has no voxels at this version, plus one never used
	var dead []uint64
	cand := map[uint64]bool{}
	for l := range in.ever {
		cand[l] = true
	}
	for l := range in.resv { // ids that were only ever reserved or named in rejected requests
		cand[l] = true
	}
	for _, l := range sortedU64(cand) {
		if k.sc.BodySize[l] == 0 && k.sc.SVSize[l] == 0 {
			dead = append(dead, l)
		}
	}
	in.r.Shuffle(len(dead), func(i, j int) { dead[i], dead[j] = dead[j], dead[i] })
	if len(dead) > 12 {
		dead = dead[:12]
	}
	dead = append(dead, 3000000019) // never used by anyone
	sort.Slice(dead, func(i, j int) bool { return dead[i] < dead[j] })
	if err := k.batch(dead); err != nil {
		return err
	}
	// label by label
	bodies := k.sc.Bodies()
	sel := map[uint64]bool{}
	for _, f := range focus {
		sel[f] = true
	}
	limit := 6
	if full {
		limit = 14
	}
	perm := in.r.Perm(len(bodies))
	for _, i := range perm {
		if len(sel) >= limit+len(focus) {
			break
		}
		sel[bodies[i]] = true
	}
	for i, l := range dead {
		if i < 3 {
			sel[l] = true
		}
	}
	for _, b := range sortedU64(sel) {
		if err := k.perBody(b); err != nil {
			return err
		}
	}
	// bounded / supervoxel / by-point variants on a few labels
	var live []uint64
	for _, b := range sortedU64(sel) {
		if k.sc.BodySize[b] > 0 {
			live = append(live, b)
		}
	}
	nvar := 2
	if full {
		nvar = 4
	}
	for i := 0; i < nvar && len(live) > 0; i++ {
		b := live[in.r.Intn(len(live))]
		if err := k.sparsevol(b, false, k.randomBounds(), true, ""); err != nil {
			return err
		}
		if err := k.sparsevol(b, false, k.randomBounds(), false, ""); err != nil {
			return err
		}
		svs := sortedKeysInt(k.sc.BodySVs[b])
		s := svs[in.r.Intn(len(svs))]
		if err := k.sparsevol(s, true, nil, true, ""); err != nil {
			return err
		}
		if err := k.coarse(s, true); err != nil {
			return err
		}
		// size?supervoxels=true
		r, err := k.get(fmt.Sprintf("size/%d?supervoxels=true", s))
		if err != nil {
			return err
		}
		k.caseFor("size-supervoxels", s, len(k.sc.SVBlocks[s]) >= 2)
		var out struct{ Voxels *uint64 }
		if !r.OK() || json.Unmarshal(r.Body, &out) != nil || out.Voxels == nil || int(*out.Voxels) != k.sc.SVSize[s] {
			k.bad("size-supervoxels", "mismatch", fmt.Sprintf("supervoxel %d: server %s, scan %d", s, r, k.sc.SVSize[s]), map[string]interface{}{"label": s})
		}
		// sparsevol-by-point through a voxel of the body
		mask, _ := st.Mask(b, false, nil)
		for j, on := range mask {
			if on {
				x, y, z := in.g.Coord(j)
				if err := k.sparsevol(b, false, nil, true, coordStr([3]int{x, y, z})); err != nil {
					return err
				}
				break
			}
		}
		// HEAD sparsevol
		hr, err := in.w.HTTP("HEAD", in.url(v, fmt.Sprintf("sparsevol/%d", b)), nil)
		if err != nil {
			return err
		}
		k.caseFor("sparsevol-head", b, k.bodyNontrivial(b))
		if hr.Status != 200 {
			k.bad("sparsevol-head", "status", fmt.Sprintf("body %d exists: documented 200, got %d", b, hr.Status), map[string]interface{}{"label": b})
		}
	}
	if len(dead) > 0 {
		hr, err := in.w.HTTP("HEAD", in.url(v, fmt.Sprintf("sparsevol/%d", dead[0])), nil)
		if err != nil {
			return err
		}
		k.caseFor("sparsevol-head", dead[0], false)
		if hr.Status != 204 {
			k.bad("sparsevol-head", "status-nonexistent", fmt.Sprintf("label %d has no voxels: documented 204, got %d", dead[0], hr.Status), map[string]interface{}{"label": dead[0]})
		}
	}
	return nil
}
