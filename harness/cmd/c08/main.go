// C08 — label indices, voxels and mappings stay consistent under proofreading.
//
// Oracle: internal/labelmodel (dense supervoxel volume + supervoxel->body map per DAG node, every view by
// brute-force scan).  After every settled mutation the read surface is compared at the mutated version; at
// the end of a sequence it is compared at every version of the DAG (ancestor / sibling invisibility).
// Conservation (sum of body sizes == non-zero voxels, bodies partition the supervoxels) is checked from
// server responses alone.
package main

import (
	"fmt"
	"math/rand"
	"os"
	"sort"
	"strings"
	"sync"

	"verif/harness/internal/drv"
	"verif/harness/internal/dvc"
	"verif/harness/internal/labelmodel"
	"verif/harness/internal/lmwire"
)

func main() { drv.Main("C08", "exploration", run) }

type geomChoice struct {
	org, nb [3]int
}

var geoms = []geomChoice{
	{[3]int{0, 0, 0}, [3]int{2, 2, 2}},
	{[3]int{0, 0, 0}, [3]int{2, 2, 2}},
	{[3]int{1, 0, 2}, [3]int{2, 2, 2}},
	{[3]int{0, 3, 1}, [3]int{2, 2, 2}},
	{[3]int{0, 0, 0}, [3]int{3, 2, 2}},
	{[3]int{0, 0, 0}, [3]int{2, 2, 3}},
	{[3]int{0, 0, 0}, [3]int{3, 3, 3}},
}

// grids touching negative block coordinates run in their own worker process (see run)
var negGeoms = []geomChoice{
	{[3]int{-1, -1, -1}, [3]int{2, 2, 2}},
	{[3]int{-2, 0, -1}, [3]int{2, 2, 2}},
	{[3]int{0, -1, 0}, [3]int{2, 2, 2}},
}

// workerRef lets a sequence restart the server it runs on (the in-memory label mapping is rebuilt from the mutation
// logs by a start-up, through the master leaf: every ancestor then gets its mapping through a descendant).
type workerRef struct {
	w        *drv.Worker
	bin, dir string
}

func (ref *workerRef) restart(clean bool) error {
	if clean {
		if err := ref.w.Exit("clean"); err != nil {
			return fmt.Errorf("clean exit: %v", err)
		}
	} else {
		ref.w.Kill()
	}
	w, err := drv.StartWorker(ref.bin, ref.dir, drv.StartOpts{})
	if err != nil {
		return fmt.Errorf("restart: %v", err)
	}
	ref.w = w
	return nil
}

func sequence(c *drv.Ctx, ref *workerRef, seed int64, idx int, conf string, nops int, negative bool) error {
	w := ref.w
	r := rand.New(rand.NewSource(seed))
	tag := fmt.Sprintf("s%d", idx)
	if negative {
		tag = fmt.Sprintf("neg%d", idx)
	}
	cl := &dvc.Client{W: w}
	h, err := dvc.NewHist(cl, r, "c08"+tag)
	if err != nil {
		return err
	}
	gc := geoms[r.Intn(len(geoms))]
	if negative {
		gc = negGeoms[r.Intn(len(negGeoms))]
	}
	if c.Quick() && gc.nb == [3]int{3, 3, 3} && r.Intn(2) == 0 {
		gc = geoms[0]
	}
	g := &labelmodel.Geom{BS: 32, Org: gc.org, NB: gc.nb}
	name := "seg" + tag
	if err := cl.NewInstance(h.Root, "labelmap", name, map[string]string{"BlockSize": "32,32,32"}); err != nil {
		return err
	}
	in := &inst{c: c, w: w, cl: cl, h: h, r: r, tag: tag, name: name, g: g, bs: [3]int{32, 32, 32},
		states: map[string]*labelmodel.State{}, ever: map[uint64]bool{}, resv: map[uint64]bool{}, local: map[string]uint64{},
		lastOp: map[string]string{}, dirty: map[string]int{}, conf: conf,
		entries: map[uint64]map[string]bool{}, taint: map[string]string{}}
	in.states[h.Root] = labelmodel.New(g)
	in.lastOp[h.Root] = "none"
	in.log("geometry origin(blocks)=%v blocks=%v", g.Org, g.NB)
	cur := h.Root

	// first mutation: a sizeable ingest so that later operations have material
	if _, err := in.opIngestBlocksOrRaw(cur, true); err != nil {
		return err
	}
	if err := in.settle(); err != nil {
		return err
	}
	if err := in.surface(cur, "step", false, nil); err != nil {
		return err
	}
	// every fourth sequence is a scripted "remap chain": the same supervoxels are re-mapped (merge, cleave, merge,
	// renumber) in three successive versions of one lineage, and the sequence ends with a restart - the in-memory mapping
	// of each version is then rebuilt from the per-version mutation logs, in whatever order the start-up replays them
	var script []string
	if !negative && idx%4 == 3 {
		script = []string{"merge", "merge", "dag", "cleave", "merge", "cleave", "dag", "merge", "cleave", "renumber", "merge",
			// a body that is named after one of its supervoxels loses exactly that supervoxel, then gets another name:
			// the supervoxel id goes on living in the cleaved-off body
			"ns-merge", "ns-cleave", "ns-renumber", "dag", "ns-merge", "ns-cleave", "dag", "ns-renumber"}
		nops = len(script)
		c.Count("remap_chain_sequences", 1)
	}
	for in.step = 1; in.step <= nops; in.step++ {
		open := h.D.Open()
		if len(open) == 0 {
			break
		}
		forced := ""
		if len(script) > 0 {
			forced, script = script[0], script[1:]
		}
		if forced == "dag" {
			v := open[len(open)-1]
			if err := h.CommitNode(v); err != nil {
				return err
			}
			child, err := h.NewVersionOf(v)
			if err != nil {
				return err
			}
			in.log("commit %s", in.short(v))
			in.adopt(child, v)
			c.Count("dag_moves", 1)
			continue
		}
		if forced != "" {
			v := open[len(open)-1]
			var done bool
			var err error
			if strings.HasPrefix(forced, "ns-") {
				// the namesake chain: B = a body that contains the supervoxel of its own name
				sc := in.states[v].Scan()
				var named []uint64
				for _, b := range sc.Bodies() {
					if sc.BodySVs[b][b] > 0 {
						named = append(named, b)
					}
				}
				sort.Slice(named, func(i, j int) bool { return named[i] < named[j] })
				in.forced = nil
				switch forced {
				case "ns-merge":
					in.namesake = 0
					for _, b := range named {
						for _, a := range sc.Bodies() {
							if a != b && in.namesake == 0 {
								in.namesake, in.forced, forced = b, []uint64{b, a}, "merge"
							}
						}
					}
				case "ns-cleave":
					if b := in.namesake; b != 0 && sc.BodySVs[b][b] > 0 && len(sc.BodySVs[b]) >= 2 {
						in.forced, forced = []uint64{b, b}, "cleave"
					}
				case "ns-renumber":
					if b := in.namesake; b != 0 && len(sc.BodySVs[b]) >= 1 {
						in.forced, forced = []uint64{b}, "renumber"
					}
				}
				if in.forced == nil {
					continue
				}
				c.Count("namesake_chain_steps", 1)
			}
			switch forced {
			case "merge":
				done, err = in.opMerge(v)
			case "cleave":
				done, err = in.opCleave(v)
			default:
				done, err = in.opRenumber(v)
			}
			if err != nil {
				return err
			}
			if done {
				if err := in.settle(); err != nil {
					return err
				}
				if err := in.surface(v, "step", false, in.focus(v)); err != nil {
					return err
				}
			}
			continue
		}
		// DAG moves
		if x := r.Intn(100); x < 22 && len(h.D.Order) < 6 {
			v := open[r.Intn(len(open))]
			if err := h.CommitNode(v); err != nil {
				if dvc.IsWorkerErr(err) {
					return err
				}
				in.viol("dag-op-refused", fmt.Sprintf("commit refused: %v", err), nil)
				continue
			}
			in.log("commit %s", in.short(v))
			var child string
			if r.Intn(3) == 0 {
				child, err = h.BranchOf(v)
			} else {
				child, err = h.NewVersionOf(v)
			}
			if err != nil {
				if dvc.IsWorkerErr(err) {
					return err
				}
				in.viol("dag-op-refused", fmt.Sprintf("child of committed node refused: %v", err), nil)
				continue
			}
			in.adopt(child, v)
			if r.Intn(3) == 0 && len(h.D.Order) < 6 {
				// an intermediate version that is committed without ever being read or written: whatever the server
				// keeps per version for it is first built when a descendant (or the final sweep) asks
				if err := h.CommitNode(child); err == nil {
					if gc, err := h.NewVersionOf(child); err == nil {
						in.log("untouched intermediate %s, child %s", in.short(child), in.short(gc))
						in.adopt(gc, child)
						c.Count("untouched_intermediate_versions", 1)
					} else if dvc.IsWorkerErr(err) {
						return err
					}
				} else if dvc.IsWorkerErr(err) {
					return err
				}
			}
			// sometimes a sibling on another branch from the same (or an older) committed node
			if r.Intn(3) == 0 && len(h.D.Order) < 6 {
				comm := h.D.Committed()
				p := comm[r.Intn(len(comm))]
				sib, err := h.BranchOf(p)
				if err != nil {
					if dvc.IsWorkerErr(err) {
						return err
					}
					in.viol("dag-op-refused", fmt.Sprintf("branch refused: %v", err), nil)
				} else {
					in.adopt(sib, p)
				}
			}
			c.Count("dag_moves", 1)
			continue
		}
		v := open[r.Intn(len(open))]
		done, err := in.mutate(v)
		if err != nil {
			return err
		}
		if !done {
			continue
		}
		if err := in.settle(); err != nil {
			return err
		}
		if err := in.surface(v, "step", false, in.focus(v)); err != nil {
			return err
		}
		if in.nviol >= 25 {
			in.log("sequence stopped after %d violations", in.nviol)
			break
		}
	}
	// final sweep: every version of the DAG, full surface; for every second sequence after a restart of the server
	// (clean or SIGKILL while idle), and then leaves first, so that ancestors are first looked at after their descendants
	in.step = nops + 1
	order := append([]string{}, h.D.Order...)
	if !negative && idx%2 == 1 {
		if err := in.settle(); err != nil {
			return err
		}
		if err := ref.restart(r.Intn(2) == 0); err != nil {
			return err
		}
		in.w, in.cl.W = ref.w, ref.w
		c.Count("restarts_before_final_sweep", 1)
		in.log("restart")
		for i, j := 0, len(order)-1; i < j; i, j = i+1, j-1 {
			order[i], order[j] = order[j], order[i]
		}
	}
	for _, v := range order {
		if err := in.surface(v, "final", true, nil); err != nil {
			return err
		}
	}
	c.Seen("dag_shapes", h.D.Shape())
	c.Seen("geometries", fmt.Sprintf("%v+%v", g.Org, g.NB))
	c.Count("sequences", 1)
	c.Count("versions_swept", len(h.D.Order))
	if idx < 2 {
		c.Sample(map[string]interface{}{"sequence": tag, "config": conf, "trace": in.trace})
	}
	return nil
}

func (in *inst) adopt(child, parent string) {
	in.states[child] = in.states[parent].Clone()
	in.lastOp[child] = "newversion"
	if t := in.taint[parent]; t != "" {
		in.taint[child] = t
	}
	in.dirty[child] = 0
	in.log("version %s <- child of %s", in.short(child), in.short(parent))
}

// focus returns bodies worth checking label by label after the last mutation (largest few).
func (in *inst) focus(v string) []uint64 {
	sc := in.states[v].Scan()
	bodies := sc.Bodies()
	sort.Slice(bodies, func(i, j int) bool {
		a, b := bodies[i], bodies[j]
		if len(sc.BodySVs[a]) != len(sc.BodySVs[b]) {
			return len(sc.BodySVs[a]) > len(sc.BodySVs[b])
		}
		return a < b
	})
	if len(bodies) > 3 {
		bodies = bodies[:3]
	}
	return bodies
}

func (in *inst) opIngestBlocksOrRaw(v string, big bool) (bool, error) {
	if big {
		// fill most of the grid through both ingest paths
		st := in.states[v]
		n := len(in.g.Blocks())
		for len(in.unwritten(st)) > n/4 {
			var done bool
			var err error
			if in.r.Intn(2) == 0 {
				done, err = in.opWriteRaw(v, false)
			} else {
				done, err = in.opIngestBlocks(v)
			}
			if err != nil || !done {
				return done, err
			}
			if err := in.settle(); err != nil {
				return false, err
			}
		}
		return true, nil
	}
	if in.r.Intn(2) == 0 {
		return in.opWriteRaw(v, false)
	}
	return in.opIngestBlocks(v)
}

func (in *inst) mutate(v string) (bool, error) {
	x := in.r.Intn(100)
	switch {
	case x < 5:
		return in.opIngestBlocksOrRaw(v, false)
	case x < 9:
		return in.opIngestOffline(v)
	case x < 22:
		return in.opWriteRaw(v, true)
	case x < 40:
		return in.opMerge(v)
	case x < 55:
		return in.opCleave(v)
	case x < 72:
		return in.opSplitSupervoxel(v)
	case x < 82:
		return in.opRenumber(v)
	case x < 92:
		return in.opSplitBody(v)
	default:
		return in.opIllegal(v)
	}
}

// ackProbe documents why settle() needs more than the instance's own flags: right after POST raw is acknowledged
// the instance reports idle while labelmap goroutines still apply the write.  Observation only (the property has no
// idle clause); the counts go to the evidence.
func ackProbe(c *drv.Ctx, w *drv.Worker, seed int64) error {
	r := rand.New(rand.NewSource(seed))
	cl := &dvc.Client{W: w}
	h, err := dvc.NewHist(cl, r, "c08ack")
	if err != nil {
		return err
	}
	g := &labelmodel.Geom{BS: 32, Org: [3]int{0, 0, 0}, NB: [3]int{2, 2, 4}}
	in := &inst{c: c, w: w, cl: cl, h: h, r: r, tag: "ack", name: "segack", g: g, bs: [3]int{32, 32, 32},
		states: map[string]*labelmodel.State{}, ever: map[uint64]bool{}, resv: map[uint64]bool{}, local: map[string]uint64{},
		lastOp: map[string]string{}, dirty: map[string]int{}, entries: map[uint64]map[string]bool{}, taint: map[string]string{}}
	if err := cl.NewInstance(h.Root, "labelmap", in.name, map[string]string{"BlockSize": "32,32,32"}); err != nil {
		return err
	}
	st := labelmodel.New(g)
	for z := 0; z < 4; z++ {
		size := [3]int{64, 64, 32}
		off := [3]int{0, 0, z * 32}
		data := in.genBox(st, size, "fine", 0)
		var out struct {
			Status    int    `json:"status"`
			IdleFlags bool   `json:"idle_flags"`
			Running   string `json:"running"`
		}
		if err := w.API("c08.ackprobe", map[string]interface{}{"uuid": h.Root, "name": in.name, "method": "POST",
			"url": in.url(h.Root, "raw/0_1_2/"+coordStr(size)+"/"+coordStr(off)), "body": lmwire.EncodeVolume(data)}, &out); err != nil {
			return err
		}
		c.Count("ackprobe_post_raw", 1)
		if out.Status == 200 && out.IdleFlags && out.Running != "" {
			c.Count("ackprobe_acknowledged_and_reporting_idle_while_labelmap_goroutines_run", 1)
			c.Seen("ackprobe_functions_running_after_ack", out.Running)
		}
		if err := in.settle(); err != nil {
			return err
		}
	}
	return nil
}

func run(c *drv.Ctx) error {
	c.Rule("a sequence = one labelmap instance (32^3 blocks; grids of 2x2x2..3x3x3 blocks, some at negative block coordinates) driven by a random legal " +
		"interleaving of POST raw / POST blocks ingest, offline ingest (POST blocks?noindexing=true + POST indices + POST mappings), POST raw?mutate=true, merge, cleave, split-supervoxel (single voxel, all but one, all, half-spaces, alternating rows, random, partly outside), " +
		"renumber, split (when enabled) and documented-illegal requests with commit/newversion/branch; after every settled mutation the read surface is compared with the brute-force model at the mutated version, " +
		"at the end at every version. A case = one endpoint compared for one label (or the whole volume) at one version and step; key = (sequence, step, phase, version, endpoint, label). " +
		"Non-trivial: the compared body spans >=2 blocks or >=2 supervoxels, the supervoxel spans >=2 blocks, or (volume reads) the last mutation at that version changed >=1 voxel's body or supervoxel; " +
		"batch endpoints: >=2 bodies exist / a non-identity mapping exists")
	c.Assume("wrapper engines add no semantics: crashkv delegates every call to storage/badger")
	c.Assume("POST raw without mutate=true and POST blocks are ingest operations: they are only sent for blocks not yet visible at that version (overwrites use mutate=true)")
	c.Assume("written supervoxel ids never reuse ids retired by a split or ids created for cleave/renumber/split bodies (help text: those never overlap supervoxel ids)")
	c.Assume("idle = the instance's own Updating/ScaleUpdating flags (w.Settle) AND no goroutine inside the labelmap/downres packages (c08.quiesce): POST raw's index aggregation raises no flag")
	c.Extra("endpoints_skipped", []string{"sparsevol format=srles/blocks (only rles decoded)", "sparsevols-coarse", "indices-compressed (lz4)", "lastmod (metadata only)",
		"raw/blocks lz4/gzip/google compressions", "proximity (stub)", "history/mutations (log format)", "POST index (single; POST indices and POST mappings are used)", "ingest-supervoxels",
		"mapping of voxel-less supervoxels that still carry a mapping (behaviour undocumented)", "maxlabel exactness (only >= labels introduced at the version)"})
	bin, err := c.Build("dvidw", "")
	if err != nil {
		return err
	}
	nseq := c.N(10, 240)
	nops := c.N(9, 24)
	nw := 4
	if !c.Quick() {
		nw = 10
	}
	seeds := make([]int64, nseq)
	for i := range seeds {
		seeds[i] = c.Rand.Int63()
	}
	var wg sync.WaitGroup
	errs := make(chan error, nw+2)
	for wi := 0; wi < nw; wi++ {
		wg.Add(1)
		go func(wi int) {
			defer wg.Done()
			// configuration matrix: index cache off/on, mutation cache off (mutcache needs the instance name at boot)
			opts := drv.ConfOpts{}
			conf := "cache=off"
			if wi%2 == 1 {
				opts.LabelCacheMB = 16
				conf = "cache=16MB"
			}
			dir, err := c.NewDataDir(fmt.Sprintf("c08w%d", wi), opts)
			if err != nil {
				errs <- err
				return
			}
			w, err := drv.StartWorker(bin, dir, drv.StartOpts{})
			if err != nil {
				errs <- err
				return
			}
			ref := &workerRef{w: w, bin: bin, dir: dir}
			defer func() { ref.w.Kill() }()
			for i := wi; i < nseq; i += nw { // static assignment keeps (sequence, configuration) deterministic
				if o := os.Getenv("C08_ONLY"); o != "" && o != fmt.Sprint(i) { // debugging aid
					continue
				}
				if err := sequence(c, ref, seeds[i], i, conf, nops, false); err != nil {
					errs <- fmt.Errorf("worker %d sequence %d: %v; stderr: %s", wi, i, err, drv.Trunc(drv.FatalInStderr(ref.w.Stderr()), 600))
					return
				}
			}
		}(wi)
	}
	// negative block coordinates: each sequence in a worker of its own, because reads there can take the
	// whole server process down (an unrecovered panic in a goroutine of the sparsevol handler)
	nneg := c.N(2, 12)
	negSeeds := make([]int64, nneg)
	for i := range negSeeds {
		negSeeds[i] = c.Rand.Int63()
	}
	wg.Add(1)
	go func() {
		defer wg.Done()
		for i := 0; i < nneg; i++ {
			dir, err := c.NewDataDir(fmt.Sprintf("c08neg%d", i), drv.ConfOpts{})
			if err != nil {
				errs <- err
				return
			}
			w, err := drv.StartWorker(bin, dir, drv.StartOpts{})
			if err != nil {
				errs <- err
				return
			}
			if i == 0 {
				if err := ackProbe(c, w, negSeeds[0]^0x5a5a); err != nil {
					errs <- fmt.Errorf("ack probe: %v", err)
					w.Kill()
					return
				}
			}
			err = sequence(c, &workerRef{w: w, bin: bin, dir: dir}, negSeeds[i], i, "cache=off", nops, true)
			if err != nil && w.Dead() {
				fatal := drv.FatalInStderr(w.Stderr())
				fn := "unknown"
				for _, line := range strings.Split(fatal, "\n") {
					if strings.Contains(line, "dvid/datatype/") && !strings.HasPrefix(line, "\t") && !strings.HasSuffix(strings.TrimSpace(line), "(...)") {
						fn = line
						if j := strings.LastIndex(fn, "("); j > 0 {
							fn = fn[:j]
						}
						if j := strings.LastIndex(fn, "/"); j > 0 {
							fn = fn[j+1:]
						}
						break
					}
				}
				c.Count("negcoords_server_crashes", 1)
				if firstReport("server-crash|negcoords|" + fn) {
					c.Violation("server-crash|negcoords|"+fn, fmt.Sprintf("[neg%d] the server process died while reading a labelmap instance whose blocks sit at negative coordinates: %v; %s", i, err, drv.Trunc(fatal, 700)),
						map[string]interface{}{"sequence": fmt.Sprintf("neg%d", i), "stderr": drv.Trunc(fatal, 3000)})
				}
				err = nil
			}
			w.Kill()
			if err != nil {
				errs <- fmt.Errorf("negative-coordinate sequence %d: %v", i, err)
				return
			}
		}
	}()
	wg.Wait()
	close(errs)
	var all []string
	for e := range errs {
		all = append(all, e.Error())
	}
	if len(all) > 0 {
		sort.Strings(all)
		return fmt.Errorf("%s", strings.Join(all, " | "))
	}
	return nil
}
