package main

import (
	"fmt"

	"verif/harness/internal/drv"
	"verif/harness/internal/dvc"
)

func main() { drv.Main("C16", "exploration", run) }

func run(c *drv.Ctx) error {
	bin, err := c.Build("dvidw", "")
	if err != nil {
		return err
	}
	dir, _ := c.NewDataDir("x", drv.ConfOpts{})
	w, err := drv.StartWorker(bin, dir, drv.StartOpts{})
	if err != nil {
		return err
	}
	defer w.Kill()
	cl := &dvc.Client{W: w}
	root, err := cl.NewRepo("x")
	if err != nil {
		return err
	}
	if err := cl.NewInstance(root, "neuronjson", "nj", nil); err != nil {
		return err
	}
	p := func(m, u, b string) {
		r, err := w.HTTP(m, u, []byte(b))
		fmt.Printf("%s %s %s\n   -> %d %s [%v]\n", m, u, b, r.Status, string(r.Body), err)
	}
	h := root
	base := func() string { return "/api/node/" + h + "/nj/" }
	p("POST", base()+"key/1?u=al", `{"bodyid":1,"a":"x","n":3.0,"l":[1,2.0]}`)
	p("POST", base()+"key/2?u=al", `{"bodyid":2,"a":"y"}`)
	p("POST", base()+"key/10?u=al", `{"bodyid":10,"a":"z","b":null}`)
	p("GET", base()+"key/1?show=all", "")
	p("POST", base()+"key/1?u=bob", `{"bodyid":1,"n":3.0}`)
	p("GET", base()+"key/1?show=all", "")
	p("POST", base()+"key/1?u=bob", `{"bodyid":1,"a":null}`)
	p("GET", base()+"key/1?show=all", "")
	p("DELETE", base()+"key/1?u=bob", "")
	if err := cl.Commit(h); err != nil {
		return err
	}
	h2, err := cl.NewVersion(h)
	if err != nil {
		return err
	}
	for _, v := range []string{h, h2} {
		h = v
		fmt.Println("=====", v)
		p("GET", base()+"keys", "")
		p("GET", base()+"all", "")
		p("GET", base()+"fields", "")
		p("GET", base()+"fields?counts=true", "")
		p("GET", base()+"fieldtimes", "")
		p("GET", base()+"keyrange/0/a", "")
		p("GET", base()+"keyrange/1/3", "")
		p("GET", base()+"keyrange/2/10", "")
		p("GET", base()+"keyrangevalues/1/3?json=true", "")
		p("GET", base()+"keyrangevalues/0/a?json=true&fields=a", "")
		p("GET", base()+"keyvalues?json=true", `["1","2","10"]`)
		p("GET", base()+"keyvalues?json=true", `[1,2,10]`)
		p("GET", base()+"query", `{"a":"re/[yz]"}`)
		p("POST", base()+"query", `{"a":"re/[yz]"}`)
		p("GET", base()+"query?fields=b", `{"a":"re/[yz]"}`)
		p("GET", base()+"query?onlyid=true", `{"a":["y","z"]}`)
		p("GET", base()+"query", `{"b":"exists/0"}`)
		p("GET", base()+"query", `{"bodyid":[10,2]}`)
		p("HEAD", base()+"key/1", "")
		p("HEAD", base()+"key/2", "")
		p("GET", base()+"json_schema", "")
		p("HEAD", base()+"json_schema", "")
	}
	c.Case("a", true)
	c.Case("b", true)
	c.Sample("explore")
	return nil
}
