// C16 — neuron annotations: the in-memory head equals the store; updates merge fields.
//
// Oracle (differential + metamorphic, no re-implementation of the update code):
//
//	(1) after commit H; newversion -> H', H is read through the store and H' through the in-memory database while both
//	    hold identical data: every read endpoint must answer identically on the two uuids;
//	(2) the same version must answer identically before and after a restart (clean, abrupt, SIGKILL);
//	(3) update rules of the statement, evaluated on GET key?show=all before/after each accepted POST.
//
// Differences are attributed to precisely defined classes (stable violation keys) where a predicate proves the class;
// everything else gets the generic key neuronjson:diff:<endpoint class>:<pair|restart-head|restart-store>.
package main

import (
	"fmt"
	"math/rand"
	"os"
	"sort"
	"strings"
	"sync"

	"verif/harness/internal/drv"
	nj "verif/harness/internal/njcheck"
)

func main() { drv.Main("C16", "exploration", run) }

var users = []string{"ada", "bob", "cyd", "dee"}

// ---------- scripted minimal scenarios (deterministic; they give each known difference class its smallest witness) ----------

type scenario struct {
	name  string
	style string
	ids   []uint64
	extra []nj.Rq
	steps func(s *nj.Seq) error
}

func post(s *nj.Seq, user string, a *nj.Annotation) error {
	return s.Post([]*nj.Annotation{a}, nj.PostOpts{User: user}, false)
}

func seqErr(fs ...func() error) error {
	for _, f := range fs {
		if err := f(); err != nil {
			return err
		}
	}
	return nil
}

func scanQ(body string, fields []string, show string, onlyid bool) nj.Rq {
	var p []string
	if len(fields) > 0 {
		p = append(p, "fields="+strings.Join(fields, ","))
	}
	if show != "" {
		p = append(p, "show="+show)
	}
	if onlyid {
		p = append(p, "onlyid=true")
	}
	path := "query"
	if len(p) > 0 {
		path += "?" + strings.Join(p, "&")
	}
	return nj.Rq{Class: "query-scan", Method: "GET", Path: path, Body: []byte(body), Norm: "ordered", Fields: fields, Show: show, OnlyID: onlyid, QClass: "scripted"}
}

func scenarios() []scenario {
	return []scenario{
		{"delete-first-of-two", nj.StyleFour, []uint64{1001, 1002}, nil, func(s *nj.Seq) error {
			return seqErr(
				func() error { return post(s, "ada", nj.Ann(1001, "type", `"KC"`)) },
				func() error { return post(s, "ada", nj.Ann(1002, "type", `"KC"`)) },
				s.Advance,
				func() error { return s.Delete(1001, "bob") },
				s.Advance,
				func() error { return s.Restart("clean", false) })
		}},
		{"delete-positions-of-five", nj.StyleFour, []uint64{1001, 1002, 1003, 1004, 1005}, nil, func(s *nj.Seq) error {
			for _, id := range s.IDs {
				if err := post(s, "ada", nj.Ann(id, "type", `"KC"`, "group", `1`)); err != nil {
					return err
				}
			}
			if err := s.Advance(); err != nil {
				return err
			}
			for _, id := range []uint64{1005, 1003, 1001, 1002, 1004} { // last, middle, first, ...
				if err := s.Delete(id, "bob"); err != nil {
					return err
				}
				if err := s.Advance(); err != nil {
					return err
				}
			}
			return nil
		}},
		{"null-removes-field", nj.StyleFour, []uint64{1001, 1002}, nil, func(s *nj.Seq) error {
			return seqErr(
				func() error { return post(s, "ada", nj.Ann(1001, "type", `"KC"`, "status", `"Traced"`)) },
				func() error { return post(s, "ada", nj.Ann(1002, "type", `"KC"`)) },
				s.Advance,
				func() error { return post(s, "bob", nj.Ann(1001, "type", `null`)) },
				s.Advance,
				func() error { return s.Restart("abrupt", false) })
		}},
		{"last-holder-of-field-deleted", nj.StyleFour, []uint64{1001, 1002}, nil, func(s *nj.Seq) error {
			return seqErr(
				func() error { return post(s, "ada", nj.Ann(1001, "type", `"KC"`)) },
				func() error { return post(s, "ada", nj.Ann(1002, "status", `"Traced"`)) },
				s.Advance,
				func() error { return s.Delete(1002, "bob") },
				s.Advance)
		}},
		{"query-with-fields-option", nj.StyleFour, []uint64{1001, 1002}, []nj.Rq{scanQ(`{"type":"KC"}`, []string{"status"}, "", false)}, func(s *nj.Seq) error {
			return seqErr(
				func() error { return post(s, "ada", nj.Ann(1001, "type", `"KC"`, "status", `"Traced"`, "group", `1`)) },
				func() error { return post(s, "ada", nj.Ann(1002, "type", `"KC"`, "status", `"Anchor"`)) },
				s.Advance)
		}},
		{"mixed-length-ids", nj.StyleMixed, []uint64{2, 5, 10, 30}, []nj.Rq{
			{Class: "keyrange", Method: "GET", Path: "keyrange/2/30", Norm: "set", Beg: "2", End: "30"},
			{Class: "krv", Method: "GET", Path: "keyrangevalues/1/3?json=true", Norm: "json", Beg: "1", End: "3"},
			scanQ(`{"type":"KC"}`, nil, "", true)}, func(s *nj.Seq) error {
			for _, id := range s.IDs {
				if err := post(s, "ada", nj.Ann(id, "type", `"KC"`)); err != nil {
					return err
				}
			}
			return s.Advance()
		}},
		{"integral-float-repost", nj.StyleFour, []uint64{1001, 1002}, nil, func(s *nj.Seq) error {
			return seqErr(
				func() error { return post(s, "ada", nj.Ann(1001, "size", `3.0`)) },
				func() error { return post(s, "ada", nj.Ann(1002, "size", `0.5`)) },
				func() error { return post(s, "bob", nj.Ann(1001, "size", `3.0`)) },
				func() error { return post(s, "bob", nj.Ann(1002, "size", `0.5`)) },
				s.Advance)
		}},
		{"list-with-integral-float", nj.StyleFour, []uint64{1001, 1002}, []nj.Rq{scanQ(`{"tags":1}`, nil, "", false)}, func(s *nj.Seq) error {
			return seqErr(
				func() error { return post(s, "ada", nj.Ann(1001, "tags", `[1,2.0]`)) },
				func() error { return post(s, "ada", nj.Ann(1002, "tags", `["a"]`)) },
				s.Advance,
				func() error { return s.Restart("kill", false) })
		}},
		{"explicit-stamps", nj.StyleFour, []uint64{1001, 1002}, nil, func(s *nj.Seq) error {
			a := nj.Ann(1001, "type", `"KC"`)
			a.Stamps = map[string][2]string{"type": {"zoe", "2001-02-03T04:05:06Z"}}
			b := nj.Ann(1002, "type", `"KCab"`)
			b.Stamps = map[string][2]string{"type": {"zoe", "2030-01-01T00:00:00Z"}}
			return seqErr(
				func() error { return post(s, "ada", a) },
				func() error { return post(s, "ada", b) },
				func() error { return post(s, "bob", nj.Ann(1001, "type", `"KC"`)) },       // unchanged: stamps of 2001 stay
				func() error { return post(s, "cyd", nj.Ann(1001, "status", `"Traced"`)) }, // other field: type stamps stay
				s.Advance,
				func() error { return s.Restart("clean", false) },
				func() error { return post(s, "dee", nj.Ann(1001, "type", `"MBON01"`)) }, // changed: stamps must move off 2001
				s.Advance)
		}},
		{"schemas-and-restart-between-commit-and-newversion", nj.StyleFour, []uint64{1001, 1002}, nil, func(s *nj.Seq) error {
			return seqErr(
				func() error { return s.Meta("json_schema", nj.JSONSchemaText, "ada") },
				func() error { return s.Meta("schema", `{"s":1}`, "ada") },
				func() error { return s.Meta("schema_batch", `{"sb":1}`, "ada") },
				func() error { return post(s, "ada", nj.Ann(1001, "group", `"123"`, "status", `"Traced"`)) },
				func() error { return post(s, "ada", nj.Ann(1002, "group", `2`)) },
				func() error { return post(s, "bob", nj.Ann(1001, "group", `"123"`)) }, // converted to 123: unchanged
				func() error { return post(s, "bob", nj.Ann(1002, "status", `5`)) },    // violates the schema: refused
				s.Advance,
				func() error { return s.Restart("clean", true) },
				func() error { return s.Meta("key/schema", "", "cyd") },
				func() error { return s.Meta("json_schema", "", "cyd") },
				s.Advance,
				func() error { return s.Restart("abrupt", false) })
		}},
	}
}

// ---------- random sequences ----------

func existing(s *nj.Seq) []uint64 {
	var out []uint64
	for id := range s.Exists {
		out = append(out, id)
	}
	sort.Slice(out, func(i, j int) bool { return out[i] < out[j] })
	return out
}

func randomSeq(s *nj.Seq, nops int) error {
	r := s.R
	ui := r.Intn(len(users))
	user := func() string { ui = (ui + 1 + r.Intn(2)) % len(users); return users[ui] }
	anyID := func() uint64 { return s.IDs[r.Intn(len(s.IDs))] }
	someFields := func() []string {
		names := []string{"type", "status", "group", "size", "pos", "tags"}
		n := 1 + r.Intn(2)
		var out []string
		for i := 0; i < n; i++ {
			out = append(out, names[r.Intn(len(names))])
		}
		return out
	}
	// seed: three annotations
	for _, i := range r.Perm(len(s.IDs))[:3] {
		if err := s.Post([]*nj.Annotation{nj.GenAnnotation(r, s.IDs[i], 0, s.IntFloat, nil)}, nj.PostOpts{User: user()}, false); err != nil {
			return err
		}
	}
	if err := s.Advance(); err != nil {
		return err
	}
	sinceRestart := 0
	for step := 0; step < nops; step++ {
		x := r.Intn(100)
		var err error
		switch {
		case x < 28:
			id := anyID()
			var prefer []string
			if l := s.Last[id]; l != nil {
				prefer = l.Fields
			}
			err = s.Post([]*nj.Annotation{nj.GenAnnotation(r, id, 14, s.IntFloat, prefer)}, nj.PostOpts{User: user()}, false)
		case x < 36:
			err = s.Post([]*nj.Annotation{nj.GenAnnotation(r, anyID(), 8, s.IntFloat, nil)}, nj.PostOpts{User: user(), Replace: true}, false)
		case x < 44:
			err = s.Post([]*nj.Annotation{nj.GenAnnotation(r, anyID(), 0, s.IntFloat, nil)}, nj.PostOpts{User: user(), Cond: someFields()}, false)
		case x < 51: // repeat the last accepted body of an annotation with another user: nothing may change
			ex := existing(s)
			if len(ex) == 0 {
				continue
			}
			id := ex[r.Intn(len(ex))]
			if l := s.Last[id]; l != nil {
				s.C.Count("op_repost_identical", 1)
				err = s.Post([]*nj.Annotation{l}, nj.PostOpts{User: user()}, false)
			}
		case x < 63:
			n := 2 + r.Intn(3)
			var as []*nj.Annotation
			for _, i := range r.Perm(len(s.IDs))[:n] {
				as = append(as, nj.GenAnnotation(r, s.IDs[i], 10, s.IntFloat, nil))
			}
			o := nj.PostOpts{User: user()}
			switch r.Intn(5) {
			case 0:
				o.Replace = true
			case 1:
				o.Cond = someFields()
			}
			err = s.Post(as, o, true)
		case x < 79:
			ex := existing(s)
			var id uint64
			pos := "absent"
			if len(ex) == 0 || r.Intn(10) == 0 {
				id = anyID()
				if s.Exists[id] {
					pos = "random"
				}
			} else {
				switch r.Intn(3) {
				case 0:
					id, pos = ex[0], "first"
				case 1:
					id, pos = ex[len(ex)-1], "last"
				default:
					id, pos = ex[len(ex)/2], "middle"
				}
				if len(ex) == 1 {
					pos = "only"
				}
			}
			s.C.Count("delete_position_"+pos, 1)
			err = s.Delete(id, user())
		case x < 88:
			switch r.Intn(8) {
			case 0, 1:
				err = s.Meta("json_schema", nj.JSONSchemaText, user())
			case 2:
				err = s.Meta("schema", nj.NeuSchemaText(r, "schema"), user())
			case 3:
				err = s.Meta("schema_batch", nj.NeuSchemaText(r, "schema_batch"), user())
			case 4:
				err = s.Meta("key/schema", nj.NeuSchemaText(r, "schema"), user())
			case 5:
				err = s.Meta([]string{"schema", "schema_batch", "key/schema_batch"}[r.Intn(3)], "", user())
			case 6:
				err = s.Meta("json_schema", "", user())
			default:
				err = s.Meta("key/schema_batch", nj.NeuSchemaText(r, "schema_batch"), user())
			}
		default:
			// no mutation in this step
		}
		if err != nil {
			return err
		}
		sinceRestart++
		y := r.Intn(100)
		switch {
		case y < 72:
			err = s.Advance()
		case y < 76 && sinceRestart >= 3:
			sinceRestart = 0
			err = s.Restart([]string{"clean", "abrupt", "kill"}[r.Intn(3)], true)
		}
		if err != nil {
			return err
		}
		if sinceRestart >= 5 || (sinceRestart >= 3 && r.Intn(6) == 0) {
			sinceRestart = 0
			if err := s.Restart([]string{"clean", "abrupt", "kill"}[r.Intn(3)], false); err != nil {
				return err
			}
		}
	}
	return s.Advance()
}

// ---------- run ----------

type job struct {
	idx      int
	name     string
	seed     int64
	style    string
	intfloat bool
	sc       *scenario
	nops     int
}

func run(c *drv.Ctx) error {
	c.Rule("a sequence = POST key / POST keyvalues (plain, replace=true, conditionals=), DELETE key, json_schema/schema/schema_batch posts and deletes, commit+newversion, restarts (clean, abrupt, SIGKILL; also between commit and newversion) " +
		"on one neuronjson instance; values from a closed vocabulary (strings, ints at 2^53 and 2^64-1, negative ints, floats, int/string/mixed/nested arrays, nested objects, booleans, nulls); body ids 4-digit, near 2^53, near 2^64 (equal decimal length) or mixed length. " +
		"A case is (a) one read request answered by the in-memory head and by its committed parent holding identical data, (b) the same request on the same version before/after a restart, (c) one evaluation of an update rule on one field. " +
		"Distinct by (compare kind, request, answer) resp. (rule, field, before, posted, after, options). Non-trivial: the instance holds >= 2 annotations and an accepted mutation happened since the previous observation (a, b: >= 2 annotations); rule cases: the annotation existed before the POST.")
	c.Assume("wrapper engines add no semantics: crashkv delegates every call to storage/badger")
	c.Assume("keys, all, fields, keyrange and keyrangevalues promise no element order: compared as multisets (order differences are counted); query and keyvalues are compared in order; an empty list rendered as null equals []")
	c.Assume("fieldtimes is defined for the in-memory head only: compared across restarts, not between head and store")
	c.Assume("F_time 'does change' is asserted only when the driver's monotonic clock shows >= 2.5 s since the previous change of that field (RFC3339 stamps have 1 s resolution), or when the old stamp is the explicit 2001 stamp of the dedicated sub-test")
	c.Extra("difference_classes", nj.Classes)
	c.Extra("generic_key", "neuronjson:diff:<endpoint class>:<pair|restart-head|restart-store> = a difference no class predicate proves; neuronjson:rule:* = update-rule violations")
	bin, err := c.Build("dvidw", "")
	if err != nil {
		return err
	}
	var jobs []job
	scs := scenarios()
	for i := range scs {
		jobs = append(jobs, job{name: "scripted:" + scs[i].name, sc: &scs[i], style: scs[i].style, seed: c.Rand.Int63()})
	}
	nseq := c.N(15, 500)
	nops := c.N(25, 40)
	for i := 0; i < nseq; i++ {
		style := nj.StyleFour
		switch i % 10 {
		case 3, 8:
			style = nj.Style2p53
		case 5:
			style = nj.StyleMax64
		case 1, 6:
			style = nj.StyleMixed
		}
		jobs = append(jobs, job{name: fmt.Sprintf("random-%03d", i), seed: c.Rand.Int63(), style: style, intfloat: i%5 == 4, nops: nops})
	}
	if only := os.Getenv("C16_ONLY"); only != "" { // debugging aid: one named sequence (seeds are drawn above, so it is the same sequence)
		var f []job
		for _, j := range jobs {
			if j.name == only {
				f = append(f, j)
			}
		}
		jobs = f
	}
	for i := range jobs {
		jobs[i].idx = i
	}
	nw := c.N(5, 12)
	results := make([][]nj.Viol, len(jobs))
	traces := make([][]string, len(jobs))
	errs := make([]string, nw)
	var wg sync.WaitGroup
	for wi := 0; wi < nw; wi++ {
		wg.Add(1)
		go func(wi int) {
			defer wg.Done()
			dir, err := c.NewDataDir(fmt.Sprintf("w%d", wi), drv.ConfOpts{})
			if err != nil {
				errs[wi] = err.Error()
				return
			}
			w, err := drv.StartWorker(bin, dir, drv.StartOpts{})
			if err != nil {
				errs[wi] = err.Error()
				return
			}
			defer func() { w.Kill() }()
			for ji := wi; ji < len(jobs); ji += nw {
				j := jobs[ji]
				r := rand.New(rand.NewSource(j.seed))
				s, err := nj.NewSeq(c, j.name, r, bin, w)
				if err == nil {
					s.Style, s.IntFloat = j.style, j.intfloat
					if j.sc != nil {
						s.IDs, s.Extra, s.NQ = j.sc.ids, j.sc.extra, 20
						err = j.sc.steps(s)
					} else {
						s.IDs = nj.IDPool(r, j.style, 5+r.Intn(4))
						err = randomSeq(s, j.nops)
					}
					w = s.W
					results[ji] = s.Viols
					traces[ji] = s.Trace
					c.Count("sequences", 1)
					c.Count("sequences_"+j.style, 1)
				}
				if err != nil {
					st := ""
					if w != nil {
						st = drv.FatalInStderr(w.Stderr())
					}
					errs[wi] = fmt.Sprintf("worker %d sequence %s: %v; stderr: %s", wi, j.name, err, st)
					return
				}
			}
		}(wi)
	}
	wg.Wait()
	// one violation per key: the witness with the shortest history (ties: sequence order; scripted scenarios come first)
	best := map[string]nj.Viol{}
	bestLen := map[string]int{}
	var order []string
	for ji := range jobs {
		for _, v := range results[ji] {
			n := 1 << 30
			if m, ok := v.Witness.(map[string]interface{}); ok {
				if t, ok := m["trace"].([]string); ok {
					n = len(t)
				}
			}
			if _, seen := best[v.Key]; !seen {
				order = append(order, v.Key)
				best[v.Key], bestLen[v.Key] = v, n
			} else if n < bestLen[v.Key] {
				best[v.Key], bestLen[v.Key] = v, n
			}
		}
	}
	sort.Strings(order)
	for _, k := range order {
		c.Violation(k, best[k].What, best[k].Witness)
	}
	for ji := range jobs {
		if len(traces[ji]) > 0 && jobs[ji].sc == nil {
			c.Sample(map[string]interface{}{"sequence": jobs[ji].name, "id_style": jobs[ji].style, "ops": traces[ji]})
			break
		}
	}
	c.Sample(map[string]interface{}{"sequence": jobs[0].name, "ops": traces[0]})
	var all []string
	for _, e := range errs {
		if e != "" {
			all = append(all, e)
		}
	}
	if len(all) > 0 {
		return fmt.Errorf("%s", strings.Join(all, " | "))
	}
	return nil
}
