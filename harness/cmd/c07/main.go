// C07 — the version DAG stays well formed and identifiers stay unique.
// Oracle: invariant checker over the repo JSON after every request + model agreement for
// acknowledged requests + frame condition (graph, branch heads, identifier resolution unchanged)
// for requests answered with an error.
package main

import (
	"encoding/json"
	"fmt"
	"math/rand"
	"net/url"
	"os"
	"sort"
	"strings"
	"sync"

	"verif/harness/internal/drv"
	"verif/harness/internal/dvc"
)

func main() { drv.Main("C07", "exploration", run) }

type mnode struct {
	uuid    string
	parents []string
	branch  string
	locked  bool
	who     string // expected value of key "whoami" read at this node
	repo    *mrepo
}

type mrepo struct {
	root     string
	nodes    map[string]*mnode
	order    []string
	branches map[string]bool // named branches created by acknowledged branch/tag requests
	insts    map[string]bool
	deleted  bool
}

type world struct {
	c      *drv.Ctx
	w      *drv.Worker
	cl     *dvc.Client
	r      *rand.Rand
	repos  []*mrepo
	tag    string
	n      int
	trace  []string
	fresh  int
	reqSeq int
}

func (wd *world) live() []*mrepo {
	var out []*mrepo
	for _, r := range wd.repos {
		if !r.deleted {
			out = append(out, r)
		}
	}
	return out
}

func (wd *world) freshUUID() string {
	wd.fresh++
	const hex = "0123456789abcdef"
	b := make([]byte, 32)
	for i := range b {
		b[i] = hex[wd.r.Intn(16)]
	}
	return string(b)
}

func (wd *world) allNodes() []*mnode {
	var out []*mnode
	for _, r := range wd.live() {
		for _, u := range r.order {
			out = append(out, r.nodes[u])
		}
	}
	return out
}

// ---------- observation ----------

type snap struct {
	Graph map[string]string // uuid -> "version|branch|locked|parents|children"
	Heads map[string]string // "root:branch" -> observed whoami (or status)
	IDs   map[string]string // uuid -> observed whoami at that uuid
	Repos string
}

func (wd *world) snapshot() (*snap, map[string]*dvc.RepoInfo, error) {
	repos, _, err := wd.cl.Repos()
	if err != nil {
		return nil, nil, err
	}
	s := &snap{Graph: map[string]string{}, Heads: map[string]string{}, IDs: map[string]string{}}
	var roots []string
	for root, ri := range repos {
		if ri == nil {
			continue
		}
		roots = append(roots, root)
		for u, n := range ri.DAG.Nodes {
			s.Graph[root+"/"+u] = fmt.Sprintf("%s|v%d|%q|%v|p%v|c%v", n.UUID, n.VersionID, n.Branch, n.Locked, n.Parents, n.Children)
		}
	}
	sort.Strings(roots)
	s.Repos = strings.Join(roots, ",")
	for _, r := range wd.live() {
		names := []string{"master"}
		for b := range r.branches {
			names = append(names, b)
		}
		sort.Strings(names)
		for _, b := range names {
			if strings.ContainsAny(b, ":~/ %?#") || b == "" {
				continue
			}
			rr, err := wd.w.Get("/api/node/" + r.root + ":" + url.PathEscape(b) + "/kv/key/whoami")
			if err != nil {
				return nil, nil, err
			}
			s.Heads[r.root+":"+b] = fmt.Sprintf("%d %s", rr.Status, drv.Trunc(string(rr.Body), 80))
			if b == "master" {
				continue // documented to answer 400 (or an arbitrary path) once merges give master several paths
			}
			bv, err := wd.w.Get("/api/repo/" + r.root + "/branch-versions/" + url.PathEscape(b))
			if err != nil {
				return nil, nil, err
			}
			s.Heads[r.root+"#"+b] = fmt.Sprintf("%d %s", bv.Status, drv.Trunc(string(bv.Body), 2000))
		}
		for _, u := range r.order {
			if len(u) != 32 {
				continue // non-standard uuids (tags) are not addressed by prefix-safe lookups
			}
			rr, err := wd.w.Get("/api/node/" + u + "/kv/key/whoami")
			if err != nil {
				return nil, nil, err
			}
			s.IDs[u] = fmt.Sprintf("%d %s", rr.Status, drv.Trunc(string(rr.Body), 80))
		}
	}
	return s, repos, nil
}

func diffSnap(a, b *snap) string {
	var out []string
	cmp := func(name string, x, y map[string]string) {
		for k, v := range x {
			if w, ok := y[k]; !ok {
				out = append(out, fmt.Sprintf("%s[%s] disappeared (was %s)", name, k, v))
			} else if w != v {
				out = append(out, fmt.Sprintf("%s[%s]: %s -> %s", name, k, v, w))
			}
		}
		for k, v := range y {
			if _, ok := x[k]; !ok {
				out = append(out, fmt.Sprintf("%s[%s] appeared (%s)", name, k, v))
			}
		}
	}
	cmp("graph", a.Graph, b.Graph)
	cmp("head", a.Heads, b.Heads)
	cmp("id", a.IDs, b.IDs)
	if a.Repos != b.Repos {
		out = append(out, fmt.Sprintf("repos: %s -> %s", a.Repos, b.Repos))
	}
	sort.Strings(out)
	if len(out) > 6 {
		out = append(out[:6], fmt.Sprintf("… %d more", len(out)-6))
	}
	return strings.Join(out, "; ")
}

func invariants(repos map[string]*dvc.RepoInfo) []string { return dvc.CheckDAGInvariants(repos) }

// agree compares the server JSON with the model built from acknowledged requests.
func (wd *world) agree(repos map[string]*dvc.RepoInfo) []string {
	var bad []string
	for _, r := range wd.repos {
		ri := repos[r.root]
		if r.deleted {
			if ri != nil {
				bad = append(bad, fmt.Sprintf("deleted repo %s still listed", r.root))
			}
			continue
		}
		if ri == nil {
			bad = append(bad, fmt.Sprintf("repo %s missing from /api/repos/info", r.root))
			continue
		}
		if len(ri.DAG.Nodes) != len(r.nodes) {
			bad = append(bad, fmt.Sprintf("node-count: repo %s shows %d nodes, %d were acknowledged", r.root, len(ri.DAG.Nodes), len(r.nodes)))
		}
		ver := map[uint32]string{}
		for _, n := range ri.DAG.Nodes {
			ver[n.VersionID] = n.UUID
		}
		for u, mn := range r.nodes {
			n := ri.DAG.Nodes[u]
			if n == nil {
				bad = append(bad, fmt.Sprintf("missing-node: acknowledged node %s absent", u))
				continue
			}
			if n.Branch != mn.branch {
				bad = append(bad, fmt.Sprintf("branch: node %s has branch %q, expected %q", u, n.Branch, mn.branch))
			}
			if n.Locked != mn.locked {
				bad = append(bad, fmt.Sprintf("locked: node %s Locked=%v, expected %v", u, n.Locked, mn.locked))
			}
			var ps []string
			for _, p := range n.Parents {
				ps = append(ps, ver[p])
			}
			a, b := append([]string{}, ps...), append([]string{}, mn.parents...)
			sort.Strings(a)
			sort.Strings(b)
			if strings.Join(a, ",") != strings.Join(b, ",") {
				bad = append(bad, fmt.Sprintf("parents: node %s has parents %v, expected %v", u, ps, mn.parents))
			}
		}
		for name := range r.insts {
			if _, ok := ri.DataInstances[name]; !ok {
				bad = append(bad, fmt.Sprintf("instance %q of repo %s missing", name, r.root))
			}
		}
	}
	return bad
}

// headsAgree: every named branch resolves to its head; every uuid resolves to itself.
func (wd *world) headsAgree(s *snap) []string {
	var bad []string
	for _, r := range wd.live() {
		for b := range r.branches {
			if strings.ContainsAny(b, ":~/ %?#") {
				continue
			}
			// head = node of branch b without a same-branch child
			var head *mnode
			for _, u := range r.order {
				n := r.nodes[u]
				if n.branch != b {
					continue
				}
				isHead := true
				for _, u2 := range r.order {
					n2 := r.nodes[u2]
					if n2.branch == b && len(n2.parents) == 1 && n2.parents[0] == u {
						isHead = false
					}
				}
				if isHead {
					head = n
				}
			}
			if head == nil {
				continue
			}
			want := head.who
			if want == "" {
				continue
			}
			if got := s.Heads[r.root+":"+b]; got != want {
				bad = append(bad, fmt.Sprintf("branch-head: %s:%s resolves to whoami %q, expected %q (head %s)", r.root, b, got, want, head.uuid))
			}
			if got := s.Heads[r.root+"#"+b]; !strings.HasPrefix(got, `200 ["`+head.uuid+`"`) {
				bad = append(bad, fmt.Sprintf("branch-versions: %s/%s = %s, expected list starting with head %s", r.root, b, drv.Trunc(got, 120), head.uuid))
			}
		}
		for _, u := range r.order {
			if len(u) != 32 {
				continue
			}
			want := r.nodes[u].who
			if want == "" {
				continue
			}
			if got := s.IDs[u]; got != want {
				bad = append(bad, fmt.Sprintf("uuid-resolution: GET at uuid %s reads whoami %q, expected %q", u, got, want))
			}
		}
	}
	return bad
}

// ---------- request generation ----------

type request struct {
	op    string // newrepo, commit, newversion, branch, tag, merge, resolve, note, log, instance, data_delete, data_rename, repo_delete
	class string // argument class (part of the violation key)
	desc  string
	do    func() (drv.Resp, error)
	apply func(resp drv.Resp) // model update on 2xx
}

func (wd *world) pickNode(kind string) *mnode {
	var cands []*mnode
	for _, n := range wd.allNodes() {
		switch kind {
		case "open":
			if !n.locked {
				cands = append(cands, n)
			}
		case "committed":
			if n.locked {
				cands = append(cands, n)
			}
		default:
			cands = append(cands, n)
		}
	}
	if len(cands) == 0 {
		return nil
	}
	return cands[wd.r.Intn(len(cands))]
}

func (wd *world) addNode(r *mrepo, uuid string, parents []string, branch string, locked bool) *mnode {
	n := &mnode{uuid: uuid, parents: parents, branch: branch, locked: locked, repo: r}
	r.nodes[uuid] = n
	r.order = append(r.order, uuid)
	// whoami: written at the node if it is open and a standard uuid; otherwise the baseline is what the
	// uuid resolves to when the node is created (later requests must not change that resolution).
	written := false
	if !locked && len(uuid) == 32 {
		rr, err := wd.w.Post("/api/node/"+uuid+"/kv/key/whoami", []byte(uuid))
		if err == nil && rr.OK() {
			n.who = "200 " + uuid
			written = true
		}
	}
	if !written && len(uuid) == 32 {
		if rr, err := wd.w.Get("/api/node/" + uuid + "/kv/key/whoami"); err == nil {
			n.who = fmt.Sprintf("%d %s", rr.Status, drv.Trunc(string(rr.Body), 80))
		}
	}
	return n
}

func (wd *world) uuidArg(r *mrepo) (string, string) {
	switch x := wd.r.Intn(100); {
	case x < 50:
		return "", "none"
	case x < 62:
		return wd.freshUUID(), "fresh"
	case x < 74: // duplicate of an existing uuid in the same repo
		if r != nil && len(r.order) > 0 {
			return r.order[wd.r.Intn(len(r.order))], "dup-same-repo"
		}
		return "", "none"
	case x < 82:
		ns := wd.allNodes()
		if len(ns) > 0 {
			return ns[wd.r.Intn(len(ns))].uuid, "dup-any-repo"
		}
		return "", "none"
	case x < 86:
		return wd.freshUUID()[:31], "malformed-31"
	case x < 90:
		return "zz" + wd.freshUUID()[:30], "malformed-nonhex"
	case x < 92:
		return wd.freshUUID() + wd.freshUUID()[:2+2*wd.r.Intn(3)], "malformed-overlong"
	case x < 95: // an existing uuid extended by hex digits: if taken for a uuid it makes the existing one ambiguous as a prefix
		if r != nil && len(r.order) > 0 {
			if u := r.order[wd.r.Intn(len(r.order))]; len(u) == 32 {
				return u + []string{"00", "0011", "a"}[wd.r.Intn(3)], "malformed-overlong-extends-existing"
			}
		}
		return wd.freshUUID() + "ab", "malformed-overlong"
	default:
		return strings.ToUpper(wd.freshUUID()), "uppercase"
	}
}

func jbody(v interface{}) []byte { b, _ := json.Marshal(v); return b }

func childOf(resp drv.Resp) string {
	var o struct{ Child string }
	json.Unmarshal(resp.Body, &o)
	return o.Child
}

func (wd *world) gen() *request {
	live := wd.live()
	x := wd.r.Intn(100)
	switch {
	case len(live) == 0 || x < 4 && len(wd.repos) < 4:
		root, class := "", "none"
		if len(live) > 0 && wd.r.Intn(2) == 0 {
			root, class = wd.uuidArg(live[wd.r.Intn(len(live))])
		}
		body := map[string]string{"alias": fmt.Sprintf("r%d", len(wd.repos)), "description": "d"}
		if class != "none" {
			body["root"] = root
		}
		return &request{op: "newrepo", class: "root=" + class, desc: fmt.Sprintf("POST /api/repos root=%q", root),
			do: func() (drv.Resp, error) { return wd.w.Post("/api/repos", jbody(body)) },
			apply: func(resp drv.Resp) {
				var o struct{ Root string }
				json.Unmarshal(resp.Body, &o)
				r := &mrepo{root: o.Root, nodes: map[string]*mnode{}, branches: map[string]bool{}, insts: map[string]bool{}}
				wd.repos = append(wd.repos, r)
				if err := wd.cl.NewInstance(o.Root, "keyvalue", "kv", nil); err == nil {
					r.insts["kv"] = true
				}
				wd.addNode(r, o.Root, nil, "", false)
			}}
	case x < 26: // commit
		kind := "open"
		if wd.r.Intn(5) == 0 {
			kind = "committed"
		}
		n := wd.pickNode(kind)
		if n == nil {
			return nil
		}
		body := jbody(map[string]interface{}{"note": "n", "log": []string{"l"}})
		class := kind
		if wd.r.Intn(8) == 0 {
			body = []byte(`{"note": `)
			class += "+malformed-json"
		}
		return &request{op: "commit", class: class, desc: "POST commit " + n.uuid,
			do:    func() (drv.Resp, error) { return wd.w.Post("/api/node/"+n.uuid+"/commit", body) },
			apply: func(drv.Resp) { n.locked = true }}
	case x < 46: // newversion
		kind := "committed"
		if wd.r.Intn(5) == 0 {
			kind = "open"
		}
		n := wd.pickNode(kind)
		if n == nil {
			return nil
		}
		uarg, uclass := wd.uuidArg(n.repo)
		body := map[string]string{"note": "nv"}
		if uclass != "none" {
			body["uuid"] = uarg
		}
		return &request{op: "newversion", class: "parent=" + kind + ",uuid=" + uclass, desc: fmt.Sprintf("POST newversion %s uuid=%q", n.uuid, uarg),
			do: func() (drv.Resp, error) { return wd.w.Post("/api/node/"+n.uuid+"/newversion", jbody(body)) },
			apply: func(resp drv.Resp) {
				wd.addNode(n.repo, childOf(resp), []string{n.uuid}, n.branch, false)
			}}
	case x < 62: // branch
		kind := "committed"
		if wd.r.Intn(6) == 0 {
			kind = "open"
		}
		n := wd.pickNode(kind)
		if n == nil {
			return nil
		}
		uarg, uclass := wd.uuidArg(n.repo)
		var name, nclass string
		switch y := wd.r.Intn(100); {
		case y < 60:
			wd.n++
			name, nclass = fmt.Sprintf("b%s-%d", wd.tag, wd.n), "new"
		case y < 75:
			nclass = "existing"
			for b := range n.repo.branches {
				name = b
			}
			if name == "" {
				wd.n++
				name, nclass = fmt.Sprintf("b%s-%d", wd.tag, wd.n), "new"
			}
		case y < 82:
			name, nclass = "", "empty"
		case y < 88:
			name, nclass = "master", "master"
		case y < 94:
			wd.n++
			name, nclass = fmt.Sprintf("c:%d", wd.n), "colon"
		case y < 97:
			wd.n++
			name, nclass = fmt.Sprintf("t~%d", wd.n), "tilde"
		default:
			// a name that differs from master / an existing branch only by surrounding white space is a name of its own
			base := "master"
			if wd.r.Intn(2) == 0 {
				for b := range n.repo.branches {
					if b != "" && (base == "master" || b < base) {
						base = b
					}
				}
			}
			name, nclass = []string{" " + base + " ", base + " ", " " + base, "\t" + base}[wd.r.Intn(4)], "padded"
		}
		body := map[string]string{"branch": name, "note": "br"}
		if uclass != "none" {
			body["uuid"] = uarg
		}
		return &request{op: "branch", class: "parent=" + kind + ",name=" + nclass + ",uuid=" + uclass, desc: fmt.Sprintf("POST branch %s name=%q uuid=%q", n.uuid, name, uarg),
			do: func() (drv.Resp, error) { return wd.w.Post("/api/node/"+n.uuid+"/branch", jbody(body)) },
			apply: func(resp drv.Resp) {
				n.repo.branches[name] = true
				wd.addNode(n.repo, childOf(resp), []string{n.uuid}, name, false)
			}}
	case x < 68: // tag
		kind := "committed"
		if wd.r.Intn(5) == 0 {
			kind = "open"
		}
		n := wd.pickNode(kind)
		if n == nil {
			return nil
		}
		var tg, tclass string
		switch y := wd.r.Intn(100); {
		case y < 55:
			wd.n++
			tg, tclass = fmt.Sprintf("tag%s%d", wd.tag, wd.n), "new"
		case y < 70:
			tclass = "existing-tag"
			for b := range n.repo.branches {
				if strings.HasPrefix(b, "tag-") {
					tg = strings.TrimPrefix(b, "tag-")
				}
			}
			if tg == "" {
				wd.n++
				tg, tclass = fmt.Sprintf("tag%s%d", wd.tag, wd.n), "new"
			}
		case y < 90:
			if m := wd.pickNode("any"); m != nil {
				tg, tclass = m.uuid, "existing-uuid"
				if !m.locked {
					tclass = "existing-open-uuid"
				}
			}
		default:
			tg, tclass = "", "empty"
		}
		return &request{op: "tag", class: "parent=" + kind + ",tag=" + tclass, desc: fmt.Sprintf("POST tag %s tag=%q", n.uuid, tg),
			do: func() (drv.Resp, error) {
				return wd.w.Post("/api/node/"+n.uuid+"/tag", jbody(map[string]string{"tag": tg, "note": "t"}))
			},
			apply: func(resp drv.Resp) {
				n.repo.branches["tag-"+tg] = true
				wd.addNode(n.repo, childOf(resp), []string{n.uuid}, "tag-"+tg, true)
			}}
	case x < 82: // merge
		r := live[wd.r.Intn(len(live))]
		var comm, open []string
		for _, u := range r.order {
			if r.nodes[u].locked {
				comm = append(comm, u)
			} else {
				open = append(open, u)
			}
		}
		var parents []string
		class := "committed"
		k := 2 + wd.r.Intn(3)
		for _, i := range wd.r.Perm(len(comm)) {
			if len(parents) < k {
				parents = append(parents, comm[i])
			}
		}
		switch y := wd.r.Intn(100); {
		case y < 55:
		case y < 65 && len(open) > 0:
			parents = append(parents, open[wd.r.Intn(len(open))])
			class = "includes-open"
		case y < 73:
			parents = append(parents, wd.freshUUID())
			class = "includes-unknown"
		case y < 81 && len(parents) > 0:
			parents = append(parents, parents[0])
			class = "repeated"
		case y < 89:
			for _, o := range live {
				if o != r {
					for _, u := range o.order {
						if o.nodes[u].locked {
							parents = append(parents, u)
							class = "includes-foreign-repo"
							break
						}
					}
				}
			}
		case y < 94 && len(parents) > 0:
			parents = parents[:1]
			class = "single"
		default:
			class = "bad-mergetype"
		}
		if len(parents) > 1 && class != "committed" && wd.r.Intn(2) == 0 {
			// put the offending parent first or in the middle, too
			i, j := 0, len(parents)-1
			parents[i], parents[j] = parents[j], parents[i]
			class += "-first"
		}
		mt := "conflict-free"
		if class == "bad-mergetype" {
			mt = "octopus"
		}
		if len(parents) == 0 {
			return nil
		}
		ps := append([]string{}, parents...)
		return &request{op: "merge", class: "parents=" + class, desc: fmt.Sprintf("POST merge %v type=%s", ps, mt),
			do: func() (drv.Resp, error) {
				return wd.w.Post("/api/repo/"+r.root+"/merge", jbody(map[string]interface{}{"mergeType": mt, "parents": ps, "note": "m"}))
			},
			apply: func(resp drv.Resp) {
				wd.addNode(r, childOf(resp), ps, "", false)
			}}
	case x < 88: // note / log
		n := wd.pickNode("any")
		if n == nil {
			return nil
		}
		what := "note"
		body := jbody(map[string]string{"note": "hello"})
		if wd.r.Intn(2) == 0 {
			what = "log"
			body = jbody(map[string][]string{"log": {"a", "b"}})
		}
		class := "valid"
		if wd.r.Intn(4) == 0 {
			body = []byte(`{"nothing": 1}`)
			class = "missing-field"
		}
		if n.locked {
			class += "+committed"
		}
		return &request{op: what, class: class, desc: "POST " + what + " " + n.uuid,
			do:    func() (drv.Resp, error) { return wd.w.Post("/api/node/"+n.uuid+"/"+what, body) },
			apply: func(drv.Resp) {}}
	case x < 94: // instance create / delete / rename
		r := live[wd.r.Intn(len(live))]
		switch wd.r.Intn(4) {
		case 0, 1:
			wd.n++
			name := fmt.Sprintf("i%d", wd.n)
			class := "new"
			if wd.r.Intn(4) == 0 {
				name, class = "kv", "duplicate-name"
			}
			return &request{op: "instance", class: class, desc: "POST instance " + name,
				do: func() (drv.Resp, error) {
					return wd.w.Post("/api/repo/"+r.root+"/instance", jbody(map[string]string{"typename": "keyvalue", "dataname": name}))
				},
				apply: func(drv.Resp) { r.insts[name] = true }}
		case 2:
			var name string
			for i := range r.insts {
				if i != "kv" {
					name = i
				}
			}
			class := "existing"
			if name == "" {
				name, class = "nosuch", "unknown"
			}
			return &request{op: "data_delete", class: class, desc: "rpc repo delete " + name,
				do: func() (drv.Resp, error) {
					err := wd.w.API("rpc.data_delete", map[string]string{"uuid": r.root, "name": name}, nil)
					return apiResp(err)
				},
				apply: func(drv.Resp) { delete(r.insts, name) }}
		default:
			var name string
			for i := range r.insts {
				if i != "kv" {
					name = i
				}
			}
			class := "existing"
			if name == "" {
				name, class = "nosuch", "unknown"
			}
			wd.n++
			nn := fmt.Sprintf("ren%d", wd.n)
			if wd.r.Intn(4) == 0 {
				nn, class = "kv", class+"+to-existing-name"
			}
			return &request{op: "data_rename", class: class, desc: "rpc repo rename " + name + " " + nn,
				do: func() (drv.Resp, error) {
					err := wd.w.API("rpc.data_rename", map[string]string{"uuid": r.root, "name": name, "newname": nn}, nil)
					return apiResp(err)
				},
				apply: func(drv.Resp) { delete(r.insts, name); r.insts[nn] = true }}
		}
	case x < 97 && len(live) > 1: // repo delete
		r := live[wd.r.Intn(len(live))]
		target, class := r.root, "root"
		if wd.r.Intn(3) == 0 && len(r.order) > 1 {
			target, class = r.order[1], "non-root-uuid"
		}
		return &request{op: "repo_delete", class: class, desc: "rpc repos delete " + target,
			do: func() (drv.Resp, error) {
				err := wd.w.API("rpc.repo_delete", map[string]string{"uuid": target}, nil)
				return apiResp(err)
			},
			apply: func(drv.Resp) { r.deleted = true }}
	default: // resolve
		r := live[wd.r.Intn(len(live))]
		var comm []string
		for _, u := range r.order {
			if r.nodes[u].locked {
				comm = append(comm, u)
			}
		}
		if len(comm) < 2 {
			return nil
		}
		p := wd.r.Perm(len(comm))
		ps := []string{comm[p[0]], comm[p[1]]}
		return &request{op: "resolve", class: "committed", desc: fmt.Sprintf("POST resolve %v", ps),
			do: func() (drv.Resp, error) {
				return wd.w.Post("/api/repo/"+r.root+"/resolve", jbody(map[string]interface{}{"data": []string{"kv"}, "parents": ps, "note": "res"}))
			},
			apply: nil} // resolve may add extra nodes: the model is re-synchronised from the server JSON (invariants still apply)
	}
}

func apiResp(err error) (drv.Resp, error) {
	if err == nil {
		return drv.Resp{Status: 200}, nil
	}
	if ae, ok := err.(*drv.APIError); ok {
		return drv.Resp{Status: 400, Body: []byte(ae.Msg)}, nil
	}
	return drv.Resp{}, err
}

// resync rebuilds the model of one repo from server JSON (used after resolve, whose node set is server-chosen).
func (wd *world) resync(r *mrepo, ri *dvc.RepoInfo) {
	ver := map[uint32]string{}
	for _, n := range ri.DAG.Nodes {
		ver[n.VersionID] = n.UUID
	}
	var vs []int
	byV := map[int]*dvc.Node{}
	for _, n := range ri.DAG.Nodes {
		vs = append(vs, int(n.VersionID))
		byV[int(n.VersionID)] = n
	}
	sort.Ints(vs)
	for _, v := range vs {
		n := byV[v]
		if _, ok := r.nodes[n.UUID]; ok {
			r.nodes[n.UUID].locked = n.Locked
			continue
		}
		var ps []string
		for _, p := range n.Parents {
			ps = append(ps, ver[p])
		}
		mn := &mnode{uuid: n.UUID, parents: ps, branch: n.Branch, locked: n.Locked, repo: r}
		if len(n.UUID) == 32 {
			if rr, err := wd.w.Get("/api/node/" + n.UUID + "/kv/key/whoami"); err == nil {
				mn.who = fmt.Sprintf("%d %s", rr.Status, drv.Trunc(string(rr.Body), 80))
			}
		}
		r.nodes[n.UUID] = mn
		r.order = append(r.order, n.UUID)
		if n.Branch != "" {
			r.branches[n.Branch] = true
		}
	}
}

func sequence(c *drv.Ctx, bin string, seed int64, idx, nreq int) error {
	r := rand.New(rand.NewSource(seed))
	dir, err := c.NewDataDir(fmt.Sprintf("seq%d", idx), drv.ConfOpts{})
	if err != nil {
		return err
	}
	w, err := drv.StartWorker(bin, dir, drv.StartOpts{})
	if err != nil {
		return err
	}
	defer w.Kill()
	wd := &world{c: c, w: w, cl: &dvc.Client{W: w}, r: r, tag: fmt.Sprint(idx)}
	before, _, err := wd.snapshot()
	if err != nil {
		return err
	}
	reported := map[string]bool{}
	prevBad := map[string]bool{}
	rr := rand.New(rand.NewSource(seed ^ 0x5eed))
	for i := 0; i < nreq; i++ {
		if idx%2 == 1 && i > 0 && rr.Intn(8) == 0 {
			// every second sequence is a history with server restarts between requests: the identifier counters and maps
			// are rebuilt from what was persisted, and the requests that follow allocate from them
			if err := w.Exit("clean"); err != nil {
				return fmt.Errorf("stopping the server before step %d: %v", i, err)
			}
			w2, err := drv.StartWorker(bin, dir, drv.StartOpts{})
			if err != nil {
				c.Violation("restart:start-fails", fmt.Sprintf("the server does not start again before step %d: %v; stderr: %s", i, err, drv.Trunc(drv.FatalInStderr(w2.Stderr()), 600)), map[string]interface{}{"seed": seed, "sequence": idx, "step": i, "last_requests": tailS(wd.trace, 25)})
				return nil
			}
			w = w2
			defer w2.Kill()
			wd.w, wd.cl.W = w2, w2
			wd.trace = append(wd.trace, "-- server restarted --")
			c.Count("restarts_inside_sequences", 1)
			after, repos, err := wd.snapshot()
			if err != nil {
				return fmt.Errorf("snapshot after the restart before step %d: %v; stderr: %s", i, err, drv.FatalInStderr(w.Stderr()))
			}
			c.Case(fmt.Sprintf("restart|%d|%d", idx, i), len(after.Graph) >= 3)
			var bad []string
			for _, b := range invariants(repos) {
				if !prevBad[b] {
					bad = append(bad, b)
				}
			}
			if d := diffSnap(before, after); d != "" {
				bad = append(bad, "graph / branch heads / uuid resolution differ from before the restart: "+d)
			}
			for _, b := range bad {
				c.Violation("restart:"+strings.SplitN(b, ":", 2)[0], fmt.Sprintf("after a server restart before step %d: %s", i, b), map[string]interface{}{"seed": seed, "sequence": idx, "step": i, "last_requests": tailS(wd.trace, 25)})
			}
			before = after
		}
		rq := wd.gen()
		if rq == nil {
			continue
		}
		resp, err := rq.do()
		if err == drv.ErrWatchdog {
			// the request did not return within the wall-clock watchdog: not a verdict on this property; the goroutine
			// dump is kept next to the replays, the rest of this sequence is abandoned
			p := c.SaveText(fmt.Sprintf("watchdog-seq%d-step%d.txt", idx, i), fmt.Sprintf("request: %s\ntrace:\n%s\n\n%s", rq.desc, strings.Join(wd.trace, "\n"), w.Stderr()))
			c.Inconclusive(fmt.Sprintf("sequence %d step %d: %q outlived the watchdog (goroutine dump: %s)", idx, i, rq.desc, p))
			return nil
		}
		if err != nil {
			return fmt.Errorf("request %q: %v; stderr: %s", rq.desc, err, drv.FatalInStderr(w.Stderr()))
		}
		ok := resp.OK()
		wd.trace = append(wd.trace, fmt.Sprintf("%s => %d", rq.desc, resp.Status))
		if len(wd.trace) > 400 {
			wd.trace = wd.trace[len(wd.trace)-400:]
		}
		if ok && rq.apply != nil {
			rq.apply(resp)
		}
		after, repos, err := wd.snapshot()
		if err != nil {
			return fmt.Errorf("snapshot after %q: %v; stderr: %s", rq.desc, err, drv.FatalInStderr(w.Stderr()))
		}
		if ok && rq.op == "resolve" {
			for _, mr := range wd.live() {
				if ri := repos[mr.root]; ri != nil {
					wd.resync(mr, ri)
				}
			}
			after, repos, err = wd.snapshot()
			if err != nil {
				return err
			}
		}
		outcome := "accepted"
		if !ok {
			outcome = "rejected"
		}
		c.Case(fmt.Sprintf("%s|%s|%s|%d|%d", rq.op, rq.class, outcome, idx, i), len(after.Graph) >= 3)
		c.Seen("request_classes", rq.op+":"+rq.class+":"+outcome)
		c.Count("requests_"+outcome, 1)
		report := func(kind, what string) {
			key := rq.op + ":" + rq.class + ":" + outcome + ":" + kind
			if reported[key+what] {
				return
			}
			reported[key+what] = true
			tr := wd.trace
			if len(tr) > 25 && os.Getenv("VERIF_FULLTRACE") == "" {
				tr = tr[len(tr)-25:]
			}
			c.Violation(key, fmt.Sprintf("after %s (%s): %s", rq.desc, outcome, what), map[string]interface{}{"seed": seed, "sequence": idx, "step": i, "last_requests": tr, "response": resp.String()})
		}
		// only conditions newly introduced by this request are attributed to it
		nowBad := map[string]bool{}
		newly := func(b string) bool {
			nowBad[b] = true
			return !prevBad[b]
		}
		for _, b := range invariants(repos) {
			if newly(b) {
				report(strings.SplitN(b, ":", 2)[0], b)
			}
		}
		if ok {
			for _, b := range wd.agree(repos) {
				if newly(b) {
					report("model-"+strings.SplitN(b, ":", 2)[0], b)
				}
			}
			for _, b := range wd.headsAgree(after) {
				if newly(b) {
					report(strings.SplitN(b, ":", 2)[0], b)
				}
			}
		} else {
			for b := range prevBad {
				if strings.HasPrefix(b, "node-count") || strings.HasPrefix(b, "missing-node") || strings.HasPrefix(b, "branch:") || strings.HasPrefix(b, "locked:") || strings.HasPrefix(b, "parents:") || strings.HasPrefix(b, "branch-head") || strings.HasPrefix(b, "branch-versions") || strings.HasPrefix(b, "uuid-resolution") || strings.HasPrefix(b, "instance ") || strings.HasPrefix(b, "repo ") || strings.HasPrefix(b, "deleted repo") {
					nowBad[b] = true // model-agreement conditions persist across rejected requests
				}
			}
			if d := diffSnap(before, after); d != "" {
				report("frame", "request was answered with an error but state changed: "+d)
			}
		}
		// a violation corrupts the model; re-synchronise so later, different violations stay visible
		if c.NumViolations() > 0 {
			for _, mr := range wd.live() {
				if ri := repos[mr.root]; ri != nil {
					wd.resync(mr, ri)
				}
			}
		}
		before = after
		prevBad = nowBad
		if i == nreq-1 && idx < 2 {
			tr := wd.trace
			if len(tr) > 12 {
				tr = tr[:12]
			}
			c.Sample(map[string]interface{}{"sequence": idx, "first_requests": tr, "final_nodes": len(after.Graph)})
		}
	}
	c.Count("sequences", 1)
	c.Count("final_nodes", len(before.Graph))
	return nil
}

func run(c *drv.Ctx) error {
	c.Rule("random request sequences over 1-4 repos from the repo-level vocabulary (newrepo, commit, newversion, branch, tag, merge, resolve, note, log, instance create, RPC-mirrored instance delete/rename and repo delete) " +
		"with argument classes fresh / caller-assigned / duplicate / empty / malformed uuids and branch names, committed / open / unknown / repeated / foreign-repo parents; " +
		"a case is one request followed by the invariant check of /api/repos/info, model agreement (accepted) or frame comparison of graph + branch-head resolution + per-uuid resolution (rejected); " +
		"non-trivial when the server holds >=3 nodes; distinct by (op, argument class, outcome, sequence, step)")
	c.Assume("branch-head and uuid resolution are observed through a keyvalue 'whoami' key written at every node when it is created")
	bin, err := c.Build("dvidw", "")
	if err != nil {
		return err
	}
	nseq := c.N(32, 1200)
	nreq := c.N(70, 140)
	seeds := make([]int64, nseq)
	for i := range seeds {
		seeds[i] = c.Rand.Int63()
	}
	ch := make(chan int, nseq)
	for i := 0; i < nseq; i++ {
		ch <- i
	}
	close(ch)
	var wg sync.WaitGroup
	var mu sync.Mutex
	var errs []string
	for k := 0; k < 8; k++ {
		wg.Add(1)
		go func() {
			defer wg.Done()
			for i := range ch {
				if err := sequence(c, bin, seeds[i], i, nreq); err != nil {
					mu.Lock()
					errs = append(errs, fmt.Sprintf("sequence %d: %v", i, err))
					mu.Unlock()
				}
			}
		}()
	}
	wg.Wait()
	if len(errs) > 0 {
		sort.Strings(errs)
		return fmt.Errorf("%s", strings.Join(errs, " | "))
	}
	return nil
}

func tailS(s []string, n int) []string {
	if len(s) > n {
		return s[len(s)-n:]
	}
	return s
}
