// C15 — the serialization envelope round-trips and detects corruption.
// All observation happens in the package-level probe wcmd/probe-c15 (links /repo/dvid); this driver builds and
// runs it in three flavours (plain, race+checkptr, asan for the cgo lz4 code) and folds the reports into the evidence.
package main

import (
	"os"
	"sync"
	"time"

	"verif/harness/internal/drv"
)

func main() { drv.Main("C15", "exploration", run) }

func run(c *drv.Ctx) error {
	c.Rule("three layers, each case = one DeserializeData/Deserialize call on one stored value. " +
		"roundtrip: payloads (empty, nil, single bytes, 2-16 B, sizes around 2^k, random/zero/text/pattern/mixed, nested envelopes, 1-4 MiB; thorough up to 24 MiB) x " +
		"{none, snappy, lz4, gzip -1,1..9} x {no checksum, CRC32} x uncompress {true,false}; distinct by (payload content, format, checksum, uncompress); non-trivial when the payload is non-empty (an envelope exists). " +
		"corrupt: every single-bit flip of values with payload <= 64 B, every byte substitution {00,FF,^b} and every truncation for <= 256 B, sampled for 5 KB-1 MiB (thorough 4 MiB); distinct by (value, corruption); " +
		"non-trivial = the statement's case: CRC32 requested and the altered/removed bytes lie in the payload (offset >= 5, gzip >= 1); other corruptions are run for crash-freedom only. " +
		"hostile: format byte 0..255 x tail length 0..16 x 4 fills (CRC fixed up where the format carries one), lz4 size prefixes / snappy lengths incl. 0, 1, 2^31, 2^32-1, colour and gray JPEG values, " +
		"mutated valid envelopes with recomputed or absent CRC, random blobs; each offered with exact and with spare slice capacity to DeserializeData(true/false) and Deserialize(gob into 3 types); " +
		"distinct by content; non-trivial when the value passes the header+checksum stage so its bytes reach a decoder")
	c.Rule("stored: keyvalue instances for Compression {none,snappy,lz4,gzip} x Checksum {crc32,none}; 4 payloads through each write route (POST key, POST keyvalues); per stored value: envelope checksum kind equals the instance setting, GET returns the written bytes, and (crc32) three single-bit alterations of stored payload bytes are answered with an error or the original bytes")
	c.Assume("corruption oracle is the literal one: error OR bytes identical to the original (gzip header fields that gzip ignores; the envelope drops its own CRC for gzip by design and relies on gzip's CRC32+length)")
	c.Assume("with uncompress=false and gzip, the bytes handed back are judged by what a reference gunzip makes of them (error or original payload)")
	c.Assume("truncation to zero bytes is not judged: the empty byte string is the legal encoding of the empty payload (SerializeData returns it for every format/checksum), no envelope can tell the two apart; it is counted in the evidence")
	c.Assume("corruption of the 5 header bytes (format byte, CRC field) is run for crash-freedom only: the statement speaks of altered payload bytes; the format byte is not covered by the CRC")
	c.Assume("values that pass the checksum stage and declare > 64 MiB of output (lz4 prefix, snappy varint, JPEG SOF) are offered only in a dedicated class of 9 inputs (2^31, 2^31+1, 2^32-1): each costs seconds and up to 4 GiB; a resident-set guard of 24 GiB (and RLIMIT_AS 40 GiB in the plain build) turns runaway allocation into a process-fatal report")
	c.Assume("reference decoders: own LZ4 block decoder, own snappy decoder, bitwise CRC-32 (stdlib table version above 1 MiB), stdlib compress/gzip")

	wd := 6 * time.Minute
	if !c.Quick() {
		wd = 28 * time.Minute
	}
	flavours := []string{"", "race", "asan"}
	// pre-build sequentially (shared go build cache, and the VERIF_REPO modfile is written by Build)
	for _, f := range flavours {
		if _, err := c.Build("probe-c15", f); err != nil {
			return err
		}
	}
	errs := make([]error, len(flavours))
	if os.Getenv("VERIF_REPO") != "" {
		for i, f := range flavours {
			errs[i] = c.RunProbe("probe-c15", f, nil, wd, "deserialize-fatal")
		}
	} else {
		var wg sync.WaitGroup
		for i, f := range flavours {
			wg.Add(1)
			go func(i int, f string) {
				defer wg.Done()
				errs[i] = c.RunProbe("probe-c15", f, nil, wd, "deserialize-fatal")
			}(i, f)
		}
		wg.Wait()
	}
	for _, e := range errs {
		if e != nil {
			return e
		}
	}
	// the envelope where it is used: what keyvalue instances store for every write route
	bin, err := c.Build("dvidw", "")
	if err != nil {
		return err
	}
	return stored(c, bin)
}
