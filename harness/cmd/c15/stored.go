package main

import (
	"bytes"
	"encoding/hex"
	"fmt"
	"math/rand"

	"verif/harness/internal/drv"
	"verif/harness/internal/dvc"
	"verif/harness/internal/kvwire"
)

// stored: the envelope where it is used.  keyvalue instances created with every Compression x Checksum setting; values
// written through every write route of the type (POST key, POST keyvalues); then, per key,
//   - the value physically stored must carry the checksum kind the instance was created with (first byte of the
//     envelope: compression<<5 | checksum<<3) - otherwise "with checksums enabled" silently does not hold for that route;
//   - GET must return the bytes written (round trip through the store);
//   - with Checksum=crc32: the stored value with one payload byte altered (written back verbatim) must be answered with
//     an error or with the original bytes, never with other data.
func stored(c *drv.Ctx, bin string) error {
	dir, err := c.NewDataDir("stored", drv.ConfOpts{})
	if err != nil {
		return err
	}
	w, err := drv.StartWorker(bin, dir, drv.StartOpts{})
	if err != nil {
		return err
	}
	defer w.Kill()
	cl := &dvc.Client{W: w}
	root, err := cl.NewRepo("c15-stored")
	if err != nil {
		return err
	}
	r := rand.New(rand.NewSource(c.Seed))
	comps := []string{"none", "snappy", "lz4", "gzip"}
	cks := []string{"crc32", "none"}
	cksCode := map[string]byte{"none": 0, "crc32": 1}
	payloads := func() [][]byte {
		ps := [][]byte{[]byte("x"), []byte("hello world"), bytes.Repeat([]byte("ab"), 300)}
		big := make([]byte, 2000+r.Intn(3000))
		r.Read(big)
		return append(ps, big)
	}
	for _, comp := range comps {
		for _, ck := range cks {
			name := "kv-" + comp + "-" + ck
			if err := cl.NewInstance(root, "keyvalue", name, map[string]string{"Compression": comp, "Checksum": ck}); err != nil {
				return err
			}
			base := "/api/node/" + root + "/" + name + "/"
			written := map[string][]byte{} // key -> payload
			route := map[string]string{}
			for i, p := range payloads() {
				k := fmt.Sprintf("single-%d", i)
				rr, err := w.Post(base+"key/"+k, p)
				if err != nil {
					return err
				}
				if !rr.OK() {
					return fmt.Errorf("POST key on %s: %s", name, rr)
				}
				written[k], route[k] = p, "POST key"
			}
			var kvs []kvwire.KV
			for i, p := range payloads() {
				k := fmt.Sprintf("batch-%d", i)
				kvs = append(kvs, kvwire.KV{K: k, V: p})
				written[k], route[k] = p, "POST keyvalues"
			}
			rr, err := w.Post(base+"keyvalues", kvwire.EncodeKeyValues(kvs))
			if err != nil {
				return err
			}
			if !rr.OK() {
				return fmt.Errorf("POST keyvalues on %s: %s", name, rr)
			}
			for k, p := range written {
				var out struct {
					Found bool   `json:"found"`
					Hex   string `json:"hex"`
				}
				if err := w.API("c15.rawget", map[string]interface{}{"uuid": root, "name": name, "key": k}, &out); err != nil {
					return err
				}
				st, _ := hex.DecodeString(out.Hex)
				c.Case(fmt.Sprintf("stored|%s|%s|%s|%d", comp, ck, route[k], len(p)), ck == "crc32")
				c.Seen("stored_routes", route[k])
				c.Seen("stored_settings", comp+"/"+ck)
				c.Count("stored_values_inspected", 1)
				wit := map[string]interface{}{"instance": name, "route": route[k], "key": k, "payload_len": len(p), "stored_head_hex": hex.EncodeToString(st[:min(len(st), 16)])}
				if !out.Found || len(st) == 0 {
					c.Violation("stored:missing:"+route[k], fmt.Sprintf("%s on %s acknowledged key %s but nothing is stored under it", route[k], name, k), wit)
					continue
				}
				// (gzip values carry no envelope checksum by design: gzip's own CRC-32 and length trailer stand in for it)
				if got := (st[0] >> 3) & 3; got != cksCode[ck] && comp != "gzip" {
					c.Violation("stored:checksum-setting-ignored:"+route[k], fmt.Sprintf("instance %s was created with Checksum=%s but the value stored by %s carries checksum kind %d in its envelope (format byte %#02x): altered payload bytes of such a value cannot be reported", name, ck, route[k], got, st[0]), wit)
				}
				g, err := w.Get(base + "key/" + k)
				if err != nil {
					return err
				}
				if g.Status != 200 || !bytes.Equal(g.Body, p) {
					c.Violation("stored:roundtrip:"+route[k], fmt.Sprintf("value written by %s to %s reads back as %s", route[k], name, g), wit)
					continue
				}
				if ck != "crc32" || len(st) <= 6 {
					continue
				}
				// one payload byte altered (offset >= 5: behind format byte and CRC field; gzip: behind the 10-byte gzip header too)
				lo := 5
				if comp == "gzip" {
					lo = 5 + 10
					if len(st) <= lo+9 {
						continue
					}
				}
				for trial := 0; trial < 3; trial++ {
					alt := append([]byte{}, st...)
					pos := lo + r.Intn(len(alt)-lo)
					if comp == "gzip" {
						pos = lo + r.Intn(len(alt)-lo-8) // not the trailer: keep it the "payload bytes" case
					}
					alt[pos] ^= byte(1 << uint(r.Intn(8)))
					if err := w.API("c15.rawput", map[string]interface{}{"uuid": root, "name": name, "key": k, "hex": hex.EncodeToString(alt)}, nil); err != nil {
						return err
					}
					g, err := w.Get(base + "key/" + k)
					if err != nil {
						return err
					}
					c.Count("stored_corruptions_read_back", 1)
					if g.Status == 200 && !bytes.Equal(g.Body, p) {
						wit["altered_offset"] = pos
						c.Violation("stored:corruption-undetected:"+comp+":"+route[k], fmt.Sprintf("instance %s (Checksum=crc32): the value stored by %s with the byte at offset %d altered is returned as data (200, %d bytes) instead of an error", name, route[k], pos, len(g.Body)), wit)
						break
					}
				}
				if err := w.API("c15.rawput", map[string]interface{}{"uuid": root, "name": name, "key": k, "hex": out.Hex}, nil); err != nil {
					return err
				}
			}
		}
	}
	return nil
}

func min(a, b int) int {
	if a < b {
		return a
	}
	return b
}
