// C19 — copying a data instance preserves its versioned content.
//
// Oracle (differential, over the whole DAG, every read endpoint of the type):
//
//	full copy:        for every version W:  reads(dst, W) == reads(src, W)
//	flattened at V:   for every W that is V or a descendant of V:  reads(dst, W) == reads(src, V)
//	                  for every other W:                           reads(dst, W) == reads(never-written instance, W)
//	source unchanged: reads(src, W) before all copies == after all copies, for every W.
//
// datastore.CopyInstance is called synchronously in-process with the Settings() of the same command line
// the "repo <uuid> copy <src> <dst> <settings>" RPC parses (api c19.copy).
package main

import (
	"bytes"
	"crypto/sha1"
	"encoding/binary"
	"encoding/hex"
	"encoding/json"
	"fmt"
	"math/rand"
	"sort"
	"strings"
	"sync"

	"verif/harness/internal/drv"
	"verif/harness/internal/dvc"
	"verif/harness/internal/kvwire"
)

func main() { drv.Main("C19", "exploration", run) }

// ---------- read endpoints per data type ----------

type endpoint struct {
	Name   string
	Method string
	Path   string // appended to /api/node/<uuid>/<instance>/
	Body   []byte
	Canon  string // "", "json", "tar", "json-object", "elements", "imgblocks": how the body is normalised before comparing
	Meta   bool   // answer of a never-written instance depends on instance properties kept in the metadata store
}

var kvKeys = []string{"0", "a", "a0", "aa", "b", "k1", "k10", "z"}

const (
	imgBS     = 16 // uint8blk block size
	imgNX     = 3  // blocks along x, y, z
	imgNY     = 2
	imgNZ     = 2
	roiBS     = 8
	annExtent = 128 // two default (64) annotation blocks per axis
)

var annPoints = [][3]int{{3, 4, 5}, {10, 60, 20}, {63, 63, 63}, {64, 0, 0}, {70, 80, 90}, {100, 20, 120}, {127, 127, 127}, {5, 100, 30}, {64, 64, 64}, {20, 20, 100}}
var annTags = []string{"t1", "t2", "t3"}

func endpointsFor(typ string) []endpoint {
	var eps []endpoint
	get := func(name, path string) { eps = append(eps, endpoint{Name: name, Method: "GET", Path: path}) }
	switch typ {
	case "keyvalue":
		get("keys", "keys")
		get("keyrange", "keyrange/-/~")
		get("keyrangevalues-json", "keyrangevalues/-/~?json=true")
		eps[len(eps)-1].Canon = "json-object"
		get("keyrangevalues-tar", "keyrangevalues/-/~?tar=true")
		eps[len(eps)-1].Canon = "tar"
		get("keyrangevalues-protobuf", "keyrangevalues/0/k1")
		for _, k := range kvKeys {
			get("key/"+k, "key/"+k)
		}
		b, _ := json.Marshal(append(append([]string{}, kvKeys...), "nokey"))
		eps = append(eps, endpoint{Name: "keyvalues-json", Method: "GET", Path: "keyvalues?json=true", Body: b})
	case "uint8blk":
		sx, sy, sz := imgNX*imgBS, imgNY*imgBS, imgNZ*imgBS
		get("raw-3d", fmt.Sprintf("raw/0_1_2/%d_%d_%d/0_0_0", sx, sy, sz))
		get("raw-3d-unaligned", fmt.Sprintf("raw/0_1_2/%d_%d_%d/3_5_7", sx-8, sy-8, sz-8))
		get("raw-xy-png", fmt.Sprintf("raw/0_1/%d_%d/0_0_5", sx, sy))
		get("raw-xy-png-2", fmt.Sprintf("raw/0_1/%d_%d/0_0_%d", sx, sy, imgBS+3))
		get("raw-xz-png", fmt.Sprintf("raw/0_2/%d_%d/0_%d_0", sx, sz, imgBS+1))
		get("raw-yz-png", fmt.Sprintf("raw/1_2/%d_%d/%d_0_0", sy, sz, imgBS+2))
		get("isotropic-xy-png", fmt.Sprintf("isotropic/0_1/%d_%d/0_0_9", sx, sy))
		var coords []string
		for z := 0; z < imgNZ; z++ {
			for y := 0; y < imgNY; y++ {
				for x := 0; x < imgNX; x++ {
					coords = append(coords, fmt.Sprintf("%d,%d,%d", x, y, z))
				}
			}
		}
		get("specificblocks", "specificblocks?compression=uncompressed&blocks="+strings.Join(coords, ","))
		eps[len(eps)-1].Canon = "imgblocks" // blocks are fetched concurrently: stream order is not part of the format
		get("subvolblocks", fmt.Sprintf("subvolblocks/%d_%d_%d/0_0_0?compression=uncompressed", sx, sy, sz))
		eps[len(eps)-1].Canon = "imgblocks"
		for z := 0; z < imgNZ; z++ {
			for y := 0; y < imgNY; y++ {
				get(fmt.Sprintf("blocks-0_%d_%d", y, z), fmt.Sprintf("blocks/0_%d_%d/%d", y, z, imgNX))
			}
		}
	case "annotation":
		getj := func(name, path string) {
			get(name, path)
			eps[len(eps)-1].Canon = "json"
		}
		getj("elements-all", fmt.Sprintf("elements/%d_%d_%d/0_0_0", annExtent, annExtent, annExtent))
		getj("elements-part", "elements/60_70_64/5_0_0")
		getj("all-elements", "all-elements")
		getj("blocks", fmt.Sprintf("blocks/%d_%d_%d/0_0_0", annExtent, annExtent, annExtent))
		getj("blocks-part", "blocks/10_10_10/64_64_64")
		for _, t := range annTags {
			// with relationships=true the elements are regrouped through a Go map: array order is not stable
			get("tag-"+t, "tag/"+t+"?relationships=true")
			eps[len(eps)-1].Canon = "elements"
		}
		get("tag-t1-norel", "tag/t1")
		eps[len(eps)-1].Canon = "elements"
		getj("scan", "scan")
		getj("scan-bycoord-keysonly", "scan?byCoord=true&keysOnly=true")
	case "roi":
		get("roi", "roi")
		eps[len(eps)-1].Canon = "json"
		var pts [][3]int
		for z := 0; z < 3; z++ {
			for y := 0; y < 3; y++ {
				for x := 0; x < 5; x++ {
					pts = append(pts, [3]int{x*roiBS + 3, y*roiBS + 1, z*roiBS + 7})
				}
			}
		}
		b, _ := json.Marshal(pts)
		eps = append(eps, endpoint{Name: "ptquery", Method: "POST", Path: "ptquery", Body: b, Canon: "json"})
		get("mask", fmt.Sprintf("mask/0_1_2/%d_%d_%d/0_0_0", 5*roiBS, 3*roiBS, 3*roiBS))
		get("mask-unaligned", fmt.Sprintf("mask/0_1_2/%d_%d_%d/3_2_1", 4*roiBS, 2*roiBS, 2*roiBS))
		get("partition", "partition?batchsize=2")
		eps[len(eps)-1].Canon = "json"
		eps[len(eps)-1].Meta = true // reports the MinZ/MaxZ instance properties even when no span is visible
		get("partition-optimized", "partition?batchsize=2&optimized=true")
		eps[len(eps)-1].Canon = "json"
		eps[len(eps)-1].Meta = true
	}
	return eps
}

// digest of one response
type digest struct {
	Status int
	Len    int
	Sum    string
}

func (d digest) ok() bool { return d.Status >= 200 && d.Status < 300 }
func (d digest) String() string {
	return fmt.Sprintf("%d len=%d sha1=%s", d.Status, d.Len, d.Sum)
}

// same: equal status, and equal bodies for successful responses (error texts name the instance).
func same(a, b digest) bool {
	if a.Status != b.Status {
		return false
	}
	if !a.ok() {
		return true
	}
	return a.Len == b.Len && a.Sum == b.Sum
}

type snapshot map[string]digest // endpoint name -> digest

// streamError is the status recorded when a 200 response carries an error text after (or instead of) its payload:
// "malformed output will inform the requester of an error" (keyrangevalues help text).
const streamError = 599

// canon normalises a successful body; ok=false means the payload is malformed / carries a trailing error.
func canon(kind string, b []byte) (out []byte, ok bool) {
	switch kind {
	case "tar":
		kvs, trailing, err := kvwire.DecodeTar(b)
		if err != nil || len(trailing) > 0 {
			return nil, false
		}
		var buf bytes.Buffer
		for _, kv := range kvs {
			fmt.Fprintf(&buf, "%d:%s=%d:", len(kv.K), kv.K, len(kv.V))
			buf.Write(kv.V)
		}
		return buf.Bytes(), true
	case "json-object":
		_, trailing, err := kvwire.DecodeJSONObject(b)
		if err != nil || len(trailing) > 0 {
			return nil, false
		}
		return b, true
	case "json":
		// streamed JSON: an error after the first byte can only show as a malformed document
		if !json.Valid(b) {
			return nil, false
		}
		return b, true
	case "elements":
		var els []map[string]interface{}
		if err := json.Unmarshal(b, &els); err != nil {
			return nil, false
		}
		key := func(e map[string]interface{}) string {
			p, _ := json.Marshal(e["Pos"])
			var xyz [3]float64
			json.Unmarshal(p, &xyz)
			return fmt.Sprintf("%012.0f/%012.0f/%012.0f", xyz[2], xyz[1], xyz[0])
		}
		sort.SliceStable(els, func(i, j int) bool { return key(els[i]) < key(els[j]) })
		out, _ := json.Marshal(els)
		return out, true
	case "imgblocks":
		type blk struct {
			c [3]int32
			d []byte
		}
		var blks []blk
		for p := 0; p < len(b); {
			if len(b)-p < 16 {
				return nil, false
			}
			var k blk
			for i := 0; i < 3; i++ {
				k.c[i] = int32(binary.LittleEndian.Uint32(b[p+4*i:]))
			}
			n := int(int32(binary.LittleEndian.Uint32(b[p+12:])))
			p += 16
			if n < 0 || len(b)-p < n {
				return nil, false
			}
			k.d = b[p : p+n]
			p += n
			blks = append(blks, k)
		}
		sort.SliceStable(blks, func(i, j int) bool {
			a, c := blks[i].c, blks[j].c
			if a[2] != c[2] {
				return a[2] < c[2]
			}
			if a[1] != c[1] {
				return a[1] < c[1]
			}
			return a[0] < c[0]
		})
		var buf bytes.Buffer
		for _, k := range blks {
			fmt.Fprintf(&buf, "%d,%d,%d:%d:", k.c[0], k.c[1], k.c[2], len(k.d))
			buf.Write(k.d)
		}
		return buf.Bytes(), true
	}
	return b, true
}

func digestOf(e endpoint, r drv.Resp) digest {
	body := r.Body
	status := r.Status
	if r.OK() && e.Canon != "" {
		cb, ok := canon(e.Canon, body)
		if !ok {
			status = streamError
		} else {
			body = cb
		}
	}
	sum := sha1.Sum(body)
	return digest{status, len(body), hex.EncodeToString(sum[:6])}
}

// ---------- one history ----------

type src struct {
	Type    string
	Name    string
	Cfg     map[string]string // creation config
	CopyCfg []string          // settings passed to the copy besides transmit
	Empty   string            // never-written instance of the same type/config
	Eps     []endpoint
	writes  int
}

type hist struct {
	c      *drv.Ctx
	w      *drv.Worker
	r      *rand.Rand
	tag    string
	h      *dvc.Hist
	srcs   []*src
	seq    int
	trace  []string
	seen   int
	warm   map[string]bool
	second bool // copy targets are mapped onto a second Badger store
	// noCfg: copies are requested without repeating the source's settings (the copy takes its properties from the source)
	noCfg bool
	// rechecks re-read every copy made and compare it with the source again (run after a restart of the server)
	rechecks []func() error
	// tombThenData[v] = number of keys deleted exactly at v that are written again under a higher version id (latest source examined)
	tombThenData map[string]int
}

func (x *hist) pullOps() {
	for ; x.seen < len(x.h.Ops); x.seen++ {
		x.trace = append(x.trace, x.h.Ops[x.seen])
	}
}

func (x *hist) log(f string, a ...interface{}) {
	x.pullOps()
	x.trace = append(x.trace, fmt.Sprintf(f, a...))
}

var reported sync.Map
var notes sync.Map // observations that are not C19 verdicts (failing / panicking reads of the source), dumped into the evidence

func (x *hist) viol(key, what string, extra map[string]interface{}) {
	x.pullOps()
	if _, dup := reported.LoadOrStore(key, true); dup {
		x.c.Count("repeats_of_reported_violation_keys", 1)
		return
	}
	w := map[string]interface{}{"history": x.tag, "dag": x.h.D.Shape(), "trace": append([]string{}, x.trace...)}
	for k, v := range extra {
		w[k] = v
	}
	x.c.Violation(key, what+"; history: "+drv.Trunc(strings.Join(x.trace, "; "), 1500), w)
}

func (x *hist) par(reqs []drv.Req) ([]drv.Resp, error) {
	var out []drv.Resp
	for i := 0; i < len(reqs); i += 64 {
		j := i + 64
		if j > len(reqs) {
			j = len(reqs)
		}
		rs, err := x.w.Par(reqs[i:j])
		if err != nil {
			return nil, err
		}
		if len(rs) != j-i {
			return nil, fmt.Errorf("par returned %d responses for %d requests", len(rs), j-i)
		}
		out = append(out, rs...)
	}
	return out, nil
}

// snapAll reads every endpoint of inst at every version: version -> snapshot.
func (x *hist) snapAll(inst string, eps []endpoint, versions []string) (map[string]snapshot, error) {
	var reqs []drv.Req
	for _, v := range versions {
		for _, e := range eps {
			reqs = append(reqs, drv.Req{Method: e.Method, URL: "/api/node/" + v + "/" + inst + "/" + e.Path, Body: e.Body})
		}
	}
	// The first requests an instance ever serves are issued one at a time: annotation's lazily cached block size
	// (Data.blockSize publishes the cache pointer before filling it in) makes concurrent FIRST reads of a fresh
	// instance panic with a divide by zero — a concurrency defect outside this property (reported separately).
	var rs []drv.Resp
	if !x.warm[inst] {
		x.warm[inst] = true
		n := len(eps)
		if n > len(reqs) {
			n = len(reqs)
		}
		for _, rq := range reqs[:n] {
			r, err := x.w.HTTP(rq.Method, rq.URL, rq.Body)
			if err != nil {
				return nil, err
			}
			rs = append(rs, r)
		}
		reqs2 := reqs[n:]
		more, err := x.par(reqs2)
		if err != nil {
			return nil, err
		}
		rs = append(rs, more...)
	} else {
		var err error
		if rs, err = x.par(reqs); err != nil {
			return nil, err
		}
	}
	out := map[string]snapshot{}
	i := 0
	for _, v := range versions {
		s := snapshot{}
		for _, e := range eps {
			s[e.Name] = digestOf(e, rs[i])
			if rs[i].Panicked() {
				x.c.Count("reads_answered_with_recovered_panic", 1)
				x.c.Seen("panicking_reads", pfx(inst)+":"+e.Name)
				msg := strings.Split(string(rs[i].Body), "\n")
				if len(msg) > 1 {
					msg = msg[1:2]
				}
				notes.Store("panicking read "+pfx(inst)+":"+e.Name+": "+drv.Trunc(msg[0], 160), true)
			} else if !rs[i].OK() && rs[i].Status != 404 {
				x.c.Seen("failing_reads", fmt.Sprintf("%s:%s:%d", pfx(inst), e.Name, rs[i].Status))
				msg := strings.ReplaceAll(string(rs[i].Body), inst, pfx(inst))
				if k := strings.Index(msg, " for key "); k > 0 {
					msg = msg[:k] + " for key <k>"
				}
				notes.Store(fmt.Sprintf("failing read %s:%s: %d %s", pfx(inst), e.Name, rs[i].Status, drv.Trunc(msg, 48)), true)
			}
			i++
		}
		out[v] = s
	}
	x.c.Count("read_requests", len(reqs))
	return out, nil
}

// bodies refetches the first differing endpoint on both instances so that the witness shows the actual answers.
func (x *hist) bodies(eps []endpoint, bad []string, instA, vA, instB, vB string) map[string]string {
	out := map[string]string{}
	if len(bad) == 0 {
		return out
	}
	name := strings.SplitN(bad[0], ": ", 2)[0]
	for _, e := range eps {
		if e.Name != name {
			continue
		}
		for _, t := range [][2]string{{instA, vA}, {instB, vB}} {
			r, err := x.w.HTTP(e.Method, "/api/node/"+t[1]+"/"+t[0]+"/"+e.Path, e.Body)
			if err == nil {
				out[t[0]+"@"+x.h.Short(t[1])+" "+e.Name] = fmt.Sprintf("%d %q", r.Status, drv.Trunc(string(r.Body), 500))
			}
		}
	}
	return out
}

// compare returns the endpoints on which got differs from want.
func compare(eps []endpoint, got, want snapshot, skipMeta bool) []string {
	var bad []string
	for _, e := range eps {
		if skipMeta && e.Meta {
			continue
		}
		if !same(got[e.Name], want[e.Name]) {
			bad = append(bad, fmt.Sprintf("%s: got %s, want %s", e.Name, got[e.Name], want[e.Name]))
		}
	}
	return bad
}

// ---------- write operations ----------

func (x *hist) write(s *src, v string) error {
	base := "/api/node/" + v + "/" + s.Name + "/"
	x.seq++
	var rr drv.Resp
	var err error
	what := ""
	switch s.Type {
	case "keyvalue":
		k := kvKeys[x.r.Intn(len(kvKeys))]
		if x.r.Intn(100) < 70 {
			what = "put " + k
			rr, err = x.w.Post(base+"key/"+k, []byte(fmt.Sprintf(`{"v":"%s#%d@%s"}`, k, x.seq, x.h.Short(v))))
		} else {
			what = "del " + k
			rr, err = x.w.Delete(base + "key/" + k)
		}
	case "uint8blk":
		bx, by, bz := x.r.Intn(imgNX), x.r.Intn(imgNY), x.r.Intn(imgNZ)
		nx := 1
		if bx+1 < imgNX && x.r.Intn(4) == 0 {
			nx = 2
		}
		buf := make([]byte, nx*imgBS*imgBS*imgBS)
		rr2 := rand.New(rand.NewSource(int64(x.seq)*7919 + 13))
		if x.r.Intn(6) == 0 {
			// an all-background block written on top of earlier content
		} else {
			for i := range buf {
				buf[i] = byte(1 + rr2.Intn(255))
			}
		}
		what = fmt.Sprintf("blocks %d_%d_%d x%d", bx, by, bz, nx)
		rr, err = x.w.Post(fmt.Sprintf("%sraw/0_1_2/%d_%d_%d/%d_%d_%d", base, nx*imgBS, imgBS, imgBS, bx*imgBS, by*imgBS, bz*imgBS), buf)
	case "annotation":
		p := annPoints[x.r.Intn(len(annPoints))]
		switch y := x.r.Intn(100); {
		case y < 65:
			var tags []string
			for _, t := range annTags {
				if x.r.Intn(3) == 0 {
					tags = append(tags, t)
				}
			}
			el := map[string]interface{}{"Pos": p, "Kind": []string{"PostSyn", "PreSyn", "Note", "Gap"}[x.r.Intn(4)], "Prop": map[string]string{"s": fmt.Sprint(x.seq)}}
			if len(tags) > 0 {
				el["Tags"] = tags
			}
			if x.r.Intn(3) == 0 {
				q := annPoints[x.r.Intn(len(annPoints))]
				if q != p {
					el["Rels"] = []map[string]interface{}{{"Rel": "PreSynTo", "To": q}}
				}
			}
			b, _ := json.Marshal([]interface{}{el})
			what = fmt.Sprintf("element %v tags %v", p, tags)
			rr, err = x.w.Post(base+"elements", b)
		case y < 88:
			what = fmt.Sprintf("delete element %v", p)
			rr, err = x.w.Delete(fmt.Sprintf("%selement/%d_%d_%d", base, p[0], p[1], p[2]))
		default:
			q := annPoints[x.r.Intn(len(annPoints))]
			what = fmt.Sprintf("move %v -> %v", p, q)
			rr, err = x.w.Post(fmt.Sprintf("%smove/%d_%d_%d/%d_%d_%d", base, p[0], p[1], p[2], q[0], q[1], q[2]), nil)
		}
	case "roi":
		if x.r.Intn(100) < 85 {
			var spans [][4]int
			used := map[[2]int]bool{}
			n := 1 + x.r.Intn(4)
			for len(spans) < n {
				z, y := x.r.Intn(3), x.r.Intn(3)
				if used[[2]int{z, y}] {
					continue
				}
				used[[2]int{z, y}] = true
				x0 := x.r.Intn(5)
				x1 := x0 + x.r.Intn(5-x0)
				spans = append(spans, [4]int{z, y, x0, x1})
			}
			sort.Slice(spans, func(i, j int) bool {
				if spans[i][0] != spans[j][0] {
					return spans[i][0] < spans[j][0]
				}
				return spans[i][1] < spans[j][1]
			})
			b, _ := json.Marshal(spans)
			what = "roi " + string(b)
			rr, err = x.w.Post(base+"roi", b)
		} else {
			what = "delete roi"
			rr, err = x.w.Delete(base + "roi")
		}
	}
	if err != nil {
		return err
	}
	if rr.OK() {
		s.writes++
		x.log("%s: %s @%s", s.Name, what, x.h.Short(v))
		x.c.Count("acknowledged_writes_"+s.Type, 1)
	} else {
		// the differential oracle does not need the write to succeed; refusals are only counted
		x.c.Count("refused_writes_"+s.Type, 1)
		x.c.Seen("refused_write_reasons", s.Type+": "+drv.Trunc(strings.ReplaceAll(string(rr.Body), x.h.Root, "<root>"), 60))
	}
	return nil
}

// ---------- copies ----------

func (x *hist) copyInstance(uuid, source, target string, settings []string) (string, error) {
	var out struct {
		Err string `json:"err"`
	}
	err := x.w.API("c19.copy", map[string]interface{}{"uuid": uuid, "source": source, "target": target, "settings": settings}, &out)
	if err != nil {
		if ae, ok := err.(*drv.APIError); ok {
			return "api: " + ae.Msg, nil
		}
		return "", err
	}
	return out.Err, nil
}

// conflictedVersions lists the versions at which some stored key of the instance has >= 2 unsuperseded live
// entries, by the versioned-map model applied to the raw entries the store holds.
func (x *hist) conflictedVersions(inst string) (map[string]bool, error) {
	var ents []struct {
		TK   string `json:"tk"`
		V    uint32 `json:"v"`
		Tomb bool   `json:"tomb"`
	}
	if err := x.w.API("c19.rawentries", map[string]interface{}{"uuid": x.h.Root, "name": inst}, &ents); err != nil {
		return nil, err
	}
	ri, err := (&dvc.Client{W: x.w}).Repo(x.h.Root)
	if err != nil {
		return nil, err
	}
	vid := map[uint32]string{}
	for u, n := range ri.DAG.Nodes {
		vid[n.VersionID] = u
	}
	m := dvc.NewVMap(x.h.D)
	for _, e := range ents {
		u, ok := vid[e.V]
		if !ok || x.h.D.Nodes[u] == nil {
			continue
		}
		if e.Tomb {
			m.Del(e.TK, u)
		} else {
			m.Put(e.TK, u, fmt.Sprint(e.V))
		}
	}
	x.c.Count("raw_entries_listed", len(ents))
	// versions that store a tombstone for a key that also has a value stored under a higher version id: where a full
	// copy is requested must not matter, and these are the versions at which "the requested version" and "the version of
	// the pair being transmitted" differ in the most ways
	maxData := map[string]uint32{}
	for _, e := range ents {
		if !e.Tomb && e.V > maxData[e.TK] {
			maxData[e.TK] = e.V
		}
	}
	x.tombThenData = map[string]int{}
	for _, e := range ents {
		if u, ok := vid[e.V]; ok && e.Tomb && maxData[e.TK] > e.V {
			x.tombThenData[u]++
		}
	}
	out := map[string]bool{}
	for _, v := range x.h.D.Order {
		for _, d := range m.Data() {
			if len(m.Ent[d]) >= 2 && m.Read(d, v).Kind == dvc.Conflict {
				out[v] = true
				break
			}
		}
	}
	return out, nil
}

// noteStore counts copies that landed on the second store (only when this history expects them there).
func (x *hist) noteStore(inst string) {
	if !x.second {
		return
	}
	var out struct {
		Store string `json:"store"`
	}
	if err := x.w.API("c19.storeof", map[string]interface{}{"uuid": x.h.Root, "name": inst}, &out); err != nil {
		return
	}
	if strings.HasSuffix(out.Store, "/db2") {
		x.c.Count("copies_onto_second_store", 1)
	} else {
		x.viol("c19:harness:second-store-mapping-ignored", fmt.Sprintf("copy target %q was expected on the second store but is assigned to %s", inst, out.Store), nil)
	}
}

func descendants(d *dvc.DAG, v string) map[string]bool {
	out := map[string]bool{}
	for _, u := range d.Order {
		if d.Anc(u)[v] {
			out[u] = true
		}
	}
	return out
}

func (x *hist) checkSource(s *src, flattenAt []string) error {
	vs := x.h.D.Order
	short := x.h.Short
	before, err := x.snapAll(s.Name, s.Eps, vs)
	if err != nil {
		return err
	}
	empty, err := x.snapAll(s.Empty, s.Eps, vs)
	if err != nil {
		return err
	}
	for _, v := range vs {
		for n, d := range empty[v] {
			if !d.ok() && d.Status != 404 {
				x.viol("c19:reference:"+s.Type+":empty-instance-read-fails", fmt.Sprintf("read %s of the never-written %s instance fails at %s: %s", n, s.Type, short(v), d), nil)
			}
		}
	}
	conflicted, err := x.conflictedVersions(s.Name)
	if err != nil {
		return err
	}
	caseKey := drv.Hash(x.trace...) + "|" + s.Name
	nontrivial := func(v string) bool {
		// the source's content at v differs from a never-written instance
		return len(compare(s.Eps, before[v], empty[v], true)) > 0
	}

	copyCfg := s.CopyCfg
	if x.noCfg {
		copyCfg = nil
	}
	// --- full copies: requested at the root (target name <src>-full, the one the second-store histories map) and at up
	// to two other versions (a full copy transmits every version whatever uuid the command names; what it names must not matter)
	fullAt := []string{x.h.Root}
	if !x.second {
		perm := x.r.Perm(len(vs))
		sort.SliceStable(perm, func(a, b int) bool { return x.tombThenData[vs[perm[a]]] > x.tombThenData[vs[perm[b]]] })
		for _, i := range perm {
			if len(fullAt) >= 3 {
				break
			}
			if vs[i] != x.h.Root {
				fullAt = append(fullAt, vs[i])
				if x.tombThenData[vs[i]] > 0 {
					x.c.Count("full_copies_requested_at_version_with_own_deletions_rewritten_later", 1)
				}
			}
		}
	}
	for fi, at := range fullAt {
		dst := s.Name + "-full"
		if fi > 0 {
			dst = s.Name + "-full-at-" + short(at)
		}
		cerr, err := x.copyInstance(at, s.Name, dst, copyCfg)
		if err != nil {
			return err
		}
		x.c.Count("full_copies_"+s.Type, 1)
		if fi > 0 {
			x.c.Count("full_copies_requested_at_non_root_version", 1)
		}
		if strings.HasPrefix(cerr, "PANIC") {
			x.viol("c19:"+s.Type+":CopyInstance-panics", fmt.Sprintf("full copy of %s instance %q: %s", s.Type, s.Name, drv.Trunc(cerr, 1200)), map[string]interface{}{"type": s.Type, "stack": cerr})
		} else if cerr != "" {
			x.viol("c19:full:"+s.Type+":copy-error", fmt.Sprintf("full copy of %s instance %q failed: %s", s.Type, s.Name, cerr), map[string]interface{}{"type": s.Type})
		} else {
			x.c.Count("full_copies_completed_"+s.Type, 1)
			x.noteStore(dst)
			got, err := x.snapAll(dst, s.Eps, vs)
			if err != nil {
				return err
			}
			for _, v := range vs {
				x.c.Case(caseKey+"|full@"+short(at)+"|"+short(v), nontrivial(v))
				if bad := compare(s.Eps, got[v], before[v], false); len(bad) > 0 {
					x.viol("c19:full:"+s.Type+":differs", fmt.Sprintf("full copy of %s instance %q requested at %s: reads of the copy at %s differ from the source: %s", s.Type, s.Name, short(at), short(v), strings.Join(bad, " | ")),
						map[string]interface{}{"type": s.Type, "requested_at": short(at), "version": short(v), "differences": bad, "bodies": x.bodies(s.Eps, bad, dst, v, s.Name, v)})
				}
			}
			dstName, atName := dst, short(at)
			x.rechecks = append(x.rechecks, func() error {
				again, err := x.snapAll(dstName, s.Eps, vs)
				if err != nil {
					return err
				}
				for _, v := range vs {
					x.c.Case(caseKey+"|full@"+atName+"|after-restart|"+short(v), nontrivial(v))
					if bad := compare(s.Eps, again[v], before[v], false); len(bad) > 0 {
						x.viol("c19:full:"+s.Type+":differs-after-restart", fmt.Sprintf("full copy of %s instance %q (requested at %s, settings %v): after a restart of the server reads of the copy at %s differ from the source: %s", s.Type, s.Name, atName, copyCfg, short(v), strings.Join(bad, " | ")),
							map[string]interface{}{"type": s.Type, "version": short(v), "differences": bad})
					}
				}
				return nil
			})
		}
	}

	// --- flattened copies
	for _, V := range flattenAt {
		dst := fmt.Sprintf("%s-flat-%s", s.Name, short(V))
		cerr, err := x.copyInstance(V, s.Name, dst, append([]string{"transmit=flatten"}, copyCfg...))
		if err != nil {
			return err
		}
		x.c.Count("flattened_copies_"+s.Type, 1)
		if conflicted[V] {
			// some key of the source has two unsuperseded live values at V (unresolved merge conflict):
			// "the source as seen from V" is not defined
			x.c.Count("flattened_copies_at_conflicted_version_"+s.Type, 1)
			if cerr != "" {
				x.c.Count("flattened_copies_refused_at_conflicted_version", 1)
			}
			continue
		}
		if strings.HasPrefix(cerr, "PANIC") {
			x.viol("c19:"+s.Type+":CopyInstance-panics", fmt.Sprintf("copy of %s instance %q flattened at %s: %s", s.Type, s.Name, short(V), drv.Trunc(cerr, 1200)), map[string]interface{}{"type": s.Type, "stack": cerr})
			continue
		}
		if cerr != "" {
			x.viol("c19:flatten:"+s.Type+":copy-error", fmt.Sprintf("flattened copy of %s instance %q at %s failed although every read of the source at that version succeeds: %s", s.Type, s.Name, short(V), cerr),
				map[string]interface{}{"type": s.Type, "version": short(V)})
			continue
		}
		x.c.Count("flattened_copies_compared_"+s.Type, 1)
		x.noteStore(dst)
		V, dst := V, dst
		desc := descendants(x.h.D, V)
		cmpFlat := func(phase, ksuffix string) error {
			got, err := x.snapAll(dst, s.Eps, vs)
			if err != nil {
				return err
			}
			for _, w := range vs {
				x.c.Case(caseKey+"|flat|"+short(V)+"|"+short(w)+phase, nontrivial(V))
				if desc[w] {
					if bad := compare(s.Eps, got[w], before[V], false); len(bad) > 0 {
						rel := "a descendant of"
						k := "descendant"
						if w == V {
							rel, k = "", "at-V"
						}
						x.viol("c19:flatten:"+s.Type+":differs:"+k+ksuffix, fmt.Sprintf("copy of %s instance %q flattened at %s (settings %v)%s: reads of the copy at %s (%s %s) differ from the source as seen from %s: %s", s.Type, s.Name, short(V), copyCfg, phase, short(w), rel, short(V), short(V), strings.Join(bad, " | ")),
							map[string]interface{}{"type": s.Type, "flattened_at": short(V), "read_at": short(w), "differences": bad, "bodies": x.bodies(s.Eps, bad, dst, w, s.Name, V)})
					}
				} else if bad := compare(s.Eps, got[w], empty[w], true); len(bad) > 0 {
					x.viol("c19:flatten:"+s.Type+":leaks-outside-descendants"+ksuffix, fmt.Sprintf("copy of %s instance %q flattened at %s%s: reads of the copy at %s (neither %s nor a descendant) differ from a never-written instance: %s", s.Type, s.Name, short(V), phase, short(w), short(V), strings.Join(bad, " | ")),
						map[string]interface{}{"type": s.Type, "flattened_at": short(V), "read_at": short(w), "differences": bad, "bodies": x.bodies(s.Eps, bad, dst, w, s.Empty, w)})
				}
			}
			return nil
		}
		if err := cmpFlat("", ""); err != nil {
			return err
		}
		x.rechecks = append(x.rechecks, func() error { return cmpFlat(" after a restart of the server", ":after-restart") })
	}

	// --- source unchanged
	after, err := x.snapAll(s.Name, s.Eps, vs)
	if err != nil {
		return err
	}
	for _, v := range vs {
		x.c.Case(caseKey+"|src-unchanged|"+short(v), nontrivial(v))
		if bad := compare(s.Eps, after[v], before[v], false); len(bad) > 0 {
			x.viol("c19:source-changed:"+s.Type, fmt.Sprintf("reads of the source %s instance %q at %s changed after copying it: %s", s.Type, s.Name, short(v), strings.Join(bad, " | ")),
				map[string]interface{}{"type": s.Type, "version": short(v), "differences": bad})
		}
	}
	return nil
}

// runHistory drives one history on *wp.  beforeCopies (optional) runs after the writes and before the copies; it may
// replace *wp (restart with another configuration).
func runHistory(c *drv.Ctx, wp **drv.Worker, r *rand.Rand, tag string, nops int, types []string, maxFlatten int, beforeCopies func(x *hist, flat []string) error, restart func() (*drv.Worker, error), noCfg bool) error {
	w := *wp
	cl := &dvc.Client{W: w}
	h, err := dvc.NewHist(cl, r, tag)
	if err != nil {
		return err
	}
	h.MaxPar = 3
	x := &hist{c: c, w: w, r: r, tag: tag, h: h, warm: map[string]bool{}, noCfg: noCfg}
	mk := func(typ, name string, cfg map[string]string, copyCfg []string) error {
		s := &src{Type: typ, Name: name, Cfg: cfg, CopyCfg: copyCfg, Empty: name + "-empty", Eps: endpointsFor(typ)}
		if err := cl.NewInstance(h.Root, typ, s.Name, cfg); err != nil {
			return err
		}
		// the reference for "nothing stored" is created exactly like a copy target: by the same settings
		ecfg := map[string]string{}
		for k, v := range cfg {
			ecfg[k] = v
		}
		if err := cl.NewInstance(h.Root, typ, s.Empty, ecfg); err != nil {
			return err
		}
		x.srcs = append(x.srcs, s)
		return nil
	}
	// twin sources: two instances of one type created back to back, so that the instance id following the first source's
	// belongs to an instance that holds data of its own when the first is copied (not to an empty reference instance)
	mkTwin := func(typ, a, b string) error {
		var ss []*src
		for _, name := range []string{a, b} {
			s := &src{Type: typ, Name: name, Empty: name + "-empty", Eps: endpointsFor(typ)}
			if err := cl.NewInstance(h.Root, typ, s.Name, nil); err != nil {
				return err
			}
			ss = append(ss, s)
		}
		for _, s := range ss {
			if err := cl.NewInstance(h.Root, typ, s.Empty, map[string]string{}); err != nil {
				return err
			}
			x.srcs = append(x.srcs, s)
		}
		c.Count("twin_source_histories", 1)
		return nil
	}
	for _, t := range types {
		switch t {
		case "keyvalue":
			if r.Intn(2) == 0 {
				err = mkTwin("keyvalue", "kv", "kvb")
			} else {
				err = mk("keyvalue", "kv", nil, nil)
			}
		case "keyvalue-unversioned":
			// source is versioned=false (all uuids map to the root); the copy is created with default settings
			err = mk("keyvalue", "ukv", map[string]string{"versioned": "false"}, nil)
		case "uint8blk":
			bs := fmt.Sprintf("%d,%d,%d", imgBS, imgBS, imgBS)
			if r.Intn(2) == 0 {
				// a non-default background value: what a read returns where nothing is stored is a setting of the instance
				err = mk("uint8blk", "img", map[string]string{"BlockSize": bs, "Background": "9"}, []string{"BlockSize=" + bs, "Background=9"})
				c.Count("image_sources_with_background_9", 1)
			} else {
				err = mk("uint8blk", "img", map[string]string{"BlockSize": bs}, []string{"BlockSize=" + bs})
			}
		case "annotation":
			err = mk("annotation", "ann", nil, nil)
		case "roi":
			bs := fmt.Sprintf("%d,%d,%d", roiBS, roiBS, roiBS)
			err = mk("roi", "roi", map[string]string{"versioned": "true", "BlockSize": bs}, []string{"versioned=true", "BlockSize=" + bs})
		}
		if err != nil {
			return err
		}
	}
	for i := 0; i < nops; i++ {
		if r.Intn(100) < 72 {
			s := x.srcs[r.Intn(len(x.srcs))]
			var v string
			if s.Cfg["versioned"] == "false" {
				v = h.D.Order[r.Intn(len(h.D.Order))]
			} else {
				open := h.D.Open()
				if len(open) == 0 {
					continue
				}
				v = open[r.Intn(len(open))]
			}
			if err := x.write(s, v); err != nil {
				return err
			}
		} else {
			if _, e := h.StepDAG(); e != nil {
				if dvc.IsWorkerErr(e) {
					return e
				}
				x.viol("c19:dag-op-refused", fmt.Sprintf("legal DAG operation refused: %v", e), nil)
			}
			x.pullOps()
		}
	}
	if err := w.Settle(); err != nil {
		return err
	}
	// versions at which flattened copies are taken: all (quick caps the number, keeping root, newest and merges)
	flat := append([]string{}, h.D.Order...)
	if maxFlatten > 0 && len(flat) > maxFlatten {
		keep := map[string]bool{h.Root: true, flat[len(flat)-1]: true}
		for _, u := range flat {
			if len(keep) < maxFlatten && len(h.D.Nodes[u].Parents) > 1 {
				keep[u] = true
			}
		}
		for _, i := range r.Perm(len(flat)) {
			if len(keep) >= maxFlatten {
				break
			}
			keep[flat[i]] = true
		}
		var f2 []string
		for _, u := range flat {
			if keep[u] {
				f2 = append(f2, u)
			}
		}
		flat = f2
	}
	if beforeCopies != nil {
		if err := beforeCopies(x, flat); err != nil {
			return err
		}
	}
	for _, s := range x.srcs {
		if err := x.checkSource(s, flat); err != nil {
			return err
		}
	}
	if restart != nil {
		// the copies must still equal the source once the server has been restarted: what a copy is may not live in memory only
		if err := x.w.Settle(); err != nil {
			return err
		}
		nw, err := restart()
		if err != nil {
			x.viol("c19:restart-after-copies-fails", fmt.Sprintf("the server does not start after the copies of history %s: %v", tag, err), nil)
			return nil
		}
		*wp = nw
		x.w = nw
		h.C.W = nw
		x.warm = map[string]bool{}
		c.Count("restarts_after_copies", 1)
		for _, f := range x.rechecks {
			if err := f(); err != nil {
				return err
			}
		}
	}
	x.pullOps()
	c.Seen("dag_shapes", h.D.Shape())
	c.Seen("copy_settings", fmt.Sprintf("source-settings-repeated=%v", !noCfg))
	c.Count("histories", 1)
	c.Count("versions", len(h.D.Order))
	if c.SeenCount("dag_shapes") <= 2 {
		c.Sample(map[string]interface{}{"history": tag, "dag": h.D.Shape(), "flattened_at": len(flat), "trace": x.trace})
	}
	return nil
}

func secondStoreHistory(c *drv.Ctx, bin string, i int, seed int64, types []string) error {
	name := fmt.Sprintf("sec%d", i)
	dir, err := c.NewDataDir(name, drv.ConfOpts{SecondStore: true})
	if err != nil {
		return err
	}
	w, err := drv.StartWorker(bin, dir, drv.StartOpts{})
	if err != nil {
		return err
	}
	defer func() { w.Kill() }()
	rr := rand.New(rand.NewSource(seed))
	hook := func(x *hist, flat []string) error {
		var b strings.Builder
		for _, s := range x.srcs {
			fmt.Fprintf(&b, "[backend.\"%s-full:%s\"]\nstore = \"second\"\n", s.Name, x.h.Root)
			for _, v := range flat {
				fmt.Fprintf(&b, "[backend.\"%s-flat-%s:%s\"]\nstore = \"second\"\n", s.Name, x.h.Short(v), v)
			}
		}
		if err := x.w.Exit("clean"); err != nil {
			return err
		}
		if _, err := drv.WriteConfig(dir, drv.ConfOpts{SecondStore: true, Extra: b.String()}); err != nil {
			return err
		}
		nw, err := drv.StartWorker(bin, dir, drv.StartOpts{})
		if err != nil {
			se := ""
			if nw != nil {
				se = drv.Trunc(nw.Stderr(), 800)
			}
			return fmt.Errorf("restart with second-store mapping: %v; stderr: %s", err, se)
		}
		w = nw
		x.w = nw
		x.warm = map[string]bool{}
		x.second = true
		x.c.Count("second_store_histories", 1)
		return nil
	}
	if err := runHistory(c, &w, rr, name, 60+rr.Intn(30), types, 4, hook, nil, false); err != nil {
		return fmt.Errorf("%v; stderr: %s", err, drv.Trunc(drv.FatalInStderr(w.Stderr()), 1500))
	}
	return nil
}

// ---------- run ----------

func run(c *drv.Ctx) error {
	c.Rule("random legal interleavings of writes/deletes (keyvalue put/delete; uint8blk block writes incl. all-background overwrites; annotation element post/delete/move with tags and relationships; " +
		"roi post (replace) / delete) and commit / newversion / branch / merge, on one versioned instance per type (roi created with versioned=true) plus a versioned=false keyvalue; " +
		"then a full copy and a flattened copy at every version (quick: at most 6 versions per instance incl. root, newest and merge nodes), all through datastore.CopyInstance; " +
		"a few extra histories restart the server with backend entries that map every copy target onto a second Badger store; " +
		"a case is one (history, instance, kind of copy, flatten version, read version) comparison over every read endpoint of the type, or one source-unchanged comparison; " +
		"non-trivial: the source's reads at the compared version differ from a never-written instance; distinct by (hash of the operation trace, instance, copy kind, versions)")
	c.Assume("wrapper engines add no semantics: crashkv delegates every call to storage/badger")
	c.Assume("when a read of the source at V itself fails (unresolved merge conflict under a key), 'the source as seen from V' is undefined: flattened copies at such V are counted, not judged")
	c.Assume("instance properties kept in the metadata store (info endpoint: names, ids, extents) are outside the statement ('content kept in the key-value store') and not compared")
	bin, err := c.Build("dvidw", "")
	if err != nil {
		return err
	}
	types := []string{"keyvalue", "keyvalue-unversioned", "uint8blk", "annotation", "roi"}
	nh := c.N(12, 300)
	maxFlat := c.N(6, 0)
	seeds := make([]int64, nh)
	for i := range seeds {
		seeds[i] = c.Rand.Int63()
	}
	nw := 6
	if !c.Quick() {
		nw = 10
	}
	hch := make(chan int, nh)
	for i := 0; i < nh; i++ {
		hch <- i
	}
	close(hch)
	var wg sync.WaitGroup
	errs := make(chan error, nw+4)
	for wi := 0; wi < nw; wi++ {
		wg.Add(1)
		go func(wi int) {
			defer wg.Done()
			dir, err := c.NewDataDir(fmt.Sprintf("w%d", wi), drv.ConfOpts{})
			if err != nil {
				errs <- err
				return
			}
			w, err := drv.StartWorker(bin, dir, drv.StartOpts{})
			if err != nil {
				errs <- err
				return
			}
			defer func() { w.Kill() }()
			for i := range hch {
				rr := rand.New(rand.NewSource(seeds[i]))
				var restart func() (*drv.Worker, error)
				if i%2 == 1 {
					clean := rr.Intn(2) == 0
					restart = func() (*drv.Worker, error) {
						if clean {
							if err := w.Exit("clean"); err != nil {
								return nil, err
							}
						} else {
							w.Kill()
						}
						return drv.StartWorker(bin, dir, drv.StartOpts{})
					}
				}
				if err := runHistory(c, &w, rr, fmt.Sprintf("h%d", i), 90+rr.Intn(50), types, maxFlat, nil, restart, i%4 >= 2); err != nil {
					errs <- fmt.Errorf("worker %d history %d: %v; stderr: %s", wi, i, err, drv.Trunc(drv.FatalInStderr(w.Stderr()), 1500))
					return
				}
			}
		}(wi)
	}
	// copies onto another store: the targets are mapped to [store.second] by "<name>:<uuid>" backend entries, which
	// needs a restart with the new configuration once the uuids exist
	nsec := c.N(2, 24)
	secSeeds := make([]int64, nsec)
	for i := range secSeeds {
		secSeeds[i] = c.Rand.Int63()
	}
	wg.Add(1)
	go func() {
		defer wg.Done()
		for i := 0; i < nsec; i++ {
			if err := secondStoreHistory(c, bin, i, secSeeds[i], types); err != nil {
				errs <- fmt.Errorf("second-store history %d: %v", i, err)
				return
			}
		}
	}()
	wg.Wait()
	close(errs)
	var ns []string
	notes.Range(func(k, _ interface{}) bool { ns = append(ns, k.(string)); return true })
	sort.Strings(ns)
	if len(ns) > 40 {
		ns = ns[:40]
	}
	c.Extra("read_anomalies_observed", ns)
	var all []string
	for e := range errs {
		all = append(all, e.Error())
	}
	if len(all) > 0 {
		sort.Strings(all)
		return fmt.Errorf("%s", strings.Join(all, " | "))
	}
	return nil
}

// pfx is the source-instance part of an instance name ("img-flat-n3" -> "img").
func pfx(inst string) string {
	if i := strings.Index(inst, "-"); i > 0 {
		return inst[:i]
	}
	return inst
}
