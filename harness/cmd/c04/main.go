// C04 — a crash at any write point is recoverable and loses no acknowledged work.
// fault_enumeration: a deterministic mixed workload is run once to census its store writes / log
// appends and to record the reference snapshot after every operation; then, for every write N, a
// fresh server runs the same workload with the wrapping engines killing the process (SIGKILL)
// immediately before write N; a new process is started on the same directories and its snapshot is
// compared with the reference snapshots of the acknowledged prefix.
package main

import (
	"encoding/json"
	"fmt"
	"math/rand"
	"os"
	"path/filepath"
	"sort"
	"strconv"
	"strings"
	"sync"
	"time"

	"verif/harness/internal/drv"
	"verif/harness/internal/dvc"
	"verif/harness/internal/mixed"
)

func main() { drv.Main("C04", "fault_enumeration", run) }

type census struct {
	seed     int64
	types    []string
	nops     int
	snaps    []*mixed.Snap // snaps[i] = reference snapshot after op i-1 (snaps[0] = after setup)
	writesAt []int64       // cumulative writes after setup (index 0) and after each op
	descs    []string
	ops      []mixed.OpInfo // ops[j] describes the operation that leads from snaps[j-1] to snaps[j] (ops[0] = setup)
	hints    *mixed.Hints   // every label / key / body id the complete workload names
	setupW   int64
	total    int64
}

func atomicOp(desc string) bool {
	return strings.HasPrefix(desc, "dag") || strings.HasPrefix(desc, "kv")
}

// runWorkload executes the deterministic workload; stops at the first worker death.
// Returns the world (nil if setup did not finish), number of completed ops, and whether the worker died.
func runWorkload(w *drv.Worker, seed int64, types []string, nops int, each func(i int, wd *mixed.World, desc string) error) (*mixed.World, int, bool, error) {
	r := rand.New(rand.NewSource(seed))
	// the pseudo type "admin" adds instance create / rename / delete and side-repo create / delete steps
	admin := false
	var dataTypes []string
	for _, t := range types {
		if t == "admin" {
			admin = true
		} else {
			dataTypes = append(dataTypes, t)
		}
	}
	wd, err := mixed.New(w, r, mixed.Opts{Types: dataTypes, Tag: "c", Admin: admin, AdminEvery: 3})
	if err != nil {
		if w.Dead() {
			return nil, -1, true, nil
		}
		return nil, -1, false, err
	}
	wd.Normalize = true
	if each != nil {
		if err := each(-1, wd, "setup"); err != nil {
			return wd, -1, false, err
		}
	}
	for i := 0; i < nops; i++ {
		d, err := wd.Step()
		if err != nil {
			if w.Dead() {
				return wd, i, true, nil
			}
			return wd, i, false, fmt.Errorf("op %d (%s): %v", i, d, err)
		}
		if each != nil {
			if err := each(i, wd, d); err != nil {
				return wd, i, false, err
			}
		}
	}
	return wd, nops, false, nil
}

func doCensus(c *drv.Ctx, bin string, seed int64, types []string, nops int, name string) (*census, error) {
	dir, err := c.NewDataDir(name+"-census", drv.ConfOpts{})
	if err != nil {
		return nil, err
	}
	// pass 1 learns every label / key / body id the workload will ever name, so that every snapshot of pass 2 and of the
	// crash runs asks exactly the same questions (a query list that grows with the workload would make the same URL
	// mean different requests before and after an operation)
	w0, err := drv.StartWorker(bin, dir, drv.StartOpts{})
	if err != nil {
		return nil, err
	}
	wd0, done0, died0, err := runWorkload(w0, seed, types, nops, nil)
	w0.Kill()
	if err != nil || died0 || done0 != nops {
		return nil, fmt.Errorf("census pass 1 failed: done=%d died=%v err=%v stderr=%s", done0, died0, err, drv.FatalInStderr(w0.Stderr()))
	}
	hints := wd0.CurrentHints()
	os.RemoveAll(dir)
	if dir, err = c.NewDataDir(name+"-census", drv.ConfOpts{}); err != nil {
		return nil, err
	}
	w, err := drv.StartWorker(bin, dir, drv.StartOpts{})
	if err != nil {
		return nil, err
	}
	defer w.Kill()
	cs := &census{seed: seed, types: types, nops: nops, hints: hints}
	_, done, died, err := runWorkload(w, seed, types, nops, func(i int, wd *mixed.World, desc string) error {
		if err := w.Settle(); err != nil {
			return err
		}
		s, err := wd.SnapshotH(nil, hints)
		if err != nil {
			return err
		}
		cs.snaps = append(cs.snaps, s)
		cs.writesAt = append(cs.writesAt, w.Writes)
		cs.descs = append(cs.descs, desc)
		op := wd.LastOp
		if i < 0 {
			op = mixed.OpInfo{Kind: "setup"}
		}
		if n, ok := s.Names[op.Version]; ok {
			op.Version = n
		}
		cs.ops = append(cs.ops, op)
		return nil
	})
	if err != nil || died || done != nops {
		return nil, fmt.Errorf("census run failed: done=%d died=%v err=%v stderr=%s", done, died, err, drv.FatalInStderr(w.Stderr()))
	}
	cs.setupW = cs.writesAt[0]
	cs.total = cs.writesAt[len(cs.writesAt)-1]
	os.RemoveAll(dir)
	return cs, nil
}

// opOfWrite returns the index into snaps/descs of the op that issues write n (0 = setup, i+1 = op i).
func (cs *census) opOfWrite(n int64) int {
	for i, w := range cs.writesAt {
		if n <= w {
			return i
		}
	}
	return len(cs.writesAt) - 1
}

func usable(w *drv.Worker) string {
	cl := &dvc.Client{W: w}
	root, err := cl.NewRepo("after-crash")
	if err != nil {
		return fmt.Sprintf("cannot create a repo after recovery: %v", err)
	}
	if err := cl.NewInstance(root, "keyvalue", "kvx", nil); err != nil {
		return fmt.Sprintf("cannot create an instance after recovery: %v", err)
	}
	if r, err := w.Post("/api/node/"+root+"/kvx/key/a", []byte("1")); err != nil || !r.OK() {
		return fmt.Sprintf("cannot write after recovery: %v %v", r, err)
	}
	if r, err := w.Get("/api/node/" + root + "/kvx/key/a"); err != nil || r.Status != 200 || string(r.Body) != "1" {
		return fmt.Sprintf("cannot read back after recovery: %v %v", r, err)
	}
	if err := cl.Commit(root); err != nil {
		return fmt.Sprintf("cannot commit after recovery: %v", err)
	}
	if _, err := cl.NewVersion(root); err != nil {
		return fmt.Sprintf("cannot create a version after recovery: %v", err)
	}
	return ""
}

// crashPoint runs one crash case.  mode is "before" or "after".
func crashPoint(c *drv.Ctx, bin string, cs *census, name, mode string, n int64, double bool) error {
	dir, err := c.NewDataDir(fmt.Sprintf("%s-%s%d", name, mode, n), drv.ConfOpts{})
	if err != nil {
		return err
	}
	defer os.RemoveAll(dir)
	w, err := drv.StartWorker(bin, dir, drv.StartOpts{Crash: fmt.Sprintf("%s:%d", mode, n)})
	if err != nil && !(err == drv.ErrDied) {
		return fmt.Errorf("start: %v", err)
	}
	var wd *mixed.World
	done, died := -1, w.Dead()
	if !died {
		wd, done, died, err = runWorkload(w, cs.seed, cs.types, cs.nops, nil)
		if err != nil {
			w.Kill()
			return fmt.Errorf("crash run %s:%d: %v", mode, n, err)
		}
	}
	if !died {
		w.Kill()
		c.Count("crash_points_not_reached", 1)
		return nil
	}
	w.WaitExit(20 * time.Second)
	opIdx := cs.opOfWrite(n) // index into snaps: op that issues write n
	if mode == "after" && n == cs.writesAt[opIdx] && opIdx+1 < len(cs.descs) {
		// the op's last write completed; the reply may or may not have been sent
	}
	desc := cs.descs[opIdx]
	key := fmt.Sprintf("%s|%s|%s:%d|op%d:%s", name, mode, mode, n, opIdx, strings.SplitN(desc, ":", 2)[0])
	c.Case(key, true)
	c.Seen("interrupted_op_kinds", strings.SplitN(desc, ":", 2)[0])
	c.Count("crash_runs", 1)
	witness := map[string]interface{}{"workload_seed": cs.seed, "types": cs.types, "nops": cs.nops, "crash": fmt.Sprintf("%s:%d", mode, n), "interrupted_op": desc, "op_index": opIdx - 1}
	opk := strings.SplitN(desc, ":", 2)[0]
	opk = strings.Fields(opk + " x")[0]

	restart := func(crash string) (*drv.Worker, error) {
		return drv.StartWorker(bin, dir, drv.StartOpts{Crash: crash})
	}
	// stop is a harness-side stop of an idle worker (not a quantified crash point)
	stop := func(x *drv.Worker) {
		if !drv.WaitStoreIdle(dir, 10*time.Second) {
			c.Count("store_not_idle_before_harness_kill", 1)
		}
		x.Kill()
	}
	crashed := ""
	if double {
		// the state the first crash left, to start every second-crash run from
		crashed = dir + ".crashed"
		os.RemoveAll(crashed)
		if err := drv.CopyDir(dir, crashed); err != nil {
			return err
		}
		defer os.RemoveAll(crashed)
	}
	w2, err := restart("")
	if err != nil {
		c.Violation("restart-fails:"+opk, fmt.Sprintf("after a crash %s write %d (during %q) the next start fails: %v; stderr: %s", mode, n, desc, err, drv.Trunc(drv.FatalInStderr(w2.Stderr()), 700)), witness)
		return nil
	}
	bootWrites := w2.Writes
	c.Count("recovery_startup_writes", int(bootWrites))
	if double && bootWrites > 0 {
		// second crash during the recovery start-up, at every write it issues, each time from the crashed state
		stop(w2)
		for m := int64(1); m <= bootWrites; m++ {
			os.RemoveAll(dir)
			if err := drv.CopyDir(crashed, dir); err != nil {
				return err
			}
			w3, err := restart(fmt.Sprintf("before:%d", m))
			if err == nil {
				stop(w3) // recovery did not reach write m this time
				c.Count("double_crash_points_not_reached", 1)
				continue
			}
			c.Count("double_crash_runs", 1)
			w4, err := restart("")
			if err != nil {
				c.Violation("double-crash-restart-fails:"+opk, fmt.Sprintf("crash %s:%d during %q, then crash before recovery write %d: third start fails: %v; stderr: %s", mode, n, desc, m, err, drv.Trunc(drv.FatalInStderr(w4.Stderr()), 700)), witness)
				return nil
			}
			if m < bootWrites {
				stop(w4)
				continue
			}
			// the state left by the last double crash is the one compared below
			w2 = w4
		}
		if w2.Dead() {
			w2, err = restart("")
			if err != nil {
				c.Violation("double-crash-restart-fails:"+opk, fmt.Sprintf("start after the double-crash sweep of %s:%d (%q) fails: %v; stderr: %s", mode, n, desc, err, drv.Trunc(drv.FatalInStderr(w2.Stderr()), 700)), witness)
				return nil
			}
		}
	}
	defer w2.Kill()

	// metadata well formed
	cl := &dvc.Client{W: w2}
	repos, _, err := cl.Repos()
	if err != nil {
		c.Violation("repos-info-unreadable:"+opk, fmt.Sprintf("after crash %s:%d during %q: /api/repos/info fails: %v", mode, n, desc, err), witness)
		return nil
	}
	for _, b := range dvc.CheckDAGInvariants(repos) {
		c.Violation("metadata-malformed:"+opk+":"+strings.SplitN(b, ":", 2)[0], fmt.Sprintf("after crash %s:%d during %q: %s", mode, n, desc, b), witness)
	}

	var got *mixed.Snap
	if wd != nil && done >= 0 {
		wd.W, wd.C.W = w2, w2
		got, err = wd.SnapshotH(nil, cs.hints)
		if err != nil && strings.Contains(err.Error(), drv.ErrWatchdog.Error()) {
			// a read outlived the wall-clock watchdog: a verdict only if the goroutine dump shows it can never return
			if wedged, where := drv.Wedged(w2.Stderr()); wedged {
				witness["stderr_file"] = c.SaveText(fmt.Sprintf("stderr-%s-%s%d.txt", name, mode, n), w2.Stderr())
				c.Violation("read-never-answered-after-recovery:"+opk, fmt.Sprintf("after crash %s:%d during %q a read of the recovered server is never answered (parked in %s with nobody left to wake it): %v", mode, n, desc, where, err), witness)
			} else {
				c.Inconclusive(fmt.Sprintf("crash %s:%d: a read of the recovered server outlived the watchdog while the process was still busy: %v", mode, n, err))
			}
			return nil
		}
		if err != nil {
			if p := c.SaveText(fmt.Sprintf("stderr-%s-%s%d.txt", name, mode, n), w2.Stderr()); p != "" {
				witness["stderr_file"] = p
			}
			c.Violation("snapshot-fails:"+opk, fmt.Sprintf("after crash %s:%d during %q the read surface fails: %v; stderr: %s", mode, n, desc, err, drv.Trunc(drv.FatalInStderr(w2.Stderr()), 500)), witness)
			return nil
		}
		// the crash run acknowledged `done` operations; it died inside operation index `done`
		if done < 0 || done >= len(cs.snaps) {
			return nil
		}
		prev := cs.snaps[done]
		next := prev
		if done+1 < len(cs.snaps) {
			next = cs.snaps[done+1]
			desc = cs.descs[done+1]
		} else {
			desc = "after-last-op"
		}
		if done+1 != opIdx {
			c.Count("write_count_drift", 1)
		}
		var op mixed.OpInfo
		if done+1 < len(cs.ops) {
			op = cs.ops[done+1]
		}
		// affected(u): can the interrupted operation change what this URL returns?  Repo-level ops change
		// repo JSON, node-level reads of any node and branch resolution; an instance op at version V changes
		// only reads of its sync group at V (V is an open leaf) and the group's entries in the repo JSON.
		affected := func(u string) bool {
			if op.Kind == "dag" || op.Kind == "setup" || op.Kind == "" {
				return true
			}
			for _, inst := range op.Group() {
				if strings.Contains(u, "/DataInstances/"+inst) {
					return true
				}
				if strings.Contains(u, "/"+inst+"/") && (strings.Contains(u, "/api/node/"+op.Version+"/") || strings.Contains(u, ":")) {
					return true
				}
				// instance-wide (unversioned) properties: settings/extents/max label in info, the next-label counter
				if strings.Contains(u, "/"+inst+"/info") || strings.Contains(u, "/"+inst+"/nextlabel") {
					return true
				}
			}
			// repo-level bookkeeping every mutation may touch (repo log / update bookkeeping)
			return strings.HasPrefix(u, "repos/info/") && !strings.Contains(u, "/DAG/") && !strings.Contains(u, "/DataInstances/")
		}
		var lost, partial, full []string
		eqPrev, eqNext := true, true
		for u, pv := range prev.M {
			gv, ok := got.M[u]
			nv := next.M[u]
			if !ok {
				continue // URL set depends on hints known to the crash run
			}
			if gv != pv {
				eqPrev = false
			}
			if gv != nv {
				eqNext = false
			}
			if !affected(u) && gv != pv {
				full = append(full, fmt.Sprintf("%s\n  expected %s\n  got      %s", u, pv, gv))
				lost = append(lost, fmt.Sprintf("%s: expected %s got %s", u, drv.Trunc(pv, 160), drv.Trunc(gv, 160)))
			} else if gv != pv && gv != nv {
				partial = append(partial, fmt.Sprintf("%s: neither before-op %s nor after-op %s but %s", u, drv.Trunc(pv, 120), drv.Trunc(nv, 120), drv.Trunc(gv, 120)))
			}
		}
		for root, m1 := range prev.MutationID {
			if m2, ok := got.MutationID[root]; ok && m2 < m1 {
				lost = append(lost, fmt.Sprintf("MutationID of %s moved backwards %d -> %d", root, m1, m2))
			}
		}
		sort.Strings(lost)
		sort.Strings(partial)
		c.Count("urls_compared", len(prev.M))
		if len(lost) > 0 {
			sort.Strings(full)
			if p := c.SaveText(fmt.Sprintf("diff-%s-%s%d.txt", name, mode, n), strings.Join(full, "\n")+"\n\ntrace:\n"+strings.Join(wd.Trace, "\n")); p != "" {
				witness["diff_file"] = p
			}
			fam := famOf(lost[0])
			c.Violation("acknowledged-state-lost:"+opk+":"+fam, fmt.Sprintf("after crash %s:%d during %q, state that the interrupted operation cannot touch (other instances / other versions) differs from the acknowledged prefix (%d urls): %s", mode, n, desc, len(lost), strings.Join(head(lost, 3), " || ")), witness)
		}
		if atomicOp(desc) && !eqPrev && !eqNext && len(lost) == 0 && len(partial) > 0 {
			fam := famOf(partial[0])
			c.Violation("partial-atomic-op:"+opk+":"+fam, fmt.Sprintf("after crash %s:%d the interrupted %q is neither entirely absent nor entirely present (%d urls): %s", mode, n, desc, len(partial), strings.Join(head(partial, 3), " || ")), witness)
		}
		if eqPrev {
			c.Count("recovered_to_prefix", 1)
		} else if eqNext {
			c.Count("recovered_to_prefix_plus_op", 1)
		} else {
			c.Count("recovered_to_partial_nonatomic_op", 1)
		}
	} else {
		c.Count("crash_during_setup", 1)
	}
	if msg := usable(w2); msg != "" {
		c.Violation("unusable-after-recovery:"+opk, fmt.Sprintf("after crash %s:%d during %q: %s; stderr: %s", mode, n, desc, msg, drv.Trunc(drv.FatalInStderr(w2.Stderr()), 400)), witness)
		return nil
	}
	if got == nil {
		return nil
	}
	// The recovered server went on working (a new repository, an instance, a write, a commit, a new version - all
	// acknowledged).  Nothing that was readable right after the recovery may be lost by that work or by the next start.
	stop(w2)
	w5, err := restart("")
	if err != nil {
		c.Violation("restart-fails-after-recovered-work:"+opk, fmt.Sprintf("crash %s:%d during %q, recovery, new work on the recovered server, then the next start fails: %v; stderr: %s", mode, n, desc, err, drv.Trunc(drv.FatalInStderr(w5.Stderr()), 700)), witness)
		return nil
	}
	defer w5.Kill()
	wd.W, wd.C.W = w5, w5
	got2, err := wd.SnapshotH(nil, cs.hints)
	if err != nil {
		if strings.Contains(err.Error(), drv.ErrWatchdog.Error()) {
			c.Inconclusive(fmt.Sprintf("crash %s:%d: a read after the second start outlived the watchdog: %v", mode, n, err))
			return nil
		}
		c.Violation("snapshot-fails-after-recovered-work:"+opk, fmt.Sprintf("crash %s:%d during %q, recovery, new work, restart: the read surface fails: %v; stderr: %s", mode, n, desc, err, drv.Trunc(drv.FatalInStderr(w5.Stderr()), 500)), witness)
		return nil
	}
	var gone []string
	for u, v := range got.M {
		if v2, ok := got2.M[u]; !ok || v2 != v {
			gone = append(gone, fmt.Sprintf("%s: after recovery %s, after new work + restart %s", u, drv.Trunc(v, 140), drv.Trunc(got2.M[u], 140)))
		}
	}
	c.Count("urls_compared_after_recovered_work", len(got.M))
	if len(gone) > 0 {
		sort.Strings(gone)
		c.Violation("recovered-state-lost-by-later-work:"+opk+":"+famOf(gone[0]), fmt.Sprintf("crash %s:%d during %q: state readable after the recovery is gone after acknowledged new work (new repo, instance, write, commit, new version) and a restart (%d urls): %s", mode, n, desc, len(gone), strings.Join(head(gone, 3), " || ")), witness)
	}
	return nil
}

func famOf(d string) string {
	u := d
	if i := strings.Index(u, ": "); i > 0 {
		u = u[:i]
	}
	parts := strings.Split(strings.TrimPrefix(u, "POST "), "/")
	if strings.HasPrefix(u, "repos/info") {
		if len(parts) >= 4 {
			return "repos-info:" + parts[3]
		}
		return "repos-info"
	}
	if len(parts) >= 6 {
		ep := parts[5]
		if i := strings.IndexAny(ep, "? "); i > 0 {
			ep = ep[:i]
		}
		return parts[4] + "/" + ep
	}
	if len(parts) >= 5 {
		return "node/" + parts[4]
	}
	return "other"
}

func head(s []string, n int) []string {
	if len(s) > n {
		return s[:n]
	}
	return s
}

func run(c *drv.Ctx) error {
	c.Rule("deterministic mixed workloads (repo/DAG ops, keyvalue, labelmap merge/cleave/split-supervoxel/renumber, annotation, neuronjson, roi, imageblk); census of every store write and log append issued through the wrapping engines; " +
		"one crash run per write N (SIGKILL immediately before it; 'after:N' for a sample), restart, C07 invariants on the repo metadata, reference-snapshot comparison (unaffected URLs must equal the acknowledged prefix; atomic repo-level/single-key ops must be all-or-nothing), usability probe; " +
		"a sample of points also crashes the recovery start-up at each of its writes; plus append-only log tearing at every byte offset of the tail records; distinct by (workload, crash point, interrupted op)")
	c.Assume("process death (SIGKILL), not power loss: Badger runs with SyncWrites=false and every store call that returned is in the page cache")
	c.Assume("crash granularity is the store-call / log-append boundary; crashes inside Badger's own commit are not injected")
	bin, err := c.Build("dvidw", "")
	if err != nil {
		return err
	}
	type wl struct {
		name  string
		types []string
		nops  int
	}
	wls := []wl{{"w0", []string{"kv", "lm", "nj"}, c.N(12, 30)}}
	if !c.Quick() {
		wls = append(wls, wl{"w1", []string{"kv", "lm", "ann", "roi", "img", "nj"}, 30}, wl{"w2", []string{"kv"}, 60}, wl{"w3", []string{"lm", "ann"}, 30}, wl{"w4", []string{"kv", "nj", "roi", "img"}, 40}, wl{"w5", []string{"kv", "admin"}, 80}, wl{"w6", []string{"lm"}, 40})
	} else {
		wls = append(wls, wl{"w1", []string{"kv", "ann", "lm", "roi", "img"}, 10}, wl{"w2", []string{"kv", "admin"}, 30}, wl{"w3", []string{"lm"}, 14})
	}
	type job struct {
		cs     *census
		name   string
		mode   string
		n      int64
		double bool
	}
	rp := os.Getenv("C04_REPLAY")
	if rp == "" && c.Replay != "" {
		if b, err := os.ReadFile(c.Replay); err == nil && strings.Contains(string(b), `"workload_seed"`) && strings.Contains(string(b), `"crash"`) {
			rp = c.Replay // a crash-point witness: replay exactly that workload and crash point
		}
	}
	if rp != "" {
		// replay aid: C04_REPLAY=<replay file of a crash-point violation> [C04_REPLAY_N=<repetitions>]
		b, err := os.ReadFile(rp)
		if err != nil {
			return err
		}
		var doc struct {
			Case struct {
				Seed  int64    `json:"workload_seed"`
				Types []string `json:"types"`
				Nops  int      `json:"nops"`
				Crash string   `json:"crash"`
			} `json:"case"`
		}
		if err := json.Unmarshal(b, &doc); err != nil {
			return err
		}
		cs, err := doCensus(c, bin, doc.Case.Seed, doc.Case.Types, doc.Case.Nops, "replay")
		if err != nil {
			return err
		}
		c.Extra("ops_replay", cs.descs)
		c.Extra("writes_after_each_op_replay", cs.writesAt)
		parts := strings.SplitN(doc.Case.Crash, ":", 2)
		n, _ := strconv.ParseInt(parts[1], 10, 64)
		reps := 1
		if s := os.Getenv("C04_REPLAY_N"); s != "" {
			reps, _ = strconv.Atoi(s)
		}
		for i := 0; i < reps; i++ {
			if err := crashPoint(c, bin, cs, fmt.Sprintf("replay%d", i), parts[0], n, false); err != nil {
				return err
			}
		}
		return nil
	}
	var jobs []job
	var censuses []*census
	wlSeeds := make([]int64, len(wls)) // drawn first: what a workload is must not depend on another workload's write count
	for i := range wlSeeds {
		wlSeeds[i] = c.Rand.Int63()
	}
	for wi, x := range wls {
		seed := wlSeeds[wi]
		cs, err := doCensus(c, bin, seed, x.types, x.nops, x.name)
		if err != nil {
			return err
		}
		censuses = append(censuses, cs)
		c.Count("census_writes_"+x.name, int(cs.total))
		c.Count("census_setup_writes_"+x.name, int(cs.setupW))
		stride := int64(1)
		if c.Quick() && cs.total > 160 {
			stride = cs.total/160 + 1
		}
		off := c.Rand.Int63n(stride)
		for n := int64(1) + off; n <= cs.total+1; n += stride {
			jobs = append(jobs, job{cs, x.name, "before", n, c.Rand.Intn(12) == 0})
		}
		// always include the first and last write of every operation
		for _, wv := range cs.writesAt {
			jobs = append(jobs, job{cs, x.name, "before", wv, false}, job{cs, x.name, "after", wv, false})
		}
		if wi == 0 {
			c.Sample(map[string]interface{}{"workload": x.name, "types": x.types, "ops": cs.descs, "writes_after_each_op": cs.writesAt})
		}
		c.Extra("stride_"+x.name, stride)
		c.Extra("ops_"+x.name, cs.descs)
		c.Extra("writes_after_each_op_"+x.name, cs.writesAt)
	}
	seenJob := map[string]bool{}
	var uniq []job
	for _, j := range jobs {
		k := fmt.Sprintf("%s|%s|%d", j.name, j.mode, j.n)
		if j.n < 1 || seenJob[k] {
			continue
		}
		seenJob[k] = true
		uniq = append(uniq, j)
	}
	jobs = uniq
	if only := os.Getenv("C04_ONLY"); only != "" { // debugging aid: name|mode|n
		var f []job
		for _, j := range jobs {
			if fmt.Sprintf("%s|%s|%d", j.name, j.mode, j.n) == only {
				f = append(f, j)
			}
		}
		jobs = f
	}
	ch := make(chan job, len(jobs))
	for _, j := range jobs {
		ch <- j
	}
	close(ch)
	var wg sync.WaitGroup
	var mu sync.Mutex
	var errs []string
	for k := 0; k < 14; k++ {
		wg.Add(1)
		go func() {
			defer wg.Done()
			for j := range ch {
				if err := crashPoint(c, bin, j.cs, j.name, j.mode, j.n, j.double); err != nil {
					mu.Lock()
					errs = append(errs, err.Error())
					mu.Unlock()
				}
			}
		}()
	}
	wg.Wait()
	if len(errs) > 0 {
		sort.Strings(errs)
		return fmt.Errorf("%d crash runs failed to execute: %s", len(errs), drv.Trunc(strings.Join(errs, " | "), 2000))
	}
	for i, cs := range censuses {
		if c.Quick() && i >= 2 {
			break
		}
		if err := memtableWindows(c, bin, cs, wls[i].name); err != nil {
			return err
		}
	}
	if err := tornLogs(c, bin); err != nil {
		return err
	}
	_ = filepath.Join
	return nil
}
