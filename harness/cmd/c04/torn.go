package main

import (
	"crypto/sha1"
	"encoding/binary"
	"encoding/hex"
	"fmt"
	"os"
	"path/filepath"

	"verif/harness/internal/drv"
)

type rec struct {
	Type uint16 `json:"type"`
	Data []byte `json:"data,omitempty"`
	Len  int    `json:"len"`
	Sum  string `json:"sum"`
}

func sumOf(b []byte) string {
	h := sha1.Sum(b)
	return hex.EncodeToString(h[:6])
}

// refParse is the reference framing parser: uint16 type | uint32 len | payload, all-or-nothing.
func refParse(b []byte) []rec {
	var out []rec
	pos := 0
	for pos+6 <= len(b) {
		t := binary.LittleEndian.Uint16(b[pos:])
		n := int(binary.LittleEndian.Uint32(b[pos+2:]))
		if pos+6+n > len(b) {
			break
		}
		out = append(out, rec{Type: t, Len: n, Sum: sumOf(b[pos+6 : pos+6+n])})
		pos += 6 + n
	}
	return out
}

func sameRecs(a, b []rec) bool {
	if len(a) != len(b) {
		return false
	}
	for i := range a {
		if a[i].Type != b[i].Type || a[i].Len != b[i].Len || a[i].Sum != b[i].Sum {
			return false
		}
	}
	return true
}

func fmtRecs(rs []rec) string {
	s := "["
	for i, r := range rs {
		if i > 0 {
			s += " "
		}
		s += fmt.Sprintf("t%d/%dB/%s", r.Type, r.Len, r.Sum[:4])
	}
	return s + "]"
}

type readOut struct {
	ReadAll      []rec  `json:"readall"`
	ReadAllErr   string `json:"readall_err"`
	ReadAllPanic string `json:"readall_panic"`
	Stream       []rec  `json:"stream"`
	StreamErr    string `json:"stream_err"`
	StreamPanic  string `json:"stream_panic"`
}

// tornLogs writes records through the real filelog store, truncates the file at every byte offset
// of the last two records (and a sample of earlier offsets), and requires ReadAll / StreamAll to
// return exactly the completely written records; then appends after the torn tail and reads again.
func tornLogs(c *drv.Ctx, bin string) error {
	dir, err := c.NewDataDir("torn", drv.ConfOpts{})
	if err != nil {
		return err
	}
	w, err := drv.StartWorker(bin, dir, drv.StartOpts{})
	if err != nil {
		return err
	}
	defer w.Kill()
	nsets := c.N(3, 12)
	for si := 0; si < nsets; si++ {
		logDir := filepath.Join(c.Scratch, fmt.Sprintf("flog%d", si))
		os.RemoveAll(logDir)
		var recs []rec
		nrec := 3 + c.Rand.Intn(4)
		for i := 0; i < nrec; i++ {
			n := []int{0, 1, 5, 17, 64, 300, 4097}[c.Rand.Intn(7)]
			if i >= nrec-2 && n > 80 && c.Quick() {
				n = 9 + c.Rand.Intn(40)
			}
			b := make([]byte, n)
			for j := range b {
				b[j] = byte(1 + c.Rand.Intn(255)) // never NUL: padding is recognisable
			}
			recs = append(recs, rec{Type: uint16(1 + c.Rand.Intn(5)), Data: b})
		}
		args := map[string]interface{}{"path": logDir, "data": "dataA", "version": "verA", "records": recs}
		if err := w.API("flog.append", args, nil); err != nil {
			return fmt.Errorf("flog.append: %v", err)
		}
		file := filepath.Join(logDir, "dataA-verA")
		full, err := os.ReadFile(file)
		if err != nil {
			return err
		}
		want := refParse(full)
		if len(want) != len(recs) {
			c.Violation("filelog:framing-differs-from-documented", fmt.Sprintf("a log of %d appended records parses to %d records with the documented framing", len(recs), len(want)), nil)
			continue
		}
		// offsets: every byte of the last two records, sampled earlier ones
		tail := 0
		for _, r := range recs[len(recs)-2:] {
			tail += 6 + len(r.Data)
		}
		var offs []int
		for o := len(full) - tail; o <= len(full); o++ {
			offs = append(offs, o)
		}
		for i := 0; i < 12; i++ {
			if len(full)-tail > 0 {
				offs = append(offs, c.Rand.Intn(len(full)-tail))
			}
		}
		for _, o := range offs {
			if err := os.WriteFile(file, full[:o], 0644); err != nil {
				return err
			}
			exp := refParse(full[:o])
			var got readOut
			if err := w.API("flog.read", map[string]interface{}{"path": logDir, "data": "dataA", "version": "verA"}, &got); err != nil {
				if w.Dead() {
					c.Violation("filelog:reader-kills-process", fmt.Sprintf("reading a log torn at byte %d of %d killed the process: %s", o, len(full), drv.Trunc(drv.FatalInStderr(w.Stderr()), 500)), map[string]interface{}{"lens": lens(recs), "torn_at": o})
					return nil
				}
				return fmt.Errorf("flog.read: %v", err)
			}
			tornInPayload := o < len(full) && len(exp) < len(want) && o-consumed(exp) >= 6
			where := "header"
			if tornInPayload {
				where = "payload"
			}
			c.Case(fmt.Sprintf("torn|%v|%d", lens(recs), o), len(exp) < len(want))
			c.Count("torn_reads", 2)
			wit := map[string]interface{}{"record_lengths": lens(recs), "file_bytes": len(full), "torn_at": o, "expected": fmtRecs(exp)}
			if got.ReadAllPanic != "" {
				c.Violation("filelog:readall-panic:torn-"+where, fmt.Sprintf("ReadAll panics on a log torn at byte %d (in a %s): %s", o, where, got.ReadAllPanic), wit)
			} else if got.ReadAllErr == "" && !sameRecs(got.ReadAll, exp) {
				c.Violation("filelog:readall-wrong-records:torn-"+where, fmt.Sprintf("ReadAll on a log torn at byte %d (in a %s) returns %s, completely written records are %s", o, where, fmtRecs(got.ReadAll), fmtRecs(exp)), wit)
			}
			if got.StreamPanic != "" {
				c.Violation("filelog:streamall-panic:torn-"+where, fmt.Sprintf("StreamAll panics on a log torn at byte %d (in a %s): %s", o, where, got.StreamPanic), wit)
			} else if got.StreamErr == "" && !sameRecs(got.Stream, exp) {
				c.Violation("filelog:streamall-wrong-records:torn-"+where, fmt.Sprintf("StreamAll on a log torn at byte %d (in a %s) returns %s, completely written records are %s", o, where, fmtRecs(got.Stream), fmtRecs(exp)), wit)
			}
			// append after the torn tail (what a restarted server does), then read: the new record must be there
			if o%3 == 0 || o >= len(full)-8 {
				nr := rec{Type: 9, Data: []byte("appended-after-restart")}
				if err := w.API("flog.append", map[string]interface{}{"path": logDir, "data": "dataA", "version": "verA", "records": []rec{nr}}, nil); err != nil {
					return fmt.Errorf("flog.append after tear: %v", err)
				}
				var got2 readOut
				if err := w.API("flog.read", map[string]interface{}{"path": logDir, "data": "dataA", "version": "verA"}, &got2); err != nil {
					return fmt.Errorf("flog.read after append: %v", err)
				}
				exp2 := append(append([]rec{}, exp...), rec{Type: 9, Len: len(nr.Data), Sum: sumOf(nr.Data)})
				c.Case(fmt.Sprintf("torn-append|%v|%d", lens(recs), o), true)
				if got2.ReadAllPanic != "" || got2.StreamPanic != "" {
					c.Violation("filelog:append-after-torn-tail:panic", fmt.Sprintf("after appending a record to a log torn at byte %d (in a %s) the readers panic: %s %s", o, where, got2.ReadAllPanic, got2.StreamPanic), wit)
				} else if !sameRecs(got2.ReadAll, exp2) || !sameRecs(got2.Stream, exp2) {
					kind := "torn-" + where
					if o == consumed(exp) {
						kind = "clean-tail"
					}
					c.Violation("filelog:append-after-torn-tail:"+kind, fmt.Sprintf("a record appended after a log torn at byte %d (in a %s) is not returned intact: ReadAll %s StreamAll %s, expected %s", o, where, fmtRecs(got2.ReadAll), fmtRecs(got2.Stream), fmtRecs(exp2)), wit)
				}
			}
		}
		if si == 0 {
			c.Sample(map[string]interface{}{"torn_log_record_lengths": lens(recs), "offsets_tried": len(offs)})
		}
	}
	return nil
}

func lens(rs []rec) []int {
	var out []int
	for _, r := range rs {
		out = append(out, len(r.Data))
	}
	return out
}

// consumed returns the number of bytes covered by complete records.
func consumed(rs []rec) int {
	n := 0
	for _, r := range rs {
		n += 6 + r.Len
	}
	return n
}
