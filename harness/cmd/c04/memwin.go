package main

import (
	"fmt"
	"os"
	"path/filepath"
	"sort"
	"strconv"
	"strings"
	"time"

	"verif/harness/internal/drv"
	"verif/harness/internal/mixed"
)

// memtableWindows plants the two store-file states a process death leaves inside Badger's own file handling and
// that no store-call boundary exposes: the flusher deletes a memtable it has written out with truncate(0) + close +
// remove, and a new memtable is created with create + truncate(size).  A SIGKILL between the two system calls leaves
// a zero-length NNNNN.mem (seen for real when a harness kill landed in that window on a loaded machine).  Both states
// hold no data, so the next start must succeed and serve exactly the acknowledged state.
func memtableWindows(c *drv.Ctx, bin string, cs *census, name string) error {
	dir, err := c.NewDataDir(name+"-memwin", drv.ConfOpts{})
	if err != nil {
		return err
	}
	defer os.RemoveAll(dir)
	w, err := drv.StartWorker(bin, dir, drv.StartOpts{})
	if err != nil {
		return err
	}
	wd, done, died, err := runWorkload(w, cs.seed, cs.types, cs.nops, nil)
	if err != nil || died || done != cs.nops {
		w.Kill()
		return fmt.Errorf("memtable-window workload: done=%d died=%v err=%v", done, died, err)
	}
	if err := w.Settle(); err != nil {
		w.Kill()
		return err
	}
	w.Kill() // idle: all acknowledged writes are in the active memtable's file
	want := cs.snaps[len(cs.snaps)-1]
	for _, kind := range []string{"flushed-memtable-truncated-not-removed", "new-memtable-created-not-sized"} {
		// a start-up replays the memtable file, flushes it and deletes it; wait for that to finish, then stop
		w2, err := drv.StartWorker(bin, dir, drv.StartOpts{})
		if err != nil {
			c.Violation("restart-fails:memtable-window:setup", fmt.Sprintf("start before planting %s fails: %v; stderr: %s", kind, err, drv.Trunc(drv.FatalInStderr(w2.Stderr()), 500)), nil)
			return nil
		}
		if !drv.WaitStoreIdle(dir, 20*time.Second) {
			w2.Kill()
			c.Inconclusive("memtable-window:" + kind + ": store did not become idle")
			continue
		}
		w2.Kill()
		mems, _ := filepath.Glob(filepath.Join(dir, "db", "*.mem"))
		if len(mems) != 1 {
			c.Inconclusive(fmt.Sprintf("memtable-window:%s: %d memtable files", kind, len(mems)))
			continue
		}
		fid, err := strconv.Atoi(strings.TrimSuffix(filepath.Base(mems[0]), ".mem"))
		if err != nil {
			return err
		}
		plant := fid - 1 // the memtable the start-up above replayed, flushed and removed
		if kind == "new-memtable-created-not-sized" {
			plant = fid + 1
		}
		if plant < 1 {
			c.Inconclusive("memtable-window:" + kind + ": no flushed memtable id available")
			continue
		}
		pf := filepath.Join(dir, "db", fmt.Sprintf("%05d.mem", plant))
		if err := os.WriteFile(pf, nil, 0600); err != nil {
			return err
		}
		c.Case(fmt.Sprintf("%s|memwin|%s|fid%d", name, kind, plant), true)
		c.Seen("store_file_windows", kind)
		witness := map[string]interface{}{"workload_seed": cs.seed, "types": cs.types, "nops": cs.nops, "planted": filepath.Base(pf), "active_memtable": filepath.Base(mems[0])}
		w3, err := drv.StartWorker(bin, dir, drv.StartOpts{})
		if err != nil {
			c.Violation("restart-fails:memtable-window:"+kind, fmt.Sprintf("a zero-length %s next to %s (process killed inside Badger's %s) makes the next start fail: %v; stderr: %s",
				filepath.Base(pf), filepath.Base(mems[0]), kind, err, drv.Trunc(drv.FatalInStderr(w3.Stderr()), 300)), witness)
			os.Remove(pf)
			continue
		}
		wd.W, wd.C.W = w3, w3
		got, err := wd.SnapshotH(nil, cs.hints)
		if err != nil {
			c.Violation("snapshot-fails:memtable-window:"+kind, fmt.Sprintf("read surface fails after %s: %v", kind, err), witness)
		} else if d := mixed.Diff(want, got); len(d) > 0 {
			sort.Strings(d)
			c.Violation("acknowledged-state-lost:memtable-window:"+kind, fmt.Sprintf("after %s the acknowledged state differs (%d urls): %s", kind, len(d), strings.Join(head(d, 3), " || ")), witness)
		} else {
			c.Count("memtable_window_recoveries", 1)
		}
		drv.WaitStoreIdle(dir, 10*time.Second)
		w3.Kill()
	}
	return nil
}
