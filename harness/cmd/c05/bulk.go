package main

import (
	"encoding/json"
	"fmt"
	"sort"

	"verif/harness/internal/drv"
	"verif/harness/internal/dvc"
)

// bulk: intervals that hold many keys.  DeleteRange and the range scans work through the store in batches
// (storage/badger DeleteRange flushes every 1000 deletes), so interval sizes just below, at and just above a multiple
// of that batch size are part of "every interval": N keys at a committed root, an open child, one DeleteRange over
// exactly the first M of them; afterwards the child lists exactly the N-M others, every deleted key is absent by point
// read at its ends and in the middle, and the root still lists all N.
func bulk(c *drv.Ctx, w *drv.Worker, sizes [][2]int) error {
	cl := &dvc.Client{W: w}
	for _, sz := range sizes {
		n, m := sz[0], sz[1]
		root, err := cl.NewRepo(fmt.Sprintf("bulk-%d-%d", n, m))
		if err != nil {
			return err
		}
		if err := cl.NewInstance(root, "keyvalue", "kv", nil); err != nil {
			return err
		}
		key := func(i int) string { return fmt.Sprintf("key-%07d", i) }
		for i := 0; i < n; i++ {
			r, err := w.Post("/api/node/"+root+"/kv/key/"+key(i), []byte(fmt.Sprintf("v%d", i)))
			if err != nil {
				return err
			}
			if !r.OK() {
				return fmt.Errorf("bulk fill: %s", r)
			}
		}
		if err := cl.Commit(root); err != nil {
			return err
		}
		child, err := cl.NewVersion(root)
		if err != nil {
			return err
		}
		var out struct {
			Err string `json:"err"`
		}
		args := map[string]interface{}{"uuid": child, "name": "kv", "unversioned": false, "lo": key(0), "hi": key(m - 1)}
		if err := w.API("c05.deleterange", args, &out); err != nil {
			return err
		}
		c.Case(fmt.Sprintf("bulk|deleterange|%d-of-%d", m, n), true)
		c.Count("bulk_deleterange_calls", 1)
		c.Count("bulk_keys_deleted", m)
		wit := map[string]interface{}{"keys_at_root": n, "interval": []string{key(0), key(m - 1)}, "keys_in_interval": m}
		if out.Err != "" {
			c.Violation("c05:bulk:DeleteRange:unexpected-error", fmt.Sprintf("DeleteRange over %d of %d keys failed: %s", m, n, out.Err), wit)
			continue
		}
		list := func(u string) ([]string, error) {
			r, err := w.Get("/api/node/" + u + "/kv/keys")
			if err != nil {
				return nil, err
			}
			var ks []string
			if err := json.Unmarshal(r.Body, &ks); err != nil {
				return nil, fmt.Errorf("GET keys at %s: %s", u, r)
			}
			sort.Strings(ks)
			return ks, nil
		}
		ck, err := list(child)
		if err != nil {
			return err
		}
		var left []string
		for _, k := range ck {
			if k <= key(m-1) {
				left = append(left, k)
			}
		}
		if len(left) > 0 || len(ck) != n-m {
			c.Violation("c05:bulk:DeleteRange:keys-left-in-interval", fmt.Sprintf("DeleteRange [%s,%s] (%d keys, %d at the version) returned nil but GET keys still lists %d key(s) of the interval (%v) and %d keys in all, expected %d", key(0), key(m-1), m, n, len(left), head(left, 4), len(ck), n-m), wit)
		}
		for _, i := range []int{0, m / 2, m - 1} {
			r, err := w.Get("/api/node/" + child + "/kv/key/" + key(i))
			if err != nil {
				return err
			}
			if r.Status != 404 {
				c.Violation("c05:bulk:DeleteRange:point-read-still-present", fmt.Sprintf("after DeleteRange over %d keys, GET key %s at the version answers %d", m, key(i), r.Status), wit)
			}
		}
		if m < n {
			r, err := w.Get("/api/node/" + child + "/kv/key/" + key(m))
			if err != nil {
				return err
			}
			if r.Status != 200 {
				c.Violation("c05:bulk:DeleteRange:deleted-outside-interval", fmt.Sprintf("after DeleteRange [%s,%s], the next key %s answers %d", key(0), key(m-1), key(m), r.Status), wit)
			}
		}
		rk, err := list(root)
		if err != nil {
			return err
		}
		if len(rk) != n {
			c.Violation("c05:bulk:DeleteRange:parent-changed", fmt.Sprintf("after DeleteRange at the child the committed parent lists %d keys, expected %d", len(rk), n), wit)
		}
		// range consumers over the emptied interval and over everything
		for _, q := range []struct {
			path string
			want int
		}{{fmt.Sprintf("keyrange/%s/%s", key(0), key(m-1)), 0}, {fmt.Sprintf("keyrange/%s/%s", key(0), key(n)), n - m}} {
			r, err := w.Get("/api/node/" + child + "/kv/" + q.path)
			if err != nil {
				return err
			}
			var ks []string
			json.Unmarshal(r.Body, &ks)
			if r.Status != 200 || len(ks) != q.want {
				c.Violation("c05:bulk:keyrange-disagrees", fmt.Sprintf("GET %s at the child after DeleteRange over %d of %d keys lists %d keys (status %d), expected %d", q.path, m, n, len(ks), r.Status, q.want), wit)
			}
		}
	}
	return nil
}

func head(s []string, n int) []string {
	if len(s) > n {
		return s[:n]
	}
	return s
}
