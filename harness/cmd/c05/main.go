// C05 — range and listing queries agree with point reads; DeleteRange semantics.
//
// Oracle, per version V and interval [lo,hi] (inclusive on both ends):
//
//	(a) internal consistency: the result of every range / listing / streaming consumer must be exactly
//	    {(k, GET key/k at V) : lo <= k <= hi, GET succeeds}, ascending, no duplicates;
//	(b) the versioned-map model (dvc.VMap, C01's rule) predicts the same set.
//
// Consumers: storage API GetRange / KeysInRange / SendKeysInRange / ProcessRange (+ Get), HTTP keys,
// keyrange, keyrangevalues in json / tar / protobuf, keyvalues (GET with body) in json / tar / protobuf.
// DeleteRange at an open version V: exactly the keys of the interval present at V become absent at V
// (and whatever inherits from V); every other (key, version) cell is unchanged.
package main

import (
	"encoding/json"
	"fmt"
	"math/rand"
	"sort"
	"strings"
	"sync"

	"verif/harness/internal/drv"
	"verif/harness/internal/dvc"
	"verif/harness/internal/kvwire"
)

func main() { drv.Main("C05", "exploration", run) }

// ---------- key universe ----------

// prefix-related names, first ('-') and last ('~') safe characters, numeric look-alikes
// and two legal names beyond the Basic Multilingual Plane (first byte 0xF0: they sort after every 1..3-byte character)
var baseKeys = []string{"-", "0", "a", "a-", "a0", "aa", "ab", "a~", "b", "k1", "k10", "~", "\U0001F600", "\U0001F600a"}

// interval ends that are NOT keys (fall between / after keys)
var baseExtras = []string{"--", "a1", "aaa", "k0", "zz", "~~", "\uffff"}

const alphabet = "-0_ak~"

func buildUniverse(r *rand.Rand, n int) (keys, extras []string) {
	seen := map[string]bool{}
	for _, k := range baseKeys {
		seen[k] = true
		keys = append(keys, k)
	}
	for len(keys) < n {
		l := 1 + r.Intn(3)
		b := make([]byte, l)
		for i := range b {
			b[i] = alphabet[r.Intn(len(alphabet))]
		}
		if s := string(b); !seen[s] {
			seen[s] = true
			keys = append(keys, s)
		}
	}
	for _, e := range baseExtras {
		if !seen[e] {
			seen[e] = true
			extras = append(extras, e)
		}
	}
	sort.Strings(keys)
	sort.Strings(extras)
	return
}

// ---------- truth tables ----------

type cell struct {
	Kind dvc.ReadKind
	Val  string
}

// point is the implementation's own point read.
type point struct {
	Status int
	Body   string
}

// bound is one interval end: a key string, or the class minimum / maximum.
type bound struct {
	S   string
	Min bool
	Max bool
}

func (b bound) String() string {
	if b.Min {
		return "<MIN>"
	}
	if b.Max {
		return "<MAX>"
	}
	return b.S
}

func inRange(k string, lo, hi bound) bool {
	if !lo.Min && (lo.Max || k < lo.S) {
		return false
	}
	if !hi.Max && (hi.Min || k > hi.S) {
		return false
	}
	return true
}

type rangeRes struct {
	Keys []string
	Vals []string // nil: keys-only consumer
	Err  string
}

// ---------- one history ----------

type hist struct {
	c       *drv.Ctx
	w       *drv.Worker
	r       *rand.Rand
	tag     string
	h       *dvc.Hist
	m       *dvc.VMap
	keys    []string
	extras  []string
	ends    []string          // keys + extras, sorted
	uk      map[string]string // HTTP-unversioned instance "ukv"
	ak      map[string]string // API-unversioned context instance "akv"
	seq     int
	opsSeen int
	trace   []string
	thash   string
}

func (x *hist) log(f string, a ...interface{}) {
	x.pullOps()
	x.trace = append(x.trace, fmt.Sprintf(f, a...))
	x.thash = ""
}

// pullOps appends the DAG operations dvc.Hist has performed since the last call to the trace.
func (x *hist) pullOps() {
	for ; x.opsSeen < len(x.h.Ops); x.opsSeen++ {
		x.trace = append(x.trace, x.h.Ops[x.opsSeen])
		x.thash = ""
	}
}

func (x *hist) traceHash() string {
	if x.thash == "" {
		x.thash = drv.Hash(x.trace...)
	}
	return x.thash
}

func (x *hist) witness(extra map[string]interface{}) map[string]interface{} {
	w := map[string]interface{}{"history": x.tag, "dag": x.h.D.Shape(), "trace": append([]string{}, x.trace...), "keys": x.keys}
	for k, v := range extra {
		w[k] = v
	}
	return w
}

// one violation per key and run: the key names the class (consumer x kind of disagreement); repeats are counted.
var reported sync.Map

func (x *hist) viol(key, what string, extra map[string]interface{}) {
	x.pullOps()
	if _, dup := reported.LoadOrStore(key, true); dup {
		x.c.Count("repeats_of_reported_violation_keys", 1)
		return
	}
	x.c.Violation(key, what+"; history: "+drv.Trunc(strings.Join(x.trace, "; "), 1500), x.witness(extra))
}

func (x *hist) value(key, v string) string {
	x.seq++
	return fmt.Sprintf(`{"v":"%s#%d@%s"}`, key, x.seq, x.h.Short(v))
}

func (x *hist) par(reqs []drv.Req) ([]drv.Resp, error) {
	var out []drv.Resp
	for i := 0; i < len(reqs); i += 96 {
		j := i + 96
		if j > len(reqs) {
			j = len(reqs)
		}
		rs, err := x.w.Par(reqs[i:j])
		if err != nil {
			return nil, err
		}
		if len(rs) != j-i {
			return nil, fmt.Errorf("par returned %d responses for %d requests", len(rs), j-i)
		}
		out = append(out, rs...)
	}
	return out, nil
}

// truth of the versioned instance at v by the model
func (x *hist) modelAt(v string) map[string]cell {
	t := map[string]cell{}
	for _, k := range x.keys {
		rr := x.m.Read(k, v)
		t[k] = cell{rr.Kind, rr.Val}
	}
	return t
}

func plainTruth(keys []string, m map[string]string) map[string]cell {
	t := map[string]cell{}
	for _, k := range keys {
		if v, ok := m[k]; ok {
			t[k] = cell{dvc.Value, v}
		} else {
			t[k] = cell{dvc.Absent, ""}
		}
	}
	return t
}

// points reads every key of the universe individually through HTTP.
func (x *hist) points(v, inst string) (map[string]point, error) {
	reqs := make([]drv.Req, len(x.keys))
	for i, k := range x.keys {
		reqs[i] = drv.Req{Method: "GET", URL: "/api/node/" + v + "/" + inst + "/key/" + k}
	}
	rs, err := x.par(reqs)
	if err != nil {
		return nil, err
	}
	p := map[string]point{}
	for i, k := range x.keys {
		p[k] = point{rs[i].Status, string(rs[i].Body)}
	}
	x.c.Count("http_point_reads", len(reqs))
	return p, nil
}

// checkPoints compares point reads with the truth table (model); returns false on mismatch.
func (x *hist) checkPoints(where, v string, p map[string]point, t map[string]cell) {
	for _, k := range x.keys {
		pt, tc := p[k], t[k]
		bad := ""
		switch tc.Kind {
		case dvc.Absent:
			if pt.Status != 404 {
				bad = fmt.Sprintf("model says absent, GET returned %d %s", pt.Status, drv.Trunc(pt.Body, 80))
			}
		case dvc.Value:
			if pt.Status != 200 || pt.Body != tc.Val {
				bad = fmt.Sprintf("model says %q, GET returned %d %s", tc.Val, pt.Status, drv.Trunc(pt.Body, 80))
			}
		case dvc.Conflict:
			if pt.Status == 200 {
				bad = fmt.Sprintf("model says unresolved merge conflict, GET succeeded with %s", drv.Trunc(pt.Body, 80))
			}
		}
		if bad != "" {
			x.viol("c05:point-vs-model:"+where, fmt.Sprintf("%s: point read of key %q at %s: %s", where, k, x.h.Short(v), bad),
				map[string]interface{}{"key": k, "version": x.h.Short(v), "where": where})
		}
	}
}

// judge evaluates one range result against point reads (a) and truth table (b).
func (x *hist) judge(layer, consumer, inst, v string, lo, hi bound, res rangeRes, p map[string]point, t map[string]cell) {
	x.c.Count("results_"+layer+"_"+consumer, 1)
	var expK, expV []string
	var conflicts []string
	for _, k := range x.keys {
		if !inRange(k, lo, hi) {
			continue
		}
		switch t[k].Kind {
		case dvc.Value:
			expK = append(expK, k)
			expV = append(expV, t[k].Val)
		case dvc.Conflict:
			conflicts = append(conflicts, k)
		}
	}
	pre := "c05:" + layer + ":" + consumer + ":"
	if len(conflicts) > 0 {
		pre = "c05:conflict:" + layer + ":" + consumer + ":"
		x.c.Count("results_with_conflict_key_in_interval", 1)
		if res.Err != "" {
			x.c.Count("conflict_interval_request_errors", 1)
			return // accepted outcome: request error
		}
	}
	desc := fmt.Sprintf("%s %s on %q at %s over [%s, %s]", layer, consumer, inst, x.h.Short(v), lo, hi)
	extra := map[string]interface{}{"layer": layer, "consumer": consumer, "instance": inst, "version": x.h.Short(v), "lo": lo.String(), "hi": hi.String(),
		"got_keys": res.Keys, "got_vals": res.Vals, "got_err": res.Err, "expected_keys": expK, "conflict_keys_in_interval": conflicts}
	if res.Err != "" {
		x.viol(pre+"unexpected-error", desc+": request failed although no key of the interval is in conflict: "+drv.Trunc(res.Err, 200), extra)
		return
	}
	// (a) internal consistency with the implementation's own point reads
	if p != nil {
		var pk, pv []string
		for _, k := range x.keys {
			if inRange(k, lo, hi) && p[k].Status == 200 {
				pk = append(pk, k)
				pv = append(pv, p[k].Body)
			}
		}
		if kind, what := diff(res, pk, pv); kind != "" {
			x.viol(pre+"vs-point-reads:"+kind, desc+" disagrees with the individual reads (GET key/k): "+what, extra)
			return
		}
	}
	// (b) the model
	if kind, what := diff(res, expK, expV); kind != "" {
		x.viol(pre+"vs-model:"+kind, desc+" disagrees with the versioned-map model: "+what, extra)
	}
}

func diff(res rangeRes, expK, expV []string) (kind, what string) {
	seen := map[string]bool{}
	for i, k := range res.Keys {
		if seen[k] {
			return "duplicate", fmt.Sprintf("key %q returned twice (%v)", k, res.Keys)
		}
		seen[k] = true
		if i > 0 && res.Keys[i-1] >= k {
			return "order", fmt.Sprintf("keys not ascending: %v", res.Keys)
		}
	}
	exp := map[string]string{}
	for i, k := range expK {
		exp[k] = expV[i]
		if !seen[k] {
			return "missing-key", fmt.Sprintf("key %q (individually readable) is missing; got %v, expected %v", k, res.Keys, expK)
		}
	}
	for i, k := range res.Keys {
		ev, ok := exp[k]
		if !ok {
			return "extra-key", fmt.Sprintf("key %q returned but its individual read finds nothing / it lies outside the interval; got %v, expected %v", k, res.Keys, expK)
		}
		if res.Vals != nil && res.Vals[i] != ev {
			return "wrong-value", fmt.Sprintf("key %q returned with value %s, individual read gives %s", k, drv.Trunc(res.Vals[i], 80), drv.Trunc(ev, 80))
		}
	}
	return "", ""
}

// nontrivial: the interval holds a datum with stored entries whose resolution at v is not "its own single entry".
func (x *hist) nontrivial(v string, lo, hi bound) bool {
	for _, k := range x.keys {
		if !inRange(k, lo, hi) || len(x.m.Ent[k]) == 0 {
			continue
		}
		rr := x.m.Read(k, v)
		if !(rr.NCand == 1 && rr.Kind == dvc.Value && rr.From == v) {
			return true
		}
	}
	return false
}

func (x *hist) endBound(i int) bound {
	switch i {
	case -1:
		return bound{Min: true}
	case -2:
		return bound{Max: true}
	}
	return bound{S: x.ends[i]}
}

type apiRange struct {
	K []string `json:"k"`
	V []string `json:"v"`
	E string   `json:"e"`
}

type apiSweep struct {
	Points map[string]struct {
		Found bool   `json:"found"`
		Val   string `json:"val"`
		Err   string `json:"err"`
	} `json:"points"`
	Ranges []map[string]apiRange `json:"ranges"`
}

// apiCheck runs the storage-API consumers over the given pairs (indices into x.ends, -1/-2 = class min/max).
func (x *hist) apiCheck(v, inst string, unversioned bool, pairs [][2]int, p map[string]point, t map[string]cell, countCases bool) error {
	var out apiSweep
	err := x.w.API("c05.sweep", map[string]interface{}{"uuid": v, "name": inst, "unversioned": unversioned, "keys": x.keys, "endpoints": x.ends, "pairs": pairs}, &out)
	if err != nil {
		if ae, ok := err.(*drv.APIError); ok {
			x.viol("c05:api:sweep-failed", "c05.sweep failed: "+ae.Msg, nil)
			return nil
		}
		return err
	}
	if len(out.Ranges) != len(pairs) {
		return fmt.Errorf("c05.sweep returned %d results for %d pairs", len(out.Ranges), len(pairs))
	}
	// api point reads vs truth (and vs HTTP point reads)
	for _, k := range x.keys {
		ap := out.Points[k]
		tc := t[k]
		x.c.Count("api_point_reads", 1)
		bad := ""
		switch {
		case ap.Err != "":
			if tc.Kind != dvc.Conflict {
				bad = "Get failed: " + ap.Err
			}
		case tc.Kind == dvc.Value && (!ap.Found || ap.Val != tc.Val):
			bad = fmt.Sprintf("expected %q, Get returned found=%v %q", tc.Val, ap.Found, ap.Val)
		case tc.Kind != dvc.Value && ap.Found:
			bad = fmt.Sprintf("expected nothing, Get returned %q", ap.Val)
		}
		if bad == "" && p != nil && ap.Err == "" && ap.Found != (p[k].Status == 200) {
			bad = fmt.Sprintf("storage Get found=%v but HTTP GET key returned %d", ap.Found, p[k].Status)
		}
		if bad != "" {
			x.viol("c05:api:Get", fmt.Sprintf("api Get of key %q on %q at %s: %s", k, inst, x.h.Short(v), bad), map[string]interface{}{"key": k, "version": x.h.Short(v), "instance": inst})
		}
	}
	// with an unversioned storage context there is no HTTP point read: use the API's own Get as (a)
	pp := p
	if pp == nil {
		pp = map[string]point{}
		for _, k := range x.keys {
			if ap := out.Points[k]; ap.Found {
				pp[k] = point{200, ap.Val}
			} else {
				pp[k] = point{404, ""}
			}
		}
	}
	for i, pr := range pairs {
		lo, hi := x.endBound(pr[0]), x.endBound(pr[1])
		if countCases {
			x.caseFor(inst, v, lo, hi, t)
		}
		for _, consumer := range []string{"GetRange", "KeysInRange", "SendKeysInRange", "ProcessRange"} {
			ar, ok := out.Ranges[i][consumer]
			if !ok {
				return fmt.Errorf("c05.sweep: no %s result", consumer)
			}
			res := rangeRes{Keys: ar.K, Err: ar.E}
			if consumer == "GetRange" || consumer == "ProcessRange" {
				res.Vals = ar.V
				if res.Vals == nil {
					res.Vals = []string{}
				}
			}
			x.judge("api", consumer, inst, v, lo, hi, res, pp, t)
		}
	}
	return nil
}

func (x *hist) caseFor(inst, v string, lo, hi bound, t map[string]cell) {
	nt := false
	if inst == "kv" {
		nt = x.nontrivial(v, lo, hi)
	} else {
		// unversioned instances: non-trivial when the interval splits the present keys (some inside, some outside)
		in, out := 0, 0
		for _, k := range x.keys {
			if t[k].Kind == dvc.Value {
				if inRange(k, lo, hi) {
					in++
				} else {
					out++
				}
			}
		}
		nt = in > 0 && out > 0
	}
	x.c.Case(x.traceHash()+"|"+inst+"|"+x.h.Short(v)+"|"+lo.String()+"|"+hi.String(), nt)
}

type httpJob struct {
	consumer string
	lo, hi   bound
	req      drv.Req
	keysReq  []string // keyvalues: requested keys in order
}

func decodeJSONList(b []byte) ([]string, error) {
	var l []string
	if err := json.Unmarshal(b, &l); err != nil {
		return nil, err
	}
	if l == nil {
		l = []string{}
	}
	return l, nil
}

func kvsToRes(kvs []kvwire.KV) rangeRes {
	res := rangeRes{Keys: []string{}, Vals: []string{}}
	for _, kv := range kvs {
		res.Keys = append(res.Keys, kv.K)
		res.Vals = append(res.Vals, string(kv.V))
	}
	return res
}

// httpCheck runs the HTTP consumers for the given intervals (key strings only; whole-space is GET keys).
func (x *hist) httpCheck(v, inst string, ivs [][2]string, p map[string]point, t map[string]cell, countCases bool) error {
	base := "/api/node/" + v + "/" + inst + "/"
	var jobs []httpJob
	jobs = append(jobs, httpJob{consumer: "keys", lo: bound{Min: true}, hi: bound{Max: true}, req: drv.Req{Method: "GET", URL: base + "keys"}})
	for _, iv := range ivs {
		lo, hi := bound{S: iv[0]}, bound{S: iv[1]}
		jobs = append(jobs,
			httpJob{consumer: "keyrange", lo: lo, hi: hi, req: drv.Req{Method: "GET", URL: base + "keyrange/" + iv[0] + "/" + iv[1]}},
			httpJob{consumer: "keyrangevalues-json", lo: lo, hi: hi, req: drv.Req{Method: "GET", URL: base + "keyrangevalues/" + iv[0] + "/" + iv[1] + "?json=true"}},
			httpJob{consumer: "keyrangevalues-tar", lo: lo, hi: hi, req: drv.Req{Method: "GET", URL: base + "keyrangevalues/" + iv[0] + "/" + iv[1] + "?tar=true"}},
			httpJob{consumer: "keyrangevalues-protobuf", lo: lo, hi: hi, req: drv.Req{Method: "GET", URL: base + "keyrangevalues/" + iv[0] + "/" + iv[1]}},
		)
	}
	// keyvalues (GET with body): shuffled universe plus a key that never exists
	ask := append(append([]string{}, x.keys...), "nokey")
	x.r.Shuffle(len(ask), func(i, j int) { ask[i], ask[j] = ask[j], ask[i] })
	askJSON, _ := json.Marshal(ask)
	jobs = append(jobs,
		httpJob{consumer: "keyvalues-json", keysReq: ask, req: drv.Req{Method: "GET", URL: base + "keyvalues?json=true", Body: askJSON}},
		httpJob{consumer: "keyvalues-tar", keysReq: ask, req: drv.Req{Method: "GET", URL: base + "keyvalues?jsontar=true", Body: askJSON}},
		httpJob{consumer: "keyvalues-protobuf", keysReq: ask, req: drv.Req{Method: "GET", URL: base + "keyvalues", Body: kvwire.EncodeKeys(ask)}},
	)
	reqs := make([]drv.Req, len(jobs))
	for i := range jobs {
		reqs[i] = jobs[i].req
	}
	rs, err := x.par(reqs)
	if err != nil {
		return err
	}
	for i, j := range jobs {
		r := rs[i]
		if j.keysReq != nil {
			x.judgeKeyValues(j, inst, v, r, p)
			continue
		}
		if countCases && j.consumer == "keyrange" {
			x.caseFor(inst, v, j.lo, j.hi, t)
		}
		var res rangeRes
		if !r.OK() {
			res.Err = fmt.Sprintf("HTTP %d %s", r.Status, drv.Trunc(string(r.Body), 200))
		} else {
			var derr error
			switch j.consumer {
			case "keys", "keyrange":
				res.Keys, derr = decodeJSONList(r.Body)
			case "keyrangevalues-json":
				kvs, trailing, e := kvwire.DecodeJSONObject(r.Body)
				derr = e
				res = kvsToRes(kvs)
				if e == nil && len(trailing) > 0 {
					res.Err = "error text after the JSON object: " + drv.Trunc(string(trailing), 200)
				}
			case "keyrangevalues-tar":
				kvs, trailing, e := kvwire.DecodeTar(r.Body)
				derr = e
				res = kvsToRes(kvs)
				if e == nil && len(trailing) > 0 {
					res.Err = "error text after the tar archive: " + drv.Trunc(string(trailing), 200)
				}
			case "keyrangevalues-protobuf":
				kvs, e := kvwire.DecodeKeyValues(r.Body)
				derr = e
				res = kvsToRes(kvs)
			}
			if derr != nil {
				// "malformed output will inform the requester of an error" (help text of keyrangevalues)
				res.Err = "malformed response: " + derr.Error() + ": " + drv.Trunc(string(r.Body), 200)
			}
		}
		x.judge("http", j.consumer, inst, v, j.lo, j.hi, res, p, t)
	}
	return nil
}

// judgeKeyValues: every requested key once, in request order; found keys carry the point-read value,
// keys that are not found carry the documented empty value (0 bytes, "{}" in JSON).
func (x *hist) judgeKeyValues(j httpJob, inst, v string, r drv.Resp, p map[string]point) {
	x.c.Count("results_http_"+j.consumer, 1)
	desc := fmt.Sprintf("http %s on %q at %s for keys %v", j.consumer, inst, x.h.Short(v), j.keysReq)
	extra := map[string]interface{}{"layer": "http", "consumer": j.consumer, "instance": inst, "version": x.h.Short(v), "asked": j.keysReq, "status": r.Status, "body": drv.Trunc(string(r.Body), 600)}
	pre := "c05:http:" + j.consumer + ":"
	if !r.OK() {
		x.viol(pre+"unexpected-error", desc+": "+r.String(), extra)
		return
	}
	var kvs []kvwire.KV
	var err error
	var trailing []byte
	switch j.consumer {
	case "keyvalues-json":
		kvs, trailing, err = kvwire.DecodeJSONObject(r.Body)
	case "keyvalues-tar":
		kvs, trailing, err = kvwire.DecodeTar(r.Body)
	default:
		kvs, err = kvwire.DecodeKeyValues(r.Body)
	}
	if err != nil || len(trailing) > 0 {
		x.viol(pre+"malformed", fmt.Sprintf("%s: malformed response (%v, trailing %q)", desc, err, drv.Trunc(string(trailing), 100)), extra)
		return
	}
	if len(kvs) != len(j.keysReq) {
		x.viol(pre+"count", fmt.Sprintf("%s: %d entries returned for %d requested keys", desc, len(kvs), len(j.keysReq)), extra)
		return
	}
	for i, k := range j.keysReq {
		if kvs[i].K != k {
			x.viol(pre+"order", fmt.Sprintf("%s: entry %d is %q, requested %q", desc, i, kvs[i].K, k), extra)
			return
		}
		got := string(kvs[i].V)
		pt, known := p[k]
		want := ""
		if known && pt.Status == 200 {
			want = pt.Body
		} else if j.consumer == "keyvalues-json" {
			want = "{}"
		}
		if got != want {
			x.viol(pre+"wrong-value", fmt.Sprintf("%s: key %q returned %s, individual read gives %d %s", desc, k, drv.Trunc(got, 80), pt.Status, drv.Trunc(pt.Body, 80)), extra)
			return
		}
	}
}

// ---------- interval selection ----------

func (x *hist) httpIntervals(full bool, nKeyPairs, nEmpty, nExtra int) [][2]string {
	var ivs [][2]string
	if full {
		for i := range x.keys {
			for j := i; j < len(x.keys); j++ {
				ivs = append(ivs, [2]string{x.keys[i], x.keys[j]})
			}
		}
	} else {
		// boundary set: single-key and adjacent-key intervals, plus samples
		for i := range x.keys {
			ivs = append(ivs, [2]string{x.keys[i], x.keys[i]})
			if i+1 < len(x.keys) {
				ivs = append(ivs, [2]string{x.keys[i], x.keys[i+1]})
			}
		}
		for n := 0; n < nKeyPairs; n++ {
			i := x.r.Intn(len(x.keys))
			j := i + x.r.Intn(len(x.keys)-i)
			ivs = append(ivs, [2]string{x.keys[i], x.keys[j]})
		}
	}
	for n := 0; n < nEmpty; n++ { // lo > hi
		i := 1 + x.r.Intn(len(x.ends)-1)
		j := x.r.Intn(i)
		ivs = append(ivs, [2]string{x.ends[i], x.ends[j]})
	}
	for n := 0; n < nExtra && len(x.extras) > 0; n++ { // at least one end is not a key
		e := x.extras[x.r.Intn(len(x.extras))]
		o := x.ends[x.r.Intn(len(x.ends))]
		if x.r.Intn(2) == 0 {
			e, o = o, e
		}
		ivs = append(ivs, [2]string{e, o})
	}
	return ivs
}

func (x *hist) apiPairs(full bool, nSample int) [][2]int {
	var ps [][2]int
	ps = append(ps, [2]int{-1, -2}, [2]int{-2, -1})
	n := len(x.ends)
	if full {
		for i := 0; i < n; i++ {
			ps = append(ps, [2]int{-1, i}, [2]int{i, -2})
			for j := 0; j < n; j++ {
				ps = append(ps, [2]int{i, j})
			}
		}
		return ps
	}
	for i := 0; i < n; i++ {
		ps = append(ps, [2]int{i, i})
		if i+1 < n {
			ps = append(ps, [2]int{i, i + 1}, [2]int{i + 1, i})
		}
		if i%4 == 0 {
			ps = append(ps, [2]int{-1, i}, [2]int{i, -2})
		}
	}
	for k := 0; k < nSample; k++ {
		ps = append(ps, [2]int{x.r.Intn(n), x.r.Intn(n)})
	}
	return ps
}

// ---------- checks at one version ----------

type depth struct {
	full                 bool
	keyPairs, empty, ext int
	apiSample            int
}

func (x *hist) checkVersion(v string, d depth, countCases bool) error {
	// versioned instance
	p, err := x.points(v, "kv")
	if err != nil {
		return err
	}
	t := x.modelAt(v)
	x.checkPoints("kv", v, p, t)
	if err := x.apiCheck(v, "kv", false, x.apiPairs(d.full, d.apiSample), p, t, countCases); err != nil {
		return err
	}
	if err := x.httpCheck(v, "kv", x.httpIntervals(d.full, d.keyPairs, d.empty, d.ext), p, t, countCases); err != nil {
		return err
	}
	return nil
}

func (x *hist) checkUnversioned(v string, d depth) error {
	// instance created with versioned=false, seen through any uuid of the repo
	p, err := x.points(v, "ukv")
	if err != nil {
		return err
	}
	t := plainTruth(x.keys, x.uk)
	x.checkPoints("ukv", v, p, t)
	if err := x.apiCheck(v, "ukv", false, x.apiPairs(false, d.apiSample/2), p, t, true); err != nil {
		return err
	}
	if err := x.httpCheck(v, "ukv", x.httpIntervals(false, d.keyPairs/2, d.empty/2, d.ext/2), p, t, true); err != nil {
		return err
	}
	// unversioned storage context (storage.DataContext, version 0): the unversionedRange code path
	ta := plainTruth(x.keys, x.ak)
	return x.apiCheck(v, "akv", true, x.apiPairs(d.full, d.apiSample), nil, ta, true)
}

// matrix compares every (key, version) cell of the versioned instance with the model.
func (x *hist) matrix(where string) error {
	for _, v := range x.h.D.Order {
		p, err := x.points(v, "kv")
		if err != nil {
			return err
		}
		x.checkPoints(where, v, p, x.modelAt(v))
	}
	return nil
}

// ---------- history ops ----------

func (x *hist) pickBounds() (lo, hi bound) {
	n := len(x.ends)
	switch y := x.r.Intn(100); {
	case y < 12:
		return bound{Min: true}, bound{Max: true}
	case y < 20:
		return bound{Min: true}, bound{S: x.ends[x.r.Intn(n)]}
	case y < 28:
		return bound{S: x.ends[x.r.Intn(n)]}, bound{Max: true}
	case y < 36: // lo > hi: must delete nothing
		i := 1 + x.r.Intn(n-1)
		return bound{S: x.ends[i]}, bound{S: x.ends[x.r.Intn(i)]}
	case y < 46: // single key
		k := x.keys[x.r.Intn(len(x.keys))]
		return bound{S: k}, bound{S: k}
	}
	i := x.r.Intn(n)
	j := i + x.r.Intn(n-i)
	return bound{S: x.ends[i]}, bound{S: x.ends[j]}
}

func (x *hist) deleteRangeArgs(v, inst string, unv bool, lo, hi bound) map[string]interface{} {
	return map[string]interface{}{"uuid": v, "name": inst, "unversioned": unv, "lo": lo.S, "hi": hi.S, "lomin": lo.Min, "himax": hi.Max}
}

func (x *hist) opDeleteRange() error {
	open := x.h.D.Open()
	if len(open) == 0 {
		return nil
	}
	v := open[x.r.Intn(len(open))]
	lo, hi := x.pickBounds()
	return x.deleteRangeAt(v, lo, hi)
}

func (x *hist) deleteRangeAt(v string, lo, hi bound) error {
	t := x.modelAt(v)
	var present, conflicts []string
	for _, k := range x.keys {
		if inRange(k, lo, hi) {
			switch t[k].Kind {
			case dvc.Value:
				present = append(present, k)
			case dvc.Conflict:
				conflicts = append(conflicts, k)
			}
		}
	}
	var out struct {
		Err string `json:"err"`
	}
	if err := x.w.API("c05.deleterange", x.deleteRangeArgs(v, "kv", false, lo, hi), &out); err != nil {
		if ae, ok := err.(*drv.APIError); ok {
			x.viol("c05:api:DeleteRange:call-failed", "c05.deleterange failed: "+ae.Msg, nil)
			return nil
		}
		return err
	}
	x.log("deleterange [%s,%s]@%s", lo, hi, x.h.Short(v))
	x.c.Count("deleterange_calls", 1)
	x.c.Case(x.traceHash()+"|deleterange", len(present) > 0 && len(present) < len(x.keys))
	extra := map[string]interface{}{"version": x.h.Short(v), "lo": lo.String(), "hi": hi.String(), "present_in_interval": present, "conflict_keys_in_interval": conflicts, "err": out.Err}
	if len(conflicts) == 0 {
		if out.Err != "" {
			x.viol("c05:api:DeleteRange:unexpected-error", fmt.Sprintf("DeleteRange [%s,%s] at %s failed although no key of the interval is in conflict: %s", lo, hi, x.h.Short(v), out.Err), extra)
			return x.resync(v, present)
		}
		for _, k := range present {
			x.m.Del(k, v)
		}
		x.c.Count("deleterange_keys_deleted", len(present))
		// the frame condition: every (key, version) cell against the model — the interval's keys are gone at v and
		// at whatever inherits from v, every ancestor, sibling and key outside the interval is untouched
		return x.matrix("after-DeleteRange")
	}
	// a key of the interval is in an unresolved merge conflict at v: the scan cannot resolve it.
	x.c.Count("deleterange_with_conflict_key", 1)
	p, err := x.points(v, "kv")
	if err != nil {
		return err
	}
	var still []string
	for _, k := range present {
		if p[k].Status == 200 {
			still = append(still, k)
		}
	}
	if out.Err == "" && len(still) > 0 {
		extra["still_present"] = still
		x.viol("c05:conflict:api:DeleteRange:nil-error-partial-delete",
			fmt.Sprintf("DeleteRange [%s,%s] at %s returned nil but left keys %v of the interval readable at that version (keys %v of the interval are in merge conflict; the scan error is swallowed)", lo, hi, x.h.Short(v), still, conflicts), extra)
	}
	return x.resyncWith(v, present, p)
}

// resync makes the model follow what the implementation actually did after an already reported anomaly.
func (x *hist) resync(v string, cand []string) error {
	p, err := x.points(v, "kv")
	if err != nil {
		return err
	}
	return x.resyncWith(v, cand, p)
}

func (x *hist) resyncWith(v string, cand []string, p map[string]point) error {
	for _, k := range cand {
		if p[k].Status != 200 {
			x.m.Del(k, v)
		}
	}
	return nil
}

func (x *hist) opWrite() error {
	open := x.h.D.Open()
	if len(open) == 0 {
		return nil
	}
	v := open[x.r.Intn(len(open))]
	key := x.keys[x.r.Intn(len(x.keys))]
	switch y := x.r.Intn(100); {
	case y < 55:
		return x.put(key, v)
	case y < 70: // batch ingest through POST keyvalues (protobuf)
		n := 2 + x.r.Intn(3)
		var kvs []kvwire.KV
		used := map[string]bool{}
		for len(kvs) < n {
			k := x.keys[x.r.Intn(len(x.keys))]
			if used[k] {
				continue
			}
			used[k] = true
			kvs = append(kvs, kvwire.KV{K: k, V: []byte(x.value(k, v))})
		}
		rr, err := x.w.Post("/api/node/"+v+"/kv/keyvalues", kvwire.EncodeKeyValues(kvs))
		if err != nil {
			return err
		}
		if !rr.OK() {
			x.viol("c05:put-refused", "POST keyvalues at an open node refused: "+rr.String(), nil)
			return nil
		}
		var names []string
		for _, kv := range kvs {
			x.m.Put(kv.K, v, string(kv.V))
			names = append(names, kv.K)
		}
		x.log("putbatch %s@%s", strings.Join(names, ","), x.h.Short(v))
	default:
		rr, err := x.w.Delete("/api/node/" + v + "/kv/key/" + key)
		if err != nil {
			return err
		}
		if !rr.OK() {
			x.viol("c05:delete-refused", "DELETE key at an open node refused: "+rr.String(), nil)
			return nil
		}
		x.m.Del(key, v)
		x.log("del %s@%s", key, x.h.Short(v))
	}
	return nil
}

// neighbours: instances with id-1 ("kv0") and id+1 ("kv2") hold the same key names with other values,
// plus keys beyond both ends of the universe.
func (x *hist) opNeighbour() error {
	open := x.h.D.Open()
	if len(open) == 0 {
		return nil
	}
	v := open[x.r.Intn(len(open))]
	inst := []string{"kv0", "kv2"}[x.r.Intn(2)]
	pool := append(append([]string{}, x.keys...), "--", "~~~", "-", "~")
	key := pool[x.r.Intn(len(pool))]
	if x.r.Intn(5) == 0 {
		_, err := x.w.Delete("/api/node/" + v + "/" + inst + "/key/" + key)
		return err
	}
	_, err := x.w.Post("/api/node/"+v+"/"+inst+"/key/"+key, []byte(fmt.Sprintf(`{"v":"NEIGHBOUR-%s-%s"}`, inst, key)))
	return err
}

func (x *hist) opUnversioned() error {
	v := x.h.D.Order[x.r.Intn(len(x.h.D.Order))]
	key := x.keys[x.r.Intn(len(x.keys))]
	switch y := x.r.Intn(100); {
	case y < 35: // HTTP on the versioned=false instance through any uuid
		x.seq++
		val := fmt.Sprintf(`{"u":"%s#%d"}`, key, x.seq)
		rr, err := x.w.Post("/api/node/"+v+"/ukv/key/"+key, []byte(val))
		if err != nil {
			return err
		}
		if rr.OK() {
			x.uk[key] = val
			x.log("uput %s via %s", key, x.h.Short(v))
		}
	case y < 45:
		rr, err := x.w.Delete("/api/node/" + v + "/ukv/key/" + key)
		if err != nil {
			return err
		}
		if rr.OK() {
			delete(x.uk, key)
			x.log("udel %s via %s", key, x.h.Short(v))
		}
	case y < 52:
		lo, hi := x.pickBounds()
		var out struct {
			Err string `json:"err"`
		}
		if err := x.w.API("c05.deleterange", x.deleteRangeArgs(v, "ukv", false, lo, hi), &out); err != nil {
			if _, ok := err.(*drv.APIError); !ok {
				return err
			}
			out.Err = err.Error()
		}
		x.log("udeleterange [%s,%s] via %s", lo, hi, x.h.Short(v))
		if out.Err != "" {
			x.viol("c05:api:DeleteRange:unexpected-error", "DeleteRange on the versioned=false instance failed: "+out.Err, nil)
			return nil
		}
		for _, k := range x.keys {
			if inRange(k, lo, hi) {
				delete(x.uk, k)
			}
		}
		x.c.Count("deleterange_calls_unversioned_instance", 1)
	case y < 82: // unversioned storage context
		x.seq++
		val := fmt.Sprintf(`{"a":"%s#%d"}`, key, x.seq)
		if err := x.w.API("c05.put", map[string]interface{}{"uuid": v, "name": "akv", "unversioned": true, "key": key, "val": val}, nil); err != nil {
			if _, ok := err.(*drv.APIError); !ok {
				return err
			}
			x.viol("c05:api:put-failed", "Put with an unversioned context failed: "+err.Error(), nil)
			return nil
		}
		x.ak[key] = val
		x.log("aput %s", key)
	case y < 92:
		if err := x.w.API("c05.del", map[string]interface{}{"uuid": v, "name": "akv", "unversioned": true, "key": key}, nil); err != nil {
			if _, ok := err.(*drv.APIError); !ok {
				return err
			}
			x.viol("c05:api:delete-failed", "Delete with an unversioned context failed: "+err.Error(), nil)
			return nil
		}
		delete(x.ak, key)
		x.log("adel %s", key)
	default:
		lo, hi := x.pickBounds()
		var out struct {
			Err string `json:"err"`
		}
		if err := x.w.API("c05.deleterange", x.deleteRangeArgs(v, "akv", true, lo, hi), &out); err != nil {
			if _, ok := err.(*drv.APIError); !ok {
				return err
			}
			out.Err = err.Error()
		}
		x.log("adeleterange [%s,%s]", lo, hi)
		if out.Err != "" {
			x.viol("c05:api:DeleteRange:unexpected-error", "DeleteRange with an unversioned context failed: "+out.Err, nil)
			return nil
		}
		for _, k := range x.keys {
			if inRange(k, lo, hi) {
				delete(x.ak, k)
			}
		}
		x.c.Count("deleterange_calls_unversioned_ctx", 1)
	}
	return nil
}

func newHistory(c *drv.Ctx, w *drv.Worker, r *rand.Rand, tag string, nkeys int) (*hist, error) {
	cl := &dvc.Client{W: w}
	h, err := dvc.NewHist(cl, r, tag)
	if err != nil {
		return nil, err
	}
	// three instances created back to back: sequential instance ids n, n+1, n+2; "kv" is the middle one
	for _, n := range []string{"kv0", "kv", "kv2"} {
		if err := cl.NewInstance(h.Root, "keyvalue", n, nil); err != nil {
			return nil, err
		}
	}
	if err := cl.NewInstance(h.Root, "keyvalue", "ukv", map[string]string{"versioned": "false"}); err != nil {
		return nil, err
	}
	if err := cl.NewInstance(h.Root, "keyvalue", "akv", nil); err != nil {
		return nil, err
	}
	x := &hist{c: c, w: w, r: r, tag: tag, h: h, m: dvc.NewVMap(h.D), uk: map[string]string{}, ak: map[string]string{}}
	x.keys, x.extras = buildUniverse(r, nkeys)
	x.ends = append(append([]string{}, x.keys...), x.extras...)
	sort.Strings(x.ends)
	// the neighbours really have instance ids id-1 and id+1
	var ids map[string]uint32
	if err := w.API("c05.instanceids", map[string]interface{}{"uuid": h.Root, "names": []string{"kv0", "kv", "kv2"}}, &ids); err != nil {
		return nil, err
	}
	if ids["kv"] == ids["kv0"]+1 && ids["kv2"] == ids["kv"]+1 {
		c.Count("histories_with_adjacent_instance_ids", 1)
	} else {
		c.Count("histories_without_adjacent_instance_ids", 1)
	}
	return x, nil
}

func (x *hist) put(key, v string) error {
	val := x.value(key, v)
	rr, err := x.w.Post("/api/node/"+v+"/kv/key/"+key, []byte(val))
	if err != nil {
		return err
	}
	if !rr.OK() {
		x.viol("c05:put-refused", "POST key at an open node refused: "+rr.String(), nil)
		return nil
	}
	x.m.Put(key, v, val)
	x.log("put %s@%s", key, x.h.Short(v))
	return nil
}

func runHistory(c *drv.Ctx, w *drv.Worker, r *rand.Rand, tag string, nops, nkeys int, final, mid depth) error {
	x, err := newHistory(c, w, r, tag, nkeys)
	if err != nil {
		return err
	}
	h := x.h
	// initial fill at the (open) root so that later versions inherit, override and delete
	for _, i := range r.Perm(len(x.keys))[:len(x.keys)/2] {
		if err := x.put(x.keys[i], h.Root); err != nil {
			return err
		}
	}

	for i := 0; i < nops; i++ {
		var err error
		switch y := r.Intn(100); {
		case y < 38:
			err = x.opWrite()
		case y < 46:
			err = x.opDeleteRange()
		case y < 55:
			err = x.opUnversioned()
		case y < 62:
			err = x.opNeighbour()
		case y < 88:
			if _, e := h.StepDAG(); e != nil {
				if dvc.IsWorkerErr(e) {
					return e
				}
				x.viol("c05:dag-op-refused", fmt.Sprintf("legal DAG operation refused: %v", e), nil)
			}
			x.pullOps()
		default: // interleaved range check at a random version
			v := h.D.Order[r.Intn(len(h.D.Order))]
			err = x.checkVersion(v, mid, false)
		}
		if err != nil {
			return err
		}
	}
	// final sweep: every version
	for _, v := range h.D.Order {
		if err := x.checkVersion(v, final, true); err != nil {
			return err
		}
	}
	// unversioned instances through the root, the newest and one random uuid
	vs := []string{h.Root, h.D.Order[len(h.D.Order)-1], h.D.Order[r.Intn(len(h.D.Order))]}
	for _, v := range vs {
		if err := x.checkUnversioned(v, final); err != nil {
			return err
		}
	}
	c.Seen("dag_shapes", h.D.Shape())
	c.Count("histories", 1)
	c.Count("history_ops", len(x.trace))
	c.Count("versions_swept", len(h.D.Order))
	nconf := 0
	for _, v := range h.D.Order {
		for _, cl := range x.modelAt(v) {
			if cl.Kind == dvc.Conflict {
				nconf++
			}
		}
	}
	c.Count("key_version_cells_in_conflict", nconf)
	if c.SeenCount("dag_shapes") <= 2 {
		c.Sample(map[string]interface{}{"history": tag, "dag": h.D.Shape(), "keys": x.keys, "interval_ends_not_keys": x.extras, "trace": x.trace})
	}
	return nil
}

// directed: the smallest history with an unresolved merge conflict inside an interval.
//
//	n0: put a0, b, k1; commit.  n1 = branch(n0): put a0, put k10; commit.  n2 = branch(n0): put a0; commit.
//	n3 = merge(n1, n2): a0 has two unsuperseded values; b, k1 (from n0) and k10 (from n1) are readable.
//
// Every consumer is run at every version, then DeleteRange [a, k10] at the open merge node.
func directed(c *drv.Ctx, w *drv.Worker, final depth) error {
	x, err := newHistory(c, w, rand.New(rand.NewSource(7)), "directed", len(baseKeys))
	if err != nil {
		return err
	}
	h := x.h
	step := func(e error) bool { err = e; return e == nil }
	var n1, n2, n3 string
	ok := step(x.put("a0", h.Root)) && step(x.put("b", h.Root)) && step(x.put("k1", h.Root)) && step(h.CommitNode(h.Root))
	if ok {
		n1, err = h.BranchOf(h.Root)
		ok = err == nil && step(x.put("a0", n1)) && step(x.put("k10", n1)) && step(h.CommitNode(n1))
	}
	if ok {
		n2, err = h.BranchOf(h.Root)
		ok = err == nil && step(x.put("a0", n2)) && step(h.CommitNode(n2))
	}
	if ok {
		n3, err = h.MergeOf([]string{n1, n2})
	}
	if err != nil {
		if dvc.IsWorkerErr(err) {
			return err
		}
		return fmt.Errorf("directed scenario could not be built: %v", err)
	}
	x.pullOps()
	for _, v := range h.D.Order {
		if err := x.checkVersion(v, final, true); err != nil {
			return err
		}
	}
	if err := x.deleteRangeAt(n3, bound{S: "a"}, bound{S: "k10"}); err != nil {
		return err
	}
	for _, v := range h.D.Order {
		if err := x.checkVersion(v, final, true); err != nil {
			return err
		}
	}
	c.Count("directed_scenarios", 1)
	return nil
}

// ---------- run ----------

func run(c *drv.Ctx) error {
	c.Rule("random legal interleavings of put / batch put / delete / DeleteRange / commit / newversion / branch / merge on a versioned keyvalue instance " +
		"(neighbour instances with instance id -1 and +1 hold the same key names; a versioned=false instance and an instance used only through an unversioned storage context run alongside), " +
		"plus one directed history whose merge node holds an unresolved conflict inside the scanned interval (regression for swallowed scan errors); " +
		"a case is one (history state, instance, version, interval [lo,hi]) evaluated by every consumer (storage API GetRange/KeysInRange/SendKeysInRange/ProcessRange, " +
		"HTTP keys/keyrange/keyrangevalues json,tar,protobuf) against the individual reads and the versioned-map model, or one DeleteRange call; interval ends range over all keys of a prefix-related " +
		"universe plus non-key strings, incl. lo>hi, single-key and whole-class intervals; " +
		"non-trivial: the interval contains a datum with stored entries whose resolution at that version is not its own single entry (inherited, overwritten, tombstoned, other-branch-only or conflicting); " +
		"for unversioned instances: the interval splits the present keys; for DeleteRange: the interval holds some but not all keys present at the version; " +
		"distinct by (hash of the operation trace, instance, version, lo, hi)")
	c.Assume("wrapper engines add no semantics: crashkv delegates every call to storage/badger")
	c.Assume("URL keys are restricted to [a-z0-9~_-] (hostile keys belong to C06/C20)")
	c.Assume("for a key whose point read is an unresolved merge conflict, a range over it may fail or omit it (DESIGN Appendix A); silently truncated successes are reported under c05:conflict:* keys")
	bin, err := c.Build("dvidw", "")
	if err != nil {
		return err
	}
	nh := c.N(30, 500)
	nkeys := c.N(12, 40)
	final := depth{full: true, empty: 12, ext: 24}
	mid := depth{full: false, keyPairs: 6, empty: 2, ext: 4, apiSample: 20}
	if !c.Quick() {
		final = depth{full: false, keyPairs: 60, empty: 12, ext: 24, apiSample: 400}
	}
	c.Extra("universe_size", nkeys)
	seeds := make([]int64, nh)
	for i := range seeds {
		seeds[i] = c.Rand.Int63()
	}
	nw := 6
	if !c.Quick() {
		nw = 10
	}
	hch := make(chan int, nh)
	for i := 0; i < nh; i++ {
		hch <- i
	}
	close(hch)
	var wg sync.WaitGroup
	errs := make(chan error, nw+4)
	for wi := 0; wi < nw; wi++ {
		wg.Add(1)
		go func(wi int) {
			defer wg.Done()
			dir, err := c.NewDataDir(fmt.Sprintf("w%d", wi), drv.ConfOpts{IIDGen: "sequential"})
			if err != nil {
				errs <- err
				return
			}
			w, err := drv.StartWorker(bin, dir, drv.StartOpts{})
			if err != nil {
				errs <- err
				return
			}
			defer w.Kill()
			if wi == 0 {
				if err := directed(c, w, depth{full: true, empty: 12, ext: 24}); err != nil {
					errs <- fmt.Errorf("directed scenario: %v; stderr: %s", err, drv.Trunc(drv.FatalInStderr(w.Stderr()), 1500))
					return
				}
			}
			if wi == 1 {
				sizes := [][2]int{{1000, 1000}, {2100, 2000}, {1001, 1001}}
				if !c.Quick() {
					sizes = append(sizes, [2]int{999, 999}, [2]int{3000, 3000}, [2]int{2500, 1000}, [2]int{1, 1}, [2]int{10001, 10000}, [2]int{1500 + int(seeds[0]%700), 1000 + int(seeds[0]%400)})
				}
				if err := bulk(c, w, sizes); err != nil {
					errs <- fmt.Errorf("bulk intervals: %v; stderr: %s", err, drv.Trunc(drv.FatalInStderr(w.Stderr()), 1500))
					return
				}
			}
			for i := range hch {
				rr := rand.New(rand.NewSource(seeds[i]))
				if err := runHistory(c, w, rr, fmt.Sprintf("h%d", i), 70+rr.Intn(50), nkeys, final, mid); err != nil {
					errs <- fmt.Errorf("worker %d history %d: %v; stderr: %s", wi, i, err, drv.Trunc(drv.FatalInStderr(w.Stderr()), 1500))
					return
				}
			}
		}(wi)
	}
	wg.Wait()
	close(errs)
	var all []string
	for e := range errs {
		all = append(all, e.Error())
	}
	if len(all) > 0 {
		sort.Strings(all)
		return fmt.Errorf("%s", strings.Join(all, " | "))
	}
	return nil
}
