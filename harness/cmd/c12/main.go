// C12 — server-issued identifiers are unique and only move forward.
// Oracle: offline checker over the id event log recorded at the client boundary (every response field
// carrying an id, with call/return stamps and process epoch): uniqueness by set, monotonicity in
// real-time (issue) order, freshness against every label the volume ever held; across sequential
// histories, concurrent allocation phases, restarts and crashes at every write of an allocation script.
package main

import (
	"encoding/json"
	"fmt"
	"math/rand"
	"os"
	"sort"
	"strconv"
	"strings"
	"sync"
	"time"

	"verif/harness/internal/drv"
	"verif/harness/internal/dvc"
	"verif/harness/internal/mixed"
)

func main() { drv.Main("C12", "fault_enumeration", run) }

// ev is one issued identifier with the interval of the request that produced it.
type ev struct {
	Kind  string // mutid | label
	ID    uint64
	T0    int64 // call stamp (ns); for sequential requests the driver's logical clock
	T1    int64 // return stamp
	Epoch int   // process epoch (stamps are only comparable inside an epoch; epochs are ordered)
	Op    string
}

type idlog struct {
	mu    sync.Mutex
	evs   []ev
	clock int64
}

func (l *idlog) tick() int64 { l.clock += 10; return l.clock }

func (l *idlog) add(e ev) { l.mu.Lock(); l.evs = append(l.evs, e); l.mu.Unlock() }

// check returns violations: duplicates, and pairs where A returned before B was called (or A is in an
// earlier epoch) yet id(A) >= id(B).
func (l *idlog) check(kind string) []string {
	var es []ev
	for _, e := range l.evs {
		if e.Kind == kind {
			es = append(es, e)
		}
	}
	var bad []string
	seen := map[uint64]ev{}
	for _, e := range es {
		if p, dup := seen[e.ID]; dup {
			bad = append(bad, fmt.Sprintf("duplicate %s %d issued by %q (epoch %d) and by %q (epoch %d)", kind, e.ID, p.Op, p.Epoch, e.Op, e.Epoch))
		}
		seen[e.ID] = e
	}
	// sweep: sort by (epoch, T1); for each event B find max id among events that returned before B's call
	byRet := append([]ev{}, es...)
	sort.Slice(byRet, func(i, j int) bool {
		if byRet[i].Epoch != byRet[j].Epoch {
			return byRet[i].Epoch < byRet[j].Epoch
		}
		return byRet[i].T1 < byRet[j].T1
	})
	byCall := append([]ev{}, es...)
	sort.Slice(byCall, func(i, j int) bool {
		if byCall[i].Epoch != byCall[j].Epoch {
			return byCall[i].Epoch < byCall[j].Epoch
		}
		return byCall[i].T0 < byCall[j].T0
	})
	i := 0
	var maxEv *ev
	for _, b := range byCall {
		for i < len(byRet) && (byRet[i].Epoch < b.Epoch || (byRet[i].Epoch == b.Epoch && byRet[i].T1 < b.T0)) {
			if maxEv == nil || byRet[i].ID > maxEv.ID {
				e := byRet[i]
				maxEv = &e
			}
			i++
		}
		if maxEv != nil && maxEv.ID >= b.ID && !(maxEv.ID == b.ID) {
			bad = append(bad, fmt.Sprintf("%s went backwards: %d (%q, epoch %d) was issued strictly before %d (%q, epoch %d)", kind, maxEv.ID, maxEv.Op, maxEv.Epoch, b.ID, b.Op, b.Epoch))
		}
	}
	return bad
}

type hist struct {
	c       *drv.Ctx
	w       *drv.Worker
	wd      *mixed.World
	log     *idlog
	epoch   int
	seenW   int // wd.IDs consumed
	verIDs  map[uint32]string
	repoIDs map[string]string // repo id (hex) -> root uuid
	instIDs map[uint32]string // instance id -> root/name
	nprobe  int
	maxLab  uint64 // largest label known to be present in the volume (ingested or allocated)
	tag     string
	setNL   bool
}

// absorb moves ids recorded by the world (sequential requests) into the log with logical stamps.
func (h *hist) absorb() {
	for ; h.seenW < len(h.wd.IDs); h.seenW++ {
		e := h.wd.IDs[h.seenW]
		if e.Kind != "mutid" && e.Kind != "label" {
			continue
		}
		t := h.log.clock + int64(e.Seq)*10
		h.log.add(ev{Kind: e.Kind, ID: e.ID, T0: t, T1: t + 5, Epoch: h.epoch, Op: e.Op})
		if e.Kind == "label" {
			h.c.Count("labels_issued", 1)
		} else {
			h.c.Count("mutation_ids_issued", 1)
		}
	}
}

func (h *hist) viol(key, what string) {
	tr := h.wd.Trace
	if len(tr) > 40 {
		tr = tr[len(tr)-40:]
	}
	h.c.Violation(key, what, map[string]interface{}{"history": h.tag, "last_requests": tr})
}

// freshness: every label handed out since `from` must exceed every label present before it was handed out.
func (h *hist) fresh(from int) {
	for _, e := range h.wd.IDs[from:] {
		if e.Kind != "label" {
			continue
		}
		if !h.setNL && e.ID <= h.maxLab {
			h.viol("label-not-fresh:"+e.Op, fmt.Sprintf("%s allocated label %d although label %d is already present in the volume", e.Op, e.ID, h.maxLab))
		}
	}
	for _, e := range h.wd.IDs[from:] {
		if e.Kind == "label" && e.ID > h.maxLab {
			h.maxLab = e.ID
		}
	}
}

func (h *hist) versionIDs() error {
	repos, _, err := (&dvc.Client{W: h.w}).Repos()
	if err != nil {
		return err
	}
	for _, ri := range repos {
		if ri == nil {
			continue
		}
		for _, n := range ri.DAG.Nodes {
			if u, ok := h.verIDs[n.VersionID]; ok && u != n.UUID {
				h.viol("version-id-reissued", fmt.Sprintf("version id %d named %s earlier and now names %s", n.VersionID, u, n.UUID))
			}
			h.verIDs[n.VersionID] = n.UUID
		}
	}
	h.c.Count("version_id_observations", len(h.verIDs))
	return nil
}

// idProbe creates a repo and a keyvalue instance and reads their server-issued local ids from the
// store write log of the wrapping engine (repo id = tkey of the repo metadata key, instance id = id in the data key).
func (h *hist) idProbe() error {
	h.w.Audit() // drain
	h.nprobe++
	cl := &dvc.Client{W: h.w}
	root, err := cl.NewRepo(fmt.Sprintf("probe-%s-%d", h.tag, h.nprobe))
	if err != nil {
		return err
	}
	name := fmt.Sprintf("p%d", h.nprobe)
	if err := cl.NewInstance(root, "keyvalue", name, nil); err != nil {
		return err
	}
	if _, err := h.w.Post("/api/node/"+root+"/"+name+"/key/k", []byte("v")); err != nil {
		return err
	}
	evs, err := h.w.Audit()
	if err != nil {
		return err
	}
	for _, e := range evs {
		if e.Space == "metadata" && e.Class == 4 && len(e.TKey) == 12 && strings.Contains(e.Req, "/api/repos") {
			id := e.TKey[4:]
			if prev, ok := h.repoIDs[id]; ok && prev != root {
				h.viol("repo-id-reissued", fmt.Sprintf("repo id %s was issued to repo %s and again to %s", id, prev, root))
			}
			h.repoIDs[id] = root
			h.c.Count("repo_ids_observed", 1)
		}
		if e.Space == "data" && e.Op == "put" && strings.Contains(e.Req, "/"+name+"/key/k") {
			if prev, ok := h.instIDs[e.Inst]; ok && prev != root+"/"+name {
				h.viol("instance-id-reissued", fmt.Sprintf("instance id %d was issued to %s and again to %s/%s", e.Inst, prev, root, name))
			}
			h.instIDs[e.Inst] = root + "/" + name
			h.c.Count("instance_ids_observed", 1)
		}
	}
	return nil
}

func (h *hist) parPhase(u string) error {
	used := map[uint64]bool{}
	var plans []*mixed.Plan
	n := 3 + h.wd.R.Intn(6)
	for i := 0; i < n; i++ {
		var p *mixed.Plan
		switch h.wd.R.Intn(4) {
		case 0:
			p = h.wd.PlanNextLabel(u, 1+h.wd.R.Intn(3))
		case 1:
			p = h.wd.PlanCleave(u, used)
		case 2:
			p = h.wd.PlanSplitSV(u, used)
		default:
			p = h.wd.PlanMerge(u, used)
		}
		if p == nil {
			p = h.wd.PlanNextLabel(u, 1)
		}
		plans = append(plans, p)
	}
	return h.parRun(plans)
}

// maxlabelRace: label reservations racing with requests that raise the repo-wide maximum label by other routes
// (POST maxlabel just above the last reserved label).  Whatever the interleaving, reserved ranges never overlap and never
// go backwards.
func (h *hist) maxlabelRace(u string, rounds int) error {
	var out struct {
		Ranges []struct {
			Start, End uint64
			T0, T1     int64
			Status     int
		} `json:"ranges"`
		Pushes     int64 `json:"pushes"`
		PushErrors int64 `json:"push_errors"`
	}
	if err := h.w.API("c12.hammer", map[string]interface{}{"uuid": u, "name": "lm", "reservations": rounds, "k": 3, "pushers": 4}, &out); err != nil {
		return err
	}
	from := len(h.wd.IDs)
	base := h.log.clock + 1000
	var maxT int64
	for _, rg := range out.Ranges {
		if rg.Status != 200 {
			continue
		}
		for l := rg.Start; l <= rg.End && l < rg.Start+16; l++ {
			h.wd.IDs = append(h.wd.IDs, mixed.IDEvent{Kind: "label", ID: l, Scope: "lm", Seq: h.wd.Seq, Epoch: h.w.Epoch, Op: "nextlabel-under-maxlabel-pressure"})
			h.log.add(ev{Kind: "label", ID: l, T0: base + rg.T0, T1: base + rg.T1, Epoch: h.epoch, Op: "hammer:nextlabel"})
			h.c.Count("ids_issued_concurrently", 1)
		}
		if rg.T1 > maxT {
			maxT = rg.T1
		}
	}
	h.seenW = len(h.wd.IDs)
	h.log.clock = base + maxT + 1000
	h.c.Count("maxlabel_race_reservations", len(out.Ranges))
	h.c.Count("maxlabel_race_pushes", int(out.Pushes))
	h.fresh(from)
	return nil
}

func (h *hist) parRun(plans []*mixed.Plan) error { return h.parRunOpt(plans, true) }

func (h *hist) parRunOpt(plans []*mixed.Plan, settle bool) error {
	reqs := make([]drv.Req, len(plans))
	for i, p := range plans {
		reqs[i] = p.Req
	}
	resps, err := h.w.Par(reqs)
	if err != nil {
		return err
	}
	from := len(h.wd.IDs)
	base := h.log.clock + 1000
	var maxT int64
	kinds := map[string]int{}
	for i, p := range plans {
		n0 := len(h.wd.IDs)
		h.wd.ApplyPar(p, resps[i])
		for _, e := range h.wd.IDs[n0:] {
			if e.Kind == "mutid" || e.Kind == "label" {
				h.log.add(ev{Kind: e.Kind, ID: e.ID, T0: base + resps[i].T0, T1: base + resps[i].T1, Epoch: h.epoch, Op: "par:" + e.Op})
				h.c.Count("ids_issued_concurrently", 1)
			}
		}
		if resps[i].T1 > maxT {
			maxT = resps[i].T1
		}
		if resps[i].OK() {
			kinds[p.Kind]++
		}
	}
	h.seenW = len(h.wd.IDs)
	h.log.clock = base + maxT + 1000
	var ks []string
	for k, v := range kinds {
		ks = append(ks, fmt.Sprintf("%s×%d", k, v))
	}
	sort.Strings(ks)
	h.c.Seen("concurrent_phase_mixes", strings.Join(ks, ","))
	if settle {
		if err := h.w.Settle(); err != nil {
			return err
		}
	}
	h.fresh(from)
	return nil
}

func history(c *drv.Ctx, bin string, seed int64, idx int) error {
	r := rand.New(rand.NewSource(seed))
	dir, err := c.NewDataDir(fmt.Sprintf("h%d", idx), drv.ConfOpts{})
	if err != nil {
		return err
	}
	w, err := drv.StartWorker(bin, dir, drv.StartOpts{})
	if err != nil {
		return err
	}
	defer func() { w.Kill() }()
	wd, err := mixed.New(w, r, mixed.Opts{Types: []string{"lm", "img", "kv"}, Tag: fmt.Sprint(idx)})
	if err != nil {
		return fmt.Errorf("setup: %v", err)
	}
	h := &hist{c: c, w: w, wd: wd, log: &idlog{}, epoch: 1, verIDs: map[uint32]string{}, repoIDs: map[string]string{}, instIDs: map[uint32]string{}, maxLab: wd.MaxLabelSeen(), tag: fmt.Sprintf("h%d", idx)}
	steps := c.N(30, 60)
	for i := 0; i < steps; i++ {
		open := wd.OpenDataNodes()
		from := len(wd.IDs)
		x := r.Intn(100)
		switch {
		case x < 12 && len(open) > 0: // ingest an arbitrary large label, settled, then allocate
			big := h.maxLab + 1 + uint64(r.Int63n(5_000_000_000))
			bc := [3]int{r.Intn(2), r.Intn(2), r.Intn(2)}
			rr, err := wd.IngestBigLabel(open[0], bc, big)
			if err != nil {
				return err
			}
			if rr.OK() {
				if err := w.Settle(); err != nil {
					return err
				}
				if big > h.maxLab {
					h.maxLab = big
				}
				c.Count("big_label_ingests", 1)
			}
		case x < 30 && len(open) > 0:
			if err := h.parPhase(open[r.Intn(len(open))]); err != nil {
				return fmt.Errorf("par phase: %v; stderr: %s", err, drv.FatalInStderr(w.Stderr()))
			}
			c.Count("concurrent_phases", 1)
			from = len(wd.IDs)
		case x >= 44 && x < 62 && len(open) > 0:
			if err := h.maxlabelRace(open[r.Intn(len(open))], envInt("C12_RACE_ROUNDS", c.N(150, 600))); err != nil {
				return fmt.Errorf("maxlabel race: %v; stderr: %s", err, drv.FatalInStderr(w.Stderr()))
			}
			from = len(wd.IDs)
		case x < 44 && x >= 38:
			if err := h.idProbe(); err != nil {
				if dvc.IsWorkerErr(err) {
					return fmt.Errorf("id probe: %v", err)
				}
				h.viol("id-probe-refused", fmt.Sprintf("creating a repo/instance was refused: %v", err))
			}
		case x < 38: // restart
			if err := w.Settle(); err != nil {
				return err
			}
			mode := []string{"clean", "abrupt", "sigkill"}[r.Intn(3)]
			switch mode {
			case "clean":
				w.Exit("clean")
			case "abrupt":
				w.Exit("abrupt")
			default:
				w.Kill()
			}
			w2, err := drv.StartWorker(bin, dir, drv.StartOpts{})
			if err != nil {
				return fmt.Errorf("restart (%s): %v", mode, err)
			}
			w = w2
			h.w, wd.W, wd.C.W = w2, w2, w2
			h.epoch++
			c.Seen("restart_modes", mode)
			c.Count("restarts", 1)
		default:
			d, err := wd.Step()
			if err != nil {
				return fmt.Errorf("step %s: %v; stderr: %s", d, err, drv.FatalInStderr(w.Stderr()))
			}
		}
		h.absorb()
		h.fresh(from)
		if i%6 == 5 {
			if err := h.versionIDs(); err != nil {
				return err
			}
		}
	}
	if err := h.versionIDs(); err != nil {
		return err
	}
	for _, kind := range []string{"mutid", "label"} {
		for _, b := range h.log.check(kind) {
			k := strings.Fields(b)[0] + "-" + kind
			if strings.Contains(b, "went backwards") {
				k = "went-backwards-" + kind
			}
			h.viol(k, b)
		}
	}
	nl, nm := 0, 0
	for _, e := range h.log.evs {
		if e.Kind == "label" {
			nl++
		} else {
			nm++
		}
	}
	c.Case(fmt.Sprintf("history|%d|%d|%d", idx, nl, nm), nl+nm >= 4)
	if idx == 0 {
		var sample []string
		for i, e := range h.log.evs {
			if i < 12 {
				sample = append(sample, fmt.Sprintf("%s=%d epoch%d %s", e.Kind, e.ID, e.Epoch, e.Op))
			}
		}
		c.Sample(map[string]interface{}{"history": idx, "first_id_events": sample, "epochs": h.epoch})
	}
	return nil
}

// ---- crash sweep over an allocation script ----

type allocOut struct {
	Labels []uint64
	MutIDs []uint64
	VerIDs map[uint32]string
}

// script: deterministic sequence of allocations; returns what was acknowledged (stops at worker death).
func script(w *drv.Worker, seed int64, nImg int, existing *mixed.World) (*mixed.World, *allocOut, bool, error) {
	out := &allocOut{VerIDs: map[uint32]string{}}
	var wd *mixed.World
	var err error
	if existing == nil {
		wd, err = mixed.New(w, rand.New(rand.NewSource(seed)), mixed.Opts{Types: []string{"lm", "img"}, Tag: "a"})
		if err != nil {
			return nil, out, w.Dead(), errIfAlive(w, err)
		}
	} else {
		wd = existing
	}
	collect := func() {
		for _, e := range wd.IDs {
			if e.Kind == "label" {
				out.Labels = append(out.Labels, e.ID)
			} else if e.Kind == "mutid" {
				out.MutIDs = append(out.MutIDs, e.ID)
			}
		}
		wd.IDs = nil
	}
	step := func(p *mixed.Plan) (bool, error) {
		if p == nil {
			return true, nil
		}
		if _, err := wd.Exec(p); err != nil {
			collect()
			return false, errIfAlive(w, err)
		}
		if err := w.Settle(); err != nil {
			collect()
			return false, errIfAlive(w, err)
		}
		return true, nil
	}
	u := wd.OpenDataNodes()
	if len(u) == 0 {
		return wd, out, false, fmt.Errorf("no open node")
	}
	v := u[0]
	// cheap mutation-id consumers (imageblk posts draw a mutation id each) to approach the persistence stride
	buf := make([]byte, 32*32*32)
	for i := 0; i < nImg; i++ {
		if _, err := w.Post(fmt.Sprintf("/api/node/%s/img/raw/0_1_2/32_32_32/0_0_0", v), buf); err != nil {
			collect()
			return wd, out, w.Dead(), errIfAlive(w, err)
		}
	}
	used := map[uint64]bool{}
	plans := []func() *mixed.Plan{
		func() *mixed.Plan { return wd.PlanMerge(v, used) },
		func() *mixed.Plan { return wd.PlanMerge(v, used) },
		func() *mixed.Plan { return wd.PlanCleave(v, map[uint64]bool{}) },
		func() *mixed.Plan { return wd.PlanNextLabel(v, 2) },
		func() *mixed.Plan { return wd.PlanSplitSV(v, map[uint64]bool{}) },
		func() *mixed.Plan { return wd.PlanMerge(v, map[uint64]bool{}) },
		func() *mixed.Plan { return wd.PlanNextLabel(v, 1) },
		func() *mixed.Plan { return wd.PlanCleave(v, map[uint64]bool{}) },
	}
	for _, mk := range plans {
		ok, err := step(mk())
		if !ok {
			return wd, out, w.Dead(), err
		}
	}
	collect()
	return wd, out, false, nil
}

func errIfAlive(w *drv.Worker, err error) error {
	if w.Dead() {
		return nil
	}
	return err
}

func crashAlloc(c *drv.Ctx, bin string, seed int64, nImg int, n int64, name string) error {
	dir, err := c.NewDataDir(fmt.Sprintf("%s-%d", name, n), drv.ConfOpts{})
	if err != nil {
		return err
	}
	defer os.RemoveAll(dir)
	w, err := drv.StartWorker(bin, dir, drv.StartOpts{Crash: fmt.Sprintf("before:%d", n)})
	if err != nil && err != drv.ErrDied {
		return err
	}
	var wd *mixed.World
	var before *allocOut
	died := w.Dead()
	if !died {
		wd, before, died, err = script(w, seed, nImg, nil)
		if err != nil {
			w.Kill()
			return fmt.Errorf("crash script: %v", err)
		}
	}
	if !died {
		w.Kill()
		c.Count("alloc_crash_points_not_reached", 1)
		return nil
	}
	w.WaitExit(20 * time.Second)
	if wd == nil || len(wd.OpenDataNodes()) == 0 {
		c.Count("alloc_crash_in_setup", 1)
		return nil
	}
	w2, err := drv.StartWorker(bin, dir, drv.StartOpts{})
	if err != nil {
		c.Violation("restart-fails-after-alloc-crash", fmt.Sprintf("start after crash before write %d fails: %v; %s", n, err, drv.Trunc(drv.FatalInStderr(w2.Stderr()), 400)), map[string]interface{}{"seed": seed, "crash": n})
		return nil
	}
	defer w2.Kill()
	wd.W, wd.C.W = w2, w2
	// allocate again after recovery (fresh plans on the recovered state; failures of individual requests are fine)
	v := wd.OpenDataNodes()[0]
	var after allocOut
	wd.IDs = nil
	for i := 0; i < 4; i++ {
		for _, p := range []*mixed.Plan{wd.PlanNextLabel(v, 2), wd.PlanCleave(v, map[uint64]bool{}), wd.PlanMerge(v, map[uint64]bool{})} {
			if p == nil {
				continue
			}
			if _, err := wd.Exec(p); err != nil {
				return fmt.Errorf("allocation after recovery: %v; stderr %s", err, drv.FatalInStderr(w2.Stderr()))
			}
			w2.Settle()
		}
	}
	for _, e := range wd.IDs {
		if e.Kind == "label" {
			after.Labels = append(after.Labels, e.ID)
		} else if e.Kind == "mutid" {
			after.MutIDs = append(after.MutIDs, e.ID)
		}
	}
	c.Case(fmt.Sprintf("alloc-crash|%s|%d|%d|%d", name, n, len(before.Labels)+len(before.MutIDs), len(after.Labels)+len(after.MutIDs)), len(before.Labels)+len(before.MutIDs) > 0 && len(after.Labels)+len(after.MutIDs) > 0)
	c.Count("alloc_crash_runs", 1)
	maxOf := func(xs []uint64) uint64 {
		var m uint64
		for _, x := range xs {
			if x > m {
				m = x
			}
		}
		return m
	}
	wit := map[string]interface{}{"seed": seed, "img_posts": nImg, "crash_before_write": n, "acknowledged_before": before, "issued_after": after}
	if mb := maxOf(before.Labels); mb > 0 {
		for _, l := range after.Labels {
			if l <= mb {
				c.Violation("label-reissued-after-crash", fmt.Sprintf("after a crash before write %d label %d was allocated although labels up to %d were acknowledged before the crash", n, l, mb), wit)
				break
			}
		}
	}
	if mb := maxOf(before.MutIDs); mb > 0 {
		for _, m := range after.MutIDs {
			if m <= mb {
				c.Violation("mutid-reissued-after-crash", fmt.Sprintf("after a crash before write %d mutation id %d was issued although ids up to %d were acknowledged before the crash", n, m, mb), wit)
				break
			}
		}
	}
	return nil
}

func run(c *drv.Ctx) error {
	c.Rule("id event log at the client boundary: MutationID / CleavedLabel / SplitSupervoxel / RemainSupervoxel / nextlabel start..end fields of acknowledged responses, VersionIDs from repos/info; " +
		"sequential mixed histories with ingests of arbitrary large labels, concurrent allocation phases (3-8 simultaneous nextlabel/cleave/split-supervoxel/merge through one barrier, stamps from the worker's monotonic clock), restarts (clean/abrupt/SIGKILL), " +
		"plus a crash sweep: an allocation script (N imageblk posts to approach the mutation-id persistence stride, then merges/cleaves/nextlabel/split) is killed before every store write and allocations continue after recovery; " +
		"checker: uniqueness by set, strict increase in real-time order (interval sweep), freshness against the largest label present; a history is non-trivial when it issued >=4 ids")
	c.Assume("a label ingested through POST raw counts as present once the ingest has settled (allocation racing an unsettled ingest is counted, not judged)")
	bin, err := c.Build("dvidw", "")
	if err != nil {
		return err
	}
	nh := c.N(8, 200)
	var wg sync.WaitGroup
	var mu sync.Mutex
	var errs []string
	type job func() error
	jobs := make(chan job, 4096)
	for i := 0; i < nh; i++ {
		i := i
		seed := c.Rand.Int63()
		jobs <- func() error { return history(c, bin, seed, i) }
	}
	// two repositories whose repo ids, root version ids and positions differ; one scenario per restart mode
	for _, mode := range []string{"clean", "abrupt", "sigkill"} {
		mode := mode
		jobs <- func() error { return secondRepoMutationIDs(c, bin, mode) }
	}
	// crash sweeps: census the script's writes first
	for si, nImg := range []int{0, 97} {
		if c.Quick() && si == 1 {
			nImg = 98
		}
		seed := c.Rand.Int63()
		dir, err := c.NewDataDir(fmt.Sprintf("census%d", si), drv.ConfOpts{})
		if err != nil {
			return err
		}
		w, err := drv.StartWorker(bin, dir, drv.StartOpts{})
		if err != nil {
			return err
		}
		wd, _, _, err := script(w, seed, 0, nil)
		_ = wd
		setupW := int64(0)
		if err != nil {
			w.Kill()
			return fmt.Errorf("alloc census: %v", err)
		}
		w.Kill()
		// second census run to learn where the allocation part starts (after setup + img posts)
		dir2, _ := c.NewDataDir(fmt.Sprintf("census%db", si), drv.ConfOpts{})
		w, err = drv.StartWorker(bin, dir2, drv.StartOpts{})
		if err != nil {
			return err
		}
		wdx, err := mixed.New(w, rand.New(rand.NewSource(seed)), mixed.Opts{Types: []string{"lm", "img"}, Tag: "a"})
		if err != nil {
			w.Kill()
			return err
		}
		setupW = w.Writes
		_, _, _, err = script(w, seed, nImg, wdx)
		total := w.Writes
		w.Kill()
		if err != nil {
			return fmt.Errorf("alloc census 2: %v", err)
		}
		c.Count(fmt.Sprintf("alloc_script%d_writes", si), int(total-setupW))
		stride := int64(1)
		if c.Quick() && total-setupW > 70 {
			stride = (total-setupW)/70 + 1
		}
		name := fmt.Sprintf("alloc%d", si)
		for n := setupW + 1; n <= total; n += stride {
			n := n
			nImg := nImg
			jobs <- func() error { return crashAlloc(c, bin, seed, nImg, n, name) }
		}
	}
	close(jobs)
	for k := 0; k < 10; k++ {
		wg.Add(1)
		go func() {
			defer wg.Done()
			for j := range jobs {
				if err := j(); err != nil {
					mu.Lock()
					errs = append(errs, err.Error())
					mu.Unlock()
				}
			}
		}()
	}
	wg.Wait()
	if len(errs) > 0 {
		sort.Strings(errs)
		return fmt.Errorf("%s", drv.Trunc(strings.Join(errs, " | "), 3000))
	}
	_ = json.Marshal
	return nil
}

func envInt(name string, dflt int) int {
	if s := os.Getenv(name); s != "" {
		if v, err := strconv.Atoi(s); err == nil {
			return v
		}
	}
	return dflt
}
