package main

import (
	"bytes"
	"fmt"

	"verif/harness/internal/drv"
	"verif/harness/internal/dvc"
)

// secondRepoMutationIDs: mutation ids are issued per repository from a persisted reservation.  In a server with one
// repository the repo's local id, its root's version id and its position in every list coincide (all 1), so a
// reservation filed under the wrong one of them goes unnoticed; here the second repository is created after the first
// one got extra versions (repo id 2, root version id >= 4).  More ids than one reservation stride (100) are issued in
// each repository, the server is restarted, and more are issued: per repository the id may only move forward, in every
// epoch, whatever the restart mode.
func secondRepoMutationIDs(c *drv.Ctx, bin string, mode string) error {
	dir, err := c.NewDataDir("tworepos-"+mode, drv.ConfOpts{})
	if err != nil {
		return err
	}
	w, err := drv.StartWorker(bin, dir, drv.StartOpts{})
	if err != nil {
		return err
	}
	defer func() { w.Kill() }()
	cl := &dvc.Client{W: w}
	rootA, err := cl.NewRepo("first")
	if err != nil {
		return err
	}
	if err := cl.Commit(rootA); err != nil {
		return err
	}
	a1, err := cl.NewVersion(rootA)
	if err != nil {
		return err
	}
	if err := cl.Commit(a1); err != nil {
		return err
	}
	a2, err := cl.NewVersion(a1)
	if err != nil {
		return err
	}
	rootB, err := cl.NewRepo("second")
	if err != nil {
		return err
	}
	cfg := map[string]string{"BlockSize": "32,32,32"}
	if err := cl.NewInstance(a2, "uint8blk", "img", cfg); err != nil {
		return err
	}
	if err := cl.NewInstance(rootB, "uint8blk", "img", cfg); err != nil {
		return err
	}
	body := bytes.Repeat([]byte{7}, 32*32*32)
	burn := func(u string, n int) error {
		for i := 0; i < n; i++ {
			r, err := w.Post(fmt.Sprintf("/api/node/%s/img/raw/0_1_2/32_32_32/%d_0_0", u, 32*(i%4)), body)
			if err != nil {
				return err
			}
			if !r.OK() {
				return fmt.Errorf("POST img/raw at %s: %s", u[:8], r)
			}
		}
		return nil
	}
	mutid := func() (map[string]uint64, error) {
		repos, _, err := cl.Repos()
		if err != nil {
			return nil, err
		}
		out := map[string]uint64{}
		for root, ri := range repos {
			out[root] = ri.MutationID
		}
		return out, nil
	}
	names := map[string]string{rootA: "first repo (repo id 1, root version 1)", rootB: "second repo (created after the first got two more versions)"}
	last, err := mutid()
	if err != nil {
		return err
	}
	check := func(when string) error {
		now, err := mutid()
		if err != nil {
			return err
		}
		for root, m := range now {
			c.Case(fmt.Sprintf("tworepos|%s|%s|%s", mode, when, names[root]), true)
			if m < last[root] {
				c.Violation("mutid-went-backwards:"+when, fmt.Sprintf("%s: mutation id %d %s, after ids up to %d had been issued (restart mode %s)", names[root], m, when, last[root], mode),
					map[string]interface{}{"mode": mode, "when": when, "repo": names[root], "before": last[root], "now": m})
			}
		}
		last = now
		return nil
	}
	for epoch := 0; epoch < 3; epoch++ {
		if err := burn(a2, 115); err != nil {
			return err
		}
		if err := burn(rootB, 130); err != nil {
			return err
		}
		if err := check(fmt.Sprintf("after writes of epoch %d", epoch)); err != nil {
			return err
		}
		if err := w.Settle(); err != nil {
			return err
		}
		switch mode {
		case "clean":
			w.Exit("clean")
		case "abrupt":
			w.Exit("abrupt")
		default:
			drv.WaitStoreIdle(dir, 10e9)
			w.Kill()
		}
		w2, err := drv.StartWorker(bin, dir, drv.StartOpts{})
		if err != nil {
			return fmt.Errorf("restart (%s): %v", mode, err)
		}
		w = w2
		cl.W = w2
		if err := check(fmt.Sprintf("right after restart %d", epoch+1)); err != nil {
			return err
		}
		if err := burn(rootB, 3); err != nil {
			return err
		}
		if err := burn(a2, 3); err != nil {
			return err
		}
		if err := check(fmt.Sprintf("after the first writes following restart %d", epoch+1)); err != nil {
			return err
		}
	}
	c.Count("two_repo_mutation_id_scenarios", 1)
	return nil
}
